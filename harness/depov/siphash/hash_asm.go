//go:build amd64 && !appengine && !gccgo
// +build amd64,!appengine,!gccgo

// Instrumented variant of hash_asm.go of github.com/dchest/siphash v1.2.3,
// used only by /verif checks that select it with -modfile: Hash is the
// unchanged assembly routine (renamed hashAsm in hash_amd64.s) behind a
// wrapper that calls an optional delay hook first.  The hook is nil unless a
// monitor installs one, in which case it runs before the hash is computed,
// i.e. wherever the code under test calls siphash.Hash - for instance between
// sampling the clock and taking the replay filter's lock.  Every other file
// of this directory is an unmodified copy of the module.

package siphash

import "sync/atomic"

var verifBeforeHash atomic.Value // of func()

// VerifSetBeforeHash installs (or, with nil, removes) the delay hook.
func VerifSetBeforeHash(f func()) {
	if f == nil {
		f = func() {}
	}
	verifBeforeHash.Store(f)
}

//go:noescape
func hashAsm(k0, k1 uint64, b []byte) uint64

// Hash returns the 64-bit SipHash-2-4 of the given byte slice with two 64-bit
// parts of 128-bit key: k0 and k1.
func Hash(k0, k1 uint64, b []byte) uint64 {
	if f := verifBeforeHash.Load(); f != nil {
		f.(func())()
	}
	return hashAsm(k0, k1, b)
}

//go:noescape

// Hash128 returns the 128-bit SipHash-2-4 of the given byte slice with two
// 64-bit parts of 128-bit key: k0 and k1.
func Hash128(k0, k1 uint64, b []byte) (uint64, uint64)
