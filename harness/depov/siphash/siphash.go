// Written in 2012-2014 by Dmitry Chestnykh.
//
// To the extent possible under law, the author have dedicated all copyright
// and related and neighboring rights to this software to the public domain
// worldwide. This software is distributed without any warranty.
// http://creativecommons.org/publicdomain/zero/1.0/

// Package siphash implements SipHash-2-4, a fast short-input PRF
// created by Jean-Philippe Aumasson and Daniel J. Bernstein.
package siphash

import "hash"

const (
	// BlockSize is the block size of hash algorithm in bytes.
	BlockSize = 8

	// Size is the size of hash output in bytes.
	Size = 8

	// Size128 is the size of 128-bit hash output in bytes.
	Size128 = 16
)

type digest struct {
	v0, v1, v2, v3 uint64  // state
	k0, k1         uint64  // two parts of key
	x              [8]byte // buffer for unprocessed bytes
	nx             int     // number of bytes in buffer x
	size           int     // output size in bytes (8 or 16)
	t              uint8   // message bytes counter (mod 256)
}

// newDigest returns a new digest with the given output size in bytes (must be 8 or 16).
func newDigest(size int, key []byte) *digest {
	if size != Size && size != Size128 {
		panic("size must be 8 or 16")
	}
	d := new(digest)
	d.k0 = uint64(key[0]) | uint64(key[1])<<8 | uint64(key[2])<<16 | uint64(key[3])<<24 |
		uint64(key[4])<<32 | uint64(key[5])<<40 | uint64(key[6])<<48 | uint64(key[7])<<56
	d.k1 = uint64(key[8]) | uint64(key[9])<<8 | uint64(key[10])<<16 | uint64(key[11])<<24 |
		uint64(key[12])<<32 | uint64(key[13])<<40 | uint64(key[14])<<48 | uint64(key[15])<<56
	d.size = size
	d.Reset()
	return d
}

// New returns a new hash.Hash64 computing SipHash-2-4 with 16-byte key and 8-byte output.
func New(key []byte) hash.Hash64 {
	return newDigest(Size, key)
}

// New128 returns a new hash.Hash computing SipHash-2-4 with 16-byte key and 16-byte output.
//
// Note that 16-byte output is considered experimental by SipHash authors at this time.
func New128(key []byte) hash.Hash {
	return newDigest(Size128, key)
}

func (d *digest) Reset() {
	d.v0 = d.k0 ^ 0x736f6d6570736575
	d.v1 = d.k1 ^ 0x646f72616e646f6d
	d.v2 = d.k0 ^ 0x6c7967656e657261
	d.v3 = d.k1 ^ 0x7465646279746573
	d.t = 0
	d.nx = 0
	if d.size == Size128 {
		d.v1 ^= 0xee
	}
}

func (d *digest) Size() int { return d.size }

func (d *digest) BlockSize() int { return BlockSize }

func (d *digest) Write(p []byte) (nn int, err error) {
	nn = len(p)
	d.t += uint8(nn)
	if d.nx > 0 {
		n := len(p)
		if n > BlockSize-d.nx {
			n = BlockSize - d.nx
		}
		d.nx += copy(d.x[d.nx:], p)
		if d.nx == BlockSize {
			once(d)
			d.nx = 0
		}
		p = p[n:]
	}
	if len(p) >= BlockSize {
		n := len(p) &^ (BlockSize - 1)
		blocks(d, p[:n])
		p = p[n:]
	}
	if len(p) > 0 {
		d.nx = copy(d.x[:], p)
	}
	return
}

func (d *digest) Sum64() uint64 {
	for i := d.nx; i < BlockSize-1; i++ {
		d.x[i] = 0
	}
	d.x[7] = d.t
	return finalize(d)
}

func (d0 *digest) sum128() (r0, r1 uint64) {
	// Make a copy of d0 so that caller can keep writing and summing.
	d := *d0

	for i := d.nx; i < BlockSize-1; i++ {
		d.x[i] = 0
	}
	d.x[7] = d.t
	blocks(&d, d.x[:])

	v0, v1, v2, v3 := d.v0, d.v1, d.v2, d.v3
	v2 ^= 0xee

	// Round 1.
	v0 += v1
	v1 = v1<<13 | v1>>(64-13)
	v1 ^= v0
	v0 = v0<<32 | v0>>(64-32)

	v2 += v3
	v3 = v3<<16 | v3>>(64-16)
	v3 ^= v2

	v0 += v3
	v3 = v3<<21 | v3>>(64-21)
	v3 ^= v0

	v2 += v1
	v1 = v1<<17 | v1>>(64-17)
	v1 ^= v2
	v2 = v2<<32 | v2>>(64-32)

	// Round 2.
	v0 += v1
	v1 = v1<<13 | v1>>(64-13)
	v1 ^= v0
	v0 = v0<<32 | v0>>(64-32)

	v2 += v3
	v3 = v3<<16 | v3>>(64-16)
	v3 ^= v2

	v0 += v3
	v3 = v3<<21 | v3>>(64-21)
	v3 ^= v0

	v2 += v1
	v1 = v1<<17 | v1>>(64-17)
	v1 ^= v2
	v2 = v2<<32 | v2>>(64-32)

	// Round 3.
	v0 += v1
	v1 = v1<<13 | v1>>(64-13)
	v1 ^= v0
	v0 = v0<<32 | v0>>(64-32)

	v2 += v3
	v3 = v3<<16 | v3>>(64-16)
	v3 ^= v2

	v0 += v3
	v3 = v3<<21 | v3>>(64-21)
	v3 ^= v0

	v2 += v1
	v1 = v1<<17 | v1>>(64-17)
	v1 ^= v2
	v2 = v2<<32 | v2>>(64-32)

	// Round 4.
	v0 += v1
	v1 = v1<<13 | v1>>(64-13)
	v1 ^= v0
	v0 = v0<<32 | v0>>(64-32)

	v2 += v3
	v3 = v3<<16 | v3>>(64-16)
	v3 ^= v2

	v0 += v3
	v3 = v3<<21 | v3>>(64-21)
	v3 ^= v0

	v2 += v1
	v1 = v1<<17 | v1>>(64-17)
	v1 ^= v2
	v2 = v2<<32 | v2>>(64-32)

	r0 = v0 ^ v1 ^ v2 ^ v3

	v1 ^= 0xdd

	// Round 1.
	v0 += v1
	v1 = v1<<13 | v1>>(64-13)
	v1 ^= v0
	v0 = v0<<32 | v0>>(64-32)

	v2 += v3
	v3 = v3<<16 | v3>>(64-16)
	v3 ^= v2

	v0 += v3
	v3 = v3<<21 | v3>>(64-21)
	v3 ^= v0

	v2 += v1
	v1 = v1<<17 | v1>>(64-17)
	v1 ^= v2
	v2 = v2<<32 | v2>>(64-32)

	// Round 2.
	v0 += v1
	v1 = v1<<13 | v1>>(64-13)
	v1 ^= v0
	v0 = v0<<32 | v0>>(64-32)

	v2 += v3
	v3 = v3<<16 | v3>>(64-16)
	v3 ^= v2

	v0 += v3
	v3 = v3<<21 | v3>>(64-21)
	v3 ^= v0

	v2 += v1
	v1 = v1<<17 | v1>>(64-17)
	v1 ^= v2
	v2 = v2<<32 | v2>>(64-32)

	// Round 3.
	v0 += v1
	v1 = v1<<13 | v1>>(64-13)
	v1 ^= v0
	v0 = v0<<32 | v0>>(64-32)

	v2 += v3
	v3 = v3<<16 | v3>>(64-16)
	v3 ^= v2

	v0 += v3
	v3 = v3<<21 | v3>>(64-21)
	v3 ^= v0

	v2 += v1
	v1 = v1<<17 | v1>>(64-17)
	v1 ^= v2
	v2 = v2<<32 | v2>>(64-32)

	// Round 4.
	v0 += v1
	v1 = v1<<13 | v1>>(64-13)
	v1 ^= v0
	v0 = v0<<32 | v0>>(64-32)

	v2 += v3
	v3 = v3<<16 | v3>>(64-16)
	v3 ^= v2

	v0 += v3
	v3 = v3<<21 | v3>>(64-21)
	v3 ^= v0

	v2 += v1
	v1 = v1<<17 | v1>>(64-17)
	v1 ^= v2
	v2 = v2<<32 | v2>>(64-32)

	r1 = v0 ^ v1 ^ v2 ^ v3

	return r0, r1
}

func (d *digest) Sum(in []byte) []byte {
	if d.size == Size {
		r := d.Sum64()
		in = append(in,
			byte(r),
			byte(r>>8),
			byte(r>>16),
			byte(r>>24),
			byte(r>>32),
			byte(r>>40),
			byte(r>>48),
			byte(r>>56))
	} else {
		r0, r1 := d.sum128()
		in = append(in,
			byte(r0),
			byte(r0>>8),
			byte(r0>>16),
			byte(r0>>24),
			byte(r0>>32),
			byte(r0>>40),
			byte(r0>>48),
			byte(r0>>56),
			byte(r1),
			byte(r1>>8),
			byte(r1>>16),
			byte(r1>>24),
			byte(r1>>32),
			byte(r1>>40),
			byte(r1>>48),
			byte(r1>>56))
	}
	return in
}
