//go:build amd64 && !appengine && !gccgo
// +build amd64,!appengine,!gccgo

#define ROUND(v0, v1, v2, v3) \
	ADDQ v1, v0; \
	RORQ $51, v1; \
	ADDQ v3, v2; \
	XORQ v0, v1; \
	RORQ $48, v3; \
	RORQ $32, v0; \
	XORQ v2, v3; \
	ADDQ v1, v2; \
	ADDQ v3, v0; \
	RORQ $43, v3; \
	RORQ $47, v1; \
	XORQ v0, v3; \
	XORQ v2, v1; \
	RORQ $32, v2

// blocks(d *digest, data []uint8)
TEXT ·blocks(SB),4,$0-32
	MOVQ d+0(FP), BX
	MOVQ 0(BX), R9		// R9 = v0
	MOVQ 8(BX), R10		// R10 = v1
	MOVQ 16(BX), R11	// R11 = v2
	MOVQ 24(BX), R12	// R12 = v3
	MOVQ p_base+8(FP), DI	// DI = *uint64
	MOVQ p_len+16(FP), SI	// SI = nblocks
	XORL DX, DX		// DX = index (0)
	SHRQ $3, SI 		// SI /= 8
body:
	CMPQ DX, SI
	JGE  end
	MOVQ 0(DI)(DX*8), CX	// CX = m
	XORQ CX, R12
	ROUND(R9, R10, R11, R12)
	ROUND(R9, R10, R11, R12)
	XORQ CX, R9
	ADDQ $1, DX
	JMP  body
end:
	MOVQ R9, 0(BX)
	MOVQ R10, 8(BX)
	MOVQ R11, 16(BX)
	MOVQ R12, 24(BX)
	RET

// once(d *digest)
TEXT ·once(SB),4,$0-8
	MOVQ d+0(FP), BX
	MOVQ 0(BX), R9		// R9 = v0
	MOVQ 8(BX), R10		// R10 = v1
	MOVQ 16(BX), R11	// R11 = v2
	MOVQ 24(BX), R12	// R12 = v3
	MOVQ 48(BX), CX		// CX = d.x[:]
	XORQ CX, R12
	ROUND(R9, R10, R11, R12)
	ROUND(R9, R10, R11, R12)
	XORQ CX, R9
	MOVQ R9, 0(BX)
	MOVQ R10, 8(BX)
	MOVQ R11, 16(BX)
	MOVQ R12, 24(BX)
	RET

// finalize(d *digest) uint64
TEXT ·finalize(SB),4,$0-16
	MOVQ d+0(FP), BX
	MOVQ 0(BX), R9		// R9 = v0
	MOVQ 8(BX), R10		// R10 = v1
	MOVQ 16(BX), R11	// R11 = v2
	MOVQ 24(BX), R12	// R12 = v3
	MOVQ 48(BX), CX		// CX = d.x[:]
	XORQ CX, R12
	ROUND(R9, R10, R11, R12)
	ROUND(R9, R10, R11, R12)
	XORQ CX, R9
	NOTB R11
	ROUND(R9, R10, R11, R12)
	ROUND(R9, R10, R11, R12)
	ROUND(R9, R10, R11, R12)
	ROUND(R9, R10, R11, R12)
	XORQ R12, R11
	XORQ R10, R9
	XORQ R11, R9
	MOVQ R9, ret+8(FP)
	RET
