//go:build (!arm && !amd64) || appengine || gccgo
// +build !arm,!amd64 appengine gccgo

// Written in 2012 by Dmitry Chestnykh.
//
// To the extent possible under law, the author have dedicated all copyright
// and related and neighboring rights to this software to the public domain
// worldwide. This software is distributed without any warranty.
// http://creativecommons.org/publicdomain/zero/1.0/

package siphash

// Hash returns the 64-bit SipHash-2-4 of the given byte slice with two 64-bit
// parts of 128-bit key: k0 and k1.
func Hash(k0, k1 uint64, p []byte) uint64 {
	// Initialization.
	v0 := k0 ^ 0x736f6d6570736575
	v1 := k1 ^ 0x646f72616e646f6d
	v2 := k0 ^ 0x6c7967656e657261
	v3 := k1 ^ 0x7465646279746573
	t := uint64(len(p)) << 56

	// Compression.
	for len(p) >= BlockSize {
		m := uint64(p[0]) | uint64(p[1])<<8 | uint64(p[2])<<16 | uint64(p[3])<<24 |
			uint64(p[4])<<32 | uint64(p[5])<<40 | uint64(p[6])<<48 | uint64(p[7])<<56
		v3 ^= m

		// Round 1.
		v0 += v1
		v1 = v1<<13 | v1>>(64-13)
		v1 ^= v0
		v0 = v0<<32 | v0>>(64-32)

		v2 += v3
		v3 = v3<<16 | v3>>(64-16)
		v3 ^= v2

		v0 += v3
		v3 = v3<<21 | v3>>(64-21)
		v3 ^= v0

		v2 += v1
		v1 = v1<<17 | v1>>(64-17)
		v1 ^= v2
		v2 = v2<<32 | v2>>(64-32)

		// Round 2.
		v0 += v1
		v1 = v1<<13 | v1>>(64-13)
		v1 ^= v0
		v0 = v0<<32 | v0>>(64-32)

		v2 += v3
		v3 = v3<<16 | v3>>(64-16)
		v3 ^= v2

		v0 += v3
		v3 = v3<<21 | v3>>(64-21)
		v3 ^= v0

		v2 += v1
		v1 = v1<<17 | v1>>(64-17)
		v1 ^= v2
		v2 = v2<<32 | v2>>(64-32)

		v0 ^= m
		p = p[BlockSize:]
	}

	// Compress last block.
	switch len(p) {
	case 7:
		t |= uint64(p[6]) << 48
		fallthrough
	case 6:
		t |= uint64(p[5]) << 40
		fallthrough
	case 5:
		t |= uint64(p[4]) << 32
		fallthrough
	case 4:
		t |= uint64(p[3]) << 24
		fallthrough
	case 3:
		t |= uint64(p[2]) << 16
		fallthrough
	case 2:
		t |= uint64(p[1]) << 8
		fallthrough
	case 1:
		t |= uint64(p[0])
	}

	v3 ^= t

	// Round 1.
	v0 += v1
	v1 = v1<<13 | v1>>(64-13)
	v1 ^= v0
	v0 = v0<<32 | v0>>(64-32)

	v2 += v3
	v3 = v3<<16 | v3>>(64-16)
	v3 ^= v2

	v0 += v3
	v3 = v3<<21 | v3>>(64-21)
	v3 ^= v0

	v2 += v1
	v1 = v1<<17 | v1>>(64-17)
	v1 ^= v2
	v2 = v2<<32 | v2>>(64-32)

	// Round 2.
	v0 += v1
	v1 = v1<<13 | v1>>(64-13)
	v1 ^= v0
	v0 = v0<<32 | v0>>(64-32)

	v2 += v3
	v3 = v3<<16 | v3>>(64-16)
	v3 ^= v2

	v0 += v3
	v3 = v3<<21 | v3>>(64-21)
	v3 ^= v0

	v2 += v1
	v1 = v1<<17 | v1>>(64-17)
	v1 ^= v2
	v2 = v2<<32 | v2>>(64-32)

	v0 ^= t

	// Finalization.
	v2 ^= 0xff

	// Round 1.
	v0 += v1
	v1 = v1<<13 | v1>>(64-13)
	v1 ^= v0
	v0 = v0<<32 | v0>>(64-32)

	v2 += v3
	v3 = v3<<16 | v3>>(64-16)
	v3 ^= v2

	v0 += v3
	v3 = v3<<21 | v3>>(64-21)
	v3 ^= v0

	v2 += v1
	v1 = v1<<17 | v1>>(64-17)
	v1 ^= v2
	v2 = v2<<32 | v2>>(64-32)

	// Round 2.
	v0 += v1
	v1 = v1<<13 | v1>>(64-13)
	v1 ^= v0
	v0 = v0<<32 | v0>>(64-32)

	v2 += v3
	v3 = v3<<16 | v3>>(64-16)
	v3 ^= v2

	v0 += v3
	v3 = v3<<21 | v3>>(64-21)
	v3 ^= v0

	v2 += v1
	v1 = v1<<17 | v1>>(64-17)
	v1 ^= v2
	v2 = v2<<32 | v2>>(64-32)

	// Round 3.
	v0 += v1
	v1 = v1<<13 | v1>>(64-13)
	v1 ^= v0
	v0 = v0<<32 | v0>>(64-32)

	v2 += v3
	v3 = v3<<16 | v3>>(64-16)
	v3 ^= v2

	v0 += v3
	v3 = v3<<21 | v3>>(64-21)
	v3 ^= v0

	v2 += v1
	v1 = v1<<17 | v1>>(64-17)
	v1 ^= v2
	v2 = v2<<32 | v2>>(64-32)

	// Round 4.
	v0 += v1
	v1 = v1<<13 | v1>>(64-13)
	v1 ^= v0
	v0 = v0<<32 | v0>>(64-32)

	v2 += v3
	v3 = v3<<16 | v3>>(64-16)
	v3 ^= v2

	v0 += v3
	v3 = v3<<21 | v3>>(64-21)
	v3 ^= v0

	v2 += v1
	v1 = v1<<17 | v1>>(64-17)
	v1 ^= v2
	v2 = v2<<32 | v2>>(64-32)

	return v0 ^ v1 ^ v2 ^ v3
}
