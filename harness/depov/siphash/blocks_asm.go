//go:build arm || (amd64 && !appengine && !gccgo)
// +build arm amd64,!appengine,!gccgo

// Written in 2012 by Dmitry Chestnykh.
//
// To the extent possible under law, the author have dedicated all copyright
// and related and neighboring rights to this software to the public domain
// worldwide. This software is distributed without any warranty.
// http://creativecommons.org/publicdomain/zero/1.0/

// This file contains a function definition for use with assembly implementations of Hash()

package siphash

//go:noescape
func blocks(d *digest, p []uint8)

//go:noescape
func finalize(d *digest) uint64

//go:noescape
func once(d *digest)
