//go:build arm
// +build arm

package siphash

// NB: ARM implementation of forgoes extra speed for Hash()
// and Hash128() by simply reusing the same blocks() implementation
// in assembly used by the streaming hash.

func Hash(k0, k1 uint64, p []byte) uint64 {
	var d digest
	d.size = Size
	d.k0 = k0
	d.k1 = k1
	d.Reset()
	d.Write(p)
	return d.Sum64()
}

func Hash128(k0, k1 uint64, p []byte) (uint64, uint64) {
	var d digest
	d.size = Size128
	d.k0 = k0
	d.k1 = k1
	d.Reset()
	d.Write(p)
	return d.sum128()
}
