//go:build (!arm && !amd64) || appengine || gccgo
// +build !arm,!amd64 appengine gccgo

package siphash

func once(d *digest) {
	blocks(d, d.x[:])
}

func finalize(d *digest) uint64 {
	d0 := *d
	once(&d0)

	v0, v1, v2, v3 := d0.v0, d0.v1, d0.v2, d0.v3
	v2 ^= 0xff

	// Round 1.
	v0 += v1
	v1 = v1<<13 | v1>>(64-13)
	v1 ^= v0
	v0 = v0<<32 | v0>>(64-32)

	v2 += v3
	v3 = v3<<16 | v3>>(64-16)
	v3 ^= v2

	v0 += v3
	v3 = v3<<21 | v3>>(64-21)
	v3 ^= v0

	v2 += v1
	v1 = v1<<17 | v1>>(64-17)
	v1 ^= v2
	v2 = v2<<32 | v2>>(64-32)

	// Round 2.
	v0 += v1
	v1 = v1<<13 | v1>>(64-13)
	v1 ^= v0
	v0 = v0<<32 | v0>>(64-32)

	v2 += v3
	v3 = v3<<16 | v3>>(64-16)
	v3 ^= v2

	v0 += v3
	v3 = v3<<21 | v3>>(64-21)
	v3 ^= v0

	v2 += v1
	v1 = v1<<17 | v1>>(64-17)
	v1 ^= v2
	v2 = v2<<32 | v2>>(64-32)

	// Round 3.
	v0 += v1
	v1 = v1<<13 | v1>>(64-13)
	v1 ^= v0
	v0 = v0<<32 | v0>>(64-32)

	v2 += v3
	v3 = v3<<16 | v3>>(64-16)
	v3 ^= v2

	v0 += v3
	v3 = v3<<21 | v3>>(64-21)
	v3 ^= v0

	v2 += v1
	v1 = v1<<17 | v1>>(64-17)
	v1 ^= v2
	v2 = v2<<32 | v2>>(64-32)

	// Round 4.
	v0 += v1
	v1 = v1<<13 | v1>>(64-13)
	v1 ^= v0
	v0 = v0<<32 | v0>>(64-32)

	v2 += v3
	v3 = v3<<16 | v3>>(64-16)
	v3 ^= v2

	v0 += v3
	v3 = v3<<21 | v3>>(64-21)
	v3 ^= v0

	v2 += v1
	v1 = v1<<17 | v1>>(64-17)
	v1 ^= v2
	v2 = v2<<32 | v2>>(64-32)

	return v0 ^ v1 ^ v2 ^ v3
}

func blocks(d *digest, p []uint8) {
	v0, v1, v2, v3 := d.v0, d.v1, d.v2, d.v3

	for len(p) >= BlockSize {
		m := uint64(p[0]) | uint64(p[1])<<8 | uint64(p[2])<<16 | uint64(p[3])<<24 |
			uint64(p[4])<<32 | uint64(p[5])<<40 | uint64(p[6])<<48 | uint64(p[7])<<56

		v3 ^= m

		// Round 1.
		v0 += v1
		v1 = v1<<13 | v1>>(64-13)
		v1 ^= v0
		v0 = v0<<32 | v0>>(64-32)

		v2 += v3
		v3 = v3<<16 | v3>>(64-16)
		v3 ^= v2

		v0 += v3
		v3 = v3<<21 | v3>>(64-21)
		v3 ^= v0

		v2 += v1
		v1 = v1<<17 | v1>>(64-17)
		v1 ^= v2
		v2 = v2<<32 | v2>>(64-32)

		// Round 2.
		v0 += v1
		v1 = v1<<13 | v1>>(64-13)
		v1 ^= v0
		v0 = v0<<32 | v0>>(64-32)

		v2 += v3
		v3 = v3<<16 | v3>>(64-16)
		v3 ^= v2

		v0 += v3
		v3 = v3<<21 | v3>>(64-21)
		v3 ^= v0

		v2 += v1
		v1 = v1<<17 | v1>>(64-17)
		v1 ^= v2
		v2 = v2<<32 | v2>>(64-32)

		v0 ^= m

		p = p[BlockSize:]
	}

	d.v0, d.v1, d.v2, d.v3 = v0, v1, v2, v3
}
