module github.com/dchest/siphash

go 1.16
