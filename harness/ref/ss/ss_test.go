package ss

import (
	"bytes"
	"crypto/aes"
	"crypto/cipher"
	"crypto/sha256"
	"encoding/hex"
	"io"
	"math/big"
	"math/rand/v2"
	"net"
	"testing"
	"time"

	"golang.org/x/crypto/hkdf"
)

type rr struct{ r *rand.Rand }

func (r rr) Read(p []byte) (int, error) {
	for i := range p {
		p[i] = byte(r.r.Uint32())
	}
	return len(p), nil
}

func newRR(seed uint64) rr { return rr{rand.New(rand.NewPCG(seed, 99))} }

func unhex(t *testing.T, s string) []byte {
	t.Helper()
	b, err := hex.DecodeString(s)
	if err != nil {
		t.Fatal(err)
	}
	return b
}

// RFC 5869 appendix A, test cases 1 and 3 (expand step only) and a
// cross-check of the 144-byte expansion against x/crypto/hkdf.
func TestHKDFExpandVectors(t *testing.T) {
	prk := unhex(t, "077709362c2e32df0ddc3f0dc47bba6390b6c73bb50f9c3122ec844ad7c2b3e5")
	info := unhex(t, "f0f1f2f3f4f5f6f7f8f9")
	want := unhex(t, "3cb25f25faacd57a90434f64d0362f2a2d2d0a90cf1a5a4c5db02d56ecc4c5bf34007208d5b887185865")
	if got := HKDFExpand(prk, info, 42); !bytes.Equal(got, want) {
		t.Fatalf("A.1: %x", got)
	}
	prk = unhex(t, "19ef24a32c717b167f33a91d6f648bdf96596776afdb6377ac434c1c293ccb04")
	want = unhex(t, "8da4e775a563c18f715f802a063c5a31b8a11f5c5ee1879ec3454e5f3c738d2d9d201395faa4b61a96c8")
	if got := HKDFExpand(prk, nil, 42); !bytes.Equal(got, want) {
		t.Fatalf("A.3: %x", got)
	}
	r := newRR(1)
	for i := 0; i < 50; i++ {
		var k [32]byte
		r.Read(k[:])
		ref := make([]byte, KeyMaterialLen)
		io.ReadFull(hkdf.Expand(sha256.New, k[:], nil), ref)
		if !bytes.Equal(ref, HKDFExpand(k[:], nil, KeyMaterialLen)) {
			t.Fatal("144-byte expansion differs from x/crypto/hkdf")
		}
	}
}

// The modulus must be the RFC 3526 group 5 prime:
// 2^1536 - 2^1472 - 1 + 2^64 * ([2^1406 pi] + 741804), a safe prime.
func TestGroupPrime(t *testing.T) {
	// pi by Machin's formula in fixed point with 128 guard bits
	const bits = 1406 + 128
	one := new(big.Int).Lsh(big.NewInt(1), bits)
	arctanInv := func(x int64) *big.Int {
		sum := new(big.Int)
		term := new(big.Int).Div(one, big.NewInt(x))
		x2 := big.NewInt(x * x)
		for k := int64(0); term.Sign() != 0; k++ {
			q := new(big.Int).Div(term, big.NewInt(2*k+1))
			if k%2 == 0 {
				sum.Add(sum, q)
			} else {
				sum.Sub(sum, q)
			}
			term.Div(term, x2)
		}
		return sum
	}
	pi := new(big.Int).Mul(big.NewInt(16), arctanInv(5))
	pi.Sub(pi, new(big.Int).Mul(big.NewInt(4), arctanInv(239)))
	pi.Rsh(pi, 128) // floor(2^1406 * pi)
	p := new(big.Int).Lsh(big.NewInt(1), 1536)
	p.Sub(p, new(big.Int).Lsh(big.NewInt(1), 1472))
	p.Sub(p, big.NewInt(1))
	p.Add(p, new(big.Int).Lsh(new(big.Int).Add(pi, big.NewInt(741804)), 64))
	if p.Cmp(P) != 0 {
		t.Fatalf("modulus is not the RFC 3526 formula value:\n%x\n%x", p, P)
	}
	if !P.ProbablyPrime(16) || !new(big.Int).Rsh(P, 1).ProbablyPrime(16) {
		t.Fatal("modulus is not a safe prime")
	}
}

func TestUniformDHAgreement(t *testing.T) {
	r := newRR(2)
	for i := 0; i < 8; i++ {
		a, b := NewDHKey(r), NewDHKey(r)
		s1, s2 := a.Shared(b.Pub[:]), b.Shared(a.Pub[:])
		if !bytes.Equal(s1, s2) || len(s1) != PubKeyLen {
			t.Fatal("shared secrets differ")
		}
		// p - X is the same key
		alt := new(big.Int).Sub(P, new(big.Int).SetBytes(b.Pub[:]))
		ab := make([]byte, PubKeyLen)
		alt.FillBytes(ab)
		if !bytes.Equal(a.Shared(ab), s1) {
			t.Fatal("p-X does not yield the same secret")
		}
		if a.priv.Bit(0) != 0 {
			t.Fatal("odd exponent")
		}
	}
}

// NIST SP 800-38A F.5.5 (CTR-AES256.Encrypt) and equivalence with the
// library's counter mode for IV = prefix | 0000000000000001.
func TestCTR(t *testing.T) {
	key := unhex(t, "603deb1015ca71be2b73aef0857d77811f352c073b6108d72d9810a30914dff4")
	c := newCtr(key, unhex(t, "f0f1f2f3f4f5f6f7"))
	c.n = 0xf8f9fafbfcfdfeff
	pt := unhex(t, "6bc1bee22e409f96e93d7e117393172aae2d8a571e03ac9c9eb76fac45af8e5130c81c46a35ce411e5fbc1191a0a52eff69f2445df4f9b17ad2b417be66c3710")
	want := unhex(t, "601ec313775789a5b7a7f504bbf3d228f443e3ca4d62b59aca84e990cacaf5c52b0930daa23de94ce87017ba2d84988ddfc9c58db67aada613c2dd08457941a6")
	c.xor(pt[:7])
	c.xor(pt[7:40])
	c.xor(pt[40:])
	if !bytes.Equal(pt, want) {
		t.Fatalf("SP 800-38A F.5.5: %x", pt)
	}
	r := newRR(3)
	for i := 0; i < 20; i++ {
		var k [32]byte
		var pre [8]byte
		r.Read(k[:])
		r.Read(pre[:])
		blk, _ := aes.NewCipher(k[:])
		iv := append(append([]byte{}, pre[:]...), 0, 0, 0, 0, 0, 0, 0, 1)
		lib := cipher.NewCTR(blk, iv)
		mine := newCtr(k[:], pre[:])
		for j := 0; j < 10; j++ {
			a := make([]byte, r.r.IntN(100))
			r.Read(a)
			b := append([]byte(nil), a...)
			lib.XORKeyStream(a, a)
			mine.xor(b)
			if !bytes.Equal(a, b) {
				t.Fatal("counter mode differs from crypto/cipher")
			}
		}
	}
}

func TestPacketRoundTrip(t *testing.T) {
	r := newRR(4)
	var master [32]byte
	r.Read(master[:])
	k := DeriveKeys(master[:])
	enc := NewEncoder(k.S2CKey, k.S2CIV, k.S2CMac)
	dec := NewDecoder(k.S2CKey, k.S2CIV, k.S2CMac)
	type spec struct {
		flags    byte
		pl, pad  int
		payload  []byte
		wireSize int
	}
	var specs []spec
	var wire []byte
	for _, s := range []spec{{1, 0, 0, nil, 0}, {1, 1, 0, nil, 0}, {1, 0, 1427, nil, 0}, {1, 1427, 0, nil, 0}, {2, 144, 3, nil, 0}, {4, 32, 0, nil, 0}, {1, 700, 27, nil, 0}} {
		s.payload = make([]byte, s.pl)
		r.Read(s.payload)
		p := enc.Packet(s.flags, s.payload, s.pad)
		if len(p) != MacLen+HdrLen+s.pl+s.pad {
			t.Fatalf("packet length %d", len(p))
		}
		s.wireSize = len(p)
		specs = append(specs, s)
		wire = append(wire, p...)
	}
	// feed in random chunks
	var got []DecodedPacket
	for off := 0; off < len(wire); {
		n := 1 + r.r.IntN(300)
		if off+n > len(wire) {
			n = len(wire) - off
		}
		pk, err := dec.Feed(wire[off : off+n])
		if err != nil {
			t.Fatal(err)
		}
		got = append(got, pk...)
		off += n
	}
	if len(got) != len(specs) || dec.Buffered() != 0 {
		t.Fatalf("decoded %d of %d packets", len(got), len(specs))
	}
	for i, s := range specs {
		g := got[i]
		if g.Flags != s.flags || !bytes.Equal(g.Payload, s.payload) || g.PadLen != s.pad || !g.PadAllZero || g.WireLen != s.wireSize {
			t.Fatalf("packet %d differs", i)
		}
	}
	// every single-bit modification of a packet is rejected
	enc = NewEncoder(k.S2CKey, k.S2CIV, k.S2CMac)
	p := enc.Packet(1, []byte("hello world"), 9)
	tail := append(enc.Packet(1, make([]byte, 1427), 0), enc.Packet(1, make([]byte, 1427), 0)...)
	for bit := 0; bit < len(p)*8; bit++ {
		q := append([]byte(nil), p...)
		q[bit/8] ^= 1 << (bit % 8)
		d := NewDecoder(k.S2CKey, k.S2CIV, k.S2CMac)
		pk, err := d.Feed(append(q, tail...))
		if err == nil || len(pk) != 0 {
			t.Fatalf("bit %d accepted", bit)
		}
	}
}

// specClient is a minimal client written from the same specification, only
// used to exercise the server's hello parsing in this self-test (the real
// cross-check is the deployed client in check C15).
func specClientUDH(t *testing.T, conn net.Conn, kB []byte, r rr, pad int) *Session {
	key := NewDHKey(r)
	p := make([]byte, pad)
	r.Read(p)
	e := []byte(EpochHour(time.Now().Unix()))
	msg := append(append([]byte{}, key.Pub[:]...), p...)
	msg = append(msg, Mac128(kB, key.Pub[:])...)
	msg = append(msg, Mac128(kB, msg, e)...)
	go conn.Write(msg)
	var resp []byte
	buf := make([]byte, 2048)
	for {
		n, err := conn.Read(buf)
		if err != nil {
			t.Fatal(err)
		}
		resp = append(resp, buf[:n]...)
		if len(resp) < MinUDH {
			continue
		}
		mark := Mac128(kB, resp[:PubKeyLen])
		i := bytes.Index(resp[PubKeyLen:], mark)
		if i < 0 || len(resp) < PubKeyLen+i+2*MacLen {
			continue
		}
		end := PubKeyLen + i + 2*MacLen
		if !bytes.Equal(Mac128(kB, resp[:end-MacLen], e), resp[end-MacLen:end]) {
			t.Fatal("server MAC invalid")
		}
		master := sha256.Sum256(key.Shared(resp[:PubKeyLen]))
		k := DeriveKeys(master[:])
		// client view: Enc is client->server
		return &Session{Keys: k, Enc: NewEncoder(k.C2SKey, k.C2SIV, k.C2SMac), Dec: NewDecoder(k.S2CKey, k.S2CIV, k.S2CMac)}
	}
}

func TestServerLoopback(t *testing.T) {
	r := newRR(5)
	var kB [SharedSecretLn]byte
	r.Read(kB[:])
	srv := NewServer(kB, r)
	for _, pad := range []int{0, 1, 700, MaxUDHPad} {
		a, b := net.Pipe()
		type res struct {
			s   *Session
			err error
		}
		ch := make(chan res, 1)
		go func() {
			h, err := srv.ReadHello(b)
			if err != nil {
				ch <- res{nil, err}
				return
			}
			resp, sess := srv.Respond(h, pad, nil)
			if len(resp) != MinUDH+pad {
				t.Errorf("response length %d", len(resp))
			}
			b.Write(resp)
			ch <- res{sess, nil}
		}()
		cs := specClientUDH(t, a, kB[:], r, (pad*7)%(MaxUDHPad+1))
		sr := <-ch
		if sr.err != nil {
			t.Fatal(sr.err)
		}
		// one packet each way
		pk, err := cs.Dec.Feed(sr.s.Enc.Packet(FlagPayload, []byte("down"), 5))
		if err != nil || len(pk) != 1 || string(pk[0].Payload) != "down" {
			t.Fatalf("down: %v", err)
		}
		pk, err = sr.s.Dec.Feed(cs.Enc.Packet(FlagPayload, []byte("up"), 0))
		if err != nil || len(pk) != 1 || string(pk[0].Payload) != "up" {
			t.Fatalf("up: %v", err)
		}
		a.Close()
		b.Close()
	}
	// ticket handshake
	body, rec := srv.IssueTicket()
	if len(body) != MasterKeyLen+TicketLen || !bytes.Equal(body[:32], rec.Master[:]) {
		t.Fatal("ticket body")
	}
	for round := 0; round < 2; round++ {
		a, b := net.Pipe()
		k := DeriveKeys(body[:32])
		pad := make([]byte, 33)
		msg := append(append([]byte{}, body[32:]...), pad...)
		msg = append(msg, Mac128(k.C2SMac, body[32:])...)
		msg = append(msg, Mac128(k.C2SMac, msg, []byte(EpochHour(time.Now().Unix())))...)
		extra := NewEncoder(k.C2SKey, k.C2SIV, k.C2SMac).Packet(FlagPayload, []byte("x"), 0)
		go a.Write(append(msg, extra...))
		h, err := srv.ReadHello(b)
		if err != nil || h.Type != "ticket" || h.Ticket.ID != rec.ID || h.PadLen != 33 || !bytes.Equal(h.Rest, extra) {
			t.Fatalf("ticket hello: %v %+v", err, h)
		}
		_, sess := srv.Respond(h, 0, nil)
		pk, err := sess.Dec.Feed(h.Rest)
		if err != nil || len(pk) != 1 || string(pk[0].Payload) != "x" {
			t.Fatal("data behind the ticket hello")
		}
		a.Close()
		b.Close()
	}
	log := srv.Log()
	if n := len(log); n != 6 || log[4].Type != "ticket" || log[4].Reuse || !log[5].Reuse || log[5].TicketID != rec.ID || log[0].Type != "udh" {
		t.Fatalf("log %+v", log)
	}
	// wrong k_B: silence
	a, b := net.Pipe()
	var other [SharedSecretLn]byte
	r.Read(other[:])
	go func() {
		key := NewDHKey(r)
		msg := append(append([]byte{}, key.Pub[:]...), Mac128(other[:], key.Pub[:])...)
		msg = append(msg, Mac128(other[:], msg, []byte(EpochHour(time.Now().Unix())))...)
		a.Write(msg)
		a.Close()
	}()
	if _, err := srv.ReadHello(b); err == nil {
		t.Fatal("wrong k_B authenticated")
	}
	if l := srv.Log(); l[len(l)-1].Type != "invalid" {
		t.Fatal("not logged as invalid")
	}
	b.Close()
}
