// Package ss (ref/ss) is an independent implementation of the SERVER side of
// the ScrambleSuit protocol, written for the verification harness from the
// ScrambleSuit protocol specification (obfsproxy doc/scramblesuit/
// scramblesuit-spec.txt: UniformDH and session-ticket authentication, HKDF key
// derivation, the 21-byte packet header, NewTicket / PRNG-seed packets) and
// from RFC 3526 / RFC 5869.  It uses only primitives (AES block cipher, HMAC,
// SHA-256, math/big) and shares no code with /repo: counter mode, HKDF-Expand
// and UniformDH are written out here.
//
// The one thing the specification leaves open and that was therefore fixed by
// looking at what a deployed client must see is the initial value of the
// 64-bit CTR block counter (1).
//
// Session tickets: the specification lets the server choose how a ticket is
// protected (it is opaque to the client).  This server hands out 112 random
// bytes and remembers the master key in a table; from the client's point of
// view that is a conforming ticket.
package ss

import (
	"bytes"
	"crypto/aes"
	"crypto/cipher"
	"crypto/hmac"
	"crypto/sha256"
	"encoding/binary"
	"errors"
	"fmt"
	"io"
	"math/big"
	"net"
	"strconv"
	"sync"
	"time"
)

const (
	PubKeyLen      = 192 // UniformDH public key / shared secret, RFC 3526 group 5
	MacLen         = 16  // HMAC-SHA256-128
	MaxHandshake   = 1532
	MinUDH         = PubKeyLen + 2*MacLen
	MaxUDHPad      = MaxHandshake - MinUDH // 1308
	TicketLen      = 112
	MasterKeyLen   = 32
	MaxTicketPad   = MaxHandshake - TicketLen - 2*MacLen // 1388
	SharedSecretLn = 20                                  // k_B
	HdrLen         = 5                                   // total(2) | payload(2) | flags(1)
	MaxBody        = 1427                                // payload + padding of one packet
	MaxPacket      = MacLen + HdrLen + MaxBody           // 1448, the ScrambleSuit MTU
	SeedLen        = 32
	KeyMaterialLen = 144

	FlagPayload   = 1
	FlagNewTicket = 2
	FlagPrngSeed  = 4

	TicketLifetime = 7 * 24 * 3600 // seconds
)

// ---------------------------------------------------------------- primitives

// Mac128 is HMAC-SHA256 truncated to 128 bits over the concatenation of parts.
func Mac128(key []byte, parts ...[]byte) []byte {
	h := hmac.New(sha256.New, key)
	for _, p := range parts {
		h.Write(p)
	}
	return h.Sum(nil)[:MacLen]
}

// HKDFExpand is the expand step of RFC 5869 with SHA-256 (no extract step).
func HKDFExpand(prk, info []byte, n int) []byte {
	var out, t []byte
	for i := byte(1); len(out) < n; i++ {
		h := hmac.New(sha256.New, prk)
		h.Write(t)
		h.Write(info)
		h.Write([]byte{i})
		t = h.Sum(nil)
		out = append(out, t...)
	}
	return out[:n]
}

// EpochHour is the decimal number of hours since the epoch.
func EpochHour(unix int64) string { return strconv.FormatInt(unix/3600, 10) }

// ---------------------------------------------------------------- UniformDH

// rfc3526Group5 is the 1536-bit MODP prime of RFC 3526 section 2; g = 2.
const rfc3526Group5 = "FFFFFFFFFFFFFFFFC90FDAA22168C234C4C6628B80DC1CD1" +
	"29024E088A67CC74020BBEA63B139B22514A08798E3404DD" +
	"EF9519B3CD3A431B302B0A6DF25F14374FE1356D6D51C245" +
	"E485B576625E7EC6F44C42E9A637ED6B0BFF5CB6F406B7ED" +
	"EE386BFB5A899FA5AE9F24117C4B1FE649286651ECE45B3D" +
	"C2007CB8A163BF0598DA48361C55D39A69163FA8FD24CF5F" +
	"83655D23DCA3AD961C62F356208552BB9ED529077096966D" +
	"670C354E4ABC9804F1746C08CA237327FFFFFFFFFFFFFFFF"

// P is the group modulus.
var P, _ = new(big.Int).SetString(rfc3526Group5, 16)

// DHKey is a UniformDH key pair.
type DHKey struct {
	priv *big.Int
	Pub  [PubKeyLen]byte // what goes on the wire: g^x or p - g^x
}

// NewDHKey draws a key pair: a random 1536-bit exponent made even, and a
// fair coin deciding whether X or p-X is published.
func NewDHKey(rnd io.Reader) *DHKey {
	var raw [PubKeyLen]byte
	var coin [1]byte
	io.ReadFull(rnd, raw[:])
	io.ReadFull(rnd, coin[:])
	x := new(big.Int).SetBytes(raw[:])
	x.SetBit(x, 0, 0)
	pub := new(big.Int).Exp(big.NewInt(2), x, P)
	if coin[0]&1 == 1 {
		pub.Sub(P, pub)
	}
	k := &DHKey{priv: x}
	pub.FillBytes(k.Pub[:])
	return k
}

// Shared returns the 192-byte shared secret for the peer's public value.
func (k *DHKey) Shared(peer []byte) []byte {
	y := new(big.Int).SetBytes(peer)
	s := new(big.Int).Exp(y, k.priv, P)
	out := make([]byte, PubKeyLen)
	s.FillBytes(out)
	return out
}

// ---------------------------------------------------------------- key schedule and packets

// Keys is the 144-byte key material split as the specification lists it.
type Keys struct {
	C2SKey, S2CKey []byte // AES-256
	C2SIV, S2CIV   []byte // 8-byte counter prefix
	C2SMac, S2CMac []byte // HMAC-SHA256-128 keys
}

// DeriveKeys expands a 32-byte master key (k_t) into the session keys.
func DeriveKeys(master []byte) Keys {
	okm := HKDFExpand(master, nil, KeyMaterialLen)
	return Keys{
		C2SKey: okm[0:32], C2SIV: okm[32:40],
		S2CKey: okm[40:72], S2CIV: okm[72:80],
		C2SMac: okm[80:112], S2CMac: okm[112:144],
	}
}

// ctr is AES-256 in counter mode: block i of the key stream is
// AES(prefix | BE64(1+i)).
type ctr struct {
	b      cipher.Block
	prefix [8]byte
	n      uint64
	ks     [16]byte
	used   int
}

func newCtr(key, prefix []byte) *ctr {
	b, err := aes.NewCipher(key)
	if err != nil {
		panic(err)
	}
	c := &ctr{b: b, n: 1, used: 16}
	copy(c.prefix[:], prefix)
	return c
}

func (c *ctr) xor(p []byte) {
	for i := range p {
		if c.used == 16 {
			var in [16]byte
			copy(in[:8], c.prefix[:])
			binary.BigEndian.PutUint64(in[8:], c.n)
			c.n++
			c.b.Encrypt(c.ks[:], in[:])
			c.used = 0
		}
		p[i] ^= c.ks[c.used]
		c.used++
	}
}

// Encoder produces packets of one direction.
type Encoder struct {
	c      *ctr
	macKey []byte
}

func NewEncoder(key, iv, macKey []byte) *Encoder { return &Encoder{c: newCtr(key, iv), macKey: macKey} }

// Packet returns MAC(16) | E(total(2) | payloadLen(2) | flags(1) | payload | zero padding).
func (e *Encoder) Packet(flags byte, payload []byte, padLen int) []byte {
	if len(payload)+padLen > MaxBody {
		panic(fmt.Sprintf("ref/ss: packet body %d+%d too long", len(payload), padLen))
	}
	pt := make([]byte, HdrLen+len(payload)+padLen)
	binary.BigEndian.PutUint16(pt[0:], uint16(len(payload)+padLen))
	binary.BigEndian.PutUint16(pt[2:], uint16(len(payload)))
	pt[4] = flags
	copy(pt[HdrLen:], payload)
	e.c.xor(pt)
	return append(Mac128(e.macKey, pt), pt...)
}

// DecodedPacket is one packet accepted by a Decoder.
type DecodedPacket struct {
	Flags      byte
	Payload    []byte
	PadLen     int
	PadAllZero bool
	WireLen    int
}

var (
	ErrBadMac    = errors.New("ref/ss: packet MAC mismatch")
	ErrBadLength = errors.New("ref/ss: invalid packet length fields")
)

// Decoder is the incremental receiver of one direction.
type Decoder struct {
	c      *ctr
	macKey []byte
	buf    []byte
	err    error
}

func NewDecoder(key, iv, macKey []byte) *Decoder { return &Decoder{c: newCtr(key, iv), macKey: macKey} }

// Feed appends wire bytes and returns the packets completed by them.
func (d *Decoder) Feed(p []byte) ([]DecodedPacket, error) {
	if d.err != nil {
		return nil, d.err
	}
	d.buf = append(d.buf, p...)
	var out []DecodedPacket
	for len(d.buf) >= MacLen+HdrLen {
		// the header has to be decrypted to learn the length; do it on a copy of
		// the cipher state so that an incomplete packet can be retried later
		save := *d.c
		hdr := append([]byte(nil), d.buf[MacLen:MacLen+HdrLen]...)
		d.c.xor(hdr)
		total := int(binary.BigEndian.Uint16(hdr[0:]))
		plen := int(binary.BigEndian.Uint16(hdr[2:]))
		if total > MaxBody || plen > total {
			d.err = ErrBadLength
			return out, d.err
		}
		wire := MacLen + HdrLen + total
		if len(d.buf) < wire {
			*d.c = save
			break
		}
		if !hmac.Equal(Mac128(d.macKey, d.buf[MacLen:wire]), d.buf[:MacLen]) {
			d.err = ErrBadMac
			return out, d.err
		}
		body := append([]byte(nil), d.buf[MacLen+HdrLen:wire]...)
		d.c.xor(body)
		pk := DecodedPacket{Flags: hdr[4], Payload: body[:plen], PadLen: total - plen, PadAllZero: true, WireLen: wire}
		for _, b := range body[plen:] {
			if b != 0 {
				pk.PadAllZero = false
			}
		}
		out = append(out, pk)
		d.buf = d.buf[wire:]
	}
	return out, nil
}

// Buffered is the number of bytes of an incomplete packet held back.
func (d *Decoder) Buffered() int { return len(d.buf) }

// Session is the packet layer of an authenticated connection, server side.
type Session struct {
	Keys Keys
	Enc  *Encoder // server -> client
	Dec  *Decoder // client -> server
}

func newSession(master []byte) *Session {
	k := DeriveKeys(master)
	return &Session{Keys: k, Enc: NewEncoder(k.S2CKey, k.S2CIV, k.S2CMac), Dec: NewDecoder(k.C2SKey, k.C2SIV, k.C2SMac)}
}

// ---------------------------------------------------------------- server

// TicketRec is one ticket this server issued.
type TicketRec struct {
	ID        int
	Ticket    [TicketLen]byte
	Master    [MasterKeyLen]byte
	IssuedAt  time.Time
	Presented int // how many handshakes presented it
}

// Event is one entry of the server's handshake log.
type Event struct {
	Conn     int
	Type     string // "udh", "ticket", "ticket-expired", "invalid"
	TicketID int    // -1 unless a known ticket was presented
	Reuse    bool   // the ticket had been presented before
	Age      time.Duration
	PadLen   int // client padding
	HelloLen int
	Hour     string
}

// Server holds k_B, the table of issued tickets and the handshake log.
type Server struct {
	KB   [SharedSecretLn]byte
	Rand io.Reader

	mu      sync.Mutex
	tickets map[[TicketLen]byte]*TicketRec
	order   []*TicketRec
	log     []Event
	conns   int
}

func NewServer(kB [SharedSecretLn]byte, rnd io.Reader) *Server {
	return &Server{KB: kB, Rand: rnd, tickets: map[[TicketLen]byte]*TicketRec{}}
}

// Log returns a copy of the handshake log.
func (s *Server) Log() []Event {
	s.mu.Lock()
	defer s.mu.Unlock()
	return append([]Event(nil), s.log...)
}

// Tickets returns the issued tickets in order of issue.
func (s *Server) Tickets() []TicketRec {
	s.mu.Lock()
	defer s.mu.Unlock()
	out := make([]TicketRec, len(s.order))
	for i, t := range s.order {
		out[i] = *t
	}
	return out
}

// NotePartial records that the first bytes of a client's message — which the
// server never got to parse as a handshake because the connection failed or
// the message stayed incomplete — carried a complete ticket in the clear.  It
// counts as a presentation of that ticket: a later handshake with the same
// ticket is logged with Reuse set.
func (s *Server) NotePartial(buf []byte) (id int, reuse, known bool) {
	if len(buf) < TicketLen {
		return -1, false, false
	}
	var t [TicketLen]byte
	copy(t[:], buf)
	s.mu.Lock()
	defer s.mu.Unlock()
	rec := s.tickets[t]
	if rec == nil {
		return -1, false, false
	}
	rec.Presented++
	return rec.ID, rec.Presented > 1, true
}

// IssueTicket creates a ticket and returns the body of the NewTicket packet
// (master key | ticket).
func (s *Server) IssueTicket() ([]byte, TicketRec) {
	s.mu.Lock()
	defer s.mu.Unlock()
	t := &TicketRec{ID: len(s.order), IssuedAt: time.Now()}
	io.ReadFull(s.Rand, t.Master[:])
	io.ReadFull(s.Rand, t.Ticket[:])
	s.tickets[t.Ticket] = t
	s.order = append(s.order, t)
	return append(append([]byte{}, t.Master[:]...), t.Ticket[:]...), *t
}

// Hello is a client handshake message this server authenticated.
type Hello struct {
	Type   string // "udh" or "ticket"
	X      []byte // UniformDH public value (udh)
	Ticket *TicketRec
	PadLen int
	Hour   string // the epoch hour the client's MAC verified with
	Len    int    // length of the handshake message
	Rest   []byte // bytes received behind it
	conn   int
}

var (
	// ErrSilent: the peer did not authenticate; a ScrambleSuit server never answers.
	ErrSilent = errors.New("ref/ss: client did not authenticate (server stays silent)")
)

func (s *Server) hours() []string {
	now := time.Now().Unix()
	return []string{EpochHour(now), EpochHour(now - 3600), EpochHour(now + 3600)}
}

// tryTicket: T(112) | P | M | MAC(T | P | M | E), keyed with the client->server
// HMAC key derived from the ticket's master key.
func (s *Server) tryTicket(buf []byte) (h *Hello, expired bool, need bool) {
	if len(buf) < TicketLen {
		return nil, false, true
	}
	var t [TicketLen]byte
	copy(t[:], buf)
	s.mu.Lock()
	rec := s.tickets[t]
	s.mu.Unlock()
	if rec == nil {
		return nil, false, false
	}
	k := DeriveKeys(rec.Master[:])
	mark := Mac128(k.C2SMac, buf[:TicketLen])
	lim := len(buf)
	if lim > MaxHandshake-MacLen {
		lim = MaxHandshake - MacLen
	}
	if lim < TicketLen {
		return nil, false, true
	}
	i := bytes.Index(buf[TicketLen:lim], mark)
	if i < 0 {
		return nil, false, len(buf) < MaxHandshake
	}
	end := TicketLen + i + 2*MacLen
	if len(buf) < end {
		return nil, false, true
	}
	for _, e := range s.hours() {
		if hmac.Equal(Mac128(k.C2SMac, buf[:end-MacLen], []byte(e)), buf[end-MacLen:end]) {
			age := time.Since(rec.IssuedAt)
			return &Hello{Type: "ticket", Ticket: rec, PadLen: i, Hour: e, Len: end, Rest: append([]byte(nil), buf[end:]...)}, age >= TicketLifetime*time.Second, false
		}
	}
	return nil, false, false
}

// tryUDH: X(192) | P_C | M_C | MAC(X | P_C | M_C | E) keyed with k_B.
func (s *Server) tryUDH(buf []byte) (h *Hello, need bool) {
	if len(buf) < MinUDH {
		return nil, true
	}
	mark := Mac128(s.KB[:], buf[:PubKeyLen])
	lim := len(buf)
	if lim > MaxHandshake-MacLen {
		lim = MaxHandshake - MacLen
	}
	i := bytes.Index(buf[PubKeyLen:lim], mark)
	if i < 0 {
		return nil, len(buf) < MaxHandshake
	}
	end := PubKeyLen + i + 2*MacLen
	if len(buf) < end {
		return nil, true
	}
	for _, e := range s.hours() {
		if hmac.Equal(Mac128(s.KB[:], buf[:end-MacLen], []byte(e)), buf[end-MacLen:end]) {
			return &Hello{Type: "udh", X: append([]byte(nil), buf[:PubKeyLen]...), PadLen: i, Hour: e, Len: end, Rest: append([]byte(nil), buf[end:]...)}, false
		}
	}
	return nil, false
}

// ReadHello reads from conn until the client has authenticated with a ticket
// this server issued (and that has not expired) or with UniformDH under k_B.
// Anything else is answered with silence: the connection is drained until it
// fails and ErrSilent (or the read error) is returned.  Every outcome is
// logged.
func (s *Server) ReadHello(conn net.Conn) (*Hello, error) {
	s.mu.Lock()
	id := s.conns
	s.conns++
	s.mu.Unlock()
	var buf []byte
	tmp := make([]byte, 4096)
	logged := false
	silent := func(ev Event) {
		if !logged {
			ev.Conn = id
			s.mu.Lock()
			s.log = append(s.log, ev)
			s.mu.Unlock()
			logged = true
		}
	}
	dead := false
	for {
		n, err := conn.Read(tmp)
		if !dead {
			buf = append(buf, tmp[:n]...)
		}
		if n > 0 && !dead {
			th, expired, needT := s.tryTicket(buf)
			if th != nil {
				th.conn = id
				s.mu.Lock()
				ev := Event{Conn: id, Type: "ticket", TicketID: th.Ticket.ID, Reuse: th.Ticket.Presented > 0, Age: time.Since(th.Ticket.IssuedAt), PadLen: th.PadLen, HelloLen: th.Len, Hour: th.Hour}
				th.Ticket.Presented++
				if expired {
					ev.Type = "ticket-expired"
				}
				s.log = append(s.log, ev)
				s.mu.Unlock()
				logged = true
				if !expired {
					return th, nil
				}
				dead = true // an expired ticket does not authenticate
			}
			if !dead {
				uh, needU := s.tryUDH(buf)
				if uh != nil {
					uh.conn = id
					s.mu.Lock()
					s.log = append(s.log, Event{Conn: id, Type: "udh", TicketID: -1, PadLen: uh.PadLen, HelloLen: uh.Len, Hour: uh.Hour})
					s.mu.Unlock()
					return uh, nil
				}
				if !needT && !needU {
					silent(Event{Type: "invalid", TicketID: -1, HelloLen: len(buf)})
					dead = true
				}
			}
		}
		if err != nil {
			silent(Event{Type: "invalid", TicketID: -1, HelloLen: len(buf)})
			if dead {
				return nil, ErrSilent
			}
			return nil, err
		}
	}
}

// Respond completes the handshake for an authenticated hello.  For UniformDH
// it returns the response Y | P_S | M_S | MAC(Y | P_S | M_S | E) with exactly
// padLen bytes of random padding (the caller decides how to put it on the
// wire); for a ticket there is no response.  key may be nil (fresh key).
func (s *Server) Respond(h *Hello, padLen int, key *DHKey) ([]byte, *Session) {
	if h.Type == "ticket" {
		return nil, newSession(h.Ticket.Master[:])
	}
	if padLen < 0 || padLen > MaxUDHPad {
		panic("ref/ss: response padding out of range")
	}
	if key == nil {
		key = NewDHKey(s.Rand)
	}
	pad := make([]byte, padLen)
	io.ReadFull(s.Rand, pad)
	mark := Mac128(s.KB[:], key.Pub[:])
	// padding that happened to contain the mark would make the response
	// ambiguous; redraw (probability 2^-128 per position)
	for bytes.Contains(append(append([]byte{}, pad...), mark[:MacLen-1]...), mark) {
		io.ReadFull(s.Rand, pad)
	}
	resp := make([]byte, 0, MinUDH+padLen)
	resp = append(resp, key.Pub[:]...)
	resp = append(resp, pad...)
	resp = append(resp, mark...)
	resp = append(resp, Mac128(s.KB[:], resp, []byte(h.Hour))...)
	master := sha256.Sum256(key.Shared(h.X))
	return resp, newSession(master[:])
}

// RawPacket builds a packet with arbitrary header fields (for hostile-peer
// workloads): MAC(16) | E(total(2) | payloadLen(2) | flags(1) | body).  The MAC
// is valid, so a receiver gets past authentication and sees the header as is.
func (e *Encoder) RawPacket(total, payloadLen uint16, flags byte, body []byte) []byte {
	pt := make([]byte, HdrLen+len(body))
	binary.BigEndian.PutUint16(pt[0:], total)
	binary.BigEndian.PutUint16(pt[2:], payloadLen)
	pt[4] = flags
	copy(pt[HdrLen:], body)
	e.c.xor(pt)
	return append(Mac128(e.macKey, pt), pt...)
}
