package ell2

import (
	"bytes"
	"crypto/ed25519"
	"crypto/sha512"
	"encoding/hex"
	"math/big"
	"math/rand/v2"
	"testing"

	"golang.org/x/crypto/curve25519"
)

func rng() *rand.Rand { return rand.New(rand.NewPCG(7, 11)) }

func randFe(r *rand.Rand) *big.Int {
	var b [32]byte
	for i := range b {
		b[i] = byte(r.Uint32())
	}
	return Red(FromBytes(b[:]))
}

func randBytes(r *rand.Rand) []byte {
	b := make([]byte, 32)
	for i := range b {
		b[i] = byte(r.Uint32())
	}
	return b
}

func dec(s string) *big.Int {
	v, ok := new(big.Int).SetString(s, 10)
	if !ok {
		panic(s)
	}
	return v
}

func unhex(s string) []byte {
	b, err := hex.DecodeString(s)
	if err != nil {
		panic(err)
	}
	return b
}

func TestFieldConstants(t *testing.T) {
	if !P.ProbablyPrime(32) || !L.ProbablyPrime(32) {
		t.Fatal("p or l not prime")
	}
	if Add(Sqr(SqrtM1), one).Sign() != 0 {
		t.Fatal("sqrt(-1)^2 != -1")
	}
	// RFC 8032 section 5.1
	if D.Cmp(dec("37095705934669439343138083508754565189542113879843219016388785533085940283555")) != 0 {
		t.Fatalf("d = %v", D)
	}
	if baseX.Cmp(dec("15112221349535400772501151409588531511454012693041857206046113283949847762202")) != 0 ||
		baseY.Cmp(dec("46316835694926478169428394003475163141307993866256225615783033603165251855960")) != 0 {
		t.Fatalf("base point = (%v, %v)", baseX, baseY)
	}
	if L.Cmp(new(big.Int).Add(new(big.Int).Lsh(one, 252), dec("27742317777372353535851937790883648493"))) != 0 {
		t.Fatal("l")
	}
	// the facts the Elligator 2 derivation relies on
	if Chi(two) != -1 {
		t.Fatal("2 must be a non-square")
	}
	if Chi(Neg(A)) != -1 {
		t.Fatal("-A must be a non-square")
	}
	if Chi(Sub(Sqr(A), big.NewInt(4))) != -1 {
		t.Fatal("A^2-4 must be a non-square")
	}
	if Chi(D) != -1 {
		t.Fatal("d must be a non-square")
	}
}

func TestFieldOps(t *testing.T) {
	r := rng()
	for i := 0; i < 2000; i++ {
		a := randFe(r)
		if j := big.Jacobi(a, P); j != Chi(a) {
			t.Fatalf("Chi(%v) = %d, Jacobi %d", a, Chi(a), j)
		}
		if a.Sign() != 0 {
			if Mul(a, Inv(a)).Cmp(one) != 0 || Inv(a).Cmp(new(big.Int).ModInverse(a, P)) != 0 {
				t.Fatal("Inv")
			}
		}
		s, ok := Sqrt(Sqr(a))
		if !ok || (s.Cmp(a) != 0 && s.Cmp(Neg(a)) != 0) || s.Cmp(pm1h) > 0 {
			t.Fatalf("Sqrt(a^2) for %v", a)
		}
		if _, ok := Sqrt(Mul(two, Sqr(a))); ok && a.Sign() != 0 {
			t.Fatal("Sqrt of a non-square succeeded")
		}
		b := Bytes(a)
		if FromBytes(b[:]).Cmp(a) != 0 {
			t.Fatal("Bytes/FromBytes")
		}
	}
	if Inv(big.NewInt(0)).Sign() != 0 {
		t.Fatal("Inv(0)")
	}
	if s, ok := Sqrt(big.NewInt(0)); !ok || s.Sign() != 0 {
		t.Fatal("Sqrt(0)")
	}
}

func TestEdwardsGroupLaw(t *testing.T) {
	r := rng()
	b := Base()
	if !b.IsOnCurve() {
		t.Fatal("base not on curve")
	}
	if u, ok := b.MontgomeryU(); !ok || u.Cmp(big.NewInt(9)) != 0 {
		t.Fatalf("u(B) = %v", u)
	}
	if !b.ScalarMult(L).Equal(Identity()) {
		t.Fatal("l*B != 0")
	}
	for i := 0; i < 200; i++ {
		k1 := new(big.Int).Rsh(randFe(r), uint(r.IntN(250)))
		k2 := randFe(r)
		p1, p2 := ScalarBaseMult(k1), b.ScalarMult(k2)
		if !p1.Equal(b.ScalarMult(k1)) {
			t.Fatal("ScalarBaseMult != ScalarMult")
		}
		if !p1.IsOnCurve() || !p2.IsOnCurve() {
			t.Fatal("not on curve")
		}
		sum := p1.Add(p2)
		if !sum.IsOnCurve() || !sum.Equal(p2.Add(p1)) {
			t.Fatal("commutativity")
		}
		// projective law against the affine law
		x1, y1 := p1.Affine()
		x2, y2 := p2.Affine()
		x3, y3 := AddAffine(x1, y1, x2, y2)
		if !sum.Equal(&Point{x3, y3, big.NewInt(1)}) {
			t.Fatal("projective != affine addition")
		}
		// homomorphism
		if !sum.Equal(ScalarBaseMult(new(big.Int).Mod(new(big.Int).Add(k1, k2), L))) {
			t.Fatal("k1*B + k2*B != (k1+k2)*B")
		}
		// doubling through the unified law, inverse, neutral element
		tk := Torsion[r.IntN(8)]
		if !p1.Add(p1).Equal(p1.Double()) || !sum.Double().Equal(sum.Add(sum)) || !tk.Double().Equal(tk.Add(tk)) || !p1.Add(tk).Double().Equal(p1.Add(tk).Add(p1.Add(tk))) {
			t.Fatal("Double != Add(p,p)")
		}
		if !p1.Add(p1).Equal(p1.ScalarMult(two)) || !p1.Add(p1.Neg()).Equal(Identity()) || !p1.Add(Identity()).Equal(p1) {
			t.Fatal("double/neg/identity")
		}
		// associativity with a torsion point mixed in
		if !p1.Add(p2).Add(tk).Equal(p1.Add(p2.Add(tk))) {
			t.Fatal("associativity")
		}
	}
}

// RFC 7748 section 6.1 and random keys against x/crypto.
func TestAgainstX25519(t *testing.T) {
	priv := unhex("77076d0a7318a57d3c16c17251b26645df4c2f87ebc0992ab177fba51db92c2a")
	want := unhex("8520f0098930a754748b7ddcb43ef75a0dbf3a0d26381af4eba4a98eaa9b4e6a")
	u, _ := ScalarBaseMult(Clamp(priv)).MontgomeryU()
	if got := Bytes(u); !bytes.Equal(got[:], want) {
		t.Fatalf("RFC 7748 Alice public key: %x", got)
	}
	r := rng()
	for i := 0; i < 300; i++ {
		priv := randBytes(r)
		want, err := curve25519.X25519(priv, curve25519.Basepoint)
		if err != nil {
			t.Fatal(err)
		}
		q := ScalarBaseMult(Clamp(priv))
		u, _ := q.MontgomeryU()
		if got := Bytes(u); !bytes.Equal(got[:], want) {
			t.Fatalf("priv %x: ref %x, x/crypto %x", priv, got, want)
		}
		// variable-base: X25519(s, pub) through LiftU and ScalarMult
		s := randBytes(r)
		pt, ok := LiftU(u)
		if !ok || !pt.IsOnCurve() {
			t.Fatal("LiftU of a public key")
		}
		if pu, _ := pt.MontgomeryU(); pu.Cmp(u) != 0 {
			t.Fatal("LiftU round trip")
		}
		su, _ := pt.ScalarMult(Clamp(s)).MontgomeryU()
		want2, err := curve25519.X25519(s, want)
		if err != nil {
			t.Fatal(err)
		}
		if got := Bytes(su); !bytes.Equal(got[:], want2) {
			t.Fatal("variable-base X25519 mismatch")
		}
	}
}

func encodeEd(p *Point) []byte {
	x, y := p.Affine()
	b := Bytes(y)
	b[31] |= byte(x.Bit(0)) << 7
	return b[:]
}

// RFC 8032 section 7.1 test 1 and random seeds against crypto/ed25519: fixes
// the sign of the base point and of every multiple.
func TestAgainstEd25519(t *testing.T) {
	check := func(seed []byte) {
		h := sha512.Sum512(seed)
		got := encodeEd(ScalarBaseMult(Clamp(h[:32])))
		want := ed25519.NewKeyFromSeed(seed).Public().(ed25519.PublicKey)
		if !bytes.Equal(got, want) {
			t.Fatalf("seed %x: ref %x, ed25519 %x", seed, got, want)
		}
	}
	seed := unhex("9d61b19deffd5a60ba844af492ec2cc44449c5697b326919703bac031cae7f60")
	check(seed)
	h := sha512.Sum512(seed)
	if got := encodeEd(ScalarBaseMult(Clamp(h[:32]))); hex.EncodeToString(got) != "d75a980182b10ab7d54bfed3c964073a0ee172f3daa62325af021a68f707511a" {
		t.Fatalf("RFC 8032 test 1: %x", got)
	}
	r := rng()
	for i := 0; i < 100; i++ {
		check(randBytes(r))
	}
}

func TestTorsion(t *testing.T) {
	for k, p := range Torsion {
		if !p.IsOnCurve() {
			t.Fatalf("torsion %d not on curve", k)
		}
		if !p.ScalarMult(big.NewInt(8)).Equal(Identity()) {
			t.Fatalf("8*T%d != 0", k)
		}
		if TorsionIndex(p) != k {
			t.Fatalf("index of T%d", k)
		}
		if !p.Add(Torsion[(8-k)%8]).Equal(Identity()) {
			t.Fatalf("T%d + T%d != 0", k, 8-k)
		}
	}
	if Torsion[1].ScalarMult(big.NewInt(4)).Equal(Identity()) {
		t.Fatal("T1 has order < 8")
	}
	x4, y4 := Torsion[4].Affine()
	if x4.Sign() != 0 || Add(y4, one).Sign() != 0 {
		t.Fatal("T4 != (0,-1)")
	}
	for _, k := range []int{2, 6} {
		x, y := Torsion[k].Affine()
		if y.Sign() != 0 || Add(Sqr(x), one).Sign() != 0 {
			t.Fatalf("T%d != (±i,0)", k)
		}
	}
	lo := LowOrderU()
	if lo[4].Sign() != 0 || lo[2].Cmp(one) != 0 || lo[6].Cmp(one) != 0 {
		t.Fatalf("low-order u: %v", lo)
	}
	if lo[1].Cmp(lo[7]) != 0 || lo[3].Cmp(lo[5]) != 0 || lo[1].Cmp(lo[3]) == 0 {
		t.Fatalf("order-8 u: %v", lo)
	}
	// the two order-8 u-coordinates, as listed e.g. in libsodium's blacklist
	known := map[string]bool{
		"e0eb7a7c3b41b8ae1656e3faf19fc46ada098deb9c32b1fd866205165f49b800": true,
		"5f9c95bca3508c24b1d0b1559c83ef5b04445cc4581c8e86d8224eddd09f1157": true,
	}
	for _, k := range []int{1, 3} {
		b := Bytes(lo[k])
		if !known[hex.EncodeToString(b[:])] {
			t.Fatalf("order-8 u-coordinate %x not the published one", b)
		}
		delete(known, hex.EncodeToString(b[:]))
		// X25519 with any scalar sends it to 0 (x/crypto reports the all-zero output as an error)
		if _, err := curve25519.X25519(bytes.Repeat([]byte{0x55}, 32), b[:]); err == nil {
			t.Fatal("x/crypto does not regard the order-8 u as low order")
		}
	}
	// -1 and -A lie on the twist
	if OnCurve(Neg(one)) || OnCurve(Neg(A)) {
		t.Fatal("-1 / -A on curve")
	}
}

func TestCandidatesAndClasses(t *testing.T) {
	r := rng()
	for i := 0; i < 40; i++ {
		priv := randBytes(r)
		c := Candidates(priv)
		clean, _ := curve25519.X25519(priv, curve25519.Basepoint)
		if b := Bytes(c[0]); !bytes.Equal(b[:], clean) {
			t.Fatal("candidate 0 is not the clean key")
		}
		s := randBytes(r)
		want, _ := curve25519.X25519(s, clean)
		for k := 0; k < 8; k++ {
			for j := 0; j < k; j++ {
				if c[j].Cmp(c[k]) == 0 {
					t.Fatal("candidates collide")
				}
			}
			cls, ok := TorsionClass(c[k])
			if !ok || cls != FoldIndex(k) {
				t.Fatalf("TorsionClass(candidate %d) = %d,%v want %d", k, cls, ok, FoldIndex(k))
			}
			// clamped scalars are multiples of 8: the torsion part vanishes
			b := Bytes(c[k])
			got, err := curve25519.X25519(s, b[:])
			if err != nil || !bytes.Equal(got, want) {
				t.Fatalf("X25519 on dirty candidate %d differs", k)
			}
		}
	}
	// FoldIndex is onto {0..4} and pairs k with 8-k
	for k := 1; k < 8; k++ {
		if FoldIndex(k) != FoldIndex(8-k) {
			t.Fatal("FoldIndex symmetry")
		}
	}
	if _, ok := TorsionClass(two); ok != OnCurve(two) {
		t.Fatal("TorsionClass on-curve flag")
	}
}

func TestElligatorIdentities(t *testing.T) {
	r := rng()
	onCurve, withRep := 0, 0
	for i := 0; i < 1500; i++ {
		x := randFe(r)
		u := Map(x)
		if !OnCurve(u) {
			t.Fatalf("Map(%v) not on curve", x)
		}
		if Map(Neg(x)).Cmp(u) != 0 {
			t.Fatal("Map(-r) != Map(r)")
		}
		if !HasRepresentative(u) {
			t.Fatal("image point without representative")
		}
		reps := Representatives(u)
		if len(reps) != 4 {
			t.Fatalf("generic point has %d representatives", len(reps))
		}
		found := 0
		for _, q := range reps {
			if Map(q).Cmp(u) != 0 {
				t.Fatal("representative does not map back")
			}
			if q.Cmp(x) == 0 || q.Cmp(Neg(x)) == 0 {
				found++
			}
		}
		if found != 2 {
			t.Fatal("r, -r not among the representatives")
		}
		// exactly one of w, -w-A is on the curve
		if OnCurve(Sub(Neg(u), A)) {
			t.Fatal("both u and -u-A on the curve")
		}
		// closed form against construction, on arbitrary field elements
		y := randFe(r)
		has := HasRepresentative(y)
		if has != (len(Representatives(y)) > 0) {
			t.Fatalf("criterion and construction disagree for %v", y)
		}
		if OnCurve(y) {
			onCurve++
			if has {
				withRep++
			}
		} else if has {
			t.Fatal("twist point with representative")
		}
	}
	if withRep == 0 || withRep == onCurve {
		t.Fatalf("degenerate sample: %d/%d", withRep, onCurve)
	}
	// edge values
	if Map(big.NewInt(0)).Sign() != 0 {
		t.Fatal("Map(0) != 0")
	}
	if reps := Representatives(big.NewInt(0)); len(reps) != 1 || reps[0].Sign() != 0 || !HasRepresentative(big.NewInt(0)) {
		t.Fatal("representatives of u = 0")
	}
	if HasRepresentative(Neg(A)) || len(Representatives(Neg(A))) != 0 {
		t.Fatal("-A has a representative")
	}
	for _, u := range LowOrderU() {
		if u != nil && HasRepresentative(u) != (len(Representatives(u)) > 0) {
			t.Fatal("low-order criterion/construction")
		}
	}
}

func TestDecodeIgnoresTopBits(t *testing.T) {
	r := rng()
	for i := 0; i < 200; i++ {
		s := randBytes(r)
		want := Decode(s)
		for top := 0; top < 4; top++ {
			s[31] = s[31]&0x3f | byte(top)<<6
			if Decode(s) != want {
				t.Fatal("Decode depends on the top bits")
			}
		}
	}
}

func BenchmarkCandidates(b *testing.B) {
	r := rng()
	priv := randBytes(r)
	for i := 0; i < b.N; i++ {
		priv[1]++
		Candidates(priv)
	}
}

func BenchmarkTorsionClass(b *testing.B) {
	u := Map(big.NewInt(12345))
	for i := 0; i < b.N; i++ {
		TorsionClass(u)
	}
}

func BenchmarkDecode(b *testing.B) {
	s := randBytes(rng())
	for i := 0; i < b.N; i++ {
		s[0]++
		Decode(s)
	}
}

func BenchmarkHasRepresentative(b *testing.B) {
	u := Map(big.NewInt(12345))
	for i := 0; i < b.N; i++ {
		HasRepresentative(u)
	}
}
