// Package ell2 is an independent math/big reference for Curve25519 and the
// Elligator 2 map, written from the mathematics (Bernstein–Hamburg–Krasnova–
// Lange, "Elligator", section 5; RFC 7748 section 4.1 for the curve and the
// birational map to edwards25519).  It shares no code with the repository
// under test nor with the field/point libraries that code uses.
//
//	field       F_p, p = 2^255 - 19
//	Montgomery  v^2 = u^3 + A u^2 + u,  A = 486662
//	Edwards     -x^2 + y^2 = 1 + d x^2 y^2,  d = -121665/121666
//	maps        u = (1+y)/(1-y),  y = (u-1)/(u+1)
//	Elligator 2 (non-square 2): w = -A/(1+2r^2); u = w if w^3+Aw^2+w is a
//	            square, else u = -w-A.
//
// Everything here is slow and variable-time on purpose: clarity first.
package ell2

import (
	"math/big"
)

var (
	// P is the field prime 2^255 - 19.
	P = new(big.Int).Sub(new(big.Int).Lsh(big.NewInt(1), 255), big.NewInt(19))
	// A is the Montgomery coefficient.
	A = big.NewInt(486662)
	// L is the order of the prime-order subgroup.
	L, _ = new(big.Int).SetString("7237005577332262213973186563042994240857116359379907606001950938285454250989", 10)
	// D is the Edwards coefficient -121665/121666.
	D *big.Int
	// SqrtM1 is a square root of -1 (2^((p-1)/4)).
	SqrtM1 *big.Int

	one   = big.NewInt(1)
	two   = big.NewInt(2)
	pm1h  = new(big.Int).Rsh(new(big.Int).Sub(P, one), 1)               // (p-1)/2
	pp3e  = new(big.Int).Rsh(new(big.Int).Add(P, big.NewInt(3)), 3)     // (p+3)/8
	pm2   = new(big.Int).Sub(P, two)                                    // p-2
	mask  = new(big.Int).Sub(new(big.Int).Lsh(big.NewInt(1), 254), one) // 2^254 - 1
	baseY *big.Int
	baseX *big.Int
)

func init() {
	D = Mul(Neg(big.NewInt(121665)), Inv(big.NewInt(121666)))
	SqrtM1 = new(big.Int).Exp(two, new(big.Int).Rsh(new(big.Int).Sub(P, one), 2), P)
	// Ed25519 base point: y = 4/5, x the even root (RFC 8032 section 5.1).
	baseY = Mul(big.NewInt(4), Inv(big.NewInt(5)))
	x, ok := edwardsX(baseY)
	if !ok {
		panic("ell2: base point not on curve")
	}
	if x.Bit(0) == 1 {
		x = Neg(x)
	}
	baseX = x
	initTables()
}

// ---- field ----------------------------------------------------------------

// Red returns x mod p in [0,p).
func Red(x *big.Int) *big.Int { return new(big.Int).Mod(x, P) }

// Add, Sub, Mul, Neg, Sqr are the field operations on reduced or unreduced inputs.
func Add(a, b *big.Int) *big.Int { return Red(new(big.Int).Add(a, b)) }
func Sub(a, b *big.Int) *big.Int { return Red(new(big.Int).Sub(a, b)) }
func Mul(a, b *big.Int) *big.Int { return Red(new(big.Int).Mul(a, b)) }
func Sqr(a *big.Int) *big.Int    { return Mul(a, a) }
func Neg(a *big.Int) *big.Int    { return Red(new(big.Int).Neg(a)) }

// Inv returns a^(p-2) (so Inv(0) = 0), by Fermat.
func Inv(a *big.Int) *big.Int { return new(big.Int).Exp(Red(a), pm2, P) }

// Chi is the quadratic character a^((p-1)/2): 0, 1 or -1 (Euler's criterion).
func Chi(a *big.Int) int {
	e := new(big.Int).Exp(Red(a), pm1h, P)
	switch {
	case e.Sign() == 0:
		return 0
	case e.Cmp(one) == 0:
		return 1
	}
	return -1
}

// IsSquare reports whether a is a square in F_p (0 counts as a square).
func IsSquare(a *big.Int) bool { return Chi(a) >= 0 }

// Sqrt returns a square root of a (the one in [0,(p-1)/2]) if a is a square.
// p = 5 mod 8: c = a^((p+3)/8) satisfies c^2 = ±a.
func Sqrt(a *big.Int) (*big.Int, bool) {
	a = Red(a)
	c := new(big.Int).Exp(a, pp3e, P)
	c2 := Sqr(c)
	if c2.Cmp(a) != 0 {
		if c2.Cmp(Neg(a)) != 0 {
			return nil, false
		}
		c = Mul(c, SqrtM1)
	}
	if c.Cmp(pm1h) > 0 {
		c = Neg(c)
	}
	return c, true
}

// FromBytes interprets b as a 256-bit little-endian integer (not reduced).
func FromBytes(b []byte) *big.Int {
	be := make([]byte, len(b))
	for i := range b {
		be[len(b)-1-i] = b[i]
	}
	return new(big.Int).SetBytes(be)
}

// Bytes is the canonical 32-byte little-endian encoding of x mod p.
func Bytes(x *big.Int) [32]byte {
	var out [32]byte
	be := Red(x).Bytes()
	for i := range be {
		out[i] = be[len(be)-1-i]
	}
	return out
}

// ---- Montgomery curve -----------------------------------------------------

// CurveRHS returns u^3 + A u^2 + u.
func CurveRHS(u *big.Int) *big.Int {
	u2 := Sqr(u)
	return Add(Add(Mul(u2, u), Mul(A, u2)), u)
}

// OnCurve reports whether u is the u-coordinate of a point of the curve
// (rather than of its quadratic twist).
func OnCurve(u *big.Int) bool { return IsSquare(CurveRHS(u)) }

// ---- Elligator 2 ----------------------------------------------------------

// Map is the Elligator 2 direct map F_p -> u-coordinates.
func Map(r *big.Int) *big.Int {
	r = Red(r)
	den := Add(one, Mul(two, Sqr(r))) // never 0: -1/2 is a non-square
	w := Mul(Neg(A), Inv(den))
	if Chi(CurveRHS(w)) == -1 { // never 0: w != 0 and A^2-4 is a non-square
		return Sub(Neg(w), A)
	}
	return w
}

// Decode is the map as applied to a 32-byte string: little-endian, the two
// most significant bits ignored.
func Decode(s []byte) [32]byte {
	r := FromBytes(s)
	r.And(r, mask)
	return Bytes(Map(r))
}

// Representatives returns every r in [0,p) with Map(r) = u, in increasing
// order (none, one (u = 0) or four values).
//
//	Map(r) = u via w = u     <=>  r^2 = -(u+A)/(2u)   and u on the curve
//	Map(r) = u via w = -u-A  <=>  r^2 = -u/(2(u+A))   and -u-A not on the curve
func Representatives(u *big.Int) []*big.Int {
	u = Red(u)
	var cand []*big.Int
	uA := Add(u, A)
	if u.Sign() != 0 {
		if r, ok := Sqrt(Mul(Neg(uA), Inv(Mul(two, u)))); ok {
			cand = append(cand, r, Neg(r))
		}
	}
	if uA.Sign() != 0 {
		if r, ok := Sqrt(Mul(Neg(u), Inv(Mul(two, uA)))); ok {
			cand = append(cand, r, Neg(r))
		}
	}
	var out []*big.Int
	for _, r := range cand {
		if Map(r).Cmp(u) != 0 {
			continue
		}
		dup := false
		for _, o := range out {
			if o.Cmp(r) == 0 {
				dup = true
			}
		}
		if !dup {
			out = append(out, r)
		}
	}
	// insertion sort
	for i := 1; i < len(out); i++ {
		for j := i; j > 0 && out[j].Cmp(out[j-1]) < 0; j-- {
			out[j], out[j-1] = out[j-1], out[j]
		}
	}
	return out
}

// HasRepresentative is the closed-form criterion for "u is in the image of
// Map": u is on the curve, u != -A, and -2u(u+A) is a square.
// (Derivation: for u on the curve, both r^2 equations above are solvable iff
// -2u(u+A) is a square; u = 0 is hit by r = 0 because -A is a non-square.)
func HasRepresentative(u *big.Int) bool {
	u = Red(u)
	uA := Add(u, A)
	if uA.Sign() == 0 {
		return false
	}
	if !OnCurve(u) {
		return false
	}
	return IsSquare(Mul(Neg(two), Mul(u, uA)))
}

// ---- Edwards arithmetic ---------------------------------------------------

// Point is a projective Edwards point (X:Y:Z), x = X/Z, y = Y/Z.
type Point struct{ X, Y, Z *big.Int }

// Identity returns the neutral element (0,1).
func Identity() *Point { return &Point{big.NewInt(0), big.NewInt(1), big.NewInt(1)} }

// Base returns the Ed25519 base point (u = 9 on the Montgomery side).
func Base() *Point { return &Point{new(big.Int).Set(baseX), new(big.Int).Set(baseY), big.NewInt(1)} }

// Affine returns (x, y).
func (p *Point) Affine() (x, y *big.Int) {
	zi := Inv(p.Z)
	return Mul(p.X, zi), Mul(p.Y, zi)
}

// Equal compares projectively.
func (p *Point) Equal(q *Point) bool {
	return Mul(p.X, q.Z).Cmp(Mul(q.X, p.Z)) == 0 && Mul(p.Y, q.Z).Cmp(Mul(q.Y, p.Z)) == 0
}

// IsOnCurve checks -X^2 Z^2 + Y^2 Z^2 = Z^4 + d X^2 Y^2.
func (p *Point) IsOnCurve() bool {
	x2, y2, z2 := Sqr(p.X), Sqr(p.Y), Sqr(p.Z)
	return Mul(Sub(y2, x2), z2).Cmp(Add(Sqr(z2), Mul(D, Mul(x2, y2)))) == 0 && p.Z.Sign() != 0
}

// Neg returns -p = (-x, y).
func (p *Point) Neg() *Point { return &Point{Neg(p.X), Red(p.Y), Red(p.Z)} }

// Add is the (complete, since -1 is a square and d is not) twisted Edwards
// addition law
//
//	x3 = (x1 y2 + y1 x2) / (1 + d x1 x2 y1 y2)
//	y3 = (y1 y2 + x1 x2) / (1 - d x1 x2 y1 y2)
//
// homogenised: with a = Z1 Z2, b = a^2, e = d X1 X2 Y1 Y2:
//
//	X3 = a (X1 Y2 + Y1 X2)(b - e),  Y3 = a (Y1 Y2 + X1 X2)(b + e),  Z3 = (b - e)(b + e).
func (p *Point) Add(q *Point) *Point {
	a := Mul(p.Z, q.Z)
	b := Sqr(a)
	xx := Mul(p.X, q.X)
	yy := Mul(p.Y, q.Y)
	e := Mul(D, Mul(xx, yy))
	f := Sub(b, e)
	g := Add(b, e)
	xn := Add(Mul(p.X, q.Y), Mul(p.Y, q.X))
	yn := Add(yy, xx)
	return &Point{Mul(a, Mul(xn, f)), Mul(a, Mul(yn, g)), Mul(f, g)}
}

// AddAffine is the same law on affine coordinates (for self-tests).
func AddAffine(x1, y1, x2, y2 *big.Int) (x3, y3 *big.Int) {
	k := Mul(D, Mul(Mul(x1, x2), Mul(y1, y2)))
	x3 = Mul(Add(Mul(x1, y2), Mul(y1, x2)), Inv(Add(one, k)))
	y3 = Mul(Add(Mul(y1, y2), Mul(x1, x2)), Inv(Sub(one, k)))
	return
}

// Double returns 2p.  Putting (x2,y2) = (x1,y1) in the addition law and using
// the curve equation 1 + d x^2 y^2 = y^2 - x^2 gives
//
//	x3 = 2xy / (y^2 - x^2),  y3 = (y^2 + x^2) / (2 - (y^2 - x^2)),
//
// homogenised with f = Y^2 - X^2, j = 2Z^2 - f:
//
//	X3 = 2XY j,  Y3 = (Y^2 + X^2) f,  Z3 = f j.
func (p *Point) Double() *Point {
	xx, yy := Sqr(p.X), Sqr(p.Y)
	f := Sub(yy, xx)
	j := Sub(Mul(two, Sqr(p.Z)), f)
	xy2 := Mul(two, Mul(p.X, p.Y))
	return &Point{Mul(xy2, j), Mul(Add(yy, xx), f), Mul(f, j)}
}

// ScalarMult returns k*p (double-and-add, most significant bit first).
func (p *Point) ScalarMult(k *big.Int) *Point {
	acc := Identity()
	for i := k.BitLen() - 1; i >= 0; i-- {
		acc = acc.Double()
		if k.Bit(i) == 1 {
			acc = acc.Add(p)
		}
	}
	return acc
}

var basePow [255]*Point // 2^i * B

func initTables() {
	q := Base()
	for i := range basePow {
		basePow[i] = q
		q = q.Double()
	}
	initTorsion()
}

// ScalarBaseMult returns k*B for 0 <= k < 2^255 using the table of 2^i*B.
func ScalarBaseMult(k *big.Int) *Point {
	acc := Identity()
	for i := 0; i < k.BitLen(); i++ {
		if k.Bit(i) == 1 {
			acc = acc.Add(basePow[i])
		}
	}
	return acc
}

// Clamp is the X25519 scalar decoding of a 32-byte private key (RFC 7748
// section 5): clear bits 0,1,2 and 255, set bit 254.
func Clamp(priv []byte) *big.Int {
	var c [32]byte
	copy(c[:], priv)
	c[0] &= 248
	c[31] &= 127
	c[31] |= 64
	return FromBytes(c[:])
}

// edwardsX solves -x^2 + y^2 = 1 + d x^2 y^2 for x.
func edwardsX(y *big.Int) (*big.Int, bool) {
	y2 := Sqr(y)
	den := Add(Mul(D, y2), one) // never 0: -1/d is a non-square
	return Sqrt(Mul(Sub(y2, one), Inv(den)))
}

// MontgomeryU returns u = (1+y)/(1-y) = (Z+Y)/(Z-Y); ok is false for the
// neutral element (u = infinity).
func (p *Point) MontgomeryU() (*big.Int, bool) {
	den := Sub(p.Z, p.Y)
	if den.Sign() == 0 {
		return nil, false
	}
	return Mul(Add(p.Z, p.Y), Inv(den)), true
}

// LiftU returns one of the two Edwards points with Montgomery coordinate u
// (the one with x in [0,(p-1)/2]); ok is false when u is on the twist or is
// -1 (no affine Edwards image).
func LiftU(u *big.Int) (*Point, bool) {
	u = Red(u)
	den := Add(u, one)
	if den.Sign() == 0 {
		return nil, false
	}
	y := Mul(Sub(u, one), Inv(den))
	x, ok := edwardsX(y)
	if !ok {
		return nil, false
	}
	return &Point{x, y, big.NewInt(1)}, true
}

// ---- torsion --------------------------------------------------------------

// Torsion[k] = k*T8 for a fixed generator T8 of the 8-torsion subgroup.
var Torsion [8]*Point

func initTorsion() {
	// Deterministic search: the first y = 2, 3, ... with a point on the curve
	// whose multiple by L has exact order 8.
	for y := int64(2); ; y++ {
		x, ok := edwardsX(big.NewInt(y))
		if !ok {
			continue
		}
		t := (&Point{x, big.NewInt(y), big.NewInt(1)}).ScalarMult(L)
		t4 := t.ScalarMult(big.NewInt(4))
		if t4.Equal(Identity()) {
			continue // order divides 4
		}
		if !t4.ScalarMult(two).Equal(Identity()) {
			panic("ell2: L * point is not 8-torsion")
		}
		tx, ty := t.Affine()
		t = &Point{tx, ty, big.NewInt(1)}
		acc := Identity()
		for k := 0; k < 8; k++ {
			ax, ay := acc.Affine()
			Torsion[k] = &Point{ax, ay, big.NewInt(1)}
			acc = acc.Add(t)
		}
		return
	}
}

// TorsionIndex returns k with p = Torsion[k], or -1.
func TorsionIndex(p *Point) int {
	for k, t := range Torsion {
		if p.Equal(t) {
			return k
		}
	}
	return -1
}

// LowOrderU lists the Montgomery u-coordinates of the seven non-neutral
// torsion points of the curve (0; 1 twice; two order-8 values twice each),
// indexed like Torsion (entry 0 is nil).
func LowOrderU() [8]*big.Int {
	var out [8]*big.Int
	for k := 1; k < 8; k++ {
		out[k], _ = Torsion[k].MontgomeryU()
	}
	return out
}

// Candidates returns, for a private key, the Montgomery u-coordinates of
// clamp(priv)*B + Torsion[k], k = 0..7.  They are pairwise different (the
// clean point has order L), so a "dirty" public key determines its coset.
func Candidates(priv []byte) [8]*big.Int {
	q := ScalarBaseMult(Clamp(priv))
	var out [8]*big.Int
	for k := range out {
		u, ok := q.Add(Torsion[k]).MontgomeryU()
		if !ok {
			panic("ell2: clean point is a torsion point")
		}
		out[k] = u
	}
	return out
}

// TorsionClass multiplies a point with Montgomery coordinate u by L and
// returns the index of the result among Torsion.  The sign of the lifted point
// is arbitrary, so the result is only defined up to negation: it is reported
// as min(j, 8-j) in {0,1,2,3,4}.  ok is false when u is not on the curve.
// For P = Q + k*T8 with Q of order L: L*P = (L mod 8)*k*T8 = 5k*T8.
func TorsionClass(u *big.Int) (int, bool) {
	pt, ok := LiftU(u)
	if !ok {
		return 0, false
	}
	j := TorsionIndex(pt.ScalarMult(L))
	if j < 0 {
		panic("ell2: L * point not in the torsion table")
	}
	if j > 4 {
		j = 8 - j
	}
	return j, true
}

// FoldIndex maps a coset index k to the value TorsionClass reports for it.
func FoldIndex(k int) int {
	j := (5 * k) % 8
	if j > 4 {
		j = 8 - j
	}
	return j
}
