// Package obfs2 is an independent reference implementation of the obfs2
// obfuscation protocol (both roles) for the verification harness.  It is
// written from the protocol specification (obfsproxy
// doc/obfs2/obfs2-protocol-spec.txt), using only stdlib primitives, and shares
// no code with /repo.
//
//	H(x)      = SHA256(x)
//	MAC(s, x) = H(s | x | s)
//	E(K, s)   = AES-128 in counter mode
//
//	INIT_SEED = SR(16)                 RESP_SEED = SR(16)
//	INIT_PAD_KEY = MAC("Initiator obfuscation padding", INIT_SEED)[:16]
//	RESP_PAD_KEY = MAC("Responder obfuscation padding", RESP_SEED)[:16]
//	initiator sends INIT_SEED | E(INIT_PAD_KEY, UINT32(MAGIC) | UINT32(PADLEN) | WR(PADLEN))
//	responder sends RESP_SEED | E(RESP_PAD_KEY, UINT32(MAGIC) | UINT32(PADLEN) | WR(PADLEN))
//	a receiver closes on MAGIC != 0x2BF5CA7E or PADLEN > 8192, else discards PADLEN bytes
//	INIT_SECRET = MAC("Initiator obfuscated data", INIT_SEED | RESP_SEED)
//	RESP_SECRET = MAC("Responder obfuscated data", INIT_SEED | RESP_SEED)
//	XXX_KEY = XXX_SECRET[:16], XXX_IV = XXX_SECRET[16:]
//
// Two places where the specification text is silent or self-contradictory and
// the reference follows what the deployed implementations (obfsproxy in C and
// in Python) put on the wire, because that is what "interoperates" means:
//
//   - the text defines the padding *key* as MAC(...)[:KEYLEN] and gives no IV
//     for it; deployed code uses the next 16 bytes of the same MAC output as
//     the initial counter block (exactly as the text prescribes for the
//     session keys);
//   - the text derives RESP_PAD_KEY from INIT_SEED (a known typo: the
//     responder sends its message before it has seen INIT_SEED, and the
//     receiver is told to derive the key "upon receiving the SEED from the
//     other party"); deployed code uses RESP_SEED.
//
// The optional shared-secret extension (HASH_ITERATIONS) is not implemented;
// the code under test refuses it as well.
package obfs2

import (
	"crypto/aes"
	"crypto/cipher"
	"crypto/sha256"
	"errors"
	"fmt"
	"io"
	"net"
	"sync"
	"time"
)

// Role says which end of the connection a party is.
type Role int

const (
	Initiator Role = iota
	Responder
)

func (r Role) String() string {
	if r == Initiator {
		return "initiator"
	}
	return "responder"
}

// Peer returns the other role.
func (r Role) Peer() Role { return 1 - r }

// Protocol constants.
const (
	MagicValue   uint32 = 0x2BF5CA7E
	SeedLength          = 16
	MaxPadding          = 8192
	KeyLen              = 16
	IVLen               = 16
	HeaderLength        = 4 + 4 // encrypted MAGIC_VALUE and PADLEN
)

var padLabels = [2]string{"Initiator obfuscation padding", "Responder obfuscation padding"}
var dataLabels = [2]string{"Initiator obfuscated data", "Responder obfuscated data"}

// MAC is H(s | x | s).
func MAC(s string, x []byte) [32]byte {
	buf := make([]byte, 0, 2*len(s)+len(x))
	buf = append(buf, s...)
	buf = append(buf, x...)
	buf = append(buf, s...)
	return sha256.Sum256(buf)
}

// PadSecret is the MAC output from which role r's padding key (first half) and
// initial counter (second half) are taken; seed is r's own seed.
func PadSecret(r Role, seed []byte) [32]byte { return MAC(padLabels[r], seed) }

// DataSecret is XXX_SECRET for the direction in which role r sends.
func DataSecret(r Role, initSeed, respSeed []byte) [32]byte {
	both := append(append(make([]byte, 0, 2*SeedLength), initSeed...), respSeed...)
	return MAC(dataLabels[r], both)
}

// Keystream returns the AES-128-CTR stream keyed by secret[:16] with initial
// counter block secret[16:].
func Keystream(secret [32]byte) cipher.Stream {
	blk, err := aes.NewCipher(secret[:KeyLen])
	if err != nil {
		panic(err)
	}
	return cipher.NewCTR(blk, secret[KeyLen:KeyLen+IVLen])
}

// Hello is one key-establishment message with every field under the caller's
// control, so that non-conforming messages can be produced as well.
type Hello struct {
	Seed    [SeedLength]byte
	Magic   uint32
	PadLen  uint32 // value of the PADLEN field
	Padding []byte // bytes sent behind the header inside E(); a conforming message has len(Padding) == PadLen
}

// NewHello draws a conforming message with padLen bytes of padding from rnd.
func NewHello(rnd io.Reader, padLen int) Hello {
	h := Hello{Magic: MagicValue, PadLen: uint32(padLen), Padding: make([]byte, padLen)}
	if _, err := io.ReadFull(rnd, h.Seed[:]); err != nil {
		panic(err)
	}
	if _, err := io.ReadFull(rnd, h.Padding); err != nil {
		panic(err)
	}
	return h
}

// Bytes is the message as sent by role from.
func (h *Hello) Bytes(from Role) []byte {
	plain := make([]byte, HeaderLength+len(h.Padding))
	be32(plain[0:], h.Magic)
	be32(plain[4:], h.PadLen)
	copy(plain[HeaderLength:], h.Padding)
	out := make([]byte, SeedLength+len(plain))
	copy(out, h.Seed[:])
	Keystream(PadSecret(from, h.Seed[:])).XORKeyStream(out[SeedLength:], plain)
	return out
}

func be32(p []byte, v uint32) {
	p[0], p[1], p[2], p[3] = byte(v>>24), byte(v>>16), byte(v>>8), byte(v)
}

func rd32(p []byte) uint32 {
	return uint32(p[0])<<24 | uint32(p[1])<<16 | uint32(p[2])<<8 | uint32(p[3])
}

// Parsed is what a receiver learns from a peer's key-establishment message.
type Parsed struct {
	Seed   [SeedLength]byte
	Magic  uint32
	PadLen uint32
	Len    int // SeedLength + HeaderLength + PadLen: where the obfuscated data starts
}

// Errors of ParseHello.
var (
	ErrNeedMore = errors.New("ref/obfs2: message incomplete")
	ErrMagic    = errors.New("ref/obfs2: wrong magic value")
	ErrPadLen   = errors.New("ref/obfs2: padding length exceeds MAX_PADDING")
)

// ParseHello examines b, a prefix of everything role from has sent.  The
// header is judged as soon as SEED and 8 more bytes are present (ErrMagic,
// ErrPadLen: close immediately); ErrNeedMore with a non-nil *Parsed means the
// header is fine and padding is still outstanding.
func ParseHello(from Role, b []byte) (*Parsed, error) {
	if len(b) < SeedLength+HeaderLength {
		return nil, ErrNeedMore
	}
	p := &Parsed{}
	copy(p.Seed[:], b)
	var hdr [HeaderLength]byte
	Keystream(PadSecret(from, p.Seed[:])).XORKeyStream(hdr[:], b[SeedLength:SeedLength+HeaderLength])
	p.Magic, p.PadLen = rd32(hdr[0:]), rd32(hdr[4:])
	if p.Magic != MagicValue {
		return p, ErrMagic
	}
	if p.PadLen > MaxPadding {
		return p, ErrPadLen
	}
	p.Len = SeedLength + HeaderLength + int(p.PadLen)
	if len(b) < p.Len {
		return p, ErrNeedMore
	}
	return p, nil
}

// SessionStreams returns the two data key streams: what the initiator sends
// is encrypted with the first, what the responder sends with the second.
func SessionStreams(initSeed, respSeed [SeedLength]byte) (initToResp, respToInit cipher.Stream) {
	return Keystream(DataSecret(Initiator, initSeed[:], respSeed[:])), Keystream(DataSecret(Responder, initSeed[:], respSeed[:]))
}

// Options describe how a reference endpoint performs the key establishment.
type Options struct {
	Role  Role
	Hello Hello // the message to send (NewHello for a conforming one)
	// ReadFirst: parse the peer's message before sending ours (both orders are
	// allowed, neither message depends on the other).
	ReadFirst bool
	// FirstData (only with ReadFirst) is application data sent in the SAME
	// Write call as our key-establishment message.
	FirstData []byte
	// Timeout bounds the wait for the peer's message (default 60 s).
	Timeout time.Duration
}

// Conn is an established reference endpoint.
type Conn struct {
	net.Conn
	Role Role
	Own  Hello
	Peer *Parsed
	// PeerHelloRaw is the peer's message exactly as received.
	PeerHelloRaw []byte

	rmu sync.Mutex
	rx  cipher.Stream
	pre []byte // ciphertext that arrived behind the peer's message
	wmu sync.Mutex
	tx  cipher.Stream
}

// Handshake runs the key establishment over conn.
func Handshake(conn net.Conn, o Options) (*Conn, error) {
	if len(o.FirstData) > 0 && !o.ReadFirst {
		return nil, errors.New("ref/obfs2: FirstData needs ReadFirst (the session key depends on the peer's seed)")
	}
	c := &Conn{Conn: conn, Role: o.Role, Own: o.Hello}
	mine := o.Hello.Bytes(o.Role)
	if !o.ReadFirst {
		if _, err := conn.Write(mine); err != nil {
			return nil, fmt.Errorf("ref/obfs2: sending key establishment message: %w", err)
		}
	}
	to := o.Timeout
	if to == 0 {
		to = 60 * time.Second
	}
	if err := conn.SetReadDeadline(time.Now().Add(to)); err != nil {
		return nil, err
	}
	var got []byte
	buf := make([]byte, 4096)
	for {
		p, perr := ParseHello(o.Role.Peer(), got)
		if perr == nil {
			c.Peer = p
			break
		}
		if perr != ErrNeedMore {
			c.Peer = p
			return c, perr // the caller closes the connection
		}
		n, err := conn.Read(buf)
		got = append(got, buf[:n]...)
		if n == 0 && err != nil {
			return c, fmt.Errorf("ref/obfs2: after %d bytes of the peer's key establishment message: %w", len(got), err)
		}
	}
	if err := conn.SetReadDeadline(time.Time{}); err != nil {
		return nil, err
	}
	c.PeerHelloRaw = append([]byte(nil), got[:c.Peer.Len]...)
	c.pre = append([]byte(nil), got[c.Peer.Len:]...)
	var i2r, r2i cipher.Stream
	if o.Role == Initiator {
		i2r, r2i = SessionStreams(o.Hello.Seed, c.Peer.Seed)
		c.tx, c.rx = i2r, r2i
	} else {
		i2r, r2i = SessionStreams(c.Peer.Seed, o.Hello.Seed)
		c.tx, c.rx = r2i, i2r
	}
	if o.ReadFirst {
		out := mine
		if len(o.FirstData) > 0 {
			ct := make([]byte, len(o.FirstData))
			c.tx.XORKeyStream(ct, o.FirstData)
			out = append(out, ct...)
		}
		if _, err := conn.Write(out); err != nil {
			return nil, fmt.Errorf("ref/obfs2: sending key establishment message: %w", err)
		}
	}
	return c, nil
}

// Read returns decrypted application data.
func (c *Conn) Read(p []byte) (int, error) {
	c.rmu.Lock()
	defer c.rmu.Unlock()
	if len(p) == 0 {
		return 0, nil
	}
	if len(c.pre) > 0 {
		n := copy(p, c.pre)
		c.pre = c.pre[n:]
		c.rx.XORKeyStream(p[:n], p[:n])
		return n, nil
	}
	n, err := c.Conn.Read(p)
	if n > 0 {
		c.rx.XORKeyStream(p[:n], p[:n])
	}
	return n, err
}

// Write encrypts and sends p in one write on the underlying connection.
func (c *Conn) Write(p []byte) (int, error) {
	c.wmu.Lock()
	defer c.wmu.Unlock()
	ct := make([]byte, len(p))
	c.tx.XORKeyStream(ct, p)
	return c.Conn.Write(ct)
}
