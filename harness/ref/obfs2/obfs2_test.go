package obfs2

import (
	"bytes"
	"crypto/sha256"
	"encoding/hex"
	"errors"
	"fmt"
	"io"
	"math/rand/v2"
	"sync"
	"testing"

	"verif/memwire"
)

func unhex(s string) []byte {
	b, err := hex.DecodeString(s)
	if err != nil {
		panic(err)
	}
	return b
}

type rndReader struct{ r *rand.Rand }

func (r rndReader) Read(p []byte) (int, error) {
	for i := range p {
		p[i] = byte(r.r.Uint32())
	}
	return len(p), nil
}

// Primitives against published vectors: FIPS 180 SHA-256("abc") and
// NIST SP 800-38A F.5.1 (CTR-AES128.Encrypt, blocks 1 and 2).
func TestPrimitives(t *testing.T) {
	if got := sha256.Sum256([]byte("abc")); hex.EncodeToString(got[:]) != "ba7816bf8f01cfea414140de5dae2223b00361a396177a9cb410ff61f20015ad" {
		t.Fatalf("sha256(abc) = %x", got)
	}
	if got, want := MAC("ab", []byte("c")), sha256.Sum256([]byte("abcab")); got != want {
		t.Fatalf("MAC(s,x) != H(s|x|s)")
	}
	var secret [32]byte
	copy(secret[:], unhex("2b7e151628aed2a6abf7158809cf4f3c"+"f0f1f2f3f4f5f6f7f8f9fafbfcfdfeff"))
	pt := unhex("6bc1bee22e409f96e93d7e117393172a" + "ae2d8a571e03ac9c9eb76fac45af8e51")
	ct := make([]byte, len(pt))
	Keystream(secret).XORKeyStream(ct, pt)
	if want := unhex("874d6191b620e3261bef6864990db6ce" + "9806f66b7970fdff8617187bb9fffdff"); !bytes.Equal(ct, want) {
		t.Fatalf("CTR-AES128 vector: got %x", ct)
	}
}

// Known answers computed outside Go with coreutils sha256sum and
// `openssl enc -aes-128-ctr -K <secret[:16]> -iv <secret[16:]>` (OpenSSL 3.5.6)
// for INIT_SEED = 00..0f, RESP_SEED = 10..1f.
func TestKnownAnswer(t *testing.T) {
	var iseed, rseed [16]byte
	for i := range iseed {
		iseed[i], rseed[i] = byte(i), byte(16+i)
	}
	chk := func(name string, got []byte, want string) {
		t.Helper()
		if hex.EncodeToString(got) != want {
			t.Errorf("%s = %x, want %s", name, got, want)
		}
	}
	s := PadSecret(Initiator, iseed[:])
	chk("INIT pad secret", s[:], "0b2704f5574bf47ea12421f88026a3fa7bf4ac4c83cc6b6d1b714f290317ca33")
	s = PadSecret(Responder, rseed[:])
	chk("RESP pad secret", s[:], "99622ba51dd4ed663ddee2ba790f87a5b3e5465d0b1ac2267abd2cf90fe57f4e")
	hi := Hello{Seed: iseed, Magic: MagicValue, PadLen: 3, Padding: []byte{0xaa, 0xbb, 0xcc}}
	chk("initiator message", hi.Bytes(Initiator), "000102030405060708090a0b0c0d0e0f"+"2f14b177117a7bfc8d3961")
	hr := Hello{Seed: rseed, Magic: MagicValue}
	chk("responder message", hr.Bytes(Responder), "101112131415161718191a1b1c1d1e1f"+"0644987355292b19")
	s = DataSecret(Initiator, iseed[:], rseed[:])
	chk("INIT_SECRET", s[:], "7ad1d5d0a1a91e6537018252415b2ea1366c5c3195884aef3d21a09edf572012")
	s = DataSecret(Responder, iseed[:], rseed[:])
	chk("RESP_SECRET", s[:], "fc01c71593b9f37122b8a8756cd7869f1a5ff7c064ed3dbdd21feaf7b765965f")
	i2r, r2i := SessionStreams(iseed, rseed)
	m := []byte("hello from the initiator, more than one AES block")
	i2r.XORKeyStream(m, m)
	chk("initiator data", m, "e4e77b21a5e2634440d05153adc1a6c1b889f71813e92cfc964da57a7073eb1a4a3b558e5c13157efa7267dec765f90a87")
	m = []byte("hello from the responder")
	r2i.XORKeyStream(m, m)
	chk("responder data", m, "867757d589c3db55e877f2b8cdc7c5152ee05b92d715cf9f")
}

// Parse(Bytes(h)) == h for every padding length and both roles; every strict
// prefix is "incomplete"; trailing bytes do not matter.
func TestRoundTripAllPaddingLengths(t *testing.T) {
	rng := rand.New(rand.NewPCG(1, 2))
	rr := rndReader{rng}
	for pl := 0; pl <= MaxPadding; pl++ {
		for _, role := range []Role{Initiator, Responder} {
			h := NewHello(rr, pl)
			b := h.Bytes(role)
			if len(b) != SeedLength+HeaderLength+pl {
				t.Fatalf("padlen %d: message of %d bytes", pl, len(b))
			}
			p, err := ParseHello(role, append(b, 1, 2, 3))
			if err != nil || p.Seed != h.Seed || p.Magic != MagicValue || int(p.PadLen) != pl || p.Len != len(b) {
				t.Fatalf("padlen %d role %v: parsed %+v, %v", pl, role, p, err)
			}
			for _, cut := range []int{0, 1, 15, 16, 17, 23, len(b) - 1, rng.IntN(len(b))} {
				if cut < 0 || cut >= len(b) {
					continue
				}
				if _, err := ParseHello(role, b[:cut]); err != ErrNeedMore {
					t.Fatalf("padlen %d cut %d: %v", pl, cut, err)
				}
			}
		}
	}
}

func TestRejects(t *testing.T) {
	rr := rndReader{rand.New(rand.NewPCG(3, 4))}
	for _, role := range []Role{Initiator, Responder} {
		for bit := 0; bit < 32; bit++ {
			h := NewHello(rr, 10)
			h.Magic ^= 1 << bit
			if _, err := ParseHello(role, h.Bytes(role)); err != ErrMagic {
				t.Fatalf("magic bit %d: %v", bit, err)
			}
		}
		for _, pl := range []uint32{MaxPadding + 1, 1 << 31, 1<<32 - 1, 70000} {
			h := NewHello(rr, 100)
			h.PadLen = pl
			if _, err := ParseHello(role, h.Bytes(role)); err != ErrPadLen {
				t.Fatalf("padlen field %d: %v", pl, err)
			}
		}
		// the two roles use different padding keys: a message is not valid for the other role
		h := NewHello(rr, 5)
		if _, err := ParseHello(role.Peer(), h.Bytes(role)); err != ErrMagic {
			t.Fatalf("role separation: %v", err)
		}
	}
}

// Two reference endpoints talk to each other over a buffered in-memory wire:
// every combination of write/read order, data coalesced with the message,
// padding edges, byte-at-a-time delivery.
func TestRefToRef(t *testing.T) {
	rng := rand.New(rand.NewPCG(5, 6))
	rr := rndReader{rng}
	n := 0
	for _, pads := range [][2]int{{0, 0}, {0, MaxPadding}, {MaxPadding, 0}, {MaxPadding, MaxPadding}, {1, 8191}, {rng.IntN(8193), rng.IntN(8193)}} {
		for mode := 0; mode < 3; mode++ { // 0 both write first, 1 initiator reads first + coalesced data, 2 responder reads first + coalesced data
			for ci := 0; ci < 4; ci++ {
				n++
				chunk := func(seed uint64) memwire.ChunkPolicy { // one (possibly stateful) policy per direction
					return []memwire.ChunkPolicy{memwire.All(), memwire.Fixed(1), memwire.Fixed(17), memwire.PRNG(seed, 40)}[ci]
				}
				a, b := memwire.Pair(memwire.Options{})
				a.Out().SetPolicy(chunk(uint64(n)))
				b.Out().SetPolicy(chunk(uint64(n) + 1000))
				oi := Options{Role: Initiator, Hello: NewHello(rr, pads[0])}
				or := Options{Role: Responder, Hello: NewHello(rr, pads[1])}
				msgI, msgR := make([]byte, 1+rng.IntN(5000)), make([]byte, 1+rng.IntN(5000))
				io.ReadFull(rr, msgI)
				io.ReadFull(rr, msgR)
				restI, restR := msgI, msgR
				if mode == 1 {
					oi.ReadFirst, oi.FirstData, restI = true, msgI[:len(msgI)/2], msgI[len(msgI)/2:]
				}
				if mode == 2 {
					or.ReadFirst, or.FirstData, restR = true, msgR[:len(msgR)/2], msgR[len(msgR)/2:]
				}
				var wg sync.WaitGroup
				errs := make(chan error, 4)
				side := func(w *memwire.Conn, o Options, send, want []byte) {
					defer wg.Done()
					c, err := Handshake(w, o)
					if err != nil {
						errs <- err
						return
					}
					if int(c.Peer.PadLen) != pads[1-int(o.Role)] {
						errs <- fmt.Errorf("peer padlen %d", c.Peer.PadLen)
					}
					go func() { c.Write(send) }()
					got := make([]byte, len(want))
					if _, err := io.ReadFull(c, got); err != nil || !bytes.Equal(got, want) {
						errs <- fmt.Errorf("%v side: data mismatch (%v)", o.Role, err)
					}
				}
				wg.Add(2)
				go side(a, oi, restI, msgR)
				go side(b, or, restR, msgI)
				wg.Wait()
				a.Close()
				b.Close()
				select {
				case err := <-errs:
					t.Fatalf("pads %v mode %d: %v", pads, mode, err)
				default:
				}
			}
		}
	}
	t.Logf("%d reference<->reference connections", n)
}

// A reference endpoint refuses non-conforming peers.
func TestRefRejectsLive(t *testing.T) {
	rr := rndReader{rand.New(rand.NewPCG(7, 8))}
	for _, role := range []Role{Initiator, Responder} {
		for k, want := range []error{ErrMagic, ErrPadLen, nil} {
			a, b := memwire.Pair(memwire.Options{})
			bad := NewHello(rr, 40)
			switch k {
			case 0:
				bad.Magic ^= 0x80
			case 1:
				bad.PadLen = MaxPadding + 1
			}
			b.Write(bad.Bytes(role.Peer()))
			_, err := Handshake(a, Options{Role: role, Hello: NewHello(rr, 7)})
			if !errors.Is(err, want) && !(want == nil && err == nil) {
				t.Fatalf("role %v case %d: %v", role, k, err)
			}
			a.Close()
			b.Close()
		}
	}
}
