package siphash

// OFB is the obfs4 "SipHash-2-4 in OFB mode" generator *as deployed* (DESIGN.md
// appendix B).  A seed is 24 bytes: SipHash key (16) followed by the initial
// feedback value IV (8).  One SipHash computation is started under the key and
// is never restarted: producing a block means writing the current 8-byte
// feedback value into the running computation and taking its 64-bit value,
// which becomes both the output block and the next feedback value.  Hence
//
//	block_1 = SipHash(key, IV)
//	block_n = SipHash(key, IV ‖ block_1 ‖ … ‖ block_{n-1})
//
// (obfs4-spec.txt section 5 writes IV[n] = SipHash(K, IV[n-1]); the two agree
// for n = 1 only.  The deployed form is what peers must reproduce, so it is
// the reference.)  The 8 output bytes of SipHash are the 64-bit value least
// significant byte first, as the designers' reference code and vector list
// emit them (the paper vector a129ca6149be45e5 is the byte string e5 45 be 49
// 61 ca 29 a1); those 8 bytes are the block and the next feedback value.
// Int63 reads the same 8 bytes as a big-endian integer and clears bit 63.
type OFB struct {
	h   *State
	ofb [8]byte
	N   int // blocks produced
}

// NewOFB starts the generator from a 24-byte seed.
func NewOFB(seed [24]byte) *OFB {
	var key [16]byte
	copy(key[:], seed[:16])
	o := &OFB{h: New(key)}
	copy(o.ofb[:], seed[16:24])
	return o
}

// NextBlock returns the next 8-byte block.
func (o *OFB) NextBlock() [8]byte {
	o.h.Write(o.ofb[:])
	v := o.h.Sum64()
	for i := 0; i < 8; i++ {
		o.ofb[i] = byte(v >> (8 * uint(i)))
	}
	o.N++
	return o.ofb
}

// Int63 is the next block's bytes read as a big-endian integer, bit 63 cleared.
func (o *OFB) Int63() int64 {
	b := o.NextBlock()
	var v uint64
	for i := 0; i < 8; i++ {
		v = v<<8 | uint64(b[i])
	}
	return int64(v &^ (1 << 63))
}
