// Package siphash is the harness's own SipHash-2-4 (64-bit output), written
// from the SipHash paper (Aumasson, Bernstein: "SipHash: a fast short-input
// PRF", section 2.1/2.2 and appendix A), plus the obfs4 "SipHash-2-4 OFB"
// generator as deployed (see OFB).  It shares no code with
// github.com/dchest/siphash, which the code under test uses.
//
// Paper, section 2:
//
//	initialisation   v0 = k0 ^ 736f6d6570736575   v1 = k1 ^ 646f72616e646f6d
//	                 v2 = k0 ^ 6c7967656e657261   v3 = k1 ^ 7465646279746573
//	                 (k0, k1: the key's two little-endian 64-bit words)
//	compression      the message is parsed into little-endian 64-bit words
//	                 m_0..m_{w-1}; the last word holds the remaining bytes,
//	                 zero padding and, in its most significant byte, len mod 256.
//	                 per word: v3 ^= m; c=2 x SipRound; v0 ^= m
//	finalisation     v2 ^= ff; d=4 x SipRound; return v0^v1^v2^v3
//	SipRound         v0+=v1; v2+=v3; v1<<<=13; v3<<<=16; v1^=v0; v3^=v2;
//	                 v0<<<=32; v2+=v1; v0+=v3; v1<<<=17; v3<<<=21; v1^=v2;
//	                 v3^=v0; v2<<<=32
package siphash

import "math/bits"

// State is an incremental SipHash-2-4 computation.  The zero value is not
// usable; create one with New.  A State is a plain value: copying it forks the
// computation (that is how Sum64 works without disturbing the running hash).
type State struct {
	v0, v1, v2, v3 uint64
	buf            [8]byte // pending bytes of an incomplete word
	nbuf           int     // how many
	total          uint64  // message length so far
}

func le64(b []byte) uint64 {
	_ = b[7]
	return uint64(b[0]) | uint64(b[1])<<8 | uint64(b[2])<<16 | uint64(b[3])<<24 |
		uint64(b[4])<<32 | uint64(b[5])<<40 | uint64(b[6])<<48 | uint64(b[7])<<56
}

// New starts a computation under the 16-byte key.
func New(key [16]byte) *State {
	k0, k1 := le64(key[0:8]), le64(key[8:16])
	return &State{
		v0: k0 ^ 0x736f6d6570736575,
		v1: k1 ^ 0x646f72616e646f6d,
		v2: k0 ^ 0x6c7967656e657261,
		v3: k1 ^ 0x7465646279746573,
	}
}

func (s *State) round() {
	v0, v1, v2, v3 := s.v0, s.v1, s.v2, s.v3
	v0 += v1
	v2 += v3
	v1 = bits.RotateLeft64(v1, 13)
	v3 = bits.RotateLeft64(v3, 16)
	v1 ^= v0
	v3 ^= v2
	v0 = bits.RotateLeft64(v0, 32)
	v2 += v1
	v0 += v3
	v1 = bits.RotateLeft64(v1, 17)
	v3 = bits.RotateLeft64(v3, 21)
	v1 ^= v2
	v3 ^= v0
	v2 = bits.RotateLeft64(v2, 32)
	s.v0, s.v1, s.v2, s.v3 = v0, v1, v2, v3
}

func (s *State) word(m uint64) {
	s.v3 ^= m
	s.round()
	s.round()
	s.v0 ^= m
}

// Write absorbs p (any segmentation of the message gives the same result).
func (s *State) Write(p []byte) {
	s.total += uint64(len(p))
	if s.nbuf > 0 {
		n := copy(s.buf[s.nbuf:], p)
		s.nbuf += n
		p = p[n:]
		if s.nbuf < 8 {
			return
		}
		s.word(le64(s.buf[:]))
		s.nbuf = 0
	}
	for len(p) >= 8 {
		s.word(le64(p))
		p = p[8:]
	}
	s.nbuf = copy(s.buf[:], p)
}

// Sum64 returns the SipHash-2-4 value of everything written so far; the
// running computation is not disturbed and may be continued.
func (s *State) Sum64() uint64 {
	f := *s // fork
	var last uint64
	for i := 0; i < f.nbuf; i++ {
		last |= uint64(f.buf[i]) << (8 * uint(i))
	}
	last |= (f.total & 0xff) << 56
	f.word(last)
	f.v2 ^= 0xff
	f.round()
	f.round()
	f.round()
	f.round()
	return f.v0 ^ f.v1 ^ f.v2 ^ f.v3
}

// Sum64Of is the one-shot form.
func Sum64Of(key [16]byte, msg []byte) uint64 {
	s := New(key)
	s.Write(msg)
	return s.Sum64()
}
