package siphash

import (
	"encoding/binary"
	"math/rand/v2"
	"testing"
)

func paperKey() (k [16]byte) {
	for i := range k {
		k[i] = byte(i)
	}
	return
}

// The test vector of the SipHash paper, appendix A: key 00..0f, message 00..0e.
func TestPaperVector(t *testing.T) {
	msg := make([]byte, 15)
	for i := range msg {
		msg[i] = byte(i)
	}
	if got := Sum64Of(paperKey(), msg); got != 0xa129ca6149be45e5 {
		t.Fatalf("SipHash-2-4(00..0f, 00..0e) = %016x, paper says a129ca6149be45e5", got)
	}
}

// The intermediate values printed in appendix A of the paper.
func TestPaperIntermediateValues(t *testing.T) {
	s := New(paperKey())
	chk := func(where string, v0, v1, v2, v3 uint64) {
		t.Helper()
		if s.v0 != v0 || s.v1 != v1 || s.v2 != v2 || s.v3 != v3 {
			t.Fatalf("%s: state %016x %016x %016x %016x, paper %016x %016x %016x %016x", where, s.v0, s.v1, s.v2, s.v3, v0, v1, v2, v3)
		}
	}
	chk("after initialisation", 0x7469686173716475, 0x6b617f6d656e6665, 0x6b7f62616d677361, 0x7b6b696e727e6c7b)
	s.Write([]byte{0, 1, 2, 3, 4, 5, 6, 7})
	chk("after first word", 0x4a017198de0a59e0, 0x0d52f6f62a4f59a4, 0x634cb3577b01fd3d, 0xa5224d6f55c7d9c8)
	s.Write([]byte{8, 9, 10, 11, 12, 13, 14})
	// the last word (with the length byte) is only absorbed at finalisation
	f := *s
	f.word(0x0f0e0d0c0b0a0908)
	if f.v0 != 0x3c85b3ab6f55be51 || f.v1 != 0x414fc3fb98efe374 || f.v2 != 0xccf13ea527b9f4bd || f.v3 != 0x5293f5da84008f82 {
		t.Fatalf("after last word: %016x %016x %016x %016x", f.v0, f.v1, f.v2, f.v3)
	}
	if f.v2 ^= 0xff; f.v2 != 0xccf13ea527b9f442 {
		t.Fatalf("v2 after the finalisation xor: %016x", f.v2)
	}
	if s.Sum64() != 0xa129ca6149be45e5 {
		t.Fatal("final value")
	}
}

// First entries of the designers' reference vector list (key 00..0f, message
// 00..len-1; output bytes little-endian there), as far as this author can quote
// them from memory; the paper vector above is entry 15 of the same list.
func TestReferenceListHead(t *testing.T) {
	want := []uint64{0x726fdb47dd0e0e31, 0x74f839c593dc67fd, 0x0d6c8009d9a94f5a, 0x85676696d7fb7e2d}
	for n, w := range want {
		msg := make([]byte, n)
		for i := range msg {
			msg[i] = byte(i)
		}
		if got := Sum64Of(paperKey(), msg); got != w {
			t.Errorf("len %d: %016x want %016x", n, got, w)
		}
	}
}

// Any segmentation of the message, with Sum64 taken in between, gives the
// one-shot value of the corresponding prefix.
func TestIncrementalEqualsOneShot(t *testing.T) {
	rng := rand.New(rand.NewPCG(1, 2))
	for it := 0; it < 2000; it++ {
		var key [16]byte
		binary.LittleEndian.PutUint64(key[:], rng.Uint64())
		binary.LittleEndian.PutUint64(key[8:], rng.Uint64())
		msg := make([]byte, rng.IntN(300))
		for i := range msg {
			msg[i] = byte(rng.Uint32())
		}
		s := New(key)
		for off := 0; off < len(msg); {
			n := 1 + rng.IntN(17)
			if off+n > len(msg) {
				n = len(msg) - off
			}
			s.Write(msg[off : off+n])
			off += n
			if rng.IntN(3) == 0 {
				if a, b := s.Sum64(), Sum64Of(key, msg[:off]); a != b {
					t.Fatalf("prefix %d of %d: incremental %016x one-shot %016x", off, len(msg), a, b)
				}
			}
		}
		if a, b := s.Sum64(), Sum64Of(key, msg); a != b {
			t.Fatalf("len %d: incremental %016x one-shot %016x", len(msg), a, b)
		}
	}
}

// The length byte is len mod 256: messages of 256+k zero bytes and k zero
// bytes must differ (different number of words), and a 1-bit change anywhere
// changes the value (sanity, not a proof).
func TestLengthAndBitSensitivity(t *testing.T) {
	key := paperKey()
	if Sum64Of(key, make([]byte, 3)) == Sum64Of(key, make([]byte, 259)) {
		t.Fatal("length extension by 256 zero bytes collides")
	}
	msg := make([]byte, 40)
	base := Sum64Of(key, msg)
	for i := 0; i < len(msg)*8; i++ {
		msg[i/8] ^= 1 << (i % 8)
		if Sum64Of(key, msg) == base {
			t.Fatalf("bit %d does not matter", i)
		}
		msg[i/8] ^= 1 << (i % 8)
	}
}

// OFB as deployed: block_n = SipHash(key, IV ‖ block_1 ‖ … ‖ block_{n-1}),
// recomputed from scratch (quadratic) for the first blocks.
func TestOFBEqualsHashOfGrowingMessage(t *testing.T) {
	rng := rand.New(rand.NewPCG(3, 4))
	for it := 0; it < 20; it++ {
		var seed [24]byte
		for i := range seed {
			seed[i] = byte(rng.Uint32())
		}
		if it == 0 {
			seed = [24]byte{}
		}
		var key [16]byte
		copy(key[:], seed[:16])
		o := NewOFB(seed)
		msg := append([]byte(nil), seed[16:]...)
		for n := 1; n <= 300; n++ {
			b := o.NextBlock()
			w := Sum64Of(key, msg)
			if binary.LittleEndian.Uint64(b[:]) != w {
				t.Fatalf("block %d: %x want %016x", n, b, w)
			}
			msg = append(msg, b[:]...)
		}
		if o.N != 300 {
			t.Fatal("block count")
		}
	}
	// the paper vector as a block: key 00..0f, IV = 00..07 is not the paper
	// message, so check the serialisation on the vector directly
	{
		var seed [24]byte
		for i := 0; i < 16; i++ {
			seed[i] = byte(i)
		}
		for i := 0; i < 8; i++ {
			seed[16+i] = byte(i)
		}
		o := NewOFB(seed)
		b := o.NextBlock()
		w := Sum64Of(paperKey(), []byte{0, 1, 2, 3, 4, 5, 6, 7}) // = reference list entry 8
		if w != 0x93f5f5799a932462 {
			t.Errorf("entry 8 of the reference list: %016x", w)
		}
		if b != [8]byte{0x62, 0x24, 0x93, 0x9a, 0x79, 0xf5, 0xf5, 0x93} {
			t.Errorf("first block for key 00..0f IV 00..07: %x", b)
		}
	}
	// Int63: same stream, top bit cleared
	var seed [24]byte
	for i := range seed {
		seed[i] = 0xff
	}
	a, b := NewOFB(seed), NewOFB(seed)
	sawTop := false
	for i := 0; i < 200; i++ {
		blk := a.NextBlock()
		v := b.Int63()
		if blk[0]&0x80 != 0 {
			sawTop = true
		}
		if v < 0 || uint64(v) != binary.BigEndian.Uint64(blk[:])&^(1<<63) {
			t.Fatalf("Int63 %d: %x vs block %x", i, v, blk)
		}
	}
	if !sawTop {
		t.Fatal("no block with the top bit set in 200 blocks")
	}
}

func BenchmarkOFB(b *testing.B) {
	o := NewOFB([24]byte{})
	for i := 0; i < b.N; i++ {
		o.NextBlock()
	}
}
