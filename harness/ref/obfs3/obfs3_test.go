package obfs3

import (
	"bytes"
	"crypto/sha256"
	"encoding/hex"
	"io"
	"math/big"
	"math/rand/v2"
	"sync"
	"testing"

	"verif/memwire"
)

type rr struct{ r *rand.Rand }

func (r rr) Read(p []byte) (int, error) {
	for i := range p {
		p[i] = byte(r.r.Uint32())
	}
	return len(p), nil
}

// arctanInv returns floor-ish(2^n * arctan(1/x)) by the Gregory series.
func arctanInv(x int64, n uint) *big.Int {
	one := new(big.Int).Lsh(big.NewInt(1), n)
	term := new(big.Int).Div(one, big.NewInt(x))
	sum := new(big.Int).Set(term)
	x2 := big.NewInt(x * x)
	for k := int64(1); term.Sign() != 0; k++ {
		term.Div(term, x2)
		t := new(big.Int).Div(term, big.NewInt(2*k+1))
		if k%2 == 1 {
			sum.Sub(sum, t)
		} else {
			sum.Add(sum, t)
		}
	}
	return sum
}

// The modulus constant is checked against RFC 3526's defining formula
// p = 2^1536 - 2^1472 - 1 + 2^64 * ([2^1406 pi] + 741804), with pi from
// Machin's formula, and for being a safe prime.
func TestModulus(t *testing.T) {
	const guard = 128
	n := uint(1406 + guard)
	pi := new(big.Int).Mul(arctanInv(5, n), big.NewInt(16))
	pi.Sub(pi, new(big.Int).Mul(arctanInv(239, n), big.NewInt(4)))
	pi.Rsh(pi, guard) // floor(2^1406 * pi)
	p := new(big.Int).Lsh(big.NewInt(1), 1536)
	p.Sub(p, new(big.Int).Lsh(big.NewInt(1), 1472))
	p.Sub(p, big.NewInt(1))
	p.Add(p, new(big.Int).Lsh(new(big.Int).Add(pi, big.NewInt(741804)), 64))
	if p.Cmp(P) != 0 {
		t.Fatalf("modulus constant differs from the RFC 3526 formula:\n%x\n%x", P, p)
	}
	if P.BitLen() != 1536 || !P.ProbablyPrime(32) {
		t.Fatal("modulus is not a 1536-bit prime")
	}
	q := new(big.Int).Rsh(P, 1)
	if !q.ProbablyPrime(32) {
		t.Fatal("(p-1)/2 is not prime")
	}
	// 2 generates the order-q subgroup (p = 7 mod 8)
	if new(big.Int).Exp(G, q, P).Cmp(big.NewInt(1)) != 0 {
		t.Fatal("g^q != 1")
	}
}

// NIST SP 800-38A F.5.1 CTR-AES128.Encrypt.
func TestCTRVector(t *testing.T) {
	h := func(s string) []byte { b, _ := hex.DecodeString(s); return b }
	var key, ctr [16]byte
	copy(key[:], h("2b7e151628aed2a6abf7158809cf4f3c"))
	copy(ctr[:], h("f0f1f2f3f4f5f6f7f8f9fafbfcfdfeff"))
	pt := h("6bc1bee22e409f96e93d7e117393172a" + "ae2d8a571e03ac9c9eb76fac45af8e51" + "30c81c46a35ce411e5fbc1191a0a52ef" + "f69f2445df4f9b17ad2b417be66c3710")
	want := h("874d6191b620e3261bef6864990db6ce" + "9806f66b7970fdff8617187bb9fffdff" + "5ae4df3edbd5d35e5b4f09020db03eab" + "1e031dda2fbe03d1792170a0f3009cee")
	for _, step := range []int{64, 1, 7, 16, 17} {
		c := NewCTR(key, ctr)
		got := make([]byte, len(pt))
		for i := 0; i < len(pt); i += step {
			j := min(i+step, len(pt))
			c.XOR(got[i:j], pt[i:j])
		}
		if !bytes.Equal(got, want) {
			t.Fatalf("step %d: %x", step, got)
		}
	}
	// counter carry across all 16 bytes
	for i := range ctr {
		ctr[i] = 0xff
	}
	c := NewCTR(key, ctr)
	var z, out [32]byte
	c.XOR(out[:], z[:])
	if c.ctr != [16]byte{15: 1} {
		t.Fatalf("carry: %x", c.ctr)
	}
}

// manual HMAC-SHA256 (RFC 2104) against mac(), and the RFC 4231 case 2 vector.
func TestMAC(t *testing.T) {
	manual := func(key, msg []byte) []byte {
		if len(key) > 64 {
			k := sha256.Sum256(key)
			key = k[:]
		}
		var ip, op [64]byte
		copy(ip[:], key)
		copy(op[:], key)
		for i := range ip {
			ip[i] ^= 0x36
			op[i] ^= 0x5c
		}
		in := sha256.Sum256(append(ip[:], msg...))
		out := sha256.Sum256(append(op[:], in[:]...))
		return out[:]
	}
	if hex.EncodeToString(mac([]byte("Jefe"), "what do ya want for nothing?")) != "5bdcc146bf60754e6a042426089575c75a003f089d2739839dec58b964ec3843" {
		t.Fatal("RFC 4231 case 2")
	}
	sec := bytes.Repeat([]byte{0xa5}, KeySize)
	s := Derive(sec)
	is := manual(sec, []byte("Initiator obfuscated data"))
	rs := manual(sec, []byte("Responder obfuscated data"))
	if !bytes.Equal(append(s.InitKey[:], s.InitCtr[:]...), is) || !bytes.Equal(append(s.RespKey[:], s.RespCtr[:]...), rs) {
		t.Fatal("key/counter split")
	}
	if !bytes.Equal(s.InitMagic[:], manual(sec, []byte("Initiator magic"))) || !bytes.Equal(s.RespMagic[:], manual(sec, []byte("Responder magic"))) {
		t.Fatal("magic")
	}
}

func TestDHAgreement(t *testing.T) {
	rng := rand.New(rand.NewPCG(1, 2))
	raw := func() []byte { b := make([]byte, KeySize); io.ReadFull(rr{rng}, b); return b }
	ones := bytes.Repeat([]byte{0xff}, KeySize)
	keys := [][]byte{raw(), raw(), raw(), make([]byte, KeySize), {1}, {2}, {3}, ones, P.Bytes(), new(big.Int).Add(P, big.NewInt(5)).Bytes(), new(big.Int).Rsh(P, 1).Bytes()}
	for i, a := range keys {
		for j, b := range keys {
			var secrets [][]byte
			for _, altA := range []bool{false, true} {
				for _, altB := range []bool{false, true} {
					ka, kb := NewDHKey(a, altA), NewDHKey(b, altB)
					wa, wb := ka.Wire(), kb.Wire()
					if len(wa) != KeySize || len(wb) != KeySize {
						t.Fatal("wire size")
					}
					if ka.X.Bit(0) != 0 || kb.X.Bit(0) != 0 {
						t.Fatal("odd exponent")
					}
					sa, sb := ka.Shared(wb), kb.Shared(wa)
					if len(sa) != KeySize || !bytes.Equal(sa, sb) {
						t.Fatalf("keys %d,%d alt %v,%v: secrets differ", i, j, altA, altB)
					}
					if !bytes.Equal(sa, ka.Shared(OtherForm(wb))) {
						t.Fatal("other form gives a different secret")
					}
					secrets = append(secrets, sa)
				}
			}
			// g^(xy)
			e := new(big.Int).Mul(NewDHKey(a, false).X, NewDHKey(b, false).X)
			want := be192(new(big.Int).Exp(G, e, P))
			for _, s := range secrets {
				if !bytes.Equal(s, want) {
					t.Fatalf("keys %d,%d: secret is not g^(xy)", i, j)
				}
			}
		}
	}
	// small known values: x = 2 -> X = 4, p-X
	k := NewDHKey([]byte{3}, true)
	if k.X.Int64() != 2 || k.Pub.Int64() != 4 || new(big.Int).Add(new(big.Int).SetBytes(k.Wire()), big.NewInt(4)).Cmp(P) != 0 {
		t.Fatal("x=2")
	}
}

// stream byte i of direction d
func sb(d byte, i int) byte {
	h := sha256.Sum256([]byte{d, byte(i), byte(i >> 8), byte(i >> 16)})
	return h[0]
}

func stream(d byte, off, n int) []byte {
	b := make([]byte, n)
	for i := range b {
		b[i] = sb(d, off+i)
	}
	return b
}

func TestRefToRef(t *testing.T) {
	rng := rand.New(rand.NewPCG(3, 4))
	pads := [][2]int{{0, 0}, {0, 4097}, {4097, 0}, {4097, 4097}, {1, 1}, {123, 3000}, {4000, 17}}
	for ci, pd := range pads {
		for _, coalesce := range []bool{false, true} {
			for _, chunk := range []int{0, 1, 31, 33} {
				a, b := memwire.Pair(memwire.Options{})
				if chunk > 0 {
					a.Out().SetPolicy(memwire.Fixed(chunk))
					b.Out().SetPolicy(memwire.Fixed(chunk))
				}
				priv := func() []byte { p := make([]byte, KeySize); io.ReadFull(rr{rng}, p); return p }
				var cc, sc *Conn
				var ce, se error
				var wg sync.WaitGroup
				wg.Add(2)
				privC, privS := priv(), priv()
				go func() {
					defer wg.Done()
					cc, ce = Handshake(a, Params{Initiator: true, Priv: privC, Alt: ci%2 == 0, Pad1: pd[0], Pad2: pd[1], Coalesce: coalesce, PadRand: rr{rand.New(rand.NewPCG(5, uint64(ci)))}})
				}()
				go func() {
					defer wg.Done()
					sc, se = Handshake(b, Params{Initiator: false, Priv: privS, Alt: ci%3 == 0, Pad1: pd[1], Pad2: pd[0], Coalesce: !coalesce, PadRand: rr{rand.New(rand.NewPCG(6, uint64(ci)))}})
				}()
				wg.Wait()
				if ce != nil || se != nil {
					t.Fatal(ce, se)
				}
				if !bytes.Equal(cc.Shared, sc.Shared) || len(cc.Shared) != KeySize {
					t.Fatal("shared secret")
				}
				sizes := []int{1, 0, 15, 16, 17, 5000, 33}
				total := 0
				for _, s := range sizes {
					total += s
				}
				wg.Add(4)
				wr := func(c *Conn, d byte) {
					defer wg.Done()
					off := 0
					for _, s := range sizes {
						if n, err := c.Write(stream(d, off, s)); err != nil || n != s {
							t.Error(n, err)
						}
						off += s
					}
				}
				rd := func(c *Conn, d byte) {
					defer wg.Done()
					off := 0
					buf := make([]byte, 700)
					for off < total {
						n, err := c.Read(buf)
						if !bytes.Equal(buf[:n], stream(d, off, n)) {
							t.Errorf("pads %v coalesce %v chunk %d: stream mismatch at %d", pd, coalesce, chunk, off)
							return
						}
						off += n
						if err != nil {
							t.Error(err)
							return
						}
					}
				}
				go wr(cc, 'c')
				go wr(sc, 's')
				go rd(cc, 's')
				go rd(sc, 'c')
				wg.Wait()
				if n, ok := cc.PeerPadding(); !ok || n != pd[0]+pd[1] {
					t.Fatalf("client saw %d padding bytes, want %d", n, pd[0]+pd[1])
				}
				if n, ok := sc.PeerPadding(); !ok || n != pd[0]+pd[1] {
					t.Fatalf("server saw %d padding bytes, want %d", n, pd[0]+pd[1])
				}
				a.Close()
				b.Close()
			}
		}
	}
}

// The reference receiver enforces the padding limit.
func TestRefRejects(t *testing.T) {
	for _, tc := range []struct {
		pad1, pad2 int
		magic      bool
		want       error
	}{
		{4097, 4097, true, nil},
		{4097, 4098, true, ErrPadTooLong},
		{8195, 0, true, ErrPadTooLong},
		{4097, 4097 + 32, false, ErrNoMagic},
		{0, 20000, false, ErrNoMagic},
	} {
		for _, chunk := range []int{0, 1000} {
			a, b := memwire.Pair(memwire.Options{})
			if chunk > 0 {
				a.Out().SetPolicy(memwire.Fixed(chunk))
			}
			var cc, sc *Conn
			var wg sync.WaitGroup
			wg.Add(2)
			go func() {
				defer wg.Done()
				cc, _ = Handshake(a, Params{Initiator: true, Priv: []byte{9, 9, 9}, Pad1: tc.pad1, PadRand: rr{rand.New(rand.NewPCG(7, 7))}})
			}()
			go func() {
				defer wg.Done()
				sc, _ = Handshake(b, Params{Priv: []byte{7, 7, 7, 7}, PadRand: rr{rand.New(rand.NewPCG(8, 8))}})
			}()
			wg.Wait()
			raw := cc.Padding(tc.pad2)
			if tc.magic {
				raw = append(raw, cc.TxMagic()...)
			}
			raw = append(raw, cc.Encrypt([]byte("hello"))...)
			a.Write(raw)
			buf := make([]byte, 16)
			n, err := sc.Read(buf)
			if err != tc.want || (err == nil && string(buf[:n]) != "hello") || (err != nil && n != 0) {
				t.Fatalf("%+v chunk %d: n=%d err=%v", tc, chunk, n, err)
			}
			a.Close()
			b.Close()
		}
	}
}
