// Package obfs3 (ref/obfs3) is an independent implementation of the obfs3
// protocol (obfs3-protocol-spec.txt of the Tor Project's obfsproxy) written
// for the verification harness: UniformDH over the RFC 3526 1536-bit MODP
// group with math/big, the HMAC-SHA256 key/counter/magic derivation, an own
// AES-128-CTR on top of the bare block cipher, and an endpoint for both roles
// whose private key, X / p-X choice and padding lengths are chosen by the
// caller.  Only primitives (AES block, HMAC, SHA-256, math/big) are used; it
// shares no code with /repo.
//
// Spec summary implemented here:
//
//	p = RFC 3526 group 5, g = 2.  Private key: 1536-bit number with the low
//	bit cleared.  X = g^x mod p; the party sends X or p-X (192 bytes, big
//	endian, zero padded).  Shared secret = (received value)^x mod p, 192 bytes
//	big endian: as x is even, (p-Y)^x = Y^x.
//	Phase 1, both sides:  PUB_KEY | WR(PADLEN), PADLEN in [0, MAX_PADDING/2].
//	INIT_SECRET = HMAC(SHARED_SECRET, "Initiator obfuscated data"),
//	RESP_SECRET = HMAC(SHARED_SECRET, "Responder obfuscated data"),
//	*_KEY = *_SECRET[:16], *_COUNTER = *_SECRET[16:].
//	Phase 2, when a side first has data:  WR(PADLEN2) |
//	HMAC(SHARED_SECRET, "Initiator magic" / "Responder magic") | E(KEY, DATA),
//	PADLEN2 in [0, MAX_PADDING/2].  A receiver scans for the peer's magic and
//	gives up when it is not found within MAX_PADDING bytes of padding.
package obfs3

import (
	"bytes"
	"crypto/aes"
	"crypto/cipher"
	"crypto/hmac"
	"crypto/sha256"
	"errors"
	"io"
	"math/big"
	"net"
	"strings"
	"sync"
)

const (
	KeySize         = 192  // bytes of a public key and of the shared secret
	MaxPadding      = 8194 // MAX_PADDING
	MaxPhasePadding = MaxPadding / 2
	MagicLen        = 32
)

// rfc3526Group5 is the 1536-bit MODP prime as printed in RFC 3526, section 2.
const rfc3526Group5 = `
FFFFFFFF FFFFFFFF C90FDAA2 2168C234 C4C6628B 80DC1CD1
29024E08 8A67CC74 020BBEA6 3B139B22 514A0879 8E3404DD
EF9519B3 CD3A431B 302B0A6D F25F1437 4FE1356D 6D51C245
E485B576 625E7EC6 F44C42E9 A637ED6B 0BFF5CB6 F406B7ED
EE386BFB 5A899FA5 AE9F2411 7C4B1FE6 49286651 ECE45B3D
C2007CB8 A163BF05 98DA4836 1C55D39A 69163FA8 FD24CF5F
83655D23 DCA3AD96 1C62F356 208552BB 9ED52907 7096966D
670C354E 4ABC9804 F1746C08 CA237327 FFFFFFFF FFFFFFFF`

// P is the group modulus, G the generator.
var (
	P = func() *big.Int {
		s := strings.NewReplacer(" ", "", "\n", "").Replace(rfc3526Group5)
		n, ok := new(big.Int).SetString(s, 16)
		if !ok {
			panic("ref/obfs3: bad modulus constant")
		}
		return n
	}()
	G = big.NewInt(2)
)

// ---------------------------------------------------------------- UniformDH

// DHKey is a UniformDH key pair.
type DHKey struct {
	X   *big.Int // private exponent (low bit cleared)
	Pub *big.Int // g^X mod p
	Alt bool     // the wire form is p - Pub
}

// NewDHKey makes a key pair from raw private-key bytes (big endian, any
// length); the low bit is cleared as the spec demands.  alt selects p-X as the
// value that goes on the wire.
func NewDHKey(priv []byte, alt bool) *DHKey {
	x := new(big.Int).SetBytes(priv)
	if x.Bit(0) == 1 {
		x.Sub(x, big.NewInt(1))
	}
	return &DHKey{X: x, Pub: new(big.Int).Exp(G, x, P), Alt: alt}
}

// Wire returns the 192-byte value sent to the peer.
func (k *DHKey) Wire() []byte {
	v := k.Pub
	if k.Alt {
		v = new(big.Int).Sub(P, k.Pub)
	}
	return be192(v)
}

// Shared returns the 192-byte shared secret for the peer's wire value (taken
// as a big-endian integer; no validation, as in the spec).
func (k *DHKey) Shared(peerWire []byte) []byte {
	y := new(big.Int).SetBytes(peerWire)
	return be192(new(big.Int).Exp(y, k.X, P))
}

// OtherForm returns p - v for a wire value v (the alternative the sender could
// have chosen), 192 bytes.  For v = 0 the result is p itself.
func OtherForm(wire []byte) []byte {
	return be192(new(big.Int).Sub(P, new(big.Int).SetBytes(wire)))
}

func be192(v *big.Int) []byte {
	out := make([]byte, KeySize)
	b := v.Bytes()
	if len(b) > KeySize {
		panic("ref/obfs3: value wider than 1536 bits")
	}
	copy(out[KeySize-len(b):], b)
	return out
}

// ---------------------------------------------------------------- key schedule

// Secrets is everything derived from the shared secret.
type Secrets struct {
	InitKey, InitCtr [16]byte
	RespKey, RespCtr [16]byte
	InitMagic        [32]byte
	RespMagic        [32]byte
}

func mac(key []byte, label string) []byte {
	h := hmac.New(sha256.New, key)
	h.Write([]byte(label))
	return h.Sum(nil)
}

// Derive computes the key schedule from the 192-byte shared secret.
func Derive(shared []byte) Secrets {
	var s Secrets
	is := mac(shared, "Initiator obfuscated data")
	rs := mac(shared, "Responder obfuscated data")
	copy(s.InitKey[:], is[:16])
	copy(s.InitCtr[:], is[16:])
	copy(s.RespKey[:], rs[:16])
	copy(s.RespCtr[:], rs[16:])
	copy(s.InitMagic[:], mac(shared, "Initiator magic"))
	copy(s.RespMagic[:], mac(shared, "Responder magic"))
	return s
}

// CTR is AES-128 in counter mode built on the bare block cipher: keystream
// block i is AES_k(counter + i) with the 16-byte counter incremented as one
// big-endian 128-bit integer (NIST SP 800-38A).
type CTR struct {
	blk  cipher.Block
	ctr  [16]byte
	ks   [16]byte
	used int
}

// NewCTR returns a keystream generator.
func NewCTR(key, counter [16]byte) *CTR {
	blk, err := aes.NewCipher(key[:])
	if err != nil {
		panic(err)
	}
	return &CTR{blk: blk, ctr: counter, used: 16}
}

// XOR xors the next len(src) keystream bytes onto src into dst.
func (c *CTR) XOR(dst, src []byte) {
	for i := range src {
		if c.used == 16 {
			c.blk.Encrypt(c.ks[:], c.ctr[:])
			for j := 15; j >= 0; j-- {
				c.ctr[j]++
				if c.ctr[j] != 0 {
					break
				}
			}
			c.used = 0
		}
		dst[i] = src[i] ^ c.ks[c.used]
		c.used++
	}
}

// ---------------------------------------------------------------- endpoint

// Params configure one reference endpoint.
type Params struct {
	Initiator bool
	Priv      []byte    // raw private key bytes (low bit ignored)
	Alt       bool      // send p-X instead of X
	Pad1      int       // phase-1 padding length (not range checked: a hostile peer may exceed the limit)
	Pad2      int       // phase-2 padding length (before the magic)
	Coalesce  bool      // first Write puts padding | magic | ciphertext on the wire in ONE write; otherwise padding | magic and the ciphertext are two writes
	PadRand   io.Reader // source of padding bytes
}

// Errors of the receiving side.
var (
	ErrNoMagic    = errors.New("ref/obfs3: peer magic not found within MAX_PADDING + 32 bytes")
	ErrPadTooLong = errors.New("ref/obfs3: peer magic found behind more than MAX_PADDING bytes")
)

// Conn is an established reference endpoint.  Read and Write may be used by
// one goroutine each, concurrently.
type Conn struct {
	W       net.Conn
	P       Params
	Key     *DHKey
	PeerPub []byte // the peer's 192-byte wire value
	Shared  []byte
	S       Secrets

	txMu     sync.Mutex
	txCTR    *CTR
	txMagic  []byte
	txOpened bool

	rxCTR   *CTR
	rxMagic []byte
	rxBuf   []byte // bytes received before the magic was found / decrypted leftovers

	rxMu        sync.Mutex // guards the two fields below (read by monitors from other goroutines)
	rxOpened    bool
	peerPadding int
}

// Handshake runs phase 1 on w: sends PUB_KEY | WR(Pad1) in one write, reads
// the peer's 192-byte public key and derives the key schedule.
func Handshake(w net.Conn, p Params) (*Conn, error) {
	c := &Conn{W: w, P: p, Key: NewDHKey(p.Priv, p.Alt)}
	blob := make([]byte, KeySize+p.Pad1)
	copy(blob, c.Key.Wire())
	if _, err := io.ReadFull(p.PadRand, blob[KeySize:]); err != nil {
		return nil, err
	}
	if _, err := w.Write(blob); err != nil {
		return nil, err
	}
	c.PeerPub = make([]byte, KeySize)
	if _, err := io.ReadFull(w, c.PeerPub); err != nil {
		return nil, err
	}
	c.Shared = c.Key.Shared(c.PeerPub)
	c.S = Derive(c.Shared)
	if p.Initiator {
		c.txCTR, c.rxCTR = NewCTR(c.S.InitKey, c.S.InitCtr), NewCTR(c.S.RespKey, c.S.RespCtr)
		c.txMagic, c.rxMagic = c.S.InitMagic[:], c.S.RespMagic[:]
	} else {
		c.txCTR, c.rxCTR = NewCTR(c.S.RespKey, c.S.RespCtr), NewCTR(c.S.InitKey, c.S.InitCtr)
		c.txMagic, c.rxMagic = c.S.RespMagic[:], c.S.InitMagic[:]
	}
	return c, nil
}

// TxMagic / RxMagic are the magic values this endpoint sends / expects.
func (c *Conn) TxMagic() []byte { return append([]byte(nil), c.txMagic...) }
func (c *Conn) RxMagic() []byte { return append([]byte(nil), c.rxMagic...) }

// Encrypt returns the ciphertext of b under this endpoint's sending stream and
// advances the stream (building block for scripted / hostile senders).
func (c *Conn) Encrypt(b []byte) []byte {
	c.txMu.Lock()
	defer c.txMu.Unlock()
	out := make([]byte, len(b))
	c.txCTR.XOR(out, b)
	return out
}

// Padding returns n padding bytes from PadRand.
func (c *Conn) Padding(n int) []byte {
	p := make([]byte, n)
	io.ReadFull(c.P.PadRand, p)
	return p
}

// Write sends application data; the first call opens phase 2 with
// WR(Pad2) | magic, coalesced with the ciphertext or not according to Params.
func (c *Conn) Write(b []byte) (int, error) {
	ct := c.Encrypt(b)
	if !c.txOpened {
		c.txOpened = true
		head := append(c.Padding(c.P.Pad2), c.txMagic...)
		if c.P.Coalesce {
			if _, err := c.W.Write(append(head, ct...)); err != nil {
				return 0, err
			}
			return len(b), nil
		}
		if _, err := c.W.Write(head); err != nil {
			return 0, err
		}
	}
	if _, err := c.W.Write(ct); err != nil {
		return 0, err
	}
	return len(b), nil
}

// Read returns decrypted application data; the first call scans for the peer's
// magic, reading from the wire as needed.
func (c *Conn) Read(b []byte) (int, error) {
	if len(b) == 0 {
		return 0, nil
	}
	var tmp [4096]byte
	for {
		if _, open := c.PeerPadding(); open {
			break
		}
		if i := bytes.Index(c.rxBuf, c.rxMagic); i >= 0 {
			if i > MaxPadding {
				return 0, ErrPadTooLong
			}
			rest := c.rxBuf[i+MagicLen:]
			c.rxBuf = make([]byte, len(rest))
			c.rxCTR.XOR(c.rxBuf, rest)
			c.rxMu.Lock()
			c.peerPadding, c.rxOpened = i, true
			c.rxMu.Unlock()
			break
		}
		if len(c.rxBuf) >= MaxPadding+MagicLen {
			return 0, ErrNoMagic
		}
		n, err := c.W.Read(tmp[:])
		c.rxBuf = append(c.rxBuf, tmp[:n]...)
		if err != nil && n == 0 {
			return 0, err
		}
	}
	if len(c.rxBuf) > 0 {
		n := copy(b, c.rxBuf)
		c.rxBuf = c.rxBuf[n:]
		return n, nil
	}
	n, err := c.W.Read(b)
	c.rxCTR.XOR(b[:n], b[:n])
	return n, err
}

// PeerPadding returns the number of bytes the peer sent between its public key
// and its magic (phase 1 + phase 2 padding) and whether the magic has been
// found yet.
func (c *Conn) PeerPadding() (int, bool) {
	c.rxMu.Lock()
	defer c.rxMu.Unlock()
	return c.peerPadding, c.rxOpened
}

// Close closes the wire.
func (c *Conn) Close() error { return c.W.Close() }
