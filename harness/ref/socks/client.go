package socks

import (
	"errors"
	"fmt"
	"io"
	"net"
)

// Protocol constants (RFC 1928 sections 3-6, RFC 1929 section 2).
const (
	Ver5 = 0x05

	MethodNone     = 0x00
	MethodGSSAPI   = 0x01
	MethodUserPass = 0x02
	MethodNoAccept = 0xff

	AuthVer = 0x01

	CmdConnect = 0x01
	CmdBind    = 0x02
	CmdUDP     = 0x03

	AtypIPv4   = 0x01
	AtypDomain = 0x03
	AtypIPv6   = 0x04
)

// Dest is a destination as it is put on the wire.
type Dest struct {
	Atyp   byte
	IP     net.IP // 4 bytes for AtypIPv4, 16 bytes for AtypIPv6
	Domain []byte // 1..255 bytes for AtypDomain
	Port   uint16
}

// IPv4Dest, IPv6Dest and DomainDest build destinations.
func IPv4Dest(a, b, c, d byte, port uint16) Dest {
	return Dest{Atyp: AtypIPv4, IP: net.IP{a, b, c, d}, Port: port}
}
func IPv6Dest(ip [16]byte, port uint16) Dest {
	return Dest{Atyp: AtypIPv6, IP: append(net.IP(nil), ip[:]...), Port: port}
}
func DomainDest(name []byte, port uint16) Dest {
	return Dest{Atyp: AtypDomain, Domain: append([]byte(nil), name...), Port: port}
}

// addr returns ATYP, DST.ADDR, DST.PORT.
func (d Dest) addr() ([]byte, error) {
	out := []byte{d.Atyp}
	switch d.Atyp {
	case AtypIPv4:
		if len(d.IP) != 4 {
			return nil, fmt.Errorf("socks: IPv4 destination with %d address bytes", len(d.IP))
		}
		out = append(out, d.IP...)
	case AtypIPv6:
		if len(d.IP) != 16 {
			return nil, fmt.Errorf("socks: IPv6 destination with %d address bytes", len(d.IP))
		}
		out = append(out, d.IP...)
	case AtypDomain:
		if len(d.Domain) < 1 || len(d.Domain) > 255 {
			return nil, fmt.Errorf("socks: domain of %d bytes", len(d.Domain))
		}
		out = append(out, byte(len(d.Domain)))
		out = append(out, d.Domain...)
	default:
		return nil, fmt.Errorf("socks: address type %#x", d.Atyp)
	}
	return append(out, byte(d.Port>>8), byte(d.Port)), nil
}

// Greeting is the version identifier / method selection message.
func Greeting(methods []byte) ([]byte, error) {
	if len(methods) > 255 {
		return nil, errors.New("socks: more than 255 methods")
	}
	return append([]byte{Ver5, byte(len(methods))}, methods...), nil
}

// AuthMessage is the RFC 1929 username/password request.
func AuthMessage(user, pass []byte) ([]byte, error) {
	if len(user) < 1 || len(user) > 255 || len(pass) < 1 || len(pass) > 255 {
		return nil, fmt.Errorf("socks: RFC 1929 field lengths %d/%d out of 1..255", len(user), len(pass))
	}
	out := []byte{AuthVer, byte(len(user))}
	out = append(out, user...)
	out = append(out, byte(len(pass)))
	return append(out, pass...), nil
}

// RequestMessage is the SOCKS request  VER CMD RSV ATYP DST.ADDR DST.PORT.
func RequestMessage(cmd byte, d Dest) ([]byte, error) {
	a, err := d.addr()
	if err != nil {
		return nil, err
	}
	return append([]byte{Ver5, cmd, 0x00}, a...), nil
}

// Reply is a parsed server reply.
type Reply struct {
	Rep  byte
	Atyp byte
	Addr []byte // 4 / 16 / n bytes
	Port uint16
}

// ErrShort: the bytes seen so far are a proper prefix of a well-formed message.
var ErrShort = errors.New("socks: short message")

// ErrServer is wrapped by every error that means "the server's bytes are not
// what the RFC prescribes".
var ErrServer = errors.New("socks: server violates the protocol")

// ParseReply parses  VER REP RSV ATYP BND.ADDR BND.PORT  at the start of b and
// returns the number of bytes it occupies.
func ParseReply(b []byte) (Reply, int, error) {
	var r Reply
	if len(b) >= 1 && b[0] != Ver5 {
		return r, 0, fmt.Errorf("%w: reply VER=%#02x", ErrServer, b[0])
	}
	if len(b) >= 3 && b[2] != 0 {
		return r, 0, fmt.Errorf("%w: reply RSV=%#02x", ErrServer, b[2])
	}
	if len(b) < 4 {
		return r, 0, ErrShort
	}
	r.Rep, r.Atyp = b[1], b[3]
	n := 4
	switch r.Atyp {
	case AtypIPv4:
		n += 4
	case AtypIPv6:
		n += 16
	case AtypDomain:
		if len(b) < 5 {
			return r, 0, ErrShort
		}
		n += 1 + int(b[4])
	default:
		return r, 0, fmt.Errorf("%w: reply ATYP=%#02x", ErrServer, r.Atyp)
	}
	if len(b) < n+2 {
		return r, 0, ErrShort
	}
	r.Addr = append([]byte(nil), b[4:n]...)
	if r.Atyp == AtypDomain {
		r.Addr = r.Addr[1:]
	}
	r.Port = uint16(b[n])<<8 | uint16(b[n+1])
	return r, n + 2, nil
}

// Stage names the three client messages.
type Stage int

const (
	StageGreeting Stage = iota
	StageAuth
	StageRequest
)

func (s Stage) String() string { return [...]string{"greeting", "auth", "request"}[s] }

// Transport carries the client's messages.  Send is handed one whole message;
// how it is cut into segments is the transport's business.
type Transport interface {
	Send(st Stage, msg []byte) error
	io.Reader
}

// Outcomes of the exchange that are not transport errors.
var (
	ErrNoAcceptableMethod = errors.New("socks: server selected 0xFF (no acceptable methods)")
	ErrAuthRejected       = errors.New("socks: RFC 1929 status is a failure")
	ErrCannotContinue     = errors.New("socks: server selected an offered method this client cannot perform")
)

// Client is a strictly step-by-step SOCKS5 client: it never sends a message
// before the reply to the previous one has arrived completely.
type Client struct {
	Methods []byte
	User    []byte
	Pass    []byte
	Cmd     byte
	Dest    Dest

	// Raw* (when non-nil) replace the well-formed message of that stage; an
	// empty non-nil slice means "send nothing at this stage".
	RawGreeting, RawAuth, RawRequest []byte

	// What happened.
	Selected   int    // method the server selected, -1 before that
	AuthStatus int    // RFC 1929 STATUS, -1 if no sub-negotiation took place
	Reached    Stage  // last stage whose message was handed to the transport
	Received   []byte // every byte read from the server
}

func (c *Client) read(t io.Reader, n int) ([]byte, error) {
	b := make([]byte, n)
	m, err := io.ReadFull(t, b)
	c.Received = append(c.Received, b[:m]...)
	return b, err
}

// Handshake runs the exchange up to and including the request.
func (c *Client) Handshake(t Transport) error {
	c.Selected, c.AuthStatus = -1, -1

	msg := c.RawGreeting
	if msg == nil {
		var err error
		if msg, err = Greeting(c.Methods); err != nil {
			return err
		}
	}
	c.Reached = StageGreeting
	if err := t.Send(StageGreeting, msg); err != nil {
		return err
	}
	sel, err := c.read(t, 2)
	if err != nil {
		return err
	}
	if sel[0] != Ver5 {
		return fmt.Errorf("%w: method selection VER=%#02x", ErrServer, sel[0])
	}
	c.Selected = int(sel[1])
	if sel[1] == MethodNoAccept {
		return ErrNoAcceptableMethod
	}
	offered := false
	for _, m := range c.Methods {
		if m == sel[1] {
			offered = true
		}
	}
	if !offered {
		return fmt.Errorf("%w: selected method %#02x was not offered", ErrServer, sel[1])
	}

	switch sel[1] {
	case MethodNone:
	case MethodUserPass:
		msg = c.RawAuth
		if msg == nil {
			if msg, err = AuthMessage(c.User, c.Pass); err != nil {
				return err
			}
		}
		c.Reached = StageAuth
		if err = t.Send(StageAuth, msg); err != nil {
			return err
		}
		st, err := c.read(t, 2)
		if err != nil {
			return err
		}
		if st[0] != AuthVer {
			return fmt.Errorf("%w: RFC 1929 reply VER=%#02x", ErrServer, st[0])
		}
		c.AuthStatus = int(st[1])
		if st[1] != 0 {
			return ErrAuthRejected
		}
	default:
		return ErrCannotContinue
	}

	msg = c.RawRequest
	if msg == nil {
		if msg, err = RequestMessage(c.Cmd, c.Dest); err != nil {
			return err
		}
	}
	c.Reached = StageRequest
	return t.Send(StageRequest, msg)
}

// ReadReply reads exactly one reply.
func (c *Client) ReadReply(t io.Reader) (Reply, error) {
	hdr, err := c.read(t, 4)
	if err != nil {
		return Reply{}, err
	}
	if _, _, perr := ParseReply(hdr); perr != nil && !errors.Is(perr, ErrShort) {
		return Reply{}, perr
	}
	buf := append([]byte(nil), hdr...)
	need := 0
	switch hdr[3] {
	case AtypIPv4:
		need = 4 + 2
	case AtypIPv6:
		need = 16 + 2
	case AtypDomain:
		l, err := c.read(t, 1)
		if err != nil {
			return Reply{}, err
		}
		buf = append(buf, l...)
		need = int(l[0]) + 2
	}
	rest, err := c.read(t, need)
	if err != nil {
		return Reply{}, err
	}
	buf = append(buf, rest...)
	r, n, err := ParseReply(buf)
	if err != nil {
		return r, err
	}
	if n != len(buf) {
		return r, fmt.Errorf("socks: internal: reply length %d != %d", n, len(buf))
	}
	return r, nil
}
