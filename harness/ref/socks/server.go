package socks

// Reference classification of the three client messages as a server has to
// read them (RFC 1928 sections 3 and 4, RFC 1929 section 2).  Used to decide
// what a front end may do with a mutated / arbitrary message.

// Status of a message prefix.
type Status int

const (
	// Complete: b[:n] is one well-formed message.
	Complete Status = iota
	// Short: b is a proper prefix of a message; a server has to wait for more.
	Short
	// Bad: some field has a value the RFCs do not allow (or this kind of
	// front end does not implement: any CMD other than CONNECT).
	Bad
)

func (s Status) String() string { return [...]string{"complete", "short", "bad"}[s] }

// ParseGreeting reads  VER NMETHODS METHODS.
func ParseGreeting(b []byte) (methods []byte, n int, st Status) {
	if len(b) < 1 {
		return nil, 0, Short
	}
	if b[0] != Ver5 {
		return nil, 0, Bad
	}
	if len(b) < 2 {
		return nil, 0, Short
	}
	k := int(b[1])
	if len(b) < 2+k {
		return nil, 0, Short
	}
	return append([]byte(nil), b[2:2+k]...), 2 + k, Complete
}

// SelectMethod is what a pluggable-transport front end has to answer: it must
// take username/password whenever offered (tor offers {none, userpass} when it
// has arguments to pass and sends them only if userpass is selected), "none"
// otherwise, and 0xFF when neither was offered (also for an empty list).
func SelectMethod(methods []byte) byte {
	sel := byte(MethodNoAccept)
	for _, m := range methods {
		if m == MethodUserPass {
			return MethodUserPass
		}
		if m == MethodNone {
			sel = MethodNone
		}
	}
	return sel
}

// ParseAuth reads  VER ULEN UNAME PLEN PASSWD  (both lengths 1..255).
func ParseAuth(b []byte) (user, pass []byte, n int, st Status) {
	if len(b) < 1 {
		return nil, nil, 0, Short
	}
	if b[0] != AuthVer {
		return nil, nil, 0, Bad
	}
	if len(b) < 2 {
		return nil, nil, 0, Short
	}
	ul := int(b[1])
	if ul == 0 {
		return nil, nil, 0, Bad
	}
	if len(b) < 2+ul+1 {
		return nil, nil, 0, Short
	}
	pl := int(b[2+ul])
	if pl == 0 {
		return nil, nil, 0, Bad
	}
	if len(b) < 2+ul+1+pl {
		return nil, nil, 0, Short
	}
	return append([]byte(nil), b[2:2+ul]...), append([]byte(nil), b[3+ul:3+ul+pl]...), 3 + ul + pl, Complete
}

// JoinUserPass is the pt-spec reading of the two fields: the argument string is
// the username followed by the password, except that a password consisting of
// the single byte NUL stands for "no password".
func JoinUserPass(user, pass []byte) string {
	if len(pass) == 1 && pass[0] == 0 {
		return string(user)
	}
	return string(user) + string(pass)
}

// ReqInfo is a parsed request.
type ReqInfo struct {
	Cmd, Rsv byte
	Dest     Dest
	// EmptyDomain: ATYP=3 with a zero length octet.  The RFC's "fully-qualified
	// domain name" cannot be empty, but the RFC prescribes no reaction.
	EmptyDomain bool
}

// ParseRequest reads  VER CMD RSV ATYP DST.ADDR DST.PORT.  CMD other than
// CONNECT and unknown ATYP are Bad; RSV != 0 and an empty domain are reported
// in the result and left to the caller (the RFC obliges the client, not the
// server).
func ParseRequest(b []byte) (q ReqInfo, n int, st Status) {
	if len(b) < 1 {
		return q, 0, Short
	}
	if b[0] != Ver5 {
		return q, 0, Bad
	}
	if len(b) < 2 {
		return q, 0, Short
	}
	if b[1] != CmdConnect {
		return q, 0, Bad
	}
	q.Cmd = b[1]
	if len(b) < 4 {
		return q, 0, Short
	}
	q.Rsv = b[2]
	q.Dest.Atyp = b[3]
	n = 4
	switch b[3] {
	case AtypIPv4:
		if len(b) < n+4 {
			return q, 0, Short
		}
		q.Dest.IP = append([]byte(nil), b[n:n+4]...)
		n += 4
	case AtypIPv6:
		if len(b) < n+16 {
			return q, 0, Short
		}
		q.Dest.IP = append([]byte(nil), b[n:n+16]...)
		n += 16
	case AtypDomain:
		if len(b) < n+1 {
			return q, 0, Short
		}
		l := int(b[n])
		n++
		if len(b) < n+l {
			return q, 0, Short
		}
		q.Dest.Domain = append([]byte(nil), b[n:n+l]...)
		q.EmptyDomain = l == 0
		n += l
	default:
		return q, 0, Bad
	}
	if len(b) < n+2 {
		return q, 0, Short
	}
	q.Dest.Port = uint16(b[n])<<8 | uint16(b[n+1])
	return q, n + 2, Complete
}
