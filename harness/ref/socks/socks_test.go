package socks

import (
	"bytes"
	"encoding/hex"
	"errors"
	"io"
	"math/rand/v2"
	"net"
	"reflect"
	"testing"
)

func TestArgsKnownExamples(t *testing.T) {
	// pt-spec 3.5 example and the classic goptlib documentation examples.
	enc := []struct {
		pairs []KV
		mode  EqMode
		want  string
	}{
		{[]KV{{"shared-secret", "rahasia"}, {"secrets-file", "/tmp/blob"}}, EqBare, "shared-secret=rahasia;secrets-file=/tmp/blob"},
		{[]KV{{"shared-secret", "rahasia"}, {"secrets-file", "/tmp/blob"}}, EqEscaped, "shared-secret=rahasia;secrets-file=/tmp/blob"},
		{[]KV{{"rocks", "20"}, {"height", "5.6"}}, EqBare, "rocks=20;height=5.6"},
		{[]KV{{";", ";"}, {"\\", ";"}}, EqBare, `\;=\;;\\=\;`},
		{[]KV{{"a=b", "c"}}, EqBare, `a\=b=c`},
		{[]KV{{"a", "b=c"}}, EqBare, `a=b=c`},
		{[]KV{{"a", "b=c"}}, EqEscaped, `a=b\=c`},
		{[]KV{{"key", ""}}, EqBare, `key=`},
		{[]KV{{"key", "v1"}, {"key", "v2"}}, EqBare, `key=v1;key=v2`},
		{[]KV{{"cert", "AAA+/=="}, {"iat-mode", "0"}}, EqBare, `cert=AAA+/==;iat-mode=0`},
		{[]KV{{"cert", "AAA+/=="}, {"iat-mode", "0"}}, EqEscaped, `cert=AAA+/\=\=;iat-mode=0`},
	}
	for _, e := range enc {
		got, err := EncodeArgs(e.pairs, e.mode, nil)
		if err != nil || got != e.want {
			t.Errorf("EncodeArgs(%q,%d) = %q, %v; want %q", e.pairs, e.mode, got, err, e.want)
		}
		back, v := DecodeArgs(e.want)
		if v != Valid || !reflect.DeepEqual(back, e.pairs) {
			t.Errorf("DecodeArgs(%q) = %q, %v; want %q", e.want, back, v, e.pairs)
		}
	}
	if _, err := EncodeArgs([]KV{{"", "x"}}, EqBare, nil); err == nil {
		t.Error("empty key encoded")
	}
	for _, s := range []string{"key", "key\\", "=value", "==value", "==key=value", "key=value\\", "a=b;key=value\\", "a;b=c", ";", "key=value;", ";key=value", `key\=value`, "a=b;;c=d", `\`, `a=b;\;`, "a=b;=", "\x00"} {
		if _, v := DecodeArgs(s); v != Malformed {
			t.Errorf("DecodeArgs(%q) verdict %v, want malformed", s, v)
		}
	}
	for _, c := range []struct {
		s    string
		want []KV
	}{
		{`a=\b`, []KV{{"a", "b"}}},
		{`\a=b`, []KV{{"a", "b"}}},
		{"a=\\\x00", []KV{{"a", "\x00"}}},
		{`k=v;x=\y\;`, []KV{{"k", "v"}, {"x", "y;"}}},
	} {
		got, v := DecodeArgs(c.s)
		if v != Unspecified || !reflect.DeepEqual(got, c.want) {
			t.Errorf("DecodeArgs(%q) = %q, %v; want %q unspecified", c.s, got, v, c.want)
		}
	}
	if p, v := DecodeArgs(""); v != Valid || len(p) != 0 {
		t.Errorf("empty string: %v %v", p, v)
	}
	m := ToMap([]KV{{"k1", "a"}, {"k2", "b"}, {"k1", "c"}})
	if !MapsEqual(m, map[string][]string{"k1": {"a", "c"}, "k2": {"b"}}) || MapsEqual(m, map[string][]string{"k1": {"c", "a"}, "k2": {"b"}}) {
		t.Errorf("ToMap/MapsEqual: %v", m)
	}
	if !MapsEqual(nil, map[string][]string{}) {
		t.Error("nil != empty")
	}
}

func randBytes(rng *rand.Rand, n int) string {
	alpha := []byte{'\\', ';', '=', 'a', 'b', 0, 0xff, 0x80, ' ', '"'}
	b := make([]byte, n)
	for i := range b {
		if rng.IntN(4) == 0 {
			b[i] = byte(rng.IntN(256))
		} else {
			b[i] = alpha[rng.IntN(len(alpha))]
		}
	}
	return string(b)
}

func TestArgsRoundTripPRNG(t *testing.T) {
	rng := rand.New(rand.NewPCG(1, 2))
	for i := 0; i < 200000; i++ {
		var pairs []KV
		for n := 1 + rng.IntN(5); n > 0; n-- {
			pairs = append(pairs, KV{randBytes(rng, 1+rng.IntN(6)), randBytes(rng, rng.IntN(8))})
		}
		mode := EqMode(rng.IntN(3))
		s, err := EncodeArgs(pairs, mode, func() bool { return rng.IntN(2) == 0 })
		if err != nil {
			t.Fatal(err)
		}
		back, v := DecodeArgs(s)
		if v != Valid || !reflect.DeepEqual(back, pairs) {
			t.Fatalf("round trip %q -> %q -> %q (%v)", pairs, s, back, v)
		}
	}
}

// Every string over a small alphabet: a string is Valid exactly when some
// coin sequence makes EncodeArgs(DecodeArgs(s)) reproduce it (so Valid = image
// of the encoder); for a Valid string both pure modes decode to the same
// pairs; joining two Valid non-empty strings with ';' concatenates the pairs.
func TestArgsExhaustiveSmallAlphabet(t *testing.T) {
	alpha := []byte{'\\', ';', '=', 'a'}
	var valid []string
	counts := map[Verdict]int{}
	var rec func(cur []byte, left int)
	check := func(s string) {
		pairs, v := DecodeArgs(s)
		counts[v]++
		if v != Valid {
			// not in the image of the encoder under any coin sequence: brute force
			// over the literal-byte reading (for Unspecified) is enough, because the
			// encoder is injective on pairs up to coins.
			if v == Unspecified {
				for mask := 0; mask < 64; mask++ {
					k := 0
					e, _ := EncodeArgs(pairs, EqMixed, func() bool { k++; return mask>>(k-1)&1 == 1 })
					if e == s {
						t.Fatalf("%q classified unspecified but is an encoding", s)
					}
				}
			}
			return
		}
		if len(s) <= 5 {
			valid = append(valid, s)
		}
		found := false
		for mask := 0; mask < 256 && !found; mask++ {
			k := 0
			e, err := EncodeArgs(pairs, EqMixed, func() bool { k++; return mask>>(k-1)&1 == 1 })
			if err != nil {
				t.Fatalf("%q: %v", s, err)
			}
			found = e == s
		}
		if !found {
			t.Fatalf("%q classified valid but no coin sequence re-encodes %q to it", s, pairs)
		}
		for _, mode := range []EqMode{EqBare, EqEscaped} {
			e, _ := EncodeArgs(pairs, mode, nil)
			back, v2 := DecodeArgs(e)
			if v2 != Valid || !reflect.DeepEqual(back, pairs) {
				t.Fatalf("%q: mode %d re-encoding %q decodes to %q (%v)", s, mode, e, back, v2)
			}
		}
	}
	rec = func(cur []byte, left int) {
		if len(cur) > 0 {
			check(string(cur))
		}
		if left == 0 {
			return
		}
		for _, a := range alpha {
			rec(append(cur, a), left-1)
		}
	}
	rec(nil, 8)
	if counts[Valid] == 0 || counts[Malformed] == 0 || counts[Unspecified] == 0 {
		t.Fatalf("verdict classes not all seen: %v", counts)
	}
	for _, a := range valid {
		for _, b := range valid {
			pa, _ := DecodeArgs(a)
			pb, _ := DecodeArgs(b)
			pj, v := DecodeArgs(a + ";" + b)
			if v != Valid || !reflect.DeepEqual(pj, append(append([]KV(nil), pa...), pb...)) {
				t.Fatalf("join %q ; %q -> %q (%v)", a, b, pj, v)
			}
		}
	}
	t.Logf("strings by verdict: %v; join identity over %d valid strings", counts, len(valid))
}

func TestSplitUserPass(t *testing.T) {
	u, p, err := SplitUserPass("key=value", CanonicalSplit(9))
	if err != nil || string(u) != "key=value" || !bytes.Equal(p, []byte{0}) {
		t.Fatalf("%q %q %v", u, p, err)
	}
	long := string(bytes.Repeat([]byte("k=0123456;"), 51)) // 510 bytes
	long = long[:509] + "x"
	if CanonicalSplit(len(long)) != 255 {
		t.Fatal("canonical split")
	}
	for at := 0; at <= 300; at++ {
		u, p, err := SplitUserPass(long, at)
		if at != 255 {
			if err == nil {
				t.Fatalf("split %d of 510 accepted", at)
			}
			continue
		}
		if err != nil || string(u)+string(p) != long {
			t.Fatalf("split 255: %v", err)
		}
	}
	s := string(bytes.Repeat([]byte("a=b;"), 75)) + "z=" // 302 bytes
	n := 0
	for at := 1; at <= 255; at++ {
		u, p, err := SplitUserPass(s, at)
		if len(s)-at > 255 {
			if err == nil {
				t.Fatalf("split %d accepted", at)
			}
			continue
		}
		if err != nil || string(u)+string(p) != s || len(u) < 1 || len(p) < 1 {
			t.Fatalf("split %d: %v", at, err)
		}
		n++
	}
	if n != 255-(302-255)+1 {
		t.Fatalf("splits tried %d", n)
	}
	if !AmbiguousSplit("a=b\x00", 3) || AmbiguousSplit("a=b\x00", 4) || AmbiguousSplit("a=b\x00", 2) || AmbiguousSplit("a=bc", 3) {
		t.Fatal("AmbiguousSplit")
	}
	if _, _, err := SplitUserPass("", 0); err == nil {
		t.Fatal("empty string split")
	}
}

func unhex(s string) []byte {
	b, err := hex.DecodeString(s)
	if err != nil {
		panic(err)
	}
	return b
}

func TestMessagesKnownBytes(t *testing.T) {
	g, _ := Greeting([]byte{0, 2})
	if !bytes.Equal(g, unhex("05020002")) {
		t.Errorf("greeting %x", g)
	}
	g, _ = Greeting(nil)
	if !bytes.Equal(g, unhex("0500")) {
		t.Errorf("greeting %x", g)
	}
	if _, err := Greeting(make([]byte, 256)); err == nil {
		t.Error("256 methods")
	}
	a, _ := AuthMessage([]byte("key=value"), []byte{0})
	if !bytes.Equal(a, unhex("01096b65793d76616c75650100")) {
		t.Errorf("auth %x", a)
	}
	if _, err := AuthMessage(nil, []byte{0}); err == nil {
		t.Error("empty user")
	}
	if _, err := AuthMessage([]byte("x"), nil); err == nil {
		t.Error("empty pass")
	}
	r, _ := RequestMessage(CmdConnect, IPv4Dest(127, 0, 0, 1, 9050))
	if !bytes.Equal(r, unhex("050100017f000001235a")) {
		t.Errorf("request v4 %x", r)
	}
	var ip6 [16]byte
	copy(ip6[:], unhex("0102030405060708090a0b0c0d0e0f10"))
	r, _ = RequestMessage(CmdConnect, IPv6Dest(ip6, 9050))
	if !bytes.Equal(r, unhex("050100040102030405060708090a0b0c0d0e0f10235a")) {
		t.Errorf("request v6 %x", r)
	}
	r, _ = RequestMessage(CmdConnect, DomainDest([]byte("example.com"), 9050))
	if !bytes.Equal(r, unhex("050100030b6578616d706c652e636f6d235a")) {
		t.Errorf("request domain %x", r)
	}
	r, _ = RequestMessage(CmdBind, DomainDest([]byte("a"), 1))
	if !bytes.Equal(r, unhex("0502000301610001")) {
		t.Errorf("request bind %x", r)
	}
	if _, err := RequestMessage(CmdConnect, DomainDest(nil, 1)); err == nil {
		t.Error("empty domain")
	}
	if _, err := RequestMessage(CmdConnect, DomainDest(make([]byte, 256), 1)); err == nil {
		t.Error("256-byte domain")
	}
}

func TestParseReply(t *testing.T) {
	good := []struct {
		hex  string
		want Reply
	}{
		{"05000001000000000000", Reply{0, 1, []byte{0, 0, 0, 0}, 0}},
		{"050700017f0000011f90", Reply{7, 1, []byte{127, 0, 0, 1}, 8080}},
		{"05010004" + "20010db8000000000000000000000001" + "01bb", Reply{1, 4, unhex("20010db8000000000000000000000001"), 443}},
		{"05000003" + "03" + "612e62" + "0050", Reply{0, 3, []byte("a.b"), 80}},
		{"05000003" + "00" + "0050", Reply{0, 3, []byte{}, 80}},
	}
	for _, g := range good {
		b := unhex(g.hex)
		r, n, err := ParseReply(b)
		if err != nil || n != len(b) || r.Rep != g.want.Rep || r.Atyp != g.want.Atyp || !bytes.Equal(r.Addr, g.want.Addr) || r.Port != g.want.Port {
			t.Errorf("ParseReply(%s) = %+v, %d, %v", g.hex, r, n, err)
		}
		for k := 0; k < len(b); k++ {
			if _, _, err := ParseReply(b[:k]); !errors.Is(err, ErrShort) {
				t.Errorf("ParseReply(%s[:%d]) err %v, want short", g.hex, k, err)
			}
		}
		if _, n, err := ParseReply(append(b, 0xaa)); err != nil || n != len(b) {
			t.Errorf("trailing byte changes parse: %d %v", n, err)
		}
		// and through the reader-driven parser
		c := &Client{}
		rr, err := c.ReadReply(bytes.NewReader(b))
		if err != nil || rr.Rep != g.want.Rep || !bytes.Equal(rr.Addr, g.want.Addr) || rr.Port != g.want.Port || !bytes.Equal(c.Received, b) {
			t.Errorf("ReadReply(%s) = %+v, %v", g.hex, rr, err)
		}
	}
	for _, bad := range []string{"04000001000000000000", "05000101000000000000", "05000002000000000000", "0500000500", "00"} {
		if _, _, err := ParseReply(unhex(bad)); !errors.Is(err, ErrServer) {
			t.Errorf("ParseReply(%s) err %v, want protocol error", bad, err)
		}
		c := &Client{}
		if _, err := c.ReadReply(bytes.NewReader(unhex(bad))); err == nil {
			t.Errorf("ReadReply(%s) accepted", bad)
		}
	}
}

// pipeT sends every message with one Write.
type pipeT struct{ net.Conn }

func (p pipeT) Send(st Stage, msg []byte) error {
	if len(msg) == 0 {
		return nil
	}
	_, err := p.Conn.Write(msg)
	return err
}

// miniServer is a throw-away RFC 1928/1929 server used only to exercise the
// client state machine: it records what it parsed.
type miniServer struct {
	methods    []byte
	user, pass []byte
	req        []byte
	selectM    byte
	authStatus byte
	rep        []byte
}

func (s *miniServer) serve(c net.Conn) error {
	defer c.Close()
	h := make([]byte, 2)
	if _, err := io.ReadFull(c, h); err != nil {
		return err
	}
	s.methods = make([]byte, h[1])
	if _, err := io.ReadFull(c, s.methods); err != nil {
		return err
	}
	if _, err := c.Write([]byte{5, s.selectM}); err != nil {
		return err
	}
	if s.selectM == 0xff {
		return nil
	}
	if s.selectM == 2 {
		if _, err := io.ReadFull(c, h); err != nil {
			return err
		}
		s.user = make([]byte, h[1])
		io.ReadFull(c, s.user)
		io.ReadFull(c, h[:1])
		s.pass = make([]byte, h[0])
		io.ReadFull(c, s.pass)
		c.Write([]byte{1, s.authStatus})
		if s.authStatus != 0 {
			return nil
		}
	}
	q := make([]byte, 4)
	if _, err := io.ReadFull(c, q); err != nil {
		return err
	}
	n := map[byte]int{1: 4, 4: 16}[q[3]]
	if q[3] == 3 {
		l := make([]byte, 1)
		io.ReadFull(c, l)
		q = append(q, l...)
		n = int(l[0])
	}
	rest := make([]byte, n+2)
	io.ReadFull(c, rest)
	s.req = append(q, rest...)
	_, err := c.Write(s.rep)
	return err
}

func TestClientStateMachine(t *testing.T) {
	run := func(s *miniServer, c *Client) (Reply, error, error) {
		a, b := net.Pipe()
		done := make(chan error, 1)
		go func() { done <- s.serve(b) }()
		defer a.Close()
		err := c.Handshake(pipeT{a})
		var rep Reply
		var rerr error
		if err == nil {
			rep, rerr = c.ReadReply(a)
		}
		a.Close()
		<-done
		return rep, err, rerr
	}
	user, pass, _ := SplitUserPass("shared-secret=rahasia;secrets-file=/tmp/blob", 44)
	okRep := unhex("05000001000000000000")

	// userpass path
	s := &miniServer{selectM: 2, rep: okRep}
	c := &Client{Methods: []byte{0, 2}, User: user, Pass: pass, Cmd: CmdConnect, Dest: DomainDest([]byte("example.com"), 9050)}
	rep, err, rerr := run(s, c)
	if err != nil || rerr != nil || rep.Rep != 0 || c.Selected != 2 || c.AuthStatus != 0 || c.Reached != StageRequest {
		t.Fatalf("userpass: %v %v %+v %+v", err, rerr, rep, c)
	}
	if !bytes.Equal(s.methods, []byte{0, 2}) || string(s.user) != "shared-secret=rahasia;secrets-file=/tmp/blob" || !bytes.Equal(s.pass, []byte{0}) ||
		!bytes.Equal(s.req, unhex("050100030b6578616d706c652e636f6d235a")) {
		t.Fatalf("server saw %+v", s)
	}
	if !bytes.Equal(c.Received, append(unhex("05020100"), okRep...)) {
		t.Fatalf("received %x", c.Received)
	}

	// no-auth path: the auth message is never sent
	s = &miniServer{selectM: 0, rep: unhex("05050001000000000000")}
	c = &Client{Methods: []byte{0}, Cmd: CmdConnect, Dest: IPv4Dest(1, 2, 3, 4, 80)}
	rep, err, rerr = run(s, c)
	if err != nil || rerr != nil || rep.Rep != 5 || c.Selected != 0 || c.AuthStatus != -1 || s.user != nil {
		t.Fatalf("noauth: %v %v %+v", err, rerr, rep)
	}

	// 0xFF
	s = &miniServer{selectM: 0xff}
	c = &Client{Methods: []byte{1}, Cmd: CmdConnect, Dest: IPv4Dest(1, 2, 3, 4, 80)}
	if _, err, _ = run(s, c); !errors.Is(err, ErrNoAcceptableMethod) || c.Reached != StageGreeting {
		t.Fatalf("0xff: %v", err)
	}
	// method not offered
	s = &miniServer{selectM: 2}
	c = &Client{Methods: []byte{0}, Cmd: CmdConnect, Dest: IPv4Dest(1, 2, 3, 4, 80)}
	if _, err, _ = run(s, c); !errors.Is(err, ErrServer) {
		t.Fatalf("unoffered: %v", err)
	}
	// offered but not performable
	s = &miniServer{selectM: 1}
	c = &Client{Methods: []byte{1}, Cmd: CmdConnect, Dest: IPv4Dest(1, 2, 3, 4, 80)}
	if _, err, _ = run(s, c); !errors.Is(err, ErrCannotContinue) {
		t.Fatalf("gssapi: %v", err)
	}
	// auth failure stops the client before the request
	s = &miniServer{selectM: 2, authStatus: 1}
	c = &Client{Methods: []byte{2}, User: []byte("x"), Pass: []byte{0}, Cmd: CmdConnect, Dest: IPv4Dest(1, 2, 3, 4, 80)}
	if _, err, _ = run(s, c); !errors.Is(err, ErrAuthRejected) || c.Reached != StageAuth || c.AuthStatus != 1 {
		t.Fatalf("auth rejected: %v", err)
	}
	// raw overrides replace the well-formed messages
	s = &miniServer{selectM: 2, rep: okRep}
	c = &Client{Methods: []byte{2}, RawGreeting: unhex("05020902"), RawAuth: unhex("0101610100"), RawRequest: unhex("05010001090909090009"), Cmd: CmdConnect, Dest: IPv4Dest(1, 1, 1, 1, 1)}
	if _, err, rerr = run(s, c); err != nil || rerr != nil || string(s.user) != "a" || !bytes.Equal(s.methods, []byte{9, 2}) || !bytes.Equal(s.req, unhex("05010001090909090009")) {
		t.Fatalf("raw: %v %v; server saw methods %x user %q req %x", err, rerr, s.methods, s.user, s.req)
	}
}

// The server-side readers are the inverse of the client-side builders, every
// proper prefix of a built message is Short, and each forbidden field value is Bad.
func TestServerSideReaders(t *testing.T) {
	rng := rand.New(rand.NewPCG(7, 9))
	for i := 0; i < 20000; i++ {
		methods := []byte(randBytes(rng, rng.IntN(256)))
		g, _ := Greeting(methods)
		m, n, st := ParseGreeting(g)
		if st != Complete || n != len(g) || !bytes.Equal(m, methods) {
			t.Fatalf("greeting %x -> %x %d %v", g, m, n, st)
		}
		user, pass := []byte(randBytes(rng, 1+rng.IntN(255))), []byte(randBytes(rng, 1+rng.IntN(255)))
		a, _ := AuthMessage(user, pass)
		u, p, n, st := ParseAuth(a)
		if st != Complete || n != len(a) || !bytes.Equal(u, user) || !bytes.Equal(p, pass) {
			t.Fatalf("auth %x", a)
		}
		var d Dest
		switch rng.IntN(3) {
		case 0:
			d = IPv4Dest(byte(rng.IntN(256)), byte(rng.IntN(256)), byte(rng.IntN(256)), byte(rng.IntN(256)), uint16(rng.IntN(65536)))
		case 1:
			var ip [16]byte
			copy(ip[:], randBytes(rng, 16))
			d = IPv6Dest(ip, uint16(rng.IntN(65536)))
		default:
			d = DomainDest([]byte(randBytes(rng, 1+rng.IntN(255))), uint16(rng.IntN(65536)))
		}
		r, _ := RequestMessage(CmdConnect, d)
		q, n, st := ParseRequest(r)
		if st != Complete || n != len(r) || q.Rsv != 0 || q.EmptyDomain || q.Dest.Atyp != d.Atyp || !bytes.Equal(q.Dest.IP, d.IP) || !bytes.Equal(q.Dest.Domain, d.Domain) || q.Dest.Port != d.Port {
			t.Fatalf("request %x -> %+v", r, q)
		}
		if i < 200 {
			for k := 0; k < len(g); k++ {
				if _, _, st := ParseGreeting(g[:k]); st != Short {
					t.Fatalf("greeting prefix %d: %v", k, st)
				}
			}
			for k := 0; k < len(a); k++ {
				if _, _, _, st := ParseAuth(a[:k]); st != Short {
					t.Fatalf("auth prefix %d: %v", k, st)
				}
			}
			for k := 0; k < len(r); k++ {
				if _, _, st := ParseRequest(r[:k]); st != Short {
					t.Fatalf("request prefix %d: %v", k, st)
				}
			}
			if _, n, st := ParseRequest(append(r, 1, 2, 3)); st != Complete || n != len(r) {
				t.Fatal("trailing bytes change the request parse")
			}
		}
	}
	for _, bad := range []string{"04", "00", "0401", "ff0100"} {
		if _, _, st := ParseGreeting(unhex(bad)); st != Bad {
			t.Errorf("greeting %s: %v", bad, st)
		}
	}
	for _, bad := range []string{"00", "05", "0100", "010003", "0100036b3d76", "01016100", "0101610001"} {
		if _, _, _, st := ParseAuth(unhex(bad)); st != Bad {
			t.Errorf("auth %s: %v", bad, st)
		}
	}
	for _, bad := range []string{"04", "0500", "0502", "0503", "05ff", "05010000", "05010002", "05010005", "050100ff"} {
		if _, _, st := ParseRequest(unhex(bad)); st != Bad {
			t.Errorf("request %s: %v", bad, st)
		}
	}
	if q, n, st := ParseRequest(unhex("05013001" + "7f000001" + "235a")); st != Complete || n != 10 || q.Rsv != 0x30 {
		t.Errorf("rsv: %+v %d %v", q, n, st)
	}
	if q, n, st := ParseRequest(unhex("05010003" + "00" + "0050")); st != Complete || n != 7 || !q.EmptyDomain {
		t.Errorf("empty domain: %+v %d %v", q, n, st)
	}
	for _, c := range []struct {
		m    string
		want byte
	}{{"", 0xff}, {"00", 0}, {"02", 2}, {"0002", 2}, {"0200", 2}, {"01", 0xff}, {"0103", 0xff}, {"010300", 0}, {"ff", 0xff}, {"80fe02", 2}} {
		if got := SelectMethod(unhex(c.m)); got != c.want {
			t.Errorf("SelectMethod(%s) = %#x", c.m, got)
		}
	}
	if JoinUserPass([]byte("k=v"), []byte{0}) != "k=v" || JoinUserPass([]byte("k=v"), []byte{0, 0}) != "k=v\x00\x00" || JoinUserPass([]byte("k="), []byte("v")) != "k=v" {
		t.Error("JoinUserPass")
	}
}
