// Package socks is an independent reference for the client side of the SOCKS5
// exchange a pluggable-transport front end receives from tor: RFC 1928 method
// negotiation, RFC 1929 username/password sub-negotiation, the CONNECT request
// with its three address types, the reply parser, and the pt-spec rule for
// passing per-connection arguments in the username/password fields.
//
// Written from RFC 1928, RFC 1929 and pt-spec.txt section 3.5 ("Pluggable
// Transport Client Per-Connection Arguments"); it shares no code with the
// package under test.
package socks

import (
	"errors"
	"fmt"
)

// KV is one per-connection argument.  Order matters: repeated keys keep the
// order in which their values were written.
type KV struct{ Key, Value string }

// EqMode selects how an '=' inside a value is written.  pt-spec's text says
// "all backslash, equal sign, and semicolon characters are escaped"; tor itself
// escapes only ';' and '\' (the key cannot contain '=' there).  A decoder has to
// accept both, so the reference encoder can produce both.
type EqMode int

const (
	EqBare    EqMode = iota // value '=' written as '='   (tor)
	EqEscaped               // value '=' written as '\='  (pt-spec text)
	EqMixed                 // per occurrence, decided by coin()
)

// MaxField is the largest RFC 1929 field.
const MaxField = 255

// EncodeArgs renders pairs as  k=v;k=v;...  Keys: '\', ';', '=' are escaped with
// a backslash.  Values: '\' and ';' are escaped, '=' according to mode.
func EncodeArgs(pairs []KV, mode EqMode, coin func() bool) (string, error) {
	var out []byte
	for i, p := range pairs {
		if p.Key == "" {
			return "", errors.New("socks: empty key cannot be encoded")
		}
		if i > 0 {
			out = append(out, ';')
		}
		for j := 0; j < len(p.Key); j++ {
			switch p.Key[j] {
			case '\\', ';', '=':
				out = append(out, '\\')
			}
			out = append(out, p.Key[j])
		}
		out = append(out, '=')
		for j := 0; j < len(p.Value); j++ {
			switch b := p.Value[j]; b {
			case '\\', ';':
				out = append(out, '\\')
			case '=':
				if mode == EqEscaped || (mode == EqMixed && coin != nil && coin()) {
					out = append(out, '\\')
				}
			}
			out = append(out, p.Value[j])
		}
	}
	return string(out), nil
}

// Verdict classifies an argument string.
type Verdict int

const (
	// Valid: the string is in the image of EncodeArgs (for some EqMixed coin).
	Valid Verdict = iota
	// Malformed: an argument without an unescaped '=', an empty key, an empty
	// argument (leading / trailing / doubled ';'), or a backslash at the very
	// end.  pt-spec gives such a string no meaning.
	Malformed
	// Unspecified: structurally fine, but a backslash precedes a byte that is
	// not one of '\', ';', '='.  No conforming encoder writes that; decoders
	// differ (goptlib takes the byte literally, others reject).  The pairs
	// returned are the literal-byte reading.
	Unspecified
)

func (v Verdict) String() string {
	return [...]string{"valid", "malformed", "unspecified"}[v]
}

type token struct {
	b   byte
	esc bool
}

// DecodeArgs is the inverse of EncodeArgs.  It works in two passes (escape
// removal into tokens, then splitting on unescaped separators) so that it has
// nothing in common with a single-pass state machine.
func DecodeArgs(s string) ([]KV, Verdict) {
	if s == "" {
		return nil, Valid
	}
	verdict := Valid
	toks := make([]token, 0, len(s))
	for i := 0; i < len(s); i++ {
		if s[i] != '\\' {
			toks = append(toks, token{s[i], false})
			continue
		}
		if i+1 == len(s) {
			return nil, Malformed // dangling escape
		}
		i++
		switch s[i] {
		case '\\', ';', '=':
		default:
			verdict = Unspecified
		}
		toks = append(toks, token{s[i], true})
	}
	// split into arguments on unescaped ';'
	var pairs []KV
	start := 0
	for i := 0; i <= len(toks); i++ {
		if i < len(toks) && !(toks[i].b == ';' && !toks[i].esc) {
			continue
		}
		arg := toks[start:i]
		start = i + 1
		eq := -1
		for j, t := range arg {
			if t.b == '=' && !t.esc {
				eq = j
				break
			}
		}
		if eq < 0 {
			return nil, Malformed // no '=' (covers the empty argument)
		}
		if eq == 0 {
			return nil, Malformed // empty key
		}
		pairs = append(pairs, KV{lit(arg[:eq]), lit(arg[eq+1:])})
	}
	return pairs, verdict
}

func lit(t []token) string {
	b := make([]byte, len(t))
	for i := range t {
		b[i] = t[i].b
	}
	return string(b)
}

// ToMap groups pairs by key, keeping per-key value order.
func ToMap(pairs []KV) map[string][]string {
	m := map[string][]string{}
	for _, p := range pairs {
		m[p.Key] = append(m[p.Key], p.Value)
	}
	return m
}

// MapsEqual compares two key -> ordered values maps (nil == empty).
func MapsEqual(a, b map[string][]string) bool {
	if len(a) != len(b) {
		return false
	}
	for k, va := range a {
		vb, ok := b[k]
		if !ok || len(va) != len(vb) {
			return false
		}
		for i := range va {
			if va[i] != vb[i] {
				return false
			}
		}
	}
	return true
}

// CanonicalSplit is the number of bytes of an encoded string of length n that
// pt-spec puts in the username: the first up to 255.
func CanonicalSplit(n int) int {
	if n > MaxField {
		return MaxField
	}
	return n
}

// SplitUserPass cuts the encoded string after `at` bytes: the first part is the
// RFC 1929 UNAME, the rest the PASSWD; when there is no rest the password is a
// single NUL byte (RFC 1929 does not allow an empty field).
func SplitUserPass(enc string, at int) (user, pass []byte, err error) {
	if at < 1 || at > MaxField || at > len(enc) {
		return nil, nil, fmt.Errorf("socks: username of %d bytes out of range for %d encoded bytes", at, len(enc))
	}
	if len(enc)-at > MaxField {
		return nil, nil, fmt.Errorf("socks: %d bytes do not fit in the password", len(enc)-at)
	}
	user = []byte(enc[:at])
	if at == len(enc) {
		return user, []byte{0}, nil
	}
	return user, []byte(enc[at:]), nil
}

// AmbiguousSplit reports the one representational ambiguity of the scheme: a
// password that really is the single byte NUL cannot be told from the "no
// password" marker.
func AmbiguousSplit(enc string, at int) bool {
	return len(enc)-at == 1 && enc[len(enc)-1] == 0
}
