// Package obfs4 (ref/obfs4) is an independent implementation of the deployed
// obfs4 wire format, written for the verification harness from
// doc/obfs4-spec.txt and the deviations the deployed code documents.  It uses
// only primitives (HMAC, SHA-256, HKDF, X25519, secretbox, math/big) and its
// own SipHash-2-4 and Elligator 2; it shares no code with /repo.
package obfs4

import (
	"crypto/hmac"
	"crypto/sha256"
	"encoding/binary"
	"errors"
	"io"
	"math/big"

	"golang.org/x/crypto/curve25519"
	"golang.org/x/crypto/hkdf"
)

// ---------------------------------------------------------------- SipHash

func rotl(x uint64, b uint) uint64 { return (x << b) | (x >> (64 - b)) }

// SipHash24 is SipHash-2-4 with a 64-bit result (own implementation).
func SipHash24(key [16]byte, msg []byte) uint64 {
	k0 := binary.LittleEndian.Uint64(key[0:8])
	k1 := binary.LittleEndian.Uint64(key[8:16])
	v0 := k0 ^ 0x736f6d6570736575
	v1 := k1 ^ 0x646f72616e646f6d
	v2 := k0 ^ 0x6c7967656e657261
	v3 := k1 ^ 0x7465646279746573
	round := func() {
		v0 += v1
		v1 = rotl(v1, 13)
		v1 ^= v0
		v0 = rotl(v0, 32)
		v2 += v3
		v3 = rotl(v3, 16)
		v3 ^= v2
		v0 += v3
		v3 = rotl(v3, 21)
		v3 ^= v0
		v2 += v1
		v1 = rotl(v1, 17)
		v1 ^= v2
		v2 = rotl(v2, 32)
	}
	n := len(msg)
	i := 0
	for ; i+8 <= n; i += 8 {
		m := binary.LittleEndian.Uint64(msg[i:])
		v3 ^= m
		round()
		round()
		v0 ^= m
	}
	var last [8]byte
	copy(last[:], msg[i:])
	last[7] = byte(n)
	m := binary.LittleEndian.Uint64(last[:])
	v3 ^= m
	round()
	round()
	v0 ^= m
	v2 ^= 0xff
	round()
	round()
	round()
	round()
	return v0 ^ v1 ^ v2 ^ v3
}

// Drbg is the deployed length-mask generator: one *running* SipHash-2-4
// instance keyed with seed[0:16]; the first input is seed[16:24]; every block
// is the hash of everything fed so far (IV ‖ block1 ‖ … ‖ block(n-1)), and is
// fed back.  Sum is little-endian (hash.Hash64.Sum appends big-endian? no —
// dchest/siphash appends the digest little-endian); the deployed code uses
// Sum(nil) bytes as the block, so the block is the little-endian encoding of
// the 64-bit result.
type Drbg struct {
	key [16]byte
	msg []byte
}

// NewDrbg takes the 24-byte seed (16-byte SipHash key ‖ 8-byte IV).
func NewDrbg(seed []byte) *Drbg {
	d := &Drbg{}
	copy(d.key[:], seed[:16])
	d.msg = append(d.msg, seed[16:24]...)
	return d
}

// NextBlock returns the next 8-byte block.
func (d *Drbg) NextBlock() [8]byte {
	var out [8]byte
	binary.LittleEndian.PutUint64(out[:], SipHash24(d.key, d.msg))
	d.msg = append(d.msg, out[:]...)
	return out
}

// ---------------------------------------------------------------- Elligator 2 (math/big)

var (
	fp, _   = new(big.Int).SetString("7fffffffffffffffffffffffffffffffffffffffffffffffffffffffffffffed", 16)
	fA      = big.NewInt(486662)
	fHalf   = new(big.Int).Rsh(new(big.Int).Sub(fp, big.NewInt(1)), 1) // (p-1)/2
	bigOne  = big.NewInt(1)
	bigTwo  = big.NewInt(2)
	bigZero = big.NewInt(0)
)

func leToInt(b []byte) *big.Int {
	be := make([]byte, len(b))
	for i := range b {
		be[len(b)-1-i] = b[i]
	}
	return new(big.Int).SetBytes(be)
}

func intToLE(x *big.Int) [32]byte {
	var out [32]byte
	be := x.Bytes()
	for i := range be {
		out[i] = be[len(be)-1-i]
	}
	return out
}

func fmod(x *big.Int) *big.Int { return x.Mod(x, fp) }

// curveRHS returns u^3 + A u^2 + u mod p.
func curveRHS(u *big.Int) *big.Int {
	u2 := new(big.Int).Mul(u, u)
	u3 := new(big.Int).Mul(u2, u)
	r := new(big.Int).Mul(fA, u2)
	r.Add(r, u3)
	r.Add(r, u)
	return fmod(r)
}

// Ell2Decode maps a 32-byte representative to the u-coordinate of a
// Curve25519 public key (direct Elligator 2 map; the two top bits of the
// string are ignored).
func Ell2Decode(repr [32]byte) [32]byte {
	repr[31] &= 0x3f
	r := fmod(leToInt(repr[:]))
	// w = -A / (1 + 2 r^2)
	d := new(big.Int).Mul(r, r)
	d.Mul(d, bigTwo)
	d.Add(d, bigOne)
	fmod(d)
	// 1+2r^2 is never 0 because -1/2 is a non-square
	w := new(big.Int).ModInverse(d, fp)
	w.Mul(w, fA)
	w.Neg(w)
	fmod(w)
	if big.Jacobi(curveRHS(w), fp) == -1 {
		w.Neg(w)
		w.Sub(w, fA)
		fmod(w)
	}
	return intToLE(w)
}

// Ell2Encode returns a representative (r <= (p-1)/2, two top bits clear) of
// the public key u, if one exists.  alt selects which of the two classes of
// preimages is returned.
func Ell2Encode(pub [32]byte, alt bool) (repr [32]byte, ok bool) {
	pub[31] &= 0x7f
	u := fmod(leToInt(pub[:]))
	ua := new(big.Int).Add(u, fA)
	fmod(ua)
	if ua.Sign() == 0 || u.Sign() == 0 {
		return repr, false
	}
	// representable iff -2u(u+A) is a non-zero square
	t := new(big.Int).Mul(u, ua)
	t.Mul(t, bigTwo)
	t.Neg(t)
	fmod(t)
	if big.Jacobi(t, fp) != 1 {
		return repr, false
	}
	// r^2 = -u / (2(u+A))   or   r^2 = -(u+A) / (2u)
	num, den := u, ua
	if alt {
		num, den = ua, u
	}
	d := new(big.Int).Mul(den, bigTwo)
	fmod(d)
	d.ModInverse(d, fp)
	r2 := new(big.Int).Mul(num, d)
	r2.Neg(r2)
	fmod(r2)
	r := new(big.Int).ModSqrt(r2, fp)
	if r == nil {
		return repr, false
	}
	if r.Cmp(fHalf) > 0 {
		r.Sub(fp, r)
	}
	return intToLE(r), true
}

// ---------------------------------------------------------------- ntor (deployed variant)

var (
	protoID = "ntor-curve25519-sha256-1"
	tMac    = protoID + ":mac"
	tKey    = protoID + ":key_extract"
	tVerify = protoID + ":key_verify"
	mExpand = protoID + ":key_expand"
)

func hm(key string, parts ...[]byte) []byte {
	h := hmac.New(sha256.New, []byte(key))
	for _, p := range parts {
		h.Write(p)
	}
	return h.Sum(nil)
}

func isZero(b []byte) bool {
	var v byte
	for _, x := range b {
		v |= x
	}
	return v == 0
}

// x25519 is the raw function (no all-zero rejection), as ntor needs to detect
// the all-zero result itself.
func x25519(scalar, point [32]byte) [32]byte {
	var out [32]byte
	curve25519.ScalarMult(&out, &scalar, &point) //nolint:staticcheck
	return out
}

// X25519Base returns the clean public key of a private key.
func X25519Base(priv [32]byte) [32]byte {
	var out [32]byte
	curve25519.ScalarBaseMult(&out, &priv)
	return out
}

// NtorClient computes KEY_SEED and AUTH on the client side.
// secret_input = EXP(Y,x) | EXP(B,x) | B | B | X | Y | PROTOID | ID (deployed variant).
func NtorClient(x, X, Y, B [32]byte, id [20]byte) (keySeed, auth [32]byte, ok bool) {
	e1 := x25519(x, Y)
	e2 := x25519(x, B)
	ok = !isZero(e1[:]) && !isZero(e2[:])
	keySeed, auth = ntorCommon(e1, e2, B, X, Y, id)
	return
}

// NtorServer computes KEY_SEED and AUTH on the server side (y, b private).
func NtorServer(y, Y, b, B, X [32]byte, id [20]byte) (keySeed, auth [32]byte, ok bool) {
	e1 := x25519(y, X)
	e2 := x25519(b, X)
	ok = !isZero(e1[:]) && !isZero(e2[:])
	keySeed, auth = ntorCommon(e1, e2, B, X, Y, id)
	return
}

// NtorServerForged is what a peer WITHOUT the identity private key can
// compute: EXP(X,y) with its own ephemeral key, and a guessed value e2 in
// place of EXP(X,b).  (For an identity key B of small order EXP(B,x) is the
// all-zero string for every client secret, so e2 = 0 is a correct guess.)
func NtorServerForged(y, Y, e2, B, X [32]byte, id [20]byte) (keySeed, auth [32]byte) {
	e1 := x25519(y, X)
	return ntorCommon(e1, e2, B, X, Y, id)
}

func ntorCommon(e1, e2, B, X, Y [32]byte, id [20]byte) (keySeed, auth [32]byte) {
	suffix := append([]byte{}, B[:]...)
	suffix = append(suffix, B[:]...)
	suffix = append(suffix, X[:]...)
	suffix = append(suffix, Y[:]...)
	suffix = append(suffix, protoID...)
	suffix = append(suffix, id[:]...)
	secretInput := append(append(append([]byte{}, e1[:]...), e2[:]...), suffix...)
	copy(keySeed[:], hm(tKey, secretInput))
	verify := hm(tVerify, secretInput)
	copy(auth[:], hm(tMac, verify, suffix, []byte("Server")))
	return
}

// Kdf expands KEY_SEED: HKDF-SHA256(ikm = KEY_SEED, salt = t_key, info = m_expand).
func Kdf(keySeed []byte, n int) []byte {
	out := make([]byte, n)
	if _, err := io.ReadFull(hkdf.New(sha256.New, keySeed, []byte(tKey), []byte(mExpand)), out); err != nil {
		panic(err)
	}
	return out
}

// ---------------------------------------------------------------- handshake MACs

// MarkMac is HMAC-SHA256-128 keyed with B | NODEID.
func MarkMac(B [32]byte, id [20]byte, parts ...[]byte) []byte {
	h := hmac.New(sha256.New, append(append([]byte{}, B[:]...), id[:]...))
	for _, p := range parts {
		h.Write(p)
	}
	return h.Sum(nil)[:16]
}

var errShort = errors.New("ref/obfs4: short buffer")
