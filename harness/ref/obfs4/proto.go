package obfs4

import (
	"bytes"
	"encoding/binary"
	"errors"
	"fmt"
	"io"
	"strconv"

	"golang.org/x/crypto/nacl/secretbox"
)

// Wire constants, from the specification and the deployed deviations.
const (
	MaxHandshakeLength = 8192
	MarkLength         = 16
	MacLength          = 16
	ReprLength         = 32
	AuthLength         = 32

	ClientMinHandshake = ReprLength + MarkLength + MacLength                       // 64
	ServerMinHandshake = ReprLength + AuthLength + MarkLength + MacLength          // 96
	SeedFrameLength    = 2 + 16 + 3 + 24                                           // 45: unpadded PRNG seed frame
	ClientMinPad       = ServerMinHandshake + SeedFrameLength - ClientMinHandshake // 77 (deployed)
	ClientMaxPad       = MaxHandshakeLength - ClientMinHandshake                   // 8128
	ServerMinPad       = 0
	ServerMaxPad       = MaxHandshakeLength - (ServerMinHandshake + SeedFrameLength) // 8051

	MaxSegment      = 1448
	FrameOverhead   = 2 + 16
	MaxFramePayload = MaxSegment - FrameOverhead // 1430
	PacketOverhead  = 3
	MaxPacketData   = MaxFramePayload - PacketOverhead // 1427
	KeyBlockLength  = 32 + 16 + 24                     // 72
	KdfLength       = 2 * KeyBlockLength               // 144

	PacketPayload  = 0
	PacketPrngSeed = 1
)

// Bridge is a bridge identity.  Priv is only known to the genuine server.
type Bridge struct {
	NodeID [20]byte
	Pub    [32]byte
	Priv   [32]byte
}

// Keypair is an ephemeral key with its Elligator 2 representative.
type Keypair struct {
	Priv, Pub, Repr [32]byte
}

// NewKeypair draws clean keys from rng until one has a representative; the
// two top bits of the representative are randomised.
func NewKeypair(rng io.Reader) Keypair {
	for {
		var k Keypair
		if _, err := io.ReadFull(rng, k.Priv[:]); err != nil {
			panic(err)
		}
		k.Pub = X25519Base(k.Priv)
		var b [1]byte
		io.ReadFull(rng, b[:])
		r, ok := Ell2Encode(k.Pub, b[0]&1 == 1)
		if !ok {
			continue
		}
		r[31] |= b[0] & 0xc0
		k.Repr = r
		return k
	}
}

// ---------------------------------------------------------------- client side

// ClientHello is a client handshake message and the state needed to finish.
type ClientHello struct {
	Bridge    Bridge // Pub and NodeID as the client believes them
	Key       Keypair
	Pad       []byte
	Mark, Mac []byte
	Hour      string // decimal epoch hour used in the MAC
	Bytes     []byte
}

// EpochHour renders unix seconds as the decimal hour string.
func EpochHour(unix int64) string { return strconv.FormatInt(unix/3600, 10) }

// BuildClientHello assembles X' | P_C | M_C | MAC_C.
func BuildClientHello(br Bridge, key Keypair, pad []byte, hour string) *ClientHello {
	h := &ClientHello{Bridge: br, Key: key, Pad: pad, Hour: hour}
	h.Mark = MarkMac(br.Pub, br.NodeID, key.Repr[:])
	var b bytes.Buffer
	b.Write(key.Repr[:])
	b.Write(pad)
	b.Write(h.Mark)
	h.Mac = MarkMac(br.Pub, br.NodeID, b.Bytes(), []byte(hour))
	b.Write(h.Mac)
	h.Bytes = b.Bytes()
	return h
}

// ErrNeedMore is returned while the server response is incomplete.
var ErrNeedMore = errors.New("ref/obfs4: need more data")

// Session holds both directions' key blocks.
type Session struct {
	KeySeed [32]byte
	C2S     []byte // 72 bytes: client -> server
	S2C     []byte // 72 bytes: server -> client
}

func newSession(seed [32]byte) *Session {
	okm := Kdf(seed[:], KdfLength)
	return &Session{KeySeed: seed, C2S: okm[:KeyBlockLength], S2C: okm[KeyBlockLength:]}
}

// ServerResponse is the parsed server handshake.
type ServerResponse struct {
	Repr   [32]byte
	Auth   [32]byte
	PadLen int
	Mark   []byte
	Mac    []byte
	Len    int // total length of Y'|AUTH|P_S|M_S|MAC_S
}

// ParseServerResponse looks for M_S in resp (which may carry trailing frame
// data), verifies MAC_S under the client's hour, completes ntor and verifies
// AUTH.
func (h *ClientHello) ParseServerResponse(resp []byte) (*ServerResponse, *Session, error) {
	if len(resp) < ServerMinHandshake {
		return nil, nil, ErrNeedMore
	}
	sr := &ServerResponse{}
	copy(sr.Repr[:], resp[:32])
	copy(sr.Auth[:], resp[32:64])
	mark := MarkMac(h.Bridge.Pub, h.Bridge.NodeID, sr.Repr[:])
	end := len(resp)
	if end > MaxHandshakeLength {
		end = MaxHandshakeLength
	}
	pos := bytes.Index(resp[64:end], mark)
	if pos < 0 || 64+pos+MarkLength+MacLength > end {
		if len(resp) >= MaxHandshakeLength {
			return nil, nil, errors.New("ref/obfs4: M_S not found")
		}
		return nil, nil, ErrNeedMore
	}
	pos += 64
	sr.PadLen = pos - 64
	sr.Mark = resp[pos : pos+MarkLength]
	sr.Mac = resp[pos+MarkLength : pos+MarkLength+MacLength]
	sr.Len = pos + MarkLength + MacLength
	want := MarkMac(h.Bridge.Pub, h.Bridge.NodeID, resp[:pos+MarkLength], []byte(h.Hour))
	if !bytes.Equal(want, sr.Mac) {
		return sr, nil, errors.New("ref/obfs4: MAC_S mismatch")
	}
	Y := Ell2Decode(sr.Repr)
	seed, auth, ok := NtorClient(h.Key.Priv, h.Key.Pub, Y, h.Bridge.Pub, h.Bridge.NodeID)
	if !ok {
		return sr, nil, errors.New("ref/obfs4: ntor failed")
	}
	if auth != sr.Auth {
		return sr, nil, errors.New("ref/obfs4: AUTH mismatch")
	}
	return sr, newSession(seed), nil
}

// ---------------------------------------------------------------- server side

// ParsedHello is what a server learns from a complete client hello.
type ParsedHello struct {
	Repr   [32]byte
	PadLen int
	Mac    []byte
	Hour   string
}

// ParseClientHello checks a *complete* client hello (mark at the tail, MAC
// valid for one of the given hours).
func ParseClientHello(br Bridge, blob []byte, hours []string) (*ParsedHello, error) {
	if len(blob) < ClientMinHandshake+ClientMinPad || len(blob) > MaxHandshakeLength {
		return nil, fmt.Errorf("ref/obfs4: client hello length %d out of range", len(blob))
	}
	ph := &ParsedHello{}
	copy(ph.Repr[:], blob[:32])
	mark := MarkMac(br.Pub, br.NodeID, ph.Repr[:])
	pos := len(blob) - MarkLength - MacLength
	if !bytes.Equal(blob[pos:pos+MarkLength], mark) {
		return nil, errors.New("ref/obfs4: M_C not at tail")
	}
	ph.PadLen = pos - 32
	ph.Mac = blob[pos+MarkLength:]
	for _, hr := range hours {
		if bytes.Equal(MarkMac(br.Pub, br.NodeID, blob[:pos+MarkLength], []byte(hr)), ph.Mac) {
			ph.Hour = hr
			return ph, nil
		}
	}
	return nil, errors.New("ref/obfs4: MAC_C mismatch")
}

// BuildServerResponse assembles Y' | AUTH | P_S | M_S | MAC_S for a client
// representative and returns the session.
func BuildServerResponse(br Bridge, key Keypair, clientRepr [32]byte, pad []byte, hour string) ([]byte, *Session, error) {
	X := Ell2Decode(clientRepr)
	seed, auth, ok := NtorServer(key.Priv, key.Pub, br.Priv, br.Pub, X, br.NodeID)
	if !ok {
		return nil, nil, errors.New("ref/obfs4: ntor failed")
	}
	var b bytes.Buffer
	b.Write(key.Repr[:])
	b.Write(auth[:])
	b.Write(pad)
	b.Write(MarkMac(br.Pub, br.NodeID, key.Repr[:]))
	b.Write(MarkMac(br.Pub, br.NodeID, b.Bytes(), []byte(hour)))
	return b.Bytes(), newSession(seed), nil
}

// BuildServerResponseForged is BuildServerResponse by a peer that does not
// hold the identity private key and uses e2 in place of EXP(X,b).
func BuildServerResponseForged(br Bridge, key Keypair, clientRepr [32]byte, pad []byte, hour string, e2 [32]byte) ([]byte, *Session) {
	X := Ell2Decode(clientRepr)
	seed, auth := NtorServerForged(key.Priv, key.Pub, e2, br.Pub, X, br.NodeID)
	var b bytes.Buffer
	b.Write(key.Repr[:])
	b.Write(auth[:])
	b.Write(pad)
	b.Write(MarkMac(br.Pub, br.NodeID, key.Repr[:]))
	b.Write(MarkMac(br.Pub, br.NodeID, b.Bytes(), []byte(hour)))
	return b.Bytes(), newSession(seed)
}

// ---------------------------------------------------------------- framing

// Encoder produces frames: 2-byte length (big-endian, XOR SipHash-OFB mask) |
// secretbox(payload) with nonce = prefix(16) | counter(8, big-endian, from 1).
type Encoder struct {
	key     [32]byte
	prefix  [16]byte
	Counter uint64
	drbg    *Drbg
}

func NewEncoder(block []byte) *Encoder {
	e := &Encoder{Counter: 1}
	copy(e.key[:], block[:32])
	copy(e.prefix[:], block[32:48])
	e.drbg = NewDrbg(block[48:72])
	return e
}

func (e *Encoder) nonce() [24]byte {
	var n [24]byte
	copy(n[:], e.prefix[:])
	binary.BigEndian.PutUint64(n[16:], e.Counter)
	return n
}

// Frame seals payload (<= 1430 bytes) into one frame.
func (e *Encoder) Frame(payload []byte) []byte {
	if len(payload) > MaxFramePayload {
		panic("ref/obfs4: frame payload too long")
	}
	n := e.nonce()
	e.Counter++
	box := secretbox.Seal(nil, payload, &n, &e.key)
	mask := e.drbg.NextBlock()
	l := uint16(len(box)) ^ binary.BigEndian.Uint16(mask[:2])
	out := make([]byte, 2, 2+len(box))
	binary.BigEndian.PutUint16(out, l)
	return append(out, box...)
}

// Packet builds type | length | payload | zero padding.
func Packet(typ byte, data []byte, padLen int) []byte {
	p := make([]byte, 3+len(data)+padLen)
	p[0] = typ
	binary.BigEndian.PutUint16(p[1:], uint16(len(data)))
	copy(p[3:], data)
	return p
}

// DataFrame is Frame(Packet(payload type, data, padLen)).
func (e *Encoder) DataFrame(data []byte, padLen int) []byte {
	return e.Frame(Packet(PacketPayload, data, padLen))
}

// Decoder re-derives frames from a byte stream.
type Decoder struct {
	key     [32]byte
	prefix  [16]byte
	Counter uint64
	drbg    *Drbg
	buf     []byte
	nextLen int // 0 = unknown
}

func NewDecoder(block []byte) *Decoder {
	d := &Decoder{Counter: 1}
	copy(d.key[:], block[:32])
	copy(d.prefix[:], block[32:48])
	d.drbg = NewDrbg(block[48:72])
	return d
}

// DecodedPacket is one decoded frame.
type DecodedPacket struct {
	FrameLen   int // bytes on the wire including the 2-byte length
	Type       byte
	Data       []byte
	PadLen     int
	PadAllZero bool
}

// ErrFrame is returned for any frame that a conforming peer cannot have sent.
type ErrFrame struct{ Why string }

func (e *ErrFrame) Error() string { return "ref/obfs4: bad frame: " + e.Why }

// Feed appends wire bytes and returns every packet completed by them.
func (d *Decoder) Feed(p []byte) ([]DecodedPacket, error) {
	d.buf = append(d.buf, p...)
	var out []DecodedPacket
	for {
		if d.nextLen == 0 {
			if len(d.buf) < 2 {
				return out, nil
			}
			mask := d.drbg.NextBlock()
			l := binary.BigEndian.Uint16(d.buf[:2]) ^ binary.BigEndian.Uint16(mask[:2])
			d.buf = d.buf[2:]
			if l < 16 || int(l) > MaxSegment-2 {
				return out, &ErrFrame{fmt.Sprintf("length %d out of range", l)}
			}
			d.nextLen = int(l)
		}
		if len(d.buf) < d.nextLen {
			return out, nil
		}
		var n [24]byte
		copy(n[:], d.prefix[:])
		binary.BigEndian.PutUint64(n[16:], d.Counter)
		pt, ok := secretbox.Open(nil, d.buf[:d.nextLen], &n, &d.key)
		if !ok {
			return out, &ErrFrame{"tag mismatch"}
		}
		flen := 2 + d.nextLen
		d.buf = d.buf[d.nextLen:]
		d.nextLen = 0
		d.Counter++
		if len(pt) < 3 {
			return out, &ErrFrame{fmt.Sprintf("packet of %d bytes", len(pt))}
		}
		dl := int(binary.BigEndian.Uint16(pt[1:3]))
		if dl > len(pt)-3 {
			return out, &ErrFrame{fmt.Sprintf("payload length %d > %d", dl, len(pt)-3)}
		}
		pk := DecodedPacket{FrameLen: flen, Type: pt[0], Data: append([]byte(nil), pt[3:3+dl]...), PadLen: len(pt) - 3 - dl, PadAllZero: true}
		for _, b := range pt[3+dl:] {
			if b != 0 {
				pk.PadAllZero = false
			}
		}
		out = append(out, pk)
	}
}

// Buffered returns the number of bytes fed but not yet part of a complete frame.
func (d *Decoder) Buffered() int {
	if d.nextLen != 0 {
		return len(d.buf) + 2
	}
	return len(d.buf)
}
