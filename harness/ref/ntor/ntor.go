// Package ntorref is an independent computation of the ntor handshake variant
// that obfs4 deploys, written from the formulas (Tor proposal 216 as amended by
// the deployed transcript order, DESIGN.md appendix B) over primitives only:
// HMAC-SHA256 from the standard library, an HKDF assembled here from HMAC
// (RFC 5869), and X25519 either as a math/big Montgomery ladder written from
// the RFC 7748 pseudo-code (X25519Big) or the x/crypto primitive (X25519Fast).
//
// Deployed variant (H(x, t) = HMAC-SHA256 with key t and message x):
//
//	secret_input = EXP(Y,x) | EXP(B,x) | B | B | X | Y | PROTOID | ID    (client)
//	             = EXP(X,y) | EXP(X,b) | B | B | X | Y | PROTOID | ID    (server)
//	KEY_SEED     = H(secret_input, t_key)
//	verify       = H(secret_input, t_verify)
//	AUTH         = H(verify | B | B | X | Y | PROTOID | ID | "Server", t_mac)
//	KDF(n)       = HKDF-SHA256(ikm = KEY_SEED, salt = t_key, info = m_expand)[:n]
//
// Proposal 216 itself orders the public part ID | B | X | Y | PROTOID in
// secret_input and ID | B | Y | X | PROTOID in auth_input; the deployed code
// uses one common suffix B | B | X | Y | PROTOID | ID for both, and that is what
// is encoded here.
package ntorref

import (
	"crypto/hmac"
	"crypto/sha256"
	"math/big"

	"golang.org/x/crypto/curve25519"
)

// Protocol labels.
const (
	ProtoID = "ntor-curve25519-sha256-1"
	TMac    = ProtoID + ":mac"
	TKey    = ProtoID + ":key_extract"
	TVerify = ProtoID + ":key_verify"
	MExpand = ProtoID + ":key_expand"

	// MaxKDF is the longest output HKDF-SHA256 defines (255 blocks).
	MaxKDF = 255 * sha256.Size
)

// mac is HMAC-SHA256(key, parts[0] | parts[1] | ...).
func mac(key []byte, parts ...[]byte) []byte {
	h := hmac.New(sha256.New, key)
	for _, p := range parts {
		h.Write(p)
	}
	return h.Sum(nil)
}

// HKDF is RFC 5869 HKDF with SHA-256, extract-then-expand, n <= 8160.
func HKDF(ikm, salt, info []byte, n int) []byte {
	if n < 0 || n > MaxKDF {
		panic("ntorref: HKDF length out of range")
	}
	if len(salt) == 0 {
		salt = make([]byte, sha256.Size) // RFC 5869 2.2: HashLen zeros
	}
	prk := mac(salt, ikm)
	out := make([]byte, 0, n+sha256.Size)
	var t []byte
	for ctr := 1; len(out) < n; ctr++ {
		t = mac(prk, t, info, []byte{byte(ctr)})
		out = append(out, t...)
	}
	return out[:n]
}

// DH is an X25519 function: clamp the scalar, mask bit 255 of u, return the
// u-coordinate of scalar*point (all-zero when the point has low order).
type DH func(scalar, u *[32]byte) [32]byte

var (
	p25519 = new(big.Int).Sub(new(big.Int).Lsh(big.NewInt(1), 255), big.NewInt(19))
	a24    = big.NewInt(121665)
)

// P returns a copy of the field prime 2^255-19.
func P() *big.Int { return new(big.Int).Set(p25519) }

func leToInt(b []byte) *big.Int {
	be := make([]byte, len(b))
	for i := range b {
		be[len(b)-1-i] = b[i]
	}
	return new(big.Int).SetBytes(be)
}

// IntToLE encodes 0 <= v < 2^256 as 32 little-endian bytes.
func IntToLE(v *big.Int) (out [32]byte) {
	if v.Sign() < 0 || v.BitLen() > 256 {
		panic("ntorref: IntToLE out of range")
	}
	be := v.Bytes()
	for i := range be {
		out[i] = be[len(be)-1-i]
	}
	return out
}

// X25519Big is the RFC 7748 section 5 ladder over math/big (not constant
// time; reference use only).
func X25519Big(scalar, u *[32]byte) [32]byte {
	k := *scalar
	k[0] &= 248
	k[31] &= 127
	k[31] |= 64
	kk := leToInt(k[:])
	ub := *u
	ub[31] &= 127 // implementations MUST mask the most significant bit
	x1 := leToInt(ub[:])
	x1.Mod(x1, p25519) // non-canonical values are accepted and reduced

	mod := func(z *big.Int) *big.Int { return z.Mod(z, p25519) }
	mul := func(a, b *big.Int) *big.Int { return mod(new(big.Int).Mul(a, b)) }
	add := func(a, b *big.Int) *big.Int { return mod(new(big.Int).Add(a, b)) }
	sub := func(a, b *big.Int) *big.Int { return mod(new(big.Int).Sub(a, b)) }

	x2, z2 := big.NewInt(1), big.NewInt(0)
	x3, z3 := new(big.Int).Set(x1), big.NewInt(1)
	swap := uint(0)
	for t := 254; t >= 0; t-- {
		kt := kk.Bit(t)
		swap ^= kt
		if swap == 1 {
			x2, x3 = x3, x2
			z2, z3 = z3, z2
		}
		swap = kt
		a := add(x2, z2)
		aa := mul(a, a)
		b := sub(x2, z2)
		bb := mul(b, b)
		e := sub(aa, bb)
		c := add(x3, z3)
		d := sub(x3, z3)
		da := mul(d, a)
		cb := mul(c, b)
		s := add(da, cb)
		x3 = mul(s, s)
		df := sub(da, cb)
		z3 = mul(x1, mul(df, df))
		x2 = mul(aa, bb)
		z2 = mul(e, add(aa, mul(a24, e)))
	}
	if swap == 1 {
		x2, x3 = x3, x2
		z2, z3 = z3, z2
	}
	inv := new(big.Int).Exp(z2, new(big.Int).Sub(p25519, big.NewInt(2)), p25519)
	return IntToLE(mul(x2, inv))
}

// X25519Fast is the x/crypto primitive; its "low order point" error is mapped
// to the all-zero output RFC 7748 defines for that case.
func X25519Fast(scalar, u *[32]byte) [32]byte {
	var out [32]byte
	r, err := curve25519.X25519(scalar[:], u[:])
	if err != nil {
		return out
	}
	copy(out[:], r)
	return out
}

// IsZero reports whether a DH output is the all-zero string.
func IsZero(b *[32]byte) bool {
	var acc byte
	for _, v := range b {
		acc |= v
	}
	return acc == 0
}

// Result is what one side of the handshake derives.
type Result struct {
	KeySeed [32]byte
	Auth    [32]byte
	Exp1    [32]byte // EXP(Y,x) resp. EXP(X,y)
	Exp2    [32]byte // EXP(B,x) resp. EXP(X,b)
	ZeroDH  bool     // either exponentiation gave the all-zero string: the side MUST abort
}

func finish(e1, e2 [32]byte, idPub, clientPub, serverPub *[32]byte, nodeID *[20]byte) Result {
	B, X, Y, ID := idPub[:], clientPub[:], serverPub[:], nodeID[:]
	proto := []byte(ProtoID)
	secretInput := [][]byte{e1[:], e2[:], B, B, X, Y, proto, ID}
	res := Result{Exp1: e1, Exp2: e2, ZeroDH: IsZero(&e1) || IsZero(&e2)}
	copy(res.KeySeed[:], mac([]byte(TKey), secretInput...))
	verify := mac([]byte(TVerify), secretInput...)
	copy(res.Auth[:], mac([]byte(TMac), verify, B, B, X, Y, proto, ID, []byte("Server")))
	return res
}

// Client computes the client side: x is the client's ephemeral private key,
// clientPub its public key X as sent (for Elligator key pairs X is not x*G, so
// it is an input), serverPub = Y, idPub = B.
func Client(dh DH, x *[32]byte, clientPub, serverPub, idPub *[32]byte, nodeID *[20]byte) Result {
	return finish(dh(x, serverPub), dh(x, idPub), idPub, clientPub, serverPub, nodeID)
}

// Server computes the server side: y and b are the server's ephemeral and
// identity private keys, serverPub = Y and idPub = B their public keys.
func Server(dh DH, y, b *[32]byte, clientPub, serverPub, idPub *[32]byte, nodeID *[20]byte) Result {
	return finish(dh(y, clientPub), dh(b, clientPub), idPub, clientPub, serverPub, nodeID)
}

// KDF is the ntor key derivation: HKDF-SHA256 keyed as the protocol says.
func KDF(keySeed []byte, n int) []byte {
	return HKDF(keySeed, []byte(TKey), []byte(MExpand), n)
}

// LowOrder is one encoding of a u-coordinate.
type LowOrder struct {
	Label string
	U     [32]byte
}

// the two u-coordinates of the order-8 points
const (
	order8a = "325606250916557431795983626356110631294008115727848805560023387167927233504"
	order8b = "39382357235489614581723060781553021112529911719440698176882885853963445705823"
)

func mustInt(s string) *big.Int {
	v, ok := new(big.Int).SetString(s, 10)
	if !ok {
		panic("ntorref: bad constant")
	}
	return v
}

// LowOrderValues returns the seven integers below 2^255 that X25519 decodes to
// a point of order 1, 2, 4 or 8 (on the curve or its twist): 0, 1, the two
// order-8 coordinates, p-1, p, p+1.
func LowOrderValues() []struct {
	Label string
	V     *big.Int
} {
	p := p25519
	one := big.NewInt(1)
	return []struct {
		Label string
		V     *big.Int
	}{
		{"0", big.NewInt(0)},
		{"1", big.NewInt(1)},
		{"o8a", mustInt(order8a)},
		{"o8b", mustInt(order8b)},
		{"p-1", new(big.Int).Sub(p, one)},
		{"p", new(big.Int).Set(p)},
		{"p+1", new(big.Int).Add(p, one)},
	}
}

// LowOrderEncodings returns every 32-byte string that X25519 (bit 255 masked,
// value reduced mod p) decodes to a low-order point: the seven values and the
// same with bit 255 set.  (0+p and 1+p are the listed p and p+1; no other
// value+p stays below 2^255.)
func LowOrderEncodings() []LowOrder {
	var out []LowOrder
	top := new(big.Int).Lsh(big.NewInt(1), 255)
	for _, v := range LowOrderValues() {
		out = append(out, LowOrder{v.Label, IntToLE(v.V)})
	}
	for _, v := range LowOrderValues() {
		out = append(out, LowOrder{v.Label + "|bit255", IntToLE(new(big.Int).Add(v.V, top))})
	}
	return out
}

// NearMissEncodings returns encodings that look related to the low-order
// values but decode (after masking bit 255) to ordinary field elements:
// value+p and value+2p where that fits in 32 bytes and wraps past 2^255,
// neighbours of the low-order values, and the all-ones strings.
func NearMissEncodings() []LowOrder {
	p := p25519
	lim := new(big.Int).Lsh(big.NewInt(1), 256)
	low := map[string]bool{}
	for _, e := range LowOrderEncodings() {
		low[string(e.U[:])] = true
	}
	seen := map[string]bool{}
	var out []LowOrder
	add := func(label string, v *big.Int) {
		if v.Sign() < 0 || v.Cmp(lim) >= 0 {
			return
		}
		e := IntToLE(v)
		if low[string(e[:])] || seen[string(e[:])] {
			return
		}
		seen[string(e[:])] = true
		out = append(out, LowOrder{label, e})
	}
	for _, v := range LowOrderValues() {
		add(v.Label+"+p", new(big.Int).Add(v.V, p))
		add(v.Label+"+2p", new(big.Int).Add(v.V, new(big.Int).Lsh(p, 1)))
	}
	add("2", big.NewInt(2))
	add("p-2", new(big.Int).Sub(p, big.NewInt(2)))
	add("p+2", new(big.Int).Add(p, big.NewInt(2)))
	add("o8a+1", new(big.Int).Add(mustInt(order8a), big.NewInt(1)))
	add("o8b-1", new(big.Int).Sub(mustInt(order8b), big.NewInt(1)))
	add("2^255-1", new(big.Int).Sub(new(big.Int).Lsh(big.NewInt(1), 255), big.NewInt(1)))
	add("2^256-1", new(big.Int).Sub(lim, big.NewInt(1)))
	return out
}
