package ntorref

import (
	"bytes"
	"crypto/sha256"
	"encoding/hex"
	"io"
	"math/rand/v2"
	"testing"

	"golang.org/x/crypto/hkdf"
)

func unhex(t *testing.T, s string) []byte {
	t.Helper()
	b, err := hex.DecodeString(s)
	if err != nil {
		t.Fatal(err)
	}
	return b
}

func arr32(t *testing.T, s string) *[32]byte {
	t.Helper()
	b := unhex(t, s)
	if len(b) != 32 {
		t.Fatalf("want 32 bytes, got %d", len(b))
	}
	var a [32]byte
	copy(a[:], b)
	return &a
}

// RFC 5869 appendix A, test cases 1-3 (SHA-256).
func TestHKDFRFC5869(t *testing.T) {
	for i, v := range []struct{ ikm, salt, info, okm string }{
		{"0b0b0b0b0b0b0b0b0b0b0b0b0b0b0b0b0b0b0b0b0b0b", "000102030405060708090a0b0c", "f0f1f2f3f4f5f6f7f8f9",
			"3cb25f25faacd57a90434f64d0362f2a2d2d0a90cf1a5a4c5db02d56ecc4c5bf34007208d5b887185865"},
		{"000102030405060708090a0b0c0d0e0f101112131415161718191a1b1c1d1e1f202122232425262728292a2b2c2d2e2f303132333435363738393a3b3c3d3e3f404142434445464748494a4b4c4d4e4f",
			"606162636465666768696a6b6c6d6e6f707172737475767778797a7b7c7d7e7f808182838485868788898a8b8c8d8e8f909192939495969798999a9b9c9d9e9fa0a1a2a3a4a5a6a7a8a9aaabacadaeaf",
			"b0b1b2b3b4b5b6b7b8b9babbbcbdbebfc0c1c2c3c4c5c6c7c8c9cacbcccdcecfd0d1d2d3d4d5d6d7d8d9dadbdcdddedfe0e1e2e3e4e5e6e7e8e9eaebecedeeeff0f1f2f3f4f5f6f7f8f9fafbfcfdfeff",
			"b11e398dc80327a1c8e7f78c596a49344f012eda2d4efad8a050cc4c19afa97c59045a99cac7827271cb41c65e590e09da3275600c2f09b8367793a9aca3db71cc30c58179ec3e87c14c01d5c1f3434f1d87"},
		{"0b0b0b0b0b0b0b0b0b0b0b0b0b0b0b0b0b0b0b0b0b0b", "", "",
			"8da4e775a563c18f715f802a063c5a31b8a11f5c5ee1879ec3454e5f3c738d2d9d201395faa4b61a96c8"},
	} {
		want := unhex(t, v.okm)
		got := HKDF(unhex(t, v.ikm), unhex(t, v.salt), unhex(t, v.info), len(want))
		if !bytes.Equal(got, want) {
			t.Errorf("RFC 5869 case %d: got %x want %x", i+1, got, want)
		}
	}
}

// Own HKDF against x/crypto/hkdf on arbitrary inputs and every block boundary.
func TestHKDFCross(t *testing.T) {
	rng := rand.New(rand.NewPCG(1, 2))
	for i := 0; i < 200; i++ {
		ikm := make([]byte, rng.IntN(100))
		salt := make([]byte, rng.IntN(80))
		info := make([]byte, rng.IntN(80))
		for _, b := range [][]byte{ikm, salt, info} {
			for j := range b {
				b[j] = byte(rng.Uint32())
			}
		}
		n := rng.IntN(MaxKDF + 1)
		if i < 4 {
			n = []int{0, 1, MaxKDF - 1, MaxKDF}[i]
		}
		want := make([]byte, n)
		if _, err := io.ReadFull(hkdf.New(sha256.New, ikm, salt, info), want); err != nil {
			t.Fatal(err)
		}
		if got := HKDF(ikm, salt, info, n); !bytes.Equal(got, want) {
			t.Fatalf("HKDF mismatch at n=%d", n)
		}
	}
}

// RFC 7748 section 5.2 vectors, iteration test (1 and 1000 rounds) and the
// section 6.1 Diffie-Hellman example, for both X25519 functions.
func TestX25519RFC7748(t *testing.T) {
	for name, dh := range map[string]DH{"big": X25519Big, "fast": X25519Fast} {
		for i, v := range []struct{ k, u, out string }{
			{"a546e36bf0527c9d3b16154b82465edd62144c0ac1fc5a18506a2244ba449ac4",
				"e6db6867583030db3594c1a424b15f7c726624ec26b3353b10a903a6d0ab1c4c",
				"c3da55379de9c6908e94ea4df28d084f32eccf03491c71f754b4075577a28552"},
			{"4b66e9d4d1b4673c5ad22691957d6af5c11b6421e0ea01d42ca4169e7918ba0d",
				"e5210f12786811d3f4b7959d0538ae2c31dbe7106fc03c3efc4cd549c715a493", // bit 255 set: must be masked
				"95cbde9476e8907d7aade45cb4b873f88b595a68799fa152e6f8f7647aac7957"},
		} {
			got := dh(arr32(t, v.k), arr32(t, v.u))
			if hex.EncodeToString(got[:]) != v.out {
				t.Errorf("%s: vector %d: got %x", name, i, got)
			}
		}
		k := *arr32(t, "0900000000000000000000000000000000000000000000000000000000000000")
		u := k
		rounds := 1000
		if name == "big" && testing.Short() {
			rounds = 1
		}
		for i := 1; i <= rounds; i++ {
			r := dh(&k, &u)
			u, k = k, r
			if i == 1 && hex.EncodeToString(k[:]) != "422c8e7a6227d7bca1350b3e2bb7279f7897b87bb6854b783c60e80311ae3079" {
				t.Errorf("%s: iteration 1: %x", name, k)
			}
			if i == 1000 && hex.EncodeToString(k[:]) != "684cf59ba83309552800ef566f2f4d3c1c3887c49360e3875f2eb94d99532c51" {
				t.Errorf("%s: iteration 1000: %x", name, k)
			}
		}
		var g [32]byte
		g[0] = 9
		a := arr32(t, "77076d0a7318a57d3c16c17251b26645df4c2f87ebc0992ab177fba51db92c2a")
		b := arr32(t, "5dab087e624a8a4b79e17f8b83800ee66f3bb1292618b6fd1c2f8b27ff88e0eb")
		A, B := dh(a, &g), dh(b, &g)
		if hex.EncodeToString(A[:]) != "8520f0098930a754748b7ddcb43ef75a0dbf3a0d26381af4eba4a98eaa9b4e6a" ||
			hex.EncodeToString(B[:]) != "de9edb7d7b7dc1b4d35b61c2ece435373f8343c85b78674dadfc7e146f882b4f" {
			t.Errorf("%s: 6.1 public keys wrong", name)
		}
		k1, k2 := dh(a, &B), dh(b, &A)
		if k1 != k2 || hex.EncodeToString(k1[:]) != "4a5d9d5ba4ce2de1728e3bf480350f25e07e21c947d19e3376f09b3c1e161742" {
			t.Errorf("%s: 6.1 shared secret wrong: %x %x", name, k1, k2)
		}
	}
}

// The two X25519 functions agree on arbitrary (also non-canonical, twist)
// inputs; every listed low-order encoding gives the all-zero output for any
// scalar, and no near-miss encoding does.
func TestX25519CrossAndLowOrder(t *testing.T) {
	rng := rand.New(rand.NewPCG(3, 4))
	fill := func(a *[32]byte) {
		for i := range a {
			a[i] = byte(rng.Uint32())
		}
	}
	var k, u [32]byte
	for i := 0; i < 300; i++ {
		fill(&k)
		fill(&u)
		switch i % 4 {
		case 1:
			u[31] |= 0x80
		case 2:
			for j := 1; j < 32; j++ {
				u[j] = 0xff // >= p once bit 255 is masked, for most u[0]
			}
		}
		if a, b := X25519Big(&k, &u), X25519Fast(&k, &u); a != b {
			t.Fatalf("big/fast differ: k=%x u=%x big=%x fast=%x", k, u, a, b)
		}
	}
	enc := LowOrderEncodings()
	if len(enc) != 14 {
		t.Fatalf("want 14 low-order encodings, got %d", len(enc))
	}
	seen := map[[32]byte]bool{}
	for _, e := range enc {
		if seen[e.U] {
			t.Errorf("duplicate encoding %s", e.Label)
		}
		seen[e.U] = true
		for i := 0; i < 8; i++ {
			fill(&k)
			a, b := X25519Big(&k, &e.U), X25519Fast(&k, &e.U)
			if !IsZero(&a) || !IsZero(&b) {
				t.Errorf("%s: non-zero result big=%x fast=%x", e.Label, a, b)
			}
		}
	}
	// the order-8 constants really have order 8: 8*P = identity means the
	// ladder with scalar 8 (unclamped) hits z=0; checked through clamped
	// scalars above.  Published byte strings of the two order-8 points:
	if hex.EncodeToString(enc[2].U[:]) != "e0eb7a7c3b41b8ae1656e3faf19fc46ada098deb9c32b1fd866205165f49b800" ||
		hex.EncodeToString(enc[3].U[:]) != "5f9c95bca3508c24b1d0b1559c83ef5b04445cc4581c8e86d8224eddd09f1157" {
		t.Errorf("order-8 encodings differ from the published byte strings: %x %x", enc[2].U, enc[3].U)
	}
	nm := NearMissEncodings()
	if len(nm) < 8 {
		t.Fatalf("too few near-miss encodings: %d", len(nm))
	}
	for _, e := range nm {
		if seen[e.U] {
			t.Errorf("near-miss %s is in the low-order list", e.Label)
		}
		fill(&k)
		a, b := X25519Big(&k, &e.U), X25519Fast(&k, &e.U)
		if a != b || IsZero(&a) {
			t.Errorf("near-miss %s: big=%x fast=%x", e.Label, a, b)
		}
	}
}

// Known answer for the deployed variant, produced by kat.py (pure Python,
// written separately from this package).
func TestDeployedVariantKAT(t *testing.T) {
	x := arr32(t, "77076d0a7318a57d3c16c17251b26645df4c2f87ebc0992ab177fba51db92c2a")
	y := arr32(t, "5dab087e624a8a4b79e17f8b83800ee66f3bb1292618b6fd1c2f8b27ff88e0eb")
	b := arr32(t, "a546e36bf0527c9d3b16154b82465edd62144c0ac1fc5a18506a2244ba449ac4")
	var g [32]byte
	g[0] = 9
	var id [20]byte
	for i := range id {
		id[i] = byte(i)
	}
	const (
		wantB    = "1c9fd88f45606d932a80c71824ae151d15d73e77de38e8e000852e614fae7019"
		wantSeed = "de37649c27e0b7fd2a949f73d8322912760b0c476c620edfb9430bf059ccec2a"
		wantAuth = "d3aebae7ec2ae811466138245971618905fb51f659ff8a9f22cd9194cb261744"
		wantOKM  = "721c51b3a8f5d5f3567e0aeecf067b803f59d19939bb05206f4fc31052e08f2bc3e3afe5e9f4a061a2b03d978fccf9b1584eda573a5e11bbe0ed6853fbe83a2c11b9bb8321e12118afeb0b589ff88daa7d5fcbcd182d733b59a78c70b986188420b83e607eff70b1be11fdcedebc9067f9da4d8db11672e0458fe747678643907c47a4f97bc81f12aa0d2d943d9c4fc7"
	)
	for name, dh := range map[string]DH{"big": X25519Big, "fast": X25519Fast} {
		X, Y, B := dh(x, &g), dh(y, &g), dh(b, &g)
		if hex.EncodeToString(B[:]) != wantB {
			t.Fatalf("%s: B = %x", name, B)
		}
		c := Client(dh, x, &X, &Y, &B, &id)
		s := Server(dh, y, b, &X, &Y, &B, &id)
		if c != s {
			t.Errorf("%s: client and server differ", name)
		}
		if c.ZeroDH {
			t.Errorf("%s: ZeroDH on ordinary keys", name)
		}
		if hex.EncodeToString(c.KeySeed[:]) != wantSeed || hex.EncodeToString(c.Auth[:]) != wantAuth {
			t.Errorf("%s: KEY_SEED %x AUTH %x", name, c.KeySeed, c.Auth)
		}
		if got := KDF(c.KeySeed[:], 144); hex.EncodeToString(got) != wantOKM {
			t.Errorf("%s: KDF = %x", name, got)
		}
		// every transcript input is bound
		X2, Y2, B2, id2 := X, Y, B, id
		X2[3] ^= 1
		Y2[31] ^= 0x80
		B2[0] ^= 2
		id2[19] ^= 0x40
		for i, o := range []Result{
			Client(dh, x, &X2, &Y, &B, &id), Client(dh, x, &X, &Y2, &B, &id),
			Client(dh, x, &X, &Y, &B2, &id), Client(dh, x, &X, &Y, &B, &id2),
			Client(dh, x, &Y, &X, &B, &id), // X and Y exchanged in the transcript only
		} {
			if o.KeySeed == c.KeySeed || o.Auth == c.Auth {
				t.Errorf("%s: variation %d left an output unchanged", name, i)
			}
		}
		var zero [32]byte
		if r := Client(dh, x, &X, &zero, &B, &id); !r.ZeroDH {
			t.Errorf("%s: low-order Y not flagged", name)
		}
		if r := Client(dh, x, &X, &Y, &zero, &id); !r.ZeroDH {
			t.Errorf("%s: low-order B not flagged", name)
		}
		if r := Server(dh, y, b, &zero, &Y, &B, &id); !r.ZeroDH {
			t.Errorf("%s: low-order X not flagged", name)
		}
	}
}
