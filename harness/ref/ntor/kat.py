#!/usr/bin/env python3
"""Known-answer generator for the deployed ntor variant, independent of the Go
reference (pure Python: hashlib/hmac + the RFC 7748 ladder on ints).  The Go
self-test (ntor_test.go, TestDeployedVariantKAT) embeds the values printed
here.  Keys: x, y = Alice/Bob private keys of RFC 7748 section 6.1, b = the
scalar of the first RFC 7748 section 5.2 vector, node ID = bytes 0x00..0x13."""
import hashlib, hmac

P = 2**255 - 19
A24 = 121665


def x25519(k: bytes, u: bytes) -> bytes:
    kb = bytearray(k)
    kb[0] &= 248
    kb[31] &= 127
    kb[31] |= 64
    kn = int.from_bytes(kb, "little")
    ub = bytearray(u)
    ub[31] &= 127
    x1 = int.from_bytes(ub, "little") % P
    x2, z2, x3, z3, swap = 1, 0, x1, 1, 0
    for t in range(254, -1, -1):
        kt = (kn >> t) & 1
        swap ^= kt
        if swap:
            x2, x3, z2, z3 = x3, x2, z3, z2
        swap = kt
        a = (x2 + z2) % P
        aa = a * a % P
        b = (x2 - z2) % P
        bb = b * b % P
        e = (aa - bb) % P
        c = (x3 + z3) % P
        d = (x3 - z3) % P
        da = d * a % P
        cb = c * b % P
        x3 = (da + cb) ** 2 % P
        z3 = x1 * (da - cb) ** 2 % P
        x2 = aa * bb % P
        z2 = e * (aa + A24 * e) % P
    if swap:
        x2, x3, z2, z3 = x3, x2, z3, z2
    return (x2 * pow(z2, P - 2, P) % P).to_bytes(32, "little")


def H(msg: bytes, key: bytes) -> bytes:
    return hmac.new(key, msg, hashlib.sha256).digest()


PROTOID = b"ntor-curve25519-sha256-1"
T_MAC, T_KEY, T_VERIFY, M_EXPAND = (PROTOID + s for s in (b":mac", b":key_extract", b":key_verify", b":key_expand"))

x = bytes.fromhex("77076d0a7318a57d3c16c17251b26645df4c2f87ebc0992ab177fba51db92c2a")
y = bytes.fromhex("5dab087e624a8a4b79e17f8b83800ee66f3bb1292618b6fd1c2f8b27ff88e0eb")
b = bytes.fromhex("a546e36bf0527c9d3b16154b82465edd62144c0ac1fc5a18506a2244ba449ac4")
NODEID = bytes(range(20))
G = (9).to_bytes(32, "little")
X, Y, B = x25519(x, G), x25519(y, G), x25519(b, G)

suffix = B + B + X + Y + PROTOID + NODEID
client = x25519(x, Y) + x25519(x, B) + suffix
server = x25519(y, X) + x25519(b, X) + suffix
assert client == server
key_seed = H(client, T_KEY)
verify = H(client, T_VERIFY)
auth = H(verify + suffix + b"Server", T_MAC)

# HKDF-SHA256(ikm=KEY_SEED, salt=t_key, info=m_expand), 144 bytes
prk = H(key_seed, T_KEY)
okm, t, i = b"", b"", 1
while len(okm) < 144:
    t = H(t + M_EXPAND + bytes([i]), prk)
    okm += t
    i += 1
okm = okm[:144]

for name, v in (("X", X), ("Y", Y), ("B", B), ("KEY_SEED", key_seed), ("AUTH", auth), ("OKM144", okm)):
    print(name, v.hex())
