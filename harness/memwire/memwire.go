// Package memwire is an in-memory, buffered, full-duplex net.Conn that records
// everything that happens on it and lets a monitor control how the byte stream
// is chunked, cut, faulted and rewritten.
//
// All blocking is done with sync.Cond so that it is "durably blocking" for
// testing/synctest; deadlines are ordinary timers and therefore virtual inside
// a bubble.  Everything used by a case must be created inside that case's
// bubble.
package memwire

import (
	"errors"
	"io"
	"net"
	"os"
	"sync"
	"sync/atomic"
	"syscall"
	"time"
)

// Tick is a process-wide logical clock used to order events of different
// connections and goroutines without reading the wall clock.
var tick atomic.Int64

// Tick returns the next logical time stamp.
func Tick() int64 { return tick.Add(1) }

var moved atomic.Int64

// BytesMoved is the number of bytes accepted from writers plus delivered to
// readers by all wires of the process so far (progress indicator for the spin
// monitor: a loop that keeps calling Read/Write without moving a byte does not
// change it).
func BytesMoved() int64 { return moved.Load() }

// ChunkPolicy decides how many of the avail pending bytes (avail >= 1) a Read
// that asked for req bytes (req >= 1) receives, given that off bytes were
// delivered before.  The result is clamped to [1, min(avail, req)].
type ChunkPolicy func(avail, req int, off int64) int

// All delivers everything that is available (coalescing separate writes).
func All() ChunkPolicy { return func(avail, req int, off int64) int { return avail } }

// AllButLast delivers everything that is available except its last byte,
// which is delivered by the next read: every burst the writer has completed
// is split one byte before its end.
func AllButLast() ChunkPolicy {
	return func(avail, req int, off int64) int {
		if avail > 1 {
			return avail - 1
		}
		return avail
	}
}

// Fixed delivers at most k bytes per read.
func Fixed(k int) ChunkPolicy {
	return func(avail, req int, off int64) int { return k }
}

// Script delivers the listed sizes in turn and then behaves like rest.
func Script(sizes []int, rest ChunkPolicy) ChunkPolicy {
	i := 0
	return func(avail, req int, off int64) int {
		if i < len(sizes) {
			i++
			return sizes[i-1]
		}
		return rest(avail, req, off)
	}
}

// Boundaries never lets one read cross any of the given absolute stream
// offsets (sorted ascending); between boundaries it delivers all available.
func Boundaries(offs []int64) ChunkPolicy {
	return func(avail, req int, off int64) int {
		for _, b := range offs {
			if b > off {
				if int64(avail) > b-off {
					return int(b - off)
				}
				break
			}
		}
		return avail
	}
}

// PRNG delivers 1..max bytes chosen by a small deterministic generator.
func PRNG(seed uint64, max int) ChunkPolicy {
	s := seed*0x9e3779b97f4a7c15 + 0x1234567
	return func(avail, req int, off int64) int {
		s ^= s << 13
		s ^= s >> 7
		s ^= s << 17
		return int(s%uint64(max)) + 1
	}
}

// CutKind says what a reader sees once the cut offset has been delivered.
type CutKind int

const (
	CutNone    CutKind = iota
	CutEOF             // io.EOF
	CutRST             // ECONNRESET; the writer side also starts failing
	CutSilence         // nothing, for ever (only a deadline ends the read)
)

// WEvent is one Write call as seen by the wire.
type WEvent struct {
	N    int           // bytes accepted
	Off  int64         // stream offset of the first byte
	T    time.Duration // (virtual) time since the pair was created
	Tick int64
}

// REvent is one Read call as seen by the wire.
type REvent struct {
	Req, N int
	Err    string
	T      time.Duration
	Tick   int64
}

// DEvent is one Set*Deadline call.
type DEvent struct {
	Kind string        // "rw", "r", "w"
	Zero bool          // the zero time (deadline removed)
	In   time.Duration // deadline - now, when not zero
	T    time.Duration
	Tick int64
}

// Half is one direction of a pair: a byte queue from one writer to one reader.
type Half struct {
	mu   sync.Mutex
	cond *sync.Cond

	buf     []byte
	window  int // 0 = unbounded, else writer blocks while len(buf) >= window
	policy  ChunkPolicy
	wclosed bool // writer end closed: reader sees EOF after draining
	rclosed bool // reader end closed: writer sees EPIPE, pending data dropped

	cutAt   int64 // -1 = none
	cutKind CutKind
	cutErr  error // with CutRST: returned verbatim by the reader instead of ECONNRESET

	werrAfter int64 // -1 = none; writes fail once this many bytes were accepted
	werr      error
	werrRaw   bool // return werr verbatim (not wrapped in a *net.OpError)

	failEpoch int // bumped by FailTogether: an operation in progress at that moment reports the failure even if its end is closed meanwhile

	rewrite func(off int64, p []byte) []byte

	paused bool // reader sees nothing while paused

	errWithData bool // deliver the end-of-stream error together with the last bytes, as io.Reader allows
	// timeoutWithData: the first read that finds data after the wire had
	// drained, while a read deadline is armed, is held till that deadline and
	// then returns the data together
	// with the timeout error ("the bytes arrived as the deadline expired"), as
	// io.Reader allows and layered connections (TLS, proxies) do
	timeoutWithData bool
	twdHold         bool

	written   int64 // bytes accepted from the writer (before rewrite)
	enqueued  int64 // bytes put in the queue (after rewrite)
	delivered int64 // bytes handed to the reader

	keep   bool
	Data   []byte // every byte accepted from the writer, if keep
	Writes []WEvent
	Reads  []REvent

	start time.Time
}

func newHalf(start time.Time) *Half {
	h := &Half{cutAt: -1, werrAfter: -1, policy: All(), start: start}
	h.cond = sync.NewCond(&h.mu)
	return h
}

// Options configure a Pair.
type Options struct {
	Keep bool // keep a transcript of all bytes written in both directions
}

// Conn is one end of a Pair.
type Conn struct {
	Name string
	rd   *Half // we read from this
	wr   *Half // we write to this

	mu               sync.Mutex
	closed           bool
	resetFailsWrites bool
	closeErr         error
	rdl, wdl         time.Time
	rdt, wdt         *time.Timer
	Deadlines        []DEvent
	CloseT           time.Duration
	CloseTick        int64
	local            net.Addr
	remote           net.Addr
	start            time.Time
}

// Pair returns the two ends (a, b) of a new in-memory connection.
func Pair(o Options) (*Conn, *Conn) {
	start := time.Now()
	ab := newHalf(start) // a writes, b reads
	ba := newHalf(start)
	ab.keep, ba.keep = o.Keep, o.Keep
	a := &Conn{Name: "a", rd: ba, wr: ab, start: start,
		local: &net.TCPAddr{IP: net.IPv4(192, 0, 2, 1), Port: 40001}, remote: &net.TCPAddr{IP: net.IPv4(192, 0, 2, 2), Port: 443}}
	b := &Conn{Name: "b", rd: ab, wr: ba, start: start,
		local: &net.TCPAddr{IP: net.IPv4(192, 0, 2, 2), Port: 443}, remote: &net.TCPAddr{IP: net.IPv4(192, 0, 2, 1), Port: 40001}}
	return a, b
}

// In is the half this end reads from; Out the half it writes to.
func (c *Conn) In() *Half  { return c.rd }
func (c *Conn) Out() *Half { return c.wr }

// SetResetFailsWrites: once a Read on this end has reported a reset (a cut of
// kind CutRST), Writes on it fail with EPIPE, as on a socket.  Off by default:
// a cut then only affects the direction it was placed on.
func (c *Conn) SetResetFailsWrites(on bool) { c.mu.Lock(); c.resetFailsWrites = on; c.mu.Unlock() }

// SetAddrs overrides the addresses reported by the connection.
func (c *Conn) SetAddrs(local, remote net.Addr) { c.local, c.remote = local, remote }

// ---- Half configuration (safe to call at any time) ----

func (h *Half) SetPolicy(p ChunkPolicy) { h.mu.Lock(); h.policy = p; h.mu.Unlock() }
func (h *Half) SetWindow(n int)         { h.mu.Lock(); h.window = n; h.mu.Unlock(); h.cond.Broadcast() }

// SetCut arranges that once `at` bytes have been delivered the reader sees
// kind.  Bytes beyond the cut are never delivered.
func (h *Half) SetCut(at int64, kind CutKind) {
	h.mu.Lock()
	h.cutAt, h.cutKind, h.cutErr = at, kind, nil
	h.mu.Unlock()
	h.cond.Broadcast()
}

// SetCutErr is SetCut(at, CutRST) with a chosen error value: once `at` bytes
// have been delivered the reader's Read returns err verbatim (sentinel errors
// such as io.ErrClosedPipe or a wrapped net.ErrClosed included).
func (h *Half) SetCutErr(at int64, err error) {
	h.mu.Lock()
	h.cutAt, h.cutKind, h.cutErr = at, CutRST, err
	h.mu.Unlock()
	h.cond.Broadcast()
}

// SetWriteFault makes writes fail with err once `after` bytes were accepted.
func (h *Half) SetWriteFault(after int64, err error) {
	h.mu.Lock()
	h.werrAfter, h.werr, h.werrRaw = after, err, false
	h.mu.Unlock()
}

// SetWriteFaultRaw is SetWriteFault with err returned verbatim.
func (h *Half) SetWriteFaultRaw(after int64, err error) {
	h.mu.Lock()
	h.werrAfter, h.werr, h.werrRaw = after, err, true
	h.mu.Unlock()
}

// Failure is one half of what FailTogether breaks: with Cut the half's reader
// fails with Err (nil: ECONNRESET) once At bytes were delivered, otherwise its
// writer fails with Err (nil: EPIPE) from now on.
type Failure struct {
	H   *Half
	Cut bool
	At  int64
	Err error
}

// FailTogether breaks several halves (of one or of several connections) in
// one atomic step, as a connection reset does for the two directions of a
// connection, or a dying network for two connections.  An operation that is
// already in progress (blocked) on one of the halves at that moment reports
// the failure — not net.ErrClosed — even if another goroutine closes its end
// before it runs again; that is one of the outcomes a blocked operation on a
// real socket has when a reset and a Close race, and the one a test on real
// sockets cannot produce on demand.
func FailTogether(fs ...Failure) {
	seen := map[*Half]bool{}
	var hs []*Half
	for _, f := range fs {
		if !seen[f.H] {
			seen[f.H] = true
			hs = append(hs, f.H)
		}
	}
	for _, h := range hs {
		h.mu.Lock()
	}
	for _, f := range fs {
		h := f.H
		if f.Cut {
			h.cutAt, h.cutKind, h.cutErr = f.At, CutRST, f.Err
		} else if f.Err != nil {
			h.werrAfter, h.werr, h.werrRaw = h.written, f.Err, true
		} else {
			h.werrAfter, h.werr, h.werrRaw = h.written, syscall.EPIPE, false
		}
		h.failEpoch++
	}
	for _, h := range hs {
		h.mu.Unlock()
	}
	for _, h := range hs {
		h.cond.Broadcast()
	}
}

// SetRewrite installs a middlebox: every written slice p (first byte at
// stream offset off, counted before rewriting) is replaced by the result.
func (h *Half) SetRewrite(f func(off int64, p []byte) []byte) {
	h.mu.Lock()
	h.rewrite = f
	h.mu.Unlock()
}

// SetErrWithData makes the read that delivers the last bytes of the stream
// (writer closed, or cut offset reached) return them together with the error
// (n > 0 and err != nil in one call), as the io.Reader contract allows.
func (h *Half) SetErrWithData(on bool) { h.mu.Lock(); h.errWithData = on; h.mu.Unlock() }

// SetTimeoutWithData: see the field.
func (h *Half) SetTimeoutWithData(on bool) {
	h.mu.Lock()
	h.timeoutWithData, h.twdHold = on, on
	h.mu.Unlock()
}

// Pause stops/resumes delivery to the reader.
func (h *Half) Pause(on bool) { h.mu.Lock(); h.paused = on; h.mu.Unlock(); h.cond.Broadcast() }

// Inject appends bytes to the queue as if the writer had written them, without
// touching the writer's accounting (used by middlebox scenarios).
func (h *Half) Inject(p []byte) {
	h.mu.Lock()
	h.buf = append(h.buf, p...)
	h.enqueued += int64(len(p))
	h.mu.Unlock()
	h.cond.Broadcast()
}

// CloseWrite marks the writer end closed (reader drains, then EOF).
func (h *Half) CloseWrite() { h.mu.Lock(); h.wclosed = true; h.mu.Unlock(); h.cond.Broadcast() }

// Stats.
func (h *Half) Written() int64   { h.mu.Lock(); defer h.mu.Unlock(); return h.written }
func (h *Half) Delivered() int64 { h.mu.Lock(); defer h.mu.Unlock(); return h.delivered }
func (h *Half) Pending() int     { h.mu.Lock(); defer h.mu.Unlock(); return len(h.buf) }
func (h *Half) WriterClosed() bool {
	h.mu.Lock()
	defer h.mu.Unlock()
	return h.wclosed
}
func (h *Half) ReaderClosed() bool {
	h.mu.Lock()
	defer h.mu.Unlock()
	return h.rclosed
}

// Snapshot returns copies of the event logs and the transcript.
func (h *Half) Snapshot() (w []WEvent, r []REvent, data []byte) {
	h.mu.Lock()
	defer h.mu.Unlock()
	return append([]WEvent(nil), h.Writes...), append([]REvent(nil), h.Reads...), append([]byte(nil), h.Data...)
}

// ---- errors ----

type timeoutError struct{}

func (timeoutError) Error() string   { return "i/o timeout" }
func (timeoutError) Timeout() bool   { return true }
func (timeoutError) Temporary() bool { return true }
func (timeoutError) Is(err error) bool {
	return err == os.ErrDeadlineExceeded
}

// ErrTimeout is returned when a deadline expires.
var ErrTimeout net.Error = timeoutError{}

func opErr(op string, c *Conn, err error) error {
	return &net.OpError{Op: op, Net: "tcp", Source: c.local, Addr: c.remote, Err: err}
}

// ---- net.Conn ----

func (c *Conn) Read(p []byte) (int, error) {
	h := c.rd
	h.mu.Lock()
	n, err := c.readLocked(p)
	h.Reads = append(h.Reads, REvent{Req: len(p), N: n, Err: errStr(err), T: time.Since(h.start), Tick: Tick()})
	wasReset := err != nil && h.cutAt >= 0 && h.cutKind == CutRST && h.delivered >= h.cutAt
	h.mu.Unlock()
	if wasReset {
		c.mu.Lock()
		rw := c.resetFailsWrites
		c.mu.Unlock()
		if rw {
			// a connection that was reset is dead in both directions
			c.wr.mu.Lock()
			if c.wr.werrAfter < 0 {
				c.wr.werrAfter, c.wr.werr, c.wr.werrRaw = c.wr.written, syscall.EPIPE, false
			}
			c.wr.mu.Unlock()
			c.wr.cond.Broadcast()
		}
	}
	if n > 0 {
		h.cond.Broadcast() // window space for the writer
	}
	return n, err
}

func errStr(err error) string {
	if err == nil {
		return ""
	}
	return err.Error()
}

func (c *Conn) readLocked(p []byte) (int, error) {
	h := c.rd
	entry := h.failEpoch
	for {
		c.mu.Lock()
		closed, dl := c.closed, c.rdl
		c.mu.Unlock()
		if closed {
			if h.failEpoch != entry && h.cutAt >= 0 && h.cutKind == CutRST && h.delivered >= h.cutAt {
				return 0, h.rstErr(c) // the reset arrived while this Read was blocked
			}
			return 0, opErr("read", c, net.ErrClosed)
		}
		expired := !dl.IsZero() && !time.Now().Before(dl)
		if expired && !(h.timeoutWithData && h.twdHold && !h.paused && len(p) > 0 && len(h.buf) > 0 && (h.cutAt < 0 || h.cutAt > h.delivered)) {
			return 0, opErr("read", c, ErrTimeout)
		}
		if len(p) == 0 {
			return 0, nil
		}
		if !h.paused {
			avail := len(h.buf)
			if h.cutAt >= 0 {
				if rem := h.cutAt - h.delivered; int64(avail) > rem {
					avail = int(rem)
				}
			}
			held := avail > 0 && h.timeoutWithData && h.twdHold && !dl.IsZero() && !expired // held till the deadline
			if avail > 0 && !held {
				n := h.policy(avail, len(p), h.delivered)
				if n > avail {
					n = avail
				}
				if n > len(p) {
					n = len(p)
				}
				if n < 1 {
					n = 1
				}
				copy(p, h.buf[:n])
				h.buf = h.buf[n:]
				h.delivered += int64(n)
				moved.Add(int64(n))
				if h.timeoutWithData {
					h.twdHold = len(h.buf) == 0 // once per burst: armed again when the wire has drained
					if expired {
						return n, opErr("read", c, ErrTimeout)
					}
				}
				if h.errWithData {
					if h.cutAt >= 0 && h.delivered >= h.cutAt {
						switch h.cutKind {
						case CutEOF:
							return n, io.EOF
						case CutRST:
							return n, h.rstErr(c)
						}
					} else if h.wclosed && len(h.buf) == 0 {
						return n, io.EOF
					}
				}
				return n, nil
			}
			if held {
				// wait for the deadline
			} else if h.cutAt >= 0 && h.delivered >= h.cutAt {
				switch h.cutKind {
				case CutEOF:
					return 0, io.EOF
				case CutRST:
					return 0, h.rstErr(c)
				}
				// CutSilence: fall through to wait.
			} else if h.wclosed {
				return 0, io.EOF
			}
		}
		h.cond.Wait()
	}
}

func (h *Half) rstErr(c *Conn) error {
	if h.cutErr != nil {
		return h.cutErr
	}
	return opErr("read", c, syscall.ECONNRESET)
}

func (c *Conn) Write(p []byte) (int, error) {
	h := c.wr
	h.mu.Lock()
	defer h.mu.Unlock()
	total := 0
	ev := len(h.Writes)
	h.Writes = append(h.Writes, WEvent{Off: h.written, T: time.Since(h.start), Tick: Tick()})
	entry := h.failEpoch
	for {
		c.mu.Lock()
		closed, dl := c.closed, c.wdl
		c.mu.Unlock()
		if closed {
			if h.failEpoch != entry && h.werrAfter >= 0 && h.written >= h.werrAfter {
				// the failure arrived while this Write was blocked
				if h.werrRaw {
					return total, h.werr
				}
				return total, opErr("write", c, h.werr)
			}
			return total, opErr("write", c, net.ErrClosed)
		}
		if h.rclosed {
			return total, opErr("write", c, syscall.EPIPE)
		}
		if h.cutAt >= 0 && h.cutKind == CutRST && h.delivered >= h.cutAt {
			return total, opErr("write", c, syscall.ECONNRESET)
		}
		if h.werrAfter >= 0 && h.written >= h.werrAfter {
			if h.werrRaw {
				return total, h.werr
			}
			return total, opErr("write", c, h.werr)
		}
		if !dl.IsZero() && !time.Now().Before(dl) {
			return total, opErr("write", c, ErrTimeout)
		}
		if len(p) == 0 {
			return total, nil
		}
		room := len(p)
		if h.window > 0 {
			room = h.window - len(h.buf)
			if room <= 0 {
				h.cond.Wait()
				continue
			}
			if room > len(p) {
				room = len(p)
			}
		}
		if h.werrAfter >= 0 && int64(room) > h.werrAfter-h.written {
			room = int(h.werrAfter - h.written)
		}
		chunk := p[:room]
		off := h.written
		if h.keep {
			h.Data = append(h.Data, chunk...)
		}
		out := chunk
		if h.rewrite != nil {
			out = h.rewrite(off, append([]byte(nil), chunk...))
		}
		h.buf = append(h.buf, out...)
		h.enqueued += int64(len(out))
		h.written += int64(room)
		moved.Add(int64(room))
		h.Writes[ev].N += room
		total += room
		p = p[room:]
		h.cond.Broadcast()
	}
}

// Close closes this end: our reads/writes fail, the peer's reader drains and
// sees EOF, the peer's writer sees EPIPE.
func (c *Conn) Close() error {
	c.mu.Lock()
	if c.closed {
		c.mu.Unlock()
		return opErr("close", c, net.ErrClosed)
	}
	c.closed = true
	c.CloseT = time.Since(c.start)
	c.CloseTick = Tick()
	if c.rdt != nil {
		c.rdt.Stop()
	}
	if c.wdt != nil {
		c.wdt.Stop()
	}
	c.mu.Unlock()

	c.wr.mu.Lock()
	c.wr.wclosed = true
	c.wr.mu.Unlock()
	c.wr.cond.Broadcast()

	c.rd.mu.Lock()
	c.rd.rclosed = true
	c.rd.buf = nil
	c.rd.mu.Unlock()
	c.rd.cond.Broadcast()
	c.mu.Lock()
	err := c.closeErr
	c.mu.Unlock()
	return err
}

// SetCloseErr makes the (first) Close of this end report err although it
// does close the connection, as a TLS connection does when its closing alert
// cannot be sent, or a socket whose pending data was lost.
func (c *Conn) SetCloseErr(err error) { c.mu.Lock(); c.closeErr = err; c.mu.Unlock() }

// Closed reports whether Close was called on this end, and when.
func (c *Conn) Closed() (bool, time.Duration) {
	c.mu.Lock()
	defer c.mu.Unlock()
	return c.closed, c.CloseT
}

// DeadlineLog returns a copy of the Set*Deadline calls.
func (c *Conn) DeadlineLog() []DEvent {
	c.mu.Lock()
	defer c.mu.Unlock()
	return append([]DEvent(nil), c.Deadlines...)
}

// ReadDeadline returns the read deadline in force.
func (c *Conn) ReadDeadline() time.Time { c.mu.Lock(); defer c.mu.Unlock(); return c.rdl }

func (c *Conn) LocalAddr() net.Addr  { return c.local }
func (c *Conn) RemoteAddr() net.Addr { return c.remote }

func (c *Conn) SetDeadline(t time.Time) error {
	c.mu.Lock()
	if c.closed {
		c.mu.Unlock()
		return opErr("set", c, net.ErrClosed)
	}
	c.logDeadline("rw", t)
	c.setR(t)
	c.setW(t)
	c.mu.Unlock()
	return nil
}

func (c *Conn) SetReadDeadline(t time.Time) error {
	c.mu.Lock()
	if c.closed {
		c.mu.Unlock()
		return opErr("set", c, net.ErrClosed)
	}
	c.logDeadline("r", t)
	c.setR(t)
	c.mu.Unlock()
	return nil
}

func (c *Conn) SetWriteDeadline(t time.Time) error {
	c.mu.Lock()
	if c.closed {
		c.mu.Unlock()
		return opErr("set", c, net.ErrClosed)
	}
	c.logDeadline("w", t)
	c.setW(t)
	c.mu.Unlock()
	return nil
}

func (c *Conn) logDeadline(kind string, t time.Time) {
	ev := DEvent{Kind: kind, Zero: t.IsZero(), T: time.Since(c.start), Tick: Tick()}
	if !t.IsZero() {
		ev.In = time.Until(t)
	}
	c.Deadlines = append(c.Deadlines, ev)
}

func (c *Conn) setR(t time.Time) {
	c.rdl = t
	if c.rdt != nil {
		c.rdt.Stop()
		c.rdt = nil
	}
	if !t.IsZero() {
		h := c.rd
		wake := func() { h.mu.Lock(); h.mu.Unlock(); h.cond.Broadcast() }
		if d := time.Until(t); d > 0 {
			c.rdt = time.AfterFunc(d, wake)
		} else {
			// already due: no timer (a zero-duration AfterFunc created by many
			// goroutines of one synctest bubble at the same instant has crashed
			// the go1.26.8 runtime in (*timer).modify)
			go wake()
		}
	}
}

func (c *Conn) setW(t time.Time) {
	c.wdl = t
	if c.wdt != nil {
		c.wdt.Stop()
		c.wdt = nil
	}
	if !t.IsZero() {
		h := c.wr
		wake := func() { h.mu.Lock(); h.mu.Unlock(); h.cond.Broadcast() }
		if d := time.Until(t); d > 0 {
			c.wdt = time.AfterFunc(d, wake)
		} else {
			// already due: no timer (a zero-duration AfterFunc created by many
			// goroutines of one synctest bubble at the same instant has crashed
			// the go1.26.8 runtime in (*timer).modify)
			go wake()
		}
	}
}

// ---- listener / dialer adapters ----

// Listener hands out the server ends of pairs created by Dial.
type Listener struct {
	mu     sync.Mutex
	cond   *sync.Cond
	q      []*Conn
	closed bool
	Opts   Options
	// OnPair is called (if set) with both ends of every new pair before the
	// server end becomes acceptable.
	OnPair func(client, server *Conn)
}

func NewListener(o Options) *Listener {
	l := &Listener{Opts: o}
	l.cond = sync.NewCond(&l.mu)
	return l
}

func (l *Listener) Dial(network, addr string) (net.Conn, error) {
	a, b := Pair(l.Opts)
	if l.OnPair != nil {
		l.OnPair(a, b)
	}
	l.mu.Lock()
	if l.closed {
		l.mu.Unlock()
		return nil, errors.New("memwire: listener closed")
	}
	l.q = append(l.q, b)
	l.mu.Unlock()
	l.cond.Broadcast()
	return a, nil
}

func (l *Listener) Accept() (net.Conn, error) {
	l.mu.Lock()
	defer l.mu.Unlock()
	for len(l.q) == 0 {
		if l.closed {
			return nil, net.ErrClosed
		}
		l.cond.Wait()
	}
	c := l.q[0]
	l.q = l.q[1:]
	return c, nil
}

func (l *Listener) Close() error {
	l.mu.Lock()
	l.closed = true
	l.mu.Unlock()
	l.cond.Broadcast()
	return nil
}

func (l *Listener) Addr() net.Addr { return &net.TCPAddr{IP: net.IPv4(192, 0, 2, 2), Port: 443} }

var (
	_ net.Conn     = (*Conn)(nil)
	_ net.Listener = (*Listener)(nil)
)
