package memwire

import (
	"io"
	"testing"
)

func TestErrWithData(t *testing.T) {
	a, b := Pair(Options{})
	a.Out().SetErrWithData(true)
	a.Out().Pause(true)
	a.Write([]byte("hello"))
	a.Out().CloseWrite()
	a.Out().Pause(false)
	buf := make([]byte, 100)
	n, err := b.Read(buf)
	if n != 5 || err != io.EOF {
		t.Fatalf("n=%d err=%v", n, err)
	}
	// through io.Copy
	a, b = Pair(Options{})
	c, d := Pair(Options{})
	a.Out().SetErrWithData(true)
	a.Out().Pause(true)
	a.Write([]byte("hello"))
	a.Out().CloseWrite()
	a.Out().Pause(false)
	go func() { io.Copy(c, b); c.Close() }()
	got, _ := io.ReadAll(d)
	if string(got) != "hello" {
		t.Fatalf("got %q", got)
	}
}
