module verif

go 1.26.8

require (
	github.com/anishathalye/porcupine v1.3.0
	github.com/dchest/siphash v1.2.3
	gitlab.com/yawning/obfs4.git v0.0.0
	gitlab.torproject.org/tpo/anti-censorship/pluggable-transports/goptlib v1.5.0
	golang.org/x/crypto v0.14.0
)

require (
	filippo.io/edwards25519 v1.0.0 // indirect
	gitlab.com/yawning/edwards25519-extra v0.0.0-20231005122941-2149dcafc266 // indirect
)

replace gitlab.com/yawning/obfs4.git => /repo

replace github.com/dchest/siphash => ./depov/siphash
