// C04 — obfs4 accepts each client handshake once, within +-1 hour of the
// server clock.
//
// Histories of fresh / replayed / concurrently submitted client hellos are
// played against one real server factory in virtual time and compared in
// lockstep with a sequential model: a hello is accepted iff its hour stamp is
// within +-1 of the server's clock when it is processed and the same bytes
// were not presented with a valid stamp before (the model never forgets: after
// the filter's TTL the stamp is outside the window anyway, which is what
// catches a TTL shorter than the validity window).  Fresh hellos are built and
// finished by the reference client, which verifies the server's MAC under the
// hour it used itself.
package c04

import (
	"fmt"
	"io"
	"strconv"
	"sync"
	"testing"
	"testing/synctest"
	"time"

	"gitlab.com/yawning/obfs4.git/transports/base"

	"verif/mon"
	"verif/o4"
	ref "verif/ref/obfs4"
)

type hello struct {
	h     *ref.ClientHello
	stamp int64 // hour
	seen  bool  // presented before with a stamp that was valid at that moment
}

type world struct {
	c      *mon.Case
	r      *mon.Run
	sf     base.ServerFactory
	b      o4.Bridge
	rng    interface{ IntN(int) int }
	rr     io.Reader
	hellos []*hello
	D      time.Duration
	trace  []string
}

func nowHour() int64 { return time.Now().Unix() / 3600 }

func (w *world) fresh(off int64) *hello {
	key := ref.NewKeypair(w.rr)
	pad := make([]byte, ref.ClientMinPad+w.rng.IntN(500))
	io.ReadFull(w.rr, pad)
	st := nowHour() + off
	h := &hello{h: ref.BuildClientHello(w.b.Ref, key, pad, strconv.FormatInt(st, 10)), stamp: st}
	w.hellos = append(w.hellos, h)
	return h
}

// freshStamp builds a never-seen hello with the given hour stamp.
func (w *world) freshStamp(st int64) *hello {
	key := ref.NewKeypair(w.rr)
	pad := make([]byte, ref.ClientMinPad+w.rng.IntN(500))
	io.ReadFull(w.rr, pad)
	h := &hello{h: ref.BuildClientHello(w.b.Ref, key, pad, strconv.FormatInt(st, 10)), stamp: st}
	w.hellos = append(w.hellos, h)
	return h
}

// submitHeld opens the connection now but delivers h only after gap (inside
// the server's handshake timeout).  The hour that counts is the one of the
// server's clock when the handshake is presented, not when the connection
// was accepted.
func (w *world) submitHeld(h *hello, kind string, gap time.Duration) {
	H := time.Now().Add(gap).Unix() / 3600
	valid := h.stamp >= H-1 && h.stamp <= H+1
	expect := valid && !h.seen
	posInHour := time.Now().Unix() % 3600
	res := o4.RunProbe(w.c, w.sf, o4.ProbeScript{Segments: [][]byte{h.h.Bytes}, Gaps: []time.Duration{gap}, CloseAfter: -1})
	w.trace = append(w.trace, fmt.Sprintf("%s(stamp=H%+d,seen=%v)accepted@%02d:%02d,presented+%v->%v", kind, h.stamp-H, h.seen, posInHour/60, posInHour%60, gap, res.Accepted))
	w.judge(h, kind, H, valid, expect, res)
	if valid {
		h.seen = true
	}
}

// submit presents h once and judges the outcome against the model.
func (w *world) submit(h *hello, kind string) {
	H := nowHour()
	valid := h.stamp >= H-1 && h.stamp <= H+1
	expect := valid && !h.seen
	posInHour := time.Now().Unix() % 3600
	res := o4.RunProbe(w.c, w.sf, o4.ProbeScript{Segments: [][]byte{h.h.Bytes}, CloseAfter: -1})
	w.trace = append(w.trace, fmt.Sprintf("%s(stamp=H%+d,seen=%v)@%02d:%02d->%v", kind, h.stamp-H, h.seen, posInHour/60, posInHour%60, res.Accepted))
	w.judge(h, kind, H, valid, expect, res)
	if valid {
		h.seen = true
	}
}

func (w *world) judge(h *hello, kind string, H int64, valid, expect bool, res *o4.ProbeResult) {
	r, c := w.r, w.c
	r.Count("evaluations", 1)
	r.Count("ops_"+kind, 1)
	off := h.stamp - H
	r.Distinct("cells", fmt.Sprintf("%s/%d/%v/%d", kind, off, h.seen, (time.Now().Unix()%3600)/1200))
	wit := map[string]any{"history": append([]string(nil), w.trace...)}
	cell := fmt.Sprintf("%s/offset%+d", kind, off)
	if off < -3 || off > 3 {
		cell = kind + "/offset-far"
	}
	switch {
	case res.Accepted && !expect:
		why := "its hour stamp is outside +-1 of the server clock"
		sig := "accepted-outside-window/" + cell
		if valid {
			why = "the same bytes had been presented before"
			sig = "replay-accepted/" + cell
		}
		c.Violation(sig, fmt.Sprintf("server accepted a %s hello although %s (stamp = server hour %+d)", kind, why, off), wit)
	case !res.Accepted && expect:
		c.Violation("fresh-rejected/"+cell, fmt.Sprintf("server rejected a never-seen hello stamped server hour %+d (err %v)", off, res.WrapErr), wit)
	}
	if res.Accepted {
		r.Count("accepted", 1)
		// the reply must verify under the hour the client used
		if _, sess, err := h.h.ParseServerResponse(res.ServerData); err != nil {
			if expect {
				c.Violation("reply-not-bound-to-client-hour/"+cell, fmt.Sprintf("the reference client (hour %d) cannot verify the server's reply: %v", h.stamp, err), wit)
			}
		} else {
			r.Count("reply_verified_under_client_hour", 1)
			// the accepted connection is used before it ends: the client sends a
			// frame about as long as its hello and a few more (what the bridge
			// remembers of a handshake may not depend on buffers that live on)
			enc := ref.NewEncoder(sess.C2S)
			L := len(h.h.Bytes)
			sizes := []int{L - 8 - 21, 1 + w.rng.IntN(600), 1 + w.rng.IntN(600), L - 21}
			got := make(chan int64, 1)
			c.Go(nil, func() {
				var n int64
				buf := make([]byte, 4096)
				for {
					k, err := res.Conn.Read(buf)
					n += int64(k)
					if err != nil {
						got <- n
						return
					}
				}
			})
			var sent int64
			for _, sz := range sizes {
				if sz < 1 {
					sz = 1
				}
				if sz > ref.MaxPacketData {
					sz = ref.MaxPacketData
				}
				res.Client.Write(enc.DataFrame(make([]byte, sz), 0))
				sent += int64(sz)
			}
			synctest.Wait()
			res.Client.Close()
			if n := <-got; n != sent {
				c.Violation("accepted-connection-broken/"+cell, fmt.Sprintf("the bridge delivered %d of %d bytes the accepted client sent", n, sent), wit)
			} else {
				r.Count("accepted_connections_used", 1)
			}
		}
		res.Conn.Close()
		res.Client.Close()
		return
	}
	r.Count("rejected", 1)
	// a rejection (wrong hour or replay) must look exactly like any invalid handshake
	if res.ServerBytes != 0 {
		c.Violation("rejection-not-silent/"+kind, fmt.Sprintf("server wrote %d bytes while rejecting", res.ServerBytes), wit)
	}
	if w.D < 0 {
		w.D = res.ClosedAt
	} else if res.ClosedAt != w.D {
		c.Violation("rejection-delay-differs/"+kind, fmt.Sprintf("rejected %s hello closed at accept+%v, other rejections of this bridge at accept+%v", kind, res.ClosedAt, w.D), wit)
	}
	if valid && h.seen {
		r.Count("control_replay_rejected", 1)
	}
}

// concurrent presents one fresh valid hello on k connections at the same
// virtual instant: exactly one may be accepted.
func (w *world) concurrent(k int) {
	h := w.fresh(int64(w.rng.IntN(3) - 1))
	var wg sync.WaitGroup
	results := make([]*o4.ProbeResult, k)
	for i := 0; i < k; i++ {
		i := i
		wg.Add(1)
		w.c.Go(wg.Done, func() {
			results[i] = o4.RunProbe(w.c, w.sf, o4.ProbeScript{Segments: [][]byte{h.h.Bytes}, CloseAfter: -1})
		})
	}
	wg.Wait()
	acc := 0
	for _, res := range results {
		if res.Accepted {
			acc++
			if _, _, err := h.h.ParseServerResponse(res.ServerData); err == nil {
				w.r.Count("reply_verified_under_client_hour", 1)
			}
			res.Conn.Close()
			res.Client.Close()
		} else {
			if res.ServerBytes != 0 {
				w.c.Violation("rejection-not-silent/concurrent", "server wrote to a losing concurrent submission", nil)
			}
			if w.D < 0 {
				w.D = res.ClosedAt
			} else if res.ClosedAt != w.D {
				w.c.Violation("rejection-delay-differs/concurrent", fmt.Sprintf("closed at accept+%v, others at accept+%v", res.ClosedAt, w.D), nil)
			}
		}
	}
	w.trace = append(w.trace, fmt.Sprintf("concurrent(k=%d)->%d accepted", k, acc))
	w.r.Count("evaluations", int64(k))
	w.r.Count("ops_concurrent_group", 1)
	w.r.Count("concurrent_submissions", int64(k))
	w.r.Max("max_concurrent_degree", int64(k))
	if acc != 1 {
		w.c.Violation("concurrent-identical/accepted-"+strconv.Itoa(min(acc, 2)), fmt.Sprintf("%d of %d simultaneous submissions of one hello were accepted (exactly one must be)", acc, k), map[string]any{"history": w.trace})
	} else {
		w.r.Count("control_concurrent_exactly_one", 1)
	}
	h.seen = true
}

// heldReplay: a connection is accepted first and stays quiet; meanwhile the
// same hello is presented and accepted on a second connection; then it is
// presented on the held connection (within the server's handshake timeout).
// The handshakes complete in another order than the accepts.
func (w *world) heldReplay() {
	h := w.fresh(int64(w.rng.IntN(3) - 1))
	var held *o4.ProbeResult
	done := make(chan struct{})
	w.c.Go(func() { close(done) }, func() {
		held = o4.RunProbe(w.c, w.sf, o4.ProbeScript{Segments: [][]byte{h.h.Bytes}, Gaps: []time.Duration{5 * time.Second}, CloseAfter: -1})
	})
	time.Sleep(time.Second)
	w.submit(h, "fresh")
	<-done
	H := nowHour()
	w.trace = append(w.trace, fmt.Sprintf("replay-on-connection-accepted-earlier->%v", held.Accepted))
	w.judge(h, "replay-on-held-connection", H, true, false, held)
	w.r.Count("held_connection_scenarios", 1)
}

// overlapThenReplay: connection A is accepted first but completes its
// handshake last (after B, accepted later, has completed); afterwards B's
// hello is replayed on a new connection.
func (w *world) overlapThenReplay() {
	a, b := w.fresh(0), w.fresh(0)
	var ra *o4.ProbeResult
	done := make(chan struct{})
	w.c.Go(func() { close(done) }, func() {
		ra = o4.RunProbe(w.c, w.sf, o4.ProbeScript{Segments: [][]byte{a.h.Bytes}, Gaps: []time.Duration{5 * time.Second}, CloseAfter: -1})
	})
	time.Sleep(time.Second)
	w.submit(b, "fresh")
	<-done
	H := nowHour()
	w.trace = append(w.trace, fmt.Sprintf("fresh-on-connection-accepted-earlier->%v", ra.Accepted))
	w.judge(a, "fresh-on-held-connection", H, true, true, ra)
	a.seen = true
	w.submit(b, "replay")
	w.submit(a, "replay")
	w.r.Count("held_connection_scenarios", 1)
}

// extraFamilies are registered by files behind additional build tags.
var extraFamilies []func(r *mon.Run, dir string)

var steps = []time.Duration{0, time.Second, 59 * time.Minute, 61 * time.Minute, 2 * time.Hour, 2*time.Hour + 59*time.Minute, 3*time.Hour + time.Minute}

func newWorld(c *mon.Case, r *mon.Run, dir string, seed uint64) *world {
	rng := mon.NewRand(seed)
	b := o4.NewBridge(rng, 0)
	sf, err := o4.ServerFactory(dir, b)
	if err != nil {
		c.Violation("setup/server-factory", err.Error(), nil)
		return nil
	}
	return &world{c: c, r: r, sf: sf, b: b, rng: rng, rr: o4.RandReader{R: rng}, D: -1}
}

// position moves the virtual clock to the given second of the current hour
// (or the next, if already past).
func position(sec int64) {
	cur := time.Now().Unix() % 3600
	d := sec - cur
	if d < 0 {
		d += 3600
	}
	time.Sleep(time.Duration(d) * time.Second)
}

func TestCheck(t *testing.T) {
	r := mon.Start(t, "C04")
	defer r.Finish()
	r.Note("rule", "histories against one server factory each, in virtual time: (a) complete grid of hour offsets -3..+3 x clock positions {first second, middle, last second of the hour} for fresh hellos, each followed by a replay; (a2) the same offsets for connections accepted at xx:59:50 whose hello is presented 11, 20 or 29 s later, i.e. in the next hour (offsets relative to the hour at presentation); (b) the TTL scenario (hello stamped H+1 accepted in the first second of hour H, replayed 2h59m later while still inside its window); (b2) the eldest remembered hello expires (t0+3h) while younger ones, accepted 61..179 min later, are replayed right behind that instant; (c) PRNG histories of <=12 operations over {fresh(offset), replay(earlier hello), advance clock by one of {0,1s,59m,61m,2h,2h59m,3h1m}, k=2..16 simultaneous submissions of one hello}; every presentation is the byte-exact complete hello; lockstep comparison with the sequential set model. Non-trivial = a history with at least one acceptance and one rejection; distinct = distinct history trace.")
	dir := o4.StateDir("c04")

	// (a) offsets x clock positions
	for pi, pos := range []int64{0, 1800, 3599} {
		pi, pos := pi, pos
		r.Bubble(fmt.Sprintf("grid/pos%d", pi), func(c *mon.Case) {
			w := newWorld(c, r, dir, r.Sub("grid", pi))
			if w == nil {
				return
			}
			for off := int64(-3); off <= 3; off++ {
				position(pos)
				h := w.fresh(off)
				w.submit(h, "fresh")
				position(pos)
				w.submit(h, "replay")
				// and a hello built just before an hour boundary but processed after it
				if pos == 3599 && off == 0 {
					position(3599)
					h2 := w.fresh(0)
					time.Sleep(2 * time.Second)
					w.submit(h2, "fresh-across-boundary")
				}
			}
			r.Distinct("nontrivial", fmt.Sprint(w.trace))
			r.Sample(map[string]any{"history": w.trace})
		})
	}
	// (a2) connections accepted shortly before the top of the hour whose hello
	// is presented shortly after it: offsets are relative to the server's hour
	// at presentation
	for gi, gap := range []time.Duration{11 * time.Second, 20 * time.Second, 29 * time.Second} {
		gi, gap := gi, gap
		r.Bubble(fmt.Sprintf("accepted-before-boundary/%d", gi), func(c *mon.Case) {
			w := newWorld(c, r, dir, r.Sub("abb", gi))
			if w == nil {
				return
			}
			for off := int64(-3); off <= 3; off++ {
				position(3590)
				h := w.freshStamp(nowHour() + 1 + off)
				w.submitHeld(h, "fresh-accepted-before-boundary", gap)
				w.submit(h, "replay")
				r.Count("accepted_before_boundary_presentations", 1)
			}
			r.Distinct("nontrivial", fmt.Sprint(w.trace))
		})
	}
	// (b) TTL scenario
	for k := 0; k < 4; k++ {
		k := k
		r.Bubble(fmt.Sprintf("ttl/%d", k), func(c *mon.Case) {
			w := newWorld(c, r, dir, r.Sub("ttl", k))
			if w == nil {
				return
			}
			position(0)
			h := w.fresh(1)
			w.submit(h, "fresh")
			start := time.Now()
			for _, at := range []time.Duration{59 * time.Minute, 61 * time.Minute, 119 * time.Minute, 2*time.Hour + 59*time.Minute - time.Duration(k)*time.Second, 3*time.Hour + time.Minute} {
				time.Sleep(at - time.Since(start))
				w.submit(h, "replay")
			}
			r.Count("ttl_scenarios", 1)
			r.Distinct("nontrivial", fmt.Sprint(w.trace))
		})
	}
	// (b2) the eldest remembered handshake expires while younger ones must stay
	// remembered: A at t0, V at t0+x (stamped for the next hour, so that it
	// stays presentable), then just behind t0+3h — when A is forgotten — V is
	// replayed, directly or after another (fresh) handshake has gone through
	// the filter first
	for xi, x := range []time.Duration{61 * time.Minute, 90 * time.Minute, 2 * time.Hour, 150 * time.Minute, 179 * time.Minute} {
		xi, x := xi, x
		r.Bubble(fmt.Sprintf("eldest-expires/%d", xi), func(c *mon.Case) {
			for vi, eps := range []time.Duration{time.Second, time.Minute, 29 * time.Minute} {
				for order := 0; order < 2; order++ {
					w := newWorld(c, r, dir, r.Sub("eldest", xi, vi, order))
					if w == nil {
						return
					}
					position(int64(w.rng.IntN(3600)))
					start := time.Now()
					w.submit(w.fresh(0), "fresh")
					time.Sleep(x)
					v := w.fresh(1)
					w.submit(v, "fresh")
					v0 := w.fresh(0)
					w.submit(v0, "fresh")
					w.submit(v, "replay")
					time.Sleep(3*time.Hour + eps - time.Since(start))
					w.trace = append(w.trace, fmt.Sprintf("advance(to t0+3h+%v)", eps))
					if order == 1 {
						w.submit(w.fresh(0), "fresh")
					}
					w.submit(v, "replay-after-eldest-expired")
					w.submit(v0, "replay-after-eldest-expired")
					w.submit(w.fresh(-1), "fresh")
					w.submit(v, "replay-after-eldest-expired")
					r.Count("eldest_expiry_scenarios", 1)
					r.Distinct("nontrivial", fmt.Sprint(w.trace))
				}
			}
		})
	}
	// (d) real clock: parallel bursts (burst_test.go, needs the instrumented siphash copy)
	for _, f := range extraFamilies {
		f(r, dir)
	}
	// (c) PRNG histories
	n := r.Pick(400, 6000)
	for i := 0; i < n; i++ {
		i := i
		r.Bubble(fmt.Sprintf("hist/%05d", i), func(c *mon.Case) {
			w := newWorld(c, r, dir, r.Sub("hist", i))
			if w == nil {
				return
			}
			position(int64(w.rng.IntN(3600)))
			ops := 4 + w.rng.IntN(9)
			for k := 0; k < ops; k++ {
				switch x := w.rng.IntN(10); {
				case x < 3:
					w.submit(w.fresh(int64(w.rng.IntN(7)-3)), "fresh")
				case x < 6 && len(w.hellos) > 0:
					w.submit(w.hellos[w.rng.IntN(len(w.hellos))], "replay")
				case x < 8:
					d := steps[w.rng.IntN(len(steps))]
					time.Sleep(d)
					w.trace = append(w.trace, "advance("+d.String()+")")
				case x == 8 && k%2 == 0:
					w.concurrent(2 + w.rng.IntN(15))
				case x == 8 && w.rng.IntN(2) == 0:
					w.heldReplay()
				case x == 8:
					w.overlapThenReplay()
				default:
					w.submit(w.fresh(int64(w.rng.IntN(3)-1)), "fresh")
				}
			}
			r.Count("histories", 1)
			r.Distinct("nontrivial", fmt.Sprint(w.trace))
			if i < 2 {
				r.Sample(map[string]any{"history": w.trace})
			}
		})
	}
}
