//go:build verif_dephooks

// Real-clock part of C04.  Built only by bin/check (tags and -modfile from
// check.json): it needs harness/depov/siphash, the copy of
// github.com/dchest/siphash whose Hash calls an optional delay hook first.
package c04

import (
	"fmt"
	"sync"
	"sync/atomic"
	"time"

	"github.com/dchest/siphash"

	"verif/mon"
	"verif/o4"
)

func init() { extraFamilies = append(extraFamilies, burstFamily) }

// burst runs on the real clock: k distinct fresh hellos are released against
// the factory at the same moment (their handshakes are processed in parallel
// on several cores, so the order in which they sample the clock and the order
// in which they reach the replay filter can differ), and once every one of
// them has been answered each is presented a second time.  Sequential set
// model: every first presentation is accepted, every second one rejected.
// With hold >= 0 one of the parallel handshakes is delayed by d between
// sampling the clock and entering the filter (see depov/siphash).
// Only acceptances are judged (a probe closes its end 40 ms after writing so
// that a rejecting server does not hold the case for its random delay; on a
// loaded machine a slow acceptance can therefore be cut short, which is
// counted, not judged).
func (w *world) burst(k int, label string, hold int, d time.Duration) {
	hs := make([]*hello, k)
	for i := range hs {
		hs[i] = w.fresh(0)
	}
	round := func(kind string) []bool {
		var wg sync.WaitGroup
		acc := make([]bool, k)
		var gate sync.WaitGroup
		gate.Add(1)
		for i := 0; i < k; i++ {
			i := i
			wg.Add(1)
			w.c.Go(wg.Done, func() {
				gate.Wait()
				res := o4.RunProbe(w.c, w.sf, o4.ProbeScript{Segments: [][]byte{hs[i].h.Bytes}, CloseAfter: 40 * time.Millisecond})
				acc[i] = res.Accepted
				if res.Accepted {
					if _, _, err := hs[i].h.ParseServerResponse(res.ServerData); err == nil {
						w.r.Count("reply_verified_under_client_hour", 1)
					}
					res.Conn.Close()
					res.Client.Close()
				}
			})
		}
		gate.Done()
		wg.Wait()
		return acc
	}
	// delay injection between the handshake code's clock sample and the
	// filter's critical section: the hold-th caller of siphash.Hash (the
	// filter's digest, computed after time.Now() and before Lock) sleeps d.
	if hold >= 0 {
		var n atomic.Int64
		siphash.VerifSetBeforeHash(func() {
			if n.Add(1) == int64(hold)+1 {
				w.r.Count("burst_delays_injected", 1)
				time.Sleep(d)
			}
		})
	}
	first := round("fresh")
	siphash.VerifSetBeforeHash(nil)
	second := round("replay")
	w.r.Count("evaluations", int64(2*k))
	w.r.Count("burst_submissions", int64(2*k))
	nf, ns := 0, 0
	for i := 0; i < k; i++ {
		if first[i] {
			nf++
		}
		if second[i] {
			ns++
		}
	}
	w.r.Count("burst_first_accepted", int64(nf))
	w.r.Count("burst_first_cut_short", int64(k-nf))
	w.r.Count("control_burst_replay_not_accepted", int64(k-ns))
	w.trace = append(w.trace, fmt.Sprintf("%s-burst(k=%d)->%d accepted; replayed->%d accepted", label, k, nf, ns))
	if ns > 0 {
		w.c.Violation("replay-accepted/after-parallel-burst/"+label, fmt.Sprintf("%d of %d hellos were accepted a second time after a burst of %d parallel first presentations on a %s replay filter (real clock, same hour)", ns, k, k, label), map[string]any{"history": w.trace})
	}
	for _, h := range hs {
		h.seen = true
	}
}

func burstFamily(r *mon.Run, dir string) {
	r.Note("rule_real_clock", "real-clock bursts (not virtual time, several cores): 4..16 distinct fresh hellos released at once against a cold and then a warmed factory, each presented again afterwards; variants: free schedule / the first / a PRNG-chosen handshake of the burst delayed 1..4 ms between its clock sample and the filter's critical section (delay hook in the siphash dependency copy); sequential set model, only acceptances judged")
	nb := r.Pick(120, 1600)
	for i := 0; i < nb; i++ {
		i := i
		r.Case(fmt.Sprintf("burst/%04d", i), func(c *mon.Case) {
			w := newWorld(c, r, dir, r.Sub("burst", i))
			if w == nil {
				return
			}
			k := 4 + w.rng.IntN(13)
			hold, variant := -1, "free"
			switch i % 3 {
			case 1:
				hold, variant = 0, "hold-first"
			case 2:
				hold, variant = w.rng.IntN(k), "hold-any"
			}
			d := time.Duration(1+w.rng.IntN(4)) * time.Millisecond
			w.burst(k, "cold", hold, d)
			time.Sleep(time.Millisecond)
			hold2 := hold
			if hold2 > 0 {
				hold2 = w.rng.IntN(k)
			}
			w.burst(k, "warm", hold2, d)
			r.Count("burst_scenarios", 1)
			r.Count("burst_scenarios_"+variant, 1)
			r.Distinct("burst_shapes", fmt.Sprintf("%s/k%d", variant, k))
		})
	}
}
