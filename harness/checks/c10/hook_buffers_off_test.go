//go:build !verif_buffers

package c10

import "net"

// buffered without the buffer hooks: no connection can be inspected.
func buffered(tr string, conn net.Conn) (int, bool) { return 0, false }
