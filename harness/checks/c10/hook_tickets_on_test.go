//go:build verif_tickets

package c10

import (
	"net"

	"gitlab.com/yawning/obfs4.git/transports/scramblesuit"
)

// storeTicket puts a ticket into the client's store (hook VerifStoreTicket,
// build tags verif && verif_tickets).
func storeTicket(dir string, addr net.Addr, raw []byte) (err error, hooked bool) {
	return scramblesuit.VerifStoreTicket(dir, addr, raw), true
}
