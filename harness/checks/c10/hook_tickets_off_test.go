//go:build !verif_tickets

package c10

import "net"

// storeTicket without the ticket hook: the ticket-handshake flavour is skipped.
func storeTicket(dir string, addr net.Addr, raw []byte) (err error, hooked bool) { return nil, false }
