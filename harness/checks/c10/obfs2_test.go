package c10

// Structure-aware hostile obfs2 peer.  obfs2's key-establishment message has
// no authentication, but its header (MAGIC, PADLEN) is encrypted under a key
// derived from the SEED the same message carries, so blind garbage passes the
// magic test with probability 2^-32 and never reaches the code that acts on
// PADLEN.  Here the reference implementation builds a message with a correct
// magic and a chosen PADLEN and then streams padding.
//
// Oracle (the property: "hold [no] more than a small bounded amount of
// buffered data per connection; the call in progress returns an error
// instead"): the heap of the process, measured after a forced collection at a
// quiescent point while the connection is still open, has not grown by more
// than heapBound since the (equally measured) start of the case; and the
// handshake call has returned 200 virtual seconds later.  Nothing is assumed
// about how the endpoint deals with the announced length (reject at once, or
// read and discard): only holding on to it is judged.

import (
	"fmt"
	"io"
	"net"
	"runtime"
	"sync"
	"testing/synctest"
	"time"

	"verif/memwire"
	"verif/mon"
	"verif/o4"
	ref2 "verif/ref/obfs2"
)

// heapBound is far above anything a conforming endpoint plus this harness
// holds per connection (64 KiB wire window, a few buffers) and far below the
// announced lengths used.
const heapBound = 24 << 20

// tempTimeout is what a lower layer reports when *its* timer fires: a
// net.Error that calls itself a timeout and temporary.  The wire keeps
// reporting it, so code that retries such errors in a loop never gets out.
type tempTimeout struct{}

func (tempTimeout) Error() string   { return "lower layer: i/o timeout" }
func (tempTimeout) Timeout() bool   { return true }
func (tempTimeout) Temporary() bool { return true }

// failure is the error with which a connection that is cut "with an error"
// fails from the given stream offset on: the plain connection reset most of
// the time, otherwise one of the other values a net.Conn can report (the
// identity of the error must not matter for "the call in progress returns an
// error").
func failure(off int64) error {
	switch off % 8 {
	case 1:
		return &net.OpError{Op: "read", Net: "tcp", Err: tempTimeout{}}
	case 2:
		return io.ErrUnexpectedEOF
	case 3:
		return &net.OpError{Op: "read", Net: "tcp", Err: net.ErrClosed}
	case 5:
		return io.ErrClosedPipe
	case 6:
		return fmt.Errorf("lower layer: %w", io.EOF)
	}
	return nil // ECONNRESET
}

// cutWithError is SetCut(off, CutRST) with the error value chosen by failure.
func cutWithError(h *memwire.Half, off int64) {
	if e := failure(off); e != nil {
		h.SetCutErr(off, e)
		return
	}
	h.SetCut(off, memwire.CutRST)
}

func heapNow() int64 {
	runtime.GC()
	runtime.GC()
	var m runtime.MemStats
	runtime.ReadMemStats(&m)
	return int64(m.HeapAlloc)
}

func hostileObfs2(c *mon.Case, r *mon.Run, dir string, role string, padLen uint32, stream int, chunk int, seed uint64) {
	rng := mon.NewRand(seed)
	cf, cargs, sf, ok := endpoints(c, "obfs2", dir, rng, seed)
	if !ok {
		return
	}
	h0 := heapNow()
	cw, sw := memwire.Pair(memwire.Options{})
	var victim, peer *memwire.Conn
	from := ref2.Initiator
	if role == "server" {
		victim, peer = sw, cw
	} else {
		victim, peer = cw, sw
		from = ref2.Responder
	}
	switch chunk {
	case 1:
		peer.Out().SetPolicy(memwire.PRNG(seed, 5000))
	case 2:
		peer.Out().SetPolicy(memwire.Fixed(24)) // seed+header alone first
	}
	peer.Out().SetWindow(1 << 16)
	var mu sync.Mutex
	returned := false
	var verr error
	var vconn net.Conn
	var wg sync.WaitGroup
	wg.Add(2)
	c.Go(wg.Done, func() {
		var conn net.Conn
		var err error
		if role == "server" {
			conn, err = sf.WrapConn(victim)
		} else {
			conn, err = cf.Dial("tcp", "192.0.2.2:443", func(string, string) (net.Conn, error) { return victim, nil }, cargs)
		}
		mu.Lock()
		returned, verr, vconn = true, err, conn
		mu.Unlock()
		if err != nil {
			victim.Close()
			return
		}
		buf := make([]byte, 4096)
		for {
			if _, err := conn.Read(buf); err != nil {
				conn.Close()
				return
			}
		}
	})
	c.Go(wg.Done, func() {
		go func() {
			b := make([]byte, 8192)
			for {
				if _, err := peer.Read(b); err != nil {
					return
				}
			}
		}()
		// header with the chosen PADLEN, then `stream` bytes of "padding"
		hd := ref2.NewHello(o4.RandReader{R: rng}, 0)
		hd.PadLen = padLen
		if _, err := peer.Write(hd.Bytes(from)); err != nil {
			return
		}
		blk := make([]byte, 4096)
		for sent := 0; sent < stream; sent += len(blk) {
			if _, err := peer.Write(blk); err != nil {
				return
			}
		}
	})
	synctest.Wait() // nothing moves any more, no (virtual) time has passed: the connection is as loaded as it gets
	h1 := heapNow()
	consumed := peer.Out().Delivered()
	time.Sleep(200 * time.Second)
	synctest.Wait()
	mu.Lock()
	ret, e, vc := returned, verr, vconn
	mu.Unlock()
	_ = vc
	r.Count("evaluations", 1)
	r.Count("hostile_obfs2_cases", 1)
	r.Max("obfs2_heap_growth_during_hostile_handshake", h1-h0)
	wit := map[string]any{"role": role, "announced_padlen": padLen, "streamed": stream, "chunk": chunk, "seed": fmt.Sprintf("%x", seed), "heap_growth": h1 - h0, "consumed_by_victim": consumed, "err": fmt.Sprint(e)}
	cls := "oversized"
	if padLen <= ref2.MaxPadding {
		cls = "conforming"
	}
	if h1-h0 > heapBound {
		c.Violation("bloat/obfs2/"+role+"/announced-padding-length/"+cls, fmt.Sprintf("the heap grew by %d bytes while one obfs2 %s was handling a handshake announcing PADLEN=%d (%d bytes of padding streamed, %d consumed)", h1-h0, role, padLen, stream, consumed), wit)
	}
	if !ret {
		c.Violation("wedged/obfs2/"+role+"-handshake/announced-padding-length", fmt.Sprintf("obfs2 %s has not returned 200 virtual seconds after a handshake announcing PADLEN=%d", role, padLen), wit)
	} else if e != nil {
		r.Count("hostile_obfs2_rejected", 1)
	} else {
		r.Count("hostile_obfs2_completed", 1)
	}
	r.Distinct("nontrivial", fmt.Sprintf("hostile-obfs2/%s/%d/%d/%d", role, padLen, stream, chunk))
	cw.Close()
	sw.Close()
	wg.Wait()
}
