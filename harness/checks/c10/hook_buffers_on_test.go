//go:build verif_buffers

package c10

import (
	"net"

	"gitlab.com/yawning/obfs4.git/transports/obfs3"
	"gitlab.com/yawning/obfs4.git/transports/obfs4"
	"gitlab.com/yawning/obfs4.git/transports/scramblesuit"
)

// buffered reports what a connection currently holds (hooks VerifBuffered,
// build tags verif && verif_buffers).
func buffered(tr string, conn net.Conn) (int, bool) {
	switch tr {
	case "obfs4":
		u, d, ok := obfs4.VerifBuffered(conn)
		return u + d, ok
	case "obfs3":
		return obfs3.VerifBuffered(conn)
	case "scramblesuit":
		u, d, ok := scramblesuit.VerifBuffered(conn)
		return u + d, ok
	}
	return 0, false
}
