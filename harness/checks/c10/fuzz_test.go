package c10

// Coverage-guided workload generation (thorough tier of C10): `go test -fuzz`
// is used only as a generator of hostile inputs; the deciding step is still a
// runtime oracle in each target (no panic, call returns, silence, or exact
// agreement with a reference interpretation of what a key-holding peer sent).
// bin/check runs every target for a fixed number of executions and turns a
// failing input into a violation whose replay is the corpus file.

import (
	"bufio"
	"bytes"
	"encoding/binary"
	"io"
	"net"
	"net/http"
	"os"
	"sync"
	"testing"
	"testing/synctest"
	"time"

	pt "gitlab.torproject.org/tpo/anti-censorship/pluggable-transports/goptlib"

	"gitlab.com/yawning/obfs4.git/common/socks5"
	"gitlab.com/yawning/obfs4.git/transports"
	"gitlab.com/yawning/obfs4.git/transports/base"
	"gitlab.com/yawning/obfs4.git/transports/obfs4/framing"

	"verif/memwire"
	"verif/mon"
	"verif/o4"
	ref "verif/ref/obfs4"
	"verif/ref/ss"
)

var (
	fuzzDirOnce sync.Once
	fuzzDir     string
)

func fdir() string {
	fuzzDirOnce.Do(func() {
		d, err := os.MkdirTemp(os.Getenv("VERIF_WORK"), "fuzzstate-")
		if err != nil {
			panic(err)
		}
		fuzzDir = d
	})
	return fuzzDir
}

// FuzzFramingDecoder: unauthenticated bytes through the exported decoder in
// arbitrary chunks: no panic, and never a successfully decoded frame.
func FuzzFramingDecoder(f *testing.F) {
	f.Add([]byte{}, uint8(1))
	f.Add(bytes.Repeat([]byte{0xa5}, 3000), uint8(7))
	var key [framing.KeyLength]byte
	enc := framing.NewEncoder(key[:])
	var fr [framing.MaximumSegmentLength]byte
	n, _ := enc.Encode(fr[:], []byte("valid frame under the all-zero key"))
	f.Add(append([]byte{}, fr[:n]...), uint8(3)) // a frame that DOES authenticate: the oracle must know
	f.Fuzz(func(t *testing.T, data []byte, chunk uint8) {
		var key [framing.KeyLength]byte
		dec := framing.NewDecoder(key[:])
		// reference decoder with the same key tells which prefixes really authenticate
		rdec := ref.NewDecoder(key[:])
		var buf bytes.Buffer
		step := int(chunk)%97 + 1
		var out [framing.MaximumFramePayloadLength]byte
		good := 0
		for off := 0; off < len(data); off += step {
			end := off + step
			if end > len(data) {
				end = len(data)
			}
			buf.Write(data[off:end])
			for {
				n, err := dec.Decode(out[:], &buf)
				if err == framing.ErrAgain {
					break
				}
				if err != nil {
					return // rejected: fine
				}
				good++
				_ = n
			}
		}
		if good > 0 {
			// every accepted frame must also be accepted by the reference (i.e. it
			// really carried a valid tag under the key)
			pk, err := rdec.Feed(data)
			authenticated := len(pk)
			if ef, ok := err.(*ref.ErrFrame); ok && ef.Why != "tag mismatch" && !bytes.Contains([]byte(ef.Why), []byte("out of range")) {
				authenticated++ // the frame did authenticate; only its content is not a packet
			}
			if good > authenticated {
				t.Fatalf("decoder accepted %d frames, the reference authenticates only %d (%v)", good, authenticated, err)
			}
		}
	})
}

// packetsFromRecords cuts fuzz data into records [len16][bytes]: each is the
// plaintext of one frame a key-holding obfs4 peer sends.
func packetsFromRecords(data []byte) [][]byte {
	var out [][]byte
	for len(data) >= 2 && len(out) < 40 {
		l := int(binary.BigEndian.Uint16(data)) % (ref.MaxFramePayload + 1)
		data = data[2:]
		if l > len(data) {
			l = len(data)
		}
		out = append(out, data[:l])
		data = data[l:]
	}
	return out
}

// FuzzObfs4PacketsFromKeyHolder: arbitrary authenticated packets from a peer
// that completed the handshake; the real endpoint must deliver exactly what
// the reference interpretation of those packets yields and report an error at
// the first malformed one.
func FuzzObfs4PacketsFromKeyHolder(f *testing.F) {
	mk := func(pkts ...[]byte) []byte {
		var b []byte
		for _, p := range pkts {
			b = binary.BigEndian.AppendUint16(b, uint16(len(p)))
			b = append(b, p...)
		}
		return b
	}
	f.Add(mk(ref.Packet(0, []byte("hello"), 3), ref.Packet(0, []byte("world"), 0)), true)
	f.Add(mk(ref.Packet(1, make([]byte, 24), 0), ref.Packet(7, []byte("x"), 2), ref.Packet(0, []byte("y"), 0)), false)
	f.Add(mk([]byte{0, 0xff, 0xff, 1, 2, 3}), true)
	f.Add(mk([]byte{0}, ref.Packet(0, []byte("never"), 0)), false)
	f.Fuzz(func(t *testing.T, data []byte, victimServer bool) {
		pkts := packetsFromRecords(data)
		// reference interpretation
		var want []byte
		bad := false
		for _, p := range pkts {
			if len(p) < 3 {
				bad = true
				break
			}
			l := int(binary.BigEndian.Uint16(p[1:3]))
			if l > len(p)-3 {
				bad = true
				break
			}
			if p[0] == ref.PacketPayload {
				want = append(want, p[3:3+l]...)
			}
		}
		synctest.Test(t, func(t *testing.T) {
			rng := mon.NewRand(1)
			b := o4.NewBridge(rng, 0)
			cw, sw := memwire.Pair(memwire.Options{})
			var vconn net.Conn
			var rc *o4.RefConn
			var verr, rerr error
			done := make(chan struct{})
			if victimServer {
				sf, err := o4.ServerFactory(fdir(), b)
				if err != nil {
					t.Fatal(err)
				}
				go func() { vconn, verr = sf.WrapConn(sw); close(done) }()
				rc, _, _, rerr = o4.RefDial(cw, b.Ref, rng, 100, o4.Hours(0))
			} else {
				go func() { rc, _, _, rerr = o4.RefAccept(sw, b, rng, 10); close(done) }()
				vconn, verr = o4.DialReal(cw, b.ClientArgsCert())
			}
			<-done
			if verr != nil || rerr != nil {
				t.Fatalf("setup: %v / %v", verr, rerr)
			}
			var got []byte
			var rdErr error
			rd := make(chan struct{})
			go func() {
				defer close(rd)
				buf := make([]byte, 1000)
				for {
					n, err := vconn.Read(buf)
					got = append(got, buf[:n]...)
					if err != nil {
						rdErr = err
						return
					}
				}
			}()
			var wire []byte
			for _, p := range pkts {
				wire = append(wire, rc.Enc.Frame(p)...)
			}
			rc.Conn.Write(wire)
			synctest.Wait()
			ended := false
			select {
			case <-rd:
				ended = true
			default:
			}
			cw.Close()
			sw.Close()
			<-rd
			if !bytes.Equal(got, want) && !(bad && bytes.HasPrefix(want, got)) {
				t.Fatalf("delivered %d bytes, the reference interpretation of the packets gives %d (bad=%v)", len(got), len(want), bad)
			}
			if bad && !ended {
				t.Fatalf("a malformed packet was sent but Read reported no error (delivered %d)", len(got))
			}
			if !bad && ended {
				t.Fatalf("well-formed packets only, but Read failed: %v", rdErr)
			}
		})
	})
}

// FuzzObfs4ServerFirstBytes: unauthenticated bytes to a real server: silent,
// returns, closes.
func FuzzObfs4ServerFirstBytes(f *testing.F) {
	f.Add([]byte{}, uint8(0))
	f.Add(bytes.Repeat([]byte{1}, 8192), uint8(1))
	f.Add(bytes.Repeat([]byte{0}, 141), uint8(64))
	f.Fuzz(func(t *testing.T, data []byte, chunk uint8) {
		synctest.Test(t, func(t *testing.T) {
			b := o4.NewBridge(mon.NewRand(2), 0)
			sf, err := o4.ServerFactory(fdir(), b)
			if err != nil {
				t.Fatal(err)
			}
			cw, sw := memwire.Pair(memwire.Options{})
			if chunk > 0 {
				cw.Out().SetPolicy(memwire.Fixed(int(chunk)))
			}
			var werr error
			returned := false
			done := make(chan struct{})
			go func() { _, werr = sf.WrapConn(sw); returned = true; close(done) }()
			cw.Write(data)
			time.Sleep(200 * time.Second)
			synctest.Wait()
			if !returned {
				t.Fatalf("WrapConn has not returned after 200 s")
			}
			if werr == nil {
				t.Fatalf("server accepted %d unauthenticated bytes", len(data))
			}
			if n := sw.Out().Written(); n != 0 {
				t.Fatalf("server wrote %d bytes to an unauthenticated peer", n)
			}
			if cl, _ := sw.Closed(); !cl {
				t.Fatalf("connection not closed")
			}
			cw.Close()
			<-done
		})
	})
}

// FuzzHandshakeBytes: arbitrary first bytes to the other transports' endpoints
// (then EOF): no panic, the call returns.
func FuzzHandshakeBytes(f *testing.F) {
	f.Add([]byte{}, uint8(0))
	f.Add(bytes.Repeat([]byte{0x41}, 300), uint8(1))
	f.Add(bytes.Repeat([]byte{0xff}, 9000), uint8(2))
	f.Add(bytes.Repeat([]byte{0x00}, 9000), uint8(3))
	f.Add(bytes.Repeat([]byte{0x7e}, 2000), uint8(4))
	f.Fuzz(func(t *testing.T, data []byte, which uint8) {
		synctest.Test(t, func(t *testing.T) {
			cw, sw := memwire.Pair(memwire.Options{})
			returned := false
			done := make(chan struct{})
			run := func(fn func() (net.Conn, error)) {
				go func() {
					defer close(done)
					c, err := fn()
					returned = true
					if err == nil && c != nil {
						buf := make([]byte, 512)
						for {
							if _, err := c.Read(buf); err != nil {
								break
							}
						}
					}
					sw.Close()
				}()
			}
			dialVia := func(name string, args *pt.Args) func() (net.Conn, error) {
				return func() (net.Conn, error) {
					cf, err := transports.Get(name).ClientFactory(fdir())
					if err != nil {
						return nil, err
					}
					pa, err := cf.ParseArgs(args)
					if err != nil {
						return nil, err
					}
					return cf.Dial("tcp", "192.0.2.2:443", func(string, string) (net.Conn, error) { return sw, nil }, pa)
				}
			}
			wrapVia := func(name string) func() (net.Conn, error) {
				return func() (net.Conn, error) {
					var sf base.ServerFactory
					sf, err := transports.Get(name).ServerFactory(fdir(), &pt.Args{})
					if err != nil {
						return nil, err
					}
					return sf.WrapConn(sw)
				}
			}
			switch which % 6 {
			case 0:
				run(wrapVia("obfs2"))
			case 1:
				run(dialVia("obfs2", &pt.Args{}))
			case 2:
				run(wrapVia("obfs3"))
			case 3:
				run(dialVia("obfs3", &pt.Args{}))
			case 4:
				a := pt.Args{}
				a.Add("password", "MFRGGZDFMZTWQ2LKNNWG23TPOBYXE43U") // 20 bytes
				run(dialVia("scramblesuit", &a))
			case 5:
				b := o4.NewBridge(mon.NewRand(3), 0)
				run(dialVia("obfs4", b.ClientArgsCert()))
			}
			go func() {
				buf := make([]byte, 8192)
				for {
					if _, err := cw.Read(buf); err != nil {
						return
					}
				}
			}()
			cw.Write(data)
			cw.Out().CloseWrite()
			time.Sleep(200 * time.Second)
			synctest.Wait()
			if !returned {
				t.Fatalf("endpoint %d: handshake call has not returned 200 s after %d bytes and EOF", which%6, len(data))
			}
			cw.Close()
			sw.Close()
			<-done
		})
	})
}

// FuzzSocks5: arbitrary client bytes (then EOF) to the SOCKS5 front end.
func FuzzSocks5(f *testing.F) {
	f.Add([]byte{5, 1, 0, 5, 1, 0, 1, 127, 0, 0, 1, 0, 80})
	f.Add([]byte{5, 1, 2, 1, 3, 'a', '=', 'b', 1, 0, 5, 1, 0, 3, 3, 'f', 'o', 'o', 1, 187})
	f.Add([]byte{5, 255})
	f.Fuzz(func(t *testing.T, data []byte) {
		synctest.Test(t, func(t *testing.T) {
			cw, sw := memwire.Pair(memwire.Options{})
			returned := false
			done := make(chan struct{})
			go func() {
				defer close(done)
				req, err := socks5.Handshake(sw)
				if err == nil {
					if req.Target == "" {
						t.Errorf("success with an empty target")
					}
					_ = req.Reply(socks5.ReplySucceeded)
				}
				returned = true
				sw.Close()
			}()
			go io.Copy(io.Discard, cw)
			cw.Write(data)
			cw.Out().CloseWrite()
			time.Sleep(60 * time.Second)
			synctest.Wait()
			if !returned {
				t.Fatalf("Handshake has not returned 60 s after %d bytes and EOF", len(data))
			}
			cw.Close()
			<-done
		})
	})
}

// FuzzSSPacketsFromKeyHolder: arbitrary authenticated ScrambleSuit packets from
// the (reference) server after a genuine handshake.
func FuzzSSPacketsFromKeyHolder(f *testing.F) {
	rec := func(total, plen uint16, flags byte) []byte {
		b := binary.BigEndian.AppendUint16(nil, total)
		b = binary.BigEndian.AppendUint16(b, plen)
		return append(b, flags)
	}
	f.Add(append(rec(10, 5, 1), rec(0, 0, 1)...))
	f.Add(append(rec(144, 144, 2), rec(32, 32, 4)...))
	f.Add(rec(2000, 1, 1))
	f.Add(rec(5, 9, 1))
	f.Add(rec(7, 7, 9))
	f.Fuzz(func(t *testing.T, data []byte) {
		type pk struct {
			total, plen uint16
			flags       byte
		}
		var pks []pk
		for len(data) >= 5 && len(pks) < 30 {
			pks = append(pks, pk{binary.BigEndian.Uint16(data), binary.BigEndian.Uint16(data[2:]), data[4]})
			data = data[5:]
		}
		st := mon.Stream{Key: 77}
		var want []byte
		bad := false
		var off int64
		type built struct {
			p    pk
			body []byte
		}
		var bs []built
		for _, p := range pks {
			if int(p.total) > ss.MaxBody || p.plen > p.total {
				bad = true
				bs = append(bs, built{p, make([]byte, 10)})
				break
			}
			body := st.Bytes(off, int(p.total))
			off += int64(p.total)
			bs = append(bs, built{p, body})
			switch p.flags {
			case 1:
				want = append(want, body[:p.plen]...)
			case 2:
				if p.plen != 144 {
					bad = true
				}
			case 4:
				if p.plen != 32 {
					bad = true
				}
			default:
				bad = true
			}
			if bad {
				break
			}
		}
		synctest.Test(t, func(t *testing.T) {
			rng := mon.NewRand(5)
			var kB [ss.SharedSecretLn]byte
			io.ReadFull(o4.RandReader{R: rng}, kB[:])
			srv := ss.NewServer(kB, o4.RandReader{R: rng})
			cw, sw := memwire.Pair(memwire.Options{})
			var sess *ss.Session
			sdone := make(chan struct{})
			go func() {
				defer close(sdone)
				h, err := srv.ReadHello(sw)
				if err != nil {
					return
				}
				var resp []byte
				resp, sess = srv.Respond(h, 50, nil)
				sw.Write(resp)
			}()
			// (a fresh state directory: a NewTicket packet of one execution must not
			// make the next one open with a ticket handshake)
			sdir, _ := os.MkdirTemp(fdir(), "ss-")
			defer os.RemoveAll(sdir)
			conn, err := ssDial(cw, sdir, kB)
			<-sdone
			if err != nil || sess == nil {
				t.Fatalf("setup: %v", err)
			}
			var got []byte
			ended := false
			rd := make(chan struct{})
			go func() {
				defer close(rd)
				buf := make([]byte, 700)
				for {
					n, err := conn.Read(buf)
					got = append(got, buf[:n]...)
					if err != nil {
						ended = true
						return
					}
				}
			}()
			var wire []byte
			for _, b := range bs {
				wire = append(wire, sess.Enc.RawPacket(b.p.total, b.p.plen, b.p.flags, b.body)...)
			}
			sw.Write(wire)
			time.Sleep(time.Second)
			if !bad {
				sw.Write(sess.Enc.Packet(1, nil, 20)) // one padding-only packet (see C15)
			} else {
				sw.Write(bytes.Repeat([]byte{0x55}, 3000))
			}
			synctest.Wait()
			isEnded := ended
			cw.Close()
			sw.Close()
			<-rd
			if !bytes.Equal(got, want) && !(bad && bytes.HasPrefix(want, got)) {
				t.Fatalf("delivered %d bytes, reference interpretation gives %d (bad=%v)", len(got), len(want), bad)
			}
			if bad && !isEnded {
				t.Fatalf("a malformed packet was sent but Read reported no error")
			}
			if !bad && isEnded {
				t.Fatalf("well-formed packets only, but Read failed")
			}
		})
	})
}

// FuzzMeekResponse: arbitrary bytes as what the HTTP front sends in answer to
// each of the client's first requests (the connection is closed behind them;
// later requests get an empty 200).  No panic; data handed to the application
// only comes from bodies of answers with status 200; after Close everything
// ends (a goroutine left behind is a deadlock of the bubble and fails the run).
func FuzzMeekResponse(f *testing.F) {
	f.Add([]byte("HTTP/1.1 200 OK\r\nContent-Length: 5\r\n\r\nhello"), uint8(1))
	f.Add([]byte("HTTP/1.1 200 OK\r\nTransfer-Encoding: chunked\r\n\r\n5\r\nhello\r\n0\r\n\r\n"), uint8(2))
	f.Add([]byte("HTTP/1.1 404 Not Found\r\nContent-Length: 0\r\n\r\n"), uint8(3))
	f.Add([]byte("HTTP/1.0 200 OK\r\n\r\nbody until close"), uint8(1))
	f.Add([]byte("HTTP/1.1 200 OK\r\nContent-Length: 99999999999999999999\r\n\r\nx"), uint8(1))
	f.Add([]byte("HTTP/1.1 100 Continue\r\n\r\nHTTP/1.1 200 OK\r\nContent-Length: 1\r\n\r\nx"), uint8(2))
	f.Add(bytes.Repeat([]byte{0xff, 0x00, '\r', '\n'}, 500), uint8(3))
	f.Fuzz(func(t *testing.T, data []byte, times uint8) {
		synctest.Test(t, func(t *testing.T) {
			cf, err := transports.Get("meek_lite").ClientFactory("")
			if err != nil {
				t.Fatal(err)
			}
			args := pt.Args{}
			args.Add("url", "http://meek.example/")
			pa, err := cf.ParseArgs(&args)
			if err != nil {
				t.Fatal(err)
			}
			var mu sync.Mutex
			var wires []*memwire.Conn
			requests := 0
			dialFn := func(string, string) (net.Conn, error) {
				a, b := memwire.Pair(memwire.Options{})
				mu.Lock()
				wires = append(wires, a, b)
				mu.Unlock()
				go func() {
					br := bufio.NewReader(b)
					for {
						req, err := http.ReadRequest(br)
						if err != nil {
							return
						}
						io.Copy(io.Discard, req.Body)
						mu.Lock()
						requests++
						n := requests
						mu.Unlock()
						if n <= 1+int(times%3) {
							b.Write(data)
							b.Close()
							return
						}
						b.Write([]byte("HTTP/1.1 200 OK\r\nContent-Length: 0\r\n\r\n"))
					}
				}()
				return a, nil
			}
			conn, err := cf.Dial("tcp", "192.0.2.9:80", dialFn, pa)
			if err != nil {
				return
			}
			var got int64
			rd := make(chan struct{})
			go func() {
				defer close(rd)
				buf := make([]byte, 32768)
				for {
					n, err := conn.Read(buf)
					got += int64(n)
					if err != nil {
						return
					}
				}
			}()
			conn.Write([]byte("hello meek"))
			time.Sleep(20 * time.Minute)
			synctest.Wait()
			conn.Close()
			<-rd
			// at most the bodies of the scripted answers can have been delivered
			if max := int64(len(data)) * int64(1+times%3); got > max {
				t.Fatalf("%d bytes delivered to the application, the front sent %d bytes in all", got, max)
			}
			mu.Lock()
			ws := append([]*memwire.Conn(nil), wires...)
			mu.Unlock()
			for _, w := range ws {
				w.Close()
			}
		})
	})
}
