// C10 — no peer input or network fault can crash, wedge or bloat an endpoint.
//
// Real endpoints of every transport are run over memwire in virtual time
// against (a) a real peer behind a fault-injecting wire (cut with EOF / reset /
// silence at chosen byte offsets, single-bit mutations), (b) scripted peers
// sending garbage of lengths around every limit and endless streams, and (c)
// for obfs4, a key-holding hostile peer (reference implementation) that sends
// authenticated but malformed packets.  Oracle: no panic anywhere; after the
// fault and after all handshake deadlines have passed in virtual time the
// system is quiescent with every call in progress returned (decided by state);
// per-connection buffers stay small (hooks VerifBuffered); the deadline ledger
// kept by memwire shows a deadline armed before the first handshake read and
// removed before a successful return; an established idle connection survives
// 10 virtual minutes.
package c10

import (
	"encoding/binary"
	"fmt"
	"net"
	"strings"
	"sync"
	"testing"
	"testing/synctest"
	"time"

	pt "gitlab.torproject.org/tpo/anti-censorship/pluggable-transports/goptlib"

	"gitlab.com/yawning/obfs4.git/transports"
	"gitlab.com/yawning/obfs4.git/transports/base"

	"verif/memwire"
	"verif/mon"
	"verif/o4"
	ref "verif/ref/obfs4"
)

const bufferBound = 64 << 10

// endpoints builds the two factories of a transport.
func endpoints(c *mon.Case, tr string, dir string, rng interface{ IntN(int) int }, seed uint64) (cf base.ClientFactory, cargs any, sf base.ServerFactory, ok bool) {
	t := transports.Get(tr)
	var err error
	sargs := &pt.Args{}
	cl := &pt.Args{}
	if tr == "obfs4" {
		b := o4.NewBridge(mon.NewRand(seed), rng.IntN(3))
		sargs = b.ServerArgs()
		cl = b.ClientArgsCert()
	}
	if sf, err = t.ServerFactory(dir, sargs); err != nil {
		c.Violation("setup/server-factory/"+tr, err.Error(), nil)
		return
	}
	if cf, err = t.ClientFactory(dir); err != nil {
		c.Violation("setup/client-factory/"+tr, err.Error(), nil)
		return
	}
	if cargs, err = cf.ParseArgs(cl); err != nil {
		c.Violation("setup/parse-args/"+tr, err.Error(), nil)
		return
	}
	return cf, cargs, sf, true
}

type endState struct {
	name      string
	returned  bool
	err       error
	conn      net.Conn
	retTick   int64
	appEnded  bool
	appErr    error
	appGot    int64
	writeDone bool
}

type fault struct {
	kind string // "eof" "rst" "silence" "flip" "none"
	dir  int    // 0: client->server bytes, 1: server->client bytes
	off  int64
}

func (f fault) String() string { return fmt.Sprintf("%s/dir%d/off%d", f.kind, f.dir, f.off) }

// pairCase runs real client <-> real server of transport tr with one fault.
func pairCase(c *mon.Case, r *mon.Run, tr string, dir string, f fault, seed uint64) {
	rng := mon.NewRand(seed)
	cf, cargs, sf, ok := endpoints(c, tr, dir, rng, seed)
	if !ok {
		return
	}
	cw, sw := memwire.Pair(memwire.Options{})
	half := []*memwire.Half{cw.Out(), sw.Out()}[f.dir]
	switch f.kind {
	case "eof":
		half.SetCut(f.off, memwire.CutEOF)
	case "rst":
		cutWithError(half, f.off)
		if seed%3 == 1 {
			// the reset kills the connection as a whole: the end that saw it
			// cannot write either
			[]*memwire.Conn{sw, cw}[f.dir].SetResetFailsWrites(true)
			r.Count("resets_that_also_fail_writes", 1)
		}
	case "silence":
		half.SetCut(f.off, memwire.CutSilence)
	case "flip":
		half.SetRewrite(func(off int64, p []byte) []byte {
			if f.off >= off && f.off < off+int64(len(p)) {
				p[f.off-off] ^= 1 << uint(seed%8)
			}
			return p
		})
	}
	var mu sync.Mutex
	cl, sv := &endState{name: "client"}, &endState{name: "server"}
	var wg sync.WaitGroup
	app := func(e *endState) {
		// an application as the relay: write a little, read until error, then close
		wg.Add(1)
		c.Go(wg.Done, func() {
			e.conn.Write(make([]byte, 300))
			mu.Lock()
			e.writeDone = true
			mu.Unlock()
		})
		buf := make([]byte, 4096)
		for {
			n, err := e.conn.Read(buf)
			mu.Lock()
			e.appGot += int64(n)
			if err != nil {
				e.appEnded, e.appErr = true, err
			}
			mu.Unlock()
			if err != nil {
				e.conn.Close()
				return
			}
		}
	}
	wg.Add(2)
	c.Go(wg.Done, func() {
		conn, err := sf.WrapConn(sw)
		mu.Lock()
		sv.returned, sv.err, sv.conn, sv.retTick = true, err, conn, memwire.Tick()
		mu.Unlock()
		if err == nil {
			app(sv)
		} else {
			sw.Close() // what the proxy does with a failed connection
		}
	})
	c.Go(wg.Done, func() {
		conn, err := cf.Dial("tcp", "192.0.2.2:443", func(string, string) (net.Conn, error) { return cw, nil }, cargs)
		mu.Lock()
		cl.returned, cl.err, cl.conn, cl.retTick = true, err, conn, memwire.Tick()
		mu.Unlock()
		if err == nil {
			app(cl)
		}
	})
	// let every handshake deadline and the obfs4 close delay pass
	time.Sleep(200 * time.Second)
	synctest.Wait()
	mu.Lock()
	cs, ss := *cl, *sv
	mu.Unlock()
	r.Count("evaluations", 1)
	r.Count("pair_cases_"+tr, 1)
	r.Count("fault_"+f.kind, 1)
	wit := map[string]any{"transport": tr, "fault": f.String(), "seed": fmt.Sprintf("%x", seed), "client_err": fmt.Sprint(cs.err), "server_err": fmt.Sprint(ss.err)}
	cutHit := f.kind != "none" && f.kind != "flip" && half.Delivered() >= f.off && half.Written() > f.off
	for _, e := range []endState{cs, ss} {
		if !e.returned {
			call := map[string]string{"client": "Dial", "server": "WrapConn"}[e.name]
			c.Violation(fmt.Sprintf("wedged/%s/%s-%s/%s", tr, e.name, call, f.kind), fmt.Sprintf("%s %s has not returned 200 virtual seconds after the connection started (fault %s): no deadline ended it", tr, call, f), wit)
		}
	}
	established := cs.returned && ss.returned && cs.err == nil && ss.err == nil
	if established {
		r.Count("established_"+tr, 1)
		// deadline ledger
		for _, w := range []struct {
			name string
			conn *memwire.Conn
			ret  int64
		}{{"client", cw, cs.retTick}, {"server", sw, ss.retTick}} {
			dl := w.conn.DeadlineLog()
			_, reads, _ := w.conn.In().Snapshot()
			armed := false
			rdSet, wrSet := false, false // a finite read / write deadline is in force
			for _, d := range dl {
				if !d.Zero && d.In > 0 && (len(reads) == 0 || d.Tick < reads[0].Tick) {
					armed = true
					r.Distinct("deadline_durations", fmt.Sprintf("%s/%s/%v", tr, w.name, d.In))
				}
				if d.Tick < w.ret {
					if d.Kind == "rw" || d.Kind == "r" {
						rdSet = !d.Zero
					}
					if d.Kind == "rw" || d.Kind == "w" {
						wrSet = !d.Zero
					}
				}
			}
			// removed = neither a read nor a write deadline is left in force when the call returns
			cleared := armed && !rdSet && !wrSet
			if !armed {
				c.Violation(fmt.Sprintf("deadline/not-armed-before-first-read/%s/%s", tr, w.name), "no finite deadline was in force before the first handshake read", wit)
			}
			if !cleared {
				c.Violation(fmt.Sprintf("deadline/not-removed-on-success/%s/%s", tr, w.name), "the handshake deadline was not removed (zero deadline) before the successful return", wit)
			}
			if armed && cleared {
				r.Count("deadline_ledger_ok", 1)
			}
		}
		for _, e := range []endState{cs, ss} {
			if n, ok := buffered(tr, e.conn); ok {
				r.Max("max_buffered_"+tr, int64(n))
				if n > bufferBound {
					c.Violation("bloat/"+tr+"/"+e.name, fmt.Sprintf("%d bytes buffered on an established connection", n), wit)
				}
			}
		}
		switch {
		case (f.kind == "eof" || f.kind == "rst") && cutHit:
			for _, e := range []endState{cs, ss} {
				if !e.appEnded {
					c.Violation(fmt.Sprintf("wedged/%s/%s-Read/%s-after-handshake", tr, e.name, f.kind), fmt.Sprintf("the wire was cut (%s) in the data phase but %s Read has not returned an error at quiescence", f, e.name), wit)
				}
			}
			r.Count("data_phase_cut_reported", 1)
		case f.kind == "silence" || f.kind == "none":
			// idle but healthy: must survive 10 more virtual minutes
			time.Sleep(10 * time.Minute)
			synctest.Wait()
			mu.Lock()
			cs, ss = *cl, *sv
			mu.Unlock()
			for _, e := range []endState{cs, ss} {
				if e.appEnded {
					c.Violation(fmt.Sprintf("stale-timer/%s/%s", tr, e.name), fmt.Sprintf("an established idle connection failed after the handshake: %v", e.appErr), wit)
				}
			}
			if !cs.appEnded && !ss.appEnded {
				r.Count("established_idle_survived_10min", 1)
				// and it still carries data both ways afterwards (a wire that
				// went silent cannot, of course: there only Write is judged)
				for _, pr := range [][2]*endState{{cl, sv}, {sv, cl}} {
					from, to := pr[0], pr[1]
					mu.Lock()
					before := to.appGot
					conn := from.conn
					mu.Unlock()
					if _, err := conn.Write(make([]byte, 500)); err != nil {
						c.Violation(fmt.Sprintf("stale-timer/%s/%s/write-after-idle", tr, from.name), fmt.Sprintf("Write on an established connection that had been idle for 10 virtual minutes failed: %v", err), wit)
						continue
					}
					synctest.Wait()
					mu.Lock()
					got := to.appGot - before
					mu.Unlock()
					if f.kind == "silence" {
						r.Count("established_write_after_idle_ok", 1)
					} else if got != 500 {
						c.Violation(fmt.Sprintf("stale-timer/%s/%s/data-after-idle", tr, from.name), fmt.Sprintf("500 bytes written after 10 idle minutes, %d delivered", got), wit)
					} else {
						r.Count("established_carries_data_after_idle", 1)
					}
				}
			}
		}
	} else if cs.returned && ss.returned {
		r.Count("handshake_failed_cleanly_"+tr, 1)
		if cs.err != nil {
			r.Distinct("error_kinds", tr+"/client/"+errKind(cs.err))
		}
		if ss.err != nil {
			r.Distinct("error_kinds", tr+"/server/"+errKind(ss.err))
		}
	}
	r.Distinct("nontrivial", fmt.Sprintf("pair/%s/%s", tr, f))
	cw.Close()
	sw.Close()
	wg.Wait()
}

func errKind(err error) string {
	s := err.Error()
	if len(s) > 40 {
		s = s[:40]
	}
	out := []byte(s)
	for i, ch := range out {
		if ch >= '0' && ch <= '9' {
			out[i] = 'N'
		}
	}
	return string(out)
}

// garbageCase: a scripted peer sends n bytes (PRNG or patterned) to one real
// endpoint and then stays silent / closes; optionally endless.
func garbageCase(c *mon.Case, r *mon.Run, tr string, dir string, role string, n int, then string, chunk int, seed uint64) {
	rng := mon.NewRand(seed)
	cf, cargs, sf, ok := endpoints(c, tr, dir, rng, seed)
	if !ok {
		return
	}
	cw, sw := memwire.Pair(memwire.Options{})
	var victim, peer *memwire.Conn
	if role == "server" {
		victim, peer = sw, cw
	} else {
		victim, peer = cw, sw
	}
	switch chunk {
	case 1:
		peer.Out().SetPolicy(memwire.Fixed(1))
	case 2:
		peer.Out().SetPolicy(memwire.PRNG(seed, 5000))
	}
	peer.Out().SetWindow(1 << 16) // the peer experiences back-pressure like on a socket
	var mu sync.Mutex
	returned := false
	var verr error
	var vconn net.Conn
	var wg sync.WaitGroup
	wg.Add(2)
	c.Go(wg.Done, func() {
		var conn net.Conn
		var err error
		if role == "server" {
			conn, err = sf.WrapConn(victim)
		} else {
			conn, err = cf.Dial("tcp", "192.0.2.2:443", func(string, string) (net.Conn, error) { return victim, nil }, cargs)
		}
		mu.Lock()
		returned, verr, vconn = true, err, conn
		mu.Unlock()
		if err != nil {
			victim.Close()
			return
		}
		buf := make([]byte, 4096)
		for {
			if _, err := conn.Read(buf); err != nil {
				conn.Close()
				return
			}
		}
	})
	var sent int64
	c.Go(wg.Done, func() {
		// drain whatever the victim sends
		go func() {
			b := make([]byte, 8192)
			for {
				if _, err := peer.Read(b); err != nil {
					return
				}
			}
		}()
		blk := make([]byte, 4096)
		for sent < int64(n) {
			for i := range blk {
				blk[i] = byte(rng.IntN(256))
			}
			m := len(blk)
			if int64(m) > int64(n)-sent {
				m = int(int64(n) - sent)
			}
			if _, err := peer.Write(blk[:m]); err != nil {
				break
			}
			mu.Lock()
			sent += int64(m)
			mu.Unlock()
		}
		switch then {
		case "eof":
			peer.Close()
		case "silence":
		}
	})
	time.Sleep(200 * time.Second)
	synctest.Wait()
	mu.Lock()
	ret, e, vc := returned, verr, vconn
	mu.Unlock()
	r.Count("evaluations", 1)
	r.Count("garbage_cases_"+tr+"_"+role, 1)
	wit := map[string]any{"transport": tr, "role": role, "bytes": n, "then": then, "chunk": chunk, "seed": fmt.Sprintf("%x", seed), "err": fmt.Sprint(e)}
	if !ret {
		c.Violation(fmt.Sprintf("wedged/%s/%s-handshake/garbage-%s", tr, role, then), fmt.Sprintf("%s %s has not returned 200 virtual seconds after %d bytes of garbage (%s)", tr, role, n, then), wit)
	} else if e == nil {
		// obfs2/obfs3 have no authentication: garbage of sufficient length can
		// "complete" their key exchange; then the buffers must stay bounded
		r.Count("garbage_completed_handshake_"+tr, 1)
		if nb, ok := buffered(tr, vc); ok {
			r.Max("max_buffered_"+tr, int64(nb))
			if nb > bufferBound {
				c.Violation("bloat/"+tr+"/"+role+"/garbage", fmt.Sprintf("%d bytes buffered after %d bytes of garbage", nb, n), wit)
			}
		}
	} else {
		r.Count("garbage_rejected_"+tr, 1)
		r.Distinct("error_kinds", tr+"/"+role+"/"+errKind(e))
	}
	r.Distinct("nontrivial", fmt.Sprintf("garbage/%s/%s/%d/%s/%d", tr, role, n, then, chunk))
	cw.Close()
	sw.Close()
	wg.Wait()
}

// hostileObfs4 : the reference implementation completes a genuine handshake
// and then sends authenticated but malformed packets / never-ending units.
func hostileObfs4(c *mon.Case, r *mon.Run, dir string, victimRole string, attack string, seed uint64) {
	rng := mon.NewRand(seed)
	b := o4.NewBridge(rng, 0)
	cw, sw := memwire.Pair(memwire.Options{})
	var vconn net.Conn
	var rc *o4.RefConn
	var verr, rerr error
	if victimRole == "server" {
		sf, err := o4.ServerFactory(dir, b)
		if err != nil {
			c.Violation("setup/server-factory", err.Error(), nil)
			return
		}
		done := make(chan struct{})
		c.Go(func() { close(done) }, func() { vconn, verr = sf.WrapConn(sw) })
		rc, _, _, rerr = o4.RefDial(cw, b.Ref, rng, -1, o4.Hours(0))
		<-done
	} else {
		done := make(chan struct{})
		c.Go(func() { close(done) }, func() { rc, _, _, rerr = o4.RefAccept(sw, b, rng, -1) })
		vconn, verr = o4.DialReal(cw, b.ClientArgsCert())
		<-done
	}
	if verr != nil || rerr != nil {
		c.Violation("setup/handshake", fmt.Sprintf("%v / %v", verr, rerr), nil)
		cw.Close()
		sw.Close()
		return
	}
	st := mon.Stream{Key: seed}
	var mu sync.Mutex
	var got, mismatch int64 = 0, -1
	var rerr2 error
	ended := false
	rdDone := make(chan struct{})
	c.Go(func() { close(rdDone) }, func() {
		buf := make([]byte, 4096)
		for {
			n, err := vconn.Read(buf)
			mu.Lock()
			if n > 0 {
				if i := st.Check(buf[:n], got); i >= 0 && mismatch < 0 {
					mismatch = got + int64(i)
				}
				got += int64(n)
			}
			if err != nil {
				ended, rerr2 = true, err
			}
			mu.Unlock()
			if err != nil {
				return
			}
		}
	})
	// valid prefix
	pre := 500
	rc.WriteData(st.Bytes(0, pre), 0, 10)
	expectErr := true
	sentValid := int64(pre)
	raw := func(pkt []byte) { rc.Conn.Write(rc.Enc.Frame(pkt)) }
	switch attack {
	case "payload-length-beyond-packet":
		pkt := ref.Packet(ref.PacketPayload, st.Bytes(int64(pre), 40), 5)
		// (40 payload + 5 padding bytes follow the header: any length above 45 lies beyond the packet;
		// 41..45 would merely turn padding into payload, which is a well-formed packet)
		binary.BigEndian.PutUint16(pkt[1:], uint16(46+rng.IntN(1395)))
		raw(pkt)
	case "payload-length-65535":
		pkt := ref.Packet(ref.PacketPayload, st.Bytes(int64(pre), 40), 5)
		binary.BigEndian.PutUint16(pkt[1:], 65535)
		raw(pkt)
	case "packet-shorter-than-header":
		raw(make([]byte, rng.IntN(3)))
	case "unknown-packet-type":
		// must be ignored: no error, following data still delivered
		raw(ref.Packet(byte(2+rng.IntN(254)), []byte("ignored"), 9))
		rc.WriteData(st.Bytes(int64(pre), 200), 0, 0)
		sentValid += 200
		expectErr = false
	case "seed-packet-wrong-length":
		raw(ref.Packet(ref.PacketPrngSeed, make([]byte, rng.IntN(24)), 0))
		rc.WriteData(st.Bytes(int64(pre), 200), 0, 0)
		sentValid += 200
		expectErr = false
	case "seed-packet-to-server-or-second-seed":
		raw(ref.Packet(ref.PacketPrngSeed, make([]byte, 24), 0))
		rc.WriteData(st.Bytes(int64(pre), 200), 0, 0)
		sentValid += 200
		expectErr = false
	case "empty-frames-flood":
		for i := 0; i < 20000; i++ {
			raw(ref.Packet(ref.PacketPayload, nil, 0))
		}
		rc.WriteData(st.Bytes(int64(pre), 200), 0, 0)
		sentValid += 200
		expectErr = false
	case "frame-never-completed":
		f := rc.Enc.Frame(ref.Packet(ref.PacketPayload, st.Bytes(int64(pre), 1427), 0))
		rc.Conn.Write(f[:len(f)-1])
		expectErr = false
	case "frame-length-field-out-of-range":
		// the sender knows the length mask, so it can make the field decode to
		// any value; followed by enough valid frames for the decoder to go on
		f := rc.Enc.Frame(ref.Packet(ref.PacketPayload, st.Bytes(int64(pre), 1427), 0))
		mask := binary.BigEndian.Uint16(f[:2]) ^ uint16(len(f)-2)
		want := []int{1447, 1448, 1449, 0, 1, 15, 2000, 65535}[rng.IntN(8)]
		binary.BigEndian.PutUint16(f, uint16(want)^mask)
		out := append([]byte{}, f...)
		for k := 0; k < 3; k++ {
			out = append(out, rc.Enc.Frame(ref.Packet(ref.PacketPayload, make([]byte, 1427), 0))...)
		}
		rc.Conn.Write(out)
	case "seed-packets-while-writing":
		// a server may send PRNG-seed packets at any time; here it sends thousands
		// (seeds of all kinds, hence length tables of very different sizes) while
		// the victim's application is writing: the distribution is re-seeded by
		// the reader concurrently with Write sampling from it
		var wdone sync.WaitGroup
		wdone.Add(1)
		var wpanic any
		c.Go(wdone.Done, func() {
			defer func() { wpanic = recover() }()
			blk := make([]byte, 64)
			for i := 0; i < 2500; i++ {
				if _, err := vconn.Write(blk); err != nil {
					return
				}
			}
		})
		sd := make([]byte, 24)
		for i := 0; i < 2500; i++ {
			for k := range sd {
				sd[k] = byte(rng.IntN(256))
			}
			raw(ref.Packet(ref.PacketPrngSeed, sd, 0))
		}
		wdone.Wait()
		if wpanic != nil {
			c.Violation("panic/Write/seed-packets-while-writing", fmt.Sprintf("the victim's Write panicked while the peer was sending PRNG-seed packets: %v", wpanic), nil)
		}
		rc.WriteData(st.Bytes(int64(pre), 200), 0, 0)
		sentValid += 200
		expectErr = false
	case "garbage-4MiB":
		blk := make([]byte, 65536)
		for i := 0; i < 64; i++ {
			for k := range blk {
				blk[k] = byte(rng.IntN(256))
			}
			if _, err := rc.Conn.Write(blk); err != nil {
				break
			}
		}
	}
	synctest.Wait()
	mu.Lock()
	g, mm, en, er := got, mismatch, ended, rerr2
	mu.Unlock()
	r.Count("evaluations", 1)
	r.Count("hostile_obfs4_"+attack, 1)
	wit := map[string]any{"victim": victimRole, "attack": attack, "seed": fmt.Sprintf("%x", seed), "delivered": g, "err": fmt.Sprint(er)}
	if mm >= 0 {
		c.Violation("hostile-peer/wrong-data-delivered/"+attack, fmt.Sprintf("byte %d handed to the application is not what the peer's valid packets carried", mm), wit)
	}
	if g > sentValid {
		c.Violation("hostile-peer/more-than-sent/"+attack, fmt.Sprintf("%d bytes delivered, %d sent in valid packets", g, sentValid), wit)
	}
	if expectErr && !en {
		c.Violation("hostile-peer/no-error/"+attack, "the malformed packet was neither rejected with an error nor did the connection fail", wit)
	}
	if !expectErr && (en || g != sentValid) && attack != "frame-never-completed" {
		c.Violation("hostile-peer/valid-stream-broken/"+attack, fmt.Sprintf("delivered %d of %d, err %v", g, sentValid, er), wit)
	}
	if expectErr && en {
		r.Count("hostile_packet_rejected", 1)
	}
	if n, ok := buffered("obfs4", vconn); ok {
		r.Max("max_buffered_obfs4", int64(n))
		if n > bufferBound {
			c.Violation("bloat/obfs4/"+victimRole+"/"+attack, fmt.Sprintf("%d bytes buffered", n), wit)
		}
		r.Count("buffer_checks", 1)
	}
	r.Distinct("nontrivial", fmt.Sprintf("hostile/%s/%s", victimRole, attack))
	cw.Close()
	sw.Close()
	<-rdDone
}

func TestCheck(t *testing.T) {
	r := mon.Start(t, "C10")
	defer r.Finish()
	r.Note("rule", "ScrambleSuit client against the reference server, UniformDH and session-ticket handshakes (cuts/flips on the response direction at offsets through and beyond the handshake; authenticated malformed packets: total length too large, payload length beyond total, unknown flags, NewTicket/seed of wrong length, a header promising 1427 bytes never completed, 5000 padding packets, 4 MiB garbage); meek_lite client against scripted raw HTTP peers (non-HTTP garbage, 500 forever, 404 then 200, bodies larger than 65536, lying Content-Length, dropped headers, broken chunking, 65536-byte answers with and without a reading application; the first request held without an answer while the application writes until its Write blocks behind the full queue, then the HTTP connection closed / reset / answered short); SOCKS5 front end with the client stopping (EOF/reset/silence) at every byte offset of a valid exchange and after PRNG garbage; per transport with both roles (obfs2, obfs3, obfs4): real client <-> real server with one wire fault: cut with EOF / an error (connection reset, a temporary timeout from a lower layer, ErrUnexpectedEOF, net.ErrClosed, ErrClosedPipe, a wrapped EOF - by offset) / silence at byte offset k of either direction (quick: every offset 0..64, every 16th up to 600, PRNG beyond up to the maximum handshake length; thorough: every offset up to 1200 and every 7th beyond) and single-bit mutations at PRNG offsets; scripted peers sending garbage of lengths around every limit (0,1,63,64,140,141,192,193,1000,8191,8192,8193,8194+32,8194+33,16384,65536, 4 MiB) followed by silence or EOF, under chunkings {all,1,PRNG}; obfs2 with a structure-aware hostile peer (correct magic, announced PADLEN in {0, 8192, 8193, 65536, 1 MiB, 64 MiB, 256 MiB}, 256 KiB of padding streamed; judged by the growth of the process heap at quiescence, bound 24 MiB); obfs4 with a key-holding hostile peer (reference implementation): payload length beyond the packet, packets shorter than a header, unknown types, seed packets of wrong length/role, 20000 empty frames, 2500 PRNG-seed packets while the victim's application is writing, a frame never completed, 4 MiB of garbage after the handshake. Virtual time: every case runs 200 s (all handshake deadlines and the obfs4 close delay) before it is judged at quiescence. Non-trivial = every case; distinct = (transport, role, fault, offset).")
	dir := o4.StateDir("c10")
	r.SpinWatch(memwire.BytesMoved)
	trs := []string{"obfs2", "obfs3", "obfs4"}
	maxHS := map[string]int64{"obfs2": 16 + 8 + 8192 + 400, "obfs3": 192 + 8194 + 32 + 400, "obfs4": 8192 + 400}

	// (a) cuts at byte offsets
	for _, tr := range trs {
		var offs []int64
		if r.Thorough() {
			for k := int64(0); k <= 1200; k++ {
				offs = append(offs, k)
			}
			for k := int64(1207); k < maxHS[tr]; k += 7 {
				offs = append(offs, k)
			}
		} else {
			for k := int64(0); k <= 64; k++ {
				offs = append(offs, k)
			}
			for k := int64(80); k <= 600; k += 16 {
				offs = append(offs, k)
			}
			rng := mon.NewRand(r.Sub("offs", tr))
			for i := 0; i < 24; i++ {
				offs = append(offs, 600+int64(rng.IntN(int(maxHS[tr]-600))))
			}
		}
		for blk := 0; blk*16 < len(offs); blk++ {
			for d := 0; d < 2; d++ {
				tr, blk, d := tr, blk, d
				part := offs[blk*16 : min(len(offs), blk*16+16)]
				r.Bubble(fmt.Sprintf("cut/%s/dir%d/blk%03d", tr, d, blk), func(c *mon.Case) {
					for i, k := range part {
						kind := []string{"eof", "rst", "silence"}[(i+blk)%3]
						pairCase(c, r, tr, dir, fault{kind, d, k}, r.Sub("cut", tr, d, k))
						if r.Thorough() {
							kind2 := []string{"eof", "rst", "silence"}[(i+blk+1)%3]
							pairCase(c, r, tr, dir, fault{kind2, d, k}, r.Sub("cut2", tr, d, k))
						}
					}
				})
			}
		}
		// flips and controls
		tr := tr
		r.Bubble(fmt.Sprintf("flip/%s", tr), func(c *mon.Case) {
			rng := mon.NewRand(r.Sub("flip", tr))
			for i := 0; i < r.Pick(24, 400); i++ {
				pairCase(c, r, tr, dir, fault{"flip", i % 2, int64(rng.IntN(int(maxHS[tr])))}, r.Sub("flipc", tr, i))
			}
			for i := 0; i < r.Pick(3, 20); i++ {
				pairCase(c, r, tr, dir, fault{"none", 0, 0}, r.Sub("none", tr, i))
			}
		})
	}
	// (b) garbage
	lens := []int{0, 1, 63, 64, 140, 141, 192, 193, 1000, 8191, 8192, 8193, 8194 + 32, 8194 + 33, 16384, 65536}
	for _, tr := range trs {
		for _, role := range []string{"server", "client"} {
			tr, role := tr, role
			r.Bubble(fmt.Sprintf("garbage/%s/%s", tr, role), func(c *mon.Case) {
				for i, n := range lens {
					garbageCase(c, r, tr, dir, role, n, []string{"silence", "eof"}[i%2], i%3, r.Sub("g", tr, role, n))
					if r.Thorough() {
						garbageCase(c, r, tr, dir, role, n, []string{"eof", "silence"}[i%2], (i+1)%3, r.Sub("g2", tr, role, n))
					}
				}
			})
			r.Bubble(fmt.Sprintf("garbage-4MiB/%s/%s", tr, role), func(c *mon.Case) {
				garbageCase(c, r, tr, dir, role, 4<<20, "silence", 0, r.Sub("g4", tr, role))
			})
		}
	}
	// (d) ScrambleSuit client: wire faults on the response direction, hostile packets
	{
		var offs []int64
		for k := int64(0); k <= 260; k += int64(r.Pick(7, 1)) {
			offs = append(offs, k)
		}
		for k := int64(270); k < 1532+600; k += int64(r.Pick(97, 11)) {
			offs = append(offs, k)
		}
		for blk := 0; blk*12 < len(offs); blk++ {
			blk := blk
			part := offs[blk*12 : min(len(offs), blk*12+12)]
			r.Bubble(fmt.Sprintf("ss/cut/blk%03d", blk), func(c *mon.Case) {
				for i, k := range part {
					ssCase(c, r, dir, fault{[]string{"eof", "rst", "silence", "flip"}[(i+blk)%4], 1, k}, "", r.Sub("ssc", k))
				}
			})
		}
		for _, a := range []string{"", "ticket-handshake", "total-length-too-large", "payload-length-beyond-total", "unknown-flags", "new-ticket-wrong-length", "seed-wrong-length", "header-promising-1427-never-completed", "padding-packets-flood", "garbage-4MiB"} {
			a := a
			r.Bubble(fmt.Sprintf("ss/hostile/%s", a), func(c *mon.Case) {
				n := r.Pick(4, 24)
				if a == "garbage-4MiB" || a == "padding-packets-flood" {
					n = r.Pick(1, 4)
				}
				for i := 0; i < n; i++ {
					ssCase(c, r, dir, fault{"none", 1, 0}, a, r.Sub("ssh", a, i))
				}
			})
		}
	}
	// (e) meek_lite client against a scripted raw HTTP peer
	for _, k := range []string{"ok-empty", "garbage-not-http", "status-500-forever", "status-404-then-ok", "body-larger-than-65536", "content-length-lies-then-close", "drop-mid-headers", "chunked-garbage", "always-65536", "always-65536-app-never-reads", "huge-body-no-length-then-stall", "huge-body-chunked-then-stall", "huge-body-declared-1GiB-then-stall"} {
		k := k
		r.Bubble(fmt.Sprintf("meek/%s", k), func(c *mon.Case) {
			n := r.Pick(2, 12)
			if strings.HasPrefix(k, "huge-body-") {
				n = r.Pick(1, 3)
			}
			for i := 0; i < n; i++ {
				meekCase(c, r, k, r.Sub("meek", k, i))
			}
		})
	}
	for _, f := range []string{"closed-without-answer", "reset", "answer-cut-short"} {
		f := f
		r.Bubble("meek-pending-writes/"+f, func(c *mon.Case) {
			for i := 0; i < r.Pick(2, 12); i++ {
				meekPendingWrites(c, r, f, r.Sub("meekpw", f, i))
			}
		})
	}
	// (f) SOCKS5 front end: the client stops at every byte offset of a valid exchange
	for _, kind := range []string{"eof", "rst", "silence"} {
		kind := kind
		r.Bubble(fmt.Sprintf("socks/%s", kind), func(c *mon.Case) {
			for off := 0; off <= 50; off++ {
				socksCase(c, r, kind, off, false, r.Sub("socks", kind, off))
			}
			for i := 0; i < r.Pick(20, 400); i++ {
				socksCase(c, r, kind, 1+i*3, true, r.Sub("socksg", kind, i))
			}
		})
	}
	// (c0) structure-aware hostile obfs2 peer: correct magic, chosen PADLEN
	for _, role := range []string{"server", "client"} {
		role := role
		r.Bubble("hostile-obfs2/"+role, func(c *mon.Case) {
			for pi, pl := range []uint32{0, 8192, 8193, 65536, 1 << 20, 64 << 20, 256 << 20} {
				for chunk := 0; chunk < 3; chunk++ {
					stream := 256 << 10
					if pl <= 8192 {
						stream = int(pl) + 100
					}
					hostileObfs2(c, r, dir, role, pl, stream, chunk, r.Sub("h2", role, pi, chunk))
				}
			}
		})
	}
	// (c) hostile key-holding obfs4 peer
	attacks := []string{"payload-length-beyond-packet", "payload-length-65535", "packet-shorter-than-header", "unknown-packet-type", "seed-packet-wrong-length", "seed-packet-to-server-or-second-seed", "frame-length-field-out-of-range", "seed-packets-while-writing", "empty-frames-flood", "frame-never-completed", "garbage-4MiB"}
	for _, role := range []string{"server", "client"} {
		for _, a := range attacks {
			role, a := role, a
			r.Bubble(fmt.Sprintf("hostile/%s/%s", role, a), func(c *mon.Case) {
				n := r.Pick(8, 48)
				if a == "empty-frames-flood" || a == "garbage-4MiB" {
					n = r.Pick(1, 6)
				}
				if a == "seed-packets-while-writing" {
					if role == "server" {
						return // a server ignores seed packets
					}
					n = r.Pick(2, 24)
				}
				for i := 0; i < n; i++ {
					hostileObfs4(c, r, dir, role, a, r.Sub("h", role, a, i))
				}
			})
		}
	}
}
