package c10

// ScrambleSuit client, meek_lite client and the SOCKS5 front end under
// hostile input and wire faults (continuation of c10_test.go).

import (
	"bufio"
	"encoding/base32"
	"fmt"
	"io"
	"net"
	"net/http"
	"strings"
	"sync"
	"testing/synctest"
	"time"

	pt "gitlab.torproject.org/tpo/anti-censorship/pluggable-transports/goptlib"

	"gitlab.com/yawning/obfs4.git/common/socks5"
	"gitlab.com/yawning/obfs4.git/transports"

	"verif/memwire"
	"verif/mon"
	"verif/o4"
	"verif/ref/socks"
	"verif/ref/ss"
)

// ---------------------------------------------------------------- ScrambleSuit

func ssDial(conn net.Conn, dir string, kB [ss.SharedSecretLn]byte) (net.Conn, error) {
	cf, err := transports.Get("scramblesuit").ClientFactory(dir)
	if err != nil {
		return nil, err
	}
	args := pt.Args{}
	args.Add("password", base32.StdEncoding.EncodeToString(kB[:]))
	pa, err := cf.ParseArgs(&args)
	if err != nil {
		return nil, err
	}
	return cf.Dial("tcp", "192.0.2.2:443", func(string, string) (net.Conn, error) { return conn, nil }, pa)
}

// ssCase: real client against the reference server, with a wire fault on the
// server->client direction or a hostile packet after the handshake.
func ssCase(c *mon.Case, r *mon.Run, dir string, f fault, attack string, seed uint64) {
	rng := mon.NewRand(seed)
	var kB [ss.SharedSecretLn]byte
	io.ReadFull(o4.RandReader{R: rng}, kB[:])
	srv := ss.NewServer(kB, o4.RandReader{R: rng})
	// "ticket-handshake" is not an attack: the client finds a session ticket
	// for the bridge in its store and uses the ticket handshake (no response
	// from the server) instead of UniformDH
	useTicket := attack == "ticket-handshake"
	if useTicket {
		attack = ""
		body, _ := srv.IssueTicket()
		err, hooked := storeTicket(dir, &net.TCPAddr{IP: net.ParseIP("192.0.2.2"), Port: 443}, body)
		if !hooked {
			r.Count("ss_ticket_flavour_skipped_without_the_ticket_hook", 1)
			return
		}
		if err != nil {
			c.Violation("setup/ss-ticket-store", err.Error(), nil)
			return
		}
	}
	cw, sw := memwire.Pair(memwire.Options{})
	s2c := sw.Out()
	switch f.kind {
	case "eof":
		s2c.SetCut(f.off, memwire.CutEOF)
	case "rst":
		cutWithError(s2c, f.off)
		if seed%3 == 1 {
			cw.SetResetFailsWrites(true)
			r.Count("resets_that_also_fail_writes", 1)
		}
	case "silence":
		s2c.SetCut(f.off, memwire.CutSilence)
	case "flip":
		s2c.SetRewrite(func(off int64, p []byte) []byte {
			if f.off >= off && f.off < off+int64(len(p)) {
				p[f.off-off] ^= 1 << uint(seed%8)
			}
			return p
		})
	}
	var mu sync.Mutex
	cl := &endState{name: "client"}
	var wg sync.WaitGroup
	st := mon.Stream{Key: seed}
	var sentValid int64
	expectErr := false
	wg.Add(2)
	c.Go(wg.Done, func() { // reference server
		h, err := srv.ReadHello(sw)
		if err != nil {
			return
		}
		resp, sess := srv.Respond(h, rng.IntN(ss.MaxUDHPad+1), nil)
		if useTicket {
			if h.Type == "ticket" {
				r.Count("ss_ticket_handshakes", 1)
			} else {
				c.Violation("setup/ss-ticket-not-used", "the stored ticket was not used: hello type "+h.Type, nil)
			}
		}
		if len(resp) > 0 {
			if _, err := sw.Write(resp); err != nil {
				return
			}
		}
		sw.Write(sess.Enc.Packet(1, st.Bytes(0, 300), 10))
		mu.Lock()
		sentValid = 300
		mu.Unlock()
		e := sess.Enc
		switch attack {
		case "":
		case "total-length-too-large":
			sw.Write(e.RawPacket(uint16(1428+rng.IntN(60000)), 10, 1, make([]byte, 1427)))
			expectErr = true
		case "payload-length-beyond-total":
			sw.Write(e.RawPacket(100, uint16(101+rng.IntN(1300)), 1, make([]byte, 100)))
			expectErr = true
		case "unknown-flags":
			sw.Write(e.RawPacket(10, 5, byte(8+rng.IntN(240)), make([]byte, 10)))
			expectErr = true
		case "new-ticket-wrong-length":
			sw.Write(e.Packet(2, make([]byte, 1+rng.IntN(143)), 0))
			expectErr = true
		case "seed-wrong-length":
			sw.Write(e.Packet(4, make([]byte, 1+rng.IntN(31)), 0))
			expectErr = true
		case "header-promising-1427-never-completed":
			p := e.Packet(1, st.Bytes(300, 1427), 0)
			sw.Write(p[:len(p)-1])
		case "padding-packets-flood":
			for i := 0; i < 5000; i++ {
				if _, err := sw.Write(e.Packet(1, nil, rng.IntN(50))); err != nil {
					return
				}
			}
			sw.Write(e.Packet(1, st.Bytes(300, 200), 0))
			mu.Lock()
			sentValid = 500
			mu.Unlock()
		case "garbage-4MiB":
			blk := make([]byte, 65536)
			for i := 0; i < 64; i++ {
				io.ReadFull(o4.RandReader{R: rng}, blk)
				if _, err := sw.Write(blk); err != nil {
					return
				}
			}
			expectErr = true
		}
		if attack != "header-promising-1427-never-completed" {
			// this client decodes what arrived together with the handshake response
			// only on its next network read (C15), so give it one: a padding-only
			// packet a second later
			time.Sleep(time.Second)
			sw.Write(e.Packet(1, nil, 20))
		}
		buf := make([]byte, 8192)
		for {
			if _, err := sw.Read(buf); err != nil {
				return
			}
		}
	})
	var got, mismatch int64 = 0, -1
	c.Go(wg.Done, func() {
		conn, err := ssDial(cw, dir, kB)
		mu.Lock()
		cl.returned, cl.err, cl.conn = true, err, conn
		mu.Unlock()
		if err != nil {
			return
		}
		conn.Write(make([]byte, 100))
		buf := make([]byte, 4096)
		for {
			n, err := conn.Read(buf)
			mu.Lock()
			if n > 0 {
				if i := st.Check(buf[:n], got); i >= 0 && mismatch < 0 {
					mismatch = got + int64(i)
				}
				got += int64(n)
			}
			if err != nil {
				cl.appEnded, cl.appErr = true, err
			}
			mu.Unlock()
			if err != nil {
				conn.Close()
				return
			}
		}
	})
	time.Sleep(200 * time.Second)
	synctest.Wait()
	mu.Lock()
	cs, g, mm, sv := *cl, got, mismatch, sentValid
	mu.Unlock()
	r.Count("evaluations", 1)
	r.Count("ss_cases", 1)
	wit := map[string]any{"transport": "scramblesuit", "fault": f.String(), "attack": attack, "seed": fmt.Sprintf("%x", seed), "dial_err": fmt.Sprint(cs.err), "read_err": fmt.Sprint(cs.appErr), "delivered": g}
	name := attack
	if name == "" {
		name = f.kind
	}
	if useTicket {
		name = "ticket-handshake/" + name
		wit["handshake"] = "session ticket"
	}
	if !cs.returned {
		c.Violation("wedged/scramblesuit/client-Dial/"+name, "ScrambleSuit Dial has not returned 200 virtual seconds after the start: no deadline ended it", wit)
	}
	if cs.returned && cs.err == nil {
		r.Count("established_scramblesuit", 1)
		if n, ok := buffered("scramblesuit", cs.conn); ok {
			r.Max("max_buffered_scramblesuit", int64(n))
			r.Count("buffer_checks", 1)
			if n > bufferBound {
				c.Violation("bloat/scramblesuit/"+name, fmt.Sprintf("%d bytes buffered", n), wit)
			}
		}
		if mm >= 0 && f.kind != "flip" {
			c.Violation("hostile-peer/wrong-data-delivered/scramblesuit/"+name, fmt.Sprintf("byte %d handed to the application is not what the valid packets carried", mm), wit)
		}
		if g > sv {
			c.Violation("hostile-peer/more-than-sent/scramblesuit/"+name, fmt.Sprintf("%d delivered, %d sent in valid packets", g, sv), wit)
		}
		if expectErr && !cs.appEnded {
			c.Violation("hostile-peer/no-error/scramblesuit/"+name, "the malformed packet was neither rejected nor did the connection fail", wit)
		}
		if expectErr && cs.appEnded {
			r.Count("ss_hostile_packet_rejected", 1)
		}
		if attack == "padding-packets-flood" && (cs.appEnded || g != sv) {
			c.Violation("hostile-peer/valid-stream-broken/scramblesuit/"+name, fmt.Sprintf("delivered %d of %d, err %v", g, sv, cs.appErr), wit)
		}
		cutHit := (f.kind == "eof" || f.kind == "rst") && s2c.Delivered() >= f.off && s2c.Written() > f.off
		if cutHit && !cs.appEnded {
			c.Violation("wedged/scramblesuit/client-Read/"+f.kind+"-after-handshake", "the wire was cut in the data phase but Read has not returned an error at quiescence", wit)
		}
		if attack == "" && (f.kind == "none" || f.kind == "silence") {
			time.Sleep(10 * time.Minute)
			synctest.Wait()
			mu.Lock()
			ended, e2 := cl.appEnded, cl.appErr
			mu.Unlock()
			if ended {
				c.Violation("stale-timer/scramblesuit/client/"+name, fmt.Sprintf("an established idle connection failed: %v", e2), wit)
			} else {
				r.Count("established_idle_survived_10min", 1)
			}
			// deadline ledger
			dl := cw.DeadlineLog()
			armed, cleared := false, false
			for _, d := range dl {
				if !d.Zero && d.In > 0 {
					armed = true
				}
				if d.Zero && armed {
					cleared = true
				}
			}
			if !armed || !cleared {
				c.Violation("deadline/ledger/scramblesuit/"+name, fmt.Sprintf("handshake deadline armed=%v removed=%v", armed, cleared), wit)
			} else {
				r.Count("deadline_ledger_ok", 1)
			}
		}
	} else if cs.returned {
		r.Count("handshake_failed_cleanly_scramblesuit", 1)
	}
	r.Distinct("nontrivial", fmt.Sprintf("ss/%s/%s/%v", f, attack, useTicket))
	cw.Close()
	sw.Close()
	wg.Wait()
}

// ---------------------------------------------------------------- meek_lite

// hugeBody is what a hostile front streams as one response body before it
// stalls: twice the heap bound.
const hugeBody = 2 * heapBound

// meekCase runs the real meek_lite client against a scripted raw HTTP peer.
func meekCase(c *mon.Case, r *mon.Run, kind string, seed uint64) {
	rng := mon.NewRand(seed)
	t := transports.Get("meek_lite")
	cf, err := t.ClientFactory("")
	if err != nil {
		c.Violation("setup/meek-factory", err.Error(), nil)
		return
	}
	args := pt.Args{}
	args.Add("url", "http://meek.example/")
	pa, err := cf.ParseArgs(&args)
	if err != nil {
		c.Violation("setup/meek-args", err.Error(), nil)
		return
	}
	var mu sync.Mutex
	var conns []*memwire.Conn
	requests := 0
	var wg sync.WaitGroup
	st := mon.Stream{Key: seed}
	var served int64
	serve := func(sw *memwire.Conn) {
		defer wg.Done()
		br := bufio.NewReader(sw)
		for {
			req, err := http.ReadRequest(br)
			if err != nil {
				return
			}
			io.Copy(io.Discard, req.Body)
			mu.Lock()
			requests++
			n := requests
			off := served
			mu.Unlock()
			body := func(sz int) []byte {
				b := st.Bytes(off, sz)
				mu.Lock()
				served += int64(sz)
				mu.Unlock()
				return b
			}
			switch kind {
			case "garbage-not-http":
				// (with line ends, and the connection is closed afterwards: a peer that
				// goes silent in the middle of a status line is the never-answers
				// case, which the property does not cover for meek_lite)
				sw.Write([]byte(strings.Repeat("\x00\xff\x13garbage\r\n", 50+rng.IntN(500))))
				sw.Close()
				return
			case "status-500-forever":
				fmt.Fprintf(sw, "HTTP/1.1 500 Internal Server Error\r\nContent-Length: 0\r\n\r\n")
			case "status-404-then-ok":
				if n <= 3 {
					fmt.Fprintf(sw, "HTTP/1.1 404 Not Found\r\nContent-Length: 0\r\n\r\n")
				} else {
					fmt.Fprintf(sw, "HTTP/1.1 200 OK\r\nContent-Length: 0\r\n\r\n")
				}
			case "body-larger-than-65536":
				if n > 20 {
					// (an answer with data makes the client poll again at once; go
					// quiet after a while so that virtual time can advance)
					fmt.Fprintf(sw, "HTTP/1.1 200 OK\r\nContent-Length: 0\r\n\r\n")
					continue
				}
				sz := 65537 + rng.IntN(200000)
				fmt.Fprintf(sw, "HTTP/1.1 200 OK\r\nContent-Length: %d\r\n\r\n", sz)
				sw.Write(make([]byte, sz))
			case "content-length-lies-then-close":
				fmt.Fprintf(sw, "HTTP/1.1 200 OK\r\nContent-Length: 5000\r\n\r\n")
				sw.Write(make([]byte, 100+rng.IntN(4000)))
				sw.Close()
				return
			case "drop-mid-headers":
				sw.Write([]byte("HTTP/1.1 200 OK\r\nContent-Le"))
				sw.Close()
				return
			case "chunked-garbage":
				fmt.Fprintf(sw, "HTTP/1.1 200 OK\r\nTransfer-Encoding: chunked\r\n\r\nzz\r\nnot a chunk")
			case "always-65536-app-never-reads", "always-65536":
				b := body(65536)
				fmt.Fprintf(sw, "HTTP/1.1 200 OK\r\nContent-Length: %d\r\n\r\n", len(b))
				sw.Write(b)
			case "ok-empty":
				fmt.Fprintf(sw, "HTTP/1.1 200 OK\r\nContent-Length: 0\r\n\r\n")
			case "huge-body-no-length-then-stall", "huge-body-chunked-then-stall", "huge-body-declared-1GiB-then-stall":
				// an answer whose body does not end: 48 MiB are streamed (as fast as
				// the client takes them: the wire has a 64 KiB window), then the peer
				// stalls with the connection open.  Later requests (on other
				// connections) are answered normally.
				if n > 1 {
					fmt.Fprintf(sw, "HTTP/1.1 200 OK\r\nContent-Length: 0\r\n\r\n")
					continue
				}
				sw.Out().SetWindow(1 << 16)
				chunked := false
				switch kind {
				case "huge-body-no-length-then-stall":
					fmt.Fprintf(sw, "HTTP/1.1 200 OK\r\nConnection: close\r\n\r\n")
				case "huge-body-chunked-then-stall":
					fmt.Fprintf(sw, "HTTP/1.1 200 OK\r\nTransfer-Encoding: chunked\r\n\r\n")
					chunked = true
				default:
					fmt.Fprintf(sw, "HTTP/1.1 200 OK\r\nContent-Length: %d\r\n\r\n", 1<<30)
				}
				blk := make([]byte, 32768)
				for sent := 0; sent < hugeBody; sent += len(blk) {
					if chunked {
						if _, err := fmt.Fprintf(sw, "%x\r\n", len(blk)); err != nil {
							return
						}
					}
					if _, err := sw.Write(blk); err != nil {
						return
					}
					if chunked {
						sw.Write([]byte("\r\n"))
					}
				}
				io.Copy(io.Discard, br) // stall until the client gives up on this connection
				return
			}
		}
	}
	dialFn := func(string, string) (net.Conn, error) {
		a, b := memwire.Pair(memwire.Options{})
		mu.Lock()
		conns = append(conns, a, b)
		mu.Unlock()
		wg.Add(1)
		c.Go(nil, func() { serve(b) })
		return a, nil
	}
	conn, err := cf.Dial("tcp", "192.0.2.9:80", dialFn, pa)
	if err != nil {
		c.Violation("setup/meek-dial", err.Error(), nil)
		return
	}
	var got, mismatch int64 = 0, -1
	ended := false
	var rerr error
	rdDone := make(chan struct{})
	if kind != "always-65536-app-never-reads" {
		c.Go(func() { close(rdDone) }, func() {
			buf := make([]byte, 32768)
			for {
				n, err := conn.Read(buf)
				mu.Lock()
				if n > 0 {
					if i := st.Check(buf[:n], got); i >= 0 && mismatch < 0 && kind == "always-65536" {
						mismatch = got + int64(i)
					}
					got += int64(n)
				}
				if err != nil {
					ended, rerr = true, err
				}
				mu.Unlock()
				if err != nil {
					return
				}
				if kind == "always-65536" && got >= 40*65536 {
					return
				}
			}
		})
	} else {
		close(rdDone)
	}
	huge := strings.HasPrefix(kind, "huge-body-")
	var h0, h1 int64
	if huge {
		h0 = heapNow()
	}
	conn.Write([]byte("hello meek"))
	if huge {
		synctest.Wait() // the peer has streamed what the client took and stalls; no virtual time has passed
		h1 = heapNow()
	}
	time.Sleep(20 * time.Minute) // beyond 10 retries x 30 s
	synctest.Wait()
	mu.Lock()
	reqs, e, en, g, mm := requests, rerr, ended, got, mismatch
	mu.Unlock()
	r.Count("evaluations", 1)
	r.Count("meek_cases", 1)
	r.Count("meek_"+kind, 1)
	r.Max("meek_requests_max", int64(reqs))
	wit := map[string]any{"transport": "meek_lite", "kind": kind, "seed": fmt.Sprintf("%x", seed), "requests": reqs, "delivered": g, "read_err": fmt.Sprint(e)}
	switch kind {
	case "garbage-not-http", "status-500-forever", "content-length-lies-then-close", "drop-mid-headers", "chunked-garbage":
		if !en {
			c.Violation("wedged/meek_lite/Read/"+kind, "the HTTP peer kept failing for 20 virtual minutes but Read has not returned an error", wit)
		} else {
			r.Count("meek_failed_cleanly", 1)
		}
	case "always-65536-app-never-reads":
		// at most the channel backlog (16) + the one being handed over + one in flight
		if reqs > 20 {
			c.Violation("bloat/meek_lite/polling-while-application-does-not-read", fmt.Sprintf("%d requests (each answered with 65536 bytes) although the application never read", reqs), wit)
		} else {
			r.Count("meek_backpressure_ok", 1)
		}
	case "huge-body-no-length-then-stall", "huge-body-chunked-then-stall", "huge-body-declared-1GiB-then-stall":
		// whatever the client does with such an answer (cut it off at its 64 KiB
		// limit, or hand it on piece by piece), it must not hold on to it
		r.Max("meek_heap_growth_during_endless_response", h1-h0)
		wit["heap_growth"] = h1 - h0
		if h1-h0 > heapBound {
			c.Violation("bloat/meek_lite/"+kind, fmt.Sprintf("the heap grew by %d bytes while one meek_lite connection was receiving an HTTP answer whose body did not end (%d bytes streamed by the peer, %d delivered to the application)", h1-h0, hugeBody, g), wit)
		} else {
			r.Count("meek_endless_response_not_held", 1)
		}
	case "always-65536":
		if mm >= 0 {
			c.Violation("hostile-peer/wrong-data-delivered/meek_lite", fmt.Sprintf("byte %d differs from the response bodies", mm), wit)
		}
	}
	r.Distinct("nontrivial", "meek/"+kind)
	conn.Close()
	<-rdDone
	// (a worker blocked handing a response to an application that stopped
	// reading only ends when the backlog is drained)
	drain := make([]byte, 65536)
	for {
		if _, err := conn.Read(drain); err != nil {
			break
		}
	}
	mu.Lock()
	cs := append([]*memwire.Conn(nil), conns...)
	mu.Unlock()
	for _, x := range cs {
		x.Close()
	}
	<-rdDone
	wg.Wait()
	synctest.Wait()
}

// meekPendingWrites: the HTTP peer holds the first request without answering;
// meanwhile the application keeps writing until its Write blocks behind the
// client's full write queue; then the connection to the HTTP peer fails (closed
// without an answer / reset / answer cut short).  The blocked Write must come
// back (with an error or not) instead of panicking or staying blocked, and
// Read must report the failure.
func meekPendingWrites(c *mon.Case, r *mon.Run, fault string, seed uint64) {
	t := transports.Get("meek_lite")
	cf, err := t.ClientFactory("")
	if err != nil {
		c.Violation("setup/meek-factory", err.Error(), nil)
		return
	}
	args := pt.Args{}
	args.Add("url", "http://meek.example/")
	pa, err := cf.ParseArgs(&args)
	if err != nil {
		c.Violation("setup/meek-args", err.Error(), nil)
		return
	}
	var mu sync.Mutex
	var conns []*memwire.Conn
	release := make(chan struct{})
	var wg sync.WaitGroup
	first := true
	serve := func(sw *memwire.Conn) {
		defer wg.Done()
		br := bufio.NewReader(sw)
		for {
			req, err := http.ReadRequest(br)
			if err != nil {
				return
			}
			io.Copy(io.Discard, req.Body)
			mu.Lock()
			isFirst := first
			first = false
			mu.Unlock()
			if !isFirst {
				// whatever comes after the failure is refused the same way
				sw.Close()
				return
			}
			<-release
			switch fault {
			case "closed-without-answer":
				sw.Close()
			case "reset":
				sw.In().SetCut(sw.In().Delivered(), memwire.CutRST)
				sw.Out().CloseWrite()
				sw.Close()
			case "answer-cut-short":
				fmt.Fprintf(sw, "HTTP/1.1 200 OK\r\nContent-Length: 5000\r\n\r\n")
				sw.Write(make([]byte, 100))
				sw.Close()
			}
			return
		}
	}
	dialFn := func(string, string) (net.Conn, error) {
		a, b := memwire.Pair(memwire.Options{})
		mu.Lock()
		conns = append(conns, a, b)
		mu.Unlock()
		wg.Add(1)
		c.Go(nil, func() { serve(b) })
		return a, nil
	}
	conn, err := cf.Dial("tcp", "192.0.2.9:80", dialFn, pa)
	if err != nil {
		c.Violation("setup/meek-dial", err.Error(), nil)
		return
	}
	var readEnded, writerDone bool
	var nWritten int
	var werr error
	rdDone := make(chan struct{})
	c.Go(func() { close(rdDone) }, func() {
		buf := make([]byte, 4096)
		for {
			if _, err := conn.Read(buf); err != nil {
				mu.Lock()
				readEnded = true
				mu.Unlock()
				return
			}
		}
	})
	wrDone := make(chan struct{})
	c.Go(func() { close(wrDone) }, func() {
		defer func() {
			mu.Lock()
			writerDone = true
			mu.Unlock()
		}()
		blk := make([]byte, 1000)
		for i := 0; i < 60; i++ {
			if _, err := conn.Write(blk); err != nil {
				mu.Lock()
				werr = err
				mu.Unlock()
				return
			}
			mu.Lock()
			nWritten++
			mu.Unlock()
		}
	})
	synctest.Wait() // the request is held, the writer is blocked behind the queue (or done, if the queue took everything)
	mu.Lock()
	blockedAfter := nWritten
	mu.Unlock()
	close(release)
	time.Sleep(20 * time.Minute)
	synctest.Wait()
	mu.Lock()
	re, wd, nw, we := readEnded, writerDone, nWritten, werr
	mu.Unlock()
	r.Count("evaluations", 1)
	r.Count("meek_cases", 1)
	r.Count("meek_pending_writes_"+fault, 1)
	if blockedAfter < 60 {
		r.Count("meek_writer_was_blocked_behind_the_queue", 1)
	}
	wit := map[string]any{"transport": "meek_lite", "fault": fault, "writes_before_block": blockedAfter, "writes_total": nw, "write_err": fmt.Sprint(we)}
	if !wd {
		c.Violation("wedged/meek_lite/Write/"+fault, "a Write that was waiting behind the full write queue when the HTTP connection failed has not returned 20 virtual minutes later", wit)
	}
	if !re {
		c.Violation("wedged/meek_lite/Read/pending-writes-"+fault, "the HTTP connection failed for good but Read has not returned an error 20 virtual minutes later", wit)
	} else {
		r.Count("meek_failed_cleanly", 1)
	}
	r.Distinct("nontrivial", "meek-pending/"+fault)
	conn.Close()
	<-rdDone
	<-wrDone
	mu.Lock()
	cs := append([]*memwire.Conn(nil), conns...)
	mu.Unlock()
	for _, x := range cs {
		x.Close()
	}
	wg.Wait()
	synctest.Wait()
}

// ---------------------------------------------------------------- SOCKS5 front end

func socksCase(c *mon.Case, r *mon.Run, kind string, off int, garbage bool, seed uint64) {
	rng := mon.NewRand(seed)
	g, _ := socks.Greeting([]byte{0, 2})
	a, _ := socks.AuthMessage([]byte("cert=abc;iat-mode=0"), []byte{0})
	q, _ := socks.RequestMessage(1, socks.DomainDest([]byte("bridge.example"), 443))
	stream := append(append(append([]byte{}, g...), a...), q...)
	if garbage {
		stream = make([]byte, 1+rng.IntN(600))
		io.ReadFull(o4.RandReader{R: rng}, stream)
		stream[0] = 5
	}
	if off > len(stream) {
		off = len(stream)
	}
	cw, sw := memwire.Pair(memwire.Options{})
	returned := false
	var herr error
	done := make(chan struct{})
	c.Go(func() { close(done) }, func() {
		req, err := socks5.Handshake(sw)
		if err == nil {
			err = req.Reply(socks5.ReplySucceeded)
		}
		returned, herr = true, err
		sw.Close()
	})
	dr := make(chan struct{})
	c.Go(func() { close(dr) }, func() {
		b := make([]byte, 512)
		for {
			if _, err := cw.Read(b); err != nil {
				return
			}
		}
	})
	// deliver byte by byte so that every stage boundary is a read boundary
	cw.Out().SetPolicy(memwire.Fixed(1 + int(seed%3)))
	cw.Write(stream[:off])
	switch kind {
	case "eof":
		cw.Out().CloseWrite()
	case "rst":
		cutWithError(cw.Out(), int64(off))
		if seed%3 == 1 {
			sw.SetResetFailsWrites(true)
			r.Count("resets_that_also_fail_writes", 1)
		}
	case "silence":
	}
	time.Sleep(60 * time.Second)
	synctest.Wait()
	r.Count("evaluations", 1)
	r.Count("socks_cases", 1)
	wit := map[string]any{"kind": kind, "offset": off, "of": len(stream), "garbage": garbage, "err": fmt.Sprint(herr)}
	if !returned {
		c.Violation("wedged/socks5/Handshake/"+kind, fmt.Sprintf("socks5.Handshake has not returned 60 virtual seconds after the client stopped at byte %d of %d (%s)", off, len(stream), kind), wit)
	} else if herr != nil {
		r.Count("socks_failed_cleanly", 1)
	} else {
		r.Count("socks_completed", 1)
	}
	r.Distinct("nontrivial", fmt.Sprintf("socks/%s/%d/%v", kind, off, garbage))
	cw.Close()
	sw.Close()
	<-done
	<-dr
}
