package c17

import (
	"fmt"

	"verif/mon"
	"verif/ref/socks"
)

// controlCases: the comparators themselves must be able to say "no".
func (h *H) controlCases() {
	r := h.r
	r.Case("control/oracle", func(c *mon.Case) {
		r.Count("evaluations", 1)
		var ip6 [16]byte
		ip6[15] = 1
		bad := 0
		tchk := func(d socks.Dest, got string, want bool) {
			if ok, _ := targetMatches(d, got); ok != want {
				bad++
				r.Inconclusive(fmt.Sprintf("harness: targetMatches(%+v, %q) = %v", d, got, ok))
			}
		}
		tchk(socks.IPv4Dest(1, 2, 3, 4, 256), "1.2.3.4:256", true)
		tchk(socks.IPv4Dest(1, 2, 3, 4, 256), "1.2.3.4:1", false)
		tchk(socks.IPv4Dest(1, 2, 3, 4, 256), "1.2.3.5:256", false)
		tchk(socks.IPv6Dest(ip6, 80), "[::1]:80", true)
		tchk(socks.IPv6Dest(ip6, 80), "::1:80", false)
		tchk(socks.IPv6Dest(ip6, 80), "[::2]:80", false)
		tchk(socks.DomainDest([]byte("a:b"), 80), "a:b:80", true)
		tchk(socks.DomainDest([]byte("a:b"), 80), "[a:b]:80", true)
		tchk(socks.DomainDest([]byte("A.b"), 80), "a.b:80", false)
		tchk(socks.DomainDest([]byte("a\x00"), 80), "a:80", false)
		tchk(socks.DomainDest([]byte("a"), 80), "a:80x", false)
		if argsAdmissible(argmap{"k": {"a", "b"}}, []argmap{{"k": {"b", "a"}}}) || !argsAdmissible(nil, []argmap{{}}) ||
			argsAdmissible(argmap{"k": {"a"}}, []argmap{{"k": {"a"}, "j": {""}}}) || !argsAdmissible(argmap{"k": {"a"}}, []argmap{{"x": {"y"}}, {"k": {"a"}}}) {
			bad++
			r.Inconclusive("harness: argsAdmissible is wrong")
		}
		sc := &scenario{mExp: 2, fMin: stA, fMax: stA}
		for _, tc := range []struct {
			hex string
			ok  bool
		}{{"0502", true}, {"05020101", true}, {"050201ff", true}, {"05020100", false}, {"", false}, {"05ff", false}, {"0500", false}, {"0502010100", false}} {
			if errorTranscriptOK(sc, unhex(tc.hex)) != tc.ok {
				bad++
				r.Inconclusive("harness: errorTranscriptOK wrong for auth-stage " + tc.hex)
			}
		}
		sc = &scenario{mExp: 2, fMin: stR, fMax: stR}
		for _, tc := range []struct {
			hex string
			ok  bool
		}{{"05020100", true}, {"0502010005070001000000000000", true}, {"0502010005000001000000000000", false}, {"05020100050700010000000000", false},
			{"050201000507000100000000000000", false}, {"0502", false}, {"0502010005070101000000000000", false}} {
			if errorTranscriptOK(sc, unhex(tc.hex)) != tc.ok {
				bad++
				r.Inconclusive("harness: errorTranscriptOK wrong for request-stage " + tc.hex)
			}
		}
		sc = &scenario{mExp: 0xff, fMin: stG, fMax: stG}
		if !errorTranscriptOK(sc, nil) || !errorTranscriptOK(sc, unhex("05ff")) || errorTranscriptOK(sc, unhex("0500")) || errorTranscriptOK(sc, unhex("05")) {
			bad++
			r.Inconclusive("harness: errorTranscriptOK wrong for greeting stage")
		}
		if bad == 0 {
			r.Count("control_oracle_selftest", 1)
		}
	})
}

func unhex(s string) []byte {
	b := make([]byte, len(s)/2)
	for i := range b {
		fmt.Sscanf(s[2*i:2*i+2], "%02x", &b[i])
	}
	return b
}

// targetCases: destinations.
func (h *H) targetCases() {
	r := h.r
	nRand := r.Pick(300, 2500)
	for pi := range portEdges {
		pi := pi
		port := portEdges[pi]
		r.Bubble(fmt.Sprintf("target/ipv4/port%02d", pi), func(c *mon.Case) {
			rng := mon.NewRand(r.Sub("target4", pi))
			for i := 0; i < len(v4Edges)+nRand; i++ {
				var e [4]byte
				if i < len(v4Edges) {
					e = v4Edges[i]
				} else {
					e = [4]byte{byte(rng.IntN(256)), byte(rng.IntN(256)), byte(rng.IntN(256)), byte(rng.IntN(256))}
				}
				tmpl := h.genValid("target/ipv4", rng)
				sc := h.valid("target/ipv4", tmpl.methods, pairsOf(tmpl), tmpl.enc, len(tmpl.user), socks.IPv4Dest(e[0], e[1], e[2], e[3], port))
				h.eval(c, h.dress(sc, rng))
			}
		})
		r.Bubble(fmt.Sprintf("target/ipv6/port%02d", pi), func(c *mon.Case) {
			rng := mon.NewRand(r.Sub("target6", pi))
			edges := v6Edges()
			for i := 0; i < len(edges)+nRand; i++ {
				var e [16]byte
				if i < len(edges) {
					e = edges[i]
				} else {
					e = genV6(rng)
				}
				tmpl := h.genValid("target/ipv6", rng)
				sc := h.valid("target/ipv6", tmpl.methods, pairsOf(tmpl), tmpl.enc, len(tmpl.user), socks.IPv6Dest(e, port))
				h.eval(c, h.dress(sc, rng))
			}
		})
	}
	perLen := r.Pick(1, 12)
	for b := 0; b < 16; b++ {
		b := b
		r.Bubble(fmt.Sprintf("target/domain/len/%02d", b), func(c *mon.Case) {
			rng := mon.NewRand(r.Sub("domlen", b))
			for n := 1 + b; n <= 255; n += 16 {
				for style := 0; style < 6; style++ {
					for k := 0; k < perLen; k++ {
						port := portEdges[(n+style+k)%len(portEdges)]
						tmpl := h.genValid("target/domain", rng)
						sc := h.valid("target/domain", tmpl.methods, pairsOf(tmpl), tmpl.enc, len(tmpl.user), socks.DomainDest(genDomain(rng, n, style), port))
						h.eval(c, h.dress(sc, rng))
					}
				}
			}
		})
	}
	r.Bubble("target/domain/special", func(c *mon.Case) {
		rng := mon.NewRand(r.Sub("domspecial"))
		doms := append([]string(nil), specialDomains...)
		doms = append(doms, string(fill(255, 'a')), string(fill(255, ':')), string(fill(255, '.')), string(fill(254, 'a'))+":")
		for _, d := range doms {
			for _, port := range portEdges {
				sc := h.valid("target/domain-special", []byte{0, 2}, []socks.KV{{Key: "k", Value: "v"}}, "k=v", 3, socks.DomainDest([]byte(d), port))
				h.eval(c, h.dress(sc, rng))
			}
		}
	})
}

// pairsOf recovers the source pairs of a generated valid scenario (its single
// admissible map came from them; order inside a key is kept by DecodeArgs).
func pairsOf(sc *scenario) []socks.KV {
	if sc.mExp != socks.MethodUserPass {
		return nil
	}
	p, _ := socks.DecodeArgs(sc.enc)
	return p
}

var knownArgStrings = []string{
	"shared-secret=rahasia;secrets-file=/tmp/blob",
	"rocks=20;height=5.6",
	"key=", "key==", "key=value", "a=b=c", "key=a\nb", `key=value\;`, `key="value"`, `"key=value"`,
	"key=value;key=value", "key=value1;key=value2", "key1=value1;key2=value2;key1=value3",
	`\;=\;;\\=\;`, `a\=b=c`, `a=b\=c`, `a=\\`, `a=\\\\;b=\;\;`, `\\\\=\\`, "k=\x00\x00", "\x00=\x00", "\xff\xfe=\x80",
	"cert=bm9uZXhpc3RlbnQ+Y2VydA==;iat-mode=0", `cert=bm9uZXhpc3RlbnQ+Y2VydA\=\=;iat-mode=0`,
	"node-id=0123456789abcdef0123456789abcdef01234567;public-key=0123456789abcdef0123456789abcdef0123456789abcdef0123456789abcdef;iat-mode=2",
	"url=https://example.com/;front=a.example;utls=hellorandomizedalpn",
	// malformed
	"key", `key\`, "=value", "==value", "==key=value", `key=value\`, `a=b;key=value\`, "a;b=c", ";", "key=value;", ";key=value", `key\=value`,
	"a=b;;c=d", `\`, "a=b;=", "a=b;=c", "\x00", ";;", "=", "a=b;c",
	// backslash before an ordinary byte
	`a=\b`, `\a=b`, "a=\\\x00", `k=v;x=\y\;`, `a=\"`,
}

func (h *H) argsCases() {
	r := h.r
	r.Bubble("args/known", func(c *mon.Case) {
		rng := mon.NewRand(r.Sub("known"))
		for _, s := range knownArgStrings {
			for _, m := range [][]byte{{2}, {0, 2}} {
				user, pass, _ := socks.SplitUserPass(s, len(s))
				g, _ := socks.Greeting(m)
				a, _ := socks.AuthMessage(user, pass)
				rq, _ := socks.RequestMessage(socks.CmdConnect, socks.DomainDest([]byte("bridge.example"), 443))
				sc := classify("args/known", g, a, rq)
				h.countDiff(sc)
				h.eval(c, h.dress(sc, rng))
			}
		}
		r.Sample(map[string]any{"kind": "known argument strings", "n": len(knownArgStrings), "example": knownArgStrings[0]})
	})

	nPer := r.Pick(2000, 30000)
	for b := 0; b < 16; b++ {
		b := b
		r.Bubble(fmt.Sprintf("args/prng/%02d", b), func(c *mon.Case) {
			rng := mon.NewRand(r.Sub("argsprng", b))
			for i := 0; i < nPer; i++ {
				sc := h.genValid("args/prng", rng)
				h.eval(c, h.dress(sc, rng))
				if b == 0 && i == 0 {
					r.Sample(map[string]any{"kind": "args/prng", "encoded": sc.enc, "username_bytes": len(sc.user), "password_bytes": len(sc.pass), "args": sc.argMaps})
				}
			}
		})
	}

	// every admissible username/password cut of encoded strings of chosen lengths
	var lengths []int
	if r.Thorough() {
		for L := 2; L <= 510; L++ {
			lengths = append(lengths, L)
		}
	} else {
		lengths = []int{2, 3, 4, 17, 100, 200, 254, 255, 256, 257, 258, 300, 383, 420, 470, 500, 508, 509, 510}
	}
	reps := r.Pick(1, 2)
	for b := 0; b < 16; b++ {
		b := b
		r.Bubble(fmt.Sprintf("args/spill/%02d", b), func(c *mon.Case) {
			rng := mon.NewRand(r.Sub("spill", b))
			for li, L := range lengths {
				if li%16 != b {
					continue
				}
				for rep := 0; rep < reps; rep++ {
					pairs, enc := genEncoded(rng, L, true)
					lo, hi := L-255, L
					if lo < 1 {
						lo = 1
					}
					if hi > 255 {
						hi = 255
					}
					for at := lo; at <= hi; at++ {
						sc := h.valid("args/spill", []byte{0, 2}, pairs, enc, at, socks.IPv4Dest(192, 0, 2, 1, 443))
						sc.replyCode = byte(at % 9)
						if at%3 == 0 {
							sc.policy, sc.policyName = pickPolicy(rng)
						}
						h.eval(c, sc)
					}
				}
			}
		})
	}

	// the one representational ambiguity, exercised on purpose
	r.Bubble("args/ambig-nul-password", func(c *mon.Case) {
		rng := mon.NewRand(r.Sub("ambig"))
		for i := 0; i < r.Pick(1000, 5000); i++ {
			L := 3 + rng.IntN(253)
			pairs, enc := genEncoded(rng, L, i%2 == 0)
			last := &pairs[len(pairs)-1]
			last.Value = last.Value + "\x00"
			enc += "\x00"
			sc := h.valid("args/ambig", []byte{2}, pairs, enc, len(enc)-1, socks.IPv4Dest(192, 0, 2, 1, 443))
			if h.eval(c, sc) {
				r.Count("ambiguous_nul_password_accepted", 1)
			}
		}
	})

	// differential: every string over a 5-symbol alphabet up to a length bound
	alpha := []byte{'\\', ';', '=', 'a', 'b'}
	maxLen := r.Pick(7, 8)
	for p := 0; p < 25; p++ {
		p := p
		r.Bubble(fmt.Sprintf("args/diff/%02d", p), func(c *mon.Case) {
			g, _ := socks.Greeting([]byte{2})
			rq, _ := socks.RequestMessage(socks.CmdConnect, socks.IPv4Dest(192, 0, 2, 1, 443))
			n := 0
			var rec func(cur []byte)
			rec = func(cur []byte) {
				s := string(cur)
				at := len(s)
				if n%2 == 1 { // cut somewhere inside, so that escapes straddle the two fields
					at = 1 + n%(len(s)-1)
				}
				n++
				user, pass, _ := socks.SplitUserPass(s, at)
				a, _ := socks.AuthMessage(user, pass)
				sc := classify("args/diff", g, a, rq)
				if sc.enc != s && sc.okAllowed {
					h.r.Inconclusive("harness: args/diff transport changed the string")
				}
				h.countDiff(sc)
				h.run(c, sc)
				h.r.Distinct("nontrivial", "diff|"+s)
				if len(cur) < maxLen {
					for _, x := range alpha {
						rec(append(cur, x))
					}
				}
			}
			rec([]byte{alpha[p/5], alpha[p%5]})
			if p < 5 { // the five one-symbol strings
				s := string(alpha[p : p+1])
				a, _ := socks.AuthMessage([]byte(s), []byte{0})
				sc := classify("args/diff", g, a, rq)
				h.countDiff(sc)
				h.eval(c, sc)
			}
		})
	}
}

func (h *H) countDiff(sc *scenario) {
	switch {
	case sc.pureValid():
		h.r.Count("diff_strings_valid", 1)
	case sc.pureReject():
		h.r.Count("diff_strings_malformed", 1)
	default:
		h.r.Count("diff_strings_unspecified_escape", 1)
	}
}

var methodLists = [][]byte{{}, {0}, {2}, {0, 2}, {2, 0}, {1}, {1, 3}, {0, 1}, {1, 0}, {1, 2}, {2, 1}, {0xff}, {0xff, 2}, {0xff, 0}, {0, 0, 0}, {2, 2, 2},
	{3, 4, 5, 6, 7, 8, 9}, {0x80}, {0x80, 0xfe}, {0xfe, 0, 1}, {1, 3, 5, 2}}

func (h *H) methodCases() {
	r := h.r
	dest := socks.DomainDest([]byte("bridge.example"), 443)
	pairs := []socks.KV{{Key: "k", Value: "v;w"}, {Key: "k", Value: ""}}
	enc, _ := socks.EncodeArgs(pairs, socks.EqBare, nil)
	mk := func(class string, m []byte) *scenario {
		if socks.SelectMethod(m) == socks.MethodUserPass {
			return h.valid(class, m, pairs, enc, len(enc), dest)
		}
		return h.valid(class, m, nil, "", 0, dest)
	}
	r.Bubble("methods/single", func(c *mon.Case) {
		for x := 0; x < 256; x++ {
			h.eval(c, mk("methods/single", []byte{byte(x)}))
		}
	})
	r.Bubble("methods/lists", func(c *mon.Case) {
		rng := mon.NewRand(r.Sub("methodlists"))
		lists := append([][]byte(nil), methodLists...)
		for _, pos := range []int{0, 1, 127, 253, 254} {
			for _, want := range []byte{0, 2} {
				m := fill(255, 1)
				m[pos] = want
				lists = append(lists, m)
			}
		}
		lists = append(lists, fill(255, 1), fill(255, 0), fill(255, 2), fill(255, 0xff))
		both := fill(255, 7)
		both[3], both[200] = 0, 2
		lists = append(lists, both)
		for _, m := range lists {
			h.eval(c, h.dress(mk("methods/list", m), rng))
		}
		for i := 0; i < r.Pick(2000, 20000); i++ {
			n := rng.IntN(256)
			if rng.IntN(2) == 0 {
				n = rng.IntN(6)
			}
			m := make([]byte, n)
			for j := range m {
				switch rng.IntN(4) {
				case 0:
					m[j] = byte(rng.IntN(4))
				default:
					m[j] = byte(3 + rng.IntN(253))
				}
			}
			h.eval(c, h.dress(mk("methods/prng", m), rng))
		}
	})
}
