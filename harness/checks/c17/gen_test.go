package c17

import (
	"fmt"
	"math/rand/v2"
	"net"
	"sort"
	"time"

	"verif/memwire"
	"verif/mon"
	"verif/ref/socks"
)

const ruleNote = "Every evaluation is one complete exchange between the reference client (ref/socks) and socks5.Handshake over a recording in-memory wire in virtual time. " +
	"Valid exchanges: enumerated targets (IPv4/IPv6 edge lists x port edges, every domain length 1..255 x 6 byte styles, special domains) and PRNG ones; argument maps by PRNG over an escape-heavy byte alphabet (specials, NUL, 8-bit), " +
	"every encoded length x every admissible username/password cut, known pt-spec strings; method lists enumerated (every single method, listed combinations, 255 entries) and PRNG; " +
	"segmentation: every two-segment cut of each message of 4 fixed exchanges with virtual pauses 1ns..4.9s, byte-wise, PRNG n-segment plans and server-side short-read policies. " +
	"Malformed: every wrong value of every fixed field, every argument string over {\\,;,=,a,b} up to a length bound judged by the reference decoder, truncation at every offset (EOF and silence), trailing bytes, pipelining, " +
	"and PRNG mutations / random messages judged by reference server-side readers. A case is non-trivial when it is a full exchange; distinct = distinct (class, client bytes, segment plan, read policy, cut, reply code). " +
	"Not demanded (property leaves it open): which failure code is used; failure reply vs. silent close; RSV!=0 and empty domain (reject or accept unchanged); a backslash before an ordinary byte (reject or literal); " +
	"trailing bytes/pipelining (reject, or accept unchanged); a real password that is the single byte NUL is indistinguishable from tor's no-password marker, so both readings are accepted; the form of BND.ADDR in replies."

func exhaustiveNote(r *mon.Run) string {
	return fmt.Sprintf("all argument strings over the 5-symbol alphabet {\\ ; = a b} of length 1..%d (differential against the reference decoder); every wrong value of VER/CMD/RSV/ATYP/auth-VER and every single-method greeting; every two-segment cut and every truncation offset of the fixed exchanges; every username/password cut of the enumerated encoded lengths; all 256 reply codes",
		r.Pick(7, 8))
}

var v4Edges = [][4]byte{{0, 0, 0, 0}, {255, 255, 255, 255}, {127, 0, 0, 1}, {1, 2, 3, 4}, {0, 0, 0, 1}, {1, 0, 0, 0}, {255, 0, 0, 0},
	{0, 255, 0, 255}, {128, 0, 0, 0}, {10, 0, 0, 1}, {192, 0, 2, 1}, {224, 0, 0, 1}, {169, 254, 0, 1}, {100, 64, 0, 0}}

var v6EdgeText = []string{"::", "::1", "::ffff:1.2.3.4", "::ffff:0.0.0.0", "::ffff:255.255.255.255", "::1.2.3.4", "2001:db8::1",
	"102:304:506:708:90a:b0c:d0e:f10", "ffff:ffff:ffff:ffff:ffff:ffff:ffff:ffff", "fe80::1", "1::", "0:0:1::", "64:ff9b::102:304",
	"2001:db8:0:0:1:0:0:1", "::ffff:0:0:0", "ff02::1:ff00:1", "0:1:0:1:0:1:0:1", "1:0:0:0:0:0:0:0", "::ffff:ffff:ffff", "0:0:0:0:0:fffe:102:304"}

func v6Edges() [][16]byte {
	var out [][16]byte
	for _, s := range v6EdgeText {
		var a [16]byte
		copy(a[:], net.ParseIP(s).To16())
		out = append(out, a)
	}
	return out
}

var portEdges = []uint16{0, 1, 80, 255, 256, 443, 0x235a, 0x5a23, 32767, 32768, 65534, 65535}

var specialDomains = []string{"a", ".", ":", "::1", "[::1]", "1.2.3.4", "example.com", "example.com.", "example.com:80", "a b", "\x00", "x\x00y",
	"\xc3\xbc.example", "%", "[", "]", "a]:1", "[a", "0", "65535", ":80", "a:", "::", "\xff", "\x80\x00\xff", "xn--nxasmq6b.example", "fe80::1%eth0",
	"\r\n", "a\\b", "a;b=c", "localhost"}

func fill(n int, b byte) []byte {
	out := make([]byte, n)
	for i := range out {
		out[i] = b
	}
	return out
}

// genDomain: n bytes in one of 6 styles.
func genDomain(rng *rand.Rand, n, style int) []byte {
	out := make([]byte, n)
	switch style {
	case 0:
		for i := range out {
			out[i] = "abcdefghijklmnopqrstuvwxyz0123456789-."[rng.IntN(38)]
		}
	case 1:
		for i := range out {
			out[i] = byte(rng.IntN(256))
		}
	case 2:
		return fill(n, 0)
	case 3:
		return fill(n, 0xff)
	case 4:
		for i := range out {
			out[i] = ":[]%.0123456789abcdef"[rng.IntN(21)]
		}
	default:
		for i := range out {
			out[i] = []byte{0, 0x80, 0xc3, 0xbc, 0xe2, 0x82, 0xac, 0xfe, ' ', ':'}[rng.IntN(10)]
		}
	}
	return out
}

func genDest(rng *rand.Rand) socks.Dest {
	port := uint16(rng.IntN(65536))
	if rng.IntN(3) == 0 {
		port = portEdges[rng.IntN(len(portEdges))]
	}
	switch rng.IntN(3) {
	case 0:
		if rng.IntN(3) == 0 {
			e := v4Edges[rng.IntN(len(v4Edges))]
			return socks.IPv4Dest(e[0], e[1], e[2], e[3], port)
		}
		return socks.IPv4Dest(byte(rng.IntN(256)), byte(rng.IntN(256)), byte(rng.IntN(256)), byte(rng.IntN(256)), port)
	case 1:
		return socks.IPv6Dest(genV6(rng), port)
	}
	n := 1 + rng.IntN(255)
	if rng.IntN(2) == 0 {
		n = 1 + rng.IntN(24)
	}
	return socks.DomainDest(genDomain(rng, n, rng.IntN(6)), port)
}

func genV6(rng *rand.Rand) [16]byte {
	var a [16]byte
	for i := range a {
		a[i] = byte(rng.IntN(256))
	}
	// zero runs, so that "::" compression appears at every position
	if rng.IntN(2) == 0 {
		from := rng.IntN(8)
		to := from + 1 + rng.IntN(8-from)
		for i := from * 2; i < to*2; i++ {
			a[i] = 0
		}
	}
	return a
}

// genBytes: n bytes from an escape-heavy alphabet.
func genBytes(rng *rand.Rand, n int, heavy bool) string {
	b := make([]byte, n)
	for i := range b {
		x := rng.IntN(100)
		sp := 25
		if heavy {
			sp = 55
		}
		switch {
		case x < sp:
			b[i] = `\;=`[rng.IntN(3)]
		case x < sp+10:
			b[i] = []byte{0, 0xff, 0x80, 0x7f, 0xc3}[rng.IntN(5)]
		case x < sp+20:
			b[i] = byte(rng.IntN(256))
		default:
			b[i] = "abcdefghijklmnopqrstuvwxyzABCDEFGHIJKLMNOPQRSTUVWXYZ0123456789+/-_. \"'"[rng.IntN(70)]
		}
	}
	return string(b)
}

func escCost(s string, key bool) int {
	n := len(s)
	for i := 0; i < len(s); i++ {
		if s[i] == '\\' || s[i] == ';' || s[i] == '=' {
			n++ // worst case ('=' in a value may stay bare)
		}
	}
	_ = key
	return n
}

// genPairs: argument pairs whose encoding has at most budget (>= 2) bytes in
// any mode: repeated keys, empty values, escapes, 8-bit bytes.
func genPairs(rng *rand.Rand, budget int, heavy bool) []socks.KV {
	var pairs []socks.KV
	used := 0
	maxPairs := 1 + rng.IntN(12)
	for len(pairs) < maxPairs {
		k := genBytes(rng, 1+rng.IntN(8), heavy)
		if len(pairs) > 0 && rng.IntN(5) == 0 {
			k = pairs[rng.IntN(len(pairs))].Key
		}
		vl := rng.IntN(24)
		switch rng.IntN(8) {
		case 0:
			vl = 0
		case 1:
			vl = rng.IntN(200)
		}
		v := genBytes(rng, vl, heavy)
		cost := escCost(k, true) + 1 + escCost(v, false)
		if len(pairs) > 0 {
			cost++
		}
		if used+cost > budget {
			break
		}
		used += cost
		pairs = append(pairs, socks.KV{Key: k, Value: v})
	}
	if len(pairs) == 0 {
		pairs = []socks.KV{{Key: "k", Value: ""}}
	}
	return pairs
}

// genEncoded: pairs and their encoding of exactly L (>= 2) bytes.
func genEncoded(rng *rand.Rand, L int, heavy bool) ([]socks.KV, string) {
	pairs := genPairs(rng, L, heavy)
	mode := socks.EqMode(rng.IntN(3))
	enc, err := socks.EncodeArgs(pairs, mode, func() bool { return rng.IntN(2) == 0 })
	if err != nil {
		panic(err)
	}
	if pad := L - len(enc); pad > 0 {
		f := make([]byte, pad)
		for i := range f {
			f[i] = []byte("xyzXYZ019\x00\x80\xff")[rng.IntN(12)]
		}
		f[pad-1] = 'z' // never end in NUL: keeps the no-password ambiguity out of the valid classes
		last := &pairs[len(pairs)-1]
		last.Value += string(f)
		enc += string(f)
	}
	if len(enc) != L {
		panic(fmt.Sprintf("genEncoded: %d != %d", len(enc), L))
	}
	return pairs, enc
}

var methodListsWithArgs = [][]byte{{2}, {0, 2}, {2, 0}, {0, 1, 2}, {0x80, 2, 0}, {2, 2}, {1, 2}, {0xfe, 0, 0, 2}}

// ---------------------------------------------------------------- plans

func planTwo(st, off int, pause time.Duration) *segPlan {
	p := &segPlan{name: "two"}
	p.cuts[st] = []int{off}
	p.pauses[st] = []time.Duration{pause}
	return p
}

func planBytewise(lens [3]int, pause time.Duration) *segPlan {
	p := &segPlan{name: "bytewise"}
	for s := 0; s < 3; s++ {
		for o := 1; o < lens[s]; o++ {
			p.cuts[s] = append(p.cuts[s], o)
			p.pauses[s] = append(p.pauses[s], pause)
		}
	}
	return p
}

func planPRNG(rng *rand.Rand, lens [3]int) *segPlan {
	p := &segPlan{name: "prng"}
	var budget time.Duration
	switch rng.IntN(4) {
	case 0:
		budget = 100 * time.Nanosecond
	case 1:
		budget = time.Duration(1+rng.IntN(1000)) * time.Millisecond
	case 2:
		budget = time.Duration(1000+rng.IntN(3900)) * time.Millisecond
	default:
		budget = maxPause
	}
	var weights []int
	total := 0
	for s := 0; s < 3; s++ {
		if lens[s] < 2 {
			continue
		}
		n := rng.IntN(9) // cuts
		if rng.IntN(8) == 0 {
			n = rng.IntN(lens[s])
		}
		seen := map[int]bool{}
		for i := 0; i < n; i++ {
			seen[1+rng.IntN(lens[s]-1)] = true
		}
		for c := range seen {
			p.cuts[s] = append(p.cuts[s], c)
		}
		sort.Ints(p.cuts[s])
		for range p.cuts[s] {
			w := 1 + rng.IntN(100)
			weights = append(weights, w)
			total += w
		}
	}
	i := 0
	for s := 0; s < 3; s++ {
		for range p.cuts[s] {
			d := time.Duration(int64(budget) * int64(weights[i]) / int64(total))
			if d < 1 {
				d = 1
			}
			p.pauses[s] = append(p.pauses[s], d)
			i++
		}
	}
	if p.total() > maxPause { // rounding up of tiny pauses can never exceed this, but stay safe
		return nil
	}
	return p
}

func pickPolicy(rng *rand.Rand) (memwire.ChunkPolicy, string) {
	switch rng.IntN(7) {
	case 0:
		return memwire.Fixed(1), "fixed1"
	case 1:
		return memwire.Fixed(2), "fixed2"
	case 2:
		return memwire.Fixed(3 + rng.IntN(14)), "fixedN"
	case 3:
		return memwire.PRNG(rng.Uint64(), 5), "prng5"
	case 4:
		return memwire.PRNG(rng.Uint64(), 64), "prng64"
	}
	return nil, "all"
}

// ---------------------------------------------------------------- valid scenarios

// valid builds the scenario of a conforming step-by-step client.  pairs may be
// empty when methods does not offer username/password.
func (h *H) valid(class string, methods []byte, pairs []socks.KV, enc string, at int, dest socks.Dest) *scenario {
	sc := &scenario{class: class, methods: methods, cmd: socks.CmdConnect, dest: dest, limit: -1, okAllowed: true, fMin: 3, fMax: -1}
	sc.mExp = socks.SelectMethod(methods)
	switch sc.mExp {
	case socks.MethodUserPass:
		user, pass, err := socks.SplitUserPass(enc, at)
		if err != nil {
			panic(err)
		}
		sc.user, sc.pass, sc.enc = user, pass, enc
		sc.argMaps = []argmap{socks.ToMap(pairs)}
		if socks.AmbiguousSplit(enc, at) {
			// The password really is the single byte NUL: on the wire this is
			// tor's "no password" marker.  Both readings are admissible.
			sc.class = "ambig/nul-password"
			maps, mayErr := admissible(enc[:len(enc)-1])
			sc.argMaps = append(sc.argMaps, maps...)
			if mayErr {
				sc.mayFail(stA)
			}
			return sc
		}
		if at < len(enc) {
			sc.realSpill = len(enc) - at
		}
		sc.nonCanon = at != socks.CanonicalSplit(len(enc))
	case socks.MethodNone:
		sc.argMaps = []argmap{{}}
	default:
		sc.okAllowed = false
		sc.mayFail(stG)
	}
	// harness self-consistency: the message-level reference classification
	// has to agree with the expectation derived from the source values
	g, a, rq := sc.messages()
	ref := classify(class, g, a, rq)
	agree := ref.okAllowed == sc.okAllowed && ref.errAllowed == sc.errAllowed && ref.mExp == sc.mExp
	if agree && sc.okAllowed {
		agree = len(ref.argMaps) == 1 && socks.MapsEqual(ref.argMaps[0], sc.argMaps[0]) && ref.dest.Atyp == dest.Atyp &&
			string(ref.dest.IP) == string(dest.IP) && string(ref.dest.Domain) == string(dest.Domain) && ref.dest.Port == dest.Port
	}
	if !agree {
		h.r.Inconclusive("harness: source-level expectation and reference message classification disagree in class " + class + ": " + sc.describe())
	}
	return sc
}

// exchange is a fixed conforming exchange used by the enumerating classes.
type exchange struct {
	name    string
	methods []byte
	pairs   []socks.KV
	enc     string
	at      int
	dest    socks.Dest
}

const nExchanges = 4

func (h *H) exchange(i int) exchange {
	rng := mon.NewRand(h.r.Sub("exchange", i))
	switch i {
	case 0: // everything at its maximum size
		m := make([]byte, 255)
		for j := range m {
			m[j] = []byte{1, 3, 4, 0x80, 0xfe}[rng.IntN(5)]
		}
		m[254] = 2
		pairs, enc := genEncoded(rng, 510, true)
		return exchange{"max", m, pairs, enc, 255, socks.DomainDest(genDomain(rng, 255, 1), 65535)}
	case 1: // what tor sends for an obfs4 bridge
		cert := "bm9uZXhpc3RlbnQ+Y2VydC9mb3IrdGVzdGluZy9wdXJwb3Nlcy9vbmx5L2Fh+/AAAAAAAAAAAAAAAA=="
		pairs := []socks.KV{{Key: "cert", Value: cert}, {Key: "iat-mode", Value: "0"}}
		enc, _ := socks.EncodeArgs(pairs, socks.EqBare, nil)
		return exchange{"tor", []byte{0, 2}, pairs, enc, len(enc), socks.IPv4Dest(192, 0, 2, 7, 443)}
	case 2: // no arguments
		var a [16]byte
		copy(a[:], net.ParseIP("2001:db8::1").To16())
		return exchange{"noauth", []byte{0}, nil, "", 0, socks.IPv6Dest(a, 9001)}
	default: // spill with a non-canonical cut
		pairs, enc := genEncoded(rng, 300, true)
		return exchange{"spill", []byte{2}, pairs, enc, 128, socks.DomainDest([]byte("example.com"), 1)}
	}
}

func (h *H) fromExchange(class string, ex exchange) *scenario {
	return h.valid(class, ex.methods, ex.pairs, ex.enc, ex.at, ex.dest)
}

func lensOf(sc *scenario) [3]int {
	g, a, r := sc.messages()
	return [3]int{len(g), len(a), len(r)}
}

// genValid: a PRNG conforming exchange.
func (h *H) genValid(class string, rng *rand.Rand) *scenario {
	dest := genDest(rng)
	if rng.IntN(6) == 0 {
		m := [][]byte{{0}, {0, 1}, {3, 0}, {0, 0}}[rng.IntN(4)]
		return h.valid(class, m, nil, "", 0, dest)
	}
	L := 2 + rng.IntN(60)
	switch rng.IntN(6) {
	case 0:
		L = 2 + rng.IntN(509)
	case 1:
		L = 250 + rng.IntN(12)
	}
	pairs, enc := genEncoded(rng, L, rng.IntN(2) == 0)
	at := socks.CanonicalSplit(L)
	if rng.IntN(3) == 0 {
		lo := L - 255
		if lo < 1 {
			lo = 1
		}
		hi := L
		if hi > 255 {
			hi = 255
		}
		at = lo + rng.IntN(hi-lo+1)
	}
	m := methodListsWithArgs[rng.IntN(len(methodListsWithArgs))]
	if rng.IntN(20) == 0 {
		m = make([]byte, 255)
		for j := range m {
			m[j] = byte(rng.IntN(256))
		}
		m[rng.IntN(255)] = 2
	}
	return h.valid(class, m, pairs, enc, at, dest)
}

func (h *H) dress(sc *scenario, rng *rand.Rand) *scenario {
	switch rng.IntN(3) {
	case 0:
		sc.plan = planPRNG(rng, lensOf(sc))
	case 1:
		sc.policy, sc.policyName = pickPolicy(rng)
	}
	sc.replyCode = byte(rng.IntN(9))
	if rng.IntN(10) == 0 {
		sc.replyCode = byte(rng.IntN(256))
	}
	return sc
}
