package c17

// Several SOCKS5 exchanges at the same time in one process.  Each client sends
// its own target and arguments (domain targets and argument values derived
// from its index, delivered in small segments so that the exchanges really
// interleave); every front-end result must be the one of its own client.
// Whatever Handshake keeps between reads (buffers, scratch space) must belong
// to the exchange.

import (
	"fmt"
	"net"
	"strconv"
	"sync"

	"gitlab.com/yawning/obfs4.git/common/socks5"

	"verif/memwire"
	"verif/mon"
	socks "verif/ref/socks"
)

func concurrentExchanges(c *mon.Case, r *mon.Run, k int, seed uint64) {
	rng := mon.NewRand(seed)
	type want struct {
		target string
		args   map[string][]string
	}
	wants := make([]want, k)
	msgs := make([][3][]byte, k)
	for i := 0; i < k; i++ {
		host := fmt.Sprintf("host-%d-%06x.example", i, rng.IntN(1<<24))
		port := uint16(1000 + i)
		pairs := []socks.KV{{Key: "cert", Value: fmt.Sprintf("c%d/%x;=\\%d", i, rng.Uint64(), i)}, {Key: "iat-mode", Value: strconv.Itoa(i % 3)}, {Key: fmt.Sprintf("k%d", i), Value: string([]byte{byte(0x80 + i), 'x', ';'})}}
		enc, err := socks.EncodeArgs(pairs, 0, func() bool { return false })
		if err != nil {
			c.Violation("harness/encode-args", err.Error(), nil)
			return
		}
		user, pass, err := socks.SplitUserPass(enc, socks.CanonicalSplit(len(enc)))
		if err != nil {
			c.Violation("harness/split-args", err.Error(), nil)
			return
		}
		g, _ := socks.Greeting([]byte{2})
		a, _ := socks.AuthMessage(user, pass)
		rq, _ := socks.RequestMessage(1, socks.DomainDest([]byte(host), port))
		msgs[i] = [3][]byte{g, a, rq}
		wants[i] = want{net.JoinHostPort(host, strconv.Itoa(int(port))), socks.ToMap(pairs)}
	}
	var wg sync.WaitGroup
	okN := 0
	var mu sync.Mutex
	for i := 0; i < k; i++ {
		i := i
		cw, sw := memwire.Pair(memwire.Options{})
		cw.Out().SetPolicy(memwire.Fixed(1 + i%5))
		wg.Add(2)
		c.Go(wg.Done, func() {
			// step by step client: greeting, read method selection, auth, read status, request
			buf := make([]byte, 2)
			cw.Write(msgs[i][0])
			if _, err := readFull(cw, buf); err != nil {
				return
			}
			cw.Write(msgs[i][1])
			if _, err := readFull(cw, buf); err != nil {
				return
			}
			cw.Write(msgs[i][2])
		})
		c.Go(wg.Done, func() {
			defer sw.Close()
			req, err, pan := safeHandshake(sw)
			switch {
			case pan != "":
				c.Violation("panic/handshake/concurrent", pan, nil)
			case err != nil:
				c.Violation("valid-rejected/concurrent", fmt.Sprintf("%d exchanges at once: exchange %d failed: %v", k, i, err), nil)
			case req.Target != wants[i].target:
				c.Violation("target-mismatch/concurrent", fmt.Sprintf("%d exchanges at once: exchange %d sent target %q, the front end reports %q", k, i, wants[i].target, req.Target), nil)
			case !socks.MapsEqual(map[string][]string(req.Args), wants[i].args):
				c.Violation("args-mismatch/concurrent", fmt.Sprintf("%d exchanges at once: exchange %d sent %v, the front end reports %v", k, i, wants[i].args, req.Args), nil)
			default:
				mu.Lock()
				okN++
				mu.Unlock()
				req.Reply(socks5.ReplySucceeded)
			}
		})
	}
	wg.Wait()
	r.Count("evaluations", int64(k))
	r.Count("concurrent_exchange_groups", 1)
	r.Count("concurrent_exchanges_verified", int64(okN))
	r.Distinct("nontrivial", fmt.Sprintf("concurrent/%d/%x", k, seed))
}

func readFull(c net.Conn, b []byte) (int, error) {
	n := 0
	for n < len(b) {
		m, err := c.Read(b[n:])
		n += m
		if err != nil {
			return n, err
		}
	}
	return n, nil
}
