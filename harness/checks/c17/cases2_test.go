package c17

import (
	"fmt"
	"math/rand/v2"
	"time"

	"verif/memwire"
	"verif/mon"
	"verif/ref/socks"
)

var twoPauses = []time.Duration{time.Nanosecond, time.Millisecond, time.Second, maxPause}

func fixedPolicy(i int) (memwire.ChunkPolicy, string) {
	switch i % 3 {
	case 1:
		return memwire.Fixed(1), "fixed1"
	case 2:
		return memwire.PRNG(uint64(i), 7), "prng7"
	}
	return nil, "all"
}

// segCases: how the client's bytes are cut into segments.
func (h *H) segCases() {
	r := h.r
	for ex := 0; ex < nExchanges; ex++ {
		ex := ex
		for st := 0; st < 3; st++ {
			st := st
			for b := 0; b < 4; b++ {
				b := b
				r.Bubble(fmt.Sprintf("seg/two/ex%d/%s/%d", ex, socks.Stage(st), b), func(c *mon.Case) {
					e := h.exchange(ex)
					lens := lensOf(h.fromExchange("seg/two", e))
					for off := 1 + b; off < lens[st]; off += 4 {
						nv := r.Pick(1, 12)
						for v := 0; v < nv; v++ {
							sc := h.fromExchange("seg/two/"+socks.Stage(st).String(), e)
							pi := off/4 + v
							sc.plan = planTwo(st, off, twoPauses[pi%4])
							sc.policy, sc.policyName = fixedPolicy(v / 4)
							sc.replyCode = byte(off % 9)
							h.eval(c, sc)
						}
					}
				})
			}
		}
		r.Bubble(fmt.Sprintf("seg/bytewise/ex%d", ex), func(c *mon.Case) {
			e := h.exchange(ex)
			for v := 0; v < 6; v++ {
				sc := h.fromExchange("seg/bytewise", e)
				lens := lensOf(sc)
				n := lens[0] + lens[1] + lens[2]
				pause := []time.Duration{time.Nanosecond, time.Microsecond, maxPause / time.Duration(n)}[v%3]
				sc.plan = planBytewise(lens, pause)
				sc.policy, sc.policyName = fixedPolicy(v / 3)
				h.eval(c, sc)
			}
			if ex == 0 {
				sc := h.fromExchange("seg/bytewise", e)
				g, a, rq := sc.messages()
				r.Sample(map[string]any{"kind": "seg/bytewise max-size exchange", "greeting_bytes": len(g), "auth_bytes": len(a), "request_bytes": len(rq), "encoded_args": len(e.enc)})
			}
		})
	}
	nPer := r.Pick(2000, 25000)
	for b := 0; b < 16; b++ {
		b := b
		r.Bubble(fmt.Sprintf("seg/prng/%02d", b), func(c *mon.Case) {
			rng := mon.NewRand(r.Sub("segprng", b))
			for i := 0; i < nPer; i++ {
				sc := h.genValid("seg/prng", rng)
				sc.plan = planPRNG(rng, lensOf(sc))
				if rng.IntN(2) == 0 {
					sc.policy, sc.policyName = pickPolicy(rng)
				}
				sc.replyCode = byte(rng.IntN(9))
				h.eval(c, sc)
			}
		})
	}
	for b := 0; b < 8; b++ {
		b := b
		r.Bubble(fmt.Sprintf("seg/policy/%d", b), func(c *mon.Case) {
			rng := mon.NewRand(r.Sub("segpolicy", b))
			for i := 0; i < r.Pick(1000, 8000); i++ {
				sc := h.genValid("seg/policy", rng)
				switch b {
				case 0:
					sc.policy, sc.policyName = memwire.Fixed(1), "fixed1"
				case 1:
					sc.policy, sc.policyName = memwire.Fixed(2), "fixed2"
				case 2:
					sc.policy, sc.policyName = memwire.Fixed(3+i%13), "fixedN"
				case 3:
					sc.policy, sc.policyName = memwire.PRNG(rng.Uint64(), 3), "prng3"
				case 4:
					sc.policy, sc.policyName = memwire.PRNG(rng.Uint64(), 300), "prng300"
				case 5:
					sc.policy, sc.policyName = memwire.Script([]int{1, 1, 1, 2, 1, 3}, memwire.All()), "script"
				default:
					sc.policy, sc.policyName = pickPolicy(rng)
				}
				h.eval(c, sc)
			}
		})
	}
}

// malformedPlans: a bad field is tried whole, cut right behind the bad byte
// (with a pause) and byte-wise.
func (h *H) malformedVariants(c *mon.Case, class string, g, a, rq []byte, st, badOff, idx int) {
	for v := 0; v < 3; v++ {
		sc := classify(class, g, a, rq)
		switch v {
		case 1:
			ga, aa, ra := sc.messages()
			l := [3]int{len(ga), len(aa), len(ra)}
			if badOff+1 < l[st] {
				sc.plan = planTwo(st, badOff+1, twoPauses[idx%3])
			}
		case 2:
			ga, aa, ra := sc.messages()
			sc.plan = planBytewise([3]int{len(ga), len(aa), len(ra)}, time.Millisecond)
			sc.policy, sc.policyName = fixedPolicy(idx)
		}
		h.eval(c, sc)
	}
}

func (h *H) malformedCases() {
	r := h.r
	user, pass, _ := socks.SplitUserPass("k=v;x=y", 7)
	okG, _ := socks.Greeting([]byte{0, 2})
	okG0, _ := socks.Greeting([]byte{0})
	okA, _ := socks.AuthMessage(user, pass)
	dests := []socks.Dest{socks.IPv4Dest(192, 0, 2, 1, 443), socks.DomainDest([]byte("bridge.example"), 9001)}
	var a6 [16]byte
	a6[0], a6[15] = 0x20, 1
	dests = append(dests, socks.IPv6Dest(a6, 80))
	okR := func(i int) []byte { b, _ := socks.RequestMessage(socks.CmdConnect, dests[i%3]); return b }
	cp := func(b []byte) []byte { return append([]byte(nil), b...) }

	r.Bubble("malformed/greeting/ver", func(c *mon.Case) {
		for x := 0; x < 256; x++ {
			if x == socks.Ver5 {
				continue
			}
			g := cp(okG)
			g[0] = byte(x)
			h.malformedVariants(c, "malformed/greeting/ver", g, okA, okR(x), stG, 0, x)
		}
	})
	r.Bubble("malformed/greeting/nmethods", func(c *mon.Case) {
		// declared count larger than the list that follows; the client then waits
		// for a reply that cannot come (silence up to the front end's deadline)
		for n := 1; n < 256; n++ {
			for _, have := range []int{0, n / 2, n - 1} {
				g := append([]byte{5, byte(n)}, fill(have, 2)...)
				h.eval(c, classify("malformed/greeting/nmethods-too-large", g, okA, okR(n)))
			}
		}
		// no methods at all
		h.malformedVariants(c, "malformed/greeting/nmethods-zero", []byte{5, 0}, okA, okR(0), stG, 1, 0)
		// only unusable methods
		h.malformedVariants(c, "malformed/greeting/no-usable-method", []byte{5, 3, 1, 3, 0x80}, okA, okR(0), stG, 4, 1)
	})
	r.Bubble("malformed/auth/ver", func(c *mon.Case) {
		for x := 0; x < 256; x++ {
			if x == socks.AuthVer {
				continue
			}
			a := cp(okA)
			a[0] = byte(x)
			h.malformedVariants(c, "malformed/auth/ver", okG, a, okR(x), stA, 0, x)
		}
	})
	r.Bubble("malformed/auth/len0", func(c *mon.Case) {
		rng := mon.NewRand(r.Sub("len0"))
		for i := 0; i < r.Pick(400, 3000); i++ {
			_, enc := genEncoded(rng, 2+rng.IntN(250), i%2 == 0)
			if i < 3 {
				enc = []string{"k=v", "key=value", "shared-secret=rahasia;secrets-file=/tmp/blob"}[i]
			}
			// ULEN = 0, the whole (valid) argument string in the password
			a := append([]byte{1, 0, byte(len(enc))}, enc...)
			h.malformedVariants(c, "malformed/auth/ulen0", okG, a, okR(i), stA, 1, i)
			// ULEN = 0, NUL password
			h.eval(c, classify("malformed/auth/ulen0", okG, []byte{1, 0, 1, 0}, okR(i)))
			// PLEN = 0 after a valid argument string
			a = append(append([]byte{1, byte(len(enc))}, enc...), 0)
			h.malformedVariants(c, "malformed/auth/plen0", okG, a, okR(i), stA, len(a)-1, i)
			// both zero
			h.eval(c, classify("malformed/auth/ulen0", okG, []byte{1, 0, 0}, okR(i)))
		}
	})
	r.Bubble("malformed/request/ver", func(c *mon.Case) {
		for x := 0; x < 256; x++ {
			if x == socks.Ver5 {
				continue
			}
			q := okR(x)
			q[0] = byte(x)
			h.malformedVariants(c, "malformed/request/ver", okG, okA, q, stR, 0, x)
			h.eval(c, classify("malformed/request/ver", okG0, nil, q))
		}
	})
	r.Bubble("malformed/request/cmd", func(c *mon.Case) {
		for x := 0; x < 256; x++ {
			if x == socks.CmdConnect {
				continue
			}
			q := okR(x)
			q[1] = byte(x)
			class := "malformed/request/cmd-other"
			if x == socks.CmdBind || x == socks.CmdUDP {
				class = "malformed/request/cmd-bind-udp"
			}
			h.malformedVariants(c, class, okG, okA, q, stR, 1, x)
			if x == socks.CmdBind {
				r.Sample(map[string]any{"kind": class, "greeting": hx(okG), "auth": hx(okA), "request": hx(q), "expect": "Handshake error; server bytes = 0502 0100 then nothing or one reply with REP != 0"})
			}
			h.eval(c, classify(class, okG0, nil, q))
		}
	})
	r.Bubble("malformed/request/atyp", func(c *mon.Case) {
		for x := 0; x < 256; x++ {
			if x == socks.AtypIPv4 || x == socks.AtypDomain || x == socks.AtypIPv6 {
				continue
			}
			for i := 0; i < 3; i++ {
				q := okR(i)
				q[3] = byte(x)
				h.malformedVariants(c, "malformed/request/atyp", okG, okA, q, stR, 3, x)
			}
		}
	})
	// the RFC obliges only the client here: reject, or accept unchanged
	r.Bubble("either/request/rsv", func(c *mon.Case) {
		for x := 1; x < 256; x++ {
			q := okR(x)
			q[2] = byte(x)
			h.malformedVariants(c, "either/request/rsv-nonzero", okG, okA, q, stR, 2, x)
		}
	})
	r.Bubble("either/request/empty-domain", func(c *mon.Case) {
		for _, port := range portEdges {
			q := []byte{5, 1, 0, 3, 0, byte(port >> 8), byte(port)}
			h.malformedVariants(c, "either/request/empty-domain", okG, okA, q, stR, 4, int(port))
		}
	})
}

func stageOf(k int, lens [3]int) int {
	if k < lens[0] {
		return stG
	}
	if k < lens[0]+lens[1] {
		return stA
	}
	return stR
}

// truncCases: the client's stream ends (EOF) or falls silent after k bytes.
func (h *H) truncCases() {
	r := h.r
	for ex := 0; ex < nExchanges; ex++ {
		ex := ex
		for b := 0; b < 4; b++ {
			b := b
			r.Bubble(fmt.Sprintf("trunc/eof/ex%d/%d", ex, b), func(c *mon.Case) {
				rng := mon.NewRand(r.Sub("trunc", ex, b))
				e := h.exchange(ex)
				lens := lensOf(h.fromExchange("trunc/eof", e))
				total := lens[0] + lens[1] + lens[2]
				for k := b; k < total; k += 4 {
					for v := 0; v < r.Pick(1, 6); v++ {
						sc := h.fromExchange("trunc/eof", e)
						sc.limit = k
						sc.mustFail(stageOf(k, lens))
						switch (k/4 + v) % 3 {
						case 1:
							sc.plan = planPRNG(rng, lens)
						case 2:
							sc.policy, sc.policyName = pickPolicy(rng)
						}
						h.eval(c, sc)
					}
				}
			})
		}
		r.Bubble(fmt.Sprintf("trunc/silence/ex%d", ex), func(c *mon.Case) {
			rng := mon.NewRand(r.Sub("silence", ex))
			e := h.exchange(ex)
			lens := lensOf(h.fromExchange("trunc/silence", e))
			total := lens[0] + lens[1] + lens[2]
			ks := []int{0, 1, lens[0] - 1, lens[0], lens[0] + 1, lens[0] + lens[1] - 1, lens[0] + lens[1], lens[0] + lens[1] + 1, total - 2, total - 1}
			for i := 0; i < r.Pick(10, 200); i++ {
				ks = append(ks, rng.IntN(total))
			}
			for _, k := range ks {
				if k < 0 || k >= total {
					continue
				}
				sc := h.fromExchange("trunc/silence", e)
				sc.limit, sc.silence = k, true
				sc.mustFail(stageOf(k, lens))
				h.eval(c, sc)
				if ex == 1 && k == lens[0]+1 {
					r.Sample(map[string]any{"kind": "trunc/silence", "exchange": e.name, "client_bytes_sent": k, "of": total, "expect": "Handshake error (deadline or EOF), no positive reply beyond the completed stages"})
				}
			}
		})
	}
}

// trailingCases: bytes behind a complete message, and a client that does not
// wait for replies.  A front end may refuse, or carry on with the request
// unchanged; it may not hand over anything else.  The trailing byte 0xEE can
// start neither an RFC 1929 message (01) nor a request (05), so "the trailing
// byte is the beginning of the next message" always is a malformed stream.
func (h *H) trailingCases() {
	r := h.r
	r.Bubble("trailing/all", func(c *mon.Case) {
		rng := mon.NewRand(r.Sub("trailing"))
		for i := 0; i < r.Pick(600, 6000); i++ {
			base := h.genValid("trailing", rng)
			if base.class != "trailing" || base.mExp != socks.MethodUserPass {
				continue
			}
			g, a, rq := base.messages()
			tail := fill(1+rng.IntN(3), 0xee)
			mk := func(class string, g2, a2, r2 []byte) *scenario {
				sc := classify(class, g2, a2, r2)
				sc.weak = false
				return sc
			}
			cat := func(x, y []byte) []byte { return append(append([]byte(nil), x...), y...) }
			h.eval(c, mk("trailing/after-greeting", cat(g, tail), a, rq))
			h.eval(c, mk("trailing/after-auth", g, cat(a, tail), rq))
			h.eval(c, mk("trailing/after-request", g, a, cat(rq, tail)))
			// behind the request, as a separate later segment
			sc := mk("trailing/after-request-later", g, a, rq)
			sc.lateTrail = tail
			sc.mayFail(stR)
			h.eval(c, sc)
			// cut between message and trailing bytes, with a pause
			sc = mk("trailing/after-greeting-later", cat(g, tail), a, rq)
			sc.plan = planTwo(stG, len(g), time.Millisecond)
			sc.mayFail(stA)
			h.eval(c, sc)
			// everything in one segment, no waiting
			sc = mk("trailing/pipelined", cat(cat(g, a), rq), []byte{}, []byte{})
			sc.rawA, sc.rawR = []byte{}, []byte{}
			sc.okAllowed, sc.errAllowed, sc.fMin, sc.fMax = true, true, stG, stR
			sc.mExp, sc.methods = base.mExp, base.methods
			sc.user, sc.pass, sc.enc = base.user, base.pass, base.enc
			sc.argMaps, sc.dest = base.argMaps, base.dest
			h.eval(c, sc)
		}
	})
}

// replyCases: every reply code.
func (h *H) replyCases() {
	r := h.r
	r.Bubble("reply/codes", func(c *mon.Case) {
		for ex := 1; ex <= 2; ex++ {
			e := h.exchange(ex)
			for code := 0; code < 256; code++ {
				sc := h.fromExchange("reply/codes", e)
				sc.replyCode = byte(code)
				h.eval(c, sc)
			}
		}
	})
}

var interesting = []byte{0, 1, 2, 3, 4, 5, 6, 0x7f, 0x80, 0xfe, 0xff}

func mutate(rng *rand.Rand, b []byte) []byte {
	out := append([]byte(nil), b...)
	for n := 1 + rng.IntN(3); n > 0; n-- {
		switch op := rng.IntN(8); {
		case op < 3 && len(out) > 0: // set a byte
			i := rng.IntN(len(out))
			if rng.IntN(2) == 0 && len(out) > 6 {
				i = rng.IntN(6) // header fields matter most
			}
			if rng.IntN(2) == 0 {
				out[i] = interesting[rng.IntN(len(interesting))]
			} else {
				out[i] = byte(rng.IntN(256))
			}
		case op == 3 && len(out) > 0: // +-1 on a byte (length fields)
			i := rng.IntN(len(out))
			out[i] += byte(2*rng.IntN(2)) - 1
		case op == 4: // insert
			i := rng.IntN(len(out) + 1)
			out = append(out[:i], append([]byte{byte(rng.IntN(256))}, out[i:]...)...)
		case op == 5 && len(out) > 1: // delete
			i := rng.IntN(len(out))
			out = append(out[:i], out[i+1:]...)
		case op == 6 && len(out) > 1: // drop the tail (no EOF: the client just waits)
			out = out[:rng.IntN(len(out))]
		default: // flip a bit
			if len(out) > 0 {
				out[rng.IntN(len(out))] ^= 1 << rng.IntN(8)
			}
		}
	}
	return out
}

// fuzzCases: mutated and random messages, judged by the reference readers.
func (h *H) fuzzCases() {
	r := h.r
	nPer := r.Pick(2500, 35000)
	for b := 0; b < 16; b++ {
		b := b
		r.Bubble(fmt.Sprintf("fuzz/mutate/%02d", b), func(c *mon.Case) {
			rng := mon.NewRand(r.Sub("mutate", b))
			for i := 0; i < nPer; i++ {
				base := h.genValid("fuzz/base", rng)
				g, a, rq := base.messages()
				switch rng.IntN(4) {
				case 0:
					g = mutate(rng, g)
				case 1:
					if a != nil {
						a = mutate(rng, a)
					} else {
						rq = mutate(rng, rq)
					}
				case 2:
					rq = mutate(rng, rq)
				default:
					g, rq = mutate(rng, g), mutate(rng, rq)
					if a != nil {
						a = mutate(rng, a)
					}
				}
				sc := classify("fuzz/mutate", g, a, rq)
				h.countFuzz(sc)
				if rng.IntN(3) == 0 {
					sc.plan = planPRNG(rng, lensOf(sc))
				}
				if rng.IntN(3) == 0 {
					sc.policy, sc.policyName = pickPolicy(rng)
				}
				h.eval(c, sc)
			}
		})
	}
	for b := 0; b < 8; b++ {
		b := b
		r.Bubble(fmt.Sprintf("fuzz/random/%d", b), func(c *mon.Case) {
			rng := mon.NewRand(r.Sub("random", b))
			rb := func(n int) []byte {
				out := make([]byte, n)
				for i := range out {
					if rng.IntN(3) == 0 {
						out[i] = interesting[rng.IntN(len(interesting))]
					} else {
						out[i] = byte(rng.IntN(256))
					}
				}
				return out
			}
			for i := 0; i < nPer/2; i++ {
				g := rb(rng.IntN(8))
				if rng.IntN(4) > 0 {
					g = append([]byte{5}, g...)
				}
				if rng.IntN(2) == 0 {
					g = []byte{5, 2, 0, 2}
				}
				a := rb(rng.IntN(12))
				if rng.IntN(4) > 0 {
					a = append([]byte{1}, a...)
				}
				rq := rb(rng.IntN(24))
				if rng.IntN(4) > 0 {
					rq = append([]byte{5, 1, 0}, rq...)
				}
				sc := classify("fuzz/random", g, a, rq)
				h.countFuzz(sc)
				h.eval(c, sc)
			}
		})
	}
}

func (h *H) countFuzz(sc *scenario) {
	switch {
	case sc.weak:
		h.r.Count("fuzz_trailing_weakly_judged", 1)
	case sc.pureValid():
		h.r.Count("fuzz_still_valid", 1)
	case sc.pureReject():
		h.r.Count("fuzz_malformed", 1)
	default:
		h.r.Count("fuzz_either", 1)
	}
}
