// C17 — the SOCKS5 front end hands the transport exactly the target and the
// arguments tor sent.
//
// Monitor: socks5.Handshake runs on one end of an in-memory wire inside a
// synctest bubble; an independent step-by-step client (verif/ref/socks) runs
// on the other end and cuts its messages into segments with virtual pauses.
// The oracle compares Request.Target / Request.Args with what the client
// encoded, parses every byte the server wrote against RFC 1928 / RFC 1929, and
// for malformed input demands an error plus "failure reply or nothing".
package c17

import (
	"bytes"
	"encoding/hex"
	"errors"
	"fmt"
	"net"
	"strconv"
	"strings"
	"testing"
	"time"

	"gitlab.com/yawning/obfs4.git/common/socks5"

	"verif/memwire"
	"verif/mon"
	"verif/ref/socks"
)

const (
	stG = 0 // greeting
	stA = 1 // RFC 1929 sub-negotiation
	stR = 2 // request

	frontEndDeadline = 5 * time.Second         // the front end's handshake deadline (DESIGN C17)
	maxPause         = 4900 * time.Millisecond // all pauses of one exchange together stay below it
)

// ---------------------------------------------------------------- segmentation

type segPlan struct {
	name   string // "whole", "two", "bytewise", "prng"
	cuts   [3][]int
	pauses [3][]time.Duration
}

func (p *segPlan) total() (d time.Duration) {
	if p == nil {
		return 0
	}
	for s := 0; s < 3; s++ {
		for _, x := range p.pauses[s] {
			d += x
		}
	}
	return d
}

func (p *segPlan) maxSegs() int {
	if p == nil {
		return 1
	}
	m := 1
	for s := 0; s < 3; s++ {
		if len(p.cuts[s])+1 > m {
			m = len(p.cuts[s]) + 1
		}
	}
	return m
}

func (p *segPlan) String() string {
	if p == nil {
		return "whole"
	}
	var b strings.Builder
	b.WriteString(p.name)
	for s := 0; s < 3; s++ {
		if len(p.cuts[s]) == 0 {
			continue
		}
		fmt.Fprintf(&b, " %s:", socks.Stage(s))
		for i, c := range p.cuts[s] {
			if i >= 12 {
				fmt.Fprintf(&b, "..(%d cuts)", len(p.cuts[s]))
				break
			}
			fmt.Fprintf(&b, "%d+%v,", c, p.pauses[s][i])
		}
	}
	return b.String()
}

var errStreamEnded = errors.New("scenario: the client's byte stream ends here")

// wire is the client's transport: it cuts messages into segments, sleeps
// (virtual time) between them and can end the stream after `limit` bytes.
type wire struct {
	c       *memwire.Conn
	plan    *segPlan
	limit   int // -1 = no limit
	silence bool
	sent    int
	ended   bool
}

func (w *wire) Read(p []byte) (int, error) { return w.c.Read(p) }

func (w *wire) put(b []byte) error {
	if w.ended {
		return errStreamEnded
	}
	if w.limit >= 0 && w.sent+len(b) >= w.limit {
		b = b[:w.limit-w.sent]
		if len(b) > 0 {
			_, _ = w.c.Write(b)
			w.sent += len(b)
		}
		w.ended = true
		if w.silence {
			time.Sleep(2 * frontEndDeadline)
		}
		w.c.Out().CloseWrite()
		return errStreamEnded
	}
	if len(b) == 0 {
		return nil
	}
	_, err := w.c.Write(b)
	w.sent += len(b)
	return err
}

func (w *wire) Send(st socks.Stage, msg []byte) error {
	prev := 0
	if w.plan != nil {
		for i, cut := range w.plan.cuts[st] {
			if cut <= prev || cut >= len(msg) {
				continue
			}
			if err := w.put(msg[prev:cut]); err != nil {
				return err
			}
			time.Sleep(w.plan.pauses[st][i])
			prev = cut
		}
	}
	return w.put(msg[prev:])
}

// ---------------------------------------------------------------- scenario

type argmap = map[string][]string

type scenario struct {
	class string // stable label: message / field / segmentation class

	methods    []byte
	user, pass []byte
	cmd        byte
	dest       socks.Dest
	rawG       []byte
	rawA       []byte
	rawR       []byte

	plan       *segPlan
	policy     memwire.ChunkPolicy
	policyName string
	limit      int
	silence    bool
	lateTrail  []byte
	replyCode  byte

	// expectation
	okAllowed  bool
	errAllowed bool
	weak       bool // a success is not compared (the stream reading of trailing bytes is not modelled)
	fMin, fMax int  // admissible failing stages when Handshake returns an error
	mExp       byte // method the front end has to select
	argMaps    []argmap

	enc       string // encoded argument string (evidence)
	realSpill int    // bytes of real argument data carried by the password
	nonCanon  bool   // username/password cut elsewhere than after 255 bytes
}

func (sc *scenario) pureValid() bool  { return sc.okAllowed && !sc.errAllowed }
func (sc *scenario) pureReject() bool { return !sc.okAllowed && sc.errAllowed }

// messages returns the three client messages of the scenario.
func (sc *scenario) messages() (g, a, r []byte) {
	g, a, r = sc.rawG, sc.rawA, sc.rawR
	if g == nil {
		g, _ = socks.Greeting(sc.methods)
	}
	if a == nil && sc.mExp == socks.MethodUserPass {
		a, _ = socks.AuthMessage(sc.user, sc.pass)
	}
	if r == nil {
		r, _ = socks.RequestMessage(sc.cmd, sc.dest)
	}
	return
}

func hx(b []byte) string { return hex.EncodeToString(b) }

func (sc *scenario) describe() string {
	g, a, r := sc.messages()
	return fmt.Sprintf("class=%s plan=[%s] serverReadPolicy=%s limit=%d silence=%v greeting=%s auth=%s request=%s lateTrailing=%s",
		sc.class, sc.plan, sc.policyName, sc.limit, sc.silence, hx(g), hx(a), hx(r), hx(sc.lateTrail))
}

func (sc *scenario) mayFail(st int) {
	sc.errAllowed = true
	if st < sc.fMin {
		sc.fMin = st
	}
	if st > sc.fMax {
		sc.fMax = st
	}
}

func (sc *scenario) mustFail(st int) { sc.mayFail(st); sc.okAllowed = false }

func nz(b []byte) []byte {
	if b == nil {
		return []byte{}
	}
	return b
}

// admissible returns what a front end may make of an argument string.
func admissible(enc string) (maps []argmap, mayErr bool) {
	pairs, v := socks.DecodeArgs(enc)
	switch v {
	case socks.Valid:
		return []argmap{socks.ToMap(pairs)}, false
	case socks.Unspecified:
		return []argmap{socks.ToMap(pairs)}, true
	}
	return nil, true
}

// classify derives the expectation for three raw client messages from the
// reference server-side readers (ref/socks/server.go) and the reference
// argument decoder.
func classify(class string, g, a, rq []byte) *scenario {
	sc := &scenario{class: class, rawG: nz(g), rawA: nz(a), rawR: nz(rq), limit: -1, cmd: socks.CmdConnect,
		okAllowed: true, fMin: 3, fMax: -1, mExp: socks.MethodNoAccept}
	methods, n, st := socks.ParseGreeting(g)
	if st != socks.Complete {
		sc.mustFail(stG)
		return sc
	}
	sc.methods = methods
	sc.mExp = socks.SelectMethod(methods)
	if sc.mExp == socks.MethodNoAccept {
		sc.mustFail(stG)
		return sc
	}
	if n < len(g) { // bytes after the greeting: a server may stop at once, stumble later, or ignore them
		sc.weak = true
		sc.mayFail(stG)
		sc.mayFail(stR)
	}
	if sc.mExp == socks.MethodUserPass {
		user, pass, n, st := socks.ParseAuth(a)
		if st != socks.Complete {
			sc.mustFail(stA)
			return sc
		}
		sc.user, sc.pass = user, pass
		if n < len(a) {
			sc.weak = true
			sc.mayFail(stA)
			sc.mayFail(stR)
		}
		sc.enc = socks.JoinUserPass(user, pass)
		maps, mayErr := admissible(sc.enc)
		if mayErr {
			sc.mayFail(stA)
		}
		if len(maps) == 0 {
			sc.okAllowed = false
			return sc
		}
		sc.argMaps = maps
	} else {
		sc.rawA = []byte{}
		sc.argMaps = []argmap{{}}
	}
	q, n, st := socks.ParseRequest(rq)
	if st != socks.Complete {
		sc.mustFail(stR)
		return sc
	}
	sc.dest = q.Dest
	if n < len(rq) || q.Rsv != 0 || q.EmptyDomain {
		// trailing bytes after the request are early payload; RSV != 0 and an
		// empty domain oblige the client only: reject, or accept unchanged
		sc.mayFail(stR)
	}
	return sc
}

// ---------------------------------------------------------------- oracle pieces

func targetMatches(d socks.Dest, got string) (bool, string) {
	portOK := func(p string) bool {
		v, err := strconv.ParseUint(p, 10, 16)
		return err == nil && uint16(v) == d.Port
	}
	switch d.Atyp {
	case socks.AtypIPv4, socks.AtypIPv6:
		host, port, err := net.SplitHostPort(got)
		if err != nil {
			return false, "unparseable-hostport"
		}
		ip := net.ParseIP(host)
		if ip == nil {
			return false, "host-not-an-ip"
		}
		if !ip.Equal(d.IP) {
			return false, "address"
		}
		if !portOK(port) {
			return false, "port"
		}
		return true, ""
	case socks.AtypDomain:
		dom := string(d.Domain)
		if i := strings.LastIndexByte(got, ':'); i >= 0 && got[:i] == dom {
			if portOK(got[i+1:]) {
				return true, ""
			}
			return false, "port"
		}
		if host, port, err := net.SplitHostPort(got); err == nil && host == dom {
			if portOK(port) {
				return true, ""
			}
			return false, "port"
		}
		return false, "host"
	}
	return false, "atyp"
}

func atypName(a byte) string {
	switch a {
	case socks.AtypIPv4:
		return "ipv4"
	case socks.AtypIPv6:
		return "ipv6"
	case socks.AtypDomain:
		return "domain"
	}
	return "other"
}

func argsAdmissible(got argmap, adm []argmap) bool {
	for _, m := range adm {
		if socks.MapsEqual(got, m) {
			return true
		}
	}
	return false
}

func okPrefix(m byte, upto int) []byte {
	var out []byte
	if upto >= 1 {
		out = append(out, socks.Ver5, m)
	}
	if upto >= 2 && m == socks.MethodUserPass {
		out = append(out, socks.AuthVer, 0x00)
	}
	return out
}

// failureMessage reports whether rest is empty or exactly one failure message
// of the given stage.
func failureMessage(stage int, m byte, rest []byte) bool {
	if len(rest) == 0 {
		return true
	}
	switch stage {
	case stG:
		return bytes.Equal(rest, []byte{socks.Ver5, socks.MethodNoAccept})
	case stA:
		return m == socks.MethodUserPass && len(rest) == 2 && rest[0] == socks.AuthVer && rest[1] != 0
	case stR:
		rep, n, err := socks.ParseReply(rest)
		return err == nil && n == len(rest) && rep.Rep != 0
	}
	return false
}

// errorTranscriptOK: the server's bytes are the positive replies of the stages
// before some admissible failing stage f, followed by nothing or by one
// failure message of stage f.
func errorTranscriptOK(sc *scenario, t []byte) bool {
	for f := sc.fMin; f <= sc.fMax; f++ {
		if f == stA && sc.mExp != socks.MethodUserPass {
			continue
		}
		m := sc.mExp
		if f == stG {
			m = 0
		}
		p := okPrefix(m, f)
		if len(t) >= len(p) && bytes.Equal(t[:len(p)], p) && failureMessage(f, sc.mExp, t[len(p):]) {
			return true
		}
	}
	return false
}

func safeHandshake(conn net.Conn) (req *socks5.Request, err error, pan string) {
	defer func() {
		if p := recover(); p != nil {
			pan = fmt.Sprint(p)
		}
	}()
	req, err = socks5.Handshake(conn)
	return
}

func safeReply(req *socks5.Request, code byte) (err error, pan string) {
	defer func() {
		if p := recover(); p != nil {
			pan = fmt.Sprint(p)
		}
	}()
	err = req.Reply(socks5.ReplyCode(code))
	return
}

var digits = strings.NewReplacer("0", "N", "1", "N", "2", "N", "3", "N", "4", "N", "5", "N", "6", "N", "7", "N", "8", "N", "9", "N")

// ---------------------------------------------------------------- one evaluation

type H struct{ r *mon.Run }

type clientResult struct {
	herr error
	rep  socks.Reply
	rerr error
}

// run executes one scenario and judges it.  It reports whether the front end
// accepted the exchange.
func (h *H) run(c *mon.Case, sc *scenario) (accepted bool) {
	r := h.r
	r.Count("evaluations", 1)
	r.Count("class:"+sc.class, 1)
	if sc.policyName == "" {
		sc.policyName = "all"
	}
	violated := false
	viol := func(sig, msg string, extra map[string]any) {
		violated = true
		w := map[string]any{"scenario": sc.describe()}
		for k, v := range extra {
			w[k] = v
		}
		c.Violation(sig, msg+" | "+sc.describe(), w)
	}

	cli, srv := memwire.Pair(memwire.Options{Keep: true})
	defer func() { _ = cli.Close(); _ = srv.Close() }()
	if sc.policy != nil {
		srv.In().SetPolicy(sc.policy)
	}
	cl := &socks.Client{Methods: sc.methods, User: sc.user, Pass: sc.pass, Cmd: sc.cmd, Dest: sc.dest,
		RawGreeting: sc.rawG, RawAuth: sc.rawA, RawRequest: sc.rawR}
	w := &wire{c: cli, plan: sc.plan, limit: sc.limit, silence: sc.silence}
	done := make(chan clientResult, 1)
	go func() {
		var cr clientResult
		cr.herr = cl.Handshake(w)
		if cr.herr == nil {
			if sc.lateTrail != nil {
				time.Sleep(time.Millisecond)
				_, _ = cli.Write(sc.lateTrail)
			}
			cr.rep, cr.rerr = cl.ReadReply(w)
		}
		done <- cr
	}()

	t0 := time.Now()
	req, herr, pan := safeHandshake(srv)
	elapsed := time.Since(t0)
	_, _, tr0 := srv.Out().Snapshot()
	if dl := srv.DeadlineLog(); len(dl) > 0 && !dl[0].Zero {
		r.Max("front_end_deadline_ms", dl[0].In.Milliseconds())
		r.Min("front_end_deadline_ms", dl[0].In.Milliseconds())
	}
	if len(tr0) >= 2 && tr0[0] == socks.Ver5 {
		r.Count(fmt.Sprintf("method_selection_%02x", tr0[1]), 1)
	}

	var tr1 []byte
	switch {
	case pan != "":
		viol("panic/handshake/"+sc.class+"/"+digits.Replace(pan), "Handshake panicked: "+pan, nil)
	case herr == nil && req == nil:
		viol("nil-request-without-error/"+sc.class, "Handshake returned (nil, nil)", nil)
	case herr == nil:
		accepted = true
		got := argmap(req.Args)
		ext := map[string]any{"target": req.Target, "args": got, "server_bytes": hx(tr0)}
		if !sc.okAllowed {
			viol("malformed-accepted/"+sc.class, fmt.Sprintf("malformed input answered with success: Target=%q Args=%q server bytes %s", req.Target, got, hx(tr0)), ext)
		} else {
			if want := okPrefix(sc.mExp, 2); !bytes.Equal(tr0, want) {
				viol("replies-not-rfc/success-path/"+sc.class, fmt.Sprintf("server wrote %s during an accepted handshake, want %s (method selection / RFC 1929 status)", hx(tr0), hx(want)), ext)
			}
			if !sc.weak {
				if ok, why := targetMatches(sc.dest, req.Target); !ok {
					viol("target-mismatch/"+atypName(sc.dest.Atyp)+"/"+why, fmt.Sprintf("Request.Target=%q but the client sent atyp=%d ip=%v domain=%q port=%d", req.Target, sc.dest.Atyp, sc.dest.IP, sc.dest.Domain, sc.dest.Port), ext)
				}
				if !argsAdmissible(got, sc.argMaps) {
					viol("args-mismatch/"+sc.class, fmt.Sprintf("Request.Args=%q but the client encoded %q (argument string %q, username %d bytes, password %d bytes)", got, sc.argMaps, sc.enc, len(sc.user), len(sc.pass)), ext)
				}
			}
		}
		// the reply
		rerr, rpan := safeReply(req, sc.replyCode)
		_, _, tr1 = srv.Out().Snapshot()
		if rpan != "" {
			viol("panic/reply/"+digits.Replace(rpan), "Reply panicked: "+rpan, ext)
		} else if rerr != nil {
			viol("reply-failed/"+sc.class, fmt.Sprintf("Reply(%d) returned %v on an open connection", sc.replyCode, rerr), ext)
		} else {
			rest := tr1[len(tr0):]
			rep, n, perr := socks.ParseReply(rest)
			switch {
			case perr != nil || n != len(rest):
				viol("reply-not-rfc/form", fmt.Sprintf("Reply(%d) wrote %s: not exactly one RFC 1928 reply (%v, %d of %d bytes)", sc.replyCode, hx(rest), perr, n, len(rest)), ext)
			case rep.Rep != sc.replyCode:
				viol("reply-not-rfc/rep", fmt.Sprintf("Reply(%d) wrote REP=%d (%s)", sc.replyCode, rep.Rep, hx(rest)), ext)
			default:
				r.Distinct("reply_codes_roundtripped", fmt.Sprint(sc.replyCode))
				r.Distinct("reply_bnd_forms", fmt.Sprintf("atyp%d/%dB", rep.Atyp, len(rep.Addr)))
			}
		}
	default: // error
		ext := map[string]any{"error": herr.Error(), "server_bytes": hx(tr0)}
		if !sc.errAllowed {
			viol("valid-rejected/"+sc.class+"/"+segClass(sc), fmt.Sprintf("step-by-step client rejected: %v (virtual time %v, pauses %v, server bytes %s)", herr, elapsed, sc.plan.total(), hx(tr0)), ext)
		} else if !errorTranscriptOK(sc, tr0) {
			viol("failure-reply-not-rfc/"+sc.class, fmt.Sprintf("after error %q the server had written %s: neither nothing nor the failure reply of stage %d..%d after the positive replies (expected method %#02x)", herr, hx(tr0), sc.fMin, sc.fMax, sc.mExp), ext)
		} else {
			// evidence: which failure message was used
			found := false
			for f := sc.fMax; f >= sc.fMin && !found; f-- {
				p := okPrefix(sc.mExp, f)
				if len(tr0) > len(p) && bytes.Equal(tr0[:len(p)], p) && failureMessage(f, sc.mExp, tr0[len(p):]) {
					rest := tr0[len(p):]
					found = true
					r.Count("control_failure_reply_seen", 1)
					switch f {
					case stG:
						r.Count("failure_method_ff", 1)
					case stA:
						r.Count(fmt.Sprintf("failure_auth_status_%02x", rest[1]), 1)
					case stR:
						r.Count(fmt.Sprintf("failure_rep_%02x", rest[1]), 1)
						r.Count("failure_rep:"+sc.class+fmt.Sprintf(":%02x", rest[1]), 1)
					}
				}
			}
			if !found {
				r.Count("failure_closed_without_failure_message", 1)
			}
		}
	}
	srv.Out().CloseWrite()
	cr := <-done

	// the reference client's own view of the server's bytes
	if errors.Is(cr.herr, socks.ErrServer) || errors.Is(cr.rerr, socks.ErrServer) {
		e := cr.herr
		if e == nil {
			e = cr.rerr
		}
		viol("replies-not-rfc/client-view/"+digits.Replace(e.Error()), "the reference client could not parse the server's bytes: "+e.Error(), map[string]any{"client_received": hx(cl.Received)})
	}
	if accepted && sc.pureValid() && !violated {
		switch {
		case cr.herr != nil || cr.rerr != nil:
			viol("client-view/incomplete", fmt.Sprintf("server accepted but the reference client ended with %v / %v", cr.herr, cr.rerr), nil)
		case cl.Selected != int(sc.mExp) || cr.rep.Rep != sc.replyCode || !bytes.Equal(cl.Received, tr1):
			viol("client-view/differs", fmt.Sprintf("client saw method %d reply %d bytes %s, wire has %s", cl.Selected, cr.rep.Rep, hx(cl.Received), hx(tr1)), nil)
		}
	}

	// evidence and controls
	if sc.okAllowed && sc.errAllowed {
		if accepted {
			r.Count("either_accepted:"+sc.class, 1)
		} else {
			r.Count("either_rejected:"+sc.class, 1)
		}
	}
	if violated {
		return accepted
	}
	if sc.pureReject() && !accepted {
		r.Count("control_malformed_rejected", 1)
	}
	if sc.pureValid() && accepted {
		r.Count("control_valid_accepted", 1)
		r.Count("control_reply_parsed", 1)
		r.Count("targets_"+atypName(sc.dest.Atyp), 1)
		if sc.mExp == socks.MethodUserPass {
			r.Count("argument_strings_roundtripped", 1)
			r.Distinct("arg_strings", sc.enc)
			r.Max("longest_encoded_args", int64(len(sc.enc)))
			if sc.realSpill > 0 {
				r.Count("control_args_spill_password", 1)
				r.Max("longest_spill", int64(sc.realSpill))
				if sc.nonCanon {
					r.Count("spill_noncanonical_split", 1)
				}
			}
		}
		if sc.plan.maxSegs() >= 2 {
			r.Count("control_segmented_accepted", 1)
			r.Max("max_segments_one_message", int64(sc.plan.maxSegs()))
			r.Max("max_virtual_pause_ms", sc.plan.total().Milliseconds())
			if p := sc.plan.total(); p >= time.Second && elapsed >= p {
				r.Count("control_virtual_pause_elapsed", 1)
			}
		}
		if sc.dest.Atyp == socks.AtypIPv6 && strings.Contains(req.Target, ".") {
			r.Count("obs_ipv6_rendered_dotted_in_brackets", 1)
		}
	}
	return accepted
}

// segClass: was the client's byte stream delivered in one piece per message?
func segClass(sc *scenario) string {
	if sc.plan.maxSegs() < 2 && sc.policyName == "all" {
		return "unsegmented"
	}
	return "segmented"
}

func (h *H) distinct(sc *scenario) {
	g, a, rq := sc.messages()
	h.r.Distinct("nontrivial", fmt.Sprintf("%s|%x|%x|%x|%s|%s|%d|%v|%x|%d", sc.class, g, a, rq, sc.plan, sc.policyName, sc.limit, sc.silence, sc.lateTrail, sc.replyCode))
}

func (h *H) eval(c *mon.Case, sc *scenario) bool {
	h.distinct(sc)
	return h.run(c, sc)
}

// ---------------------------------------------------------------- TestCheck

func TestCheck(t *testing.T) {
	r := mon.Start(t, "C17")
	defer r.Finish()
	r.SpinWatch(memwire.BytesMoved)
	h := &H{r: r}
	r.Note("rule", ruleNote)
	r.Note("exhaustive_part", exhaustiveNote(r))
	h.controlCases()
	h.targetCases()
	h.argsCases()
	h.methodCases()
	h.segCases()
	h.malformedCases()
	h.truncCases()
	h.trailingCases()
	h.replyCases()
	h.fuzzCases()
	r.Note("concurrent_exchanges", "additional family: 4..16 exchanges at the same time in one bubble, each client with its own domain target and argument values (escapes, 8-bit bytes), delivered in segments of 1..5 bytes; every front-end result must be the one of its own client")
	for g := 0; g < r.Pick(8, 120); g++ {
		g := g
		r.Bubble(fmt.Sprintf("concurrent/%03d", g), func(c *mon.Case) { concurrentExchanges(c, r, 4+g%13, r.Sub("conc", g)) })
	}
}
