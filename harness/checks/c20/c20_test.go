// C20 — safe logging never reveals peer addresses or host names.
//
// Monitor: every error tree / address string carries distinctive secret tokens
// placed only in address-bearing fields; the oracle is a substring test on the
// text ElideError / ElideAddr return (scrubbing on), and equality with the
// original text (unsafe logging on).
package c20

import (
	"context"
	"errors"
	"fmt"
	"io"
	"net"
	"net/url"
	"os"
	"strings"
	"syscall"
	"testing"
	"time"

	olog "gitlab.com/yawning/obfs4.git/common/log"

	"verif/mon"
)

type secret struct {
	Tok   string // what must not appear
	Field string // where it was put: "DNSError.Name", ...
}

type tree struct {
	Err    error
	Shape  string // e.g. "OpError(dial,src,addr)>DNSError(server)"
	Sec    []secret
	Parent string // type name of the innermost wrapper around the leaf
}

type tokens struct {
	host, host2, host3, v4, v4b, v6, v6b string
}

func mkTokens(rng interface{ Uint64() uint64 }) tokens {
	a := rng.Uint64()
	return tokens{
		host:  fmt.Sprintf("hq%06xz.example", a&0xffffff),
		host2: fmt.Sprintf("ns%06xy.example", (a>>24)&0xffffff),
		host3: fmt.Sprintf("ux%06xw.example", (a>>12)&0xffffff),
		v4:    fmt.Sprintf("203.0.113.%d", 10+(a>>48)%200),
		v4b:   fmt.Sprintf("198.51.100.%d", 10+(a>>40)%200),
		v6:    fmt.Sprintf("2001:db8::%x", 0x1000+(a>>8)&0xefff),
		v6b:   fmt.Sprintf("2001:db8:77::%x", 0x1000+(a>>16)&0xefff),
	}
}

// leaves returns the leaf errors (with and without secrets).
func leaves(tk tokens) []tree {
	var l []tree
	add := func(e error, shape string, sec ...secret) { l = append(l, tree{Err: e, Shape: shape, Sec: sec}) }
	for _, addr := range []string{tk.host, tk.host + ":443", tk.v4 + ":9001", "[" + tk.v6 + "]:443", tk.v6} {
		tok := strings.Trim(strings.TrimSuffix(strings.TrimSuffix(addr, ":443"), ":9001"), "[]")
		add(&net.AddrError{Err: "missing port in address", Addr: addr}, "AddrError", secret{tok, "AddrError.Addr"})
	}
	add(&net.AddrError{Err: "invalid port", Addr: ""}, "AddrError(empty)")
	// every reason the standard library gives in an AddrError, each with the
	// address forms a caller can have put in Addr: what the reason says about
	// the field is not a promise that the field holds no address
	for ri, reason := range []string{"invalid port", "unknown network", "unknown port", "too many colons in address", "missing ']' in address", "unexpected '[' in address", "unexpected ']' in address", "mismatched local address type", "no suitable address found", "non-IPv4 address", "non-IPv6 address", "unexpected address type", "missing address", "invalid IP address"} {
		forms := []struct{ addr, tok string }{{tk.host, tk.host}, {tk.v4 + ":9001", tk.v4}, {"[" + tk.v6 + "]:443", tk.v6}, {tk.v6b, tk.v6b}, {"tcp/" + tk.host2 + ":https", tk.host2}, {tk.v4b, tk.v4b}}
		for fi, f := range forms {
			if (ri+fi)%2 == 0 || ri < 3 {
				add(&net.AddrError{Err: reason, Addr: f.addr}, "AddrError("+reason+")", secret{f.tok, "AddrError.Addr"})
			}
		}
	}
	for _, v := range []struct {
		srv            string
		nf, tmo, temp  bool
		errs           string
	}{
		{"", true, false, false, "no such host"},
		{tk.v4b + ":53", true, false, false, "no such host"},
		{tk.v4b + ":53", false, true, true, "i/o timeout"},
		{"[" + tk.v6b + "]:53", false, false, true, "server misbehaving"},
		{tk.host2 + ":53", false, false, false, "no answer from DNS server"},
	} {
		sec := []secret{{tk.host, "DNSError.Name"}}
		if v.srv != "" {
			h, _, _ := net.SplitHostPort(v.srv)
			sec = append(sec, secret{h, "DNSError.Server"})
		}
		add(&net.DNSError{Err: v.errs, Name: tk.host, Server: v.srv, IsNotFound: v.nf, IsTimeout: v.tmo, IsTemporary: v.temp},
			fmt.Sprintf("DNSError(srv=%v,nf=%v,tmo=%v)", v.srv != "", v.nf, v.tmo), sec...)
	}
	// descriptions as the resolver writes them when its transport fails (net
	// copies the text of the underlying error, addresses and all), under every
	// combination of the three flags
	for fl := 0; fl < 8; fl++ {
		for di, desc := range []string{
			"read udp " + tk.v4b + ":4242->" + tk.v4 + ":53: i/o timeout",
			"dial udp " + tk.v4 + ":53: connect: network is unreachable",
			"socks connect udp " + tk.v4b + ":1080->" + tk.v4 + ":53: host unreachable",
			"write udp [" + tk.v6b + "]:5353->[" + tk.v6 + "]:53: write: operation not permitted",
		} {
			sec := []secret{{tk.host, "DNSError.Name"}, {tk.v4, "DNSError.Err(server address)"}}
			if di == 3 {
				sec = []secret{{tk.host, "DNSError.Name"}, {tk.v6, "DNSError.Err(server address)"}, {tk.v6b, "DNSError.Err(source address)"}}
			} else if di != 1 {
				sec = append(sec, secret{tk.v4b, "DNSError.Err(source address)"})
			}
			add(&net.DNSError{Err: desc, Name: tk.host, Server: tk.v4 + ":53", IsNotFound: fl&1 != 0, IsTimeout: fl&2 != 0, IsTemporary: fl&4 != 0},
				fmt.Sprintf("DNSError(transport-text-%d,flags=%d)", di, fl), sec...)
		}
	}
	// the same kind of description with the peer named in the other forms a
	// host:port pair can take: a DNS server given by name, a bracketed IPv4
	// literal, a service name or an out-of-range number as port, a zoned IPv6
	// literal
	for fl := 0; fl < 8; fl += 3 {
		for di, v := range []struct {
			desc string
			sec  []secret
		}{
			{"dial tcp " + tk.host2 + ":853: connect: connection refused", []secret{{tk.host2, "DNSError.Err(server name)"}}},
			{"dial tcp [" + tk.v4 + "]:53: i/o timeout", []secret{{tk.v4, "DNSError.Err(server address)"}}},
			{"read udp " + tk.v4b + ":4242->" + tk.host2 + ":domain: i/o timeout", []secret{{tk.v4b, "DNSError.Err(source address)"}, {tk.host2, "DNSError.Err(server name)"}}},
			{"dial tcp " + tk.v4 + ":70000: invalid port", []secret{{tk.v4, "DNSError.Err(server address)"}}},
			{"dial tcp " + tk.host2 + ":https: unknown port", []secret{{tk.host2, "DNSError.Err(server name)"}}},
			{"dial udp [" + tk.v6 + "%eth0]:53: connect: no route to host", []secret{{tk.v6, "DNSError.Err(server address)"}}},
		} {
			sec := append([]secret{{tk.host, "DNSError.Name"}}, v.sec...)
			add(&net.DNSError{Err: v.desc, Name: tk.host, Server: tk.host2 + ":853", IsNotFound: fl&1 != 0, IsTimeout: fl&2 != 0, IsTemporary: fl&4 != 0},
				fmt.Sprintf("DNSError(transport-text-form-%d,flags=%d)", di, fl), sec...)
		}
	}
	add(net.InvalidAddrError("invalid address "+tk.v4), "InvalidAddrError", secret{tk.v4, "InvalidAddrError"})
	iae := net.InvalidAddrError("bad " + tk.host)
	add(&iae, "*InvalidAddrError", secret{tk.host, "InvalidAddrError"})
	add(net.UnknownNetworkError("tcp7"), "UnknownNetworkError")
	add(net.UnknownNetworkError(tk.host), "UnknownNetworkError(host)", secret{tk.host, "UnknownNetworkError"})
	add(&net.ParseError{Type: "IP address", Text: tk.v4 + "x"}, "ParseError", secret{tk.v4, "ParseError.Text"})
	add(&net.ParseError{Type: "CIDR address", Text: tk.v6 + "/129"}, "ParseError(cidr)", secret{tk.v6, "ParseError.Text"})
	add(syscall.ECONNREFUSED, "Errno")
	add(os.NewSyscallError("connect", syscall.ENETUNREACH), "SyscallError")
	add(io.EOF, "EOF")
	add(os.ErrDeadlineExceeded, "DeadlineExceeded")
	add(errors.New("general SOCKS server failure"), "plain")
	add(context.DeadlineExceeded, "ctxDeadline")
	return l
}

type wrapper struct {
	name string
	wrap func(tk tokens, inner error) (error, []secret)
}

func tcp(ip string, port int) *net.TCPAddr { return &net.TCPAddr{IP: net.ParseIP(ip), Port: port} }

func wrappers() []wrapper {
	var w []wrapper
	for _, op := range []string{"dial", "read", "write"} {
		for mode := 0; mode < 7; mode++ {
			if mode >= 5 && op != "dial" {
				continue
			}
			op, mode := op, mode
			w = append(w, wrapper{fmt.Sprintf("OpError(%s,%d)", op, mode), func(tk tokens, in error) (error, []secret) {
				oe := &net.OpError{Op: op, Net: "tcp", Err: in}
				var sec []secret
				switch mode {
				case 1:
					oe.Addr = tcp(tk.v4, 443)
					sec = append(sec, secret{tk.v4, "OpError.Addr"})
				case 2:
					oe.Source, oe.Addr = tcp(tk.v4b, 50123), tcp(tk.v4, 443)
					sec = append(sec, secret{tk.v4b, "OpError.Source"}, secret{tk.v4, "OpError.Addr"})
				case 3:
					oe.Net = "tcp6"
					oe.Source, oe.Addr = tcp(tk.v6b, 50123), tcp(tk.v6, 443)
					sec = append(sec, secret{tk.v6b, "OpError.Source"}, secret{tk.v6, "OpError.Addr"})
				case 4:
					oe.Net = "unix"
					oe.Addr = &net.UnixAddr{Name: "/run/" + tk.host3 + "/sock", Net: "unix"}
					sec = append(sec, secret{tk.host3, "OpError.Addr"})
				case 5:
					// what net.Dial(address, network) reports: the "network" is the address
					oe.Net = tk.host3 + ":443"
					sec = append(sec, secret{tk.host3, "OpError.Net"})
				case 6:
					oe.Net = tk.v4b + ":9001"
					oe.Addr = tcp(tk.v4, 443)
					sec = append(sec, secret{tk.v4b, "OpError.Net"}, secret{tk.v4, "OpError.Addr"})
				}
				return oe, sec
			}})
		}
	}
	w = append(w, wrapper{"url.Error", func(tk tokens, in error) (error, []secret) {
		return &url.Error{Op: "Post", URL: "https://" + tk.host2 + "/meek/", Err: in}, []secret{{tk.host2, "url.Error.URL"}}
	}})
	// the other texts a url.Error carries in practice: what the user configured
	// (a front, a bridge or a proxy given as host:port instead of a URL, with
	// credentials, as an address literal), what url.Parse rejected, what a
	// redirect pointed to
	for fi, f := range []struct {
		op  string
		url func(tk tokens) (string, []secret)
	}{
		{"Get", func(tk tokens) (string, []secret) { return tk.host2 + ":443", []secret{{tk.host2, "url.Error.URL"}} }},
		{"Post", func(tk tokens) (string, []secret) {
			return tk.host2 + ":443/meek/", []secret{{tk.host2, "url.Error.URL"}}
		}},
		{"Post", func(tk tokens) (string, []secret) {
			return "https://" + tk.host2 + ":8443/?h=" + tk.host3, []secret{{tk.host2, "url.Error.URL"}, {tk.host3, "url.Error.URL(query)"}}
		}},
		{"Get", func(tk tokens) (string, []secret) {
			return "http://" + tk.v4 + ":8080/", []secret{{tk.v4, "url.Error.URL"}}
		}},
		{"Get", func(tk tokens) (string, []secret) {
			return "http://[" + tk.v6 + "]:8080/x", []secret{{tk.v6, "url.Error.URL"}}
		}},
		{"parse", func(tk tokens) (string, []secret) {
			return "socks5://user:pw@" + tk.host2 + ":1080", []secret{{tk.host2, "url.Error.URL"}}
		}},
		{"parse", func(tk tokens) (string, []secret) {
			return tk.v4 + ":1080", []secret{{tk.v4, "url.Error.URL"}}
		}},
		{"Head", func(tk tokens) (string, []secret) {
			return "//" + tk.host2 + "/", []secret{{tk.host2, "url.Error.URL"}}
		}},
		{"Get", func(tk tokens) (string, []secret) {
			return tk.host2 + "+" + tk.host3 + ":opaque", []secret{{tk.host2, "url.Error.URL"}, {tk.host3, "url.Error.URL"}}
		}},
		{"Post", func(tk tokens) (string, []secret) {
			return "https://" + tk.host2 + "#" + tk.host3, []secret{{tk.host2, "url.Error.URL"}, {tk.host3, "url.Error.URL(fragment)"}}
		}},
	} {
		f := f
		w = append(w, wrapper{fmt.Sprintf("url.Error(form%d)", fi), func(tk tokens, in error) (error, []secret) {
			u, sec := f.url(tk)
			return &url.Error{Op: f.op, URL: u, Err: in}, sec
		}})
	}
	w = append(w, wrapper{"fmt.Errorf", func(tk tokens, in error) (error, []secret) {
		return fmt.Errorf("outgoing connection failed: %w", in), nil
	}})
	w = append(w, wrapper{"SyscallError", func(tk tokens, in error) (error, []secret) {
		return os.NewSyscallError("connect", in), nil
	}})
	w = append(w, wrapper{"DNSConfigError", func(tk tokens, in error) (error, []secret) {
		return &net.DNSConfigError{Err: in}, nil
	}})
	w = append(w, wrapper{"PathError", func(tk tokens, in error) (error, []secret) {
		return &os.PathError{Op: "open", Path: "/etc/hosts", Err: in}, nil
	}})
	return w
}

func variants(s string) []string {
	out := []string{s}
	if ip := net.ParseIP(s); ip != nil && strings.Contains(s, ":") {
		// expanded IPv6 form as well
		b := ip.To16()
		var parts []string
		for i := 0; i < 16; i += 2 {
			parts = append(parts, fmt.Sprintf("%02x%02x", b[i], b[i+1]))
		}
		out = append(out, strings.Join(parts, ":"))
	}
	return out
}

func judge(c *mon.Case, r *mon.Run, t tree) {
	r.Count("evaluations", 1)
	// scrubbing on
	if err := olog.Init(false, "", false); err != nil {
		c.T.Fatal(err)
	}
	got := olog.ElideError(t.Err)
	low := strings.ToLower(got)
	for _, s := range t.Sec {
		for _, v := range variants(s.Tok) {
			if strings.Contains(low, strings.ToLower(v)) {
				r.Count("leaks", 1)
				c.Violation("leak/"+responsible(t.Err)+">"+s.Field, fmt.Sprintf("ElideError output %q contains secret %q (field %s) for %s; original %q", got, s.Tok, s.Field, t.Shape, t.Err.Error()),
					map[string]any{"shape": t.Shape, "output": got, "secret": s, "original": t.Err.Error()})
			}
		}
	}
	if len(t.Sec) > 0 {
		r.Count("trees_with_secrets", 1)
		// positive control: the unscrubbed text does contain the secrets of
		// address-bearing fields somewhere, otherwise the substring oracle is deaf
		orig := strings.ToLower(t.Err.Error())
		any := false
		for _, s := range t.Sec {
			if strings.Contains(orig, strings.ToLower(s.Tok)) {
				any = true
			}
		}
		if any {
			r.Count("controls_secret_visible_in_original", 1)
		}
	}
	// unsafe logging on: identity
	_ = olog.Init(false, "", true)
	if u := olog.ElideError(t.Err); u != t.Err.Error() {
		c.Violation("unsafe-not-identity/"+t.Parent, fmt.Sprintf("unsafe ElideError = %q, want %q", u, t.Err.Error()), map[string]any{"shape": t.Shape})
	}
	_ = olog.Init(false, "", false)
}

func TestCheck(t *testing.T) {
	r := mon.Start(t, "C20")
	defer r.Finish()
	r.Note("rule", "error trees: every leaf kind x every chain of wrapper kinds up to the depth bound (exhaustive), deeper chains by PRNG; real errors produced by the standard library offline (dial, resolver over a scripted transport, SplitHostPort, ParseIP/CIDR); address strings of every host form. A case is non-trivial when it carries at least one secret token in an address-bearing field; distinct = distinct (shape, token placement).")
	maxDepth := r.Pick(3, 4) // wrappers around a leaf
	ws := wrappers()

	// (1) exhaustive trees
	for li := 0; li < 96; li++ {
		li := li
		r.Case(fmt.Sprintf("trees/leaf%02d", li), func(c *mon.Case) {
			rng := mon.NewRand(r.Sub("tok", li))
			tk := mkTokens(rng)
			ls := leaves(tk)
			if li >= len(ls) {
				return
			}
			leaf := ls[li]
			var rec func(cur tree, depth int)
			rec = func(cur tree, depth int) {
				judge(c, r, cur)
				if len(cur.Sec) > 0 {
					r.Distinct("nontrivial", cur.Shape)
				}
				r.Distinct("shapes", cur.Shape)
				r.Max("max_depth", int64(depth))
				if depth == maxDepth {
					return
				}
				for _, w := range ws {
					e, sec := w.wrap(tk, cur.Err)
					nt := tree{Err: e, Shape: w.name + ">" + cur.Shape, Sec: append(append([]secret(nil), cur.Sec...), sec...), Parent: cur.Parent}
					if depth == 0 {
						nt.Parent = strings.Split(w.name, "(")[0]
					}
					rec(nt, depth+1)
				}
			}
			leaf.Parent = "top"
			rec(leaf, 0)
			if li == 1 {
				r.Sample(map[string]any{"kind": "tree", "shape": "OpError(dial,2)>" + leaf.Shape, "leaf_text": leaf.Err.Error()})
			}
		})
	}
	r.Note("exhaustive_part", fmt.Sprintf("all chains of <= %d wrappers (of %d kinds) around each of the leaf kinds", maxDepth, len(ws)))

	// (2) deeper chains by PRNG
	nDeep := r.Pick(2000, 200000)
	for b := 0; b < 16; b++ {
		b := b
		r.Case(fmt.Sprintf("deep/%02d", b), func(c *mon.Case) {
			rng := mon.NewRand(r.Sub("deep", b))
			for i := 0; i < nDeep/16; i++ {
				tk := mkTokens(rng)
				ls := leaves(tk)
				cur := ls[rng.IntN(len(ls))]
				cur.Parent = "top"
				d := 5 + rng.IntN(8)
				for k := 0; k < d; k++ {
					w := ws[rng.IntN(len(ws))]
					e, sec := w.wrap(tk, cur.Err)
					p := cur.Parent
					if k == 0 {
						p = strings.Split(w.name, "(")[0]
					}
					cur = tree{Err: e, Shape: w.name + ">" + cur.Shape, Sec: append(cur.Sec, sec...), Parent: p}
				}
				judge(c, r, cur)
				r.Distinct("nontrivial", cur.Shape)
				r.Max("max_depth", int64(d))
			}
		})
	}

	// (3) errors produced by the standard library itself
	r.Case("real/stdlib", func(c *mon.Case) { realErrors(c, r) })

	// (4) ElideAddr
	r.Case("addr/forms", func(c *mon.Case) { addrForms(c, r) })
}

// scriptedConn is the "DNS server" connection handed to the Go resolver: it
// fails the way a kernel socket does, with an *OpError naming both addresses.
type scriptedConn struct {
	local, remote net.Addr
	mode          int
}

func (s *scriptedConn) Read(p []byte) (int, error) {
	switch s.mode {
	case 0:
		return 0, &net.OpError{Op: "read", Net: "udp", Source: s.local, Addr: s.remote, Err: os.NewSyscallError("read", syscall.ECONNREFUSED)}
	default:
		return 0, &net.OpError{Op: "read", Net: "udp", Source: s.local, Addr: s.remote, Err: os.ErrDeadlineExceeded}
	}
}
func (s *scriptedConn) Write(p []byte) (int, error)        { return len(p), nil }
func (s *scriptedConn) Close() error                       { return nil }
func (s *scriptedConn) LocalAddr() net.Addr                { return s.local }
func (s *scriptedConn) RemoteAddr() net.Addr               { return s.remote }
func (s *scriptedConn) SetDeadline(t time.Time) error      { return nil }
func (s *scriptedConn) SetReadDeadline(t time.Time) error  { return nil }
func (s *scriptedConn) SetWriteDeadline(t time.Time) error { return nil }

func realErrors(c *mon.Case, r *mon.Run) {
	rng := mon.NewRand(r.Sub("real"))
	tk := mkTokens(rng)
	type re struct {
		origin string
		err    error
		sec    []secret
	}
	var errs []re
	add := func(origin string, err error, sec ...secret) {
		if err != nil {
			errs = append(errs, re{origin, err, sec})
		}
	}
	// address syntax errors from net.Dial (no packets leave the process)
	for _, a := range []string{tk.host, tk.v4, "[" + tk.v6 + "]", tk.host + ":http:x", tk.v4 + ":99999", "[" + tk.v6, tk.v6 + ":443"} {
		_, err := net.Dial("tcp", a)
		add("net.Dial syntax "+strings.NewReplacer(tk.host, "H", tk.v4, "V4", tk.v6, "V6").Replace(a), err, secret{tk.host, "dial"}, secret{tk.v4, "dial"}, secret{tk.v6, "dial"})
	}
	_, err := net.Dial("tcp7", tk.v4+":1")
	add("net.Dial unknown network", err, secret{tk.v4, "dial"})
	// network and address handed over in the wrong order (or a network name
	// taken from configuration that is really an address): the net package
	// refuses the "network" up front and reports it in OpError.Net and in an
	// UnknownNetworkError
	for _, a := range []string{tk.host + ":443", tk.v4 + ":9001", "[" + tk.v6 + "]:443", tk.host} {
		_, err := net.Dial(a, "tcp")
		add("net.Dial(address, network)", err, secret{tk.host, "OpError.Net"}, secret{tk.v4, "OpError.Net"}, secret{tk.v6, "OpError.Net"})
		_, err = net.Listen(a, "tcp")
		add("net.Listen(address, network)", err, secret{tk.host, "OpError.Net"}, secret{tk.v4, "OpError.Net"}, secret{tk.v6, "OpError.Net"})
		_, err = net.ListenPacket(a, "udp")
		add("net.ListenPacket(address, network)", err, secret{tk.host, "OpError.Net"}, secret{tk.v4, "OpError.Net"}, secret{tk.v6, "OpError.Net"})
		_, err = net.ResolveTCPAddr(a, "tcp")
		add("net.ResolveTCPAddr(address, network)", err, secret{tk.host, "UnknownNetworkError"}, secret{tk.v4, "UnknownNetworkError"}, secret{tk.v6, "UnknownNetworkError"})
	}
	_, _, err = net.SplitHostPort(tk.host)
	add("SplitHostPort", err, secret{tk.host, "AddrError.Addr"})
	_, _, err = net.SplitHostPort("[" + tk.v6 + "]443")
	add("SplitHostPort", err, secret{tk.v6, "AddrError.Addr"})
	_, _, err = net.ParseCIDR(tk.v4 + "/33")
	add("ParseCIDR", err, secret{tk.v4, "ParseError.Text"})
	_, err = net.ResolveTCPAddr("tcp", tk.v4+":notaport")
	add("ResolveTCPAddr", err, secret{tk.v4, "addr"})
	// refused / unreachable loopback connect (real system call errors)
	for _, a := range []string{"127.0.0.1:1", "[::1]:1"} {
		_, err := net.DialTimeout("tcp", a, time.Second)
		h, _, _ := net.SplitHostPort(a)
		add("net.Dial refused "+a, err, secret{h + ":1", "OpError.Addr"})
	}
	// the Go resolver over a scripted transport: the DNSError is built by net
	for mode := 0; mode < 2; mode++ {
		srv := &net.UDPAddr{IP: net.ParseIP(tk.v4b), Port: 53}
		loc := &net.UDPAddr{IP: net.ParseIP("198.51.100.7"), Port: 40000 + mode}
		res := &net.Resolver{PreferGo: true, Dial: func(ctx context.Context, network, address string) (net.Conn, error) {
			return &scriptedConn{local: loc, remote: srv, mode: mode}, nil
		}}
		ctx, cancel := context.WithTimeout(context.Background(), 5*time.Second)
		_, err := res.LookupHost(ctx, tk.host)
		cancel()
		add(fmt.Sprintf("Resolver.LookupHost transport-failure-%d", mode), err, secret{tk.host, "DNSError.Name"}, secret{tk.v4b, "resolver transport: server address"}, secret{"198.51.100.7", "resolver transport: source address"})
		d := &net.Dialer{Resolver: res, Timeout: 5 * time.Second}
		_, err = d.Dial("tcp", tk.host+":443")
		add(fmt.Sprintf("Dialer.Dial via resolver transport-failure-%d", mode), err, secret{tk.host, "DNSError.Name"}, secret{tk.v4b, "resolver transport: server address"}, secret{"198.51.100.7", "resolver transport: source address"})
	}
	// resolver whose transport cannot even be opened
	res := &net.Resolver{PreferGo: true, Dial: func(ctx context.Context, network, address string) (net.Conn, error) {
		return nil, &net.OpError{Op: "dial", Net: "udp", Addr: &net.UDPAddr{IP: net.ParseIP(tk.v4b), Port: 53}, Err: os.NewSyscallError("connect", syscall.ENETUNREACH)}
	}}
	ctx, cancel := context.WithTimeout(context.Background(), 5*time.Second)
	_, err = res.LookupHost(ctx, tk.host)
	cancel()
	add("Resolver.LookupHost dial-failure", err, secret{tk.host, "DNSError.Name"}, secret{tk.v4b, "resolver transport: server address"})

	res2 := &net.Resolver{PreferGo: true, Dial: func(ctx context.Context, network, address string) (net.Conn, error) {
		return nil, fmt.Errorf("socks connect udp %s:1080->%s:53: host unreachable", "198.51.100.7", tk.v4b)
	}}
	ctx2, cancel2 := context.WithTimeout(context.Background(), 5*time.Second)
	_, err = res2.LookupHost(ctx2, tk.host)
	cancel2()
	add("Resolver.LookupHost dial-hook-plain-error", err, secret{tk.host, "DNSError.Name"}, secret{tk.v4b, "resolver transport: server address"}, secret{"198.51.100.7", "resolver transport: source address"})

	for _, e := range errs {
		t := tree{Err: e.err, Shape: "real:" + e.origin, Parent: "real"}
		orig := e.err.Error()
		for _, s := range e.sec {
			if strings.Contains(strings.ToLower(orig), strings.ToLower(s.Tok)) {
				t.Sec = append(t.Sec, s)
			}
		}
		// signature by origin class so that distinct real-world leaks are kept apart
		r.Count("real_errors", 1)
		r.Distinct("nontrivial", t.Shape)
		judgeReal(c, r, t)
	}
	r.Sample(map[string]any{"kind": "real", "example": errs[0].err.Error(), "n": len(errs)})
}

// responsible names the node whose rendering ElideError chose: the outermost
// error in the chain that implements net.Error (or "none").
func responsible(err error) string {
	var ne net.Error
	if !errors.As(err, &ne) {
		return "none"
	}
	return strings.TrimPrefix(strings.TrimPrefix(fmt.Sprintf("%T", ne), "*"), "net.")
}

func judgeReal(c *mon.Case, r *mon.Run, t tree) {
	r.Count("evaluations", 1)
	_ = olog.Init(false, "", false)
	got := olog.ElideError(t.Err)
	for _, s := range t.Sec {
		if strings.Contains(strings.ToLower(got), strings.ToLower(s.Tok)) {
			r.Count("leaks", 1)
			origin := strings.Fields(strings.TrimPrefix(t.Shape, "real:"))[0]
			c.Violation("leak/real/"+origin+"/"+responsible(t.Err)+">"+s.Field, fmt.Sprintf("ElideError output %q contains %q (%s); original %q (%T)", got, s.Tok, s.Field, t.Err.Error(), t.Err),
				map[string]any{"origin": t.Shape, "output": got, "secret": s, "original": t.Err.Error()})
		}
	}
	_ = olog.Init(false, "", true)
	if u := olog.ElideError(t.Err); u != t.Err.Error() {
		c.Violation("unsafe-not-identity/real", fmt.Sprintf("unsafe ElideError = %q, want %q", u, t.Err.Error()), nil)
	}
	_ = olog.Init(false, "", false)
}

func addrForms(c *mon.Case, r *mon.Run) {
	rng := mon.NewRand(r.Sub("addr"))
	n := r.Pick(2000, 100000)
	for i := 0; i < n; i++ {
		tk := mkTokens(rng)
		// v6d: an address whose last group consists of decimal digits only
		v6d := fmt.Sprintf("2001:db8::%d", 1+rng.IntN(9999))
		v6e := fmt.Sprintf("2001:db8:%x::%d:%d", rng.IntN(0xffff), rng.IntN(10), 1+rng.IntN(65535))
		hosts := []string{tk.host, tk.v4, "[" + tk.v6 + "]", tk.v6, "[" + tk.v6 + "%eth0]", strings.ToUpper(tk.host), tk.host + ".", "", "[" + tk.v6, tk.v6 + "]", v6d, v6e, "::ffff:" + tk.v4, "[" + v6d + "]", "::" + fmt.Sprint(1+rng.IntN(65535))}
		ports := []string{":443", ":0", ":65535", "", ":", ":http", ":443:80", ":99999"}
		h := hosts[rng.IntN(len(hosts))]
		p := ports[rng.IntN(len(ports))]
		in := h + p
		r.Count("evaluations", 1)
		r.Count("addr_strings", 1)
		r.Distinct("nontrivial", fmt.Sprintf("addr:%d:%s", indexOf(hosts, h), p))
		_ = olog.Init(false, "", false)
		got := olog.ElideAddr(in)
		for _, tok := range []string{tk.host, tk.v4, tk.v6} {
			if tok != "" && strings.Contains(strings.ToLower(got), strings.ToLower(tok)) {
				c.Violation("leak/ElideAddr", fmt.Sprintf("ElideAddr(%q) = %q contains %q", in, got, tok), map[string]any{"input": in, "output": got})
			}
		}
		// exact form: only the port of a well-formed host:port pair may
		// remain; an input that is not such a pair (a bare IPv6 address ends
		// in ":<digits>" too) must leave nothing but the placeholder.
		const ph = "[scrubbed]"
		if _, port, err := net.SplitHostPort(in); err == nil {
			if got == ph+":"+port {
				r.Count("addr_port_kept", 1)
			} else if got != ph {
				c.Violation("leak/ElideAddr-form/host-port", fmt.Sprintf("ElideAddr(%q) = %q; only %q or %q may remain of a host:port pair", in, got, ph, ph+":"+port), map[string]any{"input": in, "output": got})
			}
		} else {
			if net.ParseIP(strings.Trim(in, "[]")) != nil {
				r.Count("addr_bare_ip", 1)
			}
			if got != ph {
				kind := "other"
				if net.ParseIP(in) != nil {
					kind = "bare-ip"
				}
				c.Violation("leak/ElideAddr-form/not-a-host-port-pair/"+kind, fmt.Sprintf("ElideAddr(%q) = %q; the input is not a host:port pair (%v), so only %q may remain", in, got, err, ph), map[string]any{"input": in, "output": got})
			} else {
				r.Count("addr_nothing_kept", 1)
			}
		}
		_ = olog.Init(false, "", true)
		if u := olog.ElideAddr(in); u != in {
			c.Violation("unsafe-not-identity/ElideAddr", fmt.Sprintf("unsafe ElideAddr(%q) = %q", in, u), nil)
		}
		_ = olog.Init(false, "", false)
		if i == 0 {
			r.Sample(map[string]any{"kind": "addr", "input": in, "output": got})
		}
	}
}

func indexOf(l []string, s string) int {
	for i, x := range l {
		if x == s {
			return i
		}
	}
	return -1
}
