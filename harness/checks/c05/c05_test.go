// C05 — obfs4 never delivers bytes the peer did not send, however ciphertext
// is altered.
//
// (1) Frame-accurate tampering: the reference implementation is the sender (it
// knows every frame boundary and the length masks), a real endpoint is the
// victim, in both roles.  (2) Blind tampering on real<->real connections.
// (3) A wide decoder-level pass through the exported framing API.
// Oracle: what the victim's application receives is always a prefix of the
// position-dependent stream and never exceeds the payload of the frames that
// lay entirely before the damage; once the whole tampered stream (which always
// extends at least 2*1448 bytes beyond the damage, or ends with EOF) has been
// forwarded and the system is quiescent, Read must have reported an error.
package c05

import (
	"bytes"
	"encoding/binary"
	"fmt"
	"io"
	"net"
	"sort"
	"sync"
	"testing"
	"testing/synctest"

	"gitlab.com/yawning/obfs4.git/transports/obfs4/framing"

	"verif/memwire"
	"verif/mon"
	"verif/o4"
	ref "verif/ref/obfs4"
)

var chunkings = []string{"all", "1", "1447", "prng"}

func chunk(i int, seed uint64) memwire.ChunkPolicy {
	switch chunkings[i%len(chunkings)] {
	case "1":
		return memwire.Fixed(1)
	case "1447":
		return memwire.Fixed(1447)
	case "prng":
		return memwire.PRNG(seed, 3000)
	}
	return memwire.All()
}

// plan describes the frames the reference will send: data bytes and padding per frame.
type frameSpec struct{ data, pad int }

// tamperFn turns the original frames into the byte stream actually sent, and
// says whether the stream ends with EOF right after.
type tamperFn func(frames [][]byte, masks []uint16) (stream []byte, eof bool)

type result struct {
	delivered  int64
	mismatch   int64
	err        error
	extraBytes int64 // delivered after the first error
}

// runFrames establishes a connection with the reference as sender, sends the
// tampered stream and reports what the victim's application saw.
func runFrames(c *mon.Case, r *mon.Run, dir string, victim string, specs []frameSpec, tf tamperFn, chunkIdx int, seed uint64) (res result, dmgOff int, allowed int64, total int64, ok bool) {
	rng := mon.NewRand(seed)
	b := o4.NewBridge(rng, 0)
	st := mon.Stream{Key: seed}
	cw, sw := memwire.Pair(memwire.Options{})
	var vconn net.Conn
	var rc *o4.RefConn
	var verr, rerr error
	var victimHalf *memwire.Half // the half the victim reads from
	var vdone chan struct{}      // client-coalesced: closed when Dial has returned
	switch victim {
	case "server":
		sf, err := o4.ServerFactory(dir, b)
		if err != nil {
			c.Violation("setup/server-factory", err.Error(), nil)
			return
		}
		done := make(chan struct{})
		c.Go(func() { close(done) }, func() { vconn, verr = sf.WrapConn(sw) })
		rc, _, _, rerr = o4.RefDial(cw, b.Ref, rng, -1, o4.Hours(0))
		<-done
		victimHalf = cw.Out()
	case "client":
		done := make(chan struct{})
		c.Go(func() { close(done) }, func() { rc, _, _, rerr = o4.RefAccept(sw, b, rng, -1) })
		vconn, verr = o4.DialReal(cw, b.ClientArgsCert())
		<-done
		victimHalf = sw.Out()
	case "client-coalesced":
		// the tampered frames reach the client in the same segment as the
		// server's handshake response: hold the server->client direction back
		// until everything has been written
		sw.Out().Pause(true)
		done := make(chan struct{})
		c.Go(func() { close(done) }, func() { rc, _, _, rerr = o4.RefAccept(sw, b, rng, rng.IntN(200)) })
		vdone = make(chan struct{})
		c.Go(func() { close(vdone) }, func() { vconn, verr = o4.DialReal(cw, b.ClientArgsCert()) })
		<-done
		victimHalf = sw.Out()
		if rerr != nil {
			sw.Out().Pause(false)
			<-vdone
		}
	}
	if vdone == nil && (verr != nil || rerr != nil) || rerr != nil {
		c.Violation("setup/handshake", fmt.Sprintf("victim err=%v reference err=%v", verr, rerr), nil)
		cw.Close()
		sw.Close()
		return
	}
	if vdone == nil {
		victimHalf.SetPolicy(chunk(chunkIdx, seed))
	}
	// build the original frames
	var frames [][]byte
	var masks []uint16
	var payloadEnd []int64 // cumulative payload after frame i
	var off int64
	for _, s := range specs {
		f := rc.Enc.DataFrame(st.Bytes(off, s.data), s.pad)
		// the mask of this frame is whatever turns the length field into the true length
		masks = append(masks, binary.BigEndian.Uint16(f[:2])^uint16(len(f)-2))
		frames = append(frames, f)
		off += int64(s.data)
		payloadEnd = append(payloadEnd, off)
	}
	total = off
	var orig []byte
	var frameEnd []int
	for _, f := range frames {
		orig = append(orig, f...)
		frameEnd = append(frameEnd, len(orig))
	}
	stream, eof := tf(frames, masks)
	// damage offset: first byte where the sent stream differs from the original
	dmgOff = len(stream)
	for i := 0; i < len(stream); i++ {
		if i >= len(orig) || stream[i] != orig[i] {
			dmgOff = i
			break
		}
	}
	if dmgOff >= len(orig) && len(stream) >= len(orig) {
		dmgOff = -1 // nothing damaged (bytes may have been appended behind the last frame)
		if len(stream) > len(orig) {
			dmgOff = len(orig)
		}
	}
	allowed = total
	if dmgOff >= 0 {
		allowed = 0
		for i, e := range frameEnd {
			if e <= dmgOff {
				allowed = payloadEnd[i]
			}
		}
	}
	var mu sync.Mutex
	res.mismatch = -1
	if vdone != nil {
		// everything (response, seed frame, tampered frames) goes out before the
		// client may read any of it
		if _, err := rc.Conn.Write(stream); err != nil {
			c.Violation("setup/send", err.Error(), nil)
		}
		if eof {
			rc.Conn.Close()
		}
		sw.Out().Pause(false)
		<-vdone
		if verr != nil {
			// the damage was met while the handshake tail was decoded: Dial
			// reports the error and nothing is delivered
			res.err = verr
			cw.Close()
			sw.Close()
			r.Count("coalesced_damage_reported_by_dial", 1)
			ok = true
			return
		}
		r.Count("coalesced_dial_completed", 1)
	}
	// victim application: read until the first error, then a few more times
	readerDone := make(chan struct{})
	c.Go(func() { close(readerDone) }, func() {
		// the application's read buffer size matters: errors must surface
		// however much of the decoded data one Read can take
		buf := make([]byte, []int{4096, 1, 7, 100, 1024, 20000}[seed%6])
		var n64 int64
		extraReads := 0
		for {
			n, err := vconn.Read(buf)
			mu.Lock()
			if n > 0 {
				if i := st.Check(buf[:n], n64); i >= 0 && res.mismatch < 0 {
					res.mismatch = n64 + int64(i)
				}
				n64 += int64(n)
				res.delivered = n64
				if res.err != nil {
					res.extraBytes += int64(n)
				}
			}
			if err != nil && res.err == nil {
				res.err = err
			}
			stop := res.err != nil
			mu.Unlock()
			if stop {
				extraReads++
				if extraReads > 3 {
					return
				}
			}
			r.Distinct("app_read_buffer_sizes", fmt.Sprint(len(buf)))
		}
	})
	if vdone == nil {
		sender := rc.Conn
		if _, err := sender.Write(stream); err != nil {
			c.Violation("setup/send", err.Error(), nil)
		}
		if eof {
			sender.Close()
		}
	}
	synctest.Wait()
	mu.Lock()
	snap := res
	mu.Unlock()
	// unblock everything and let the reader do its extra reads
	cw.Close()
	sw.Close()
	<-readerDone
	mu.Lock()
	res.extraBytes = res.delivered - snap.delivered
	res.err = snap.err // liveness is judged on the state at quiescence; safety on everything ever delivered
	mu.Unlock()
	ok = true
	return
}

func judge(c *mon.Case, r *mon.Run, class string, res result, dmgOff int, allowed, total int64, streamLen int, eof bool, wit any) {
	r.Count("evaluations", 1)
	r.Count("tamper_"+class, 1)
	if res.mismatch >= 0 {
		c.Violation("altered-data-delivered/"+class, fmt.Sprintf("byte %d handed to the application is not what the peer wrote there", res.mismatch), wit)
	}
	if res.delivered > allowed {
		c.Violation("data-from-damaged-frame-or-later/"+class, fmt.Sprintf("%d application bytes delivered, but only %d were carried by frames entirely before the damage at wire offset %d", res.delivered, allowed, dmgOff), wit)
	}
	if dmgOff < 0 {
		// control: nothing damaged
		if res.delivered != total || res.err != nil {
			c.Violation("control/undamaged-stream/"+class, fmt.Sprintf("untampered stream: delivered %d of %d, err %v", res.delivered, total, res.err), wit)
		} else {
			r.Count("control_undamaged_delivered", 1)
		}
		return
	}
	needErr := eof || streamLen-dmgOff >= 2*ref.MaxSegment
	if needErr && res.err == nil {
		c.Violation("no-error-after-damage/"+class, fmt.Sprintf("%d bytes were forwarded beyond the damage at offset %d (eof=%v) and the victim is quiescent, but Read has not reported an error (delivered %d)", streamLen-dmgOff, dmgOff, eof, res.delivered), wit)
	}
	if res.err != nil {
		r.Count("error_surfaced", 1)
		r.Distinct("error_kinds", errKind(res.err))
		r.Count("err_"+errKind(res.err), 1)
	}
}

func errKind(err error) string {
	s := err.Error()
	switch {
	case bytes.Contains([]byte(s), []byte("tag mismatch")):
		return "tag-mismatch"
	case bytes.Contains([]byte(s), []byte("Invalid packet length")):
		return "invalid-packet-length"
	case bytes.Contains([]byte(s), []byte("Invalid payload length")):
		return "invalid-payload-length"
	case err == io.EOF || bytes.Contains([]byte(s), []byte("EOF")):
		return "eof"
	case bytes.Contains([]byte(s), []byte("closed")):
		return "closed"
	}
	return "other"
}

// tail returns specs for enough trailing frames to cover 2*1448 wire bytes.
func tail() []frameSpec { return []frameSpec{{1427, 0}, {1427, 0}, {700, 27}} }

func join(fs [][]byte) []byte {
	var out []byte
	for _, f := range fs {
		out = append(out, f...)
	}
	return out
}

var sizeClasses = []frameSpec{{0, 0}, {1, 0}, {24, 0}, {50, 29}, {700, 12}, {1426, 0}, {1427, 0}} // frames of 21, 22, 45, 100, 733, 1447, 1448 bytes

type tcase struct {
	class  string
	specs  []frameSpec
	tf     tamperFn
	needle string
}

func bitCase(sc frameSpec, idx int, bit int) tcase {
	specs := append([]frameSpec{{300, 5}, sc}, tail()...)
	return tcase{class: "bitflip", specs: specs, needle: fmt.Sprintf("size%d/bit%d", 21+sc.data+sc.pad, bit), tf: func(fs [][]byte, _ []uint16) ([]byte, bool) {
		out := make([][]byte, len(fs))
		copy(out, fs)
		f := append([]byte(nil), fs[1]...)
		f[bit/8] ^= 1 << (bit % 8)
		out[1] = f
		return join(out), false
	}}
}

func structural(rng interface{ IntN(int) int }) []tcase {
	var cs []tcase
	base := []frameSpec{{100, 0}, {1427, 0}, {1, 20}, {600, 100}}
	n := len(base)
	specs := append(append([]frameSpec{}, base...), tail()...)
	perm := func(p []int) tamperFn {
		return func(fs [][]byte, _ []uint16) ([]byte, bool) {
			var out [][]byte
			for _, i := range p {
				out = append(out, fs[i])
			}
			out = append(out, fs[n:]...)
			return join(out), false
		}
	}
	// all permutations of the first 4 frames (identity = control)
	var rec func(cur []int, used int)
	rec = func(cur []int, used int) {
		if len(cur) == n {
			p := append([]int(nil), cur...)
			cs = append(cs, tcase{class: "permute", specs: specs, tf: perm(p), needle: fmt.Sprint(p)})
			return
		}
		for i := 0; i < n; i++ {
			if used&(1<<i) == 0 {
				rec(append(cur, i), used|1<<i)
			}
		}
	}
	rec(nil, 0)
	for k := 0; k < n; k++ {
		k := k
		var del, dup []int
		for i := 0; i < n; i++ {
			if i != k {
				del = append(del, i)
			}
			dup = append(dup, i)
			if i == k {
				dup = append(dup, i)
			}
		}
		cs = append(cs, tcase{class: "delete-frame", specs: specs, tf: perm(del), needle: fmt.Sprint(k)})
		cs = append(cs, tcase{class: "duplicate-frame", specs: specs, tf: perm(dup), needle: fmt.Sprint(k)})
		// replay an earlier frame later
		for j := k + 1; j < n; j++ {
			var rp []int
			for i := 0; i < n; i++ {
				rp = append(rp, i)
				if i == j {
					rp = append(rp, k)
				}
			}
			cs = append(cs, tcase{class: "replay-earlier-frame", specs: specs, tf: perm(rp), needle: fmt.Sprintf("%d-after-%d", k, j)})
		}
		// forged frames inserted before frame k
		for _, kind := range []string{"random", "zero", "copy-of-first"} {
			kind := kind
			flen := 21 + rng.IntN(1428)
			cs = append(cs, tcase{class: "insert-forged-" + kind, specs: specs, needle: fmt.Sprint(k), tf: func(fs [][]byte, _ []uint16) ([]byte, bool) {
				forged := make([]byte, flen)
				switch kind {
				case "random":
					for i := range forged {
						forged[i] = byte(i*131 + flen)
					}
				case "copy-of-first":
					forged = append([]byte(nil), fs[0]...)
				}
				var out [][]byte
				out = append(out, fs[:k]...)
				out = append(out, forged)
				out = append(out, fs[k:]...)
				return join(out), false
			}})
		}
		// truncation inside frame k followed by EOF, at several positions
		for _, where := range []int{0, 1, 2, 3, 17, 18, 19, -1} {
			where := where
			cs = append(cs, tcase{class: "truncate-eof", specs: specs, needle: fmt.Sprintf("%d@%d", k, where), tf: func(fs [][]byte, _ []uint16) ([]byte, bool) {
				at := where
				if at < 0 || at >= len(fs[k]) {
					at = len(fs[k]) - 1
				}
				return append(join(fs[:k]), fs[k][:at]...), true
			}})
		}
		// delete / insert a single byte inside frame k
		for _, op := range []string{"delete-byte", "insert-byte"} {
			op := op
			pos := rng.IntN(21)
			cs = append(cs, tcase{class: op, specs: specs, needle: fmt.Sprintf("%d@%d", k, pos), tf: func(fs [][]byte, _ []uint16) ([]byte, bool) {
				f := fs[k]
				p := pos % len(f)
				var nf []byte
				if op == "delete-byte" {
					nf = append(append([]byte{}, f[:p]...), f[p+1:]...)
				} else {
					nf = append(append(append([]byte{}, f[:p]...), 0x5a), f[p:]...)
				}
				out := append([][]byte{}, fs[:k]...)
				out = append(out, nf)
				out = append(out, fs[k+1:]...)
				return join(out), false
			}})
		}
		// length field rewritten to an out-of-range value (the sender knows the mask)
		for _, want := range []int{0, 1, 15, 1447, 1448, 2000, 65535, rng.IntN(16), 1447 + rng.IntN(64000)} {
			want := want
			cs = append(cs, tcase{class: "length-out-of-range", specs: specs, needle: fmt.Sprintf("%d=%d", k, want), tf: func(fs [][]byte, masks []uint16) ([]byte, bool) {
				f := append([]byte(nil), fs[k]...)
				binary.BigEndian.PutUint16(f, uint16(want)^masks[k])
				out := append([][]byte{}, fs[:k]...)
				out = append(out, f)
				out = append(out, fs[k+1:]...)
				return join(out), false
			}})
		}
	}
	// pure truncation at the end followed by EOF, and garbage appended behind valid frames
	cs = append(cs, tcase{class: "append-garbage", specs: specs, needle: "end", tf: func(fs [][]byte, _ []uint16) ([]byte, bool) {
		return append(join(fs), bytes.Repeat([]byte{0xa5}, 3*1448)...), false
	}})
	return cs
}

func blind(c *mon.Case, r *mon.Run, dir string, op string, chunkIdx int, seed uint64) {
	rng := mon.NewRand(seed)
	b := o4.NewBridge(rng, rng.IntN(3))
	sf, err := o4.ServerFactory(dir, b)
	if err != nil {
		c.Violation("setup/server-factory", err.Error(), nil)
		return
	}
	cw, sw := memwire.Pair(memwire.Options{})
	// tamper with the server->client direction after the handshake: find the
	// handshake's end as the end of the server's first write
	s2c := sw.Out()
	s2c.SetPolicy(chunk(chunkIdx, seed))
	var hsEnd int64 = -1
	target := int64(-1)
	applied := false
	var dmgAt int64
	s2c.SetRewrite(func(off int64, p []byte) []byte {
		if hsEnd < 0 {
			hsEnd = int64(len(p))
			target = hsEnd + int64(rng.IntN(6000))
			return p
		}
		if applied || target < off || target >= off+int64(len(p)) {
			return p
		}
		applied = true
		dmgAt = target
		i := int(target - off)
		switch op {
		case "flip":
			p[i] ^= 1 << rng.IntN(8)
			return p
		case "insert":
			return append(append(append([]byte{}, p[:i]...), 0x33), p[i:]...)
		case "delete":
			return append(append([]byte{}, p[:i]...), p[i+1:]...)
		case "swap":
			if i+1 < len(p) && p[i] != p[i+1] {
				p[i], p[i+1] = p[i+1], p[i]
			} else {
				p[i] ^= 0xff
			}
			return p
		}
		return p
	})
	st := mon.Stream{Key: seed}
	var wg sync.WaitGroup
	wg.Add(1)
	c.Go(wg.Done, func() {
		sc, err := sf.WrapConn(sw)
		if err != nil {
			return
		}
		var off int64
		for k := 0; k < 12; k++ {
			n := 1 + rng.IntN(4000)
			if _, err := sc.Write(st.Bytes(off, n)); err != nil {
				return
			}
			off += int64(n)
		}
	})
	cc, err := o4.DialReal(cw, b.ClientArgsCert())
	if err != nil {
		cw.Close()
		sw.Close()
		wg.Wait()
		if applied {
			// the damaged bytes reached the client coalesced with the server's
			// handshake and were rejected while the handshake tail was decoded:
			// an error was reported and nothing was delivered
			r.Count("evaluations", 1)
			r.Count("blind_detected_in_dial", 1)
			return
		}
		c.Violation("setup/handshake", err.Error(), nil)
		return
	}
	var delivered, mismatch int64 = 0, -1
	var rerr error
	rdDone := make(chan struct{})
	c.Go(func() { close(rdDone) }, func() {
		buf := make([]byte, []int{3000, 1, 64, 1024, 20000}[seed%5])
		for {
			n, err := cc.Read(buf)
			if n > 0 {
				if i := st.Check(buf[:n], delivered); i >= 0 && mismatch < 0 {
					mismatch = delivered + int64(i)
				}
				delivered += int64(n)
			}
			if err != nil {
				rerr = err
				return
			}
		}
	})
	wg.Wait()
	synctest.Wait()
	written := s2c.Written()
	quiescentErr := false
	select {
	case <-rdDone:
		quiescentErr = true
	default:
	}
	cw.Close()
	sw.Close()
	<-rdDone
	r.Count("evaluations", 1)
	r.Count("blind_"+op, 1)
	wit := map[string]any{"op": op, "damage_offset": dmgAt, "chunking": chunkings[chunkIdx%len(chunkings)], "seed": fmt.Sprintf("%x", seed), "iat": b.IAT}
	if mismatch >= 0 {
		c.Violation("altered-data-delivered/blind-"+op, fmt.Sprintf("byte %d handed to the application is not what the peer wrote there", mismatch), wit)
	}
	if applied && written-dmgAt >= 2*ref.MaxSegment && !quiescentErr {
		c.Violation("no-error-after-damage/blind-"+op, fmt.Sprintf("%d bytes forwarded beyond the damage, victim quiescent without an error (delivered %d)", written-dmgAt, delivered), wit)
	}
	if applied {
		r.Count("blind_applied", 1)
		r.Distinct("nontrivial", fmt.Sprintf("blind/%s/%x", op, seed))
		if rerr != nil {
			r.Count("err_"+errKind(rerr), 1)
		}
	}
}

// decoderPass flips every listed bit of a frame of the given payload size and
// feeds it, followed by 2*1448 bytes of further valid frames, to the real decoder.
func decoderPass(c *mon.Case, r *mon.Run, size int, bits []int, seed uint64) {
	rng := mon.NewRand(seed)
	var key [framing.KeyLength]byte
	io.ReadFull(o4.RandReader{R: rng}, key[:])
	payload := make([]byte, size)
	io.ReadFull(o4.RandReader{R: rng}, payload)
	for _, bit := range bits {
		enc, dec := framing.NewEncoder(key[:]), framing.NewDecoder(key[:])
		var frame [framing.MaximumSegmentLength]byte
		n, err := enc.Encode(frame[:], payload)
		if err != nil {
			c.Violation("decoder/encode-failed", err.Error(), nil)
			return
		}
		if bit >= n*8 {
			continue
		}
		frame[bit/8] ^= 1 << (bit % 8)
		var buf bytes.Buffer
		buf.Write(frame[:n])
		filler := make([]byte, framing.MaximumFramePayloadLength)
		for k := 0; k < 3; k++ {
			var f2 [framing.MaximumSegmentLength]byte
			m, _ := enc.Encode(f2[:], filler)
			buf.Write(f2[:m])
		}
		var out [framing.MaximumFramePayloadLength]byte
		got, derr := dec.Decode(out[:], &buf)
		r.Count("evaluations", 1)
		r.Count("decoder_bitflips", 1)
		if derr == nil {
			c.Violation("decoder/accepted-damaged-frame", fmt.Sprintf("payload size %d, bit %d flipped: Decode returned %d bytes without error", size, bit, got), map[string]any{"size": size, "bit": bit})
		} else if derr == framing.ErrAgain {
			c.Violation("decoder/no-error-after-damage", fmt.Sprintf("payload size %d, bit %d flipped: decoder still wants more data with %d bytes beyond the frame", size, bit, 3*framing.MaximumSegmentLength), map[string]any{"size": size, "bit": bit})
		} else {
			r.Count("decoder_errors", 1)
		}
	}
}

func TestCheck(t *testing.T) {
	r := mon.Start(t, "C05")
	defer r.Finish()
	r.SpinWatch(memwire.BytesMoved)
	r.Note("rule", "(1) frame-accurate tampering with the reference implementation as sender and a real endpoint (server and client role) as victim: single-bit flips of one frame of 7 size classes (21,22,45,100,733,1447,1448 bytes; quick: all 144 bits of length field and tag plus PRNG body bits, thorough: every bit), all 24 permutations of 4 frames (identity = control), every single deletion/duplication, replays of earlier frames, forged frames (random/zero/copy) inserted at every position, truncation+EOF at byte 0,1,2,3,17,18,19,last of every frame, single byte deleted/inserted, length field rewritten to out-of-range classes using the known mask, garbage appended; every tampered stream extends >= 2*1448 bytes beyond the damage or ends with EOF; chunkings {all,1,1447,PRNG}. (2) blind flip/insert/delete/swap at PRNG offsets on real<->real connections (all IAT modes). (2a) reflection: the victim's own first burst (frames 1.. of its sending direction) is sent back to it in place of its peer's frames 1.. (for the client: in place of the seed frame); (2b) crowds of 8..24 real connections to one bridge alive in one process at once, 1..8 of them damaged by a blind bit flip in either direction while the others carry 30..200 kB each way concurrently, in two waves (next to the damaged ones, and after them), under the race detector: per-connection stream oracle. (3) decoder-level: every bit (quick: sizes step 97 + edges, thorough: every size 0..1427... see exhaustive_part) of a frame through the exported framing API. Non-trivial = a case whose stream really differs from the original; distinct = (class, position, victim, chunking).")
	dir := o4.StateDir("c05")

	// (1a) bit flips
	for si, sc := range sizeClasses {
		flen := 21 + sc.data + sc.pad
		var bits []int
		if r.Thorough() {
			for b := 0; b < flen*8; b++ {
				bits = append(bits, b)
			}
		} else {
			for b := 0; b < 18*8 && b < flen*8; b++ {
				if si == 0 || si == 6 || b%5 == si%5 {
					bits = append(bits, b)
				}
			}
			rng := mon.NewRand(r.Sub("bits", si))
			for k := 0; k < 24 && flen > 18; k++ {
				bits = append(bits, 18*8+rng.IntN((flen-18)*8))
			}
			sort.Ints(bits)
		}
		for blk := 0; blk*64 < len(bits); blk++ {
			for _, victim := range []string{"server", "client", "client-coalesced"} {
				si, sc, blk, victim := si, sc, blk, victim
				chunkBits := bits[blk*64 : min(len(bits), blk*64+64)]
				r.Bubble(fmt.Sprintf("bit/%s/size%d/blk%03d", victim, flen, blk), func(c *mon.Case) {
					for i, bit := range chunkBits {
						tc := bitCase(sc, si, bit)
						seed := r.Sub("bit", victim, si, bit)
						res, dmg, allowed, total, ok := runFrames(c, r, dir, victim, tc.specs, tc.tf, i+blk, seed)
						if !ok {
							continue
						}
						streamLen := 0
						for _, s := range tc.specs {
							streamLen += 21 + s.data + s.pad
						}
						r.Distinct("nontrivial", fmt.Sprintf("bit/%s/%s/%d", victim, tc.needle, (i+blk)%len(chunkings)))
						judge(c, r, "bitflip", res, dmg, allowed, total, streamLen, false, map[string]any{"victim": victim, "case": tc.needle, "chunking": chunkings[(i+blk)%len(chunkings)], "delivered": res.delivered, "allowed": allowed, "err": fmt.Sprint(res.err)})
						r.Max("max_bytes_forwarded_beyond_damage", int64(streamLen-dmg))
					}
				})
			}
		}
	}
	// (1b) structural tampering
	reps := r.Pick(2, 8)
	for rep := 0; rep < reps; rep++ {
		cs := structural(mon.NewRand(r.Sub("struct", rep)))
		for blk := 0; blk*24 < len(cs); blk++ {
			for _, victim := range []string{"server", "client", "client-coalesced"} {
				rep, blk, victim := rep, blk, victim
				part := cs[blk*24 : min(len(cs), blk*24+24)]
				r.Bubble(fmt.Sprintf("struct/%s/rep%d/blk%03d", victim, rep, blk), func(c *mon.Case) {
					for i, tc := range part {
						seed := r.Sub("st", victim, rep, blk, i)
						var streamLen int
						var eof bool
						tf := func(fs [][]byte, m []uint16) ([]byte, bool) {
							s, e := tc.tf(fs, m)
							streamLen, eof = len(s), e
							return s, e
						}
						res, dmg, allowed, total, ok := runFrames(c, r, dir, victim, tc.specs, tf, i+rep, seed)
						if !ok {
							continue
						}
						if dmg >= 0 {
							r.Distinct("nontrivial", fmt.Sprintf("%s/%s/%s/%d", tc.class, victim, tc.needle, (i+rep)%len(chunkings)))
						}
						judge(c, r, tc.class, res, dmg, allowed, total, streamLen, eof, map[string]any{"victim": victim, "class": tc.class, "case": tc.needle, "chunking": chunkings[(i+rep)%len(chunkings)], "damage_offset": dmg, "delivered": res.delivered, "allowed": allowed, "err": fmt.Sprint(res.err)})
						if i == 0 && blk == 0 {
							r.Sample(map[string]any{"victim": victim, "class": tc.class, "case": tc.needle, "damage_offset": dmg, "delivered": res.delivered, "allowed": allowed, "err": fmt.Sprint(res.err)})
						}
					}
				})
			}
		}
	}
	// (2) blind tampering
	nb := r.Pick(256, 2000)
	for i := 0; i < nb; i += 8 {
		i := i
		r.Bubble(fmt.Sprintf("blind/%05d", i), func(c *mon.Case) {
			for k := i; k < i+8 && k < nb; k++ {
				blind(c, r, dir, []string{"flip", "insert", "delete", "swap"}[k%4], k/4, r.Sub("blind", k))
			}
		})
	}
	// (2a) reflection: an endpoint's own frames sent back to it
	for i := 0; i < r.Pick(12, 80); i++ {
		i := i
		r.Bubble(fmt.Sprintf("transplant/%03d", i), func(c *mon.Case) {
			transplant(c, r, dir, []int{2, 4, 8, 16}[i%4], i%2 == 0, r.Sub("transplant", i))
		})
	}
	r.Bubble("reflect", func(c *mon.Case) {
		for k := 0; k < r.Pick(8, 60); k++ {
			reflect(c, r, dir, []string{"client", "server"}[k%2], r.Sub("reflect", k))
		}
	})
	// (2b) crowds: many connections in one process at once, some of them damaged
	ncr := r.Pick(8, 64)
	for i := 0; i < ncr; i++ {
		i := i
		r.Bubble(fmt.Sprintf("crowd/%03d", i), func(c *mon.Case) {
			nLinks := []int{12, 16, 24, 8}[i%4]
			crowd(c, r, dir, nLinks, []int{4, 3, 8, 1}[i%4], []int{60000, 100000, 30000, 200000}[i%4], r.Sub("crowd", i))
		})
	}
	// (3) decoder-level pass
	var sizes []int
	if r.Thorough() {
		for s := 0; s <= 1427; s++ {
			sizes = append(sizes, s)
		}
		r.Note("exhaustive_part", "decoder level: every single bit of a frame of every packet size 0..1427 (about 8.4 M single-bit cases)")
	} else {
		for s := 0; s <= 1427; s += 97 {
			sizes = append(sizes, s)
		}
		sizes = append(sizes, 1, 2, 3, 1426, 1427)
		r.Note("exhaustive_part", "decoder level: every single bit of frames of sizes 0,97,..,1358 and 1,2,3,1426,1427")
	}
	for _, s := range sizes {
		s := s
		r.Case(fmt.Sprintf("decoder/size%04d", s), func(c *mon.Case) {
			var bits []int
			for b := 0; b < (s+3+18)*8; b++ {
				bits = append(bits, b)
			}
			decoderPass(c, r, s+3, bits, r.Sub("dec", s))
			r.Distinct("nontrivial", fmt.Sprintf("decoder/%d", s))
		})
	}
}
