package c05

// Crowd family: the property is stated per connection, but the endpoints of
// one process share whatever the implementation chooses to share (pools,
// caches, package-level state).  Here many real connections to one bridge
// live in one process at once; an attacker damages the ciphertext of some of
// them (in either direction) while the others carry bulk data in both
// directions, concurrently, on as many processors as the machine has, under
// the race detector.
//
// Oracle, per connection and direction: what the application was handed is, at
// every moment, a prefix of what the peer wrote on THAT connection (position-
// dependent streams with a key per connection and direction, so bytes of
// another connection can never pass); an untouched connection delivers
// everything and reports no error; a damaged one reports an error.

import (
	"fmt"
	"net"
	"sync"
	"testing/synctest"

	"gitlab.com/yawning/obfs4.git/transports"

	"verif/memwire"
	"verif/mon"
	"verif/o4"
	ref "verif/ref/obfs4"
)

type crowdDir struct {
	st        mon.Stream
	written   int64
	delivered int64
	mismatch  int64
	rerr      error
	werr      error
}

type crowdLink struct {
	tamper   int // 0 untouched, 1 server->client damaged, 2 client->server damaged
	cw, sw   *memwire.Conn
	applied  bool
	dmgAt    int64
	dialErr  error
	wrapErr  error
	s2c, c2s crowdDir
	mu       sync.Mutex
}

func crowdPump(c *mon.Case, wg, writers *sync.WaitGroup, conn net.Conn, out, in *crowdDir, mu *sync.Mutex, sizes []int, rdBuf int) {
	wg.Add(2)
	c.Go(func() { writers.Done(); wg.Done() }, func() {
		var off int64
		for _, n := range sizes {
			if _, err := conn.Write(out.st.Bytes(off, n)); err != nil {
				mu.Lock()
				out.werr = err
				mu.Unlock()
				return
			}
			off += int64(n)
			mu.Lock()
			out.written = off
			mu.Unlock()
		}
	})
	c.Go(wg.Done, func() {
		buf := make([]byte, rdBuf)
		for {
			n, err := conn.Read(buf)
			mu.Lock()
			if n > 0 {
				if i := in.st.Check(buf[:n], in.delivered); i >= 0 && in.mismatch < 0 {
					in.mismatch = in.delivered + int64(i)
				}
				in.delivered += int64(n)
			}
			if err != nil {
				in.rerr = err
			}
			mu.Unlock()
			if err != nil {
				return
			}
		}
	})
}

func crowd(c *mon.Case, r *mon.Run, dir string, nLinks, nDamaged int, perDir int, seed uint64) {
	rng := mon.NewRand(seed)
	b := o4.NewBridge(rng, rng.IntN(3))
	sf, err := o4.ServerFactory(dir, b)
	if err != nil {
		c.Violation("setup/server-factory", err.Error(), nil)
		return
	}
	links := make([]*crowdLink, nLinks)
	var wg, writers sync.WaitGroup
	// two waves: the damaged connections and a third of the untouched ones
	// first; when those are through, the rest — so that some untouched
	// connections run while errors are being detected and some entirely after
	start := func(li int) {
		l := links[li]
		l.cw, l.sw = memwire.Pair(memwire.Options{})
		if l.tamper != 0 {
			h := l.sw.Out()
			if l.tamper == 2 {
				h = l.cw.Out()
			}
			var hsEnd, target int64 = -1, -1
			trng := mon.NewRand(seed ^ uint64(li)*0x9e3779b97f4a7c15)
			h.SetRewrite(func(off int64, p []byte) []byte {
				if hsEnd < 0 {
					hsEnd = int64(len(p))
					target = hsEnd + int64(trng.IntN(perDir/2))
					return p
				}
				if l.applied || target < off || target >= off+int64(len(p)) {
					return p
				}
				l.applied = true
				l.dmgAt = target
				p[int(target-off)] ^= 1 << trng.IntN(8)
				return p
			})
		}
		sizes := func(k uint64) []int {
			srng := mon.NewRand(seed ^ k)
			var s []int
			for left := perDir; left > 0; {
				n := 1 + srng.IntN(6000)
				if n > left {
					n = left
				}
				s = append(s, n)
				left -= n
			}
			return s
		}
		rd := []int{3000, 64, 1024, 20000, 1448, 7}[li%6]
		wg.Add(2)
		writers.Add(2)
		c.Go(wg.Done, func() {
			sc, err := sf.WrapConn(l.sw)
			if err != nil {
				l.mu.Lock()
				l.wrapErr = err
				l.mu.Unlock()
				writers.Done()
				return
			}
			crowdPump(c, &wg, &writers, sc, &l.s2c, &l.c2s, &l.mu, sizes(uint64(li)*2+1), rd)
		})
		c.Go(wg.Done, func() {
			cc, err := o4.DialReal(l.cw, b.ClientArgsCert())
			if err != nil {
				l.mu.Lock()
				l.dialErr = err
				l.mu.Unlock()
				writers.Done()
				return
			}
			crowdPump(c, &wg, &writers, cc, &l.c2s, &l.s2c, &l.mu, sizes(uint64(li)*2+2), rd)
		})
	}
	for li := range links {
		links[li] = &crowdLink{}
		l := links[li]
		if li < nDamaged {
			l.tamper = 1 + li%2
		}
		l.s2c = crowdDir{st: mon.Stream{Key: seed ^ uint64(li)<<8 ^ 1}, mismatch: -1}
		l.c2s = crowdDir{st: mon.Stream{Key: seed ^ uint64(li)<<8 ^ 2}, mismatch: -1}
	}
	second := map[int]bool{}
	for li := range links {
		if li >= nDamaged && (li-nDamaged)%3 != 0 {
			second[li] = true
			continue
		}
		start(li)
	}
	// (with inter-arrival-time obfuscation the writers sleep between segments:
	// wait for them, which lets the virtual clock run, then for quiescence)
	writers.Wait()
	synctest.Wait()
	for li := range links {
		if second[li] {
			start(li)
		}
	}
	writers.Wait()
	synctest.Wait()
	// judge at quiescence: every transfer is through or stopped by an error
	r.Count("evaluations", 1)
	r.Count("crowd_groups", 1)
	for li, l := range links {
		l.mu.Lock()
		wit := map[string]any{"link": li, "links": nLinks, "damaged_links": nDamaged, "this_link_damaged": l.tamper, "damage_offset": l.dmgAt, "seed": fmt.Sprintf("%x", seed), "iat": b.IAT,
			"s2c": fmt.Sprintf("written %d delivered %d err %v", l.s2c.written, l.s2c.delivered, l.s2c.rerr), "c2s": fmt.Sprintf("written %d delivered %d err %v", l.c2s.written, l.c2s.delivered, l.c2s.rerr)}
		kind := "untouched"
		if l.tamper != 0 {
			kind = "damaged"
		}
		for di, d := range []*crowdDir{&l.s2c, &l.c2s} {
			dn := []string{"server-to-client", "client-to-server"}[di]
			if d.mismatch >= 0 {
				c.Violation("altered-data-delivered/crowd/"+kind+"-connection", fmt.Sprintf("connection %d (%s), %s: byte %d handed to the application is not what the peer wrote there on this connection", li, kind, dn, d.mismatch), wit)
			}
			if d.delivered > d.written {
				c.Violation("more-than-written/crowd/"+kind+"-connection", fmt.Sprintf("connection %d (%s), %s: %d bytes delivered, %d written", li, kind, dn, d.delivered, d.written), wit)
			}
			r.Count("crowd_bytes_verified", d.delivered)
		}
		if l.tamper == 0 {
			r.Count("crowd_untouched_connections", 1)
			if l.dialErr != nil || l.wrapErr != nil {
				c.Violation("untouched-connection-failed/crowd/handshake", fmt.Sprintf("connection %d: dial %v, wrap %v", li, l.dialErr, l.wrapErr), wit)
			} else if l.s2c.delivered != int64(perDir) || l.c2s.delivered != int64(perDir) || l.s2c.rerr != nil || l.c2s.rerr != nil || l.s2c.werr != nil || l.c2s.werr != nil {
				c.Violation("untouched-connection-failed/crowd", fmt.Sprintf("connection %d was not tampered with but did not deliver everything without error next to damaged connections", li), wit)
			} else {
				r.Count("control_undamaged_delivered", 1)
				r.Count("crowd_untouched_complete", 1)
			}
		} else if l.applied {
			r.Count("crowd_damaged_connections", 1)
			d := &l.s2c
			wr := l.sw.Out().Written()
			if l.tamper == 2 {
				d = &l.c2s
				wr = l.cw.Out().Written()
			}
			if l.dialErr != nil || l.wrapErr != nil {
				// the damaged bytes reached the victim coalesced with the handshake
				// and were rejected while its tail was decoded: the handshake call
				// reported the error and nothing was delivered
				r.Count("error_surfaced", 1)
				r.Count("crowd_errors_surfaced_by_handshake_call", 1)
			} else if d.rerr == nil && wr-l.dmgAt >= 2*ref.MaxSegment {
				c.Violation("no-error-after-damage/crowd", fmt.Sprintf("connection %d: %d bytes forwarded beyond the damage, victim quiescent without an error (delivered %d)", li, wr-l.dmgAt, d.delivered), wit)
			} else if d.rerr != nil {
				r.Count("error_surfaced", 1)
				r.Count("crowd_errors_surfaced", 1)
			}
		}
		l.mu.Unlock()
	}
	r.Distinct("nontrivial", fmt.Sprintf("crowd/%d/%d/%x", nLinks, nDamaged, seed))
	for _, l := range links {
		l.cw.Close()
		l.sw.Close()
	}
	wg.Wait()
}

// reflect: the attacker sends an endpoint's own frames back to it.  The
// server's inline seed frame (frame 1 of its direction) is cut off the
// handshake flight, the client's first burst (frames 1.. of the other
// direction) is put in its place, and vice versa for the server as victim
// (the client's burst is answered with the server's own first burst).  The
// victim's peer has written nothing there, so the victim must deliver nothing
// and report an error.
func reflect(c *mon.Case, r *mon.Run, dir string, victim string, seed uint64) {
	rng := mon.NewRand(seed)
	b := o4.NewBridge(rng, 0)
	sf, err := o4.ServerFactory(dir, b)
	if err != nil {
		c.Violation("setup/server-factory", err.Error(), nil)
		return
	}
	cw, sw := memwire.Pair(memwire.Options{Keep: true})
	c2s, s2c := cw.Out(), sw.Out()
	first := true
	hsLen := 0
	var seedFrame []byte
	s2c.SetRewrite(func(off int64, p []byte) []byte {
		if first {
			first = false
			hsLen = len(p)
			if len(p) > ref.SeedFrameLength {
				seedFrame = append([]byte(nil), p[len(p)-ref.SeedFrameLength:]...)
			}
			if victim == "client" && len(p) > ref.SeedFrameLength {
				return p[:len(p)-ref.SeedFrameLength] // the response without the seed frame behind it
			}
		}
		return p
	})
	var sc net.Conn
	var serr error
	done := make(chan struct{})
	c.Go(func() { close(done) }, func() { sc, serr = sf.WrapConn(sw) })
	cc, cerr := o4.DialReal(cw, b.ClientArgsCert())
	<-done
	if cerr != nil || serr != nil {
		c.Violation("setup/handshake", fmt.Sprintf("reflect: %v / %v", cerr, serr), nil)
		cw.Close()
		sw.Close()
		return
	}
	var delivered int64
	var rerr error
	var mu sync.Mutex
	rd := make(chan struct{})
	vconn, vhalf := cc, s2c // the victim reads from vhalf
	if victim == "server" {
		vconn, vhalf = sc, c2s
	}
	c.Go(func() { close(rd) }, func() {
		buf := make([]byte, 4096)
		for {
			n, err := vconn.Read(buf)
			mu.Lock()
			delivered += int64(n)
			if err != nil {
				rerr = err
			}
			mu.Unlock()
			if err != nil {
				return
			}
		}
	})
	// the victim's own first burst: more than two full segments, so that the
	// reflected stream extends far enough beyond the first forged frame
	own := make([]byte, 3*ref.MaxSegment+rng.IntN(500))
	for i := range own {
		own[i] = byte(rng.IntN(256))
	}
	ohalf := c2s // the half the victim writes to
	if victim == "server" {
		ohalf = s2c
	}
	ohalf.Pause(true) // the victim's peer never sees it
	before := ohalf.Written()
	if _, err := vconn.Write(own); err != nil {
		c.Violation("setup/write", err.Error(), nil)
	}
	synctest.Wait()
	_, _, data := ohalf.Snapshot()
	burst := append([]byte(nil), data[before:]...)
	_ = hsLen
	if victim == "server" {
		// the server's frame 1 is the seed frame it sent behind its response
		burst = append(append([]byte(nil), seedFrame...), burst...)
	}
	vhalf.Inject(burst)
	synctest.Wait()
	mu.Lock()
	d, e := delivered, rerr
	mu.Unlock()
	r.Count("evaluations", 1)
	r.Count("tamper_reflect-own-frames", 1)
	wit := map[string]any{"victim": victim, "reflected_bytes": len(burst), "seed": fmt.Sprintf("%x", seed)}
	if d > 0 {
		c.Violation("forged-data-delivered/reflected-own-frames/"+victim, fmt.Sprintf("the %s delivered %d bytes to its application although its peer has written nothing: they are its own frames, sent back by the attacker (Read error so far: %v)", victim, d, e), wit)
	} else if e == nil {
		c.Violation("no-error-after-damage/reflected-own-frames/"+victim, fmt.Sprintf("%d bytes of the %s's own frames were sent back to it; it is quiescent without an error", len(burst), victim), wit)
	} else {
		r.Count("error_surfaced", 1)
		r.Count("reflections_rejected", 1)
	}
	r.Distinct("nontrivial", fmt.Sprintf("reflect/%s/%x", victim, seed))
	cw.Close()
	sw.Close()
	<-rd
}

// transplant: K connections of one client (arguments parsed once, as a
// library user does; every Dial at the same instant) to one server factory.
// When all are established, the frames one endpoint of connection 0 has put
// on the wire are written — byte for byte, at the same position of the frame
// stream — into the same direction of every other connection, whose own
// endpoint has written nothing there.  "The bytes delivered are a prefix of
// what the peer wrote" is a statement about each connection: nothing may be
// delivered on the others, and their Reads must fail.  (What makes that so is
// that no two connections share keys; the monitor does not look at keys.)
func transplant(c *mon.Case, r *mon.Run, dir string, k int, fromServer bool, seed uint64) {
	rng := mon.NewRand(seed)
	b := o4.NewBridge(rng, 0)
	sf, err := o4.ServerFactory(dir, b)
	if err != nil {
		c.Violation("setup/server-factory", err.Error(), nil)
		return
	}
	t := transports.Get("obfs4")
	cf, err := t.ClientFactory("")
	if err != nil {
		c.Violation("setup/client-factory", err.Error(), nil)
		return
	}
	pa, err := cf.ParseArgs(b.ClientArgsCert())
	if err != nil {
		c.Violation("setup/parse-args", err.Error(), nil)
		return
	}
	type end struct {
		cw, sw   *memwire.Conn
		cc, sc   net.Conn
		cerr     error
		serr     error
		got      int64
		rerr     error
		sample   []byte
		hsLenS2C int
		hsLenC2S int
	}
	// the factory has served before (one or two connections, over and done
	// with): whatever it prepares ahead of time for "the next connection" is
	// there when the K arrive together
	for w := 0; w < 1+int(seed%2); w++ {
		wcw, wsw := memwire.Pair(memwire.Options{})
		wd := make(chan struct{})
		c.Go(func() { close(wd) }, func() {
			if sc, err := sf.WrapConn(wsw); err == nil {
				sc.Close()
			}
		})
		if cc, err := cf.Dial("tcp", "192.0.2.2:443", func(string, string) (net.Conn, error) { return wcw, nil }, pa); err == nil {
			cc.Close()
		}
		<-wd
		wcw.Close()
		wsw.Close()
		synctest.Wait()
	}
	ends := make([]*end, k)
	var hs sync.WaitGroup
	start := make(chan struct{})
	for i := range ends {
		e := &end{}
		ends[i] = e
		e.cw, e.sw = memwire.Pair(memwire.Options{Keep: true})
		hs.Add(2)
		c.Go(hs.Done, func() { <-start; e.sc, e.serr = sf.WrapConn(e.sw) })
		c.Go(hs.Done, func() {
			<-start
			e.cc, e.cerr = cf.Dial("tcp", "192.0.2.2:443", func(string, string) (net.Conn, error) { return e.cw, nil }, pa)
		})
	}
	close(start)
	hs.Wait()
	synctest.Wait()
	closeAll := func() {
		for _, e := range ends {
			e.cw.Close()
			e.sw.Close()
		}
	}
	for i, e := range ends {
		if e.cerr != nil || e.serr != nil {
			c.Violation("setup/handshake", fmt.Sprintf("transplant: connection %d of %d dialled at once: %v / %v", i, k, e.cerr, e.serr), nil)
			closeAll()
			return
		}
		_, _, d := e.sw.Out().Snapshot()
		e.hsLenS2C = len(d)
		_, _, d = e.cw.Out().Snapshot()
		e.hsLenC2S = len(d)
	}
	// connection 0 carries a payload in the chosen direction
	src := ends[0]
	st := mon.Stream{Key: seed}
	n := 200 + rng.IntN(6000)
	wconn, half, hsLen := src.cc, src.cw.Out(), src.hsLenC2S
	if fromServer {
		wconn, half, hsLen = src.sc, src.sw.Out(), src.hsLenS2C
	}
	if _, err := wconn.Write(st.Bytes(0, n)); err != nil {
		c.Violation("setup/write", err.Error(), nil)
		closeAll()
		return
	}
	synctest.Wait()
	_, _, wire := half.Snapshot()
	frames := append([]byte(nil), wire[hsLen:]...)
	// readers on the victims, then the transplant
	var mu sync.Mutex
	var rd sync.WaitGroup
	for _, e := range ends[1:] {
		e := e
		vconn := e.sc
		if fromServer {
			vconn = e.cc
		}
		rd.Add(1)
		c.Go(rd.Done, func() {
			buf := make([]byte, 4096)
			for {
				m, err := vconn.Read(buf)
				mu.Lock()
				if m > 0 && len(e.sample) < 32 {
					e.sample = append(e.sample, buf[:min(m, 32-len(e.sample))]...)
				}
				e.got += int64(m)
				e.rerr = err
				mu.Unlock()
				if err != nil {
					return
				}
			}
		})
	}
	for _, e := range ends[1:] {
		raw := e.cw // written into the client->server direction behind the client's back
		if fromServer {
			raw = e.sw
		}
		raw.Write(frames)
	}
	synctest.Wait()
	// (under another connection's keys the first frame's length field reads as
	// anything up to 65535, and an endpoint may wait for that many bytes before
	// it checks the tag: more bytes, so that it has to decide)
	fill := make([]byte, 70000)
	for i := range fill {
		fill[i] = byte(rng.Uint32())
	}
	for _, e := range ends[1:] {
		raw := e.cw
		if fromServer {
			raw = e.sw
		}
		fw := raw
		c.Go(nil, func() { fw.Write(fill) })
	}
	synctest.Wait()
	dirName := map[bool]string{true: "server-to-client", false: "client-to-server"}[fromServer]
	r.Count("evaluations", 1)
	r.Count("transplant_groups", 1)
	ok := true
	mu.Lock()
	for i, e := range ends[1:] {
		wit := map[string]any{"connections": k, "direction": dirName, "victim": i + 1, "frames_bytes": len(frames), "payload_bytes": n, "delivered": e.got, "read_err": fmt.Sprint(e.rerr), "seed": fmt.Sprintf("%x", seed)}
		switch {
		case e.got > 0:
			ok = false
			c.Violation("foreign-frames-delivered/"+dirName, fmt.Sprintf("connection %d of %d (one client, dialled at once): its peer wrote nothing, the %d bytes of frames that connection 0's endpoint had sent were written into it, and Read delivered %d bytes (%q…), error %v", i+1, k, len(frames), e.got, e.sample, e.rerr), wit)
		case e.rerr == nil:
			ok = false
			c.Violation("foreign-frames-not-rejected/"+dirName, fmt.Sprintf("connection %d of %d: %d bytes of another connection's frames were written into it and Read has reported no error at quiescence", i+1, k, len(frames)), wit)
		default:
			r.Count("transplanted_frames_rejected", 1)
		}
	}
	mu.Unlock()
	if ok {
		r.Count("transplant_groups_all_rejected", 1)
	}
	r.Distinct("nontrivial", fmt.Sprintf("transplant/%d/%v/%x", k, fromServer, seed))
	closeAll()
	rd.Wait()
}
