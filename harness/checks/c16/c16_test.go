// C16 — meek_lite carries the byte stream intact through HTTP polling.
//
// The real client (public transports API, transports.Get("meek_lite")) is
// given a dialFn that connects to an in-memory HTTP/1.1 server (server_test.go)
// on memwire, inside a synctest bubble, so that poll intervals, retry delays
// and server think times are virtual.  The application side has one writer and
// one reader goroutine (plus, in the close family, a closer).  Both byte
// streams are position dependent (mon.Stream), so every request body and every
// Read result is checked against its own offset online; "no loss" is decided by
// state after the traffic has settled, "after Close" by state at quiescence
// plus 2 x 10 further virtual minutes.
package c16

import (
	"fmt"
	"math/rand/v2"
	"net"
	"regexp"
	"runtime/debug"
	"strings"
	"sync"
	"testing"
	"testing/synctest"
	"time"

	pt "gitlab.torproject.org/tpo/anti-censorship/pluggable-transports/goptlib"

	"gitlab.com/yawning/obfs4.git/transports"

	"verif/memwire"
	"verif/mon"
)

func init() {
	if transports.Get("meek_lite") == nil {
		if err := transports.Init(); err != nil {
			panic(err)
		}
	}
}

const (
	urlHost   = "meek.example.net"
	frontHost = "front.example.com"
)

var gapMenu = []time.Duration{0, time.Millisecond, 99 * time.Millisecond, 101 * time.Millisecond, 6 * time.Second}

type wstep struct {
	gap  time.Duration
	size int
}

// close kinds
const (
	ckEnd      = iota // only the closing sequence every connection gets after the traffic has settled
	ckSync            // the writer goroutine calls Close itself before write #closeStep
	ckAsync           // a third goroutine calls Close at the virtual instant write #closeStep is due
	ckInflight        // the server calls Close when the headers of the next request have arrived
	ckThinking        // ... in the middle of its think time
	ckMidResp         // ... between two pieces of the response
	nCloseKinds
)

var closeKindNames = []string{"end", "sync", "async", "inflight", "thinking", "midresp"}

type params struct {
	family string
	seed   uint64
	writes []wstep
	resp   []int           // response body sizes by request number; 0 afterwards
	think  []time.Duration // think time by request number; 0 afterwards

	chunkedEvery, splitEvery, connCloseEvery int // 0 = never, n = requests with idx%n == n-1
	front                                    bool
	pol                                      int
	readerSleep                              time.Duration
	smallBufs                                bool

	closeKind, closeStep int

	badFrom, badLen, badCode int // non-200 answers for requests badFrom .. badFrom+badLen-1
	fault                    faultKind
	faultAt                  int
}

func (p params) healthy() bool { return p.badLen == 0 && p.fault == faultNone }

func (p params) String() string {
	var ws []string
	for _, w := range p.writes {
		ws = append(ws, fmt.Sprintf("%v+%d", w.gap, w.size))
	}
	return fmt.Sprintf("family=%s seed=%x writes(gap+size)=[%s] resp=%v think=%v chunkedEvery=%d splitEvery=%d connCloseEvery=%d front=%v pol=%s readerSleep=%v smallBufs=%v close=%s@%d bad=%d×%d@%d fault=%d@%d",
		p.family, p.seed, strings.Join(ws, " "), p.resp, p.think, p.chunkedEvery, p.splitEvery, p.connCloseEvery, p.front, polNames[p.pol], p.readerSleep, p.smallBufs,
		closeKindNames[p.closeKind], p.closeStep, p.badCode, p.badLen, p.badFrom, p.fault, p.faultAt)
}

var readBufMenu = []int{1, 2, 99, 100, 101, 999, 1000, 1001, 32768, 65534, 65535, 65536, 65537, 70000}

var polNames = []string{"all", "1449", "prng3000", "prng64"}

func mkPolicy(i int, seed uint64) memwire.ChunkPolicy {
	switch i {
	case 1:
		return memwire.Fixed(1449)
	case 2:
		return memwire.PRNG(seed, 3000)
	case 3:
		return memwire.PRNG(seed, 64)
	}
	return memwire.All()
}

// ---------------------------------------------------------------- generators

const (
	wkTiny = iota
	wkMenu
	wkBig
	wkBurst
	wkExact
	nWriteKinds
)

var writeKindNames = []string{"tiny", "menu", "big", "burst", "exact"}

func pickGap(rng *rand.Rand) time.Duration { return gapMenu[rng.IntN(len(gapMenu))] }

func genWrites(rng *rand.Rand, kind int) []wstep {
	var out []wstep
	total := 0
	add := func(g time.Duration, sz, limit int) {
		if total+sz > limit {
			sz = 1 + rng.IntN(100)
		}
		total += sz
		out = append(out, wstep{g, sz})
	}
	switch kind {
	case wkTiny:
		n := 1 + rng.IntN(40)
		for i := 0; i < n; i++ {
			add(pickGap(rng), 1+rng.IntN(100), 1<<30)
		}
	case wkMenu:
		menu := []int{1, 2, 1000, 4096, 32768, 65535, 65536, 65537}
		n := 1 + rng.IntN(12)
		for i := 0; i < n; i++ {
			add(pickGap(rng), menu[rng.IntN(len(menu))], 400000)
		}
	case wkBig:
		menu := []int{65536, 65537, 131072, 131073, 3*65536 + 1, 1, 70000}
		n := 1 + rng.IntN(5)
		for i := 0; i < n; i++ {
			add(pickGap(rng), menu[rng.IntN(len(menu))], 500000)
		}
	case wkBurst:
		n := 17 + rng.IntN(24)
		small := rng.IntN(2) == 0
		for i := 0; i < n; i++ {
			sz := 1 + rng.IntN(50)
			if !small {
				sz = 4000 + rng.IntN(3000)
			}
			g := time.Duration(0)
			if i > 0 && rng.IntN(12) == 0 {
				g = pickGap(rng)
			}
			add(g, sz, 1<<30)
		}
	case wkExact:
		sets := [][]int{{65535, 1}, {32768, 32768}, {1, 65535}, {65536}, {65536, 1}, {1, 65536}, {65535, 2}}
		reps := 1 + rng.IntN(2)
		for r := 0; r < reps; r++ {
			set := sets[rng.IntN(len(sets))]
			for i, sz := range set {
				g := time.Duration(0)
				if i == 0 {
					g = pickGap(rng)
				}
				add(g, sz, 1<<30)
			}
		}
		add(101*time.Millisecond, 1, 1<<30)
	}
	return out
}

const (
	rpEmpty = iota
	rpOne
	rpFull
	rpAlt
	rpPRNG
	rpSmall
	nRespKinds
)

var respKindNames = []string{"empty", "one", "full", "alt", "prng", "small"}

func genResp(rng *rand.Rand, kind int) []int {
	var out []int
	total := 0
	add := func(sz int) {
		if total+sz > 300000 {
			sz = 1
		}
		total += sz
		out = append(out, sz)
	}
	switch kind {
	case rpOne:
		for i, n := 0, 1+rng.IntN(40); i < n; i++ {
			add(1)
		}
	case rpFull:
		for i, n := 0, 1+rng.IntN(4); i < n; i++ {
			add(65536)
		}
	case rpAlt:
		pairs := [][2]int{{0, 65536}, {65536, 0}, {1, 0}, {0, 1}, {1, 65536}}
		pr := pairs[rng.IntN(len(pairs))]
		for i, n := 0, 2+rng.IntN(10); i < n; i++ {
			add(pr[i%2])
		}
	case rpSmall:
		for i, n := 0, 1+rng.IntN(40); i < n; i++ {
			add(2 + rng.IntN(63))
		}
	case rpPRNG:
		menu := []int{0, 1, 17, 100, 1000, 65535, 65536}
		for i, n := 0, rng.IntN(13); i < n; i++ {
			if rng.IntN(3) == 0 {
				add(rng.IntN(65537))
			} else {
				add(menu[rng.IntN(len(menu))])
			}
		}
	}
	return out
}

func genThink(rng *rand.Rand, mode int) []time.Duration {
	switch mode {
	case 1:
		menu := []time.Duration{0, 0, 0, time.Millisecond, 50 * time.Millisecond, 150 * time.Millisecond, time.Second, 10 * time.Second}
		out := make([]time.Duration, 64)
		for i := range out {
			out[i] = menu[rng.IntN(len(menu))]
		}
		return out
	case 2:
		out := make([]time.Duration, 1+rng.IntN(4))
		for i := range out {
			out[i] = 10 * time.Second
		}
		return out
	case 3:
		// a slow front: some answers take longer than any sensible client-side
		// patience (the property holds "while the server answers 200", however late)
		menu := []time.Duration{0, 0, time.Second, 25 * time.Second, 45 * time.Second, 2 * time.Minute, 5 * time.Minute}
		out := make([]time.Duration, 8)
		for i := range out {
			out[i] = menu[rng.IntN(len(menu))]
		}
		return out
	}
	return nil
}

// common fills the dimensions every family draws at random.
func common(rng *rand.Rand, p *params) {
	p.think = genThink(rng, rng.IntN(3))
	p.chunkedEvery = []int{0, 1, 2, 3}[rng.IntN(4)]
	p.splitEvery = []int{0, 1, 3}[rng.IntN(3)]
	p.connCloseEvery = []int{0, 0, 0, 1, 2, 5}[rng.IntN(6)]
	p.front = rng.IntN(2) == 0
	down, up := 0, 0
	for _, n := range p.resp {
		down += n
	}
	for _, w := range p.writes {
		up += w.size
	}
	p.pol = rng.IntN(3)
	if down+up <= 4000 && rng.IntN(3) == 0 {
		p.pol = 3
	}
	p.smallBufs = down <= 20000 && rng.IntN(2) == 0
	p.readerSleep = []time.Duration{0, 0, 0, time.Millisecond, 200 * time.Millisecond, time.Second}[rng.IntN(6)]
	if p.smallBufs && down > 2000 && p.readerSleep > 200*time.Millisecond {
		p.readerSleep = 200 * time.Millisecond // keep the drain time far below the settle bound
	}
}

func bodyClass(n int) string {
	switch {
	case n < 0:
		return "unread"
	case n == 0:
		return "0"
	case n == 1:
		return "1"
	case n < 1000:
		return "2_999"
	case n < 65536:
		return "1000_65535"
	case n == 65536:
		return "65536"
	}
	return "gt_65536"
}

func racClass(n int) string {
	switch {
	case n <= 2:
		return fmt.Sprint(n)
	case n <= 5:
		return "3_5"
	case n <= 20:
		return "6_20"
	}
	return "gt_20"
}

// ---------------------------------------------------------------- one connection

type wrec struct {
	off int64
	n   int
}

func runConn(c *mon.Case, r *mon.Run, p params, sp **server) {
	desc := p.String()
	var mu sync.Mutex // protects the application-side state below; lock order: s.mu before mu
	var (
		submitted, written, delivered int64
		writes                        []wrec
		readErr                       error
		readerDone, inRead            bool
		dataAfterClose                int
		writeErrsAfterClose           int
	)
	s := &server{c: c, r: r, desc: desc, start: time.Now(),
		up: mon.Stream{Key: p.seed ^ 0xc16a}, down: mon.Stream{Key: p.seed ^ 0xc16b}, judgeUp: p.healthy()}
	*sp = s
	s.submitted = func() int64 { mu.Lock(); defer mu.Unlock(); return submitted }
	polSeq := uint64(0)
	s.polC2S = func() memwire.ChunkPolicy { polSeq++; return mkPolicy(p.pol, p.seed+polSeq) }
	s.polS2C = func() memwire.ChunkPolicy { polSeq++; return mkPolicy(p.pol, p.seed+polSeq) }
	s.planFor = func(idx int) plan {
		pl := plan{status: 200, split: 1}
		if idx < len(p.resp) {
			pl.size = p.resp[idx]
		}
		if idx < len(p.think) {
			pl.think = p.think[idx]
		}
		every := func(n int) bool { return n > 0 && idx%n == n-1 }
		pl.chunked = every(p.chunkedEvery)
		if every(p.splitEvery) {
			pl.split = 2 + idx%2
		}
		pl.connClose = every(p.connCloseEvery)
		if p.badLen > 0 && idx >= p.badFrom && idx < p.badFrom+p.badLen {
			pl.status = p.badCode
		}
		if p.fault != faultNone && idx == p.faultAt {
			pl.fault = p.fault
		}
		return pl
	}
	switch p.closeKind {
	case ckInflight:
		s.trigKind = trigOnHeaders
	case ckThinking:
		s.trigKind = trigMidThink
	case ckMidResp:
		s.trigKind = trigMidResponse
	}

	// the real client, through the public API only
	tr := transports.Get("meek_lite")
	if tr == nil {
		s.viol("setup/transport-not-registered", "meek_lite")
		return
	}
	cf, err := tr.ClientFactory("")
	if err != nil {
		s.viol("setup/client-factory", err.Error())
		return
	}
	args := pt.Args{}
	args.Add("url", "http://"+urlHost+"/")
	if p.front {
		args.Add("front", frontHost)
	}
	pa, err := cf.ParseArgs(&args)
	if err != nil {
		s.viol("setup/parse-args", err.Error())
		return
	}
	cc, err := cf.Dial("tcp", "192.0.2.2:443", s.dial, pa)
	if err != nil {
		s.viol("setup/dial", err.Error())
		return
	}

	closePhase := ""
	s.doClose = func(phase string) {
		s.mu.Lock()
		if s.closeCalled {
			s.mu.Unlock()
			return
		}
		s.closeCalled = true
		s.mu.Unlock()
		cc.Close()
		s.mu.Lock()
		s.closeReturned = true
		closePhase = phase
		s.mu.Unlock()
	}
	closeState := func() (called, returned bool) {
		s.mu.Lock()
		defer s.mu.Unlock()
		return s.closeCalled, s.closeReturned
	}

	var wg sync.WaitGroup
	// reader: runs until Read fails
	wg.Add(1)
	c.Go(wg.Done, func() {
		defer func() { mu.Lock(); readerDone = true; mu.Unlock() }()
		brng := mon.NewRand(p.seed ^ 0x7ead)
		var off int64
		for {
			// buffer sizes: PRNG, tiny, and sizes just below/at/above the scripted
			// response sizes so that remainders of 1 byte and exact fits occur
			sz := 1 + brng.IntN(20000)
			switch {
			case p.smallBufs:
				sz = 1 + brng.IntN(16)
			case brng.IntN(3) == 0:
				sz = readBufMenu[brng.IntN(len(readBufMenu))]
			}
			buf := make([]byte, sz)
			_, crBefore := closeState()
			mu.Lock()
			inRead = true
			mu.Unlock()
			n, err := cc.Read(buf)
			mu.Lock()
			inRead = false
			mu.Unlock()
			if n > 0 {
				if i := s.down.Check(buf[:n], off); i >= 0 {
					s.viol("read-stream/not-the-response-bodies", fmt.Sprintf("Read returned %d bytes for stream offset %d; byte %d is not the byte the server sent at offset %d of the concatenated 200-response bodies", n, off, i, off+int64(i)))
				}
				off += int64(n)
				s.mu.Lock()
				started := s.downStarted
				s.mu.Unlock()
				if off > started {
					s.viol("read-stream/more-than-the-server-sent", fmt.Sprintf("Read has returned %d bytes, the server has only begun to send %d", off, started))
				}
				mu.Lock()
				delivered = off
				if crBefore {
					dataAfterClose++
				}
				mu.Unlock()
			}
			if err != nil {
				called, _ := closeState()
				if !called && p.healthy() {
					s.viol("read-error/healthy-connection", fmt.Sprintf("Read failed with %v although Close had not been called and the server answered every request with 200", err))
				}
				mu.Lock()
				readErr = err
				mu.Unlock()
				return
			}
			if _, cr := closeState(); p.readerSleep > 0 && !cr {
				time.Sleep(p.readerSleep) // a slow reader; once Close has returned it just drains
			}
		}
	})

	// writeOne: one application Write, accounted.  Returns false when the writer should stop.
	writeOne := func(sz int) bool {
		mu.Lock()
		off := written
		if off+int64(sz) > submitted {
			submitted = off + int64(sz)
		}
		mu.Unlock()
		data := s.up.Bytes(off, sz)
		_, crBefore := closeState()
		n, err := cc.Write(data)
		for i := range data {
			data[i] ^= 0xa5 // the caller owns the buffer again as soon as Write has returned
		}
		mu.Lock()
		written = off + int64(n)
		// submitted stays at its high-water mark: bytes of a failed Write were still handed to the connection
		if n > 0 {
			writes = append(writes, wrec{off, n})
		}
		mu.Unlock()
		if err == nil && n != sz {
			s.viol("write/short-without-error", fmt.Sprintf("Write of %d bytes returned %d, nil", sz, n))
			return false
		}
		if crBefore {
			if err == nil {
				s.viol("after-close/write-succeeds", fmt.Sprintf("a Write of %d bytes that began after Close had returned reported success", sz))
				return false
			}
			mu.Lock()
			writeErrsAfterClose++
			mu.Unlock()
			return true
		}
		if err != nil {
			if called, _ := closeState(); !called && p.healthy() {
				s.viol("write-error/healthy-connection", fmt.Sprintf("Write failed with %v although Close had not been called and the server answered every request with 200", err))
				return false
			}
			if !p.healthy() {
				return false // the connection died of the scripted failure
			}
		}
		return true
	}

	// closer for ckAsync: fires at the virtual instant write #closeStep is due
	if p.closeKind == ckAsync {
		var at time.Duration
		for i := 0; i <= p.closeStep && i < len(p.writes); i++ {
			at += p.writes[i].gap
		}
		wg.Add(1)
		c.Go(wg.Done, func() {
			time.Sleep(at)
			s.doClose("async-racing-write")
		})
	}

	// writer
	var writerWG sync.WaitGroup
	writerWG.Add(1)
	c.Go(writerWG.Done, func() {
		hook := func(i int) {
			if i != p.closeStep {
				return
			}
			switch p.closeKind {
			case ckSync:
				switch {
				case i == 0:
					s.doClose("sync-before-first-write")
				case i == len(p.writes):
					s.doClose("sync-right-after-last-write")
				default:
					s.doClose("sync-between-writes")
				}
			case ckInflight, ckThinking, ckMidResp:
				s.mu.Lock()
				s.trigArmed = true
				s.mu.Unlock()
			}
		}
		for i, w := range p.writes {
			hook(i)
			time.Sleep(w.gap)
			if !writeOne(w.size) {
				return
			}
		}
		hook(len(p.writes))
	})
	writerWG.Wait()

	// ---- let the traffic settle (virtual time; the worker never stops polling on its own)
	lastData := -1
	for i, n := range p.resp {
		if n > 0 {
			lastData = i
		}
	}
	settled := func() (bool, string) {
		s.mu.Lock()
		upOff, dStart, dDone, nreq, infl := s.upOff, s.downStarted, s.downDone, len(s.reqs), s.inflight
		s.mu.Unlock()
		mu.Lock()
		w, d := written, delivered
		mu.Unlock()
		ok := upOff == w && d == dDone && dDone == dStart && nreq > lastData && infl == 0
		return ok, fmt.Sprintf("request bodies %d of %d written bytes; Read delivered %d of %d response-body bytes sent (%d begun); %d requests, %d scripted responses with data, %d in flight", upOff, w, d, dDone, dStart, nreq, lastData+1, infl)
	}
	waitsForTrigger := p.closeKind >= ckInflight
	isSettled, how := false, ""
	diedAlone := false // unhealthy scripts: Read failed although nobody had called Close
	for i := 0; i < 3600; i++ {
		synctest.Wait()
		if _, returned := closeState(); returned {
			break
		}
		mu.Lock()
		dead := readerDone
		mu.Unlock()
		if dead && !p.healthy() {
			diedAlone = true
			break // the connection failed, as the script intended
		}
		if isSettled, how = settled(); isSettled && !waitsForTrigger {
			break
		}
		time.Sleep(time.Second)
	}
	called, _ := closeState()
	if !called {
		switch {
		case waitsForTrigger:
			r.Count("close_trigger_never_fired", 1)
		case p.healthy() && !isSettled:
			sig := "stall/"
			s.mu.Lock()
			upShort := s.upOff != written
			s.mu.Unlock()
			if upShort {
				sig += "written-bytes-never-sent"
			} else {
				sig += "response-bytes-never-delivered"
			}
			s.viol(sig, "one virtual hour after the last Write, with every request answered 200 (the slowest answers of the script add up to less than 45 minutes): "+how)
		case p.healthy():
			r.Count("settled_connections_judged_equal", 1)
		case diedAlone:
			r.Count("unhealthy_connection_failed_by_itself", 1)
		case isSettled:
			r.Count("unhealthy_recovered_stream_complete", 1)
		default:
			r.Count("unhealthy_stream_incomplete_after_1h", 1)
		}
		if !s.flagged.Load() && p.healthy() && isSettled {
			// no duplicates arrive later either: 30 more virtual seconds of polling must bring only empty bodies
			time.Sleep(30 * time.Second)
			synctest.Wait()
			s.mu.Lock()
			upOff, dStart, nreq := s.upOff, s.downStarted, len(s.reqs)
			s.mu.Unlock()
			mu.Lock()
			w, d := written, delivered
			mu.Unlock()
			if upOff != w || d != dStart {
				s.viol("stream/changes-after-everything-was-transferred", fmt.Sprintf("30 virtual seconds later: request bodies %d of %d written bytes, Read delivered %d of %d response bytes, %d requests", upOff, w, d, dStart, nreq))
			}
		}
		s.doClose("end-after-settle")
	}

	// ---- after Close has returned
	_, err = cc.Write([]byte{0x55})
	if err == nil {
		s.viol("after-close/write-succeeds", "a 1-byte Write issued after Close had returned reported success")
	} else {
		r.Count("control_close_makes_write_fail", 1)
	}
	synctest.Wait()
	time.Sleep(10 * time.Minute)
	synctest.Wait()
	s.mu.Lock()
	s.mark = len(s.reqs)
	s.mu.Unlock()
	time.Sleep(10 * time.Minute)
	synctest.Wait()
	s.mu.Lock()
	late := len(s.reqs) - s.mark
	total := len(s.reqs)
	afterClose := 0
	for _, q := range s.reqs {
		if q.AfterClose {
			afterClose++
		}
	}
	s.mu.Unlock()
	// While every answer carries data the client polls again at once; Close
	// must end that, whatever the server still has to say.  The original picks
	// at random among the ready cases of its select, so a few more requests
	// can follow Close; the chance of more than 100 is below (2/3)^100.
	if afterClose > 100 {
		s.viol("after-close/polling-continues-while-responses-carry-data", fmt.Sprintf("%d requests arrived after Close had returned (%d in total): polling only stopped when the server ran out of data", afterClose, total))
	}
	if late > 0 {
		s.viol("after-close/polling-continues", fmt.Sprintf("%d request(s) arrived between 10 and 20 virtual minutes after Close had returned and the system had become quiescent (%d requests after Close in all, %d in total)", late, afterClose, total))
	}
	mu.Lock()
	rd, rerr, stuckInRead := readerDone, readErr, inRead
	mu.Unlock()
	readerStuck := false
	if !rd && !stuckInRead {
		s.viol("harness/reader-neither-done-nor-in-read", "the reader goroutine is neither finished nor inside Read at quiescence")
		readerStuck = true
	} else if !rd {
		readerStuck = true
		s.viol("after-close/read-blocks-for-ever", fmt.Sprintf("20 virtual minutes after Close returned the reader is still blocked in Read (quiescent, %d bytes delivered)", delivered))
	} else {
		if rerr != nil {
			r.Count("control_read_after_close_errors", 1)
		}
		// one more Read: must fail again, not block, and not produce data out of nowhere
		done := make(chan struct{})
		var n2 int
		var err2 error
		c.Go(func() { close(done) }, func() { n2, err2 = cc.Read(make([]byte, 64)) })
		synctest.Wait()
		select {
		case <-done:
			if err2 == nil {
				s.viol("after-close/read-succeeds-after-it-failed", fmt.Sprintf("a Read issued after Close and after a previous Read had failed returned %d, nil", n2))
			}
		default:
			readerStuck = true
			s.viol("after-close/read-blocks-for-ever", "a Read issued after Close and after a previous Read had failed blocks")
		}
	}

	// ---- evidence
	s.mu.Lock()
	reqs := append([]reqRec(nil), s.reqs...)
	nconns := len(s.conns)
	addrs := append([]string(nil), s.dialAddrs...)
	sid := s.sid
	maxInfl := s.maxInflight
	upOff := s.upOff
	non200Mis, retrySame := s.non200UpMismatch, s.retrySameBody
	s.mu.Unlock()
	mu.Lock()
	ws := append([]wrec(nil), writes...)
	dAfter, wErrAfter := dataAfterClose, writeErrsAfterClose
	nDelivered := delivered
	mu.Unlock()

	r.Count("evaluations", 1)
	r.Count("connections", 1)
	r.Count("family_"+p.family, 1)
	r.Count("requests", int64(len(reqs)))
	r.Count("tcp_connections", int64(nconns))
	if nconns > 1 {
		r.Count("connections_with_tcp_redial", 1)
	}
	r.Count("app_bytes_up_in_bodies", upOff)
	r.Count("app_bytes_down_read", nDelivered)
	r.Max("max_in_flight_seen", int64(maxInfl))
	r.Count("close_"+closePhase, 1)
	if p.closeKind != ckEnd {
		r.Count(fmt.Sprintf("close_at_step_%02d", p.closeStep), 1)
	}
	r.Count("requests_after_close", int64(afterClose))
	r.Count("requests_after_close_hist_"+racClass(afterClose), 1)
	r.Max("requests_after_close_max", int64(afterClose))
	r.Count("reads_with_data_after_close", int64(dAfter))
	r.Count("writes_failed_after_close", int64(wErrAfter))
	if p.front {
		r.Count("with_front", 1)
	} else {
		r.Count("without_front", 1)
	}
	wantAddr := "tcp|" + urlHost + ":80"
	if p.front {
		wantAddr = "tcp|" + frontHost + ":80"
	}
	for _, a := range addrs {
		if a == wantAddr {
			r.Count("dial_addr_as_expected", 1)
		} else {
			r.Count("dial_addr_unexpected", 1)
		}
	}
	if sid != "" {
		r.Distinct("session_ids", sid)
		r.Count("connections_with_session_id", 1)
	}
	var sig strings.Builder
	for _, q := range reqs {
		r.Count("body_"+bodyClass(q.BodyLen), 1)
		if q.Status == 200 {
			r.Count("resp_"+bodyClass(q.RespLen), 1)
		} else {
			r.Count(fmt.Sprintf("resp_status_%d", q.Status), 1)
		}
		if q.Host == urlHost {
			r.Count("host_header_as_expected", 1)
		} else {
			r.Count("host_header_unexpected", 1)
		}
		if q.BodyLen == 65536 {
			r.Count("control_full_body_65536_seen", 1)
		}
		if q.BodyLen == 0 {
			r.Count("control_poll_without_data_seen", 1)
		}
		fmt.Fprintf(&sig, "%s/%s/%v;", bodyClass(q.BodyLen), bodyClass(q.RespLen), q.AfterClose)
	}
	if p.healthy() {
		// how writes map onto bodies
		for _, q := range reqs {
			if q.BodyLen <= 0 {
				continue
			}
			a, b := q.upOff, q.upOff+int64(q.BodyLen)
			parts, startsOnBoundary := 0, false
			for _, w := range ws {
				wa, wb := w.off, w.off+int64(w.n)
				if wa < b && a < wb {
					parts++
				}
				if wa == a {
					startsOnBoundary = true
				}
			}
			if parts >= 2 {
				r.Count("bodies_merging_several_writes", 1)
			}
			if !startsOnBoundary {
				r.Count("bodies_starting_with_leftover_carry_over", 1)
			}
		}
		for _, w := range ws {
			wa, wb := w.off, w.off+int64(w.n)
			parts := 0
			for _, q := range reqs {
				if q.BodyLen <= 0 {
					continue
				}
				a, b := q.upOff, q.upOff+int64(q.BodyLen)
				if wa < b && a < wb {
					parts++
				}
			}
			if parts >= 2 {
				r.Count("writes_split_over_several_bodies", 1)
			}
			if w.n > maxBody {
				r.Count("writes_larger_than_one_body", 1)
			}
		}
	} else {
		r.Count("unhealthy_up_body_not_at_expected_offset", int64(non200Mis))
		r.Count("unhealthy_requests_repeating_a_body", int64(retrySame))
		if retrySame > 0 {
			r.Count("control_non200_retry_seen", 1)
		}
		if !diedAlone {
			r.Count("unhealthy_connection_survived_until_close", 1)
		}
	}
	if len(reqs) > 0 {
		r.Distinct("nontrivial", fmt.Sprintf("%s|%x", p.family, p.seed))
	}
	r.Distinct("request_response_sequences", sig.String())
	r.Sample(map[string]any{"params": desc, "requests": len(reqs), "tcp_connections": nconns, "bytes_in_bodies": upOff, "bytes_read": nDelivered,
		"close_phase": closePhase, "requests_after_close": afterClose, "first_requests": firstN(reqs, 12)})

	// ---- let the bubble end: no more dials, server-side TCP ends closed
	s.shutdown()
	if !readerStuck {
		wg.Wait()
	}
	s.wg.Wait()
	synctest.Wait()
}

func firstN(reqs []reqRec, n int) []string {
	var out []string
	for i, q := range reqs {
		if i == n {
			break
		}
		out = append(out, fmt.Sprintf("#%d t=%v conn=%d body=%d -> %d/%d afterClose=%v", q.Idx, q.T, q.Conn, q.BodyLen, q.Status, q.RespLen, q.AfterClose))
	}
	return out
}

// conn runs one connection in its own bubble, inside its own subtest:
// synctest.Test calls FailNow on the T it was given as soon as the race
// detector has reported anything during the bubble (here: the allowlisted
// close-versus-send pair), and on the top-level T that would silently end the
// whole shard.  A subtest confines it to this connection.
func conn(c *mon.Case, r *mon.Run, p params) {
	c.T.Run("conn", func(t *testing.T) {
		var sp *server
		defer func() {
			if e := recover(); e != nil {
				msg := fmt.Sprint(e)
				switch {
				case strings.HasPrefix(msg, "deadlock:") && sp != nil && sp.flagged.Load():
					// fallout of a violation already reported for this connection
				case strings.HasPrefix(msg, "deadlock:"):
					c.Violation("wedge/goroutines-still-blocked-at-the-end", msg+"; "+p.String(), p.String())
				default:
					st := string(debug.Stack())
					frame := ""
					for _, ln := range strings.Split(st, "\n") {
						if ln = strings.TrimSpace(ln); strings.HasPrefix(ln, "gitlab.com/yawning/obfs4.git/") {
							frame = strings.TrimPrefix(ln, "gitlab.com/yawning/obfs4.git/")
							if i := strings.Index(frame, "("); i > 0 {
								frame = frame[:i]
							}
							break
						}
					}
					m := reNum.ReplaceAllString(msg, "N")
					if len(m) > 120 {
						m = m[:120]
					}
					c.Violation("panic/"+m+"@"+frame, msg+"\n"+st+"\n"+p.String(), p.String())
				}
			}
		}()
		synctest.Test(t, func(*testing.T) { runConn(c, r, p, &sp) })
	})
}

var reNum = regexp.MustCompile(`0x[0-9a-f]+|\b\d+\b`)

func TestCheck(t *testing.T) {
	r := mon.Start(t, "C16")
	defer r.Finish()
	r.SpinWatch(memwire.BytesMoved)
	r.Note("rule", "four families of meek_lite connections, each in its own synctest bubble against a scripted in-memory HTTP/1.1 server: "+
		"stream = grid of 5 write-script kinds (tiny 1-100 B x 1-40 writes; size menu 1..65537; big up to 3x65536+1; bursts of 17-40 back-to-back writes; sums of exactly 65536) x 6 response patterns (empty, 1 B x K, 65536 x K, alternating, PRNG sizes, 2-64 B x K) with gaps from {0,1ms,99ms,101ms,6s}, think times 0-10 s and, in a quarter of the connections of the stream family, a slow front (answers after 25 s, 45 s, 2 min, 5 min), chunked/split responses, Connection: close redials, reader chunk policies, slow readers, with/without front; "+
		"close = 12-write script x Close at each of the 13 points x 5 ways (writer itself, third goroutine at the same virtual instant, server on request headers, server while thinking, server between two pieces of the response); "+
		"non200 = 1/2/9/10/12 consecutive answers 500/404/403/503; fault = TCP abort in the response body / no response / silent close. "+
		"Every connection ends with Close and the after-Close observations. Random dimensions come from the per-connection sub-seed. Non-trivial = at least one request reached the server; distinct = distinct (family, sub-seed).")
	r.Note("exhaustive_part", "close family: every (close point 0..12) x (5 close mechanisms) cell is visited in both tiers; non200: every (run length, status) cell; fault: every (kind, request number) cell")
	r.Note("not_judged", "behaviour under non-200 answers and transport faults beyond 'Read never returns bytes that are not the 200-response stream' (recorded: retries, whether the connection failed); the Host header / dial address under front (recorded); the number of requests after Close (recorded; judged: finite, and at most 100 - the original's select picks at random among ready cases, so a handful can follow); data a Read returns after Close (accepted if it is the right stream data); whether written-but-unsent data is flushed by Close (prefix only); equality of session ids across connections (recorded as distinct count)")

	// ---- family several connections alive at once (multi_test.go)
	r.Note("several_connections", "additional family: 2..4 meek_lite connections alive at the same time in one bubble, opened one after the other while the earlier ones keep writing and polling, each against its own scripted server with its own PRF streams and the same per-connection oracles")
	for g := 0; g < r.Pick(8, 100); g++ {
		g := g
		r.Case(fmt.Sprintf("several-connections/%03d", g), func(c *mon.Case) {
			c.T.Run("multi", func(t *testing.T) {
				defer func() {
					if e := recover(); e != nil {
						msg := fmt.Sprint(e)
						if strings.HasPrefix(msg, "deadlock:") {
							c.Violation("wedge/goroutines-still-blocked-at-the-end", msg+"; several connections", nil)
						} else {
							c.Violation("panic/"+reNum.ReplaceAllString(msg, "N"), msg+"\n"+string(debug.Stack()), nil)
						}
					}
				}()
				synctest.Test(t, func(*testing.T) { multiConns(c, r, 2+g%3, r.Sub("multi", g)) })
			})
		})
	}

	// ---- family stream
	nBatch := r.Pick(1, 4)
	nPer := r.Pick(8, 100)
	for wk := 0; wk < nWriteKinds; wk++ {
		for rp := 0; rp < nRespKinds; rp++ {
			for b := 0; b < nBatch; b++ {
				wk, rp, b := wk, rp, b
				r.Case(fmt.Sprintf("stream/%s/%s/%d", writeKindNames[wk], respKindNames[rp], b), func(c *mon.Case) {
					for k := 0; k < nPer; k++ {
						seed := r.Sub("stream", wk, rp, b, k)
						rng := mon.NewRand(seed)
						p := params{family: "stream", seed: seed, writes: genWrites(rng, wk), resp: genResp(rng, rp)}
						common(rng, &p)
						if k%4 == 3 {
							p.think = genThink(rng, 3) // a slow front (stream family only: the after-Close observations assume prompt answers)
							r.Count("slow_front_connections", 1)
						}
						conn(c, r, p)
					}
				})
			}
		}
	}
	// ---- family close
	nPer = r.Pick(2, 100)
	for kind := ckSync; kind < nCloseKinds; kind++ {
		for step := 0; step <= 12; step++ {
			kind, step := kind, step
			r.Case(fmt.Sprintf("close/%s/k%02d", closeKindNames[kind], step), func(c *mon.Case) {
				for k := 0; k < nPer; k++ {
					seed := r.Sub("close", kind, step, k)
					rng := mon.NewRand(seed)
					p := params{family: "close", seed: seed, closeKind: kind, closeStep: step, resp: genResp(rng, rng.IntN(nRespKinds))}
					menu := []int{1, 100, 1000, 5000, 65536, 70000}
					for i := 0; i < 12; i++ {
						sz := menu[rng.IntN(len(menu))]
						if sz > 5000 && rng.IntN(3) > 0 {
							sz = 1 + rng.IntN(200)
						}
						p.writes = append(p.writes, wstep{pickGap(rng), sz})
					}
					common(rng, &p)
					conn(c, r, p)
				}
			})
		}
	}
	// ---- family sustained: Close while every response still carries data
	// (the client re-polls at once after a non-empty answer, so this is the
	// state of a long download); the server has several hundred more
	// non-empty answers ready when Close arrives
	for kind := ckSync; kind < nCloseKinds; kind++ {
		kind := kind
		r.Case(fmt.Sprintf("sustained/%s", closeKindNames[kind]), func(c *mon.Case) {
			for k := 0; k < r.Pick(3, 40); k++ {
				seed := r.Sub("sustained", kind, k)
				rng := mon.NewRand(seed)
				p := params{family: "sustained", seed: seed, closeKind: kind, closeStep: 2 + rng.IntN(8)}
				sz := []int{1, 100, 700}[rng.IntN(3)]
				for i := 0; i < 400; i++ {
					p.resp = append(p.resp, sz)
					p.think = append(p.think, time.Millisecond)
				}
				for i := 0; i < 12; i++ {
					p.writes = append(p.writes, wstep{[]time.Duration{time.Millisecond, 7 * time.Millisecond, 20 * time.Millisecond}[rng.IntN(3)], 1 + rng.IntN(200)})
				}
				p.chunkedEvery = []int{0, 1, 3}[rng.IntN(3)]
				p.front = rng.IntN(2) == 0
				p.pol = rng.IntN(3)
				conn(c, r, p)
				r.Count("sustained_download_closes", 1)
			}
		})
	}
	// ---- family non200
	for _, badLen := range []int{1, 2, 9, 10, 12} {
		for _, code := range []int{500, 404, 403, 503} {
			badLen, code := badLen, code
			r.Case(fmt.Sprintf("non200/%d/x%d", code, badLen), func(c *mon.Case) {
				for k := 0; k < nPer; k++ {
					seed := r.Sub("non200", badLen, code, k)
					rng := mon.NewRand(seed)
					p := params{family: "non200", seed: seed, writes: genWrites(rng, []int{wkTiny, wkMenu, wkExact}[rng.IntN(3)]), resp: genResp(rng, rng.IntN(nRespKinds)),
						badFrom: rng.IntN(7), badLen: badLen, badCode: code}
					common(rng, &p)
					conn(c, r, p)
				}
			})
		}
	}
	// ---- family fault
	for _, f := range []faultKind{faultAbortBody, faultNoResponse, faultSilentClose} {
		for _, at := range []int{0, 1, 2, 3, 5} {
			f, at := f, at
			r.Case(fmt.Sprintf("fault/%d/at%d", f, at), func(c *mon.Case) {
				for k := 0; k < nPer; k++ {
					seed := r.Sub("fault", int(f), at, k)
					rng := mon.NewRand(seed)
					p := params{family: "fault", seed: seed, writes: genWrites(rng, []int{wkTiny, wkMenu, wkExact}[rng.IntN(3)]), resp: genResp(rng, rng.IntN(nRespKinds)),
						fault: f, faultAt: at}
					common(rng, &p)
					if f == faultAbortBody && (at >= len(p.resp) || p.resp[at] < 2) {
						for len(p.resp) <= at {
							p.resp = append(p.resp, 0)
						}
						p.resp[at] = 1000
					}
					conn(c, r, p)
				}
			})
		}
	}
}

var _ net.Conn = (*memwire.Conn)(nil)
