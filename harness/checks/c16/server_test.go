package c16

// In-memory HTTP/1.1 server for one meek_lite connection.  It is the monitor:
// every request of the connection (over however many TCP connections the
// client's http.Transport opens) passes through onHeaders/onBody/respond, which
// check the property's server-side clauses online and keep the history.

import (
	"bufio"
	"errors"
	"fmt"
	"io"
	"net"
	"net/http"
	"strconv"
	"sync"
	"sync/atomic"
	"time"

	"verif/memwire"
	"verif/mon"
)

const maxBody = 65536 // the property's bound, not the implementation's constant

type faultKind int

const (
	faultNone        faultKind = iota
	faultAbortBody             // headers + half of the body, then the TCP connection is closed
	faultNoResponse            // TCP connection closed after the request was read
	faultSilentClose           // complete 200 response, then TCP closed without "Connection: close"
)

// plan is what the server does with the request that arrives as number idx.
type plan struct {
	status    int
	size      int // body size of a 200 response
	think     time.Duration
	chunked   bool
	split     int // write the response in this many pieces (>=1), 1 ms apart
	connClose bool
	fault     faultKind
}

type reqRec struct {
	Idx        int
	Conn       int
	SID        string
	Host       string
	BodyLen    int
	Status     int
	RespLen    int
	T          time.Duration
	AfterClose bool // headers arrived after Close had returned
	upOff      int64
}

// trigger kinds: where the server-side hook calls Close.
const (
	trigNone = iota
	trigOnHeaders
	trigMidThink
	trigMidResponse
)

type server struct {
	c     *mon.Case
	r     *mon.Run
	desc  string // parameter string for witnesses
	start time.Time

	up, down mon.Stream
	planFor  func(idx int) plan
	judgeUp  bool // all answers are 200 and no transport fault is scripted: full upstream oracle
	polC2S   func() memwire.ChunkPolicy
	polS2C   func() memwire.ChunkPolicy

	mu          sync.Mutex
	upOff       int64 // request-body bytes accepted so far (bodies of 200-answered requests)
	downStarted int64 // response-body bytes whose sending has begun
	downDone    int64 // response-body bytes of completely written 200 responses
	inflight    int
	maxInflight int
	reqs        []reqRec
	sid         string
	sidSet      bool
	conns       []*memwire.Conn
	dialAddrs   []string
	refuse      bool
	stormed     bool
	submitted   func() int64 // bytes handed to Write so far (started writes)

	closeCalled   bool
	closeReturned bool
	mark          int // len(reqs) when the post-close mark was taken

	// Close trigger (armed by the writer, fired by the next request)
	trigKind  int
	trigArmed bool
	trigFired bool
	doClose   func(phase string)

	// record-only observations for non-200 scripts
	non200UpMismatch int
	retrySameBody    int

	flagged atomic.Bool // a violation was reported for this connection

	wg sync.WaitGroup
}

const reqStormCap = 6000

func (s *server) viol(sig, detail string) {
	s.flagged.Store(true)
	s.c.Violation(sig, detail+"; "+s.desc, s.desc)
}

// dial is the base.DialFunc handed to the transport.
func (s *server) dial(network, addr string) (net.Conn, error) {
	s.mu.Lock()
	if s.refuse {
		s.mu.Unlock()
		return nil, errors.New("verif: server gone")
	}
	cl, sv := memwire.Pair(memwire.Options{})
	cl.Out().SetPolicy(s.polC2S())
	sv.Out().SetPolicy(s.polS2C())
	idx := len(s.conns)
	s.conns = append(s.conns, sv)
	s.dialAddrs = append(s.dialAddrs, network+"|"+addr)
	s.mu.Unlock()
	s.wg.Add(1)
	s.c.Go(s.wg.Done, func() { s.serve(sv, idx) })
	return cl, nil
}

// shutdown makes further dials fail and closes every server-side TCP end.
func (s *server) shutdown() {
	s.mu.Lock()
	s.refuse = true
	conns := append([]*memwire.Conn(nil), s.conns...)
	s.mu.Unlock()
	for _, sc := range conns {
		sc.Close()
	}
}

func (s *server) nreq() int {
	s.mu.Lock()
	defer s.mu.Unlock()
	return len(s.reqs)
}

func (s *server) serve(sc *memwire.Conn, connIdx int) {
	br := bufio.NewReaderSize(sc, 4096)
	for {
		req, err := http.ReadRequest(br)
		if err != nil {
			return
		}
		idx, pl, fire := s.onHeaders(req, connIdx)
		if idx < 0 {
			sc.Close()
			return
		}
		if fire == trigOnHeaders {
			s.doClose("inflight-headers")
		}
		body, err := io.ReadAll(req.Body)
		if err != nil {
			s.finishReq(idx, 0, 0)
			sc.Close()
			return
		}
		s.onBody(idx, pl, body)
		if fire == trigMidThink {
			time.Sleep(pl.think / 2)
			s.doClose("server-thinking")
			time.Sleep(pl.think - pl.think/2)
		} else if pl.think > 0 {
			time.Sleep(pl.think)
		}
		if !s.respond(sc, idx, pl, fire == trigMidResponse) {
			return
		}
	}
}

// onHeaders runs when the header block of a request has been read.
func (s *server) onHeaders(req *http.Request, connIdx int) (int, plan, int) {
	s.mu.Lock()
	defer s.mu.Unlock()
	idx := len(s.reqs)
	if idx >= reqStormCap {
		if !s.stormed {
			s.stormed = true
			s.refuse = true
			s.viol("request-storm/more-than-6000-requests-on-one-connection", "the connection issued more requests than any script can cause; server stopped answering")
		}
		return -1, plan{}, 0
	}
	pl := s.planFor(idx)
	rec := reqRec{Idx: idx, Conn: connIdx, SID: req.Header.Get("X-Session-Id"), Host: req.Host, Status: pl.status,
		T: time.Since(s.start), AfterClose: s.closeReturned, BodyLen: -1}
	s.inflight++
	if s.inflight > s.maxInflight {
		s.maxInflight = s.inflight
	}
	if s.inflight > 1 {
		s.viol("in-flight/more-than-one-request", fmt.Sprintf("request #%d arrived (tcp conn %d) while %d other request(s) of the same meek connection had not been answered completely", idx, connIdx, s.inflight-1))
	}
	if !s.sidSet {
		s.sid, s.sidSet = rec.SID, true
		if rec.SID == "" {
			s.viol("session-id/missing", "first request carries no X-Session-Id header")
		}
	} else if rec.SID != s.sid {
		s.viol("session-id/changes-within-connection", fmt.Sprintf("request #%d carries session id %q, the first request of the same connection carried %q", idx, rec.SID, s.sid))
	}
	if req.Method != http.MethodPost {
		s.r.Count("method_not_post", 1)
	}
	if _, ok := req.Header["User-Agent"]; ok {
		s.r.Count("user_agent_header_present", 1)
	}
	s.reqs = append(s.reqs, rec)
	fire := trigNone
	if s.trigArmed && !s.trigFired && s.trigKind != trigNone {
		s.trigFired = true
		fire = s.trigKind
		switch fire {
		case trigMidThink:
			pl.think = 2 * time.Second
		case trigMidResponse:
			if pl.status == 200 && pl.size < 2 {
				pl.size = 1000
			}
		}
	}
	return idx, pl, fire
}

// onBody checks the request body against the application's stream.
func (s *server) onBody(idx int, pl plan, body []byte) {
	s.mu.Lock()
	defer s.mu.Unlock()
	s.reqs[idx].BodyLen = len(body)
	s.reqs[idx].upOff = s.upOff
	if len(body) > maxBody {
		s.viol("body-too-large/over-65536", fmt.Sprintf("request #%d has a body of %d bytes", idx, len(body)))
	}
	bad := s.up.Check(body, s.upOff)
	sub := s.submitted()
	if s.judgeUp {
		if bad >= 0 {
			s.viol("request-stream/not-a-prefix-of-written", fmt.Sprintf("request #%d (body %d bytes, expected to continue the stream at offset %d): byte %d of the body is not the byte the application wrote at stream offset %d (bytes handed to Write so far: %d); previous bodies: %s",
				idx, len(body), s.upOff, bad, s.upOff+int64(bad), sub, s.tailBodies(6)))
		} else if s.upOff+int64(len(body)) > sub {
			s.viol("request-stream/bytes-never-written", fmt.Sprintf("request #%d brings the bodies to %d bytes but only %d were handed to Write", idx, s.upOff+int64(len(body)), sub))
		}
		s.upOff += int64(len(body))
		return
	}
	// non-200 / fault scripts: record only
	if bad >= 0 {
		s.non200UpMismatch++
	}
	if pl.status == 200 && pl.fault != faultNoResponse {
		if bad < 0 {
			s.upOff += int64(len(body))
		}
	} else if len(body) > 0 {
		s.retrySameBody++
	}
}

func (s *server) tailBodies(n int) string {
	out := ""
	from := len(s.reqs) - n
	if from < 0 {
		from = 0
	}
	for _, q := range s.reqs[from:] {
		out += fmt.Sprintf("#%d:%dB@%d ", q.Idx, q.BodyLen, q.upOff)
	}
	return out
}

func (s *server) finishReq(idx, status, respLen int) {
	s.mu.Lock()
	s.inflight--
	s.reqs[idx].Status = status
	s.reqs[idx].RespLen = respLen
	s.mu.Unlock()
}

var statusText = map[int]string{200: "OK", 403: "Forbidden", 404: "Not Found", 500: "Internal Server Error", 503: "Service Unavailable"}

// respond writes the response; false means the TCP connection is finished.
func (s *server) respond(sc *memwire.Conn, idx int, pl plan, closeMid bool) bool {
	var body []byte
	if pl.status == 200 {
		s.mu.Lock()
		body = s.down.Bytes(s.downStarted, pl.size)
		s.downStarted += int64(pl.size)
		s.mu.Unlock()
	} else {
		body = []byte("upstream unavailable\n") // must never reach Read
	}
	if pl.fault == faultNoResponse {
		s.mu.Lock()
		s.downStarted -= int64(len(body)) // nothing of it was sent
		s.mu.Unlock()
		s.finishReq(idx, 0, 0)
		sc.Close()
		return false
	}
	hdr := "HTTP/1.1 " + strconv.Itoa(pl.status) + " " + statusText[pl.status] + "\r\nContent-Type: application/octet-stream\r\n"
	if pl.connClose {
		hdr += "Connection: close\r\n"
	}
	var msg []byte
	if pl.chunked {
		hdr += "Transfer-Encoding: chunked\r\n\r\n"
		msg = append(msg, hdr...)
		rest := body
		k := 1 + idx%5
		for len(rest) > 0 {
			n := (len(body) + k - 1) / k
			if n > len(rest) {
				n = len(rest)
			}
			msg = append(msg, fmt.Sprintf("%x\r\n", n)...)
			msg = append(msg, rest[:n]...)
			msg = append(msg, "\r\n"...)
			rest = rest[n:]
		}
		msg = append(msg, "0\r\n\r\n"...)
	} else {
		hdr += "Content-Length: " + strconv.Itoa(len(body)) + "\r\n\r\n"
		msg = append(msg, hdr...)
		msg = append(msg, body...)
	}
	if pl.fault == faultAbortBody {
		cut := len(hdr) + len(body)/2
		if pl.chunked {
			cut = len(msg) / 2
		}
		sc.Write(msg[:cut])
		s.finishReq(idx, -1, len(body)/2)
		sc.Close()
		return false
	}
	pieces := pl.split
	if closeMid && pieces < 2 {
		pieces = 2
	}
	if pieces < 1 {
		pieces = 1
	}
	for i := 0; i < pieces-1; i++ {
		cut := len(msg) / (pieces - i)
		if closeMid && i == 0 {
			cut = len(msg) - len(body)/2 - 1
			if pl.chunked {
				cut = len(msg) / 2
			}
		}
		if _, err := sc.Write(msg[:cut]); err != nil {
			s.finishReq(idx, -1, 0)
			return false
		}
		msg = msg[cut:]
		if closeMid && i == 0 {
			s.doClose("mid-response")
		}
		time.Sleep(time.Millisecond)
	}
	// The last piece and the in-flight decrement are one atomic step for
	// onHeaders: a request caused by this response cannot be counted before it.
	s.mu.Lock()
	_, err := sc.Write(msg)
	s.inflight--
	s.reqs[idx].RespLen = len(body)
	if err == nil && pl.status == 200 {
		s.downDone += int64(len(body))
	}
	s.mu.Unlock()
	if err != nil {
		return false
	}
	if pl.connClose || pl.fault == faultSilentClose {
		sc.Close()
		return false
	}
	return true
}
