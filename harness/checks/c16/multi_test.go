package c16

// Several meek_lite connections alive at the same time in one process.  Each
// has its own scripted HTTP server and its own pair of PRF streams; every
// server applies the same per-connection oracles as in the single-connection
// families (one session identifier, one request in flight, bodies a prefix of
// what was written, at most 65536 bytes), so state that connections share
// through the process shows at the server of the connection it leaks into.

import (
	"fmt"
	"net"
	"sync"
	"sync/atomic"
	"testing/synctest"
	"time"

	pt "gitlab.torproject.org/tpo/anti-censorship/pluggable-transports/goptlib"

	"gitlab.com/yawning/obfs4.git/transports"

	"verif/memwire"
	"verif/mon"
)

type mconn struct {
	s         *server
	cc        net.Conn
	sub       atomic.Int64
	written   int64
	delivered atomic.Int64
	bad       atomic.Int64 // offset+1 of the first wrong downstream byte
}

func multiConns(c *mon.Case, r *mon.Run, k int, seed uint64) {
	rng := mon.NewRand(seed)
	tr := transports.Get("meek_lite")
	if tr == nil {
		c.Violation("setup/transport-not-registered", "meek_lite", nil)
		return
	}
	var conns []*mconn
	var rwg sync.WaitGroup
	open := func(i int) *mconn {
		m := &mconn{}
		desc := fmt.Sprintf("connection %d of %d alive at once, seed=%x", i, k, seed)
		m.s = &server{c: c, r: r, desc: desc, start: time.Now(),
			up: mon.Stream{Key: seed ^ uint64(i+1)*0xa5a5}, down: mon.Stream{Key: seed ^ uint64(i+1)*0x5a5a}, judgeUp: true}
		m.s.submitted = func() int64 { return m.sub.Load() }
		m.s.polC2S = func() memwire.ChunkPolicy { return memwire.All() }
		m.s.polS2C = func() memwire.ChunkPolicy { return memwire.All() }
		sizes := []int{0, 0, 30, 700, 0, 5000}
		m.s.planFor = func(idx int) plan { return plan{status: 200, split: 1, size: sizes[(idx+i)%len(sizes)]} }
		cf, err := tr.ClientFactory("")
		if err != nil {
			m.s.viol("setup/client-factory", err.Error())
			return nil
		}
		args := pt.Args{}
		args.Add("url", fmt.Sprintf("http://%s/c%d", urlHost, i))
		if i%2 == 1 {
			args.Add("front", frontHost)
		}
		pa, err := cf.ParseArgs(&args)
		if err != nil {
			m.s.viol("setup/parse-args", err.Error())
			return nil
		}
		cc, err := cf.Dial("tcp", "192.0.2.2:443", m.s.dial, pa)
		if err != nil {
			m.s.viol("setup/dial", err.Error())
			return nil
		}
		m.cc = cc
		rwg.Add(1)
		buf := make([]byte, 1+rng.IntN(4000))
		c.Go(rwg.Done, func() {
			for {
				n, err := cc.Read(buf)
				if n > 0 {
					off := m.delivered.Load()
					if j := m.s.down.Check(buf[:n], off); j >= 0 && m.bad.Load() == 0 {
						m.bad.Store(off + int64(j) + 1)
					}
					m.delivered.Add(int64(n))
				}
				if err != nil {
					return
				}
			}
		})
		return m
	}
	write := func(m *mconn, n int) {
		m.sub.Add(int64(n))
		if w, err := m.cc.Write(m.s.up.Bytes(m.written, n)); err != nil || w != n {
			m.s.viol("write-error/healthy-connection", fmt.Sprintf("Write(%d) = %d, %v", n, w, err))
			return
		}
		m.written += int64(n)
	}
	// connections are opened one after the other, each while the earlier ones
	// keep polling and writing
	for i := 0; i < k; i++ {
		m := open(i)
		if m == nil {
			break
		}
		conns = append(conns, m)
		for round := 0; round < 3; round++ {
			for _, x := range conns {
				write(x, 1+rng.IntN(3000))
			}
			time.Sleep(time.Duration(50+rng.IntN(400)) * time.Millisecond)
		}
	}
	time.Sleep(12 * time.Second) // several polling rounds on every connection
	for _, x := range conns {
		write(x, 1+rng.IntN(70000))
	}
	time.Sleep(12 * time.Second)
	synctest.Wait()
	for i, x := range conns {
		x.s.mu.Lock()
		up, down, nreq := x.s.upOff, x.s.downDone, len(x.s.reqs)
		x.s.mu.Unlock()
		if up != x.written {
			x.s.viol("request-stream/bytes-missing/several-connections", fmt.Sprintf("connection %d: %d bytes written, request bodies carry %d after 24 idle seconds", i, x.written, up))
		}
		if b := x.bad.Load(); b > 0 {
			x.s.viol("read-stream/not-the-response-bodies", fmt.Sprintf("connection %d: byte %d returned by Read is not byte %d of this connection's response bodies", i, b-1, b-1))
		}
		if d := x.delivered.Load(); d != down {
			x.s.viol("read-stream/bytes-missing/several-connections", fmt.Sprintf("connection %d: response bodies carry %d bytes, Read returned %d", i, down, d))
		}
		r.Count("multi_connection_requests", int64(nreq))
	}
	r.Count("evaluations", 1)
	r.Count("multi_connection_groups", 1)
	r.Distinct("nontrivial", fmt.Sprintf("multi/%d/%x", k, seed))
	for _, x := range conns {
		x.cc.Close()
	}
	for _, x := range conns {
		x.s.shutdown()
	}
	rwg.Wait()
	for _, x := range conns {
		x.s.wg.Wait()
	}
}
