// C18 — a bridge keeps its identity across restarts and crashes; bridge lines
// round-trip.
//
// Fault enumeration at the system-call level.  A helper built from the tree
// performs one start (or one ticket-store operation) under strace; the
// mutating system calls on the state directory are extracted, every prefix of
// them (plus torn writes) is materialised as a crash state, the materialiser
// is validated by really killing the helper (SIGKILL injected by strace at
// the entry of each call) and comparing directories, and a fresh helper is
// started on every crash state: it must succeed and present the identity that
// had been persisted before.
package c18

import (
	"bytes"
	"encoding/hex"
	"encoding/json"
	"fmt"
	"os"
	"os/exec"
	"path/filepath"
	"regexp"
	"sort"
	"strconv"
	"strings"
	"syscall"
	"testing"
	"testing/synctest"

	pt "gitlab.torproject.org/tpo/anti-censorship/pluggable-transports/goptlib"

	"verif/memwire"
	"verif/mon"
	"verif/o4"
	ref "verif/ref/obfs4"
)

const syscalls = "openat,open,creat,write,pwrite64,fsync,fdatasync,ftruncate,rename,renameat,renameat2,unlink,unlinkat,close,mkdir,mkdirat,chmod,fchmod,fchmodat,link,linkat,symlink,symlinkat"

var helperBin string

type hout struct {
	OK    bool   `json:"ok"`
	Err   string `json:"err"`
	Cert  string `json:"cert"`
	IAT   string `json:"iat"`
	Seed  string `json:"seed"` // the drbg-seed the started server sends to a client (observed by a reference client in the helper)
	Found bool   `json:"found"`
}

func runHelper(args ...string) (hout, error) {
	cmd := exec.Command(helperBin, args...)
	cmd.Env = append(os.Environ(), "GOMAXPROCS=1")
	b, err := cmd.Output()
	var o hout
	if err != nil {
		return o, fmt.Errorf("helper %v: %v (%s)", args, err, b)
	}
	if e := json.Unmarshal(bytes.TrimSpace(b), &o); e != nil {
		return o, fmt.Errorf("helper output %q: %v", b, e)
	}
	return o, nil
}

// ---------------------------------------------------------------- directory states

type dirState map[string]string // file name -> content

// aliasKey is not a file: its value lists the names that are hard links to
// one file ("a|b;c|d", canonical).  A write or truncation through one name of
// such a group changes what every name of the group holds, which is how a
// write to a "temporary" file can destroy the file it was meant to replace.
const aliasKey = "\x00hard-links"

func (s dirState) groups() [][]string {
	var g [][]string
	for _, grp := range strings.Split(s[aliasKey], ";") {
		if grp != "" {
			g = append(g, strings.Split(grp, "|"))
		}
	}
	return g
}

func (s dirState) setGroups(g [][]string) {
	var out []string
	for _, grp := range g {
		var names []string
		for _, n := range grp {
			if _, ok := s[n]; ok && n != aliasKey {
				names = append(names, n)
			}
		}
		if len(names) >= 2 {
			sort.Strings(names)
			out = append(out, strings.Join(names, "|"))
		}
	}
	sort.Strings(out)
	if len(out) == 0 {
		delete(s, aliasKey)
	} else {
		s[aliasKey] = strings.Join(out, ";")
	}
}

// aliases returns the other names of the file called name.
func (s dirState) aliases(name string) []string {
	for _, grp := range s.groups() {
		for _, n := range grp {
			if n == name {
				var o []string
				for _, m := range grp {
					if m != name {
						o = append(o, m)
					}
				}
				return o
			}
		}
	}
	return nil
}

// unalias takes name out of its group; join puts it into the group of other.
func (s dirState) unalias(name string) {
	g := s.groups()
	for i, grp := range g {
		var o []string
		for _, n := range grp {
			if n != name {
				o = append(o, n)
			}
		}
		g[i] = o
	}
	s.setGroups(g)
}

func (s dirState) join(name, other string) {
	g := s.groups()
	for i, grp := range g {
		for _, n := range grp {
			if n == other {
				g[i] = append(g[i], name)
				s.setGroups(g)
				return
			}
		}
	}
	s.setGroups(append(g, []string{other, name}))
}

func (s dirState) files() []string {
	var ks []string
	for k := range s {
		if k != aliasKey {
			ks = append(ks, k)
		}
	}
	sort.Strings(ks)
	return ks
}

func readDir(dir string) dirState {
	st := dirState{}
	ents, _ := os.ReadDir(dir)
	byIno := map[uint64][]string{}
	for _, e := range ents {
		if e.Type().IsRegular() {
			b, _ := os.ReadFile(filepath.Join(dir, e.Name()))
			st[e.Name()] = string(b)
			if fi, err := e.Info(); err == nil {
				if sys, ok := fi.Sys().(*syscall.Stat_t); ok && sys.Nlink > 1 {
					byIno[sys.Ino] = append(byIno[sys.Ino], e.Name())
				}
			}
		}
	}
	var g [][]string
	for _, names := range byIno {
		g = append(g, names)
	}
	st.setGroups(g)
	return st
}

func (s dirState) clone() dirState {
	o := dirState{}
	for k, v := range s {
		o[k] = v
	}
	return o
}

func (s dirState) writeTo(dir string) {
	os.RemoveAll(dir)
	os.MkdirAll(dir, 0o700)
	for _, k := range s.files() {
		os.WriteFile(filepath.Join(dir, k), []byte(s[k]), 0o600)
	}
	for _, grp := range s.groups() {
		for _, n := range grp[1:] {
			os.Remove(filepath.Join(dir, n))
			os.Link(filepath.Join(dir, grp[0]), filepath.Join(dir, n))
		}
	}
}

func (s dirState) equal(o dirState) bool {
	if len(s) != len(o) {
		return false
	}
	for k, v := range s {
		if ov, ok := o[k]; !ok || ov != v {
			return false
		}
	}
	return true
}

func (s dirState) summary() string {
	var ks []string
	for _, k := range s.files() {
		ks = append(ks, fmt.Sprintf("%s:%d", k, len(s[k])))
	}
	if a := s[aliasKey]; a != "" {
		ks = append(ks, "hard-links:"+a)
	}
	return strings.Join(ks, " ")
}

var reRandomPart = regexp.MustCompile(`[0-9]{4,}`)

// shape is summary with the random part of file names (os.CreateTemp's
// number) blanked: two runs of an implementation that picks random temporary
// names leave files of the same shape, not of the same name.
func (s dirState) shape() string {
	var ks []string
	for _, k := range s.files() {
		ks = append(ks, fmt.Sprintf("%s:%d", reRandomPart.ReplaceAllString(k, "#"), len(s[k])))
	}
	sort.Strings(ks)
	if a := s[aliasKey]; a != "" {
		ks = append(ks, "hard-links:"+reRandomPart.ReplaceAllString(a, "#"))
	}
	return strings.Join(ks, " ")
}

// ---------------------------------------------------------------- trace

type call struct {
	line  int // 1-based index among the traced system calls of the main thread
	nth   int // 1-based index among the calls of the same name (= strace `when`, which counts per call name)
	name  string
	path  string // file name inside the state directory
	path2 string
	data  string
	trunc bool
	creat bool
	text  string
}

var (
	reLine = regexp.MustCompile(`^(\w+)\((.*)\)\s+= (-?\d+|\?)`)
	reStr  = regexp.MustCompile(`"((?:\\x[0-9a-f]{2})*)"(\.\.\.)?`)
)

func unhex(s string) string {
	var b []byte
	for i := 0; i+3 < len(s)+1 && i < len(s); i += 4 {
		v, _ := strconv.ParseUint(s[i+2:i+4], 16, 8)
		b = append(b, byte(v))
	}
	return string(b)
}

// straceRun runs the helper under strace (main thread only) and returns the
// helper's stdout and the raw trace lines.  inject != "" adds a kill injection.
func straceRun(work string, inject string, args ...string) (string, []string, error) {
	tr := filepath.Join(work, "trace.txt")
	os.Remove(tr)
	sargs := []string{"-o", tr, "-xx", "-s", "100000", "-e", "trace=" + syscalls}
	if inject != "" {
		sargs = append(sargs, "-e", inject)
	}
	sargs = append(sargs, helperBin)
	sargs = append(sargs, args...)
	cmd := exec.Command("strace", sargs...)
	cmd.Env = append(os.Environ(), "GOMAXPROCS=1")
	out, err := cmd.Output()
	b, _ := os.ReadFile(tr)
	var lines []string
	for _, l := range strings.Split(string(b), "\n") {
		if reLine.MatchString(l) || strings.Contains(l, "<unfinished") {
			lines = append(lines, l)
		}
	}
	return string(out), lines, err
}

// extract returns the mutating calls on dir from trace lines.
func extract(lines []string, dir string) ([]call, error) {
	fds := map[string]string{}
	var calls []call
	inDir := func(p string) (string, bool) {
		ap := p
		if !filepath.IsAbs(ap) {
			return "", false
		}
		if filepath.Dir(ap) == filepath.Clean(dir) {
			return filepath.Base(ap), true
		}
		return "", false
	}
	perName := map[string]int{}
	for i, l := range lines {
		m := reLine.FindStringSubmatch(l)
		if m == nil {
			return nil, fmt.Errorf("unparsed trace line %q", l)
		}
		name, argstr, ret := m[1], m[2], m[3]
		strs := reStr.FindAllStringSubmatch(argstr, -1)
		perName[name]++
		c := call{line: i + 1, nth: perName[name], name: name, text: l}
		switch name {
		case "openat", "open", "creat":
			if len(strs) < 1 {
				continue
			}
			p, ok := inDir(unhex(strs[0][1]))
			if !ok || ret == "-1" || strings.HasPrefix(ret, "-") {
				continue
			}
			if !strings.Contains(argstr, "O_WRONLY") && !strings.Contains(argstr, "O_RDWR") && name != "creat" {
				continue
			}
			c.path = p
			c.creat = strings.Contains(argstr, "O_CREAT") || name == "creat"
			c.trunc = strings.Contains(argstr, "O_TRUNC") || name == "creat"
			fds[ret] = p
			calls = append(calls, c)
		case "write", "pwrite64":
			fd := strings.SplitN(argstr, ",", 2)[0]
			p, ok := fds[fd]
			if !ok {
				continue
			}
			if len(strs) < 1 || strs[0][2] != "" {
				return nil, fmt.Errorf("write data truncated by strace: %q", l[:80])
			}
			c.path, c.data = p, unhex(strs[0][1])
			n, _ := strconv.Atoi(ret)
			if n != len(c.data) {
				return nil, fmt.Errorf("short write in trace (%d of %d)", n, len(c.data))
			}
			calls = append(calls, c)
		case "fsync", "fdatasync", "fchmod":
			fd := strings.TrimSpace(strings.SplitN(argstr, ",", 2)[0])
			if p, ok := fds[fd]; ok {
				c.path = p
				calls = append(calls, c)
			}
		case "ftruncate":
			fd := strings.SplitN(argstr, ",", 2)[0]
			if p, ok := fds[fd]; ok {
				c.path = p
				c.trunc = true
				calls = append(calls, c)
			}
		case "close":
			delete(fds, strings.TrimSpace(argstr))
		case "rename", "renameat", "renameat2", "link", "linkat":
			if len(strs) < 2 {
				continue
			}
			p1, ok1 := inDir(unhex(strs[0][1]))
			p2, ok2 := inDir(unhex(strs[1][1]))
			if (ok1 || ok2) && ret == "0" {
				if !ok1 || !ok2 {
					return nil, fmt.Errorf("rename across the state directory: %q", l)
				}
				c.path, c.path2 = p1, p2
				calls = append(calls, c)
			}
		case "unlink", "unlinkat":
			if len(strs) < 1 {
				continue
			}
			if p, ok := inDir(unhex(strs[0][1])); ok && ret == "0" {
				c.path = p
				calls = append(calls, c)
			}
		}
	}
	return calls, nil
}

// apply replays one call (writes only the first n bytes if n >= 0).
func apply(st dirState, c call, n int) {
	// what is written or cut through one name is written or cut in every
	// name of the same file
	same := func() {
		for _, a := range st.aliases(c.path) {
			st[a] = st[c.path]
		}
	}
	switch c.name {
	case "openat", "open", "creat":
		if _, ok := st[c.path]; !ok {
			if c.creat {
				st[c.path] = ""
			}
		} else if c.trunc {
			st[c.path] = ""
			same()
		}
	case "write", "pwrite64":
		d := c.data
		if n >= 0 && n < len(d) {
			d = d[:n]
		}
		st[c.path] += d // sequential writes from offset 0 after O_TRUNC / fresh create
		same()
	case "ftruncate":
		st[c.path] = ""
		same()
	case "rename", "renameat", "renameat2":
		if _, ok := st[c.path]; !ok {
			return
		}
		for _, a := range st.aliases(c.path) {
			if a == c.path2 {
				return // two names of one file: rename() does nothing and says it succeeded
			}
		}
		st.unalias(c.path2)
		st[c.path2] = st[c.path]
		st.join(c.path2, c.path)
		delete(st, c.path)
		st.unalias(c.path)
	case "link", "linkat":
		if _, ok := st[c.path]; !ok {
			return
		}
		if _, exists := st[c.path2]; exists {
			return // EEXIST
		}
		st[c.path2] = st[c.path]
		st.join(c.path2, c.path)
	case "unlink", "unlinkat":
		delete(st, c.path)
		st.unalias(c.path)
	}
}

type crashState struct {
	st   dirState
	desc string
	k    int  // number of complete calls applied
	torn bool // additionally a partial write
}

func crashStates(pre dirState, calls []call, allTorn bool) []crashState {
	var out []crashState
	cur := pre.clone()
	for k := 0; k <= len(calls); k++ {
		out = append(out, crashState{st: cur.clone(), k: k, desc: fmt.Sprintf("after %d of %d calls", k, len(calls))})
		if k == len(calls) {
			break
		}
		c := calls[k]
		if (c.name == "write" || c.name == "pwrite64") && len(c.data) > 1 {
			cuts := []int{1, len(c.data) / 2, len(c.data) - 1}
			if allTorn {
				cuts = nil
				for t := 1; t < len(c.data); t++ {
					cuts = append(cuts, t)
				}
			}
			for _, t := range cuts {
				s := cur.clone()
				apply(s, c, t)
				out = append(out, crashState{st: s, k: k, torn: true, desc: fmt.Sprintf("after %d calls + %d of %d bytes of the write to %s", k, t, len(c.data), c.path)})
			}
		}
		apply(cur, c, -1)
	}
	return out
}

// ---------------------------------------------------------------- one operation under test

type opResult struct {
	out    hout
	calls  []call
	states []crashState
	post   dirState
}

// enumerate runs `args` on a copy of pre under strace, validates the
// materialiser against real kills and returns the crash states.
func enumerate(c *mon.Case, r *mon.Run, work string, pre dirState, allTorn bool, validate bool, args func(dir string) []string) (*opResult, bool) {
	dir := filepath.Join(work, "op")
	pre.writeTo(dir)
	stdout, lines, err := straceRun(work, "", args(dir)...)
	if err != nil {
		r.Inconclusive(fmt.Sprintf("strace run failed: %v", err))
		return nil, false
	}
	var o hout
	if e := json.Unmarshal([]byte(strings.TrimSpace(stdout)), &o); e != nil {
		r.Inconclusive(fmt.Sprintf("helper output under strace %q: %v", stdout, e))
		return nil, false
	}
	calls, err := extract(lines, dir)
	if err != nil {
		r.Inconclusive("trace extraction: " + err.Error())
		return nil, false
	}
	res := &opResult{out: o, calls: calls, post: readDir(dir)}
	res.states = crashStates(pre, calls, allTorn)
	r.Count("mutating_syscalls_recorded", int64(len(calls)))
	// the materialised final state must be what the run really left behind
	if final := res.states[len(res.states)-1].st; !final.equal(res.post) {
		r.Inconclusive(fmt.Sprintf("materialiser disagrees with the real final state: %s vs %s", final.summary(), res.post.summary()))
		return nil, false
	}
	if validate {
		// really kill the helper at the entry of every mutating call
		ki := 0
		for _, cs := range res.states {
			if cs.torn || cs.k == len(calls) {
				continue
			}
			ki++
			pre.writeTo(dir)
			_, klines, _ := straceRun(work, fmt.Sprintf("inject=%s:signal=KILL:when=%d", calls[cs.k].name, calls[cs.k].nth), args(dir)...)
			got := readDir(dir)
			if got.equal(cs.st) {
				r.Count("crash_states_identical_to_real_kill", 1)
			}
			// a start that generates a fresh random identity (and the ticket
			// store's issue time) differs in content from run to run, so the
			// comparison is on file names (without their random part, if a
			// temporary name has one) and lengths
			if got.shape() != cs.st.shape() {
				// was the kill delivered where we wanted it?
				if len(klines) != calls[cs.k].line {
					r.Count("kill_validation_trace_differs", 1)
					r.Inconclusive(fmt.Sprintf("kill run traced %d calls, recorded run has the target at call %d", len(klines), calls[cs.k].line))
					continue
				}
				r.Inconclusive(fmt.Sprintf("materialised crash state %q differs from the directory after a real SIGKILL: %s vs %s", cs.desc, cs.st.summary(), got.summary()))
				continue
			}
			r.Count("crash_states_validated_by_real_kill", 1)
		}
	}
	return res, true
}

// ---------------------------------------------------------------- obfs4 identity histories

type identity struct {
	cert string
	iat  map[string]bool // admissible advertised iat-mode values
	seed map[string]bool // admissible seeds (as sent to clients); nil = not judged
	args []string        // node-id=, private-key=, drbg-seed= of the persisted identity
	// again: the arguments of the start that crashed (nil: not known / refused start)
	again []string
}

// idArgs extracts the identity arguments from a state file.
func idArgs(stateJSON string) []string {
	var js struct {
		NodeID string `json:"node-id"`
		Priv   string `json:"private-key"`
		Seed   string `json:"drbg-seed"`
	}
	if json.Unmarshal([]byte(stateJSON), &js) != nil || js.NodeID == "" {
		return nil
	}
	return []string{"node-id=" + js.NodeID, "private-key=" + js.Priv, "drbg-seed=" + js.Seed}
}

func judgeStart(c *mon.Case, r *mon.Run, work string, cs crashState, want identity, hist string, step int) {
	dir := filepath.Join(work, "judge")
	cs.st.writeTo(dir)
	o, err := runHelper("obfs4-start", dir)
	r.Count("evaluations", 1)
	r.Count("crash_states_judged", 1)
	if cs.torn {
		r.Count("torn_write_states_judged", 1)
	}
	wit := map[string]any{"history": hist, "crashed_step": step, "crash_state": cs.desc, "files": cs.st.summary()}
	r.Distinct("nontrivial", hist+"/"+strconv.Itoa(step)+"/"+cs.desc)
	cls := "complete-call-boundary"
	if cs.torn {
		cls = "torn-write"
	}
	if sf, ok := cs.st["obfs4_state.json"]; ok && len(sf) == 0 {
		cls = "state-file-truncated-to-0"
	} else if ok && !json.Valid([]byte(sf)) {
		cls = "state-file-partially-written"
	}
	switch {
	case err != nil:
		c.Violation("crash/start-crashed/"+cls, err.Error(), wit)
	case !o.OK:
		c.Violation("identity-lost/start-fails/"+cls, fmt.Sprintf("after a crash (%s) during step %d of history %q the next start fails: %s — the persisted identity %s is gone", cs.desc, step, hist, o.Err, want.cert), wit)
	case o.Cert != want.cert:
		c.Violation("identity-replaced/"+cls, fmt.Sprintf("after a crash (%s) the next start presents cert %s instead of the persisted %s", cs.desc, o.Cert, want.cert), wit)
	case !want.iat[o.IAT]:
		c.Violation("iat-mode-wrong/"+cls, fmt.Sprintf("after a crash (%s) the next start advertises iat-mode=%s, admissible %v", cs.desc, o.IAT, want.iat), wit)
	case want.seed != nil && o.Seed != "" && !want.seed[o.Seed]:
		c.Violation("identity-replaced/seed/"+cls, fmt.Sprintf("after a crash (%s) the next start sends its clients the seed %s, admissible %v", cs.desc, o.Seed, want.seed), wit)
	default:
		r.Count("crash_state_start_ok", 1)
	}
	// the start that crashed is tried again (what an operator or tor does), and
	// then comes a plain start: what the repeated start presented is what was
	// persisted, so the plain start must present the same
	if want.again != nil && (cs.k%3 == 1 || cs.torn) {
		cs.st.writeTo(dir)
		o3, err3 := runHelper(append([]string{"obfs4-start", dir}, want.again...)...)
		o4, err4 := runHelper("obfs4-start", dir)
		r.Count("evaluations", 1)
		r.Count("crash_states_judged_by_repeated_then_plain_start", 1)
		switch {
		case err3 != nil || err4 != nil:
			c.Violation("crash/start-crashed/"+cls, fmt.Sprintf("%v / %v", err3, err4), wit)
		case !o3.OK:
			c.Violation("identity-lost/repeated-start-after-crash-fails/"+cls, fmt.Sprintf("after a crash (%s) the same start, tried again, fails: %s", cs.desc, o3.Err), wit)
		case !o4.OK || o4.Cert != o3.Cert || o4.IAT != o3.IAT || (o3.Seed != "" && o4.Seed != "" && o4.Seed != o3.Seed):
			c.Violation("identity-not-persisted/repeated-start-after-crash/"+cls, fmt.Sprintf("after a crash (%s) the same start, tried again, presented cert=%s iat-mode=%s seed=%s; the plain start behind it: ok=%v err=%s cert=%s iat-mode=%s seed=%s", cs.desc, o3.Cert, o3.IAT, o3.Seed, o4.OK, o4.Err, o4.Cert, o4.IAT, o4.Seed), wit)
		}
	}
	// the same crash state must also survive the other kind of start: one with
	// the identity given explicitly (which writes a document of another length),
	// followed by a plain start
	if len(want.args) > 0 && (cs.k%2 == 0 || cs.torn) {
		cs.st.writeTo(dir)
		o1, err1 := runHelper(append([]string{"obfs4-start", dir}, want.args...)...)
		o2, err2 := runHelper("obfs4-start", dir)
		r.Count("evaluations", 1)
		r.Count("crash_states_judged_by_explicit_then_plain_start", 1)
		switch {
		case err1 != nil || err2 != nil:
			c.Violation("crash/start-crashed/"+cls, fmt.Sprintf("%v / %v", err1, err2), wit)
		case !o1.OK || o1.Cert != want.cert:
			c.Violation("identity-lost/explicit-start-after-crash/"+cls, fmt.Sprintf("after a crash (%s) a start with the identity given explicitly fails or presents another identity: ok=%v err=%s cert=%s want %s", cs.desc, o1.OK, o1.Err, o1.Cert, want.cert), wit)
		case !o2.OK || o2.Cert != want.cert:
			c.Violation("identity-lost/start-after-crash-and-explicit-start/"+cls, fmt.Sprintf("after a crash (%s) and a successful start with the identity given explicitly, the next plain start fails or presents another identity: ok=%v err=%s cert=%s want %s", cs.desc, o2.OK, o2.Err, o2.Cert, want.cert), wit)
		}
	}
}

type step struct {
	args []string // extra key=value arguments
	// bad: the arguments are not acceptable (out-of-range or malformed values);
	// whether the start refuses them is not judged, but a refused start must
	// leave the persisted identity alone, also in every crash state on the way
	bad bool
}

func argsOf(b o4.Bridge, iat int) []string {
	return []string{"node-id=" + hex.EncodeToString(b.Ref.NodeID[:]), "private-key=" + hex.EncodeToString(b.Ref.Priv[:]), "drbg-seed=" + hex.EncodeToString(b.Seed[:]), "iat-mode=" + strconv.Itoa(iat)}
}

func runHistory(c *mon.Case, r *mon.Run, name string, steps []step, allTorn, validate bool, seed uint64) {
	work := filepath.Join(os.Getenv("VERIF_WORK"), fmt.Sprintf("c18-%s-%x", name, seed))
	if os.Getenv("VERIF_WORK") == "" {
		work = filepath.Join(os.TempDir(), fmt.Sprintf("c18-%s-%x", name, seed))
	}
	os.MkdirAll(work, 0o700)
	defer os.RemoveAll(work)
	pre := dirState{}
	var id identity
	for si, st := range steps {
		prevIAT := map[string]bool{}
		for k := range id.iat {
			prevIAT[k] = true
		}
		res, ok := enumerate(c, r, work, pre, allTorn, validate, func(dir string) []string {
			return append([]string{"obfs4-start", dir}, st.args...)
		})
		if !ok {
			return
		}
		r.Count("starts_traced", 1)
		hist := fmt.Sprintf("%s[%d:%s]", name, si, strings.Join(maskArgs(st.args), " "))
		if !res.out.OK && st.bad && si > 0 {
			// the start refused its arguments: what it left behind, and every crash
			// state on the way, must still start with the persisted identity
			r.Count("bad_argument_starts_refused", 1)
			for _, cs := range res.states {
				judgeStart(c, r, work, cs, id, hist, si)
			}
			pre = res.post
			continue
		}
		if !res.out.OK {
			c.Violation("start-failed/"+name, fmt.Sprintf("step %d of history %s failed: %s", si, name, res.out.Err), nil)
			return
		}
		if st.bad && si > 0 {
			// the implementation accepted what we thought unacceptable: nothing to judge, and
			// the identity it persisted now is its business
			r.Count("bad_argument_starts_accepted", 1)
			return
		}
		iatNew := res.out.IAT
		if si == 0 {
			id = identity{cert: res.out.Cert, iat: map[string]bool{iatNew: true}, args: idArgs(res.post["obfs4_state.json"])}
			if res.out.Seed != "" {
				id.seed = map[string]bool{res.out.Seed: true}
				r.Count("seeds_observed_at_a_client", 1)
			}
			// from the moment the first complete state file exists, the identity counts as persisted
			first := -1
			for i, cs := range res.states {
				if sf, ok := cs.st["obfs4_state.json"]; ok && json.Valid([]byte(sf)) && !cs.torn {
					first = i
					break
				}
			}
			for i, cs := range res.states {
				if first >= 0 && i >= first {
					judgeStart(c, r, work, cs, id, hist, si)
				}
			}
		} else {
			if res.out.Cert != id.cert {
				c.Violation("identity-changed-on-restart/"+name, fmt.Sprintf("step %d presents cert %s, previously persisted %s", si, res.out.Cert, id.cert), nil)
				return
			}
			// during this start the old and (if an override was given) the new IAT mode are admissible
			adm := map[string]bool{iatNew: true}
			for k := range id.iat {
				adm[k] = true
			}
			explicitIAT := ""
			for _, a := range st.args {
				if strings.HasPrefix(a, "iat-mode=") {
					explicitIAT = strings.TrimPrefix(a, "iat-mode=")
				}
			}
			if explicitIAT == "" && !id.iat[iatNew] {
				c.Violation("iat-override-not-persisted/"+name, fmt.Sprintf("step %d (no override) advertises iat-mode=%s, persisted %v", si, iatNew, id.iat), nil)
			} else if explicitIAT != "" && iatNew != explicitIAT {
				c.Violation("iat-override-ignored/"+name, fmt.Sprintf("step %d with iat-mode=%s advertises %s", si, explicitIAT, iatNew), nil)
			} else {
				r.Count("control_restart_same_identity", 1)
			}
			// the seed: an explicit drbg-seed replaces the persisted one, otherwise it stays
			explicitSeed := ""
			for _, a := range st.args {
				if strings.HasPrefix(a, "drbg-seed=") {
					explicitSeed = strings.TrimPrefix(a, "drbg-seed=")
				}
			}
			admSeed := map[string]bool{}
			for k := range id.seed {
				admSeed[k] = true
			}
			if id.seed != nil && res.out.Seed != "" {
				switch {
				case explicitSeed == "" && !id.seed[res.out.Seed]:
					c.Violation("seed-changed-on-restart/"+name, fmt.Sprintf("step %d (no drbg-seed given) sends its clients the seed %s, persisted %v", si, res.out.Seed, id.seed), nil)
				case explicitSeed != "" && res.out.Seed != explicitSeed:
					c.Violation("seed-override-ignored/"+name, fmt.Sprintf("step %d with drbg-seed=%s sends its clients the seed %s", si, explicitSeed, res.out.Seed), nil)
				}
				admSeed[res.out.Seed] = true
			}
			if len(admSeed) == 0 {
				admSeed = nil
			}
			for _, cs := range res.states {
				judgeStart(c, r, work, cs, identity{cert: id.cert, iat: adm, seed: admSeed, args: id.args, again: append([]string{}, st.args...)}, hist, si)
			}
			id.iat = map[string]bool{iatNew: true}
			if id.seed != nil && res.out.Seed != "" {
				id.seed = map[string]bool{res.out.Seed: true}
			}
		}
		// bridge line file agrees with Args()
		if bl := res.post["obfs4_bridgeline.txt"]; !strings.Contains(bl, "cert="+res.out.Cert+" iat-mode="+res.out.IAT+"\n") {
			c.Violation("bridgeline-file-disagrees/"+name, fmt.Sprintf("obfs4_bridgeline.txt does not contain cert=%s iat-mode=%s", res.out.Cert, res.out.IAT), nil)
		} else {
			r.Count("bridgeline_file_agrees", 1)
		}
		// failures instead of crashes: every mutating call of this start in turn
		// returns an error (no space left, I/O error) and the start goes on as it
		// sees fit — it may fail or succeed; what it leaves behind must start with
		// the persisted identity
		if si > 0 && id.cert != "" && res.out.OK {
			want := identity{cert: id.cert, iat: map[string]bool{res.out.IAT: true}}
			for k := range prevIAT {
				want.iat[k] = true
			}
			dir := filepath.Join(work, "op")
			for k, cl := range res.calls {
				errno := "ENOSPC"
				if strings.HasPrefix(cl.name, "unlink") {
					errno = "EIO"
				}
				pre.writeTo(dir)
				straceRun(work, fmt.Sprintf("inject=%s:error=%s:when=%d", cl.name, errno, cl.nth), append([]string{"obfs4-start", dir}, st.args...)...)
				got := readDir(dir)
				r.Count("starts_with_an_injected_io_error", 1)
				if !got.equal(pre) {
					r.Count("starts_with_an_injected_io_error_that_changed_the_directory", 1)
				}
				judgeStart(c, r, work, crashState{st: got, k: k, desc: fmt.Sprintf("call %d of %d (%s) failed with %s and the start went on", k+1, len(res.calls), cl.name, errno)}, want, hist+"+io-error", si)
			}
		}
		// two crashes in a row: from the states a crash of this start can leave
		// (those that are neither what it began with nor what it ends with), a
		// plain start is traced in turn, and every crash state of that one must
		// start with the persisted identity as well
		if id.cert != "" {
			want := identity{cert: id.cert, iat: map[string]bool{res.out.IAT: true}}
			for k := range prevIAT { // (what was persisted before this start stays admissible till this start has replaced it)
				want.iat[k] = true
			}
			firstValid := false
			chained := 0
			for _, cs := range res.states {
				if sf, ok := cs.st["obfs4_state.json"]; ok && json.Valid([]byte(sf)) && !cs.torn {
					firstValid = true
				}
				if !firstValid || cs.torn || cs.st.equal(pre) || cs.st.equal(res.post) {
					continue
				}
				if !r.Thorough() && cs.st[aliasKey] == "" && (cs.k+si)%3 != 0 {
					continue
				}
				res2, ok2 := enumerate(c, r, work, cs.st, false, false, func(dir string) []string { return []string{"obfs4-start", dir} })
				if !ok2 {
					return
				}
				if !res2.out.OK || res2.out.Cert != id.cert {
					continue // (reported by the judgement of the first crash state)
				}
				chained++
				r.Count("second_starts_traced_on_crash_states", 1)
				for _, cs2 := range res2.states {
					if cs2.st.equal(cs.st) {
						continue
					}
					cs2.desc = cs.desc + ", then a plain start crashed " + cs2.desc
					r.Count("crash_states_after_two_crashes_judged", 1)
					judgeStart(c, r, work, cs2, want, hist+"+crash+plain-start", si)
				}
			}
		}
		pre = res.post
		if si == len(steps)-1 {
			roundTrip(c, r, name, res.post, res.out)
			r.Sample(map[string]any{"history": name, "last_step_syscalls": callTexts(res.calls), "crash_states": len(res.states)})
		}
	}
}

func maskArgs(a []string) []string {
	var o []string
	for _, x := range a {
		k, _, _ := strings.Cut(x, "=")
		if k == "iat-mode" {
			o = append(o, x)
		} else {
			o = append(o, k)
		}
	}
	return o
}

func callTexts(cs []call) []string {
	var o []string
	for _, c := range cs {
		t := c.name + "(" + c.path
		if c.path2 != "" {
			t += " -> " + c.path2
		}
		if c.data != "" {
			t += fmt.Sprintf(", %d bytes", len(c.data))
		}
		if c.trunc {
			t += ", O_TRUNC"
		}
		o = append(o, t+")")
	}
	return o
}

// roundTrip: a client that parses the advertised arguments (cert form, and the
// legacy node-id/public-key form of the same identity) completes a handshake
// with an independent server holding exactly the persisted NODEID and private
// key; a client built from another identity does not.
func roundTrip(c *mon.Case, r *mon.Run, name string, post dirState, out hout) {
	var js struct {
		NodeID  string `json:"node-id"`
		Priv    string `json:"private-key"`
		Pub     string `json:"public-key"`
		Seed    string `json:"drbg-seed"`
		IATMode int    `json:"iat-mode"`
	}
	if err := json.Unmarshal([]byte(post["obfs4_state.json"]), &js); err != nil {
		c.Violation("state-file-unreadable/"+name, err.Error(), nil)
		return
	}
	var b o4.Bridge
	nid, _ := hex.DecodeString(js.NodeID)
	priv, _ := hex.DecodeString(js.Priv)
	seed, _ := hex.DecodeString(js.Seed)
	copy(b.Ref.NodeID[:], nid)
	copy(b.Ref.Priv[:], priv)
	copy(b.Seed[:], seed)
	b.Ref.Pub = ref.X25519Base(b.Ref.Priv)
	b.IAT = js.IATMode
	if js.Pub != "" && js.Pub != hex.EncodeToString(b.Ref.Pub[:]) {
		c.Violation("state-file-public-key-wrong/"+name, "public-key field is not X25519(private-key, 9)", nil)
	}
	if b.Cert() != out.Cert {
		// the textual encoding of the cert is a format matter (C06); C18 only
		// demands that parsing it yields the persisted NODEID and B, which the
		// handshakes below decide
		r.Count("obs_cert_text_differs_from_unpadded_base64", 1)
	}
	adv := pt.Args{}
	adv.Add("cert", out.Cert)
	adv.Add("iat-mode", out.IAT)
	try := func(args *pt.Args, srv o4.Bridge) (err error) {
		defer func() {
			if e := recover(); e != nil {
				err = fmt.Errorf("panic: %v", e)
			}
		}()
		synctest.Test(c.T, func(t *testing.T) {
			rng := mon.NewRand(7)
			cw, sw := memwire.Pair(memwire.Options{})
			done := make(chan struct{})
			c.Go(func() { close(done) }, func() {
				if _, _, _, e := o4.RefAccept(sw, srv, rng, 100); e != nil {
					sw.Close()
				}
			})
			cc, e := o4.DialReal(cw, args)
			err = e
			if e == nil {
				cc.Close()
			}
			cw.Close()
			sw.Close()
			<-done
		})
		return err
	}
	if err := try(&adv, b); err != nil {
		c.Violation("bridge-line-round-trip/cert-form/"+name, fmt.Sprintf("client built from the advertised cert cannot handshake with the holder of the persisted identity: %v", err), nil)
	} else {
		r.Count("round_trip_cert_form_ok", 1)
	}
	if err := try(b.ClientArgsLegacy(), b); err != nil {
		c.Violation("bridge-line-round-trip/legacy-form/"+name, fmt.Sprintf("client built from node-id/public-key cannot handshake: %v", err), nil)
	} else {
		r.Count("round_trip_legacy_form_ok", 1)
	}
	other := o4.NewBridge(mon.NewRand(99), b.IAT)
	if err := try(&adv, other); err == nil {
		c.Violation("bridge-line-round-trip/other-bridge-accepted/"+name, "client built from this bridge's line completed a handshake with another identity", nil)
	} else {
		r.Count("control_other_bridge_refused", 1)
	}
	r.Count("evaluations", 3)
}

// ---------------------------------------------------------------- ticket store

func runTickets(c *mon.Case, r *mon.Run, allTorn, validate bool, seed uint64) {
	work := filepath.Join(os.Getenv("VERIF_WORK"), fmt.Sprintf("c18-tickets-%x", seed))
	if os.Getenv("VERIF_WORK") == "" {
		work = filepath.Join(os.TempDir(), fmt.Sprintf("c18-tickets-%x", seed))
	}
	os.MkdirAll(work, 0o700)
	defer os.RemoveAll(work)
	rng := mon.NewRand(seed)
	tk := func() string {
		b := make([]byte, 144)
		for i := range b {
			b[i] = byte(rng.Uint32())
		}
		return hex.EncodeToString(b)
	}
	ops := [][]string{
		{"ss-store", "", "192.0.2.10:443", tk()},
		{"ss-store", "", "192.0.2.11:9001", tk()},
		{"ss-get", "", "192.0.2.10:443"},
		{"ss-store", "", "192.0.2.10:443", tk()},
		{"ss-get", "", "192.0.2.11:9001"},
		{"ss-get", "", "192.0.2.10:443"},
	}
	pre := dirState{}
	for oi, op := range ops {
		res, ok := enumerate(c, r, work, pre, allTorn, validate, func(dir string) []string {
			a := append([]string(nil), op...)
			a[1] = dir
			return a
		})
		if !ok {
			return
		}
		if !res.out.OK {
			c.Violation("ticket-op-failed", fmt.Sprintf("%v: %s", op[0], res.out.Err), nil)
			return
		}
		r.Count("ticket_ops_traced", 1)
		for _, cs := range res.states {
			dir := filepath.Join(work, "judge")
			cs.st.writeTo(dir)
			o, err := runHelper("ss-factory", dir)
			r.Count("evaluations", 1)
			r.Count("ticket_crash_states_judged", 1)
			hist := fmt.Sprintf("tickets[%d:%s]", oi, op[0])
			r.Distinct("nontrivial", hist+"/"+cs.desc)
			cls := "complete-call-boundary"
			if tf, ok := cs.st["scramblesuit_tickets.json"]; ok && len(tf) == 0 {
				cls = "ticket-file-truncated-to-0"
			} else if ok && !json.Valid([]byte(tf)) {
				cls = "ticket-file-partially-written"
			}
			if err != nil || !o.OK {
				c.Violation("ticket-store-blocks-startup/"+cls, fmt.Sprintf("after a crash (%s) during %s the ScrambleSuit client factory cannot be created: %v %s", cs.desc, hist, err, o.Err), map[string]any{"history": hist, "crash_state": cs.desc, "files": cs.st.summary()})
			} else {
				r.Count("ticket_crash_state_factory_ok", 1)
			}
		}
		pre = res.post
	}
}

// ---------------------------------------------------------------- driver

func TestCheck(t *testing.T) {
	r := mon.Start(t, "C18")
	defer r.Finish()
	helperBin = filepath.Join(os.Getenv("VERIF_WORK"), "statehelper")
	if _, err := os.Stat(helperBin); err != nil {
		r.Inconclusive("statehelper binary not built: " + err.Error())
		return
	}
	r.Note("rule", "histories of starts on one state directory: {first start, restart, restart with iat-mode override, restart without}, {start with explicit identity arguments, restart without arguments, restart with the same arguments}, {first start, restart x3}, {start, start with unacceptable arguments (out-of-range / non-numeric / empty iat-mode, explicit identity with a short key, bad hex), plain start, override, the unacceptable start again, plain start}, {start, override m1, override m2, plain start} for every ordered pair (m1, m2) of IAT modes, for PRNG identities and all three IAT modes; every start is traced with strace, every prefix of its mutating system calls on the directory plus torn writes (1 byte, half, all but one; thorough: every byte) is materialised as a crash state, materialised states at call boundaries are compared with the directory left by a real SIGKILL injected at that call, and a fresh start is run on every crash state; ScrambleSuit ticket store: store/get sequences likewise, judged by creating the client factory; bridge-line round trip by handshakes of real clients (cert and legacy form) with an independent server holding the persisted identity. Non-trivial = crash states in which at least one call of the start had been applied; distinct = (history, step, crash state).")
	nID := r.Pick(2, 12)
	shapes := []struct {
		name string
		mk   func(b o4.Bridge, k int) []step
	}{
		{"generated-restart-override", func(b o4.Bridge, k int) []step {
			return []step{{}, {}, {args: []string{"iat-mode=" + strconv.Itoa(1+k%2)}}, {}}
		}},
		{"explicit-args-then-restart", func(b o4.Bridge, k int) []step {
			return []step{{args: argsOf(b, k%3)}, {}, {args: argsOf(b, k%3)}}
		}},
		{"generated-restarts", func(b o4.Bridge, k int) []step { return []step{{}, {}, {}, {args: []string{"iat-mode=0"}}} }},
		// the same key given again with another seed: the seed is part of the identity
		{"explicit-same-key-other-seed", func(b o4.Bridge, k int) []step {
			other := argsOf(b, k%3)
			for i, a := range other {
				if strings.HasPrefix(a, "drbg-seed=") {
					other[i] = "drbg-seed=" + strings.Repeat(fmt.Sprintf("%02x", 0x11*(1+k%15)), 24)
				}
			}
			return []step{{args: argsOf(b, k%3)}, {args: other}, {}, {args: []string{"iat-mode=" + strconv.Itoa((k+1)%3)}}, {}}
		}},
	}
	for si, sh := range shapes {
		for k := 0; k < nID; k++ {
			si, sh, k := si, sh, k
			r.Case(fmt.Sprintf("history/%s/%02d", sh.name, k), func(c *mon.Case) {
				seed := r.Sub("hist", si, k)
				b := o4.NewBridge(mon.NewRand(seed), 0)
				runHistory(c, r, sh.name, sh.mk(b, k), r.Thorough() && k == 0, k < r.Pick(1, 3), seed)
			})
		}
	}
	// a start that is refused (unacceptable arguments) between two good ones
	badArgs := [][]string{
		{"iat-mode=3"}, {"iat-mode=-1"}, {"iat-mode=7"}, {"iat-mode=abc"}, {"iat-mode="},
		{"node-id=00", "private-key=11", "drbg-seed=22"},
		{"node-id=zz"},
	}
	for bi := range badArgs {
		bi := bi
		r.Case(fmt.Sprintf("history/refused-start/%d", bi), func(c *mon.Case) {
			seed := r.Sub("refused", bi)
			b := o4.NewBridge(mon.NewRand(seed), 0)
			ba := badArgs[bi]
			if bi == 5 {
				// an explicit identity whose private key is one byte short
				ba = []string{"node-id=" + hex.EncodeToString(b.Ref.NodeID[:]), "private-key=" + hex.EncodeToString(b.Ref.Priv[:31]), "drbg-seed=" + hex.EncodeToString(b.Seed[:])}
			}
			steps := []step{{}, {args: ba, bad: true}, {}, {args: []string{"iat-mode=" + strconv.Itoa(1+bi%2)}}, {args: ba, bad: true}, {}}
			if bi%2 == 1 {
				steps[0] = step{args: argsOf(b, bi%3)}
			}
			runHistory(c, r, "refused-start", steps, false, false, seed)
			r.Count("refused_start_histories", 1)
		})
	}
	// every ordered pair of IAT overrides (including back to 0), then a plain start
	for m1 := 0; m1 < 3; m1++ {
		for m2 := 0; m2 < 3; m2++ {
			m1, m2 := m1, m2
			r.Case(fmt.Sprintf("history/override-sequence/%d-%d", m1, m2), func(c *mon.Case) {
				seed := r.Sub("ovr", m1, m2)
				steps := []step{{}, {args: []string{"iat-mode=" + strconv.Itoa(m1)}}, {args: []string{"iat-mode=" + strconv.Itoa(m2)}}, {}}
				if (m1+m2)%2 == 1 {
					// the identity given explicitly at first (with its own IAT mode)
					b := o4.NewBridge(mon.NewRand(seed), 0)
					steps[0] = step{args: argsOf(b, (m1+1)%3)}
				}
				runHistory(c, r, "override-sequence", steps, false, false, seed)
				r.Count("override_sequences", 1)
			})
		}
	}
	for k := 0; k < r.Pick(2, 8); k++ {
		k := k
		r.Case(fmt.Sprintf("tickets/%02d", k), func(c *mon.Case) {
			runTickets(c, r, r.Thorough() && k == 0, k == 0, r.Sub("tickets", k))
		})
	}
}
