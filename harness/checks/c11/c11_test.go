// C11 — the replay filter is a bounded, expiring set for every history.
//
// Monitor: the real filter (replayfilter.New / TestAndSet with caller supplied
// timestamps) runs in lockstep with reference models written from the property
// text.  Four regimes:
//
//	exh/   every history (up to renaming of values) of bounded length over a
//	       7-element time-step alphabet, each on a fresh filter;
//	prng/  long random histories incl. backwards steps;
//	cap/   scripted histories that overflow the capacity of 102400;
//	conc/  concurrent callers, recorded with a logical clock and checked with
//	       porcupine against a per-value test-and-set model.
//
// What is judged where (the oracle never demands more than the property):
//
//   - always: "seen" is never answered for a value that was never submitted;
//     size <= 102400 and map<->fifo bijection (VerifCheck hook); after a step
//     below the t of every entry that can still be held everything is
//     forgotten; once now >= (largest t that can still be held)+ttl everything
//     is forgotten.
//   - clean mode (clock monotone w.r.t. everything that can still be held, and
//     the model never had to evict): answers are compared exactly.
//   - tainted mode (from a backwards step that stays at or above the oldest
//     entry until one of the two "everything is forgotten" events above): every
//     value that can still be held is *uncertain* (either answer admitted),
//     including values inserted while tainted, because the property promises
//     "exactly" only for a monotone clock.  Still judged: never-inserted values,
//     values that are certainly gone, and a replay at the very same instant.
//   - ttl == 0: only the "always" rules.
//   - at capacity: two readings of "evicts oldest-first when full" run side by
//     side (room is made before every lookup / only when a new value has to be
//     stored); an answer is judged only where both agree.
package c11

import (
	"encoding/binary"
	"fmt"
	"runtime"
	"sort"
	"strings"
	"sync"
	"sync/atomic"
	"testing"
	"time"

	"github.com/anishathalye/porcupine"
	"gitlab.com/yawning/obfs4.git/common/replayfilter"

	"verif/mon"
)

const wantCap = 102400 // the capacity the property names

var base = time.Unix(1_700_000_000, 0).UTC()

func at(ns int64) time.Time { return base.Add(time.Duration(ns)) }

// ---------------------------------------------------------------------------
// reference model for histories that stay below the capacity
// ---------------------------------------------------------------------------

type ent struct {
	v int
	t int64
	// wasExpired: at some op since its insertion now-t >= ttl held while it
	// stayed in the list (tainted mode only: behind a younger front an entry
	// may or may not survive its own expiry)
	wasExpired bool
}

// refModel keeps, in insertion order, every entry that can still be held
// under some admissible reading.  Not tainted: the list is exactly what is
// held (timestamps non-decreasing, all <= prevNow).  Tainted: the list is a
// superset of what is held.
type refModel struct {
	ttl      int64
	ents     []ent
	tainted  bool
	started  bool
	prevNow  int64
	opIdx    int
	runStart int    // index of the first op of the current run of equal `now`
	ever     []bool // value was submitted before
	lastOp   []int  // index of the last op on the value

	marksSet, marksCleared int64
	eldestDiscards         int64 // certain discards by the eldest-entry rule in tainted mode
}

func (m *refModel) reset(ttl int64) {
	m.ttl = ttl
	m.ents = m.ents[:0]
	m.tainted, m.started = false, false
	m.prevNow, m.opIdx, m.runStart = 0, 0, 0
	for i := range m.ever {
		m.ever[i] = false
		m.lastOp[i] = -1
	}
}

func (m *refModel) grow(v int) {
	for len(m.ever) <= v {
		m.ever = append(m.ever, false)
		m.lastOp = append(m.lastOp, -1)
	}
}

func (m *refModel) find(v int) int {
	for i := range m.ents {
		if m.ents[i].v == v {
			return i
		}
	}
	return -1
}

func (m *refModel) minmax() (mn, mx int64) {
	mn, mx = m.ents[0].t, m.ents[0].t
	if !m.tainted {
		return mn, m.ents[len(m.ents)-1].t
	}
	for _, e := range m.ents[1:] {
		if e.t < mn {
			mn = e.t
		}
		if e.t > mx {
			mx = e.t
		}
	}
	return
}

// oracle classes (one byte each, used for signatures and the path key)
const (
	clNever     = 'F' // value never submitted before                      -> new
	clWithin    = 'S' // clean, inserted less than ttl ago                 -> seen
	clExpired   = 'X' // clean, now-t >= ttl at this op                    -> new
	clDiscarded = 'D' // held until this op, now below every held t        -> new
	clFullExp   = 'E' // could be held until this op, now >= max t + ttl   -> new
	clGone      = 'G' // submitted before, certainly forgotten earlier    -> new
	clInstant   = 'I' // tainted, but submitted earlier at this very `now` -> seen
	clUncertain = 'U' // tainted, can still be held                        -> either
	clTTL0      = 'Z' // ttl == 0, submitted before                        -> either
)

var className = map[byte]string{
	clNever: "never-inserted", clWithin: "within-ttl", clExpired: "expired", clDiscarded: "after-step-below-oldest",
	clFullExp: "after-everything-expired", clGone: "forgotten-earlier", clInstant: "same-instant-replay",
	clUncertain: "uncertain", clTTL0: "ttl0-unspecified",
}

type verdict struct {
	allowNew, allowSeen bool
	class               byte
	glob                byte // '-' nothing, 'D' certain discard, 'E' everything expired, 'T' taint starts
	exactTTL            bool // an entry of the probed value expired with now-t == ttl
	lastTick            bool // the probed value is within-ttl with now-t == ttl-1
}

func (m *refModel) step(now int64, v int) verdict {
	m.grow(v)
	vd := verdict{glob: '-'}
	if !m.started || now != m.prevNow {
		m.runStart = m.opIdx
	}
	if m.ttl == 0 {
		if !m.ever[v] {
			vd.allowNew, vd.class = true, clNever
		} else {
			vd.allowNew, vd.allowSeen, vd.class = true, true, clTTL0
		}
		return vd
	}
	hadIdx := m.find(v)
	var hadT int64
	if hadIdx >= 0 {
		hadT = m.ents[hadIdx].t
	}
	expiredNow := false
	if len(m.ents) > 0 {
		mn, mx := m.minmax()
		switch {
		case now < mn: // a step below the oldest entry: everything is discarded
			vd.glob = 'D'
			if m.tainted {
				m.marksCleared += int64(len(m.ents))
			}
			m.ents, m.tainted = m.ents[:0], false
		case now-mx >= m.ttl: // nothing can have been inserted less than ttl ago
			vd.glob = 'E'
			if m.tainted {
				m.marksCleared += int64(len(m.ents))
			} else {
				expiredNow = true
			}
			m.ents, m.tainted = m.ents[:0], false
		case m.tainted:
			// The list is in insertion order and everything before its first
			// entry is certainly gone, so that entry is the eldest under every
			// reading: it goes when it expires, and a clock that steps below its
			// timestamp — provided it never outlived its ttl, i.e. is certainly
			// still held — is a step backwards past the eldest entry.
			for len(m.ents) > 0 && now-m.ents[0].t >= m.ttl {
				m.ents = m.ents[1:]
				m.marksCleared++
			}
			if len(m.ents) > 0 && !m.ents[0].wasExpired && now < m.ents[0].t {
				vd.glob = 'D'
				m.marksCleared += int64(len(m.ents))
				m.ents, m.tainted = m.ents[:0], false
				m.eldestDiscards++
			}
			for i := range m.ents {
				if now-m.ents[i].t >= m.ttl {
					m.ents[i].wasExpired = true
				}
			}
		case now < m.prevNow: // backwards, but not below the oldest entry
			vd.glob = 'T'
			m.tainted = true
			m.marksSet += int64(len(m.ents))
		default: // monotone: timestamps are sorted, so expiry is a prefix
			k := 0
			for k < len(m.ents) && now-m.ents[k].t >= m.ttl {
				k++
			}
			if k > 0 {
				if hadIdx >= 0 && hadIdx < k {
					expiredNow = true
				}
				m.ents = m.ents[:copy(m.ents, m.ents[k:])]
			}
		}
	}
	i := m.find(v)
	switch {
	case i < 0:
		vd.allowNew = true
		switch {
		case !m.ever[v]:
			vd.class = clNever
		case hadIdx >= 0 && vd.glob == 'D':
			vd.class = clDiscarded
		case hadIdx >= 0 && expiredNow:
			vd.class = clExpired
			vd.exactTTL = now-hadT == m.ttl
		case hadIdx >= 0: // tainted list cleared by 'E'
			vd.class = clFullExp
		default:
			vd.class = clGone
		}
	case !m.tainted:
		vd.allowSeen, vd.class = true, clWithin
		vd.lastTick = now-m.ents[i].t == m.ttl-1
	case m.lastOp[v] >= m.runStart:
		vd.allowSeen, vd.class = true, clInstant
	default:
		vd.allowNew, vd.allowSeen, vd.class = true, true, clUncertain
	}
	return vd
}

func (m *refModel) observe(now int64, v int, seen bool) {
	if m.ttl != 0 && !seen {
		if i := m.find(v); i >= 0 { // an uncertain entry turned out to be gone
			m.ents = append(m.ents[:i], m.ents[i+1:]...)
		}
		m.ents = append(m.ents, ent{v: v, t: now})
		if m.tainted {
			m.marksSet++
		}
	}
	m.ever[v] = true
	m.lastOp[v] = m.opIdx
	m.opIdx++
	m.prevNow = now
	m.started = true
}

func (m *refModel) stateHash(now int64) uint64 {
	h := uint64(14695981039346656037)
	mix := func(x uint64) {
		h ^= x
		h *= 1099511628211
		h ^= h >> 29
	}
	if m.tainted {
		mix(1)
	} else {
		mix(2)
	}
	for _, e := range m.ents {
		mix(uint64(e.v) + 7)
		mix(uint64(now - e.t))
	}
	return h
}

// ---------------------------------------------------------------------------
// lockstep driver (exh/, prng/, selftest)
// ---------------------------------------------------------------------------

type op struct {
	v   int
	now int64
}

type opRec struct {
	I      int    `json:"i"`
	Value  string `json:"value"`
	NowNs  int64  `json:"now_ns"`
	StepNs int64  `json:"step_ns"`
	Answer string `json:"answer"`
	Admit  string `json:"admitted"`
	Class  string `json:"class"`
	Event  string `json:"event,omitempty"`
	Mode   string `json:"mode"`
}

type lsStats struct {
	steps, histories, verifChecks                                     int64
	exactSeen, exactNewNever, exactNewExpired, expiredAtTTL, seenLast int64
	discardNew, fullExpNew, goneNew, taintStarts, cleanAgain          int64
	uncSeen, uncNew, instantSeen                                      int64
	sizeEq, sizeNe                                                    int64
	ttl0Seen, ttl0New                                                 int64
	marksSet, marksCleared                                            int64
	maxHeld                                                           int64
}

func (s *lsStats) flush(r *mon.Run) {
	r.Count("evaluations", s.steps)
	r.Count("lockstep_steps", s.steps)
	r.Count("lockstep_histories", s.histories)
	r.Count("verifcheck_calls", s.verifChecks)
	r.Count("control_replay_seen", s.exactSeen)
	r.Count("exact_new_never_inserted", s.exactNewNever)
	r.Count("control_expired_forgotten", s.exactNewExpired)
	r.Count("control_expired_at_exactly_ttl", s.expiredAtTTL)
	r.Count("control_seen_at_ttl_minus_1", s.seenLast)
	r.Count("control_backwards_reset", s.discardNew)
	r.Count("new_after_everything_expired_tainted", s.fullExpNew)
	r.Count("new_forgotten_earlier", s.goneNew)
	r.Count("taint_starts", s.taintStarts)
	r.Count("uncertain_marks_set", s.marksSet)
	r.Count("uncertain_marks_cleared", s.marksCleared)
	r.Count("uncertain_answers_seen", s.uncSeen)
	r.Count("uncertain_answers_new", s.uncNew)
	r.Count("tainted_same_instant_seen", s.instantSeen)
	r.Count("size_equals_model_clean", s.sizeEq)
	r.Count("size_differs_model_clean", s.sizeNe)
	r.Count("ttl0_answers_seen", s.ttl0Seen)
	r.Count("ttl0_answers_new", s.ttl0New)
	r.Max("max_held_lockstep", s.maxHeld)
	*s = lsStats{}
}

type lsRun struct {
	m      refModel
	st     lsStats
	path   []byte
	states map[uint64]struct{}
	stride int // VerifCheck every stride-th op (and after the last)
	// checkFrom >= 0 (exhaustive mode): VerifCheck only after ops i >= checkFrom.
	// A prefix is replayed by every history that extends it; its structure is
	// checked by the first of them only.
	checkFrom int
}

// run executes one history on a fresh filter.  next(i, m) yields op i (ok=false
// ends the history).  Returns ("", "") or the first violation.
func (l *lsRun) run(ttl int64, next func(i int, m *refModel) (op, bool), val func(v int) []byte, trace *[]opRec) (sig, detail string) {
	f, err := replayfilter.New(time.Duration(ttl))
	if err != nil {
		return "harness/new-failed", err.Error()
	}
	m := &l.m
	m.reset(ttl)
	l.path = l.path[:0]
	l.st.histories++
	ms0, mc0 := m.marksSet, m.marksCleared
	defer func() {
		l.st.marksSet += m.marksSet - ms0
		l.st.marksCleared += m.marksCleared - mc0
	}()
	last, lastChecked := -1, -1
	for i := 0; ; i++ {
		o, ok := next(i, m)
		if !ok {
			break
		}
		prev := m.prevNow
		wasTainted := m.tainted
		vd := m.step(o.now, o.v)
		seen := f.TestAndSet(at(o.now), val(o.v))
		l.st.steps++
		l.path = append(l.path, vd.glob, vd.class)
		if trace != nil {
			rec := opRec{I: i, Value: valName(o.v), NowNs: o.now, StepNs: o.now - prev, Answer: ans(seen), Class: className[vd.class], Mode: "clean"}
			if i == 0 {
				rec.StepNs = 0
			}
			switch {
			case vd.allowNew && vd.allowSeen:
				rec.Admit = "either"
			case vd.allowNew:
				rec.Admit = "new"
			default:
				rec.Admit = "seen"
			}
			switch vd.glob {
			case 'D':
				rec.Event = "step below the oldest entry: everything discarded"
			case 'E':
				rec.Event = "now >= newest t + ttl: everything expired"
			case 'T':
				rec.Event = "backwards step at or above the oldest entry: entries become uncertain"
			}
			if m.tainted {
				rec.Mode = "tainted"
			}
			if ttl == 0 {
				rec.Mode = "ttl0"
			}
			*trace = append(*trace, rec)
		}
		if seen && !vd.allowSeen {
			switch vd.class {
			case clNever:
				return "always/seen-for-never-inserted-value", fmt.Sprintf("op %d: %q answered seen although it was never submitted", i, valName(o.v))
			case clDiscarded:
				return "always/seen-after-step-below-oldest-entry", fmt.Sprintf("op %d: now is below the t of every entry that could be held, yet %q is still seen", i, valName(o.v))
			case clFullExp:
				return "always/seen-after-everything-expired", fmt.Sprintf("op %d: now >= newest t + ttl, yet %q is still seen", i, valName(o.v))
			case clGone:
				return "always/seen-for-forgotten-value", fmt.Sprintf("op %d: %q was certainly forgotten at an earlier op, yet it is seen", i, valName(o.v))
			default:
				s := "exact/seen-for-expired-value"
				if vd.exactTTL {
					s += "/at-exactly-ttl"
				}
				return s, fmt.Sprintf("op %d (monotone clock): %q was inserted >= ttl ago, yet it is seen", i, valName(o.v))
			}
		}
		if !seen && !vd.allowNew {
			if vd.class == clInstant {
				return "tainted/new-for-same-instant-replay", fmt.Sprintf("op %d: %q was submitted earlier at this very instant, yet it is reported new", i, valName(o.v))
			}
			s := "exact/new-within-ttl"
			if vd.lastTick {
				s += "/at-ttl-minus-1"
			}
			return s, fmt.Sprintf("op %d (monotone clock): %q was inserted less than ttl ago, yet it is reported new", i, valName(o.v))
		}
		// statistics / controls
		switch vd.class {
		case clNever:
			l.st.exactNewNever++
		case clWithin:
			l.st.exactSeen++
			if vd.lastTick {
				l.st.seenLast++
			}
		case clExpired:
			l.st.exactNewExpired++
			if vd.exactTTL {
				l.st.expiredAtTTL++
			}
		case clDiscarded:
			l.st.discardNew++
		case clFullExp:
			l.st.fullExpNew++
		case clGone:
			l.st.goneNew++
		case clInstant:
			l.st.instantSeen++
		case clUncertain:
			if seen {
				l.st.uncSeen++
			} else {
				l.st.uncNew++
			}
		case clTTL0:
			if seen {
				l.st.ttl0Seen++
			} else {
				l.st.ttl0New++
			}
		}
		if vd.glob == 'T' {
			l.st.taintStarts++
		}
		if wasTainted && !m.tainted {
			l.st.cleanAgain++
		}
		m.observe(o.now, o.v, seen)
		if l.states != nil {
			l.states[m.stateHash(o.now)] = struct{}{}
		}
		if (l.stride <= 1 && i >= l.checkFrom) || (l.stride > 1 && i%l.stride == 0) {
			lastChecked = i
			if s, d := l.structure(f, i, ttl); s != "" {
				return s, d
			}
		}
		last = i
	}
	if lastChecked == last {
		return "", ""
	}
	return l.structure(f, last, ttl)
}

func (l *lsRun) structure(f *replayfilter.ReplayFilter, i int, ttl int64) (sig, detail string) {
	mapLen, fifoLen, bij, mono, hooked := structCheck(f)
	if !hooked {
		return "", ""
	}
	l.st.verifChecks++
	if int64(mapLen) > l.st.maxHeld {
		l.st.maxHeld = int64(mapLen)
	}
	if mapLen != fifoLen || !bij {
		return "structure/map-fifo-not-in-bijection", fmt.Sprintf("after op %d: len(map)=%d fifo.Len()=%d bijection=%v", i, mapLen, fifoLen, bij)
	}
	if mapLen > wantCap {
		return "structure/size-above-capacity", fmt.Sprintf("after op %d: holds %d > %d", i, mapLen, wantCap)
	}
	if ttl != 0 && !l.m.tainted {
		if !mono {
			return "structure/fifo-not-in-time-order-on-monotone-history", fmt.Sprintf("after op %d: firstSeen decreases along the fifo although the clock was monotone for everything held", i)
		}
		if mapLen == len(l.m.ents) {
			l.st.sizeEq++
		} else {
			l.st.sizeNe++
		}
	}
	return "", ""
}

func ans(seen bool) string {
	if seen {
		return "seen"
	}
	return "new"
}

func valName(v int) string {
	if v < 26 {
		return string(rune('a' + v))
	}
	return fmt.Sprintf("v%d", v)
}

// valueSet hands out distinct random 16..48 byte strings, one per value index.
type valueSet struct {
	rng  interface{ Uint64() uint64 }
	vals [][]byte
}

func (s *valueSet) get(v int) []byte {
	for len(s.vals) <= v {
		n := 16 + int(s.rng.Uint64()%33)
		b := make([]byte, n)
		for i := 0; i < n; i += 8 {
			var w [8]byte
			binary.LittleEndian.PutUint64(w[:], s.rng.Uint64())
			copy(b[i:], w[:])
		}
		// distinctness by construction: the index is folded into the first bytes
		// of an otherwise random string (random part >= 8 bytes)
		binary.BigEndian.PutUint32(b[0:4], uint32(len(s.vals))^0x5bd1e995)
		s.vals = append(s.vals, b)
	}
	return s.vals[v]
}

// judgeRecorded re-runs a violating history with fresh random strings on a
// fresh filter (a SipHash collision would not repeat) and reports it only if
// it reproduces.
func judgeRecorded(c *mon.Case, r *mon.Run, l *lsRun, where string, ttl int64, ops []op, sig, detail string, seedLabel ...any) {
	fresh := &valueSet{rng: mon.NewRand(r.Sub(append([]any{"recheck"}, seedLabel...)...))}
	l.checkFrom = 0
	var tr []opRec
	sig2, detail2 := l.run(ttl, func(i int, m *refModel) (op, bool) {
		if i >= len(ops) {
			return op{}, false
		}
		return ops[i], true
	}, fresh.get, &tr)
	if sig2 == "" {
		r.Count("suspected_hash_collisions_not_reproduced", 1)
		r.Inconclusive(fmt.Sprintf("%s: %s (%s) did not reproduce with fresh values; treated as a hash collision, not reported", where, sig, detail))
		return
	}
	if len(tr) > 40 {
		tr = tr[len(tr)-40:]
	}
	c.Violation(sig2, fmt.Sprintf("%s ttl=%v: %s", where, time.Duration(ttl), detail2), map[string]any{
		"ttl_ns": ttl, "ops_total": len(ops), "last_ops": tr, "first_signature": sig,
	})
}

// ---------------------------------------------------------------------------
// (1) exhaustive
// ---------------------------------------------------------------------------

func stepAlphabet(T int64) ([]int64, []string) {
	return []int64{-2 * T, -1, 0, 1, T - 1, T, T + 1}, []string{"-2ttl", "-1", "0", "+1", "ttl-1", "ttl", "ttl+1"}
}

func exhaustive(r *mon.Run, L int) {
	type tcfg struct {
		name string
		ttl  int64
		T    int64 // unit for the step alphabet
	}
	ttls := []tcfg{
		{"10s", int64(10 * time.Second), int64(10 * time.Second)},
		{"3h", int64(3 * time.Hour), int64(3 * time.Hour)},
		{"0", 0, int64(10 * time.Second)},
	}
	for _, tc := range ttls {
		L := L
		if tc.ttl == 0 && L > 6 {
			L = 6 // reduced judgement, reduced bound
		}
		steps, stepNames := stepAlphabet(tc.T)
		for s2 := range steps {
			for s3 := range steps {
				tc, s2, s3 := tc, s2, s3
				r.Case(fmt.Sprintf("exh/ttl=%s/L%d/%s,%s", tc.name, L, stepNames[s2], stepNames[s3]), func(c *mon.Case) {
					rng := mon.NewRand(r.Sub("exh", tc.name, s2, s3))
					vs := &valueSet{rng: rng}
					vs.get(2)
					l := &lsRun{states: map[uint64]struct{}{}, stride: 1}
					paths := map[string]struct{}{}
					ops := make([]op, L)
					isFirst := make([]bool, L)
					var leaves int64
					reported := false
					var rec func(d int, maxV int)
					rec = func(d int, maxV int) {
						if reported {
							return
						}
						if d == L {
							leaves++
							l.checkFrom = L - 1
							for l.checkFrom > 0 && isFirst[l.checkFrom] {
								l.checkFrom--
							}
							sig, detail := l.run(tc.ttl, func(i int, _ *refModel) (op, bool) {
								if i >= L {
									return op{}, false
								}
								return ops[i], true
							}, vs.get, nil)
							if sig != "" {
								judgeRecorded(c, r, l, c.Name, tc.ttl, append([]op(nil), ops...), sig, detail, c.Name, leaves)
								reported = true // one witness per case is enough
								return
							}
							if _, ok := paths[string(l.path)]; !ok {
								paths[string(l.path)] = struct{}{}
							}
							return
						}
						for v := 0; v <= maxV+1 && v <= 2; v++ {
							nm := maxV
							if v > maxV {
								nm = v
							}
							lo, hi := 0, len(steps)
							switch d {
							case 0:
								lo, hi = 2, 3 // first op: step 0 (a fresh filter has no previous clock)
							case 1:
								lo, hi = s2, s2+1
							case 2:
								lo, hi = s3, s3+1
							}
							for si := lo; si < hi; si++ {
								prev := int64(0)
								if d > 0 {
									prev = ops[d-1].now
								}
								ops[d] = op{v: v, now: prev + steps[si]}
								isFirst[d] = v == 0 && si == lo
								rec(d+1, nm)
							}
						}
					}
					rec(0, -1)
					r.Count("exhaustive_histories", leaves)
					for p := range paths {
						r.Distinct("oracle_paths", tc.name+"/"+p)
						if strings.Trim(p, "-"+string(rune(clNever))) != "" {
							r.Distinct("nontrivial", "exh/"+tc.name+"/"+p)
						}
					}
					for h := range l.states {
						r.Distinct("model_states", fmt.Sprintf("%s/%x", tc.name, h))
					}
					l.st.flush(r)
					if s2 == 1 && s3 == 4 && tc.name == "10s" {
						var tr []opRec
						hist := []op{{0, 0}, {1, steps[1]}, {0, steps[1] + steps[4]}}
						l.run(tc.ttl, func(i int, _ *refModel) (op, bool) {
							if i >= len(hist) {
								return op{}, false
							}
							return hist[i], true
						}, vs.get, &tr)
						l.st = lsStats{}
						r.Sample(map[string]any{"kind": "exhaustive history (first three ops of this case)", "ttl": tc.name, "ops": tr})
					}
				})
			}
		}
	}
}

// ---------------------------------------------------------------------------
// (2) PRNG histories
// ---------------------------------------------------------------------------

func prngHistories(r *mon.Run) {
	nCases := 32
	perCase := r.Pick(6, 100)
	nOps := 10000
	ttlChoices := []int64{int64(10 * time.Second), int64(3 * time.Hour), 3, 1000, 0}
	for b := 0; b < nCases; b++ {
		b := b
		r.Case(fmt.Sprintf("prng/%02d", b), func(c *mon.Case) {
			l := &lsRun{stride: 8}
			for h := 0; h < perCase; h++ {
				rng := mon.NewRand(r.Sub("prng", b, h))
				ttl := ttlChoices[(b+h)%len(ttlChoices)]
				T := ttl
				if T == 0 {
					T = int64(10 * time.Second)
				}
				pool := 3 + rng.IntN(40)
				backPermille := []int{0, 5, 30, 150}[rng.IntN(4)]
				nextFresh := pool
				vs := &valueSet{rng: rng}
				rec := make([]op, 0, nOps)
				sig, detail := l.run(ttl, func(i int, m *refModel) (op, bool) {
					if i >= nOps {
						return op{}, false
					}
					var o op
					// value
					switch p := rng.IntN(100); {
					case p < 4 && nextFresh < pool+200:
						o.v = nextFresh
						nextFresh++
					case p < 44 && len(m.ents) > 0:
						o.v = m.ents[rng.IntN(len(m.ents))].v
					default:
						o.v = rng.IntN(pool)
					}
					// time
					prev := m.prevNow
					pick := func() ent {
						if len(m.ents) == 0 {
							return ent{v: 0, t: prev}
						}
						return m.ents[rng.IntN(len(m.ents))]
					}
					small := func() int64 { return prev + rng.Int64N(T/256+2) }
					if rng.IntN(1000) < backPermille {
						switch rng.IntN(4) {
						case 0, 1:
							o.now = prev - 1 - rng.Int64N(T/64+1)
						case 2: // onto / just below the timestamp of some entry
							o.now = pick().t - int64(rng.IntN(2))
						default:
							o.now = prev - 2*T
						}
					} else {
						switch p := rng.IntN(100); {
						case p < 52:
							o.now = small()
						case p < 67:
							o.now = prev
						case p < 83: // around the expiry instant of some entry
							if o.now = pick().t + T + int64(rng.IntN(3)) - 1; o.now < prev {
								o.now = small()
							}
						case p < 85:
							o.now = prev + T + int64(rng.IntN(3)) - 1
						case p < 87:
							o.now = prev + 2*T
						case p < 91:
							o.now = prev + rng.Int64N(T)
						default:
							o.now = prev + rng.Int64N(T/16+2)
						}
					}
					if i == 0 {
						o.now = 0
					}
					rec = append(rec, o)
					return o, true
				}, vs.get, nil)
				r.Distinct("nontrivial", fmt.Sprintf("prng/%d/%d", b, h))
				if sig != "" {
					judgeRecorded(c, r, l, fmt.Sprintf("%s history %d", c.Name, h), ttl, rec, sig, detail, "prng", b, h)
				}
				r.Count("prng_histories", 1)
				if b == 0 && h == 0 {
					var tr []opRec
					l2 := &lsRun{stride: 8}
					k := 12
					l2.run(ttl, func(i int, _ *refModel) (op, bool) {
						if i >= k || i >= len(rec) {
							return op{}, false
						}
						return rec[i], true
					}, vs.get, &tr)
					r.Sample(map[string]any{"kind": "prng history, first 12 of 10000 ops", "ttl_ns": ttl, "ops": tr})
				}
			}
			l.st.flush(r)
		})
	}
}

// ---------------------------------------------------------------------------
// (3) capacity
// ---------------------------------------------------------------------------

const (
	goneNever = iota
	goneExpired
	goneEvicted
	goneDiscarded
	held
)

var causeName = []string{"never-inserted", "expired", "evicted", "discarded", "held"}

// capModel: a reading of the property for monotone histories (plus steps
// below the oldest entry) that reach the capacity.  eager: a full filter makes
// room for one entry before every lookup; lazy: only when a new value has to be
// stored.
type capModel struct {
	eager bool
	ttl   int64
	cap   int
	q     []ent
	head  int
	state []uint8 // per value: goneNever.. / held
}

func (m *capModel) size() int { return len(m.q) - m.head }

func (m *capModel) grow(v int) {
	for len(m.state) <= v {
		m.state = append(m.state, goneNever)
	}
}

func (m *capModel) pop(cause uint8) {
	m.state[m.q[m.head].v] = cause
	m.head++
	if m.head > 1<<16 && m.head*2 > len(m.q) {
		m.q = append(m.q[:0], m.q[m.head:]...)
		m.head = 0
	}
}

// step returns the answer of this reading, why, and the distance of the value
// from the oldest held entry (-1 if not held).
func (m *capModel) step(now int64, v int) (seen bool, cause uint8) {
	m.grow(v)
	if m.size() > 0 && now < m.q[m.head].t {
		for m.size() > 0 {
			m.pop(goneDiscarded)
		}
	}
	for m.size() > 0 && now-m.q[m.head].t >= m.ttl {
		m.pop(goneExpired)
	}
	if m.eager && m.size() >= m.cap {
		m.pop(goneEvicted)
	}
	if m.state[v] == held {
		return true, held
	}
	cause = m.state[v]
	if m.size() >= m.cap {
		m.pop(goneEvicted)
	}
	m.q = append(m.q, ent{v: v, t: now})
	m.state[v] = held
	return false, cause
}

type capStats struct {
	ops, checkpoints                                      int64
	evictedNew, heldSeenNearFront, readingDependent       int64
	likeEager, likeLazy                                   int64
	sizeEager, sizeLazy, sizeNeither                      int64
	expiredNew, discardedNew, neverNew, heldSeen, maxSize int64
	fullDiscards                                          int64
}

type capRun struct {
	c      *mon.Case
	r      *mon.Run
	f      *replayfilter.ReplayFilter
	eager  capModel
	lazy   capModel
	vs     *valueSet
	st     capStats
	now    int64
	failed bool
	recent []opRec
	ttl    int64
}

func newCapRun(c *mon.Case, r *mon.Run, ttl int64, vs *valueSet) *capRun {
	f, err := replayfilter.New(time.Duration(ttl))
	if err != nil {
		c.T.Fatal(err)
	}
	return &capRun{c: c, r: r, f: f, vs: vs, ttl: ttl,
		eager: capModel{eager: true, ttl: ttl, cap: wantCap}, lazy: capModel{ttl: ttl, cap: wantCap}}
}

type capViolation struct{ sig, detail string }

// do performs one op; returns a violation or nil.
func (k *capRun) do(now int64, v int) *capViolation {
	k.now = now
	nearFront := false
	if k.lazy.size() > 0 {
		k.lazy.grow(v)
		k.eager.grow(v)
		// "near the front": among the 64 oldest entries of both readings
		for i := 0; i < 64 && i < k.lazy.size() && !nearFront; i++ {
			nearFront = k.lazy.q[k.lazy.head+i].v == v
		}
	}
	sizeBefore := k.eager.size()
	eS, eC := k.eager.step(now, v)
	lS, lC := k.lazy.step(now, v)
	if eC == goneDiscarded && sizeBefore > 0 && k.eager.size() == 1 {
		k.st.fullDiscards++
	}
	got := k.f.TestAndSet(at(now), k.vs.get(v))
	k.st.ops++
	rec := opRec{I: int(k.st.ops) - 1, Value: valName(v), NowNs: now, Answer: ans(got), Class: "eager:" + causeName[eC] + " lazy:" + causeName[lC]}
	if len(k.recent) >= 24 {
		k.recent = append(k.recent[:0], k.recent[1:]...)
	}
	k.recent = append(k.recent, rec)
	if eC == goneNever && got {
		return &capViolation{"always/seen-for-never-inserted-value", fmt.Sprintf("op %d: a never submitted value is answered seen", k.st.ops-1)}
	}
	if eS != lS {
		k.st.readingDependent++
		if got == eS {
			k.st.likeEager++
		} else {
			k.st.likeLazy++
		}
		return nil
	}
	if got != eS {
		switch {
		case !eS && eC == goneEvicted && lC == goneEvicted:
			return &capViolation{"capacity/evicted-value-still-seen", fmt.Sprintf("op %d: the value is older than %d values stored after it (all within ttl), yet it is still seen", k.st.ops-1, wantCap)}
		case !eS && (eC == goneDiscarded || lC == goneDiscarded):
			return &capViolation{"always/seen-after-step-below-oldest-entry", fmt.Sprintf("op %d (at capacity): seen after a step below the oldest entry", k.st.ops-1)}
		case !eS:
			return &capViolation{"exact/seen-for-expired-value", fmt.Sprintf("op %d (at capacity, monotone): value inserted >= ttl ago is seen (eager:%s lazy:%s)", k.st.ops-1, causeName[eC], causeName[lC])}
		default:
			return &capViolation{"capacity/held-value-forgotten-not-oldest-first", fmt.Sprintf("op %d: the value was inserted less than ttl ago and fewer than %d values were stored after it, yet it is reported new", k.st.ops-1, wantCap-1)}
		}
	}
	switch {
	case eS:
		k.st.heldSeen++
		if nearFront {
			k.st.heldSeenNearFront++
		}
	case eC == goneEvicted && lC == goneEvicted:
		k.st.evictedNew++
	case eC == goneExpired:
		k.st.expiredNew++
	case eC == goneDiscarded:
		k.st.discardedNew++
	case eC == goneNever:
		k.st.neverNew++
	}
	return nil
}

func (k *capRun) checkpoint() *capViolation {
	mapLen, fifoLen, bij, mono, hooked := structCheck(k.f)
	if !hooked {
		return nil
	}
	k.st.checkpoints++
	if int64(mapLen) > k.st.maxSize {
		k.st.maxSize = int64(mapLen)
	}
	switch {
	case mapLen != fifoLen || !bij:
		return &capViolation{"structure/map-fifo-not-in-bijection", fmt.Sprintf("after op %d: len(map)=%d fifo.Len()=%d bijection=%v", k.st.ops-1, mapLen, fifoLen, bij)}
	case mapLen > wantCap:
		return &capViolation{"structure/size-above-capacity", fmt.Sprintf("after op %d: holds %d > %d", k.st.ops-1, mapLen, wantCap)}
	case !mono:
		return &capViolation{"structure/fifo-not-in-time-order-on-monotone-history", fmt.Sprintf("after op %d", k.st.ops-1)}
	}
	switch mapLen {
	case k.eager.size():
		k.st.sizeEager++
		if mapLen == k.lazy.size() {
			k.st.sizeLazy++
		}
	case k.lazy.size():
		k.st.sizeLazy++
	default:
		k.st.sizeNeither++
	}
	return nil
}

func (k *capRun) flush() {
	r, s := k.r, &k.st
	r.Count("evaluations", s.ops)
	r.Count("capacity_ops", s.ops)
	r.Count("capacity_checkpoints", s.checkpoints)
	r.Count("control_eviction_oldest_first", s.evictedNew)
	r.Count("capacity_probes_evicted_new", s.evictedNew)
	r.Count("capacity_probes_held_seen", s.heldSeen)
	r.Count("control_capacity_oldest_held_still_seen", s.heldSeenNearFront)
	r.Count("capacity_probes_expired_new", s.expiredNew)
	r.Count("capacity_probes_after_discard_new", s.discardedNew)
	r.Count("capacity_first_inserts_new", s.neverNew)
	r.Count("capacity_reading_dependent_answers", s.readingDependent)
	r.Count("capacity_reading_dependent_like_eager", s.likeEager)
	r.Count("capacity_reading_dependent_like_lazy", s.likeLazy)
	r.Count("capacity_size_equals_eager_reading", s.sizeEager)
	r.Count("capacity_size_equals_lazy_reading", s.sizeLazy)
	r.Count("capacity_size_equals_neither_reading", s.sizeNeither)
	r.Count("capacity_full_discards", s.fullDiscards)
	r.Max("max_size_observed", s.maxSize)
}

// capScript drives one scenario; emit(now, v) performs an op, mark() is a
// quiescent point, oldest() names the oldest value held under the eager
// reading (workload steering only).  Scripts are pure functions of their rng.
type capScript func(rng randSrc, emit func(now int64, v int) bool, mark func() bool, oldest func() int)

type randSrc interface {
	IntN(int) int
	Int64N(int64) int64
	Uint64() uint64
}

func capScripts() (names []string, ttls []int64, scripts []capScript) {
	add := func(n string, ttl time.Duration, s capScript) {
		names, ttls, scripts = append(names, n), append(ttls, int64(ttl)), append(scripts, s)
	}
	fill := func(rng randSrc, emit func(int64, int) bool, now *int64, from, n int) bool {
		for i := 0; i < n; i++ {
			*now += rng.Int64N(4)
			if !emit(*now, from+i) {
				return false
			}
		}
		return true
	}
	// overflow by k, probe the oldest k, long-gone, middle, newest, re-inserts
	add("overflow", 3*time.Hour, func(rng randSrc, emit func(int64, int) bool, mark func() bool, oldest func() int) {
		k := 1 + rng.IntN(300)
		var now int64
		n := wantCap + k
		if !fill(rng, emit, &now, 0, wantCap) || !mark() || !fill(rng, emit, &now, wantCap, k) || !mark() {
			return
		}
		for i := 0; i < k; i++ { // the oldest k were evicted; every probe stores the value again
			now += rng.Int64N(3)
			if !emit(now, i) {
				return
			}
		}
		if !mark() {
			return
		}
		for i := 0; i < 50; i++ { // evicted by the re-inserts above: k .. 2k-1
			now++
			if !emit(now, k+rng.IntN(k)) {
				return
			}
		}
		for i := 0; i < 200; i++ { // middle and newest: held under both readings
			now++
			if !emit(now, wantCap/2+rng.IntN(wantCap/2+k)) {
				return
			}
		}
		if !mark() {
			return
		}
		// the point the property leaves open: a lookup that hits while the filter
		// is full.  Hit the newest value, then ask for the value that was the
		// oldest one held before the hit: "new" if room is made before every
		// lookup, "seen" if only before storing.  Not judged, only counted.
		for j := 0; j < 30; j++ {
			now++
			if !emit(now, n+1000+j) { // a fresh value: the filter is full under both readings
				return
			}
			o := oldest()
			now++
			if !emit(now, wantCap+k-1) {
				return
			}
			now++
			if !emit(now, o) {
				return
			}
		}
		if !mark() {
			return
		}
		for i := 0; i < 400; i++ { // around the front of the fifo (reading dependent after hits)
			now++
			if !emit(now, 2*k+rng.IntN(1200)) {
				return
			}
		}
		if !mark() {
			return
		}
		if !fill(rng, emit, &now, n, 500) || !mark() { // fresh values again
			return
		}
		for i := 0; i < 300; i++ {
			now++
			if !emit(now, rng.IntN(n+500)) {
				return
			}
		}
		mark()
	})
	// expiry interleaved with overflow
	add("overflow+expiry", 10*time.Second, func(rng randSrc, emit func(int64, int) bool, mark func() bool, oldest func() int) {
		k := 1 + rng.IntN(300)
		half := wantCap / 2
		var now int64
		if !fill(rng, emit, &now, 0, half) || !mark() {
			return
		}
		endA := now
		now = int64(5 * time.Second)
		if !fill(rng, emit, &now, half, half+k) || !mark() { // evicts the oldest k of the first half
			return
		}
		for i := 0; i < 100; i++ { // evicted ones
			now++
			if !emit(now, rng.IntN(k)) {
				return
			}
		}
		// boundary: the last value of the first half expires at endA+ttl exactly
		now = endA + int64(10*time.Second) - 1
		if !emit(now, half-1) || !mark() { // still held (ttl-1)
			return
		}
		now++
		if !emit(now, half-1) || !mark() { // expired exactly now, stored again
			return
		}
		for i := 0; i < 200; i++ { // first half: expired (or evicted, or re-inserted above)
			now++
			if !emit(now, rng.IntN(half)) {
				return
			}
		}
		for i := 0; i < 200; i++ { // second half: held
			now++
			if !emit(now, half+rng.IntN(half+k)) {
				return
			}
		}
		if !mark() {
			return
		}
		base2 := wantCap + k
		if !fill(rng, emit, &now, base2, half+k) || !mark() { // full again, overflow by about k
			return
		}
		for i := 0; i < 300; i++ {
			now++
			if !emit(now, half+rng.IntN(half+k+half+k)) {
				return
			}
		}
		if !mark() {
			return
		}
		now += int64(25 * time.Second) // everything expires
		for i := 0; i < 100; i++ {
			now++
			if !emit(now, rng.IntN(base2+half+k)) {
				return
			}
		}
		mark()
	})
	// full filter, then a step below the oldest held entry
	add("full-then-backwards", 3*time.Hour, func(rng randSrc, emit func(int64, int) bool, mark func() bool, oldest func() int) {
		k := rng.IntN(200) // may be 0: exactly full
		now := int64(1000)
		times := make([]int64, 0, wantCap+k)
		for i := 0; i < wantCap+k; i++ {
			now += 1 + rng.Int64N(3)
			times = append(times, now)
			if !emit(now, i) {
				return
			}
		}
		if !mark() {
			return
		}
		if rng.IntN(2) == 0 {
			now = times[k] - 1 // just below the oldest entry still held (value k)
		} else {
			now = times[0] - 1 - rng.Int64N(1000)
		}
		for _, v := range []int{wantCap + k - 1, k, wantCap / 2, wantCap + k, k + 1} { // all must be new
			if !emit(now, v) || !mark() {
				return
			}
		}
		for _, v := range []int{wantCap + k - 1, k, wantCap / 2, wantCap + k, k + 1, 0} { // replays (0 was evicted or discarded)
			now += rng.Int64N(2)
			if !emit(now, v) {
				return
			}
		}
		mark()
	})
	// random walk around the capacity; in the middle the oldest ~30000 entries expire at once
	add("walk", time.Millisecond, func(rng randSrc, emit func(int64, int) bool, mark func() bool, oldest func() int) {
		var now int64
		n := wantCap - 50
		if !fill(rng, emit, &now, 0, n) || !mark() {
			return
		}
		frontier := func() int { return n - wantCap } // eviction frontier while nothing has expired
		walk := func(count, freshPct int) bool {
			for i := 0; i < count; i++ {
				now += rng.Int64N(4)
				var v int
				switch p := rng.IntN(100); {
				case p < freshPct:
					v = n
					n++
				case p < freshPct+20:
					v = n - 1 - rng.IntN(1000)
				case p < freshPct+40:
					v = frontier() - 200 + rng.IntN(400)
				default:
					v = rng.IntN(n)
				}
				if v < 0 {
					v = rng.IntN(64)
				}
				if !emit(now, v) {
					return false
				}
				if i%4000 == 3999 && !mark() {
					return false
				}
			}
			return mark()
		}
		if !walk(12000, 50) {
			return
		}
		if t := int64(time.Millisecond) + 45000; now < t {
			now = t // everything stored before t=45000 expires at the next op
		}
		frontier = func() int { return 30000 }
		if !walk(6000, 30) {
			return
		}
		if !fill(rng, emit, &now, n, 36000) || !mark() { // reaches the capacity again
			return
		}
		n += 36000
		frontier = func() int { return n - wantCap }
		walk(12000, 50)
	})
	return
}

func capacity(r *mon.Run) {
	names, ttls, scripts := capScripts()
	reps := r.Pick(2, 8)
	for si := range scripts {
		for rep := 0; rep < reps; rep++ {
			si, rep := si, rep
			r.Case(fmt.Sprintf("cap/%s/%d", names[si], rep), func(c *mon.Case) {
				if ms, hooked := maxSizeHook(); hooked && ms != wantCap {
					c.Violation("capacity/constant-differs-from-102400", fmt.Sprintf("maxFilterSize = %d", ms), nil)
					return
				}
				run := func(valSeed uint64) (*capRun, *capViolation) {
					k := newCapRun(c, r, ttls[si], &valueSet{rng: mon.NewRand(valSeed)})
					var viol *capViolation
					emit := func(now int64, v int) bool {
						if viol == nil {
							viol = k.do(now, v)
						}
						return viol == nil
					}
					mark := func() bool {
						if viol == nil {
							viol = k.checkpoint()
						}
						return viol == nil
					}
					scripts[si](mon.NewRand(r.Sub("capscript", si, rep)), emit, mark, func() int {
						if k.eager.size() == 0 {
							return 0
						}
						return k.eager.q[k.eager.head].v
					})
					return k, viol
				}
				k, viol := run(r.Sub("capvals", si, rep))
				if viol != nil {
					// fresh strings, fresh filter: a hash collision would not repeat
					k2, viol2 := run(r.Sub("capvals-recheck", si, rep))
					if viol2 == nil {
						r.Count("suspected_hash_collisions_not_reproduced", 1)
						r.Inconclusive(fmt.Sprintf("%s: %s did not reproduce with fresh values", c.Name, viol.sig))
					} else {
						c.Violation(viol2.sig, fmt.Sprintf("%s ttl=%v: %s", c.Name, time.Duration(ttls[si]), viol2.detail),
							map[string]any{"scenario": names[si], "ops_before": k2.st.ops, "last_ops": k2.recent,
								"size_eager_reading": k2.eager.size(), "size_lazy_reading": k2.lazy.size()})
					}
				}
				k.flush()
				r.Count("capacity_scenarios", 1)
				r.Distinct("nontrivial", fmt.Sprintf("cap/%s/%d", names[si], rep))
				if rep == 0 && si == 0 {
					r.Sample(map[string]any{"kind": "capacity scenario", "name": names[si], "ops": k.st.ops, "last_ops": k.recent[max(0, len(k.recent)-4):],
						"max_size": k.st.maxSize, "evicted_probes_new": k.st.evictedNew})
				}
			})
		}
	}
}

// ---------------------------------------------------------------------------
// (4) concurrency
// ---------------------------------------------------------------------------

type cIn struct {
	V   int
	Now int64
}

type cOp struct {
	Client int    `json:"client"`
	Phase  int    `json:"phase"`
	Value  string `json:"value"`
	NowNs  int64  `json:"now_ns"`
	Call   int64  `json:"call_tick"`
	Ret    int64  `json:"return_tick"`
	Seen   bool   `json:"seen"`
	v      int
}

const noEntry = int64(-1) << 62

func tasModel(ttl int64) porcupine.Model {
	return porcupine.Model{
		Partition: func(h []porcupine.Operation) [][]porcupine.Operation {
			m := map[int][]porcupine.Operation{}
			var keys []int
			for _, o := range h {
				v := o.Input.(cIn).V
				if _, ok := m[v]; !ok {
					keys = append(keys, v)
				}
				m[v] = append(m[v], o)
			}
			sort.Ints(keys)
			out := make([][]porcupine.Operation, 0, len(keys))
			for _, k := range keys {
				out = append(out, m[k])
			}
			return out
		},
		Init: func() interface{} { return noEntry },
		// per value: state = time of the insertion that is still remembered.
		// Phases are separated by barriers and their `now` increases, so every
		// linearisation presents non-decreasing times to this model.
		Step: func(state, input, output interface{}) (bool, interface{}) {
			s, in, seen := state.(int64), input.(cIn), output.(bool)
			if s != noEntry && (in.Now-s >= ttl || in.Now < s) {
				s = noEntry
			}
			if s == noEntry {
				return !seen, in.Now
			}
			return seen, s
		},
		DescribeOperation: func(input, output interface{}) string {
			return fmt.Sprintf("TestAndSet(%d,%s)=%v", input.(cIn).Now, valName(input.(cIn).V), output)
		},
	}
}

func concurrency(r *mon.Run) {
	nCases := r.Pick(16, 64)
	perCase := r.Pick(150, 400)
	for b := 0; b < nCases; b++ {
		b := b
		r.Case(fmt.Sprintf("conc/%02d", b), func(c *mon.Case) {
			var nOK, nIllegal, nUnknown, nOps, nHist int64
			var ovl [5]int64
			var ctlOneNew, ctlOneNewOverlap, ctlExpiredOnce, sameValOverlap, ctlPresentNoNew int64
			for h := 0; h < perCase; h++ {
				rng := mon.NewRand(r.Sub("conc", b, h))
				ttl := int64(10 * time.Second)
				if rng.IntN(2) == 0 {
					ttl = int64(3 * time.Hour)
				}
				G := 2 + rng.IntN(15)
				nv := 1 + rng.IntN(3)
				P := 1 + rng.IntN(3)
				// phase times: strictly increasing; the last phase lies >= ttl after
				// every earlier one, so there everything must be new exactly once
				nows := make([]int64, P+1)
				for p := 1; p <= P; p++ {
					var d int64
					switch rng.IntN(6) {
					case 0:
						d = 1
					case 1:
						d = int64(time.Second)
					case 2:
						d = ttl - 1
					case 3:
						d = ttl
					case 4:
						d = ttl + 1
					default:
						d = ttl / 2
					}
					if p == P {
						d = ttl + rng.Int64N(3)
					}
					nows[p] = nows[p-1] + d
				}
				// per goroutine: 2..6 ops, spread over the phases
				type gop struct{ phase, v int }
				plan := make([][]gop, G)
				for g := range plan {
					n := 2 + rng.IntN(5)
					for i := 0; i < n; i++ {
						plan[g] = append(plan[g], gop{rng.IntN(P + 1), rng.IntN(nv)})
					}
					sort.SliceStable(plan[g], func(i, j int) bool { return plan[g][i].phase < plan[g][j].phase })
				}
				vs := &valueSet{rng: rng}
				vs.get(nv - 1)
				f, err := replayfilter.New(time.Duration(ttl))
				if err != nil {
					c.T.Fatal(err)
				}
				var tick atomic.Int64
				var ops []cOp
				structBad := ""
				for p := 0; p <= P; p++ {
					var wg sync.WaitGroup
					var ready, start, arrived atomic.Int32
					res := make([][]cOp, G)
					active := 0
					nActive := 0
					for g := 0; g < G; g++ {
						for _, o := range plan[g] {
							if o.phase == p {
								nActive++
								break
							}
						}
					}
					burst := min(nActive, runtime.GOMAXPROCS(0))
					for g := 0; g < G; g++ {
						var mine []gop
						for _, o := range plan[g] {
							if o.phase == p {
								mine = append(mine, o)
							}
						}
						if len(mine) == 0 {
							continue
						}
						active++
						g, mine := g, mine
						wg.Add(1)
						go func() {
							defer wg.Done()
							out := make([]cOp, 0, len(mine))
							now := at(nows[p])
							ready.Add(1)
							for start.Load() == 0 {
								runtime.Gosched()
							}
							// second gate: the first goroutines to get a processor wait
							// (briefly spinning) for each other, so that they enter
							// TestAndSet truly in parallel
							arrived.Add(1)
							for spins := 0; int(arrived.Load()) < burst; spins++ {
								if spins > 2000 {
									runtime.Gosched()
								}
							}
							for _, o := range mine {
								buf := vs.vals[o.v]
								call := tick.Add(1)
								seen := f.TestAndSet(now, buf)
								ret := tick.Add(1)
								out = append(out, cOp{Client: g, Phase: p, Value: valName(o.v), NowNs: nows[p], Call: call, Ret: ret, Seen: seen, v: o.v})
							}
							res[g] = out
						}()
					}
					for int(ready.Load()) < active {
						runtime.Gosched()
					}
					start.Store(1)
					wg.Wait() // barrier: every return tick of this phase precedes every call tick of the next
					for g := range res {
						ops = append(ops, res[g]...)
					}
					mapLen, fifoLen, bij, mono, hooked := structCheck(f)
					if hooked && (mapLen != fifoLen || !bij || mapLen > wantCap || !mono) {
						structBad = fmt.Sprintf("after phase %d: len(map)=%d fifo.Len()=%d bijection=%v time-ordered=%v", p, mapLen, fifoLen, bij, mono)
					}
				}
				nHist++
				nOps += int64(len(ops))
				witness := func() map[string]any {
					return map[string]any{"ttl_ns": ttl, "goroutines": G, "values": nv, "phase_now_ns": nows, "ops": ops}
				}
				if structBad != "" {
					c.Violation("structure/broken-after-concurrent-phase", fmt.Sprintf("%s history %d: %s", c.Name, h, structBad), witness())
				}
				// direct oracle: per phase and value, exactly one "new" iff not remembered at the phase start
				state := make([]int64, nv)
				for v := range state {
					state[v] = noEntry
				}
				for p := 0; p <= P; p++ {
					for v := 0; v < nv; v++ {
						hadBefore := state[v] != noEntry
						if hadBefore && nows[p]-state[v] >= ttl {
							state[v] = noEntry
						}
						var sub, news int
						var grp []cOp
						for _, o := range ops {
							if o.Phase == p && o.v == v {
								sub++
								grp = append(grp, o)
								if !o.Seen {
									news++
								}
							}
						}
						if sub == 0 {
							continue
						}
						overl := false
						for i := range grp {
							for j := i + 1; j < len(grp); j++ {
								if grp[i].Call <= grp[j].Ret && grp[j].Call <= grp[i].Ret {
									overl = true
								}
							}
						}
						if overl {
							sameValOverlap++
						}
						if state[v] == noEntry {
							switch {
							case news == 0:
								c.Violation("concurrent/nobody-told-new", fmt.Sprintf("%s history %d phase %d value %s: %d submissions of a value that is not remembered, none was told new", c.Name, h, p, valName(v), sub), witness())
							case news > 1:
								c.Violation("concurrent/several-told-new", fmt.Sprintf("%s history %d phase %d value %s: %d of %d simultaneous submissions were told new", c.Name, h, p, valName(v), news, sub), witness())
							default:
								if sub >= 2 {
									ctlOneNew++
									if overl {
										ctlOneNewOverlap++
									}
								}
								if hadBefore {
									ctlExpiredOnce++
								}
							}
							state[v] = nows[p]
						} else {
							if news != 0 {
								c.Violation("concurrent/remembered-value-told-new", fmt.Sprintf("%s history %d phase %d value %s: inserted less than ttl ago in an earlier phase, yet %d of %d submissions were told new", c.Name, h, p, valName(v), news, sub), witness())
							} else {
								ctlPresentNoNew++
							}
						}
					}
				}
				// overlap histogram (ops of the same phase whose tick intervals intersect)
				var sigb strings.Builder
				for i := range ops {
					n := 0
					for j := range ops {
						if i != j && ops[i].Phase == ops[j].Phase && ops[i].Call <= ops[j].Ret && ops[j].Call <= ops[i].Ret {
							n++
						}
					}
					switch {
					case n == 0:
						ovl[0]++
					case n == 1:
						ovl[1]++
					case n <= 3:
						ovl[2]++
					case n <= 7:
						ovl[3]++
					default:
						ovl[4]++
					}
				}
				// interleaving signature: order of call/return events with client, value, answer
				type ev struct {
					tick int64
					s    string
				}
				evs := make([]ev, 0, 2*len(ops))
				for _, o := range ops {
					evs = append(evs, ev{o.Call, fmt.Sprintf("c%d%s", o.Client, o.Value)}, ev{o.Ret, fmt.Sprintf("r%d%v", o.Client, o.Seen)})
				}
				sort.Slice(evs, func(i, j int) bool { return evs[i].tick < evs[j].tick })
				for _, e := range evs {
					sigb.WriteString(e.s)
				}
				fmt.Fprintf(&sigb, "|%d|%v", ttl, nows)
				r.Distinct("interleavings", sigb.String())
				r.Distinct("nontrivial", sigb.String())
				// porcupine
				pops := make([]porcupine.Operation, len(ops))
				for i, o := range ops {
					pops[i] = porcupine.Operation{ClientId: o.Client, Input: cIn{o.v, o.NowNs}, Call: o.Call, Output: o.Seen, Return: o.Ret}
				}
				res, _ := porcupine.CheckOperationsVerbose(tasModel(ttl), pops, 120*time.Second)
				switch res {
				case porcupine.Ok:
					nOK++
				case porcupine.Illegal:
					nIllegal++
					c.Violation("concurrent/not-linearizable", fmt.Sprintf("%s history %d: no linearisation of the recorded history is a legal test-and-set sequence", c.Name, h), witness())
				default:
					nUnknown++
					r.Inconclusive(fmt.Sprintf("%s history %d: porcupine gave up (timeout)", c.Name, h))
				}
				if b == 0 && h == 0 {
					r.Sample(map[string]any{"kind": "concurrent history", "witness": witness()})
				}
			}
			r.Count("evaluations", nOps)
			r.Count("concurrent_ops", nOps)
			r.Count("concurrent_histories", nHist)
			r.Count("porcupine_ok", nOK)
			r.Count("porcupine_illegal", nIllegal)
			r.Count("porcupine_unknown", nUnknown)
			r.Count("overlap_with_0_ops", ovl[0])
			r.Count("overlap_with_1_op", ovl[1])
			r.Count("overlap_with_2_3_ops", ovl[2])
			r.Count("overlap_with_4_7_ops", ovl[3])
			r.Count("overlap_with_8plus_ops", ovl[4])
			r.Count("concurrent_same_value_groups_overlapping", sameValOverlap)
			r.Count("control_concurrent_exactly_one_new", ctlOneNew)
			r.Count("control_concurrent_exactly_one_new_overlapping", ctlOneNewOverlap)
			r.Count("control_concurrent_expired_new_exactly_once", ctlExpiredOnce)
			r.Count("control_concurrent_remembered_all_seen", ctlPresentNoNew)
		})
	}
}

// ---------------------------------------------------------------------------
// self-test of the reference model against hand-computed expectations
// ---------------------------------------------------------------------------

// modelSelfTest returns "" if the model gives the hand-computed verdicts.
func modelSelfTest() string {
	type st struct {
		v    int
		now  int64
		want string // "new", "seen", "either"
		obs  bool   // the answer fed back
	}
	hist := [][]st{
		{{0, 0, "new", false}, {0, 0, "seen", true}, {0, 9, "seen", true}, {0, 10, "new", false}, {0, 19, "seen", true}, {0, 20, "new", false}},
		{{0, 0, "new", false}, {1, 5, "new", false}, {0, 10, "new", false}, {1, 14, "seen", true}, {1, 15, "new", false}},
		{{0, 100, "new", false}, {1, 105, "new", false}, {0, 99, "new", false}, {1, 99, "new", false}, {1, 99, "seen", true}, {0, 100, "seen", true}},
		{{0, 100, "new", false}, {1, 105, "new", false}, {0, 103, "either", true}, {2, 103, "new", false}, {2, 103, "seen", true},
			{2, 104, "either", true}, {0, 115, "new", false}, {2, 115, "new", false}, {0, 124, "seen", true}, {0, 125, "new", false}},
		{{0, 100, "new", false}, {1, 105, "new", false}, {1, 100, "either", false}, {0, 99, "new", false}, {1, 99, "new", false}},
	}
	var m refModel
	for hi, h := range hist {
		m.reset(10)
		for i, s := range h {
			vd := m.step(s.now, s.v)
			got := "either"
			if !vd.allowSeen {
				got = "new"
			} else if !vd.allowNew {
				got = "seen"
			}
			if got != s.want {
				return fmt.Sprintf("history %d op %d: model admits %q, hand computation says %q", hi, i, got, s.want)
			}
			m.observe(s.now, s.v, s.obs)
		}
	}
	// capacity readings with a capacity of 3
	for _, eager := range []bool{true, false} {
		cm := capModel{eager: eager, ttl: 100, cap: 3}
		var got []bool
		for i, v := range []int{0, 1, 2, 3, 0, 3, 2} {
			s, _ := cm.step(int64(i), v)
			got = append(got, s)
		}
		// 0 1 2 fill; 3 evicts 0; 0 is new again (evicts 1); 3 is held: eager evicts 2 first, lazy does not; 2: eager new, lazy seen
		want := []bool{false, false, false, false, false, true, !eager}
		if fmt.Sprint(got) != fmt.Sprint(want) {
			return fmt.Sprintf("capacity model eager=%v: got %v want %v", eager, got, want)
		}
	}
	return ""
}

func TestModelSelf(t *testing.T) {
	if s := modelSelfTest(); s != "" {
		t.Fatal(s)
	}
}

// ---------------------------------------------------------------------------

func TestCheck(t *testing.T) {
	r := mon.Start(t, "C11")
	defer r.Finish()
	L := r.Pick(6, 7)
	r.Note("rule", "Real filter in lockstep with reference models written from the property. (1) exh/: every history of exactly L ops (so every shorter one as a prefix) over values {a,b,c} x time steps {-2ttl,-1ns,0,+1ns,ttl-1ns,ttl,ttl+1ns} relative to the previous now, one representative per renaming of the values (values are random strings under a random SipHash key, labels carry no meaning) and the first op at step 0 (a fresh filter has no previous clock); each history on a fresh replayfilter.New(ttl); ttl in {10s, 3h, 0}. (2) prng/: histories of 10000 ops over a pool of 3..42 values plus fresh ones, steps: small forward, zero, +-1ns around the expiry instant of a random live entry, ttl-1/ttl/ttl+1, +2ttl, and with a per-history probability of 0, 0.5, 3 or 15 percent a backwards step (small, -2ttl, or onto/just below the timestamp of a live entry); ttl in {10s,3h,3ns,1us,0}. (3) cap/: scripted monotone histories that overflow 102400 by k, probe the oldest k, long-evicted, middle, newest and frontier values, with expiry interleaved, a step below the oldest entry on a full filter, and a random walk around the capacity. (4) conc/: 2..16 goroutines x 2..6 ops on 1..3 values in barrier-separated phases with one now per phase (increasing; the last phase >= ttl after all others), logical call/return ticks from one atomic counter, porcupine against a per-value test-and-set model with expiry, plus the direct count 'exactly one new per phase and not-remembered value'. (5) now/: TestAndSetNow (the filter reads the clock itself, under its lock) against TestAndSet(time.Now(), .) on a twin filter over PRNG histories in virtual time incl. the instants ttl-1ns/ttl/ttl+1ns after an insertion, and on the real clock 2..16 goroutines x 2..31 fresh values at once (exactly one 'new' per value, everything 'seen' afterwards). "+
		"Judged: clean mode (clock monotone for everything that can be held, model never evicted) answers exactly, where 'inserted' is the TestAndSet that was answered new (a 'seen' answer does not renew an entry). From a backwards step that stays at or above the oldest entry the history is tainted until now < every t that can be held (everything discarded) or now >= newest such t + ttl (everything expired): while tainted every value that can still be held, including values stored meanwhile, admits either answer (the property promises 'exactly' only for a monotone clock; keeping everything and discarding everything are both valid, and a filter that compacts from the front only may keep entries behind a younger front beyond their ttl); still judged while tainted: never-inserted and certainly-forgotten values are new, a replay at the very same now is seen. ttl=0: the property speaks of values 'inserted less than the time-to-live ago', which is nobody for 0 (the code indeed forgets everything on every call), while 'never expire' would be another reading, so only the structure invariants and 'never seen for a never submitted value' are judged and the observed answers are only counted (ttl0_answers_*). At capacity two readings (room is made before every lookup / only before storing a new value) run side by side and an answer is judged only where they agree; which one the code follows is only counted. On every history: size <= 102400, map<->fifo bijection, no 'seen' for never submitted values, everything forgotten after a step below the oldest entry. Exact size equality with the model is counted, not judged. "+
		"A history is non-trivial when some op is not a first insert; distinct = distinct sequence of (global event, oracle class) per op in exh/, distinct history in prng/ and cap/, distinct interleaving (order of call/return events with answers) in conc/. A violation is re-run with fresh random strings on a fresh filter before it is reported (SipHash collisions).")
	r.Note("exhaustive_part", fmt.Sprintf("exh/: all histories of length <= %d (enumerated as all of length exactly %d; shorter ones are their prefixes) over 3 values x 7 time steps, up to renaming of values and with the first op at step 0: %d value patterns x 7^%d step sequences = %d histories per ttl, for ttl 10s and 3h; ttl=0 (reduced judgement) up to length %d. Without the two symmetries this is the 21^%d space of the design.", L, L, rgsCount(L), L-1, int64(rgsCount(L))*pow(7, L-1), min(L, 6), L))

	r.Case("selftest/model", func(c *mon.Case) {
		if s := modelSelfTest(); s != "" {
			r.Inconclusive("reference model self-test failed: " + s)
			return
		}
		r.Count("model_selftest_ok", 1)
	})
	exhaustive(r, L)
	prngHistories(r)
	capacity(r)
	concurrency(r)
	nowFamily(r)
}

func pow(b int64, e int) int64 {
	x := int64(1)
	for i := 0; i < e; i++ {
		x *= b
	}
	return x
}

// rgsCount: number of value patterns of length n over <= 3 values up to renaming.
func rgsCount(n int) int {
	var rec func(d, maxV int) int
	rec = func(d, maxV int) int {
		if d == n {
			return 1
		}
		s := 0
		for v := 0; v <= maxV+1 && v <= 2; v++ {
			nm := maxV
			if v > maxV {
				nm = v
			}
			s += rec(d+1, nm)
		}
		return s
	}
	return rec(0, -1)
}
