//go:build !verif_replayfilter

package c11

import "gitlab.com/yawning/obfs4.git/common/replayfilter"

// structCheck without the hook: the structure cannot be inspected; the checks
// that judge answers only still run.
func structCheck(f *replayfilter.ReplayFilter) (mapLen, fifoLen int, bij, mono, hooked bool) {
	return 0, 0, true, true, false
}

func maxSizeHook() (int, bool) { return 0, false }
