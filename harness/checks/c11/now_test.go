package c11

// TestAndSetNow (the entry point the obfs4 server uses: the filter reads the
// clock itself, under its lock) against TestAndSet with the caller's clock.
//
//   - virtual time: the same PRNG history is applied to two fresh filters, one
//     through TestAndSetNow, one through TestAndSet(time.Now(), .); every answer
//     must be equal (the answers do not depend on the filters' random SipHash
//     keys, barring collisions, which the re-run handles); steps include the
//     instants ttl-1ns / ttl / ttl+1ns after an insertion.
//   - real clock, several cores: groups of goroutines present the same fresh
//     value at once through TestAndSetNow: exactly one is told "new", and
//     afterwards every value of every group is "seen" (the clock the filter
//     reads is monotone, so nothing may have been discarded).

import (
	"fmt"
	"sync"
	"sync/atomic"
	"time"

	"gitlab.com/yawning/obfs4.git/common/replayfilter"

	"verif/mon"
)

func nowFamily(r *mon.Run) {
	nH := r.Pick(40, 600)
	for hi := 0; hi < nH; hi++ {
		hi := hi
		r.Bubble(fmt.Sprintf("now/hist/%04d", hi), func(c *mon.Case) {
			rng := mon.NewRand(r.Sub("nowhist", hi))
			ttl := []time.Duration{10 * time.Second, 3 * time.Hour, 3 * time.Nanosecond, time.Microsecond}[rng.IntN(4)]
			run := func() (string, bool) {
				f1, err1 := replayfilter.New(ttl)
				f2, err2 := replayfilter.New(ttl)
				if err1 != nil || err2 != nil {
					return "replayfilter.New failed", false
				}
				pool := make([][]byte, 3+rng.IntN(8))
				for i := range pool {
					pool[i] = make([]byte, 16)
					for j := range pool[i] {
						pool[i][j] = byte(rng.Uint32())
					}
				}
				var lastInsert time.Time
				hist := ""
				for k := 0; k < 400; k++ {
					switch rng.IntN(8) {
					case 0:
						time.Sleep(time.Duration(rng.IntN(1000)) * time.Nanosecond)
					case 1:
						time.Sleep(ttl / 2)
					case 2, 3:
						// land on ttl-1ns, ttl or ttl+1ns after the last insertion
						if !lastInsert.IsZero() {
							if d := lastInsert.Add(ttl).Add(time.Duration(rng.IntN(3)-1) * time.Nanosecond).Sub(time.Now()); d > 0 {
								time.Sleep(d)
								r.Count("now_steps_to_expiry_instant", 1)
							}
						}
					case 4:
						time.Sleep(2 * ttl)
					}
					v := pool[rng.IntN(len(pool))]
					a1 := f1.TestAndSetNow(v)
					a2 := f2.TestAndSet(time.Now(), v)
					r.Count("evaluations", 1)
					r.Count("now_ops", 1)
					hist += fmt.Sprintf("%v", map[bool]string{true: "s", false: "n"}[a1])
					if !a1 {
						lastInsert = time.Now()
					}
					if a1 != a2 {
						return fmt.Sprintf("op %d at virtual %v: TestAndSetNow = %v, TestAndSet(time.Now()) = %v on a twin filter with the same history (ttl %v; answers so far %s)", k, time.Now().UnixNano(), a1, a2, ttl, hist), false
					}
					if a1 {
						r.Count("control_now_replay_seen", 1)
					}
				}
				r.Distinct("nontrivial", "now:"+hist)
				return "", true
			}
			if msg, ok := run(); !ok {
				// re-run once (fresh keys and values) before reporting: SipHash collisions
				if msg2, ok2 := run(); !ok2 {
					c.Violation("now/differs-from-TestAndSet", msg+" | second run: "+msg2, nil)
				}
			}
			r.Count("now_histories", 1)
		})
	}
	nC := r.Pick(40, 400)
	for ci := 0; ci < nC; ci++ {
		ci := ci
		r.Case(fmt.Sprintf("now/conc/%04d", ci), func(c *mon.Case) {
			rng := mon.NewRand(r.Sub("nowconc", ci))
			f, err := replayfilter.New(3 * time.Hour)
			if err != nil {
				c.Violation("now/new-failed", err.Error(), nil)
				return
			}
			groups := 2 + rng.IntN(30)
			vals := make([][]byte, groups)
			for g := range vals {
				vals[g] = make([]byte, 16)
				for j := range vals[g] {
					vals[g][j] = byte(rng.Uint32())
				}
			}
			k := 2 + rng.IntN(15)
			news := make([]atomic.Int64, groups)
			var wg sync.WaitGroup
			var gate sync.WaitGroup
			gate.Add(1)
			for g := 0; g < groups; g++ {
				for i := 0; i < k; i++ {
					g := g
					wg.Add(1)
					go func() {
						defer wg.Done()
						gate.Wait()
						if !f.TestAndSetNow(vals[g]) {
							news[g].Add(1)
						}
					}()
				}
			}
			gate.Done()
			wg.Wait()
			r.Count("evaluations", int64(groups*k))
			r.Count("now_concurrent_calls", int64(groups*k))
			for g := 0; g < groups; g++ {
				if n := news[g].Load(); n != 1 {
					c.Violation(fmt.Sprintf("now/concurrent/told-new-%d-times", min(int(n), 2)), fmt.Sprintf("%d goroutines presented one fresh value through TestAndSetNow at once (%d values in parallel): %d were told 'new'", k, groups, n), nil)
				} else {
					r.Count("control_now_concurrent_exactly_one_new", 1)
				}
			}
			for g := 0; g < groups; g++ {
				if !f.TestAndSetNow(vals[g]) {
					c.Violation("now/concurrent/forgotten-after-parallel-inserts", fmt.Sprintf("a value inserted a moment ago (one of %d values x %d parallel calls, ttl 3h, real monotone clock) is answered 'new' again", groups, k), nil)
					break
				}
			}
			r.Count("now_concurrent_groups", int64(groups))
			r.Distinct("nontrivial", fmt.Sprintf("nowconc:%d:%d:%d", ci, groups, k))
		})
	}
}
