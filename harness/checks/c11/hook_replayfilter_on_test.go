//go:build verif_replayfilter

package c11

import "gitlab.com/yawning/obfs4.git/common/replayfilter"

// structCheck walks the filter's structure under its own lock (hook VerifCheck,
// build tags verif && verif_replayfilter).
func structCheck(f *replayfilter.ReplayFilter) (mapLen, fifoLen int, bij, mono, hooked bool) {
	mapLen, fifoLen, bij, mono = f.VerifCheck()
	return mapLen, fifoLen, bij, mono, true
}

func maxSizeHook() (int, bool) { return replayfilter.VerifMaxSize, true }
