// C01 — obfs4 delivers the exact byte stream, both ways, under any segmentation.
//
// Two real endpoints (obtained through the public transports API) talk over a
// memwire pair inside a synctest bubble.  Each endpoint has one reader and one
// writer goroutine running concurrently.  Stream content is position
// dependent, so the readers check every returned slice against its own offset
// online; at quiescence (all writers returned, every goroutine durably
// blocked) delivered must equal written in both directions without any
// further traffic.
package c01

import (
	"encoding/hex"
	"errors"
	"flag"
	"fmt"
	"io"
	"net"
	"sort"
	"strings"
	"sync"
	"syscall"
	"testing"
	"testing/synctest"
	"time"

	"gitlab.com/yawning/obfs4.git/common/drbg"

	"verif/memwire"
	"verif/mon"
	"verif/o4"
)

var errBudget = errors.New("verif: write budget exceeded")

type policySpec struct {
	name string
	mk   func(seed uint64) memwire.ChunkPolicy
	win  int
}

var policies = []policySpec{
	{"all", func(uint64) memwire.ChunkPolicy { return memwire.All() }, 0},
	{"1", func(uint64) memwire.ChunkPolicy { return memwire.Fixed(1) }, 0},
	{"2", func(uint64) memwire.ChunkPolicy { return memwire.Fixed(2) }, 0},
	{"7", func(uint64) memwire.ChunkPolicy { return memwire.Fixed(7) }, 0},
	{"21", func(uint64) memwire.ChunkPolicy { return memwire.Fixed(21) }, 0},
	{"45", func(uint64) memwire.ChunkPolicy { return memwire.Fixed(45) }, 0},
	{"1447", func(uint64) memwire.ChunkPolicy { return memwire.Fixed(1447) }, 0},
	{"1448", func(uint64) memwire.ChunkPolicy { return memwire.Fixed(1448) }, 0},
	{"1449", func(uint64) memwire.ChunkPolicy { return memwire.Fixed(1449) }, 0},
	{"prng64", func(s uint64) memwire.ChunkPolicy { return memwire.PRNG(s, 64) }, 0},
	{"prng3000", func(s uint64) memwire.ChunkPolicy { return memwire.PRNG(s, 3000) }, 0},
	{"win4096", func(uint64) memwire.ChunkPolicy { return memwire.All() }, 4096},
	{"allbutlast", func(uint64) memwire.ChunkPolicy { return memwire.AllButLast() }, 0},
}

// searched DRBG seeds whose burst-length table is single-valued (re-verified
// at run time with the VerifTables hook; a seed whose shape no longer holds is
// skipped and counted).  With the table {v} an application write whose frames
// end on v modulo 1448 gets no padding at all, so the burst ends exactly at
// the end of its last data frame: {22} makes a 1-byte write a bare 22-byte
// frame, the smallest thing that can be in flight.
var shapedSeeds = map[string]struct {
	seed  string
	value int
	sizes []int // application write sizes whose burst carries no padding
}{
	"single-22":   {"6f626673342d633031632d736565642d000000000001e32e", 22, []int{1, 1428, 2855}},
	"single-210":  {"654068c41ae6dc325786a4ba2a8de6c6ee10aa7889913ee1", 210, []int{189, 1616}},
	"single-1365": {"20ba34488cab1a4b088098605e972d43348c1dc9a15078f5", 1365, []int{1344, 2771}},
}

var sizeMenu = []int{0, 1, 2, 1426, 1427, 1428, 2853, 2854, 2855, 4096, 8192, 23168, 65536}

const (
	scClientFirst = iota
	scServerFirstCoalesced
	scBothAtOnce
	scIdleGaps
	scLockstep // one write (or one per side) at a time, no-stall checked at quiescence after every step
	nScenarios
)

var scenarioNames = []string{"client-first", "server-first-coalesced", "both-at-once", "idle-gaps", "lockstep"}

type dirStats struct {
	panicked  bool
	written   int64
	delivered int64
	readErr   error
	writeErr  error
	mismatch  int64 // offset of first wrong byte, -1 if none
}

type params struct {
	iat      int
	biased   bool
	scenario int
	polC2S   int // policy index for the client->server direction (what the server reads)
	polS2C   int
	seed     uint64
	shape    string // key of shapedSeeds, or ""
	big      int    // > 0: both sides' scripts contain single large writes from bigMenu
}

// bigMenu: single application writes well beyond any internal buffer size
// (io.Copy's 32 KiB, 64 KiB), deliberately not multiples of them or of a frame.
var bigMenu = []int{32767, 32769, 40000, 65535, 65537, 98305, 100001, 131073, 200003}

func (p params) String() string {
	sh := ""
	if p.shape != "" {
		sh = " table=" + p.shape
	}
	if p.big > 0 {
		sh += fmt.Sprintf(" big=%d", p.big)
	}
	return fmt.Sprintf("iat=%d biased=%v scenario=%s c2s=%s s2c=%s seed=%x%s", p.iat, p.biased, scenarioNames[p.scenario], policies[p.polC2S].name, policies[p.polS2C].name, p.seed, sh)
}

func script(rng interface {
	IntN(int) int
}, n int, maxTotal int) []int {
	var out []int
	total := 0
	for i := 0; i < n; i++ {
		var sz int
		if rng.IntN(3) == 0 {
			sz = rng.IntN(3000)
		} else {
			sz = sizeMenu[rng.IntN(len(sizeMenu))]
		}
		if total+sz > maxTotal {
			sz = rng.IntN(64)
		}
		total += sz
		out = append(out, sz)
	}
	return out
}

func runConn(c *mon.Case, r *mon.Run, dir string, p params) {
	rng := mon.NewRand(p.seed)
	if err := flag.Set("obfs4-distBias", fmt.Sprint(p.biased)); err != nil {
		c.T.Fatal(err)
	}
	b := o4.NewBridge(rng, p.iat)
	if p.shape != "" {
		sh := shapedSeeds[p.shape]
		raw, _ := hex.DecodeString(sh.seed)
		copy(b.Seed[:], raw)
		ds, _ := drbg.SeedFromBytes(b.Seed[:])
		vals, hooked := tableValues(ds, p.biased)
		if !hooked {
			r.Count("shaped_seed_unverifiable_without_the_probdist_hook", 1)
			return
		}
		if len(vals) != 1 || vals[0] != sh.value {
			r.Count("shaped_seed_skipped_"+p.shape, 1)
			return
		}
		r.Count("shaped_seed_connections_"+p.shape, 1)
	}
	sf, err := o4.ServerFactory(dir, b)
	if err != nil {
		c.Violation("setup/server-factory", err.Error(), p.String())
		return
	}
	cw, sw := memwire.Pair(memwire.Options{})
	// cw.Out() is the client->server half (the server reads it); sw.Out() is server->client.
	c2s, s2c := cw.Out(), sw.Out()
	c2s.SetPolicy(policies[p.polC2S].mk(p.seed ^ 1))
	s2c.SetPolicy(policies[p.polS2C].mk(p.seed ^ 2))
	if w := policies[p.polC2S].win; w > 0 {
		c2s.SetWindow(w)
	}
	if w := policies[p.polS2C].win; w > 0 && p.scenario != scServerFirstCoalesced {
		s2c.SetWindow(w) // (in the coalesced scenario the window is applied when the pause is lifted)
	}

	nW := 2 + rng.IntN(6)
	maxTotal := 40000
	for _, pi := range []int{p.polC2S, p.polS2C} {
		if n := policies[pi].name; n == "1" || n == "2" {
			maxTotal = 6000 // byte-at-a-time is expensive through frames+padding
		}
	}
	cScript, sScript := script(rng, nW, maxTotal), script(rng, nW, maxTotal)
	if p.shape != "" {
		// mostly writes whose burst gets no padding under this table
		sh := shapedSeeds[p.shape]
		for _, sc := range [][]int{cScript, sScript} {
			for i := range sc {
				if rng.IntN(4) != 0 {
					sc[i] = sh.sizes[rng.IntN(len(sh.sizes))]
					if rng.IntN(2) == 0 {
						sc[i] = sh.sizes[0]
					}
				}
			}
		}
	}
	if p.big > 0 {
		b := bigMenu[(p.big-1)%len(bigMenu)]
		b2 := bigMenu[(p.big+3)%len(bigMenu)]
		cScript, sScript = []int{rng.IntN(200), b, 1 + rng.IntN(3000), b2, 17}, []int{b, 1 + rng.IntN(200), b2, 3000, 1}
		nW = 5
		r.Count("big_write_connections", 1)
	}
	gaps := func() []time.Duration {
		g := make([]time.Duration, nW)
		for i := range g {
			switch p.scenario {
			case scIdleGaps:
				g[i] = time.Duration(rng.IntN(10)) * time.Minute
			default:
				g[i] = time.Duration(rng.IntN(5000)) * time.Microsecond
			}
		}
		return g
	}
	cGaps, sGaps := gaps(), gaps()
	cStream, sStream := mon.Stream{Key: p.seed ^ 0xc}, mon.Stream{Key: p.seed ^ 0x5}
	var up, down dirStats // up: client->server, down: server->client
	up.mismatch, down.mismatch = -1, -1
	var mu sync.Mutex
	var wg sync.WaitGroup

	// writeOne performs one application write and accounts for it.
	writeOne := func(conn net.Conn, half *memwire.Half, st mon.Stream, sz int, ds *dirStats) bool {
		mu.Lock()
		off := ds.written
		mu.Unlock()
		defer func() {
			if e := recover(); e != nil {
				mu.Lock()
				ds.panicked = true
				mu.Unlock()
				panic(e) // recorded by Case.Go
			}
		}()
		// Bounded progress instead of "eventually": one application Write may
		// put at most budget bytes on the wire; beyond that the wire fails the
		// write and the call is reported as not terminating.
		budget := int64(4<<20) + 64*int64(sz)
		half.SetWriteFault(half.Written()+budget, errBudget)
		n, err := conn.Write(st.Bytes(off, sz))
		half.SetWriteFault(-1, nil)
		if errors.Is(err, errBudget) {
			mu.Lock()
			ds.panicked = true // stop judging this connection: the finding is the non-termination
			mu.Unlock()
			w, _, _ := half.Snapshot()
			tail := w
			if len(tail) > 12 {
				tail = tail[len(tail)-12:]
			}
			var sizes []int
			for _, e := range tail {
				sizes = append(sizes, e.N)
			}
			c.Violation(fmt.Sprintf("nonterminating-write/iat-mode-%d", p.iat), fmt.Sprintf("one Write of %d bytes had put more than %d bytes on the wire in %d wire writes and was still going (last wire write sizes %v); %s", sz, budget, len(w), sizes, p), p.String())
			return false
		}
		mu.Lock()
		ds.written = off + int64(n)
		if err == nil && n != sz {
			err = fmt.Errorf("short write %d of %d without error", n, sz)
		}
		if err != nil {
			ds.writeErr = err
		}
		mu.Unlock()
		return err == nil
	}
	writer := func(conn net.Conn, half *memwire.Half, st mon.Stream, sizes []int, gaps []time.Duration, ds *dirStats) {
		for i, sz := range sizes {
			time.Sleep(gaps[i])
			if !writeOne(conn, half, st, sz, ds) {
				return
			}
		}
	}
	// readers that poll: a read deadline before every Read, an expired deadline
	// means "nothing yet" (from the start on every fifth connection, from the
	// end of the scripted traffic on every third)
	poll := &mon.Poller{Interval: time.Duration(20+rng.IntN(60)) * time.Millisecond}
	reader := func(conn net.Conn, st mon.Stream, ds *dirStats, bufSeed uint64) {
		brng := mon.NewRand(bufSeed)
		var off int64
		for {
			buf := make([]byte, 1+brng.IntN(20000))
			n, err := poll.Read(conn, buf)
			mu.Lock()
			if n > 0 {
				if i := st.Check(buf[:n], off); i >= 0 && ds.mismatch < 0 {
					ds.mismatch = off + int64(i)
				}
				off += int64(n)
				ds.delivered = off
			}
			if err != nil {
				ds.readErr = err
			}
			mu.Unlock()
			if err != nil {
				return
			}
		}
	}
	finish := func() {
		cw.Close()
		sw.Close()
		wg.Wait()
	}
	// judge compares the two directions at a quiescent point.
	judge := func(where string) bool {
		mu.Lock()
		u, d := up, down
		mu.Unlock()
		if u.panicked || d.panicked {
			return false // the panic itself is the finding; everything after it is fallout
		}
		ok := true
		one := func(name string, ds dirStats, h *memwire.Half) {
			if ds.writeErr != nil {
				c.Violation("write-error/"+name, fmt.Sprintf("Write failed on a healthy connection: %v; %s", ds.writeErr, p), p.String())
				ok = false
				return
			}
			if ds.mismatch >= 0 {
				c.Violation("stream-mismatch/"+name, fmt.Sprintf("byte at offset %d delivered to the reader is not the byte the peer wrote there; %s", ds.mismatch, p), p.String())
				ok = false
			}
			if ds.readErr != nil {
				c.Violation("read-error/"+name, fmt.Sprintf("Read failed on a healthy connection: %v; %s", ds.readErr, p), p.String())
				ok = false
			}
			if ds.delivered < ds.written {
				c.Violation("stall/"+name+"/"+where, fmt.Sprintf("quiescent (%s) with %d of %d bytes delivered, %d bytes pending on the wire: the rest only becomes readable with further traffic; %s",
					where, ds.delivered, ds.written, h.Pending(), p), p.String())
				ok = false
			} else if ds.delivered > ds.written {
				c.Violation("stream-excess/"+name, fmt.Sprintf("%d bytes delivered but only %d written; %s", ds.delivered, ds.written, p), p.String())
				ok = false
			}
		}
		one("up", u, c2s)
		one("down", d, s2c)
		r.Count("quiescent_points_judged", 1)
		return ok
	}

	if p.scenario == scServerFirstCoalesced {
		s2c.Pause(true) // the client sees nothing until the server has also written payload
		if sScript[0] == 0 {
			sScript[0] = 12
		}
		sGaps[1] += time.Second // so that the system is quiescent after the first server write
	}

	var sc net.Conn
	var sErr error
	srvReady := make(chan struct{})
	wg.Add(1)
	c.Go(wg.Done, func() {
		defer close(srvReady)
		sc, sErr = sf.WrapConn(sw)
		if sErr != nil {
			return
		}
		if p.scenario == scServerFirstCoalesced {
			// first payload write immediately; only then may the client see
			// handshake response + seed frame + payload, coalesced
			writeOne(sc, s2c, sStream, sScript[0], &down)
			if w := policies[p.polS2C].win; w > 0 {
				s2c.SetWindow(w)
			}
			s2c.Pause(false)
		}
	})

	cc, cErr := o4.DialReal(cw, b.ClientArgsCert())
	<-srvReady
	if cErr != nil || sErr != nil {
		mu.Lock()
		pk := down.panicked
		mu.Unlock()
		if !pk {
			c.Violation("handshake/failed", fmt.Sprintf("genuine pair: Dial err=%v WrapConn err=%v; %s", cErr, sErr, p), p.String())
		}
		finish()
		return
	}
	if p.seed%5 == 1 {
		poll.Start()
		r.Count("connections_read_by_polling_from_the_start", 1)
	}
	defer func() { r.Count("read_deadlines_expired_and_renewed", poll.Timeouts()) }()
	wg.Add(2)
	c.Go(wg.Done, func() { reader(sc, cStream, &up, p.seed^0x71) })
	c.Go(wg.Done, func() { reader(cc, sStream, &down, p.seed^0x72) })

	switch p.scenario {
	case scLockstep:
		steps := 3 + rng.IntN(8)
		for st := 0; st < steps; st++ {
			which := rng.IntN(3) // 0 client, 1 server, 2 both
			var sw2 sync.WaitGroup
			if which != 1 {
				sz := cScript[st%len(cScript)]
				sw2.Add(1)
				c.Go(sw2.Done, func() { writeOne(cc, c2s, cStream, sz, &up) })
			}
			if which != 0 {
				sz := sScript[st%len(sScript)]
				sw2.Add(1)
				c.Go(sw2.Done, func() { writeOne(sc, s2c, sStream, sz, &down) })
			}
			sw2.Wait()
			synctest.Wait()
			if !judge(fmt.Sprintf("lockstep-step")) {
				break
			}
			r.Count("lockstep_steps", 1)
		}
	default:
		first := 0
		if p.scenario == scServerFirstCoalesced {
			r.Count("coalesced_handshake_payload", 1)
			synctest.Wait()
			_, rd, _ := s2c.Snapshot()
			if len(rd) > 0 {
				r.Max("first_client_read_bytes", int64(rd[0].N))
			}
			if !judge("after-handshake-coalesced-with-payload") {
				finish()
				return
			}
			first = 1
		}
		if p.scenario == scClientFirst {
			sGaps[0] += 20 * time.Millisecond
		}
		var writers sync.WaitGroup
		writers.Add(2)
		c.Go(writers.Done, func() { writer(sc, s2c, sStream, sScript[first:], sGaps[first:], &down) })
		c.Go(writers.Done, func() { writer(cc, c2s, cStream, cScript, cGaps, &up) })
		writers.Wait()
		synctest.Wait() // every goroutine is durably blocked: nothing more will happen without new traffic
		ok := judge("end")
		if ok && (p.seed%3 == 0 || poll.On()) {
			// polling phase: the readers go on by polling, and bursts arrive in two
			// parts with a pause between them that outlasts several deadlines — the
			// first part ends anywhere, inside a frame header included
			poll.Start(sc, cc)
			synctest.Wait()
			if p.seed%4 >= 2 {
				// bytes that arrive as the deadline expires: the wire hands them over
				// together with the timeout error, as io.Reader allows
				c2s.SetTimeoutWithData(true)
				s2c.SetTimeoutWithData(true)
				r.Count("polling_phases_with_bytes_and_timeout_in_one_read", 1)
			}
			for round := 0; round < 4 && ok; round++ {
				wconn, st, ds, half := cc, cStream, &up, c2s
				if (int(p.seed>>3)+round)&1 != 0 {
					wconn, st, ds, half = sc, sStream, &down, s2c
				}
				t0 := poll.Timeouts()
				half.SetCut(half.Written()+int64(1+rng.IntN(60)), memwire.CutSilence)
				var w sync.WaitGroup
				w.Add(1)
				sz := 1 + rng.IntN(2500)
				c.Go(w.Done, func() { writeOne(wconn, half, st, sz, ds) })
				time.Sleep(time.Duration(150+rng.IntN(400)) * time.Millisecond)
				half.SetCut(-1, memwire.CutSilence)
				w.Wait()
				time.Sleep(200 * time.Millisecond) // (bytes held till a deadline are through after one polling interval)
				synctest.Wait()
				if poll.Timeouts() > t0 {
					r.Count("bursts_delivered_across_expired_read_deadlines", 1)
				}
				ok = judge("polling-reader")
			}
			if ok {
				r.Count("polling_phases_verified", 1)
			}
		}
		if ok {
			// closing phase: one side writes a last piece and its connection ends (a
			// half-close on the wire) while that piece is still in flight, so that
			// the reader's last network read brings the end of the stream right
			// behind the last frames or — as an io.Reader may — together with them.
			// Everything written must be delivered before Read reports the end.
			wconn, st, ds, half, name := cc, cStream, &up, c2s, "up"
			if p.seed&1 != 0 {
				wconn, st, ds, half, name = sc, sStream, &down, s2c, "down"
			}
			withData := p.seed&2 != 0
			reset := p.seed%7 >= 5 // the end is a reset that arrives together with the last data
			if reset {
				withData = true
			}
			half.Pause(true)
			writeOne(wconn, half, st, 1+rng.IntN(500), ds) // (one burst stays below the smallest wire window: the wire is held)
			half.SetErrWithData(withData)
			if reset {
				half.SetCut(half.Written(), memwire.CutRST)
				r.Count("closing_phases_reset_with_last_data", 1)
			} else {
				half.CloseWrite()
			}
			half.Pause(false)
			if poll.On() {
				time.Sleep(200 * time.Millisecond) // (see the polling phase)
			}
			synctest.Wait()
			mu.Lock()
			e := *ds
			mu.Unlock()
			if reset && e.delivered < e.written && e.readErr != nil {
				// what arrives with a reset may be dropped; it may not be altered
				e.delivered = e.written
			}
			r.Count("closing_phases", 1)
			if withData {
				r.Count("closing_phases_end_reported_with_last_data", 1)
			}
			switch {
			case e.panicked:
			case e.mismatch >= 0:
				c.Violation("stream-mismatch/"+name+"/last-bytes-before-the-end", fmt.Sprintf("byte at offset %d delivered to the reader is not the byte the peer wrote there (the connection ended right behind the last burst; end reported together with data: %v); %s", e.mismatch, withData, p), p.String())
			case e.readErr == nil:
				c.Violation("end-not-reported/"+name, fmt.Sprintf("the peer's connection ended after %d bytes but Read has not reported it at quiescence (%d delivered); %s", e.written, e.delivered, p), p.String())
			case e.delivered != e.written:
				c.Violation("lost-at-end/"+name, fmt.Sprintf("%d bytes were written before the connection ended, Read reported the end (%v) after delivering %d (end reported together with data: %v); %s", e.written, e.readErr, e.delivered, withData, p), p.String())
			default:
				r.Count("closing_phases_all_delivered_before_the_end", 1)
			}
		}
	}

	// evidence
	mu.Lock()
	u, d := up, down
	mu.Unlock()
	r.Count("evaluations", 1)
	r.Count("connections", 1)
	r.Count("app_bytes_up", u.delivered)
	r.Count("app_bytes_down", d.delivered)
	wu, ru, _ := c2s.Snapshot()
	wd, rd, _ := s2c.Snapshot()
	r.Count("wire_writes", int64(len(wu)+len(wd)))
	r.Count("wire_reads", int64(len(ru)+len(rd)))
	if u.delivered+d.delivered > 0 {
		r.Distinct("nontrivial", fmt.Sprintf("%d|%v|%d|%d|%d|%x", p.iat, p.biased, p.scenario, p.polC2S, p.polS2C, p.seed))
	}
	r.Distinct("cells", fmt.Sprintf("%d|%v|%d|%d|%d", p.iat, p.biased, p.scenario, p.polC2S, p.polS2C))
	r.Distinct("interleavings", interleaving(wu, ru, wd, rd))
	r.Count(fmt.Sprintf("iat_mode_%d", p.iat), 1)
	r.Count("scenario_"+scenarioNames[p.scenario], 1)
	r.Sample(map[string]any{"params": p.String(), "client_writes": cScript, "server_writes": sScript, "delivered_up": u.delivered, "delivered_down": d.delivered, "wire_writes_up": len(wu), "wire_writes_down": len(wd)})
	finish()
}

func sum(l []int) int64 {
	var s int64
	for _, v := range l {
		s += int64(v)
	}
	return s
}

func cls(n int) byte {
	switch {
	case n == 0:
		return '0'
	case n == 1:
		return '1'
	case n < 21:
		return 'a'
	case n < 1448:
		return 'b'
	case n == 1448:
		return 'c'
	case n < 8192:
		return 'd'
	default:
		return 'e'
	}
}

func interleaving(wu []memwire.WEvent, ru []memwire.REvent, wd []memwire.WEvent, rd []memwire.REvent) string {
	type ev struct {
		tick int64
		s    [3]byte
	}
	var evs []ev
	for _, e := range wu {
		evs = append(evs, ev{e.Tick, [3]byte{'U', 'w', cls(e.N)}})
	}
	for _, e := range ru {
		evs = append(evs, ev{e.Tick, [3]byte{'U', 'r', cls(e.N)}})
	}
	for _, e := range wd {
		evs = append(evs, ev{e.Tick, [3]byte{'D', 'w', cls(e.N)}})
	}
	for _, e := range rd {
		evs = append(evs, ev{e.Tick, [3]byte{'D', 'r', cls(e.N)}})
	}
	sort.Slice(evs, func(i, j int) bool { return evs[i].tick < evs[j].tick })
	b := make([]byte, 0, len(evs)*3)
	for _, e := range evs {
		b = append(b, e.s[:]...)
	}
	return string(b)
}

func TestCheck(t *testing.T) {
	r := mon.Start(t, "C01")
	defer r.Finish()
	r.SpinWatch(memwire.BytesMoved)
	r.Note("rule", "grid of (IAT mode 0/1/2) x (biased/uniform tables) x (4 scenarios incl. server payload coalesced with the handshake response) x reader chunk policies on both wire directions (all-available, 1, 2, 7, 21, 45, 1447, 1448, 1449, PRNG<=64, PRNG<=3000, 4 KiB back-pressure window, all-but-the-last-byte of whatever is available); plus searched single-valued tables ({22}, {210}, {1365}) with write sizes whose burst gets no padding, so that the last data frame is the last thing in flight; per connection a fresh bridge identity/DRBG seed and PRNG write-size scripts from {0,1,2,1426..1428,2853..2855,4096,8192,23168,65536,PRNG} with virtual pauses, plus a family of single large writes (32767..200003 bytes, not multiples of 32 KiB/64 KiB) in every IAT mode; every connection has 4 concurrent goroutines under the race detector. A case is non-trivial when the handshake completed and payload flowed; distinct = distinct (mode,bias,scenario,policies,seed).")
	dir := o4.StateDir("c01")
	nPer := r.Pick(3, 30) // connections per grid cell
	idx := 0
	for iat := 0; iat < 3; iat++ {
		for _, biased := range []bool{false, true} {
			for scen := 0; scen < nScenarios; scen++ {
				for pi := range policies {
					iat, biased, scen, pi := iat, biased, scen, pi
					name := fmt.Sprintf("grid/iat%d/b%v/%s/%s", iat, biased, scenarioNames[scen], policies[pi].name)
					r.Case(name, func(c *mon.Case) {
						for k := 0; k < nPer; k++ {
							k := k
							// the second direction's policy rotates so that pairs differ
							pj := (pi*5 + k*7 + scen) % len(policies)
							p := params{iat: iat, biased: biased, scenario: scen, polC2S: pi, polS2C: pj, seed: r.Sub("conn", iat, biased, scen, pi, k)}
							if scen == scServerFirstCoalesced {
								p.polS2C, p.polC2S = pi, pj // the interesting direction gets every policy
							}
							func() {
								defer func() {
									if e := recover(); e != nil {
										sig := "panic-in-case"
										if strings.HasPrefix(fmt.Sprint(e), "deadlock:") {
											sig = "wedge/goroutines-still-blocked-after-close"
										}
										c.Violation(sig, fmt.Sprintf("%v; %s", e, p), p.String())
									}
								}()
								synctest.Test(c.T, func(t *testing.T) { runConn(c, r, dir, p) })
							}()
						}
					})
					idx++
				}
			}
		}
	}

	// single large application writes (not multiples of 32 KiB / 64 KiB / a frame)
	for iat := 0; iat < 3; iat++ {
		iat := iat
		r.Case(fmt.Sprintf("big-writes/iat%d", iat), func(c *mon.Case) {
			for bi := range bigMenu {
				for vi, v := range [][3]int{{scClientFirst, 0, 0}, {scBothAtOnce, 10, 11}, {scLockstep, 11, 10}} {
					if !r.Thorough() && (bi+vi+iat)%3 != 0 {
						continue
					}
					p := params{iat: iat, biased: bi%2 == 0, scenario: v[0], polC2S: v[1], polS2C: v[2], seed: r.Sub("big", iat, bi, vi), big: bi + 1}
					func() {
						defer func() {
							if e := recover(); e != nil {
								sig := "panic-in-case"
								if strings.HasPrefix(fmt.Sprint(e), "deadlock:") {
									sig = "wedge/goroutines-still-blocked-after-close"
								}
								c.Violation(sig, fmt.Sprintf("%v; %s", e, p), p.String())
							}
						}()
						synctest.Test(c.T, func(t *testing.T) { runConn(c, r, dir, p) })
					}()
				}
			}
		})
	}

	// healthy connections behind connections whose writes failed mid-burst
	for g := 0; g < r.Pick(6, 60); g++ {
		g := g
		r.Case(fmt.Sprintf("after-failed-writes/%03d", g), func(c *mon.Case) {
			func() {
				defer func() {
					if e := recover(); e != nil {
						sig := "panic-in-case"
						if strings.HasPrefix(fmt.Sprint(e), "deadlock:") {
							sig = "wedge/goroutines-still-blocked-after-close"
						}
						c.Violation(sig, fmt.Sprintf("%v; after-failed-writes group %d", e, g), nil)
					}
				}()
				synctest.Test(c.T, func(t *testing.T) {
					failedWrites(c, r, dir, 4, r.Sub("fw", g))
					for k := 0; k < 3; k++ {
						runConn(c, r, dir, params{iat: (g + k) % 3, biased: k%2 == 1, scenario: []int{scBothAtOnce, scClientFirst, scLockstep}[k], polC2S: (g + k) % len(policies), polS2C: (g + 3*k) % len(policies), seed: r.Sub("fw-healthy", g, k)})
					}
				})
			}()
		})
	}

	// several connections alive at once in one process (two bridges, all IAT
	// modes), used in an interleaved way: whatever a connection keeps between
	// calls (receive buffers, distributions, scratch space) must be its own
	r.Note("interleaved_connections", "additional family (mon.Interleave): 4 connections to 2 bridges alive at once in one bubble (IAT modes mixed), driven round-robin from one goroutine: all endpoints write, then read in pieces of 1..24 bytes, one Read per endpoint per round, write again, drain; every direction carries its own PRF stream; every third group instead with a writer and a reader goroutine per endpoint on all processors at once (mon.Parallel, 40..150 kB per direction)")
	for g := 0; g < r.Pick(18, 240); g++ {
		g := g
		r.Case(fmt.Sprintf("interleaved-connections/%03d", g), func(c *mon.Case) {
			func() {
				defer func() {
					if e := recover(); e != nil {
						sig := "panic-in-case"
						if strings.HasPrefix(fmt.Sprint(e), "deadlock:") {
							sig = "wedge/goroutines-still-blocked-after-close"
						}
						c.Violation(sig, fmt.Sprintf("%v; interleaved group %d", e, g), nil)
					}
				}()
				synctest.Test(c.T, func(t *testing.T) {
					rng := mon.NewRand(r.Sub("ilb", g))
					flag.Set("obfs4-distBias", fmt.Sprint(g%2 == 1))
					var links []mon.Link
					var wires []*memwire.Conn
					for bi := 0; bi < 2; bi++ {
						b := o4.NewBridge(rng, (g+bi)%3)
						sf, err := o4.ServerFactory(dir, b)
						if err != nil {
							c.Violation("setup/server-factory", err.Error(), nil)
							return
						}
						for k := 0; k < 2; k++ {
							cw, sw := memwire.Pair(memwire.Options{})
							wires = append(wires, cw, sw)
							var sc net.Conn
							var serr error
							done := make(chan struct{})
							c.Go(func() { close(done) }, func() { sc, serr = sf.WrapConn(sw) })
							cc, cerr := o4.DialReal(cw, b.ClientArgsCert())
							<-done
							if cerr != nil || serr != nil {
								c.Violation("handshake/failed", fmt.Sprintf("interleaved group: %v / %v", cerr, serr), nil)
								continue
							}
							links = append(links, mon.Link{Name: fmt.Sprintf("bridge%d-conn%d", bi, k), A: cc, B: sc})
						}
					}
					if g%3 == 2 {
						// the same group on all processors at once instead
						wait := mon.Parallel(c, r, "parallel-connections", links, []int{40000, 150000}[g/3%2], []int{6000, 70000}[g/6%2], r.Sub("il", g))
						for _, w := range wires {
							w.Close()
						}
						wait()
						return
					}
					mon.Interleave(c, r, "interleaved-connections", links, r.Sub("il", g))
					for _, w := range wires {
						w.Close()
					}
				})
			}()
		})
	}

	// bursts that end exactly at the end of their last data frame (no padding
	// behind it): single-valued tables, write sizes chosen to match, every
	// chunk policy incl. "all but the last byte" and byte-at-a-time
	nS := r.Pick(2, 12)
	for _, shape := range []string{"single-22", "single-210", "single-1365"} {
		for iat := 0; iat < 3; iat++ {
			for pi := range policies {
				shape, iat, pi := shape, iat, pi
				r.Case(fmt.Sprintf("unpadded-tail/%s/iat%d/%s", shape, iat, policies[pi].name), func(c *mon.Case) {
					for k := 0; k < nS; k++ {
						scen := []int{scLockstep, scClientFirst, scServerFirstCoalesced, scBothAtOnce}[k%4]
						p := params{iat: iat, biased: false, scenario: scen, polC2S: pi, polS2C: pi, seed: r.Sub("unpadded", shape, iat, pi, k), shape: shape}
						func() {
							defer func() {
								if e := recover(); e != nil {
									sig := "panic-in-case"
									if strings.HasPrefix(fmt.Sprint(e), "deadlock:") {
										sig = "wedge/goroutines-still-blocked-after-close"
									}
									c.Violation(sig, fmt.Sprintf("%v; %s", e, p), p.String())
								}
							}()
							synctest.Test(c.T, func(t *testing.T) { runConn(c, r, dir, p) })
						}()
					}
				})
			}
		}
	}
}

// failedWrites: connections whose wire fails in the middle of a burst (in
// the IAT modes a burst goes out in several wire writes, and the wire may
// accept some of them and fail the next), on either side.  Nothing is judged
// on them: what is judged is the healthy connection that lives in the same
// process afterwards (runConn right behind).  Whatever the failed writes left
// behind — in pools, package-level scratch space — must not reach it.
func failedWrites(c *mon.Case, r *mon.Run, dir string, n int, seed uint64) {
	rng := mon.NewRand(seed)
	for k := 0; k < n; k++ {
		iat := 1 + k%2
		flag.Set("obfs4-distBias", "false")
		b := o4.NewBridge(rng, iat)
		sf, err := o4.ServerFactory(dir, b)
		if err != nil {
			c.Violation("setup/server-factory", err.Error(), nil)
			return
		}
		cw, sw := memwire.Pair(memwire.Options{})
		var sc net.Conn
		var serr error
		done := make(chan struct{})
		c.Go(func() { close(done) }, func() { sc, serr = sf.WrapConn(sw) })
		cc, cerr := o4.DialReal(cw, b.ClientArgsCert())
		<-done
		if cerr != nil || serr != nil {
			c.Violation("handshake/failed", fmt.Sprintf("failed-writes family: %v / %v", cerr, serr), nil)
			cw.Close()
			sw.Close()
			continue
		}
		// both applications drain
		for _, x := range []net.Conn{cc, sc} {
			x := x
			c.Go(nil, func() { io.Copy(io.Discard, x) })
		}
		synctest.Wait()
		// the writer's wire fails after one to three segments of a burst of
		// five or more
		wconn, half := cc, cw.Out()
		if k%4 >= 2 {
			wconn, half = sc, sw.Out()
		}
		half.SetWriteFault(half.Written()+int64(1448*(1+rng.IntN(3))+rng.IntN(1448)), syscall.EPIPE)
		if _, err := wconn.Write(make([]byte, 7000+rng.IntN(4000))); err != nil {
			r.Count("writes_failed_in_the_middle_of_a_burst", 1)
		}
		cw.Close()
		sw.Close()
		synctest.Wait()
	}
}
