//go:build !verif_probdist

package c01

import "gitlab.com/yawning/obfs4.git/common/drbg"

// tableValues without the probdist hook: the shape of a searched seed's table
// cannot be verified, the families that depend on it are skipped.
func tableValues(ds *drbg.Seed, biased bool) ([]int, bool) { return nil, false }
