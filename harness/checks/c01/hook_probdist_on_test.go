//go:build verif_probdist

package c01

import (
	"gitlab.com/yawning/obfs4.git/common/drbg"
	"gitlab.com/yawning/obfs4.git/common/probdist"
)

// tableValues reads the value table the real probdist derives from a seed
// (hook VerifTables, build tags verif && verif_probdist).
func tableValues(ds *drbg.Seed, biased bool) ([]int, bool) {
	_, _, vals, _, _, _ := probdist.New(ds, 0, 1448, biased).VerifTables()
	return vals, true
}
