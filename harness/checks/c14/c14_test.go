// C14 — obfs2: stream integrity for any segmentation, conformance with the
// obfs2 specification in both roles, rejection of wrong magic / oversized
// padding length.
//
// Real endpoints are obtained through the public transports API only and talk
// over a buffered in-memory wire (both parties send their key-establishment
// message before they read) inside a synctest bubble.  Three pairings: real
// client <-> real server, reference initiator <-> real server, real client <->
// reference responder.  The reference (ref/obfs2) is written from the
// specification and shares nothing with /repo; it is used as a live peer, as
// a passive decoder of everything a real endpoint put on the wire (also in the
// real<->real pairing, so that a symmetric deviation is visible there too),
// and as the generator of non-conforming messages.
package c14

import (
	"encoding/binary"
	"fmt"
	"net"
	"strings"
	"sync"
	"testing"
	"testing/synctest"
	"time"

	pt "gitlab.torproject.org/tpo/anti-censorship/pluggable-transports/goptlib"

	"gitlab.com/yawning/obfs4.git/transports"
	"gitlab.com/yawning/obfs4.git/transports/base"

	"verif/memwire"
	"verif/mon"
	"verif/o4" // its init registers the transports; RandReader
	ref "verif/ref/obfs2"
	"verif/steer"
)

// ---------------------------------------------------------------- real endpoints (public API only)

func realDial(wire net.Conn) (net.Conn, error) {
	t := transports.Get("obfs2")
	if t == nil {
		return nil, fmt.Errorf("obfs2 transport not registered")
	}
	cf, err := t.ClientFactory("")
	if err != nil {
		return nil, err
	}
	pa, err := cf.ParseArgs(&pt.Args{})
	if err != nil {
		return nil, fmt.Errorf("ParseArgs: %w", err)
	}
	return cf.Dial("tcp", "192.0.2.2:443", func(string, string) (net.Conn, error) { return wire, nil }, pa)
}

// One server factory serves every connection of the process, as a bridge's
// does: whatever it remembers from one connection is there for the next.
var (
	srvOnce    sync.Once
	srvFactory base.ServerFactory
	srvErr     error
)

func realWrap(wire net.Conn) (net.Conn, error) {
	srvOnce.Do(func() {
		t := transports.Get("obfs2")
		if t == nil {
			srvErr = fmt.Errorf("obfs2 transport not registered")
			return
		}
		srvFactory, srvErr = t.ServerFactory("", &pt.Args{})
	})
	if srvErr != nil {
		return nil, srvErr
	}
	return srvFactory.WrapConn(wire)
}

// ---------------------------------------------------------------- workload vocabulary

type policySpec struct {
	name string
	mk   func(seed uint64) memwire.ChunkPolicy
	win  int // back-pressure window applied after the key establishment
}

func fixed(k int) func(uint64) memwire.ChunkPolicy {
	return func(uint64) memwire.ChunkPolicy { return memwire.Fixed(k) }
}

// 16 = SEED, 24 = SEED + encrypted header: the sizes around them make the
// alternating raw/decrypted ReadFull calls of the handshake straddle reads.
var policies = []policySpec{
	{"all", func(uint64) memwire.ChunkPolicy { return memwire.All() }, 0},
	{"1", fixed(1), 0},
	{"3", fixed(3), 0},
	{"4", fixed(4), 0},
	{"8", fixed(8), 0},
	{"15", fixed(15), 0},
	{"16", fixed(16), 0},
	{"17", fixed(17), 0},
	{"23", fixed(23), 0},
	{"24", fixed(24), 0},
	{"25", fixed(25), 0},
	{"prng", func(s uint64) memwire.ChunkPolicy { return memwire.PRNG(s, []int{5, 48, 3000}[s%3]) }, 0},
	{"win4096", func(uint64) memwire.ChunkPolicy { return memwire.All() }, 4096},
}

const nHandshakePolicies = 12 // the window only acts after the handshake

var sizeMenu = []int{0, 1, 2, 15, 16, 17, 4096, 65536}

// bigMenu: single application writes well beyond any internal buffer size a
// transport might use (io.Copy's 32 KiB, 64 KiB), deliberately not multiples of them.
var bigMenu = []int{32767, 32769, 40000, 65535, 65537, 98305, 100001, 131073, 200003}

const (
	prRealReal = iota
	prRefInit  // reference initiator <-> real server
	prRefResp  // real client <-> reference responder
	nPairings
)

var pairingNames = []string{"real-real", "refinit-real", "real-refresp"}

const (
	scClientFirst     = iota
	scServerCoalesced // the server's first payload reaches the client together with the server's key-establishment message
	scClientCoalesced // the client's first payload reaches the server together with the client's key-establishment message
	scBothAtOnce
	scIdleGaps
	scLockstep // one write (or one per side) at a time, judged at quiescence after every step
	nScenarios
)

var scenarioNames = []string{"client-first", "server-coalesced", "client-coalesced", "both-at-once", "idle-gaps", "lockstep"}

type params struct {
	pairing      int
	scenario     int
	polC2S       int // chunking of the client->server direction (what the server reads)
	polS2C       int
	refPad       int   // padding length sent by the reference endpoint (-1: none in this pairing)
	steerS       int64 // raw 31-bit value the real server's PADLEN draw is steered to (-1: not steered)
	steerC       int64 // same for the real client
	refReadFirst bool  // the reference parses the peer's message before sending its own
	edgeSeed     int   // 0: PRNG seeds; 1: every SEED of the connection (reference's and steered real ones) all-zero; 2: all-ones
	big          int   // > 0: both sides' scripts are {small, bigMenu[big-1], small, another big, small}
	seed         uint64
}

func (p params) String() string {
	return fmt.Sprintf("pairing=%s scenario=%s c2s=%s s2c=%s refpad=%d steer(server,client)=(%d,%d) refreadfirst=%v edgeseed=%d big=%d seed=%x",
		pairingNames[p.pairing], scenarioNames[p.scenario], policies[p.polC2S].name, policies[p.polS2C].name, p.refPad, p.steerS, p.steerC, p.refReadFirst, p.edgeSeed, p.big, p.seed)
}

func script(rng interface{ IntN(int) int }, n, maxTotal int) []int {
	var out []int
	total := 0
	for i := 0; i < n; i++ {
		var sz int
		if rng.IntN(3) == 0 {
			sz = rng.IntN(3000)
		} else {
			sz = sizeMenu[rng.IntN(len(sizeMenu))]
		}
		if total+sz > maxTotal {
			sz = rng.IntN(64)
		}
		total += sz
		out = append(out, sz)
	}
	return out
}

// steerSource makes the n-th PADLEN draw of real endpoints (an 8-byte draw
// directly after the 16-byte SEED draw: csrand.IntRange -> math/rand Int31n
// -> (Int63()>>32) % 8193) come out as targets[n] (when >= 0).
//
// edgeSeed 1/2 additionally turns the SEED draws into all-zero/all-ones: the
// 16-byte draws other than a 16-byte padding draw, which comes directly behind
// a PADLEN draw of value 16.  (Steering is only workload shaping and evidence;
// no verdict depends on it having hit.)
func steerSource(seed uint64, targets []int64, edgeSeed int) *steer.Source {
	s := steer.New(seed)
	prev, k := 0, 0
	padNext := false
	s.Hook = func(_ int64, b []byte) { // called with the source's lock held
		if len(b) == ref.SeedLength && !padNext && edgeSeed != 0 {
			for i := range b {
				b[i] = byte(0 - (edgeSeed - 1)) // 0x00 or 0xff
			}
		}
		padNext = false
		if len(b) == 8 && prev == ref.SeedLength {
			if k < len(targets) && targets[k] >= 0 {
				binary.BigEndian.PutUint64(b, uint64(targets[k])<<32)
			}
			k++
			padNext = (binary.BigEndian.Uint64(b)&(1<<63-1))>>32%(ref.MaxPadding+1) == ref.SeedLength
		}
		prev = len(b)
	}
	return s
}

type dirStats struct {
	broken    bool
	written   int64
	delivered int64
	readErr   error
	writeErr  error
	mismatch  int64 // offset of the first wrong byte, -1 if none
}

// ---------------------------------------------------------------- one connection

func runConn(c *mon.Case, r *mon.Run, p params) {
	rng := mon.NewRand(p.seed)
	rr := o4.RandReader{R: rng}
	pn := pairingNames[p.pairing]
	viol := func(sig, format string, a ...any) {
		c.Violation(sig, fmt.Sprintf(format, a...)+"; "+p.String(), p.String())
	}
	realServer, realClient := p.pairing != prRefResp, p.pairing != prRefInit

	cw, sw := memwire.Pair(memwire.Options{Keep: true})
	// cw.Out() is the client->server half (the server reads it); sw.Out() is server->client.
	c2s, s2c := cw.Out(), sw.Out()
	c2s.SetPolicy(policies[p.polC2S].mk(p.seed ^ 1))
	s2c.SetPolicy(policies[p.polS2C].mk(p.seed ^ 2))

	nW := 2 + rng.IntN(6)
	maxTotal := 70000
	for _, pi := range []int{p.polC2S, p.polS2C} {
		if n := policies[pi].name; n == "1" || n == "3" || n == "4" {
			maxTotal = 9000
		}
	}
	cScript, sScript := script(rng, nW, maxTotal), script(rng, nW, maxTotal)
	if p.big > 0 {
		b := bigMenu[(p.big-1)%len(bigMenu)]
		b2 := bigMenu[(p.big+3)%len(bigMenu)]
		cScript, sScript = []int{rng.IntN(200), b, 1 + rng.IntN(3000), b2, 17}, []int{b, 1 + rng.IntN(200), b2, 3000, 1}
		nW = 5
		r.Count("big_write_connections", 1)
	}
	gaps := func() []time.Duration {
		g := make([]time.Duration, nW)
		for i := range g {
			if p.scenario == scIdleGaps {
				g[i] = time.Duration(rng.IntN(10)) * time.Minute
			} else {
				g[i] = time.Duration(rng.IntN(5000)) * time.Microsecond
			}
		}
		return g
	}
	cGaps, sGaps := gaps(), gaps()
	cStream, sStream := mon.Stream{Key: p.seed ^ 0xc}, mon.Stream{Key: p.seed ^ 0x5}
	var up, down dirStats // up: client->server, down: server->client
	up.mismatch, down.mismatch = -1, -1
	var mu sync.Mutex
	var wg sync.WaitGroup
	// the first I/O error of the connection, in order of occurrence (later
	// ones are fallout of the teardown it triggers)
	var faultSig, faultDetail string
	ending := false                                     // the closing phase has begun: a read error is what is expected now
	fault := func(op string, ds *dirStats, err error) { // mu held
		if faultSig == "" && !ending {
			name := "up"
			if ds == &down {
				name = "down"
			}
			faultSig, faultDetail = op+"-error/"+pn+"/"+name, fmt.Sprintf("%s failed on a healthy connection after %d bytes written / %d delivered in that direction: %v", op, ds.written, ds.delivered, err)
		}
	}

	writeOne := func(conn net.Conn, st mon.Stream, sz int, ds *dirStats) bool {
		mu.Lock()
		off := ds.written
		mu.Unlock()
		defer func() {
			if e := recover(); e != nil {
				mu.Lock()
				ds.broken = true
				mu.Unlock()
				panic(e) // recorded by Case.Go
			}
		}()
		n, err := conn.Write(st.Bytes(off, sz))
		mu.Lock()
		ds.written = off + int64(n)
		if err == nil && n != sz {
			err = fmt.Errorf("short write %d of %d without error", n, sz)
		}
		if err != nil {
			ds.writeErr = err
			fault("write", ds, err)
		}
		mu.Unlock()
		return err == nil
	}
	writer := func(conn net.Conn, st mon.Stream, sizes []int, gaps []time.Duration, ds *dirStats) {
		for i, sz := range sizes {
			time.Sleep(gaps[i])
			if !writeOne(conn, st, sz, ds) {
				return
			}
		}
	}
	// readers that poll (real endpoints only): a read deadline before every
	// Read, an expired deadline means "nothing yet".  On every fourth
	// connection from the first Read on, and there the peer's key-establishment
	// message arrives in two parts with a pause in between (the first part ends
	// somewhere behind the header: inside the padding if there is enough of
	// it); on the others from the end of the scripted traffic on.
	prng := mon.NewRand(p.seed ^ 0x9011)
	poll := &mon.Poller{Interval: time.Duration(20+prng.IntN(60)) * time.Millisecond}
	lifted := make(chan struct{})
	if p.seed%4 != 1 {
		close(lifted)
	} else {
		poll.Start()
		r.Count("connections_read_by_polling_from_the_start", 1)
		c2s.SetCut(int64(24+1+prng.IntN(40)), memwire.CutSilence)
		s2c.SetCut(int64(24+1+prng.IntN(40)), memwire.CutSilence)
		wg.Add(1)
		c.Go(wg.Done, func() {
			time.Sleep(time.Duration(100+prng.IntN(400)) * time.Millisecond)
			c2s.SetCut(-1, memwire.CutSilence)
			s2c.SetCut(-1, memwire.CutSilence)
			close(lifted)
		})
	}
	defer func() { r.Count("read_deadlines_expired_and_renewed", poll.Timeouts()) }()
	reader := func(conn net.Conn, st mon.Stream, ds *dirStats, bufSeed uint64) {
		brng := mon.NewRand(bufSeed)
		buf := make([]byte, 20000)
		var off int64
		real := ds == &up && realServer || ds == &down && realClient
		for {
			var n int
			var err error
			if real {
				n, err = poll.Read(conn, buf[:1+brng.IntN(len(buf))])
			} else {
				n, err = conn.Read(buf[:1+brng.IntN(len(buf))])
			}
			mu.Lock()
			if n > 0 {
				if i := st.Check(buf[:n], off); i >= 0 && ds.mismatch < 0 {
					ds.mismatch = off + int64(i)
				}
				off += int64(n)
				ds.delivered = off
			}
			if err != nil {
				ds.readErr = err
				fault("read", ds, err)
			}
			mu.Unlock()
			if err != nil {
				// a dead reader means a dead connection: release whoever waits
				// for window space (no-op when this is the teardown by finish)
				cw.Close()
				sw.Close()
				return
			}
		}
	}
	finish := func() {
		cw.Close()
		sw.Close()
		wg.Wait()
	}
	judge := func(where string) bool {
		mu.Lock()
		u, d := up, down
		fs, fd := faultSig, faultDetail
		mu.Unlock()
		if u.broken || d.broken {
			return false
		}
		if fs != "" {
			viol(fs, "%s", fd)
			return false
		}
		ok := true
		one := func(name string, ds dirStats, h *memwire.Half) {
			if ds.mismatch >= 0 {
				viol("stream-mismatch/"+pn+"/"+name, "byte at offset %d delivered to the reader is not the byte the peer's application wrote there", ds.mismatch)
				ok = false
			}
			if ds.delivered < ds.written {
				viol("stall/"+pn+"/"+name+"/"+where, "quiescent (%s) with %d of %d bytes delivered, %d bytes pending on the wire", where, ds.delivered, ds.written, h.Pending())
				ok = false
			} else if ds.delivered > ds.written {
				viol("stream-excess/"+pn+"/"+name, "%d bytes delivered but only %d written", ds.delivered, ds.written)
				ok = false
			}
		}
		one("up", u, c2s)
		one("down", d, s2c)
		r.Count("quiescent_points_judged", 1)
		return ok
	}

	// ---- key establishment
	if p.scenario == scServerCoalesced {
		s2c.Pause(true) // the client sees nothing until the server has also written payload
		if sScript[0] == 0 {
			sScript[0] = 12
		}
		sGaps[1] += time.Second
	}
	if p.scenario == scClientCoalesced {
		c2s.Pause(true)
		if cScript[0] == 0 {
			cScript[0] = 12
		}
		cGaps[1] += time.Second
	}
	// everything random the reference needs is drawn here, not in goroutines
	var refOpts ref.Options
	if p.pairing != prRealReal {
		refOpts = ref.Options{Role: ref.Initiator, Hello: ref.NewHello(rr, p.refPad), ReadFirst: p.refReadFirst}
		if p.pairing == prRefResp {
			refOpts.Role = ref.Responder
		}
		if p.edgeSeed != 0 {
			for i := range refOpts.Hello.Seed {
				refOpts.Hello.Seed[i] = byte(0 - (p.edgeSeed - 1))
			}
		}
		if p.pairing == prRefResp && p.scenario == scServerCoalesced {
			// message and first payload in ONE write
			refOpts.ReadFirst, refOpts.FirstData = true, sStream.Bytes(0, sScript[0])
		}
		if p.pairing == prRefInit && p.scenario == scClientCoalesced {
			refOpts.ReadFirst, refOpts.FirstData = true, cStream.Bytes(0, cScript[0])
		}
		if (p.pairing == prRefResp && p.scenario == scClientCoalesced) || (p.pairing == prRefInit && p.scenario == scServerCoalesced) {
			// the real peer's output is held back until it has written payload,
			// which it can only do after it has seen our message
			refOpts.ReadFirst = false
		}
	}
	var targets []int64
	if realServer {
		targets = append(targets, p.steerS)
	}
	if realClient {
		targets = append(targets, p.steerC)
	}
	restore := steer.Install(steerSource(p.seed^0x5eed, targets, p.edgeSeed))
	defer restore() // runs after finish(): no goroutine of this connection is left

	var sc, cc net.Conn
	var sErr, cErr error
	srvDone, cliDone := make(chan struct{}), make(chan struct{})
	side := func(server bool) {
		conn, err := net.Conn(nil), error(nil)
		wire, isReal, coalesce, half := cw, realClient, p.scenario == scClientCoalesced, c2s
		st, first, ds := cStream, cScript[0], &up
		if server {
			wire, isReal, coalesce, half = sw, realServer, p.scenario == scServerCoalesced, s2c
			st, first, ds = sStream, sScript[0], &down
		}
		defer half.Pause(false)
		switch {
		case isReal && server:
			conn, err = realWrap(wire)
		case isReal:
			conn, err = realDial(wire)
		default:
			var rc *ref.Conn
			rc, err = ref.Handshake(wire, refOpts)
			if err == nil {
				conn = rc
				if coalesce { // already sent inside Handshake, in the same write as the message
					mu.Lock()
					ds.written = int64(first)
					mu.Unlock()
				}
			}
		}
		if server {
			sc, sErr = conn, err
		} else {
			cc, cErr = conn, err
		}
		if err == nil && coalesce && (isReal) {
			writeOne(conn, st, first, ds) // immediately after the handshake returned; the peer is still held back
		}
	}
	c.Go(func() { close(srvDone) }, func() { side(true) })
	if p.pairing == prRealReal && (p.steerS >= 0 || p.steerC >= 0 || p.edgeSeed != 0) {
		// make the order of the two endpoints' random draws explicit: the
		// server has sent its message and waits for the client's seed
		synctest.Wait()
	}
	c.Go(func() { close(cliDone) }, func() { side(false) })
	<-srvDone
	<-cliDone

	// what the real endpoints put on the wire, decoded by the reference alone
	var realPads []int64
	parseReal := func(role ref.Role, h *memwire.Half) *ref.Parsed {
		_, _, data := h.Snapshot()
		if len(data) == 0 {
			return nil
		}
		ps, err := ref.ParseHello(role, data)
		switch {
		case err == ref.ErrMagic:
			viol("format/real-hello-magic/"+role.String(), "the real %v's message (%d bytes on the wire) decrypts under the specification's padding key to magic %#08x", role, len(data), ps.Magic)
			return nil
		case err == ref.ErrPadLen:
			viol("format/real-hello-padlen-exceeds-8192/"+role.String(), "the real %v announced PADLEN %d", role, ps.PadLen)
			return nil
		case err != nil:
			viol("format/real-hello-truncated/"+role.String(), "the real %v wrote only %d bytes, not a complete key-establishment message", role, len(data))
			return nil
		}
		r.Count("real_hellos_parsed", 1)
		r.Max("real_padlen_max", int64(ps.PadLen))
		r.Min("real_padlen_min", int64(ps.PadLen))
		r.Distinct("real_padlens_seen", fmt.Sprint(ps.PadLen))
		realPads = append(realPads, int64(ps.PadLen))
		switch ps.Seed {
		case [ref.SeedLength]byte{}:
			r.Count("real_seed_all_zero", 1)
		case [ref.SeedLength]byte{255, 255, 255, 255, 255, 255, 255, 255, 255, 255, 255, 255, 255, 255, 255, 255}:
			r.Count("real_seed_all_ones", 1)
		}
		return ps
	}
	var psS, psC *ref.Parsed
	if realServer {
		psS = parseReal(ref.Responder, s2c)
	}
	if realClient {
		psC = parseReal(ref.Initiator, c2s)
	}
	for i, want := range targets { // did steering reach the intended draw? (evidence only)
		if want >= 0 && i < len(realPads) {
			if realPads[i] == want%(ref.MaxPadding+1) {
				switch realPads[i] {
				case 0, ref.MaxPadding:
					r.Count(fmt.Sprintf("steered_real_padlen_%d", realPads[i]), 1)
				default:
					r.Count("steered_real_padlen_other", 1)
				}
			} else {
				r.Count("steer_missed", 1)
			}
		}
	}

	if cErr != nil || sErr != nil {
		viol("handshake-failed/"+pn, "Dial/initiator err=%v; WrapConn/responder err=%v", cErr, sErr)
		r.Count("evaluations", 1)
		finish()
		return
	}
	if p.pairing != prRealReal {
		r.Distinct("ref_padlens_"+refOpts.Role.String(), fmt.Sprint(p.refPad))
		if p.refPad == 0 {
			r.Count("control_ref_padlen_0_accepted", 1)
		}
		if p.refPad == ref.MaxPadding {
			r.Count("control_ref_padlen_8192_accepted", 1)
		}
		if len(refOpts.FirstData) > 0 {
			r.Count("ref_hello_and_data_in_one_write", 1)
		}
		if p.edgeSeed != 0 {
			r.Count("ref_seed_all_zero_or_all_ones", 1)
		}
	}

	for _, x := range []struct {
		h  *memwire.Half
		pi int
	}{{c2s, p.polC2S}, {s2c, p.polS2C}} {
		if w := policies[x.pi].win; w > 0 {
			x.h.SetWindow(w)
		}
	}
	wg.Add(2)
	c.Go(wg.Done, func() { reader(sc, cStream, &up, p.seed^0x71) })
	c.Go(wg.Done, func() { reader(cc, sStream, &down, p.seed^0x72) })
	<-lifted // (the readers poll while the rest of the peer's first message is on its way)

	healthy := true
	switch p.scenario {
	case scLockstep:
		steps := 3 + rng.IntN(8)
		for st := 0; st < steps; st++ {
			which := rng.IntN(3) // 0 client, 1 server, 2 both
			var sw2 sync.WaitGroup
			if which != 1 {
				sz := cScript[st%len(cScript)]
				sw2.Add(1)
				c.Go(sw2.Done, func() { writeOne(cc, cStream, sz, &up) })
			}
			if which != 0 {
				sz := sScript[st%len(sScript)]
				sw2.Add(1)
				c.Go(sw2.Done, func() { writeOne(sc, sStream, sz, &down) })
			}
			sw2.Wait()
			synctest.Wait()
			if healthy = judge("lockstep-step"); !healthy {
				break
			}
			r.Count("lockstep_steps", 1)
		}
	default:
		cFirst, sFirst := 0, 0
		if p.scenario == scServerCoalesced || p.scenario == scClientCoalesced {
			r.Count("coalesced_handshake_payload", 1)
			synctest.Wait()
			if p.scenario == scServerCoalesced {
				sFirst = 1
			} else {
				cFirst = 1
			}
			if healthy = judge("after-handshake-coalesced-with-payload"); !healthy {
				break
			}
		}
		if p.scenario == scClientFirst {
			sGaps[0] += 20 * time.Millisecond
		}
		var writers sync.WaitGroup
		writers.Add(2)
		c.Go(writers.Done, func() { writer(sc, sStream, sScript[sFirst:], sGaps[sFirst:], &down) })
		c.Go(writers.Done, func() { writer(cc, cStream, cScript[cFirst:], cGaps[cFirst:], &up) })
		writers.Wait()
		synctest.Wait() // every goroutine is durably blocked: nothing more happens without new traffic
		healthy = judge("end")
	}

	// polling phase: the real readers go on by polling, and bursts arrive in
	// two parts with a pause between them that outlasts several deadlines
	if healthy && (p.seed%3 == 0 || poll.On()) {
		var rc []net.Conn
		if realServer {
			rc = append(rc, sc)
		}
		if realClient {
			rc = append(rc, cc)
		}
		poll.Start(rc...)
		synctest.Wait()
		if p.seed%4 >= 2 {
			// bytes that arrive as the deadline expires: the wire hands them over
			// together with the timeout error, as io.Reader allows
			c2s.SetTimeoutWithData(true)
			s2c.SetTimeoutWithData(true)
			r.Count("polling_phases_with_bytes_and_timeout_in_one_read", 1)
		}
		for round := 0; round < 4 && healthy; round++ {
			upward := (int(p.seed>>3)+round)&1 == 0
			if !realServer {
				upward = false
			} else if !realClient {
				upward = true
			}
			wconn, st, ds, half := cc, cStream, &up, c2s
			if !upward {
				wconn, st, ds, half = sc, sStream, &down, s2c
			}
			t0 := poll.Timeouts()
			half.SetCut(half.Written()+int64(1+prng.IntN(60)), memwire.CutSilence)
			var w sync.WaitGroup
			w.Add(1)
			sz := 1 + prng.IntN(2500)
			c.Go(w.Done, func() { writeOne(wconn, st, sz, ds) })
			time.Sleep(time.Duration(150+prng.IntN(400)) * time.Millisecond)
			half.SetCut(-1, memwire.CutSilence)
			w.Wait()
			time.Sleep(200 * time.Millisecond) // (bytes held till a deadline are through after one polling interval)
			synctest.Wait()
			if poll.Timeouts() > t0 {
				r.Count("bursts_delivered_across_expired_read_deadlines", 1)
			}
			healthy = judge("polling-reader")
		}
		if healthy {
			r.Count("polling_phases_verified", 1)
		}
	}

	// closing phase: one side writes a last piece and its connection ends (a
	// half-close on the wire) while that piece is still in flight, so that the
	// reader's last network read brings the end of the stream right behind the
	// data or — as an io.Reader may — together with it.  Everything written
	// must be delivered before the reader's Read reports the end.
	if healthy {
		upward := p.seed&1 == 0
		if !realServer {
			upward = false
		} else if !realClient {
			upward = true
		}
		wconn, st, ds, half, name := cc, cStream, &up, c2s, "up"
		if !upward {
			wconn, st, ds, half, name = sc, sStream, &down, s2c, "down"
		}
		withData := p.seed&2 != 0
		reset := p.seed%7 >= 5 // the end is a reset that arrives together with the last data
		if reset {
			withData = true
		}
		mu.Lock()
		ending = true
		mu.Unlock()
		half.Pause(true)
		writeOne(wconn, st, 1+rng.IntN(3000), ds) // (below the smallest wire window: the wire is held)
		half.SetErrWithData(withData)
		if reset {
			half.SetCut(half.Written(), memwire.CutRST)
			r.Count("closing_phases_reset_with_last_data", 1)
		} else {
			half.CloseWrite()
		}
		half.Pause(false)
		if poll.On() {
			time.Sleep(200 * time.Millisecond) // (see the polling phase)
		}
		synctest.Wait()
		mu.Lock()
		e := *ds
		mu.Unlock()
		if reset && e.delivered < e.written && e.readErr != nil {
			// what arrives with a reset may be dropped; it may not be altered
			e.delivered = e.written
		}
		r.Count("closing_phases", 1)
		if withData {
			r.Count("closing_phases_end_reported_with_last_data", 1)
		}
		switch {
		case e.mismatch >= 0:
			viol("stream-mismatch/"+pn+"/"+name+"/last-bytes-before-the-end", "byte at offset %d delivered to the reader is not the byte the peer's application wrote there (the connection ended right behind the last piece; end reported together with data: %v)", e.mismatch, withData)
		case e.readErr == nil:
			viol("end-not-reported/"+pn+"/"+name, "the peer's connection ended after %d bytes but Read has not reported it at quiescence (%d delivered)", e.written, e.delivered)
		case e.delivered != e.written:
			viol("lost-at-end/"+pn+"/"+name, "%d bytes were written before the connection ended, Read reported the end (%v) after delivering %d (end reported together with data: %v)", e.written, e.readErr, e.delivered, withData)
		default:
			r.Count("closing_phases_all_delivered_before_the_end", 1)
		}
	}

	mu.Lock()
	u, d := up, down
	mu.Unlock()

	// passive decode: behind exactly PADLEN bytes of padding the wire must
	// carry the application's bytes under the specification's session keys
	var initSeed, respSeed [ref.SeedLength]byte
	haveSeeds := true
	switch p.pairing {
	case prRealReal:
		if psS == nil || psC == nil {
			haveSeeds = false
		} else {
			initSeed, respSeed = psC.Seed, psS.Seed
		}
	case prRefInit:
		if psS == nil {
			haveSeeds = false
		} else {
			initSeed, respSeed = refOpts.Hello.Seed, psS.Seed
		}
	case prRefResp:
		if psC == nil {
			haveSeeds = false
		} else {
			initSeed, respSeed = psC.Seed, refOpts.Hello.Seed
		}
	}
	if haveSeeds && healthy && !u.broken && !d.broken {
		decode := func(role ref.Role, ps *ref.Parsed, h *memwire.Half, st mon.Stream, ds dirStats) {
			_, _, data := h.Snapshot()
			i2r, r2i := ref.SessionStreams(initSeed, respSeed)
			ks := i2r
			if role == ref.Responder {
				ks = r2i
			}
			body := data[ps.Len:]
			plain := make([]byte, len(body))
			ks.XORKeyStream(plain, body)
			if int64(len(body)) != ds.written {
				viol("format/real-wire-length/"+role.String(), "the real %v put %d bytes on the wire behind SEED+header+PADLEN(%d) bytes of padding, its application wrote %d", role, len(body), ps.PadLen, ds.written)
			} else if i := st.Check(plain, 0); i >= 0 {
				viol("format/real-data-key-or-padding/"+role.String(), "the bytes behind the announced %d bytes of padding do not decrypt, under MAC(\"%s obfuscated data\", INIT_SEED|RESP_SEED), to what the application wrote (first difference at offset %d of %d)", ps.PadLen, map[ref.Role]string{ref.Initiator: "Initiator", ref.Responder: "Responder"}[role], i, len(plain))
			} else {
				r.Count("real_wire_bytes_decoded_by_reference", int64(len(plain)))
			}
		}
		if realServer {
			decode(ref.Responder, psS, s2c, sStream, d)
		}
		if realClient {
			decode(ref.Initiator, psC, c2s, cStream, u)
		}
	}

	// evidence
	r.Count("evaluations", 1)
	r.Count("connections", 1)
	r.Count("connections_"+pn, 1)
	r.Count("app_bytes_up", u.delivered)
	r.Count("app_bytes_down", d.delivered)
	wu, ru, _ := c2s.Snapshot()
	wd, rd, _ := s2c.Snapshot()
	r.Count("wire_writes", int64(len(wu)+len(wd)))
	r.Count("wire_reads", int64(len(ru)+len(rd)))
	if u.delivered+d.delivered > 0 {
		r.Distinct("nontrivial", p.String())
	}
	r.Distinct("cells", fmt.Sprintf("%d|%d|%d|%d", p.pairing, p.scenario, p.polC2S, p.polS2C))
	r.Count("scenario_"+scenarioNames[p.scenario], 1)
	r.Sample(map[string]any{"params": p.String(), "client_writes": cScript, "server_writes": sScript, "delivered_up": u.delivered, "delivered_down": d.delivered, "real_padlens": realPads})
	finish()
}

// ---------------------------------------------------------------- non-conforming key-establishment messages

type corrupt struct {
	kind   string // counter/signature class
	magic  uint32
	padLen uint32
	valid  bool // control: a conforming message sent through the same driver
}

// runCorrupt lets one real endpoint (server: WrapConn, else Dial) receive the
// message cor from the reference, followed in the same write by everything a
// conforming peer would send next, and reports whether it was accepted.
func runCorrupt(c *mon.Case, r *mon.Run, server bool, cor corrupt, pol int, seed uint64) {
	rng := mon.NewRand(seed)
	rr := o4.RandReader{R: rng}
	realRole, refRole, rn := ref.Initiator, ref.Responder, "client"
	if server {
		realRole, refRole, rn = ref.Responder, ref.Initiator, "server"
	}
	desc := fmt.Sprintf("real %s, %s magic=%#08x padlen=%d chunk=%s seed=%x", rn, cor.kind, cor.magic, cor.padLen, policies[pol].name, seed)
	viol := func(sig, format string, a ...any) {
		c.Violation(sig, fmt.Sprintf(format, a...)+"; "+desc, desc)
	}
	cw, sw := memwire.Pair(memwire.Options{Keep: true})
	realWire, refWire := cw, sw
	if server {
		realWire, refWire = sw, cw
	}
	toReal := refWire.Out()
	toReal.SetPolicy(policies[pol].mk(seed ^ 3))
	restore := steer.Install(steerSource(seed^0x5eed, nil, 0))
	defer restore()

	var conn net.Conn
	var err error
	done := make(chan struct{})
	c.Go(func() { close(done) }, func() {
		if server {
			conn, err = realWrap(realWire)
		} else {
			conn, err = realDial(realWire)
		}
	})
	synctest.Wait() // the real endpoint has sent its message and waits for ours
	_, _, theirs := realWire.Out().Snapshot()
	ps, perr := ref.ParseHello(realRole, theirs)

	// the message: announced PADLEN as given; as many padding bytes as
	// announced, but never more than a little over the maximum
	actual := int(cor.padLen)
	if cor.padLen > ref.MaxPadding {
		actual = ref.MaxPadding + 1 + rng.IntN(2000)
		if cor.padLen < uint32(actual) {
			actual = int(cor.padLen)
		}
	}
	h := ref.NewHello(rr, actual)
	h.Magic, h.PadLen = cor.magic, cor.padLen
	msg := h.Bytes(refRole)
	const nData = 100
	payload := mon.Stream{Key: seed ^ 0xda}
	if perr == nil {
		// what a conforming peer would send behind it: data under the session key
		ks, _ := ref.SessionStreams(h.Seed, ps.Seed) // we are the initiator
		if !server {
			_, ks = ref.SessionStreams(ps.Seed, h.Seed) // we are the responder
		}
		ct := payload.Bytes(0, nData)
		ks.XORKeyStream(ct, ct)
		msg = append(msg, ct...)
	}
	t0 := time.Now()
	if _, werr := refWire.Write(msg); werr != nil {
		r.Inconclusive("corrupt driver: wire write failed: " + werr.Error())
	}
	<-done
	elapsed := time.Since(t0) // virtual
	consumed := toReal.Delivered()

	got := 0
	if err == nil && conn != nil {
		// accepted; see whether the application would even get data
		conn.SetReadDeadline(time.Now().Add(time.Second))
		buf := make([]byte, nData)
		for got < nData {
			n, rerr := conn.Read(buf[got:])
			got += n
			if rerr != nil {
				break
			}
		}
		if got > 0 && payload.Check(buf[:got], 0) >= 0 {
			got = -got
		}
	}
	key := "corrupt_" + cor.kind + "_" + rn
	switch {
	case cor.valid && err == nil && got == nData:
		r.Count("control_conforming_message_via_corruption_driver_accepted", 1)
		r.Count(key+"_accepted", 1)
	case cor.valid:
		viol("handshake-failed/corruption-driver-control/"+rn, "a conforming message (PADLEN %d) sent through the driver that sends the corrupted ones was not accepted: err=%v, %d of %d payload bytes delivered (negative: wrong bytes); parse of the real side's own message: %v", cor.padLen, err, got, nData, perr)
	case err == nil:
		cls := "wrong-magic"
		if cor.magic == ref.MagicValue {
			cls = "oversized-padlen"
		}
		viol("accepted/"+cls+"/"+rn, "the real %s's handshake returned success for a peer message with magic %#08x (specified %#08x) and PADLEN %d (maximum %d); %d payload bytes were then delivered to the application (negative: garbage)", rn, cor.magic, ref.MagicValue, cor.padLen, ref.MaxPadding, got)
		r.Count(key+"_ACCEPTED", 1)
	case cor.magic == ref.MagicValue && consumed > ref.SeedLength+ref.HeaderLength+ref.MaxPadding:
		// not rejected for its PADLEN: it went on reading more than MAX_PADDING
		// bytes as padding and failed for another reason (deadline, EOF)
		viol("accepted/oversized-padlen-discarding/"+rn, "the real %s did not reject PADLEN %d: it consumed %d bytes (more than SEED+header+%d) and only failed after %v with %v", rn, cor.padLen, consumed, ref.MaxPadding, elapsed, err)
		r.Count(key+"_ACCEPTED", 1)
	default:
		r.Count(key+"_rejected", 1)
		if cor.magic != ref.MagicValue {
			r.Count("corrupt_magic_rejected", 1)
		} else {
			r.Count("corrupt_padlen_rejected", 1)
		}
		r.Max("reject_consumed_bytes_max", consumed)
		r.Max("reject_virtual_ns_max", int64(elapsed))
	}
	r.Count("evaluations", 1)
	r.Count("corrupt_cases", 1)
	r.Distinct("nontrivial", fmt.Sprintf("corrupt|%v|%s|%x|%d|%d", server, cor.kind, cor.magic, cor.padLen, pol))
	r.Distinct("corrupt_values", fmt.Sprintf("%s|%x|%d", cor.kind, cor.magic, cor.padLen))
	if err == nil && conn != nil { // (on failure WrapConn returns a typed nil inside the interface)
		conn.Close()
	}
	cw.Close()
	sw.Close()
	synctest.Wait()
}

func bubble(c *mon.Case, what string, fn func()) {
	defer func() {
		if e := recover(); e != nil {
			sig := "panic-in-case"
			if strings.HasPrefix(fmt.Sprint(e), "deadlock:") {
				sig = "wedge/goroutines-still-blocked-after-close"
			}
			c.Violation(sig, fmt.Sprintf("%v; %s", e, what), what)
		}
	}()
	synctest.Test(c.T, func(t *testing.T) { fn() })
}

// steerChoice: raw 31-bit draws; the endpoint reduces them mod 8193, so 0 and
// 8193 give PADLEN 0, 8192 and 16385 give PADLEN 8192 (with an endpoint whose
// range were one too wide 8193 would show as PADLEN 8193).
func steerChoice(k int, rng interface{ IntN(int) int }) int64 {
	switch k % 6 {
	case 0:
		return -1
	case 1:
		return 0
	case 2:
		return ref.MaxPadding
	case 3:
		return ref.MaxPadding + 1
	case 4:
		return 2*(ref.MaxPadding+1) - 1
	}
	return int64(rng.IntN(1 << 30))
}

func TestCheck(t *testing.T) {
	r := mon.Start(t, "C14")
	defer r.Finish()
	r.SpinWatch(memwire.BytesMoved)
	r.Note("rule", "three parts. (1) grid of pairing (real<->real, reference initiator<->real server, real client<->reference responder) x scenario (client first, server payload coalesced with its key-establishment message, client payload coalesced with its message, both at once, idle gaps, lockstep with a quiescence judgement after every write) x reader chunk policy (all-available, 1, 3, 4, 8, 15, 16, 17, 23, 24, 25, PRNG, 4 KiB back-pressure window after the handshake) on the first direction with a rotating policy on the other; PRNG write scripts from {0,1,2,15,16,17,4096,65536,PRNG<3000} with virtual pauses; the real endpoints' own PADLEN draw steered to 0, 8192 and PRNG values, and every SEED of the connection (reference's and real ones) set to all-zero or all-ones, in part of the connections. (2) padding sweep: the reference sends every padding length of the tier's list in both roles, scenario and chunk policies rotating with the length. (3) non-conforming messages sent by the reference to a real server and to a real client: magic at Hamming distance 1 (all 32), byte-swapped/0/all-ones/PRNG magics, PADLEN in {8193, 8194, 65536, byte-swapped 8192, 2^31-1, 2^31, 2^32-1, PRNG > 8192}, both wrong, and conforming controls (PADLEN 0, 8192, PRNG) through the same driver, each under several chunk policies. Every real endpoint has one reader and one writer goroutine under the race detector; everything a real endpoint writes is also decoded passively by the reference from the wire transcript. Non-trivial = handshake completed and payload flowed (parts 1, 2) or a verdict accepted/rejected was reached (part 3); distinct = distinct parameter tuple.")
	r.Note("exhaustive_part", fmt.Sprintf("reference padding lengths: %s; wrong magic values at Hamming distance 1: all 32, against both real roles", map[bool]string{false: "0, 1, 8191, 8192 and 64 PRNG values", true: "every value 0..8192 in both roles"}[r.Thorough()]))

	// ---- part 0: the same connection again.  Nothing in the specification
	// makes a seed single-use: a peer that presents the seeds (and everything
	// else) of an earlier connection to the same server is served like the
	// first time.
	for pairing := 0; pairing < nPairings; pairing++ {
		for e := 0; e < 3; e++ {
			pairing, e := pairing, e
			r.Case(fmt.Sprintf("again/%s/edge-seed-%d", pairingNames[pairing], e), func(c *mon.Case) {
				seed := r.Sub("again", pairing, e)
				p := params{pairing: pairing, scenario: scLockstep, refPad: -1, steerS: -1, steerC: -1, edgeSeed: e, seed: seed}
				if pairing != prRealReal {
					p.refPad = int(seed % 300)
				}
				for k := 0; k < 3; k++ {
					bubble(c, p.String(), func() { runConn(c, r, p) })
					r.Count("connections_repeated_with_the_same_seeds", 1)
				}
			})
		}
	}

	// ---- part 1: grid
	nPer := r.Pick(2, 30)
	for pairing := 0; pairing < nPairings; pairing++ {
		for scen := 0; scen < nScenarios; scen++ {
			for pi := range policies {
				pairing, scen, pi := pairing, scen, pi
				r.Case(fmt.Sprintf("grid/%s/%s/%s", pairingNames[pairing], scenarioNames[scen], policies[pi].name), func(c *mon.Case) {
					for k := 0; k < nPer; k++ {
						seed := r.Sub("grid", pairing, scen, pi, k)
						rng := mon.NewRand(seed ^ 0x9)
						pj := (pi*5 + k*7 + scen) % len(policies)
						p := params{pairing: pairing, scenario: scen, polC2S: pi, polS2C: pj, refPad: -1, steerS: -1, steerC: -1, refReadFirst: rng.IntN(2) == 0, seed: seed}
						// the direction a real endpoint reads during its handshake gets every policy
						if pairing == prRefResp || (pairing == prRealReal && scen == scServerCoalesced) {
							p.polC2S, p.polS2C = pj, pi
						}
						if pairing != prRealReal {
							p.refPad = []int{0, 1, ref.MaxPadding - 1, ref.MaxPadding, rng.IntN(ref.MaxPadding + 1), rng.IntN(ref.MaxPadding + 1)}[rng.IntN(6)]
						}
						if e := (k*13 + pi + 2*scen + pairing) % 9; e >= 7 {
							p.edgeSeed = e - 6
						}
						sk := k + pi + scen
						if pairing != prRefResp {
							p.steerS = steerChoice(sk, rng)
						}
						if pairing != prRefInit {
							p.steerC = steerChoice(sk/2+pairing, rng)
						}
						bubble(c, p.String(), func() { runConn(c, r, p) })
					}
				})
			}
		}
	}

	r.Note("big_writes", "additional family: both sides perform single application writes of 32767..200003 bytes (not multiples of 32 KiB / 64 KiB) between small writes, under all-available / PRNG / 4 KiB-window chunking; counted as big_write_connections")
	// ---- part 1b: single large application writes (not multiples of 32 KiB / 64 KiB)
	for pairing := 0; pairing < nPairings; pairing++ {
		pairing := pairing
		r.Case("big-writes/"+pairingNames[pairing], func(c *mon.Case) {
			for bi := range bigMenu {
				for vi, v := range [][3]int{{scClientFirst, 0, 0}, {scBothAtOnce, 11, 12}, {scLockstep, 12, 11}} {
					if !r.Thorough() && (bi+vi)%3 != 0 {
						continue
					}
					seed := r.Sub("big", pairing, bi, vi)
					p := params{pairing: pairing, scenario: v[0], polC2S: v[1], polS2C: v[2], refPad: -1, steerS: -1, steerC: -1, big: bi + 1, seed: seed}
					if pairing != prRealReal {
						p.refPad = int(seed % uint64(ref.MaxPadding+1))
					}
					bubble(c, p.String(), func() { runConn(c, r, p) })
				}
			}
		})
	}

	// ---- part 1c: several connections alive at once in one process, used in
	// an interleaved way (whatever a connection keeps between calls must be its own)
	r.Note("interleaved_connections", "additional family (mon.Interleave): 3 real<->real connections alive at once in one bubble, driven round-robin from one goroutine: all endpoints write, then read in pieces of 1..24 bytes, one Read per endpoint per round, write again, drain; every direction carries its own PRF stream; every third group instead with a writer and a reader goroutine per endpoint on all processors at once (mon.Parallel, 40..150 kB per direction)")
	for g := 0; g < r.Pick(18, 240); g++ {
		g := g
		r.Case(fmt.Sprintf("interleaved-connections/%03d", g), func(c *mon.Case) {
			bubble(c, fmt.Sprintf("interleaved group %d", g), func() {
				var links []mon.Link
				var wires []*memwire.Conn
				for k := 0; k < 3; k++ {
					cw, sw := memwire.Pair(memwire.Options{})
					wires = append(wires, cw, sw)
					var sc net.Conn
					var serr error
					done := make(chan struct{})
					c.Go(func() { close(done) }, func() { sc, serr = realWrap(sw) })
					cc, cerr := realDial(cw)
					<-done
					if cerr != nil || serr != nil {
						c.Violation("handshake-failed/interleaved", fmt.Sprintf("%v / %v", cerr, serr), nil)
						continue
					}
					links = append(links, mon.Link{Name: fmt.Sprintf("conn%d", k), A: cc, B: sc})
				}
				if g%3 == 2 {
					// the same group on all processors at once instead
					wait := mon.Parallel(c, r, "parallel-connections", links, []int{40000, 150000}[g/3%2], []int{6000, 70000}[g/6%2], r.Sub("il", g))
					for _, w := range wires {
						w.Close()
					}
					wait()
					return
				}
				mon.Interleave(c, r, "interleaved-connections", links, r.Sub("il", g))
				for _, w := range wires {
					w.Close()
				}
			})
		})
	}

	// ---- part 2: every reference padding length, both roles
	var pads []int
	if r.Thorough() {
		for v := 0; v <= ref.MaxPadding; v++ {
			pads = append(pads, v)
		}
	} else {
		pads = []int{0, 1, 2, 7, 8, 15, 16, 17, ref.MaxPadding - 2, ref.MaxPadding - 1, ref.MaxPadding}
		prng := mon.NewRand(r.Sub("padlist"))
		for len(pads) < 11+64 {
			pads = append(pads, 2+prng.IntN(ref.MaxPadding-3))
		}
	}
	blk := r.Pick(15, 64)
	reps := r.Pick(1, 2) // passes over the list, with different scenario/policy/seed per length
	for _, pairing := range []int{prRefInit, prRefResp} {
		for b := 0; b*blk < len(pads)*reps; b++ {
			pairing, b := pairing, b
			r.Case(fmt.Sprintf("pad/%s/b%03d", pairingNames[pairing], b), func(c *mon.Case) {
				for j := b * blk; j < (b+1)*blk && j < len(pads)*reps; j++ {
					i, rep := j%len(pads), j/len(pads)
					seed := r.Sub("pad", pairing, j)
					rng := mon.NewRand(seed ^ 0x9)
					p := params{pairing: pairing, scenario: (i + 5*rep) % nScenarios, refPad: pads[i], steerS: -1, steerC: -1, refReadFirst: rng.IntN(2) == 0, seed: seed}
					if e := j % 11; e >= 9 {
						p.edgeSeed = e - 8
					}
					// what the real endpoint reads (the reference's output) cycles through every policy
					mine, other := (i/nScenarios+7*rep)%len(policies), rng.IntN(len(policies))
					if pairing == prRefInit {
						p.polC2S, p.polS2C = mine, other
						p.steerS = steerChoice(i/7, rng)
					} else {
						p.polC2S, p.polS2C = other, mine
						p.steerC = steerChoice(i/7, rng)
					}
					bubble(c, p.String(), func() { runConn(c, r, p) })
				}
			})
		}
	}

	// ---- part 3: non-conforming messages
	crng := mon.NewRand(r.Sub("corrupt-values"))
	var magics, padlens, controls []corrupt
	for bit := 0; bit < 32; bit++ {
		magics = append(magics, corrupt{kind: "magic_bitflip", magic: ref.MagicValue ^ 1<<bit, padLen: uint32(crng.IntN(ref.MaxPadding + 1))})
	}
	for _, m := range []uint32{0, 0xffffffff, 0x7ecaf52b /* byte-swapped */, ref.MagicValue + 1, ref.MagicValue - 1} {
		magics = append(magics, corrupt{kind: "magic_special", magic: m, padLen: uint32(crng.IntN(ref.MaxPadding + 1))})
	}
	for i := 0; i < r.Pick(8, 64); i++ {
		m := crng.Uint32()
		if m == ref.MagicValue {
			m++
		}
		magics = append(magics, corrupt{kind: "magic_prng", magic: m, padLen: uint32(crng.IntN(ref.MaxPadding + 1))})
	}
	magics = append(magics, corrupt{kind: "magic_and_padlen", magic: ref.MagicValue ^ 0x100, padLen: 1 << 31})
	for _, pl := range []uint32{ref.MaxPadding + 1, ref.MaxPadding + 2, 65536, 0x00200000 /* byte-swapped 8192 */, 1<<31 - 1, 1 << 31, 1<<32 - 1} {
		padlens = append(padlens, corrupt{kind: fmt.Sprintf("padlen_%d", pl), magic: ref.MagicValue, padLen: pl})
	}
	for i := 0; i < r.Pick(6, 64); i++ {
		pl := uint32(ref.MaxPadding+1) + crng.Uint32N(1<<32-1-ref.MaxPadding)
		if i%2 == 0 {
			pl = uint32(ref.MaxPadding + 1 + crng.IntN(20000))
		}
		padlens = append(padlens, corrupt{kind: "padlen_prng", magic: ref.MagicValue, padLen: pl})
	}
	for _, pl := range []uint32{0, ref.MaxPadding, uint32(crng.IntN(ref.MaxPadding + 1)), 1} {
		controls = append(controls, corrupt{kind: fmt.Sprintf("control_padlen_%d", pl), magic: ref.MagicValue, padLen: pl, valid: true})
	}
	controls[2].kind = "control_padlen_prng"
	corruptPolicies := []int{0, 1, 11}
	if r.Thorough() {
		corruptPolicies = nil
		for i := 0; i < nHandshakePolicies; i++ {
			corruptPolicies = append(corruptPolicies, i)
		}
	}
	for _, server := range []bool{true, false} {
		for _, pol := range corruptPolicies {
			for gi, group := range [][]corrupt{magics, padlens, controls} {
				server, pol, gi, group := server, pol, gi, group
				r.Case(fmt.Sprintf("corrupt/%s/%s/%s", map[bool]string{true: "server", false: "client"}[server], []string{"magic", "padlen", "control"}[gi], policies[pol].name), func(c *mon.Case) {
					for i, cor := range group {
						seed := r.Sub("corrupt", server, pol, gi, i)
						bubble(c, fmt.Sprintf("corrupt server=%v %s %#x %d chunk=%s", server, cor.kind, cor.magic, cor.padLen, policies[pol].name), func() { runCorrupt(c, r, server, cor, pol, seed) })
					}
				})
			}
		}
	}
}
