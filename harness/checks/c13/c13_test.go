// C13 — obfs3 and UniformDH: agreement, stream integrity, padding limits and
// interoperability with an independent implementation of the obfs3 spec.
//
// Part A drives the exported uniformdh API with scripted private keys and
// compares every secret with a math/big recomputation (ref/obfs3).
//
// Part B runs obfs3 connections over a buffered in-memory wire inside synctest
// bubbles: real<->real, reference client<->real server, real client<->reference
// server.  Each endpoint has one reader and one writer goroutine; stream content
// is position dependent and checked online; at quiescence delivered must equal
// written.  The reference peer chooses every padding length, places its magic
// across read boundaries, coalesces payload with the magic, locates the real
// side's magic in the transcript (it knows the secret) and plays the hostile
// peer that exceeds the padding limit.
package c13

import (
	"bytes"
	"encoding/binary"
	"fmt"
	"io"
	"math/big"
	"net"
	"strings"
	"sync"
	"testing"
	"testing/synctest"
	"time"

	pt "gitlab.torproject.org/tpo/anti-censorship/pluggable-transports/goptlib"

	"gitlab.com/yawning/obfs4.git/common/csrand"
	"gitlab.com/yawning/obfs4.git/common/uniformdh"
	"gitlab.com/yawning/obfs4.git/transports"
	"gitlab.com/yawning/obfs4.git/transports/base"

	"verif/memwire"
	"verif/mon"
	"verif/o4"
	ref "verif/ref/obfs3"
	"verif/steer"
)

// ============================================================== key classes

type keyClass struct {
	name string
	mk   func(rng io.Reader) []byte // 192 raw private-key bytes as GenerateKey reads them
}

func fixedKey(v *big.Int) func(io.Reader) []byte {
	return func(io.Reader) []byte {
		out := make([]byte, ref.KeySize)
		v.FillBytes(out)
		return out
	}
}

func bi(n int64) *big.Int { return big.NewInt(n) }

var (
	q        = new(big.Int).Rsh(ref.P, 1) // (p-1)/2
	allOnes  = new(big.Int).Sub(new(big.Int).Lsh(bi(1), 1536), bi(1))
	topBit   = new(big.Int).Lsh(bi(1), 1535)
	prngKey  = func(rng io.Reader) []byte { b := make([]byte, ref.KeySize); io.ReadFull(rng, b); return b }
	prngEven = func(rng io.Reader) []byte { b := prngKey(rng); b[ref.KeySize-1] &^= 1; return b }
	prngOdd  = func(rng io.Reader) []byte { b := prngKey(rng); b[ref.KeySize-1] |= 1; return b }
)

// What the 192 reader bytes control (uniformdh.GenerateKey): they are the
// big-endian private key; the lowest bit of the last byte is cleared for the
// exponent and used as the X / p-X coin.  Values >= p are possible (the
// exponent is not reduced).
var keyClasses = []keyClass{
	{"prng-even", prngEven},
	{"prng-odd", prngOdd},
	{"zero", fixedKey(bi(0))},
	{"one", fixedKey(bi(1))}, // exponent 0, odd coin
	{"two", fixedKey(bi(2))},
	{"three", fixedKey(bi(3))},
	{"all-ones", fixedKey(allOnes)}, // >= p, odd coin
	{"all-ones-even", fixedKey(new(big.Int).Sub(allOnes, bi(1)))},
	{"p", fixedKey(ref.P)}, // exponent p-1: X = 1
	{"p-minus-1", fixedKey(new(big.Int).Sub(ref.P, bi(1)))},
	{"p-plus-1", fixedKey(new(big.Int).Add(ref.P, bi(1)))}, // X = 4
	{"p-plus-2", fixedKey(new(big.Int).Add(ref.P, bi(2)))},
	{"q", fixedKey(q)}, // odd; exponent q-1: X = 1/2
	{"q-plus-1", fixedKey(new(big.Int).Add(q, bi(1)))},
	{"top-bit", fixedKey(topBit)},
	{"top-bit-odd", fixedKey(new(big.Int).Add(topBit, bi(1)))},
}

type scripted struct {
	b    []byte
	used int
}

func (s *scripted) Read(p []byte) (int, error) {
	if s.used >= len(s.b) {
		return 0, io.EOF
	}
	n := copy(p, s.b[s.used:])
	s.used += n
	return n, nil
}

// ============================================================== Part A

func be192(v *big.Int) []byte { out := make([]byte, ref.KeySize); v.FillBytes(out); return out }

func secretClass(s []byte) string {
	v := new(big.Int).SetBytes(s)
	switch {
	case v.Sign() == 0:
		return "zero"
	case v.Cmp(bi(1)) == 0:
		return "one"
	case v.Cmp(new(big.Int).Sub(ref.P, bi(1))) == 0:
		return "p-minus-1"
	}
	return "other"
}

// dhPair evaluates one (private key a, private key b) pair through the real API.
func dhPair(c *mon.Case, r *mon.Run, an, bn string, a, b []byte) {
	tag := an + "," + bn
	gen := func(raw []byte, who string) (*uniformdh.PrivateKey, []byte, *ref.DHKey, bool) {
		src := &scripted{b: raw}
		k, err := uniformdh.GenerateKey(src)
		if err != nil || k == nil {
			c.Violation("uniformdh/generatekey-failed", fmt.Sprintf("GenerateKey with 192 scripted bytes (%s of %s): %v", who, tag, err), fmt.Sprintf("%x", raw))
			return nil, nil, nil, false
		}
		if src.used != ref.KeySize {
			r.Count("generatekey_read_other_than_192_bytes", 1)
		}
		pub, err := k.PublicKey.Bytes()
		if err != nil || len(pub) != ref.KeySize {
			c.Violation("uniformdh/public-key-size", fmt.Sprintf("public key of %d bytes (err %v) for key class %s", len(pub), err, who), fmt.Sprintf("%x", raw))
			return nil, nil, nil, false
		}
		rk := ref.NewDHKey(raw, false)
		switch {
		case bytes.Equal(pub, rk.Wire()):
			r.Count("pub_sent_X", 1)
			r.Distinct("coin_to_form", fmt.Sprintf("low-bit-%d->X", raw[len(raw)-1]&1))
		case bytes.Equal(pub, ref.OtherForm(rk.Wire())):
			r.Count("pub_sent_p_minus_X", 1)
			r.Distinct("coin_to_form", fmt.Sprintf("low-bit-%d->p-X", raw[len(raw)-1]&1))
		default:
			// (the agreement checks below still run: this alone says nothing about them)
			c.Violation("uniformdh/public-key-not-X-or-p-minus-X", fmt.Sprintf("public key for key class %s is neither g^x mod p nor p - g^x mod p (x = private bytes with the low bit cleared)", who), fmt.Sprintf("%x", raw))
		}
		return k, pub, rk, true
	}
	ka, pa, ra, ok := gen(a, an)
	if !ok {
		return
	}
	kb, pb, rb, ok := gen(b, bn)
	if !ok {
		return
	}
	want := be192(new(big.Int).Exp(ref.G, new(big.Int).Mul(ra.X, rb.X), ref.P)) // g^(xy)
	if !bytes.Equal(want, ra.Shared(pb)) || !bytes.Equal(want, rb.Shared(pa)) {
		c.Violation("uniformdh/secret-differs-from-bigint", fmt.Sprintf("math/big: (peer wire value)^x mod p is not g^(xy) mod p for key classes %s", tag), fmt.Sprintf("a=%x b=%x", a, b))
		return
	}
	// every combination of the form each side could have sent
	for fa, wa := range [][]byte{pa, ref.OtherForm(pa)} {
		for fb, wb := range [][]byte{pb, ref.OtherForm(pb)} {
			var pubA, pubB uniformdh.PublicKey
			if err := pubA.SetBytes(wa); err != nil {
				c.Violation("uniformdh/setbytes-rejects-192-bytes", err.Error(), tag)
				return
			}
			if err := pubB.SetBytes(wb); err != nil {
				c.Violation("uniformdh/setbytes-rejects-192-bytes", err.Error(), tag)
				return
			}
			sa, ea := uniformdh.Handshake(ka, &pubB)
			sb, eb := uniformdh.Handshake(kb, &pubA)
			form := fmt.Sprintf("a-sent-form-%d,b-sent-form-%d", fa, fb)
			if ea != nil || eb != nil {
				c.Violation("uniformdh/handshake-error", fmt.Sprintf("Handshake failed for honest keys (%s; %s): %v / %v", tag, form, ea, eb), fmt.Sprintf("a=%x b=%x", a, b))
				return
			}
			if len(sa) != ref.KeySize || len(sb) != ref.KeySize {
				c.Violation("uniformdh/secret-size", fmt.Sprintf("shared secrets of %d and %d bytes (%s; %s)", len(sa), len(sb), tag, form), fmt.Sprintf("a=%x b=%x", a, b))
				return
			}
			if !bytes.Equal(sa, sb) {
				c.Violation("uniformdh/secrets-differ", fmt.Sprintf("the two parties derive different secrets (key classes %s; %s)", tag, form), fmt.Sprintf("a=%x b=%x", a, b))
				return
			}
			if !bytes.Equal(sa, want) {
				c.Violation("uniformdh/secret-differs-from-bigint", fmt.Sprintf("both parties agree but the secret is not g^(xy) mod p as 192 big-endian bytes (key classes %s; %s)", tag, form), fmt.Sprintf("a=%x b=%x", a, b))
				return
			}
			r.Count("dh_agreements_checked", 1)
		}
	}
	r.Count("evaluations", 1)
	r.Count("dh_pairs", 1)
	r.Distinct("nontrivial", "dh|"+fmt.Sprintf("%x|%x", a[:8], b[:8])+tag)
	r.Distinct("dh_class_pairs", tag)
	r.Distinct("secret_classes_honest", secretClass(want))
}

var degeneratePeers = []struct {
	name string
	v    *big.Int
}{
	{"0", bi(0)}, {"1", bi(1)}, {"2", bi(2)}, {"p-minus-1", new(big.Int).Sub(ref.P, bi(1))}, {"p", ref.P},
	{"p-plus-1", new(big.Int).Add(ref.P, bi(1))}, {"all-ones", allOnes},
}

// degenerate records (without judging beyond size and panics) what the API
// does with peer values that no honest party sends.
func degenerate(c *mon.Case, r *mon.Run, rng io.Reader) {
	for _, kc := range keyClasses {
		raw := kc.mk(rng)
		k, err := uniformdh.GenerateKey(&scripted{b: raw})
		if err != nil {
			continue // judged in dhPair
		}
		rk := ref.NewDHKey(raw, false)
		for _, dp := range degeneratePeers {
			var pub uniformdh.PublicKey
			if err := pub.SetBytes(be192(dp.v)); err != nil {
				r.Count("degenerate_peer_"+dp.name+"_setbytes_error", 1)
				continue
			}
			s, err := uniformdh.Handshake(k, &pub)
			if err != nil {
				r.Count("degenerate_peer_"+dp.name+"_handshake_error", 1)
				continue
			}
			if len(s) != ref.KeySize {
				c.Violation("uniformdh/secret-size", fmt.Sprintf("shared secret of %d bytes for peer value %s, key class %s", len(s), dp.name, kc.name), nil)
				continue
			}
			r.Count("degenerate_peer_"+dp.name+"_accepted_secret_"+secretClass(s), 1)
			if bytes.Equal(s, rk.Shared(be192(dp.v))) {
				r.Count("degenerate_peer_secret_equals_bigint", 1)
			} else {
				r.Count("degenerate_peer_secret_differs_from_bigint", 1)
			}
			r.Count("evaluations", 1)
		}
	}
	// wrong sizes
	for _, n := range []int{0, 1, 191, 193, 384} {
		var pub uniformdh.PublicKey
		if err := pub.SetBytes(make([]byte, n)); err != nil {
			r.Count("setbytes_wrong_size_rejected", 1)
		} else {
			r.Count("setbytes_wrong_size_accepted", 1)
		}
	}
	// short reader
	if _, err := uniformdh.GenerateKey(&scripted{b: make([]byte, 100)}); err != nil {
		r.Count("generatekey_short_reader_error", 1)
	} else {
		r.Count("generatekey_short_reader_accepted", 1)
	}
}

// ============================================================== Part B

type policySpec struct {
	name string
	mk   func(seed uint64) memwire.ChunkPolicy
	win  int // applied after the handshake only: both sides write before they read
}

var policies = []policySpec{
	{"all", func(uint64) memwire.ChunkPolicy { return memwire.All() }, 0},
	{"1", func(uint64) memwire.ChunkPolicy { return memwire.Fixed(1) }, 0},
	{"7", func(uint64) memwire.ChunkPolicy { return memwire.Fixed(7) }, 0},
	{"31", func(uint64) memwire.ChunkPolicy { return memwire.Fixed(31) }, 0},
	{"32", func(uint64) memwire.ChunkPolicy { return memwire.Fixed(32) }, 0},
	{"33", func(uint64) memwire.ChunkPolicy { return memwire.Fixed(33) }, 0},
	{"192", func(uint64) memwire.ChunkPolicy { return memwire.Fixed(192) }, 0},
	{"193", func(uint64) memwire.ChunkPolicy { return memwire.Fixed(193) }, 0},
	{"prng", func(s uint64) memwire.ChunkPolicy { return memwire.PRNG(s, 700) }, 0},
	{"win4096", func(uint64) memwire.ChunkPolicy { return memwire.All() }, 4096},
}

const (
	pairRealReal  = iota
	pairRefClient // reference initiator <-> real server
	pairRefServer // real client <-> reference responder
	nPairings
)

var pairingNames = []string{"real-real", "refclient-realserver", "realclient-refserver"}

const (
	scConcurrent = iota
	scLockstep
	scBurst // the first reader of one direction sees handshake + padding + magic + payload already queued
	nScenarios
)

var scenarioNames = []string{"concurrent", "lockstep", "burst"}

// steered value of a csrand.IntRange(0, maxPadding/2) draw: Int31n(n) returns
// v % n; v = 4098*4099-1 is n-1 both for the specified n = 4098 and for a
// range that is one too large.
const steerMaxV = 4098*4099 - 1

type params struct {
	pairing, scenario int
	polC2S, polS2C    int
	straddle          int // -1, else one read of the real side ends this many bytes into the reference's magic
	refPad1, refPad2  int // -1: PRNG in [0,4097]
	coalesce          bool
	refKey            int // key class of the reference side, -1 PRNG
	refAlt            bool
	steerKey          int  // key class forced on the real side through csrand.Reader, -1 none (reference pairings only)
	steerPad          int  // -1 none; bit0: phase-1 padding of the real side max (else 0), bit1: same for phase 2
	big               int  // > 0: both sides' scripts contain single large writes from bigMenu
	tiny              bool // the applications' first 60 reads use buffers of 1..24 bytes
	seed              uint64
}

// bigMenu: single application writes well beyond any internal buffer size a
// transport might use (io.Copy's 32 KiB, 64 KiB), deliberately not multiples of them.
var bigMenu = []int{32767, 32769, 40000, 65535, 65537, 98305, 100001, 131073, 200003}

func (p params) String() string {
	return fmt.Sprintf("pairing=%s scenario=%s c2s=%s s2c=%s straddle=%d refpad=%d,%d coalesce=%v refkey=%d alt=%v steerkey=%d steerpad=%d big=%d tiny=%v seed=%x",
		pairingNames[p.pairing], scenarioNames[p.scenario], policies[p.polC2S].name, policies[p.polS2C].name, p.straddle, p.refPad1, p.refPad2, p.coalesce, p.refKey, p.refAlt, p.steerKey, p.steerPad, p.big, p.tiny, p.seed)
}

type rw interface {
	Read([]byte) (int, error)
	Write([]byte) (int, error)
}

type dirStats struct {
	panicked  bool
	written   int64
	delivered int64
	readErr   error
	writeErr  error
	mismatch  int64
}

var sizeMenu = []int{0, 1, 2, 15, 16, 17, 31, 32, 33, 192, 4096, 8226}

func script(rng interface{ IntN(int) int }, n, maxTotal int) []int {
	var out []int
	total := 0
	for i := 0; i < n; i++ {
		var sz int
		if rng.IntN(3) == 0 {
			sz = rng.IntN(3000)
		} else {
			sz = sizeMenu[rng.IntN(len(sizeMenu))]
		}
		if total+sz > maxTotal {
			sz = rng.IntN(64)
		}
		total += sz
		out = append(out, sz)
	}
	return out
}

func realClient(w net.Conn) (net.Conn, error) {
	t := transports.Get("obfs3")
	if t == nil {
		return nil, fmt.Errorf("obfs3 transport not registered")
	}
	cf, err := t.ClientFactory("")
	if err != nil {
		return nil, err
	}
	pa, err := cf.ParseArgs(&pt.Args{})
	if err != nil {
		return nil, err
	}
	return cf.Dial("tcp", "192.0.2.2:443", func(string, string) (net.Conn, error) { return w, nil }, pa)
}

// One server factory serves every connection of the process, as a bridge's
// does: whatever it remembers from one connection is there for the next.
var (
	srvOnce    sync.Once
	srvFactory base.ServerFactory
	srvErr     error
)

func realServer(w net.Conn) (net.Conn, error) {
	srvOnce.Do(func() {
		t := transports.Get("obfs3")
		if t == nil {
			srvErr = fmt.Errorf("obfs3 transport not registered")
			return
		}
		srvFactory, srvErr = t.ServerFactory("", &pt.Args{})
	})
	if srvErr != nil {
		return nil, srvErr
	}
	return srvFactory.WrapConn(w)
}

// installSteer replaces crypto/rand.Reader (read by csrand on every call) and
// csrand.Reader (an exported variable, read by the obfs3 handshake for the
// private key) by a scripted source for the duration of one connection.
func installSteer(seed uint64, key []byte, pad int, single bool) (restore func(), state *steerState) {
	st := &steerState{}
	src := steer.New(seed)
	n8 := 0
	src.Hook = func(n int64, p []byte) {
		switch {
		case len(p) == ref.KeySize && n == 0 && key != nil:
			copy(p, key)
			st.keyDraws++
		case len(p) == 8 && pad >= 0:
			var v uint64
			bit := 0
			if single && n8 > 0 {
				bit = 1
			}
			if !single && pad == 3 || single && pad>>bit&1 == 1 {
				v = steerMaxV
			}
			binary.BigEndian.PutUint64(p, v<<32)
			n8++
			st.padDraws++
		}
	}
	undo := steer.Install(src)
	old := csrand.Reader
	csrand.Reader = src
	return func() { csrand.Reader = old; undo() }, st
}

type steerState struct{ keyDraws, padDraws int }

func runConn(c *mon.Case, r *mon.Run, p params) {
	rng := mon.NewRand(p.seed)
	rr := o4.RandReader{R: rng}
	viol := func(sig, format string, a ...any) {
		c.Violation(sig, fmt.Sprintf(format, a...)+"; "+p.String(), p.String())
	}
	cw, sw := memwire.Pair(memwire.Options{Keep: true})
	c2s, s2c := cw.Out(), sw.Out() // c2s: what the server reads
	hasRef := p.pairing != pairRealReal

	// reference side parameters
	pad1, pad2 := p.refPad1, p.refPad2
	if pad1 < 0 {
		pad1 = rng.IntN(ref.MaxPhasePadding + 1)
	}
	if pad2 < 0 {
		pad2 = rng.IntN(ref.MaxPhasePadding + 1)
	}
	var refPriv []byte
	if p.refKey >= 0 {
		refPriv = keyClasses[p.refKey].mk(rr)
	} else {
		refPriv = prngKey(rr)
	}
	rp := ref.Params{Initiator: p.pairing == pairRefClient, Priv: refPriv, Alt: p.refAlt, Pad1: pad1, Pad2: pad2, Coalesce: p.coalesce, PadRand: o4.RandReader{R: mon.NewRand(p.seed ^ 0x9ad)}}
	var steerKeyBytes []byte
	if p.steerKey >= 0 {
		steerKeyBytes = keyClasses[p.steerKey].mk(rr)
	}

	// which half carries reference -> real traffic (nil for real<->real)
	var refOut, realOut *memwire.Half
	switch p.pairing {
	case pairRefClient:
		refOut, realOut = c2s, s2c
	case pairRefServer:
		refOut, realOut = s2c, c2s
	}
	magicAt := int64(ref.KeySize + pad1 + pad2) // stream offset of the reference's magic
	polFor := func(h *memwire.Half, idx int, seed uint64) {
		if p.straddle >= 0 && h == refOut {
			h.SetPolicy(memwire.Boundaries([]int64{magicAt + int64(p.straddle)}))
			return
		}
		h.SetPolicy(policies[idx].mk(seed))
	}
	polFor(c2s, p.polC2S, p.seed^1)
	polFor(s2c, p.polS2C, p.seed^2)
	setWindows := func() {
		if w := policies[p.polC2S].win; w > 0 && !(p.straddle >= 0 && c2s == refOut) {
			c2s.SetWindow(w)
		}
		if w := policies[p.polS2C].win; w > 0 && !(p.straddle >= 0 && s2c == refOut) {
			s2c.SetWindow(w)
		}
	}

	if p.steerKey >= 0 || p.steerPad >= 0 {
		restore, _ := installSteer(p.seed^0x5eed, steerKeyBytes, p.steerPad, hasRef)
		defer restore()
	}

	nW := 1 + rng.IntN(5)
	maxTotal := 20000
	for _, pi := range []int{p.polC2S, p.polS2C} {
		if policies[pi].name == "1" {
			maxTotal = 3000
		}
	}
	cScript, sScript := script(rng, nW, maxTotal), script(rng, nW, maxTotal)
	if p.big > 0 {
		b := bigMenu[(p.big-1)%len(bigMenu)]
		b2 := bigMenu[(p.big+3)%len(bigMenu)]
		cScript, sScript = []int{rng.IntN(200), b, 1 + rng.IntN(3000), b2, 17}, []int{b, 1 + rng.IntN(200), b2, 3000, 1}
		nW = 5
		r.Count("big_write_connections", 1)
	}
	gaps := func() []time.Duration {
		g := make([]time.Duration, nW)
		for i := range g {
			g[i] = time.Duration(rng.IntN(5000)) * time.Microsecond
		}
		return g
	}
	cGaps, sGaps := gaps(), gaps()
	// long silences: one side's first payload comes more than half a minute
	// after the other began to read, or every write is minutes apart
	prng := mon.NewRand(p.seed ^ 0x9011)
	switch p.seed % 6 {
	case 2:
		cGaps[0] += time.Duration(31+prng.IntN(90)) * time.Second
		r.Count("connections_with_a_first_payload_after_a_long_silence", 1)
	case 3:
		sGaps[0] += time.Duration(31+prng.IntN(90)) * time.Second
		r.Count("connections_with_a_first_payload_after_a_long_silence", 1)
	case 4:
		for i := range cGaps {
			cGaps[i] += time.Duration(prng.IntN(10)) * time.Minute
			sGaps[i] += time.Duration(prng.IntN(10)) * time.Minute
		}
		r.Count("connections_with_minutes_between_writes", 1)
	}
	// readers that poll (real endpoints only): a read deadline before every
	// Read, an expired deadline means "nothing yet" — from the end of the
	// scripted traffic on.  (Not earlier: upstream obfs3 treats every error of
	// the read that scans for the peer's magic value as fatal, an expired
	// deadline included, and says so; the property does not speak of deadlines,
	// and a connection that ends with an error delivers nothing wrong.)
	poll := &mon.Poller{Interval: time.Duration(20+prng.IntN(60)) * time.Millisecond}
	defer func() { r.Count("read_deadlines_expired_and_renewed", poll.Timeouts()) }()
	cStream, sStream := mon.Stream{Key: p.seed ^ 0xc}, mon.Stream{Key: p.seed ^ 0x5}
	var up, down dirStats // up: client->server
	up.mismatch, down.mismatch = -1, -1
	var mu sync.Mutex
	var wg sync.WaitGroup

	writeOne := func(conn rw, st mon.Stream, sz int, ds *dirStats) bool {
		mu.Lock()
		off := ds.written
		mu.Unlock()
		defer func() {
			if e := recover(); e != nil {
				mu.Lock()
				ds.panicked = true
				mu.Unlock()
				panic(e)
			}
		}()
		n, err := conn.Write(st.Bytes(off, sz))
		mu.Lock()
		ds.written = off + int64(n)
		if err == nil && n != sz {
			err = fmt.Errorf("short write %d of %d without error", n, sz)
		}
		if err != nil {
			ds.writeErr = err
		}
		mu.Unlock()
		return err == nil
	}
	writer := func(conn rw, st mon.Stream, sizes []int, gaps []time.Duration, ds *dirStats) {
		for i, sz := range sizes {
			time.Sleep(gaps[i])
			if !writeOne(conn, st, sz, ds) {
				return
			}
		}
	}
	reader := func(conn rw, own *memwire.Conn, st mon.Stream, ds *dirStats, bufSeed uint64) {
		// an application closes a connection whose Read failed; without that a
		// peer writing into a full window would stay blocked for ever
		defer own.Close()
		brng := mon.NewRand(bufSeed)
		var off int64
		for k := 0; ; k++ {
			buf := make([]byte, 1+brng.IntN(9000))
			if p.tiny && k < 60 {
				buf = buf[:1+brng.IntN(24)]
			}
			var n int
			var err error
			if nc, ok := conn.(net.Conn); ok && (ds == &up && p.pairing != pairRefServer || ds == &down && p.pairing != pairRefClient) {
				n, err = poll.Read(nc, buf)
			} else {
				n, err = conn.Read(buf)
			}
			mu.Lock()
			if n > 0 {
				if i := st.Check(buf[:n], off); i >= 0 && ds.mismatch < 0 {
					ds.mismatch = off + int64(i)
				}
				off += int64(n)
				ds.delivered = off
			}
			if err != nil {
				ds.readErr = err
			}
			mu.Unlock()
			if err != nil {
				return
			}
		}
	}
	finish := func() {
		cw.Close()
		sw.Close()
		wg.Wait()
	}
	judge := func(where string) bool {
		mu.Lock()
		u, d := up, down
		mu.Unlock()
		if u.panicked || d.panicked {
			return false
		}
		ok := true
		one := func(name string, ds dirStats, h *memwire.Half) {
			pre := "stream"
			if hasRef {
				pre = "interop"
			}
			if ds.writeErr != nil {
				viol(pre+"/write-error/"+name, "Write failed on a healthy connection: %v", ds.writeErr)
				ok = false
				return
			}
			if ds.mismatch >= 0 {
				viol(pre+"/stream-mismatch/"+name, "byte at offset %d delivered to the reader is not the byte the peer wrote there", ds.mismatch)
				ok = false
			}
			if ds.readErr != nil {
				viol(pre+"/read-error/"+name, "Read failed on a healthy connection after %d of %d bytes: %v", ds.delivered, ds.written, ds.readErr)
				ok = false
			}
			if ds.delivered < ds.written {
				viol(pre+"/stall/"+name, "quiescent (%s) with %d of %d bytes delivered, %d bytes pending on the wire", where, ds.delivered, ds.written, h.Pending())
				ok = false
			} else if ds.delivered > ds.written {
				viol(pre+"/stream-excess/"+name, "%d bytes delivered but only %d written", ds.delivered, ds.written)
				ok = false
			}
		}
		one("up", u, c2s)
		one("down", d, s2c)
		r.Count("quiescent_points_judged", 1)
		return ok
	}

	// ---- handshakes
	var cc, sc rw
	var rc *ref.Conn
	var cErr, sErr error
	var cHsWritten, sHsWritten int64 // bytes on the wire when the handshake call returned (phase 1 blob)
	var burstHalf *memwire.Half
	if p.scenario == scBurst {
		burstHalf = s2c
		if hasRef {
			burstHalf = refOut
		}
		burstHalf.Pause(true)
		// the bursting side's first write must carry payload
		if burstHalf == s2c && sScript[0] == 0 {
			sScript[0] = 13
		}
		if burstHalf == c2s && cScript[0] == 0 {
			cScript[0] = 13
		}
	}
	clientHS := func() {
		if p.pairing == pairRefClient {
			rc, cErr = ref.Handshake(cw, rp)
			if cErr == nil {
				cc = rc
			}
		} else {
			var nc net.Conn
			nc, cErr = realClient(cw)
			if cErr == nil {
				cc = nc
			}
		}
		cHsWritten = c2s.Written()
		if cErr == nil && burstHalf == c2s {
			writeOne(cc, cStream, cScript[0], &up)
			setWindows()
			burstHalf.Pause(false)
		}
	}
	serverHS := func() {
		if p.pairing == pairRefServer {
			rc, sErr = ref.Handshake(sw, rp)
			if sErr == nil {
				sc = rc
			}
		} else {
			var nc net.Conn
			nc, sErr = realServer(sw)
			if sErr == nil {
				sc = nc
			}
		}
		sHsWritten = s2c.Written()
		if sErr == nil && burstHalf == s2c {
			writeOne(sc, sStream, sScript[0], &down)
			setWindows()
			burstHalf.Pause(false)
		}
	}
	var hs sync.WaitGroup
	hs.Add(2)
	c.Go(hs.Done, clientHS)
	c.Go(hs.Done, serverHS)
	hs.Wait()
	if cErr != nil || sErr != nil {
		mu.Lock()
		pk := up.panicked || down.panicked
		mu.Unlock()
		if !pk {
			sig := "stream/handshake-failed"
			if hasRef {
				sig = "interop/handshake-failed"
			}
			viol(sig, "client handshake err=%v, server handshake err=%v", cErr, sErr)
		}
		if burstHalf != nil {
			burstHalf.Pause(false)
		}
		r.Count("evaluations", 1)
		finish()
		return
	}
	if p.scenario != scBurst {
		setWindows()
	}

	// ---- what the real side put on the wire in phase 1
	checkPhase1 := func(name string, n int64) int {
		pad := int(n) - ref.KeySize
		r.Max("real_phase1_padding_max", int64(pad))
		r.Min("real_phase1_padding_min", int64(pad))
		if pad < 0 || pad > ref.MaxPhasePadding {
			viol("real-padding/phase1-out-of-range/"+name, "the real %s had written %d bytes when its handshake returned: %d bytes of phase-1 padding, allowed [0,4097]", name, n, pad)
		}
		return pad
	}
	realPad1 := -1
	switch p.pairing {
	case pairRealReal:
		checkPhase1("client", cHsWritten)
		checkPhase1("server", sHsWritten)
	case pairRefClient:
		realPad1 = checkPhase1("server", sHsWritten)
	case pairRefServer:
		realPad1 = checkPhase1("client", cHsWritten)
	}

	wg.Add(2)
	c.Go(wg.Done, func() { reader(sc, sw, cStream, &up, p.seed^0x71) })
	c.Go(wg.Done, func() { reader(cc, cw, sStream, &down, p.seed^0x72) })

	good := true
	switch p.scenario {
	case scLockstep:
		steps := 3 + rng.IntN(6)
		for st := 0; st < steps; st++ {
			which := rng.IntN(3)
			if st == 0 {
				which = 2 // both sides open phase 2 at once
			}
			var sw2 sync.WaitGroup
			if which != 1 {
				sz := cScript[st%len(cScript)]
				sw2.Add(1)
				c.Go(sw2.Done, func() { writeOne(cc, cStream, sz, &up) })
			}
			if which != 0 {
				sz := sScript[st%len(sScript)]
				sw2.Add(1)
				c.Go(sw2.Done, func() { writeOne(sc, sStream, sz, &down) })
			}
			sw2.Wait()
			synctest.Wait()
			if !judge("lockstep-step") {
				good = false
				break
			}
			r.Count("lockstep_steps", 1)
		}
	default:
		cFirst, sFirst := 0, 0
		if p.scenario == scBurst {
			r.Count("burst_connections", 1)
			synctest.Wait()
			_, rd, _ := burstHalf.Snapshot()
			for _, e := range rd {
				r.Max("burst_largest_read", int64(e.N))
			}
			if !judge("after-burst") {
				good = false
				break
			}
			if burstHalf == c2s {
				cFirst = 1
			} else {
				sFirst = 1
			}
		}
		var writers sync.WaitGroup
		writers.Add(2)
		c.Go(writers.Done, func() { writer(sc, sStream, sScript[sFirst:], sGaps[sFirst:], &down) })
		c.Go(writers.Done, func() { writer(cc, cStream, cScript[cFirst:], cGaps[cFirst:], &up) })
		writers.Wait()
		synctest.Wait()
		good = judge("end")
	}

	// polling phase: the real readers go on by polling, and bursts arrive in
	// two parts with a pause between them that outlasts several deadlines
	if good && p.seed%5 <= 2 {
		var rc []net.Conn
		if nc, ok := sc.(net.Conn); ok && p.pairing != pairRefServer {
			rc = append(rc, nc)
		}
		if nc, ok := cc.(net.Conn); ok && p.pairing != pairRefClient {
			rc = append(rc, nc)
		}
		poll.Start(rc...)
		synctest.Wait()
		if p.seed%4 >= 2 {
			// bytes that arrive as the deadline expires: the wire hands them over
			// together with the timeout error, as io.Reader allows
			c2s.SetTimeoutWithData(true)
			s2c.SetTimeoutWithData(true)
			r.Count("polling_phases_with_bytes_and_timeout_in_one_read", 1)
		}
		for round := 0; round < 4 && good; round++ {
			upward := (int(p.seed>>3)+round)&1 == 0
			if p.pairing == pairRefServer {
				upward = false
			} else if p.pairing == pairRefClient {
				upward = true
			}
			wconn, st, ds, half := cc, cStream, &up, c2s
			if !upward {
				wconn, st, ds, half = sc, sStream, &down, s2c
			}
			t0 := poll.Timeouts()
			half.SetCut(half.Written()+int64(1+prng.IntN(60)), memwire.CutSilence)
			var w sync.WaitGroup
			w.Add(1)
			sz := 1 + prng.IntN(2500)
			c.Go(w.Done, func() { writeOne(wconn, st, sz, ds) })
			time.Sleep(time.Duration(150+prng.IntN(400)) * time.Millisecond)
			half.SetCut(-1, memwire.CutSilence)
			w.Wait()
			time.Sleep(200 * time.Millisecond) // (bytes held till a deadline are through after one polling interval)
			synctest.Wait()
			if poll.Timeouts() > t0 {
				r.Count("bursts_delivered_across_expired_read_deadlines", 1)
			}
			good = judge("polling-reader")
		}
		if good {
			r.Count("polling_phases_verified", 1)
		}
	}

	// closing phase: one side writes a last piece and its connection ends (a
	// half-close on the wire) while that piece is still in flight, so that the
	// reader's last network read brings the end of the stream right behind the
	// data or — as an io.Reader may — together with it.  Everything written
	// must be delivered before the reader's Read reports the end.
	if good {
		upward := p.seed&1 == 0
		if p.pairing == pairRefServer {
			upward = false
		} else if p.pairing == pairRefClient {
			upward = true
		}
		wconn, st, ds, half, name := cc, cStream, &up, c2s, "up"
		if !upward {
			wconn, st, ds, half, name = sc, sStream, &down, s2c, "down"
		}
		withData := p.seed&2 != 0
		reset := p.seed%7 >= 5 // the end is a reset that arrives together with the last data
		if reset {
			withData = true
		}
		half.Pause(true)
		writeOne(wconn, st, 1+rng.IntN(3000), ds) // (below the smallest wire window: the wire is held)
		half.SetErrWithData(withData)
		if reset {
			half.SetCut(half.Written(), memwire.CutRST)
			r.Count("closing_phases_reset_with_last_data", 1)
		} else {
			half.CloseWrite()
		}
		half.Pause(false)
		if poll.On() {
			time.Sleep(200 * time.Millisecond) // (see the polling phase)
		}
		synctest.Wait()
		mu.Lock()
		e := *ds
		mu.Unlock()
		if reset && e.delivered < e.written && e.readErr != nil {
			// what arrives with a reset may be dropped; it may not be altered
			e.delivered = e.written
		}
		r.Count("closing_phases", 1)
		if withData {
			r.Count("closing_phases_end_reported_with_last_data", 1)
		}
		switch {
		case e.mismatch >= 0:
			viol("stream/mismatch-in-the-last-bytes-before-the-end/"+name, "byte at offset %d delivered to the reader is not the byte the peer's application wrote there (the connection ended right behind the last piece; end reported together with data: %v)", e.mismatch, withData)
		case e.readErr == nil:
			viol("stream/end-not-reported/"+name, "the peer's connection ended after %d bytes but Read has not reported it at quiescence (%d delivered)", e.written, e.delivered)
		case e.delivered != e.written:
			viol("stream/lost-at-end/"+name, "%d bytes were written before the connection ended, Read reported the end (%v) after delivering %d (end reported together with data: %v)", e.written, e.readErr, e.delivered, withData)
		default:
			r.Count("closing_phases_all_delivered_before_the_end", 1)
		}
	}

	// ---- observations that need the reference's knowledge of the secret
	mu.Lock()
	u, d := up, down
	mu.Unlock()
	if hasRef && good {
		_, _, realData := realOut.Snapshot()
		// the real side's public key as the reference received it
		if p.steerKey >= 0 {
			want := ref.NewDHKey(steerKeyBytes, false).Wire()
			if bytes.Equal(rc.PeerPub, want) || bytes.Equal(rc.PeerPub, ref.OtherForm(want)) {
				r.Count("steered_real_keys_effective", 1)
				r.Distinct("steered_real_key_classes", keyClasses[p.steerKey].name)
				r.Distinct("secret_classes_in_transport", secretClass(rc.Shared))
			} else {
				r.Count("steer_missed_key", 1)
			}
		}
		total, opened := rc.PeerPadding()
		if opened {
			realPad2 := total - realPad1
			r.Max("real_phase2_padding_max", int64(realPad2))
			r.Min("real_phase2_padding_min", int64(realPad2))
			r.Max("real_total_padding_max", int64(total))
			r.Min("real_total_padding_min", int64(total))
			r.Count("real_magic_located", 1)
			if realPad2 < 0 || realPad2 > ref.MaxPhasePadding {
				viol("real-padding/phase2-out-of-range", "the real side sent %d bytes between its phase-1 blob and its magic, allowed [0,4097] (phase 1: %d)", realPad2, realPad1)
			}
			if total > ref.MaxPadding {
				viol("real-padding/total-exceeds-8194", "the real side's magic is %d bytes behind its public key", total)
			}
			if at := ref.KeySize + total; len(realData) < at+ref.MagicLen || !bytes.Equal(realData[at:at+ref.MagicLen], rc.RxMagic()) {
				viol("harness/magic-not-in-transcript", "reference located the magic at %d but the transcript disagrees", at)
			}
			if p.steerPad >= 0 {
				w1, w2 := 0, 0
				if p.steerPad&1 == 1 {
					w1 = ref.MaxPhasePadding
				}
				if p.steerPad&2 == 2 {
					w2 = ref.MaxPhasePadding
				}
				if realPad1 == w1 && realPad2 == w2 {
					r.Count("steered_real_padding_effective", 1)
					r.Distinct("steered_real_padding_combos", fmt.Sprintf("%d,%d", w1, w2))
				} else if realPad1 <= ref.MaxPhasePadding && realPad2 <= ref.MaxPhasePadding {
					r.Count("steer_missed_padding", 1)
				}
			}
		} else if (realOut == c2s && u.written > 0) || (realOut == s2c && d.written > 0) {
			viol("interop/reference-did-not-find-real-magic", "the real side wrote payload but the reference never located its magic")
		}
		// did one read of the real side end inside the reference's magic?
		if p.straddle >= 0 {
			_, rd, _ := refOut.Snapshot()
			var off int64
			hit := false
			for _, e := range rd {
				off += int64(e.N)
				if off == magicAt+int64(p.straddle) {
					hit = true
				}
			}
			if hit {
				r.Count("straddle_realised", 1)
				r.Distinct("straddle_positions", fmt.Sprint(p.straddle))
			} else {
				r.Inconclusive(fmt.Sprintf("no read of the real side ended %d bytes into the magic; %s", p.straddle, p))
			}
		}
		r.Distinct("ref_pad1_"+pairingNames[p.pairing], fmt.Sprint(pad1))
		r.Distinct("ref_pad2_"+pairingNames[p.pairing], fmt.Sprint(pad2))
		r.Distinct("ref_pad_pairs", fmt.Sprintf("%d,%d", pad1, pad2))
		if p.coalesce {
			r.Count("ref_payload_coalesced_with_magic", 1)
		} else {
			r.Count("ref_payload_separate_from_magic", 1)
		}
		if p.refKey >= 0 {
			r.Distinct("ref_key_classes", keyClasses[p.refKey].name)
		}
	}
	if p.pairing == pairRealReal && p.steerPad >= 0 && good {
		want := int64(ref.KeySize)
		if p.steerPad == 3 {
			want += ref.MaxPhasePadding
		}
		if cHsWritten == want && sHsWritten == want {
			r.Count("steered_real_real_padding_effective", 1)
		} else {
			r.Count("steer_missed_padding", 1)
		}
	}

	r.Count("evaluations", 1)
	r.Count("connections", 1)
	r.Count("connections_"+pairingNames[p.pairing], 1)
	r.Count("scenario_"+scenarioNames[p.scenario], 1)
	r.Count("app_bytes_up", u.delivered)
	r.Count("app_bytes_down", d.delivered)
	wu, ru, _ := c2s.Snapshot()
	wd, rd, _ := s2c.Snapshot()
	r.Count("wire_writes", int64(len(wu)+len(wd)))
	r.Count("wire_reads", int64(len(ru)+len(rd)))
	if good && u.delivered+d.delivered > 0 {
		r.Distinct("nontrivial", p.String())
	}
	r.Distinct("cells", fmt.Sprintf("%d|%d|%d|%d", p.pairing, p.scenario, p.polC2S, p.polS2C))
	r.Sample(map[string]any{"params": p.String(), "client_writes": cScript, "server_writes": sScript, "delivered_up": u.delivered, "delivered_down": d.delivered, "ref_padding": []int{pad1, pad2}, "real_phase1_blob": []int64{cHsWritten, sHsWritten}})
	finish()
}

// ============================================================== rejection

type rejVariant struct {
	name    string
	pad1    int   // phase-1 padding of the hostile reference peer
	pad2    int   // bytes before the magic in phase 2 (or total garbage when !magic)
	magic   bool  // send the magic (and payload) behind pad2
	cutLast int   // >0: hold back the last cutLast bytes of the magic until the real reader is blocked (control)
	script  []int // read sizes after the 192-byte key (nil: policy below)
	fixed   int   // Fixed(n) chunking, 0 = all available
	accept  bool  // control: must be accepted and the payload delivered
}

var rejVariants = []rejVariant{
	// more than MAX_PADDING (+32) bytes and no magic
	{name: "nomagic/8226/all", pad1: 4097, pad2: 4129},
	{name: "nomagic/8226/by1000", pad1: 4097, pad2: 4129, fixed: 1000},
	{name: "nomagic/8226/by1", pad1: 0, pad2: 8226, fixed: 1},
	{name: "nomagic/8227/by4113", pad1: 8227, pad2: 0, fixed: 4113},
	{name: "nomagic/9000/by1000", pad1: 3000, pad2: 6000, fixed: 1000},
	{name: "nomagic/20000/all", pad1: 4097, pad2: 15903},
	// the magic, but behind more than MAX_PADDING bytes; where a script is
	// given the read that takes the buffer past 8226 bytes also completes the
	// magic, so only the position test can reject
	{name: "late/8195/all", pad1: 4097, pad2: 4098, magic: true},
	{name: "late/8195/cross", pad1: 4097, pad2: 4098, magic: true, script: []int{6000}},
	{name: "late/8195/cross-phase1", pad1: 8195, pad2: 0, magic: true, script: []int{8000}},
	{name: "late/8196/cross", pad1: 0, pad2: 8196, magic: true, script: []int{1, 999}},
	{name: "late/8226/cross", pad1: 4113, pad2: 4113, magic: true, script: []int{4113}},
	{name: "late/8227/cross", pad1: 4098, pad2: 4129, magic: true, script: []int{5000}},
	{name: "late/10000/cross", pad1: 5000, pad2: 5000, magic: true, script: []int{2000, 6000}},
	{name: "late/14194/cross", pad1: 7097, pad2: 7097, magic: true, script: []int{6000}},
	{name: "late/8195/by1", pad1: 1, pad2: 8194, magic: true, fixed: 1},
	{name: "late/9000/by33", pad1: 4500, pad2: 4500, magic: true, fixed: 33},
	// controls: exactly MAX_PADDING is fine
	{name: "control/8194/all", pad1: 4097, pad2: 4097, magic: true, accept: true},
	{name: "control/8194/by1", pad1: 4097, pad2: 4097, magic: true, fixed: 1, accept: true},
	{name: "control/8194/cross", pad1: 4097, pad2: 4097, magic: true, script: []int{6000}, accept: true},
	{name: "control/8194/one-phase", pad1: 0, pad2: 8194, magic: true, script: []int{8193, 1, 31, 1}, accept: true},
	{name: "control/8194/magic-byte-held-back", pad1: 4097, pad2: 4097, magic: true, cutLast: 1, accept: true},
	{name: "control/8194/magic-31-held-back", pad1: 8194, pad2: 0, magic: true, cutLast: 31, accept: true},
	{name: "control/0/all", pad1: 0, pad2: 0, magic: true, accept: true},
}

func runReject(c *mon.Case, r *mon.Run, role int, v rejVariant, seed uint64) {
	rng := mon.NewRand(seed)
	rr := o4.RandReader{R: rng}
	desc := fmt.Sprintf("role=%s variant=%s seed=%x", pairingNames[role], v.name, seed)
	viol := func(sig, format string, a ...any) { c.Violation(sig, fmt.Sprintf(format, a...)+"; "+desc, desc) }
	cw, sw := memwire.Pair(memwire.Options{Keep: true})
	var refW net.Conn = cw
	refOut := cw.Out()
	if role == pairRefServer {
		refW, refOut = sw, sw.Out()
	}
	switch {
	case v.script != nil:
		refOut.SetPolicy(memwire.Script(append([]int{ref.KeySize}, v.script...), memwire.All()))
	case v.fixed > 0:
		refOut.SetPolicy(memwire.Fixed(v.fixed))
	}
	refOut.Pause(true) // the real side sees nothing until the whole hostile prefix is queued
	rp := ref.Params{Initiator: role == pairRefClient, Priv: prngKey(rr), Alt: rng.IntN(2) == 1, Pad1: v.pad1, PadRand: o4.RandReader{R: mon.NewRand(seed ^ 0x9ad)}}
	var rc *ref.Conn
	var real net.Conn
	var rErr, hErr error
	var hs sync.WaitGroup
	hs.Add(2)
	payload := mon.Stream{Key: seed ^ 0xee}
	const payloadLen = 300
	var held []byte
	c.Go(hs.Done, func() {
		rc, hErr = ref.Handshake(refW, rp)
		if hErr != nil {
			refOut.Pause(false)
			return
		}
		raw := rc.Padding(v.pad2)
		if v.magic {
			raw = append(raw, rc.TxMagic()...)
			if v.cutLast > 0 {
				held = append(held, raw[len(raw)-v.cutLast:]...)
				raw = raw[:len(raw)-v.cutLast]
				held = append(held, rc.Encrypt(payload.Bytes(0, payloadLen))...)
			} else {
				raw = append(raw, rc.Encrypt(payload.Bytes(0, payloadLen))...)
			}
		}
		refW.Write(raw)
		refOut.Pause(false)
	})
	c.Go(hs.Done, func() {
		if role == pairRefClient {
			real, rErr = realServer(sw)
		} else {
			real, rErr = realClient(cw)
		}
	})
	hs.Wait()
	closeAll := func() { cw.Close(); sw.Close() }
	if rErr != nil || hErr != nil {
		viol("interop/handshake-failed", "hostile-peer setup: real handshake err=%v, reference err=%v", rErr, hErr)
		closeAll()
		return
	}
	var mu sync.Mutex
	var delivered int64
	var readErr error
	mismatch := int64(-1)
	var wg sync.WaitGroup
	wg.Add(1)
	c.Go(wg.Done, func() {
		buf := make([]byte, 4096)
		var off int64
		for {
			n, err := real.Read(buf)
			mu.Lock()
			if n > 0 {
				if i := payload.Check(buf[:n], off); i >= 0 && mismatch < 0 {
					mismatch = off + int64(i)
				}
				off += int64(n)
				delivered = off
			}
			if err != nil {
				readErr = err
			}
			mu.Unlock()
			if err != nil {
				return
			}
		}
	})
	synctest.Wait()
	if v.cutLast > 0 {
		mu.Lock()
		dl, re := delivered, readErr
		mu.Unlock()
		if re == nil && dl == 0 {
			r.Count("control_reader_waits_for_rest_of_magic", 1)
		}
		refW.Write(held)
		synctest.Wait()
	}
	mu.Lock()
	dl, re, mm := delivered, readErr, mismatch
	mu.Unlock()
	kind := strings.SplitN(v.name, "/", 2)[0]
	if v.accept {
		switch {
		case re != nil:
			viol("reject/control-rejected", "a peer within the limit (%d + %d bytes of padding, then the magic) was rejected: %v", v.pad1, v.pad2, re)
		case mm >= 0:
			viol("interop/stream-mismatch/control", "payload byte %d differs", mm)
		case dl != payloadLen:
			viol("interop/stall/control", "quiescent with %d of %d payload bytes delivered behind %d + %d bytes of padding", dl, payloadLen, v.pad1, v.pad2)
		default:
			r.Count("control_max_padding_accepted", 1)
		}
	} else {
		switch {
		case dl > 0:
			viol("reject/data-delivered/"+kind, "the real endpoint delivered %d bytes from a peer that sent %d + %d bytes and %s", dl, v.pad1, v.pad2, map[bool]string{true: "its magic only behind them", false: "no magic"}[v.magic])
		case re == nil:
			viol("reject/not-rejected/"+kind, "the real endpoint's Read is still waiting after %d + %d bytes and %s (%d bytes queued)", v.pad1, v.pad2, map[bool]string{true: "a magic behind more than 8194 bytes", false: "no magic"}[v.magic], refOut.Pending())
		default:
			r.Count("control_hostile_peer_rejected", 1)
			r.Count("rejected_"+kind, 1)
			r.Distinct("rejection_errors", re.Error())
		}
	}
	_, rd, _ := refOut.Snapshot()
	var sizes []int
	for _, e := range rd {
		if len(sizes) < 6 {
			sizes = append(sizes, e.N)
		}
	}
	r.Count("evaluations", 1)
	r.Count("connections", 1)
	r.Count("connections_hostile_"+pairingNames[role], 1)
	r.Distinct("nontrivial", desc)
	r.Distinct("rejection_variants", fmt.Sprintf("%d|%s", role, v.name))
	r.Sample(map[string]any{"hostile": desc, "first_reads_of_real_side": sizes, "read_error": fmt.Sprint(re), "delivered": dl})
	closeAll()
	wg.Wait()
}

// ============================================================== driver

func bubble(c *mon.Case, what string, fn func()) {
	defer func() {
		if e := recover(); e != nil {
			sig := "panic-in-case"
			if strings.HasPrefix(fmt.Sprint(e), "deadlock:") {
				sig = "wedge/goroutines-still-blocked-after-close"
			}
			c.Violation(sig, fmt.Sprintf("%v; %s", e, what), what)
		}
	}()
	synctest.Test(c.T, func(t *testing.T) { fn() })
}

func TestCheck(t *testing.T) {
	r := mon.Start(t, "C13")
	defer r.Finish()
	r.SpinWatch(memwire.BytesMoved)
	r.Note("rule", "Part A: uniformdh.GenerateKey fed scripted 192-byte readers (PRNG even/odd, 0, 1, 2, 3, all-ones, p, p+-1, p+2, q, q+1, top bit; the last bit is the X / p-X coin) in all class pairs plus PRNG pairs; for each pair both public keys must be 192 bytes and equal g^x or p-g^x, and for all four combinations of the form each side could have sent (the sent one and p minus it, through PublicKey.SetBytes) both Handshake results must be 192 bytes, equal, and equal g^(xy) mod p computed with math/big. Degenerate peer values (0, 1, 2, p-1, p, p+1, all-ones) are only recorded. "+
		"Part B: obfs3 connections over a buffered in-memory wire in synctest bubbles, pairings real<->real, reference client<->real server, real client<->reference server; one reader and one writer goroutine per endpoint under the race detector, PRF stream checked online, delivered==written judged at quiescence (end, after every lockstep step, after a burst in which handshake, padding, magic and payload are queued before the reader runs). Families: grid pairing x scenario x chunk policy {all,1,7,31,32,33,192,193,PRNG,4 KiB window after the handshake}; reference padding sweep (every value 0..4097 in phase 1 and phase 2 in the thorough tier, edges 0, 1, 4096, 4097 + 96 PRNG values in quick) for both roles; magic straddling a read boundary at each offset 0..32 with payload coalesced or separate; real side steered through crypto/rand.Reader and csrand.Reader to extreme private keys and to minimum/maximum padding; hostile reference peers (no magic within 8226 bytes, magic behind more than 8194 bytes, with chunkings that leave the decision to the position test) and controls at exactly 8194. The reference locates the real side's magic in the transcript and bounds its padding per phase and in total. Non-trivial = handshake completed and payload flowed (or the hostile case reached its verdict); distinct = distinct parameter tuple.")
	r.Note("exhaustive_part", "thorough tier: every reference padding length 0..4097 in phase 1 and in phase 2, in both roles; every straddle offset 0..32 x coalesced/separate x role; all pairs of the 16 private-key classes; all hostile variants x role")

	// ---- Part A
	nc := len(keyClasses)
	for i := 0; i < nc; i++ {
		i := i
		r.Case(fmt.Sprintf("dh/classes/%s", keyClasses[i].name), func(c *mon.Case) {
			rng := o4.RandReader{R: mon.NewRand(r.Sub("dh-classes", i))}
			for j := 0; j < nc; j++ {
				dhPair(c, r, keyClasses[i].name, keyClasses[j].name, keyClasses[i].mk(rng), keyClasses[j].mk(rng))
			}
		})
	}
	nPrngBatches, perBatch := 16, r.Pick(10, 300)
	for b := 0; b < nPrngBatches; b++ {
		b := b
		r.Case(fmt.Sprintf("dh/prng/%02d", b), func(c *mon.Case) {
			rng := o4.RandReader{R: mon.NewRand(r.Sub("dh-prng", b))}
			for k := 0; k < perBatch; k++ {
				dhPair(c, r, "prng", "prng", prngKey(rng), prngKey(rng))
			}
		})
	}
	r.Case("dh/degenerate-peers", func(c *mon.Case) {
		degenerate(c, r, o4.RandReader{R: mon.NewRand(r.Sub("dh-degenerate"))})
	})

	// ---- Part B: grid
	nPer := r.Pick(3, 60)
	for pairing := 0; pairing < nPairings; pairing++ {
		for scen := 0; scen < nScenarios; scen++ {
			for pi := range policies {
				pairing, scen, pi := pairing, scen, pi
				r.Case(fmt.Sprintf("grid/%s/%s/%s", pairingNames[pairing], scenarioNames[scen], policies[pi].name), func(c *mon.Case) {
					for k := 0; k < nPer; k++ {
						pj := (pi*3 + k*7 + scen) % len(policies)
						p := params{pairing: pairing, scenario: scen, polC2S: pi, polS2C: pj, straddle: -1, refPad1: -1, refPad2: -1, coalesce: k%2 == 0,
							refKey: -1, refAlt: k%4 < 2, steerKey: -1, steerPad: -1, seed: r.Sub("grid", pairing, scen, pi, k)}
						if k%2 == 1 {
							p.polC2S, p.polS2C = pj, pi
						}
						bubble(c, p.String(), func() { runConn(c, r, p) })
					}
				})
			}
		}
	}

	r.Note("big_writes", "additional family: both sides perform single application writes of 32767..200003 bytes (not multiples of 32 KiB / 64 KiB) between small writes, under all-available / PRNG / 4 KiB-window chunking; counted as big_write_connections")
	// ---- Part A2: single large application writes (not multiples of 32 KiB / 64 KiB)
	for pairing := 0; pairing < nPairings; pairing++ {
		pairing := pairing
		r.Case("big-writes/"+pairingNames[pairing], func(c *mon.Case) {
			for bi := range bigMenu {
				for vi, v := range [][3]int{{scConcurrent, 0, 0}, {scLockstep, 8, 9}, {scBurst, 9, 8}} {
					if !r.Thorough() && (bi+vi)%3 != 0 {
						continue
					}
					p := params{pairing: pairing, scenario: v[0], polC2S: v[1], polS2C: v[2], straddle: -1, refPad1: -1, refPad2: -1, coalesce: bi%2 == 0,
						refKey: -1, refAlt: bi%4 < 2, steerKey: -1, steerPad: -1, big: bi + 1, seed: r.Sub("big", pairing, bi, vi)}
					bubble(c, p.String(), func() { runConn(c, r, p) })
				}
			}
		})
	}

	// ---- Part A3: several connections alive at once in one process, used in an
	// interleaved way, with payload coalesced with the magic and applications
	// that read in tiny pieces (whatever a connection keeps between reads must
	// be its own)
	r.Note("interleaved_connections", "additional family (mon.Interleave): 3 real<->real connections alive at once in one bubble, driven round-robin from one goroutine: all endpoints write (so that padding, magic and payload are queued before anybody reads), then read in pieces of 1..24 bytes, one Read per endpoint per round, write again, drain; every direction carries its own PRF stream; every third group instead with a writer and a reader goroutine per endpoint on all processors at once (mon.Parallel, 40..150 kB per direction)")
	for g := 0; g < r.Pick(18, 240); g++ {
		g := g
		r.Case(fmt.Sprintf("interleaved-connections/%03d", g), func(c *mon.Case) {
			bubble(c, fmt.Sprintf("interleaved group %d", g), func() {
				var links []mon.Link
				var wires []*memwire.Conn
				for k := 0; k < 3; k++ {
					cw, sw := memwire.Pair(memwire.Options{})
					wires = append(wires, cw, sw)
					var sc net.Conn
					var serr error
					done := make(chan struct{})
					c.Go(func() { close(done) }, func() { sc, serr = realServer(sw) })
					cc, cerr := realClient(cw)
					<-done
					if cerr != nil || serr != nil {
						c.Violation("interop/handshake-failed", fmt.Sprintf("interleaved group: %v / %v", cerr, serr), nil)
						continue
					}
					links = append(links, mon.Link{Name: fmt.Sprintf("conn%d", k), A: cc, B: sc})
				}
				if g%3 == 2 {
					// the same group on all processors at once instead
					wait := mon.Parallel(c, r, "parallel-connections", links, []int{40000, 150000}[g/3%2], []int{6000, 70000}[g/6%2], r.Sub("il", g))
					for _, w := range wires {
						w.Close()
					}
					wait()
					return
				}
				mon.Interleave(c, r, "interleaved-connections", links, r.Sub("il", g))
				for _, w := range wires {
					w.Close()
				}
			})
		})
	}

	// ---- Part B: reference padding sweep
	var padVals []int
	if r.Thorough() {
		for v := 0; v <= ref.MaxPhasePadding; v++ {
			padVals = append(padVals, v)
		}
	} else {
		padVals = []int{0, 1, 4096, 4097}
		prng := mon.NewRand(r.Sub("padvals"))
		for len(padVals) < 100 {
			padVals = append(padVals, 2+prng.IntN(4094))
		}
	}
	nv := len(padVals)
	batch := r.Pick(4, 64)
	for role := pairRefClient; role <= pairRefServer; role++ {
		for lo := 0; lo < nv; lo += batch {
			role, lo := role, lo
			r.Case(fmt.Sprintf("padsweep/%s/%04d", pairingNames[role], lo), func(c *mon.Case) {
				for i := lo; i < lo+batch && i < nv; i++ {
					// phase 2 runs through the same list in reverse, so that every
					// value occurs in both phases and min meets max
					p := params{pairing: role, scenario: []int{scConcurrent, scBurst, scLockstep}[i%3], polC2S: i % len(policies), polS2C: (i / 3) % len(policies), straddle: -1,
						refPad1: padVals[i], refPad2: padVals[nv-1-i], coalesce: i%2 == 0, refKey: -1, refAlt: i%4 < 2, steerKey: -1, steerPad: -1, seed: r.Sub("padsweep", role, i)}
					bubble(c, p.String(), func() { runConn(c, r, p) })
				}
			})
		}
	}
	// the four corners explicitly, all policies on the direction the real side reads
	corners := [][2]int{{0, 0}, {0, 4097}, {4097, 0}, {4097, 4097}}
	for role := pairRefClient; role <= pairRefServer; role++ {
		for ci, cn := range corners {
			role, ci, cn := role, ci, cn
			r.Case(fmt.Sprintf("padcorner/%s/%d-%d", pairingNames[role], cn[0], cn[1]), func(c *mon.Case) {
				for pi := range policies {
					for rep := 0; rep < r.Pick(1, 4); rep++ {
						p := params{pairing: role, scenario: (pi + rep) % nScenarios, polC2S: pi, polS2C: pi, straddle: -1, refPad1: cn[0], refPad2: cn[1], coalesce: (pi+rep)%2 == 0,
							refKey: -1, refAlt: rep%2 == 0, steerKey: -1, steerPad: -1, seed: r.Sub("padcorner", role, ci, pi, rep)}
						bubble(c, p.String(), func() { runConn(c, r, p) })
					}
				}
			})
		}
	}

	// ---- Part B: magic straddling a read boundary
	padCombos := r.Pick(1, 16)
	for role := pairRefClient; role <= pairRefServer; role++ {
		for _, coalesce := range []bool{false, true} {
			role, coalesce := role, coalesce
			for k0 := 0; k0 <= 32; k0 += 3 {
				k0 := k0
				r.Case(fmt.Sprintf("straddle/%s/coalesce-%v/%02d", pairingNames[role], coalesce, k0), func(c *mon.Case) {
					for k := k0; k < k0+3 && k <= 32; k++ {
						for pc := 0; pc < padCombos; pc++ {
							p := params{pairing: role, scenario: (k + pc) % nScenarios, polC2S: 0, polS2C: 0, straddle: k, refPad1: -1, refPad2: -1, coalesce: coalesce,
								refKey: -1, refAlt: pc%2 == 0, steerKey: -1, steerPad: -1, seed: r.Sub("straddle", role, coalesce, k, pc)}
							switch pc {
							case 1:
								p.refPad1, p.refPad2 = 0, 0
							case 2:
								p.refPad1, p.refPad2 = 4097, 4097
							case 3:
								p.refPad1, p.refPad2 = 0, 4097
							case 4:
								p.refPad1, p.refPad2 = 4097, 0
							}
							bubble(c, p.String(), func() { runConn(c, r, p) })
						}
					}
				})
			}
		}
	}

	// ---- Part B: real side steered (private key classes, padding extremes)
	reps := r.Pick(1, 8)
	for role := pairRefClient; role <= pairRefServer; role++ {
		for kc := range keyClasses {
			role, kc := role, kc
			r.Case(fmt.Sprintf("steer/%s/key-%s", pairingNames[role], keyClasses[kc].name), func(c *mon.Case) {
				for sp := 0; sp < 4; sp++ {
					for rep := 0; rep < reps; rep++ {
						if !r.Thorough() && sp != (kc+role)%4 && !(kc < 2) {
							continue // quick: PRNG keys with all four padding corners, each extreme key with one
						}
						p := params{pairing: role, scenario: (kc + sp + rep) % nScenarios, polC2S: (kc + rep) % len(policies), polS2C: (kc + sp + 3*rep) % len(policies), straddle: -1,
							refPad1: -1, refPad2: -1, coalesce: sp%2 == 0, refKey: (kc*5 + sp + rep) % len(keyClasses), refAlt: rep%2 == 0, steerKey: kc, steerPad: sp, seed: r.Sub("steer", role, kc, sp, rep)}
						bubble(c, p.String(), func() { runConn(c, r, p) })
					}
				}
			})
		}
	}
	for _, sp := range []int{0, 3} {
		sp := sp
		r.Case(fmt.Sprintf("steer/real-real/pad-%d", sp), func(c *mon.Case) {
			for pi := range policies {
				if !r.Thorough() && pi%3 != 0 {
					continue
				}
				p := params{pairing: pairRealReal, scenario: pi % nScenarios, polC2S: pi, polS2C: (pi + 4) % len(policies), straddle: -1, refPad1: -1, refPad2: -1,
					refKey: -1, steerKey: -1, steerPad: sp, seed: r.Sub("steer-rr", sp, pi)}
				bubble(c, p.String(), func() { runConn(c, r, p) })
			}
		})
	}

	// ---- Part B: hostile peers and controls
	for role := pairRefClient; role <= pairRefServer; role++ {
		for vi, v := range rejVariants {
			role, vi, v := role, vi, v
			r.Case(fmt.Sprintf("reject/%s/%s", pairingNames[role], v.name), func(c *mon.Case) {
				for rep := 0; rep < r.Pick(1, 12); rep++ {
					seed := r.Sub("reject", role, vi, rep)
					bubble(c, fmt.Sprintf("reject %s %s rep %d", pairingNames[role], v.name, rep), func() { runReject(c, r, role, v, seed) })
				}
			})
		}
	}
}
