// C06 — obfs4 wire format stays interoperable with the deployed protocol.
//
// An independent implementation of the deployed format (ref/obfs4) is one side
// of every connection: it must complete the handshake with the real endpoint
// in both roles and for both bridge-line formats, exchange position-dependent
// data both ways, and re-derive byte for byte everything the real side emits
// (handshake fields and length ranges, mark/MAC, key schedule and direction
// split, frame length masks, nonces, packet layout, zero padding, the unpadded
// seed frame behind the server response).
package c06

import (
	"bytes"
	"crypto/rand"
	"encoding/binary"
	"flag"
	"fmt"
	"io"
	"net"
	"sync"
	"sync/atomic"
	"testing"
	"testing/synctest"
	"time"

	pt "gitlab.torproject.org/tpo/anti-censorship/pluggable-transports/goptlib"

	"gitlab.com/yawning/obfs4.git/common/drbg"
	"gitlab.com/yawning/obfs4.git/common/ntor"
	"gitlab.com/yawning/obfs4.git/transports/obfs4/framing"

	"verif/memwire"
	"verif/mon"
	"verif/o4"
	ref "verif/ref/obfs4"
	"verif/steer"
)

type params struct {
	role   string // "refclient" or "refserver"
	legacy bool
	iat    int
	biased bool
	steer  int // 0 none, 1 real side draws minimum padding, 2 maximum
	refPad int // -1 PRNG, else exact
	chunk  int // chunk policy index for what the REAL side reads
	// rollover: the handshake starts 10 ms before the top of the hour and the
	// message of the side that speaks is delivered only after it (the epoch
	// hour changes while the handshake is in flight)
	rollover bool
	// bulk > 0 (refserver only): the reference server sends that many payload
	// bytes right behind its response and seed frame, and the client receives
	// all of it only after a short first read (the read that completes the
	// response also brings the data behind it)
	bulk int
	seed uint64
}

func (p params) String() string {
	return fmt.Sprintf("role=%s legacy=%v iat=%d biased=%v steer=%d refpad=%d chunk=%d rollover=%v seed=%x", p.role, p.legacy, p.iat, p.biased, p.steer, p.refPad, p.chunk, p.rollover, p.seed)
}

var chunkNames = []string{"all", "1", "31", "33", "1447", "prng", "head-then-all"}

func chunk(i int, seed uint64) memwire.ChunkPolicy {
	switch i {
	case 1:
		return memwire.Fixed(1)
	case 2:
		return memwire.Fixed(31)
	case 3:
		return memwire.Fixed(33)
	case 4:
		return memwire.Fixed(1447)
	case 5:
		return memwire.PRNG(seed, 2000)
	case 6:
		return memwire.Script([]int{40 + int(seed%3000)}, memwire.All())
	}
	return memwire.All()
}

// steerPad makes the first 8-byte draw of the real side's handshake (the
// padding length: csrand.IntRange -> rand.Intn -> Int31n(v>>32)) come out as
// the minimum (v=0) or the maximum (v = n-1).
func steerPad(seed uint64, mode int, n int) *steer.Source {
	s := steer.New(seed)
	if mode == 0 {
		return s
	}
	done := false
	s.Hook = func(_ int64, p []byte) {
		if len(p) != 8 || done {
			return
		}
		done = true
		var v uint64
		if mode == 2 {
			v = uint64(n-1) << 32
		}
		binary.BigEndian.PutUint64(p, v)
	}
	return s
}

func sizes(rng interface{ IntN(int) int }, n int) []int {
	menu := []int{1, 2, 1426, 1427, 1428, 2854, 2855, 4096, 10000}
	var out []int
	for i := 0; i < n; i++ {
		if rng.IntN(2) == 0 {
			out = append(out, 1+rng.IntN(3000))
		} else {
			out = append(out, menu[rng.IntN(len(menu))])
		}
	}
	return out
}

func total(l []int) int {
	t := 0
	for _, v := range l {
		t += v
	}
	return t
}

func runConn(c *mon.Case, r *mon.Run, dir string, p params) {
	rng := mon.NewRand(p.seed)
	flag.Set("obfs4-distBias", fmt.Sprint(p.biased))
	b := o4.NewBridge(rng, p.iat)
	cw, sw := memwire.Pair(memwire.Options{Keep: true})
	c2s, s2c := cw.Out(), sw.Out()
	realStream, refStream := mon.Stream{Key: p.seed ^ 0xaa}, mon.Stream{Key: p.seed ^ 0xbb}
	realScript, refScript := sizes(rng, 2+rng.IntN(4)), sizes(rng, 2+rng.IntN(4))
	wantReal, wantRef := total(realScript), total(refScript)+p.bulk
	viol := func(sig, format string, a ...any) {
		c.Violation(sig, fmt.Sprintf(format, a...)+"; "+p.String(), p.String())
	}
	if p.rollover {
		now := time.Now()
		time.Sleep(time.Until(now.Truncate(time.Hour).Add(time.Hour - 10*time.Millisecond)))
	}
	// cross is called once both sides are at rest with the first message held
	// back on the wire: it lets the top of the hour pass
	cross := func(before string) bool {
		synctest.Wait()
		time.Sleep(50 * time.Millisecond)
		if o4.Hours(0) == before {
			viol("harness/no-hour-rollover", "the epoch hour did not change")
			return false
		}
		r.Count("handshakes_across_hour_rollover_"+p.role, 1)
		return true
	}

	// the real endpoint's application: writes realScript, reads wantRef bytes
	realApp := func(conn net.Conn, wg *sync.WaitGroup) {
		wg.Add(2)
		c.Go(wg.Done, func() {
			off := int64(0)
			for _, sz := range realScript {
				time.Sleep(time.Duration(1+sz%7) * time.Millisecond)
				if _, err := conn.Write(realStream.Bytes(off, sz)); err != nil {
					viol("interop/real-write-failed", "real endpoint Write: %v", err)
					return
				}
				off += int64(sz)
			}
		})
		c.Go(wg.Done, func() {
			buf := make([]byte, 8192)
			off := int64(0)
			for off < int64(wantRef) {
				n, err := conn.Read(buf)
				if n > 0 {
					if i := refStream.Check(buf[:n], off); i >= 0 {
						viol("interop/real-read-mismatch", "byte %d read by the real endpoint differs from what the reference sent", off+int64(i))
						return
					}
					off += int64(n)
				}
				if err != nil {
					viol("interop/real-read-failed", "real endpoint Read after %d of %d bytes: %v", off, wantRef, err)
					return
				}
			}
			r.Count("bytes_ref_to_real", off)
		})
	}
	// the reference side: sends refScript as frames of varied shape, decodes
	// everything the real side emits
	refApp := func(rc *o4.RefConn, wg *sync.WaitGroup) {
		wg.Add(2)
		c.Go(wg.Done, func() {
			off := p.bulk // (sent behind the handshake already)
			wr := mon.NewRand(p.seed ^ 0x77)
			// packets that carry no payload at all (type payload, length 0) with
			// every amount of padding incl. none — what the format calls padding,
			// and what an implementation is free to send between data at any time
			padOnly := func(pads ...int) bool {
				var out []byte
				for _, pl := range pads {
					out = append(out, rc.Enc.DataFrame(nil, pl)...)
					r.Count("ref_padding_only_packets", 1)
					if pl == 0 {
						r.Count("ref_empty_packets", 1)
					}
				}
				if _, err := rc.Conn.Write(out); err != nil {
					viol("interop/ref-write-failed", "reference Write (padding-only packets): %v", err)
					return false
				}
				return true
			}
			if p.seed%3 == 0 {
				var sweep []int
				if r.Thorough() {
					for pl := 0; pl <= ref.MaxPacketData; pl++ {
						sweep = append(sweep, pl)
					}
				} else {
					sweep = []int{0, 1, 2, 3, 20, 21, 22, 23, 1425, 1426, 1427, 0, 0}
					for k := 0; k < 12; k++ {
						sweep = append(sweep, wr.IntN(ref.MaxPacketData+1))
					}
				}
				for i := 0; i < len(sweep); i += 64 {
					if !padOnly(sweep[i:min(len(sweep), i+64)]...) {
						return
					}
				}
			}
			for _, sz := range refScript {
				time.Sleep(2 * time.Millisecond)
				if wr.IntN(2) == 0 {
					if !padOnly([]int{0, 0, 1, 21, 1427, wr.IntN(ref.MaxPacketData + 1)}[wr.IntN(6)]) {
						return
					}
				}
				maxData := []int{0, 1, 7, 733, 1427}[wr.IntN(5)]
				if sz > 3000 && maxData > 0 && maxData < 100 {
					maxData = 733
				}
				pad := []int{0, 0, 1, 21, 100, 1427}[wr.IntN(6)]
				if err := rc.WriteData(refStream.Bytes(int64(off), sz), maxData, pad); err != nil {
					viol("interop/ref-write-failed", "reference Write: %v", err)
					return
				}
				off += sz
			}
		})
		c.Go(wg.Done, func() {
			off := int64(0)
			sawSeed := false
			nPk := 0
			for off < int64(wantReal) {
				pk, err := rc.ReadPackets()
				for _, q := range pk {
					r.Count("frames_decoded", 1)
					nPk++
					if nPk == 1 && p.role == "refclient" && q.Type != ref.PacketPrngSeed {
						viol("format/seed-frame-not-right-behind-response", "the first frame behind the server response is a type-%d packet of %d bytes, not the PRNG-seed frame", q.Type, q.FrameLen)
					}
					r.Max("frame_len_max", int64(q.FrameLen))
					r.Min("frame_len_min", int64(q.FrameLen))
					if q.FrameLen > ref.MaxSegment || q.FrameLen < ref.FrameOverhead+ref.PacketOverhead {
						viol("format/frame-length", "frame of %d bytes", q.FrameLen)
					}
					if !q.PadAllZero {
						viol("format/nonzero-padding", "packet padding (%d bytes) is not all zero", q.PadLen)
					}
					r.Count("padding_bytes_verified_zero", int64(q.PadLen))
					switch q.Type {
					case ref.PacketPayload:
						if i := realStream.Check(q.Data, off); i >= 0 {
							viol("interop/ref-read-mismatch", "payload byte %d decoded by the reference differs from what the real endpoint's application wrote", off+int64(i))
							return
						}
						off += int64(len(q.Data))
					case ref.PacketPrngSeed:
						sawSeed = true
						if p.role != "refclient" {
							viol("format/seed-from-client", "client sent a PRNG seed packet")
						}
						if !bytes.Equal(q.Data, b.Seed[:]) || q.FrameLen != ref.SeedFrameLength || q.PadLen != 0 {
							viol("format/seed-frame", "seed frame: %d bytes on the wire (want 45), padding %d (want 0), payload matches drbg-seed: %v", q.FrameLen, q.PadLen, bytes.Equal(q.Data, b.Seed[:]))
						}
					default:
						viol("format/unknown-packet-type", "packet type %d", q.Type)
					}
				}
				if err != nil {
					viol("interop/ref-read-failed", "reference decoder after %d of %d payload bytes: %v", off, wantReal, err)
					return
				}
			}
			if p.role == "refclient" && !sawSeed {
				viol("format/seed-frame-missing", "no PRNG seed frame seen from the server")
			}
			r.Count("bytes_real_to_ref", off)
		})
	}

	var wg sync.WaitGroup
	ok := true
	switch p.role {
	case "refclient":
		sf, err := o4.ServerFactory(dir, b)
		if err != nil {
			viol("setup/server-factory", "%v", err)
			return
		}
		if cert, _ := sf.Args().Get("cert"); cert != b.Cert() {
			viol("format/cert", "advertised cert %q, reference computes %q", cert, b.Cert())
		}
		c2s.SetPolicy(chunk(p.chunk, p.seed))
		restore := steer.Install(steerPad(p.seed^0x5eed, p.steer, ref.ServerMaxPad-ref.ServerMinPad+1))
		var sc net.Conn
		var serr error
		done := make(chan struct{})
		c.Go(func() { close(done) }, func() { sc, serr = sf.WrapConn(sw) })
		// the reference client's clock is in the server's hour or in an
		// adjacent one (accepted window); it verifies the response under the
		// hour it used itself
		hoff := int(p.seed>>9%3) - 1
		if p.rollover {
			hoff = int(p.seed >> 9 % 2) // stamped with its current or next hour; the server sees it one hour later
		}
		r.Count(fmt.Sprintf("refclient_hour_offset_%+d", hoff), 1)
		var rc *o4.RefConn
		var hello *ref.ClientHello
		var sr *ref.ServerResponse
		if p.rollover {
			before := o4.Hours(0)
			stamp := o4.Hours(int64(hoff))
			c2s.Pause(true)
			dd := make(chan struct{})
			c.Go(func() { close(dd) }, func() { rc, hello, sr, err = o4.RefDial(cw, b.Ref, rng, p.refPad, stamp) })
			cross(before)
			c2s.Pause(false)
			<-dd
		} else {
			rc, hello, sr, err = o4.RefDial(cw, b.Ref, rng, p.refPad, o4.Hours(int64(hoff)))
		}
		<-done
		restore()
		_ = hello
		if err != nil || serr != nil {
			viol("interop/handshake-refclient", "reference client (clock %+d h) err=%v, real server err=%v", hoff, err, serr)
			ok = false
			break
		}
		// structure of what the real server emitted
		w, _, data := s2c.Snapshot()
		r.Max("server_pad_max", int64(sr.PadLen))
		r.Min("server_pad_min", int64(sr.PadLen))
		if sr.PadLen < ref.ServerMinPad || sr.PadLen > ref.ServerMaxPad {
			viol("format/server-pad-range", "server padding %d outside [0,8051]", sr.PadLen)
		}
		if p.steer == 1 && sr.PadLen != ref.ServerMinPad || p.steer == 2 && sr.PadLen != ref.ServerMaxPad {
			r.Count("steer_missed", 1)
		} else if p.steer != 0 {
			r.Count("steered_extreme_padding", 1)
		}
		// (whether response and seed frame leave in one write is the
		// implementation's choice and only recorded; that the seed frame is the
		// first frame behind the response is judged where frames are decoded)
		if len(w) > 0 && w[0].N == sr.Len+ref.SeedFrameLength {
			r.Count("seed_frame_in_the_same_write_as_the_response", 1)
		}
		if sr.Len+ref.SeedFrameLength > ref.MaxHandshakeLength || len(data) < sr.Len {
			viol("format/server-handshake-length", "server response %d + seed frame exceeds 8192", sr.Len)
		}
		r.Count("handshakes_refclient", 1)
		realApp(sc, &wg)
		refApp(rc, &wg)
	case "refserver":
		s2c.SetPolicy(chunk(p.chunk, p.seed))
		restore := steer.Install(steerPad(p.seed^0x5eed, p.steer, ref.ClientMaxPad-ref.ClientMinPad+1))
		var rc *o4.RefConn
		var ph *ref.ParsedHello
		var blob []byte
		var serr error
		done := make(chan struct{})
		c.Go(func() { close(done) }, func() { rc, ph, blob, serr = o4.RefAccept(sw, b, rng, p.refPad) })
		args := b.ClientArgsCert()
		if p.legacy {
			args = b.ClientArgsLegacy()
		}
		hourAtDial := o4.Hours(0)
		var cc net.Conn
		var err error
		if p.rollover {
			// the server's response reaches the client only after the top of the hour
			s2c.Pause(true)
			dd := make(chan struct{})
			c.Go(func() { close(dd) }, func() { cc, err = dial(cw, args) })
			cross(hourAtDial)
			s2c.Pause(false)
			<-dd
		} else if p.bulk > 0 {
			s2c.Pause(true)
			dd := make(chan struct{})
			c.Go(func() { close(dd) }, func() { cc, err = dial(cw, args) })
			<-done // the reference has answered (into the held wire) ...
			if serr == nil {
				rc.WriteData(refStream.Bytes(0, p.bulk), 0, 0) // ... and goes on with payload at once
				r.Count("refserver_bulk_behind_the_handshake", 1)
			}
			s2c.Pause(false)
			<-dd
		} else {
			cc, err = dial(cw, args)
		}
		<-done
		restore()
		if err != nil || serr != nil {
			viol("interop/handshake-refserver", "real client err=%v, reference server err=%v (hello %d bytes)", err, serr, len(blob))
			ok = false
			break
		}
		w, _, _ := c2s.Snapshot()
		if len(w) > 0 && w[0].N == len(blob) {
			r.Count("client_hello_sent_in_one_write", 1) // recorded, not judged
		}
		if len(blob) < ref.ClientMinHandshake+ref.ClientMinPad || len(blob) > ref.MaxHandshakeLength {
			viol("format/client-hello-length", "client hello of %d bytes outside [141,8192]", len(blob))
		}
		if ph.Hour != hourAtDial {
			viol("format/client-hour", "client MAC uses hour %s, clock said %s", ph.Hour, hourAtDial)
		}
		r.Max("client_pad_max", int64(ph.PadLen))
		r.Min("client_pad_min", int64(ph.PadLen))
		if p.steer == 1 && ph.PadLen != ref.ClientMinPad || p.steer == 2 && ph.PadLen != ref.ClientMaxPad {
			r.Count("steer_missed", 1)
		} else if p.steer != 0 {
			r.Count("steered_extreme_padding", 1)
		}
		r.Count("handshakes_refserver", 1)
		if p.legacy {
			r.Count("legacy_bridge_lines", 1)
		}
		realApp(cc, &wg)
		refApp(rc, &wg)
	}
	if ok {
		wg.Wait()
		r.Distinct("nontrivial", p.String())
		r.Sample(map[string]any{"params": p.String(), "real_writes": realScript, "ref_writes": refScript})
	}
	r.Count("evaluations", 1)
	r.Count(fmt.Sprintf("iat_mode_%d", p.iat), 1)
	cw.Close()
	sw.Close()
	wg.Wait()
	synctest.Wait()
}

func dial(conn net.Conn, args *pt.Args) (net.Conn, error) { return o4.DialReal(conn, args) }

// kat compares the exported building blocks with the reference on random inputs.
func kat(c *mon.Case, r *mon.Run, seed uint64, n int) {
	rng := mon.NewRand(seed)
	rr := o4.RandReader{R: rng}
	for i := 0; i < n; i++ {
		// KDF and its direction split
		var ks [32]byte
		io.ReadFull(rr, ks[:])
		if !bytes.Equal(ntor.Kdf(ks[:], 144), ref.Kdf(ks[:], 144)) {
			c.Violation("kat/kdf", "ntor.Kdf differs from HKDF-SHA256(ikm=KEY_SEED, salt=t_key, info=m_expand)", fmt.Sprintf("%x", ks))
		}
		// DRBG stream
		var seedb [24]byte
		io.ReadFull(rr, seedb[:])
		sd, _ := drbg.SeedFromBytes(seedb[:])
		d, _ := drbg.NewHashDrbg(sd)
		rd := ref.NewDrbg(seedb[:])
		for k := 0; k < 40; k++ {
			want := rd.NextBlock()
			if got := d.NextBlock(); !bytes.Equal(got, want[:]) {
				c.Violation("kat/drbg", fmt.Sprintf("DRBG block %d differs from SipHash-2-4 OFB with running state", k), fmt.Sprintf("%x", seedb))
				break
			}
		}
		r.Count("kat_drbg_blocks", 40)
		// framing both ways with a random key block
		var kb [72]byte
		io.ReadFull(rr, kb[:])
		enc, dec := framing.NewEncoder(kb[:]), ref.NewDecoder(kb[:])
		renc, rdec := ref.NewEncoder(kb[:]), framing.NewDecoder(kb[:])
		var stream bytes.Buffer
		refDecAlive := true
		for k := 0; k < 7; k++ {
			pl := make([]byte, []int{3, 500, 1430, 3 + rng.IntN(1428), 1, 0, 2}[k])
			io.ReadFull(rr, pl)
			if len(pl) >= 3 { // make it a well-formed packet for the reference decoder
				pl[0] = 0
				binary.BigEndian.PutUint16(pl[1:], uint16(rng.IntN(len(pl)-2)))
			}
			var frame [framing.MaximumSegmentLength]byte
			fl, err := enc.Encode(frame[:], pl)
			if err != nil {
				c.Violation("kat/encode", err.Error(), nil)
				break
			}
			if len(pl) >= 3 && refDecAlive {
				dl := int(binary.BigEndian.Uint16(pl[1:]))
				pk, err := dec.Feed(frame[:fl])
				if err != nil || len(pk) != 1 || pk[0].FrameLen != fl || !bytes.Equal(pk[0].Data, pl[3:3+dl]) {
					c.Violation("kat/frame-real-to-ref", fmt.Sprintf("frame %d (payload %d) produced by framing.Encoder is not what the reference decodes: %v", k, len(pl), err), fmt.Sprintf("%x", kb))
					break
				}
			} else {
				refDecAlive = false // frames without a packet header: the reference decoder is not fed any more
			}
			rf := renc.Frame(pl)
			if !bytes.Equal(rf, frame[:fl]) {
				c.Violation("kat/frame-bytes", fmt.Sprintf("frame %d: framing.Encoder and the reference encoder produce different bytes for the same key block and payload", k), fmt.Sprintf("%x", kb))
				break
			}
			stream.Write(rf)
			var out [framing.MaximumFramePayloadLength]byte
			n, err := rdec.Decode(out[:], &stream)
			if err != nil || !bytes.Equal(out[:n], pl) {
				c.Violation("kat/frame-ref-to-real", fmt.Sprintf("frame %d produced by the reference is not decoded by framing.Decoder: %v", k, err), fmt.Sprintf("%x", kb))
				break
			}
			r.Count("kat_frames", 1)
		}
		r.Count("evaluations", 1)
		r.Count("kat_cases", 1)
	}
}

// concurrentRefClients: k reference clients handshake at the same time against
// one real server factory (one bridge, one process), each verifying the
// response byte for byte under its own hour, then exchanging a little payload.
// What the factory shares between its connections must not leak from one
// handshake into another.
func concurrentRefClients(c *mon.Case, r *mon.Run, dir string, k int, seed uint64) {
	rng := mon.NewRand(seed)
	b := o4.NewBridge(rng, int(seed%3))
	sf, err := o4.ServerFactory(dir, b)
	if err != nil {
		c.Violation("setup/server-factory", err.Error(), nil)
		return
	}
	var wg sync.WaitGroup
	var okN atomic.Int64
	for i := 0; i < k; i++ {
		i := i
		crng := mon.NewRand(seed ^ uint64(i+1)*0x9e3779b97f4a7c15)
		wg.Add(1)
		c.Go(wg.Done, func() {
			cw, sw := memwire.Pair(memwire.Options{})
			defer cw.Close()
			defer sw.Close()
			var sc net.Conn
			var serr error
			done := make(chan struct{})
			c.Go(func() { close(done) }, func() { sc, serr = sf.WrapConn(sw) })
			hoff := int64(i%3) - 1
			rc, _, _, derr := o4.RefDial(cw, b.Ref, crng, -1, o4.Hours(hoff))
			<-done
			if derr != nil || serr != nil {
				c.Violation("interop/handshake-refclient/concurrent", fmt.Sprintf("%d reference clients at once against one bridge: client %d (clock %+d h) err=%v, real server err=%v", k, i, hoff, derr, serr), nil)
				return
			}
			// payload both ways
			st := mon.Stream{Key: seed ^ uint64(i)}
			go func() {
				buf := make([]byte, 4096)
				for {
					if _, err := sc.Read(buf); err != nil {
						return
					}
				}
			}()
			if _, err := sc.Write(st.Bytes(0, 700)); err != nil {
				c.Violation("interop/real-write-failed", fmt.Sprintf("concurrent: %v", err), nil)
				return
			}
			var got int64
			for got < 700 {
				pk, err := rc.ReadPackets()
				for _, q := range pk {
					if q.Type == ref.PacketPayload {
						if j := st.Check(q.Data, got); j >= 0 {
							c.Violation("interop/ref-read-mismatch", fmt.Sprintf("concurrent handshakes: payload byte %d decoded by the reference differs", got+int64(j)), nil)
							return
						}
						got += int64(len(q.Data))
					}
				}
				if err != nil {
					c.Violation("interop/ref-read-failed", fmt.Sprintf("concurrent handshakes: reference decoder after %d bytes: %v", got, err), nil)
					return
				}
			}
			okN.Add(1)
		})
	}
	wg.Wait()
	r.Count("evaluations", int64(k))
	r.Count("concurrent_refclient_groups", 1)
	r.Count("concurrent_refclient_handshakes_verified", okN.Load())
}

func TestCheck(t *testing.T) {
	r := mon.Start(t, "C06")
	defer r.Finish()
	r.SpinWatch(memwire.BytesMoved)
	_ = rand.Reader
	r.Note("rule", "every connection has the independent reference implementation on one side: grid of role (reference client vs real server / real client vs reference server) x bridge-line form (cert / legacy node-id+public-key) x IAT mode x table bias x chunking of what the real side reads x reference-client clock in the hour before / the same / the hour after the server's x handshakes during which the epoch hour changes (the first message is held on the wire across the top of the hour, both roles) x groups of 8..16 reference clients handshaking at the same time against one bridge x padding choice (PRNG, reference at both extremes, real side steered to its minimum and maximum), fresh identity and seed per connection, PRNG payload scripts both ways with reference frames of varied payload/padding split; plus known-answer comparison of ntor.Kdf, the DRBG and framing with the reference on random inputs. Non-trivial = handshake completed and all payload verified in both directions; distinct = distinct parameter tuple.")
	dir := o4.StateDir("c06")
	nPer := r.Pick(2, 16)
	for _, role := range []string{"refclient", "refserver"} {
		for _, legacy := range []bool{false, true} {
			if role == "refclient" && legacy {
				continue // the bridge-line form only concerns a real client
			}
			for iat := 0; iat < 3; iat++ {
				for _, biased := range []bool{false, true} {
					for pm := 0; pm < 5; pm++ { // padding mode
						role, legacy, iat, biased, pm := role, legacy, iat, biased, pm
						r.Case(fmt.Sprintf("conn/%s/legacy%v/iat%d/b%v/pad%d", role, legacy, iat, biased, pm), func(c *mon.Case) {
							for k := 0; k < nPer*2; k++ {
								p := params{role: role, legacy: legacy, iat: iat, biased: biased, refPad: -1, chunk: (k + pm) % len(chunkNames), seed: r.Sub("c", role, legacy, iat, biased, pm, k)}
								if role == "refserver" && (k+pm)%3 == 1 {
									p.bulk = []int{3000, 9000, 20000}[(k/3+pm)%3]
									if k%2 == 0 {
										p.chunk = 6
									}
								}
								switch pm {
								case 1:
									p.steer = 1
								case 2:
									p.steer = 2
								case 3: // reference pads minimally
									p.refPad = map[string]int{"refclient": ref.ClientMinPad, "refserver": ref.ServerMinPad}[role]
								case 4:
									p.refPad = map[string]int{"refclient": ref.ClientMaxPad, "refserver": ref.ServerMaxPad}[role]
								}
								func() {
									defer func() {
										if e := recover(); e != nil {
											c.Violation("wedge-or-panic", fmt.Sprintf("%v; %s", e, p), p.String())
										}
									}()
									synctest.Test(c.T, func(t *testing.T) { runConn(c, r, dir, p) })
								}()
							}
						})
					}
				}
			}
		}
	}
	// many reference clients at once against one bridge
	for g := 0; g < r.Pick(4, 40); g++ {
		g := g
		r.Bubble(fmt.Sprintf("concurrent-refclients/%02d", g), func(c *mon.Case) {
			concurrentRefClients(c, r, dir, 8+g%9, r.Sub("crc", g))
		})
	}
	// the epoch hour changes while the handshake is in flight
	for _, role := range []string{"refclient", "refserver"} {
		role := role
		r.Case("rollover/"+role, func(c *mon.Case) {
			for k := 0; k < r.Pick(12, 96); k++ {
				p := params{role: role, legacy: k%4 == 3 && role == "refserver", iat: k % 3, biased: k%2 == 1, refPad: -1, chunk: k % len(chunkNames), rollover: true, seed: r.Sub("rollover", role, k)}
				func() {
					defer func() {
						if e := recover(); e != nil {
							c.Violation("wedge-or-panic", fmt.Sprintf("%v; %s", e, p), p.String())
						}
					}()
					synctest.Test(c.T, func(t *testing.T) { runConn(c, r, dir, p) })
				}()
			}
		})
	}
	for i := 0; i < 16; i++ {
		i := i
		r.Case(fmt.Sprintf("kat/%02d", i), func(c *mon.Case) { kat(c, r, r.Sub("kat", i), r.Pick(40, 2000)) })
	}
}
