//go:build verif_padburst

package c09

import "gitlab.com/yawning/obfs4.git/transports/obfs4"

// padBurstHook runs the real padBurst (hook VerifPadBurst, build tags verif && verif_padburst).
func padBurstHook(tail, target int) (added int, err error, hooked bool) {
	added, err = obfs4.VerifPadBurst(tail, target)
	return added, err, true
}
