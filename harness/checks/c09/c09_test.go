// C09 — obfs4 traffic shaping follows the bridge's seeded distributions, never
// crashes.
//
// (1) Arithmetic: the real padBurst (hook VerifPadBurst) is run for (tail,
// target) pairs — all 1448 x 1449 in the thorough tier — and the number of
// bytes it appends is compared with the modular padding rule.
// (2) Wire: real endpoints talk over memwire; every wire write is attributed to
// the application Write that produced it (a burst) and judged against the
// value table of a distribution the harness builds from the same seed with
// the real probdist (hook VerifTables; probdist itself is the subject of C12).
package c09

import (
	"encoding/hex"
	"errors"
	"flag"
	"fmt"
	"net"
	"sync"
	"testing"
	"testing/synctest"
	"time"

	"gitlab.com/yawning/obfs4.git/common/drbg"
	"gitlab.com/yawning/obfs4.git/common/probdist"

	"verif/memwire"
	"verif/mon"
	"verif/o4"
	ref "verif/ref/obfs4"
)

const (
	mss    = 1448
	header = 21
)

var errBudget = errors.New("verif: write budget exceeded")

// searched seeds with special table shapes (found offline with the hook;
// re-verified at run time, a seed whose shape no longer holds is skipped and
// counted)
var shaped = map[string]string{
	"hundred-values":  "48aac6d5fc0445a004569f723bbe428d74f0c17b48c71cfc",
	"pair-with-zero":  "f470f0fe99c70959e1c5a5d7877797df76d20c4d02b168b3", // {356, 0}
	"single-1448":     "9100ada6d917d48604819971d262196f6dc6b26ae3cb2b6a",
	"single-210":      "654068c41ae6dc325786a4ba2a8de6c6ee10aa7889913ee1", // 210-(1469 mod 210) = 1: the padding-overshoot cycle
	"single-1365":     "20ba34488cab1a4b088098605e972d43348c1dc9a15078f5",
	"single-10":       "5a242dc2538a6102c15a33880ad2998e0c46df0da1a2df13",
	"single-zero":     "1553a6edd612347c3be7188ae0526c0959695ccc43e23491",
	"zero-sample-f2":  "736565642d38353138000000000000000000000000000000", // {108, 0}: the seed of the original zero-sample panic
}

func table(seed [24]byte, biased bool) (vals map[int]bool, list []int) {
	s, _ := drbg.SeedFromBytes(seed[:])
	d := probdist.New(s, 0, mss, biased)
	_, _, v, _, _, _ := d.VerifTables()
	vals = map[int]bool{}
	for _, x := range v {
		vals[x] = true
	}
	return vals, v
}

func residues(vals map[int]bool) map[int]bool {
	e := map[int]bool{}
	for v := range vals {
		e[v%mss] = true
		e[(v+header)%mss] = true
	}
	return e
}

// ---------------------------------------------------------------- (1) arithmetic

func arith(c *mon.Case, r *mon.Run, tails []int, targets []int) {
	for _, tail := range tails {
		for _, target := range targets {
			added, err, hooked := padBurstHook(tail, target)
			if !hooked {
				r.Count("padburst_hook_unavailable", 1)
				return
			}
			r.Count("evaluations", 1)
			r.Count("padburst_pairs", 1)
			if err != nil {
				c.Violation("padburst/error", fmt.Sprintf("padBurst(tail=%d,target=%d): %v", tail, target, err), nil)
				continue
			}
			t := tail % mss
			p := target - t
			if target < t {
				p = mss - t + target
			}
			end := (tail + added) % mss
			okEnd := end == target%mss
			if p > 0 && p <= header {
				r.Count("padburst_pairs_needing_less_than_a_header", 1)
			}
			if p > 0 && p <= header && end == (target+header)%mss {
				okEnd = true // needed padding not larger than a header: target plus one frame header
				r.Count("padburst_header_form", 1)
			}
			if !okEnd {
				c.Violation("padburst/wrong-ending", fmt.Sprintf("padBurst(tail=%d,target=%d) appended %d bytes: burst ends at residue %d, want %d (needed padding %d)", tail, target, added, end, target%mss, p), map[string]int{"tail": tail, "target": target, "added": added})
			}
			if added > mss+2*header {
				r.Count("padburst_more_than_todays_maximum", 1) // recorded, not judged: how the target is reached is not fixed
			}
			if added < 0 || added > 4*mss { // sanity bound only, far beyond any way of reaching the next target
				c.Violation("padburst/too-much", fmt.Sprintf("padBurst(tail=%d,target=%d) appended %d bytes", tail, target, added), nil)
			}
			if p == 0 && added != 0 {
				r.Count("padburst_padded_although_on_target", 1)
			}
			if added > 0 && added < header {
				c.Violation("padburst/less-than-a-frame", fmt.Sprintf("padBurst(tail=%d,target=%d) appended %d bytes, less than a frame header", tail, target, added), nil)
			}
		}
	}
}

// ---------------------------------------------------------------- (2) wire

type params struct {
	iat    int
	biased bool
	shape  string // "" = PRNG seed
	seed   uint64
}

func (p params) String() string {
	return fmt.Sprintf("iat=%d biased=%v shape=%q seed=%x", p.iat, p.biased, p.shape, p.seed)
}

var sizeMenu = []int{0, 1, 2, 100, 1426, 1427, 1428, 2853, 2854, 2855, 4096, 8192, 23168, 65536}

type burst struct {
	app    int   // application write size
	writes []int // wire write sizes
	gaps   []time.Duration
}

// writeBursts performs the application writes one by one and attributes the
// wire writes to them.
func writeBursts(c *mon.Case, p params, side string, conn net.Conn, half *memwire.Half, sizes []int, st mon.Stream) (out []burst, ok bool) {
	var off int64
	for _, sz := range sizes {
		w0, _, _ := half.Snapshot()
		budget := int64(4<<20) + 64*int64(sz)
		half.SetWriteFault(half.Written()+budget, errBudget)
		n, err, pan := safeWrite(conn, st.Bytes(off, sz))
		half.SetWriteFault(-1, nil)
		if pan != nil {
			c.Violation("panic/Write/"+normPanic(fmt.Sprint(pan)), fmt.Sprintf("%s: Write(%d bytes) panicked: %v; %s", side, sz, pan, p), p.String())
			return out, false
		}
		w1, _, _ := half.Snapshot()
		if errors.Is(err, errBudget) {
			var tail []int
			for _, e := range w1[max(len(w0), len(w1)-12):] {
				tail = append(tail, e.N)
			}
			c.Violation(fmt.Sprintf("nonterminating-write/iat-mode-%d", p.iat), fmt.Sprintf("%s: one Write of %d bytes had put more than %d bytes on the wire in %d wire writes and was still going (last wire write sizes %v); %s", side, sz, budget, len(w1)-len(w0), tail, p), p.String())
			return out, false
		}
		if err != nil || n != sz {
			c.Violation("write-error", fmt.Sprintf("%s: Write(%d) = %d, %v; %s", side, sz, n, err, p), p.String())
			return out, false
		}
		off += int64(sz)
		b := burst{app: sz}
		for i, e := range w1[len(w0):] {
			b.writes = append(b.writes, e.N)
			if i > 0 {
				b.gaps = append(b.gaps, e.T-w1[len(w0)+i-1].T)
			}
		}
		out = append(out, b)
	}
	return out, true
}

func safeWrite(conn net.Conn, b []byte) (n int, err error, pan any) {
	defer func() { pan = recover() }()
	n, err = conn.Write(b)
	return
}

func normPanic(s string) string {
	out := []byte(s)
	for i, ch := range out {
		if ch >= '0' && ch <= '9' {
			out[i] = 'N'
		}
	}
	if len(out) > 60 {
		out = out[:60]
	}
	return string(out)
}

func judgeBursts(c *mon.Case, r *mon.Run, p params, side string, bs []burst, vals map[int]bool, list []int) {
	E := residues(vals)
	single := -1
	if len(list) == 1 {
		single = list[0]
	}
	for _, b := range bs {
		r.Count("bursts", 1)
		r.Count(fmt.Sprintf("bursts_mode_%d", p.iat), 1)
		total := 0
		for _, w := range b.writes {
			total += w
			r.Count("wire_writes", 1)
			r.Max("max_wire_write_iat_modes", int64(func() int {
				if p.iat == 0 {
					return 0
				}
				return w
			}()))
		}
		wit := map[string]any{"params": p.String(), "side": side, "app_write": b.app, "wire_writes": head(b.writes, 40), "table": head(list, 20)}
		switch p.iat {
		case 0, 1:
			if p.iat == 1 {
				for _, w := range b.writes {
					if w > mss {
						c.Violation("iat-write-too-large/mode-1", fmt.Sprintf("%s: wire write of %d bytes in iat-mode=1; %s", side, w, p), wit)
					}
				}
			}
			if !E[total%mss] {
				c.Violation(fmt.Sprintf("burst-off-table/mode-%d", p.iat), fmt.Sprintf("%s: burst of %d bytes (app write %d) ends at residue %d which is neither a table value nor a table value + 21 (mod 1448); %s", side, total, b.app, total%mss, p), wit)
			} else {
				r.Count("burst_on_table", 1)
			}
			if single > 0 && single > header {
				// single-valued table {v}: the residue of the burst is v or v+21 (judged
				// above).  How many bytes it takes to get there is the implementation's
				// business (which frames carry the padding, whether the +21 form is used
				// at all): the length today's code produces is computed and only counted,
				// so that a change of the framing strategy shows in the evidence without
				// raising an alarm.  What is judged is the physical lower bound: the
				// payload and one header per 1427 bytes of it cannot take fewer bytes.
				need := ((b.app+1426)/1427)*header + b.app // payload frames
				if b.app == 0 {
					need = 0
				}
				t := need % mss
				pad := single - t
				if single < t {
					pad = mss - t + single
				}
				want := need + pad
				if pad > 0 && pad <= header {
					want = need + pad + header + mss
				}
				r.Count("single_valued_table_bursts", 1)
				if total < need {
					c.Violation("burst-shorter-than-its-payload/single-valued-table", fmt.Sprintf("%s: table is {%d}; app write %d needs at least %d frame bytes, burst is %d bytes; %s", side, single, b.app, need, total, p), wit)
				} else if total == want {
					r.Count("burst_length_as_predicted_from_todays_framing", 1)
				} else {
					r.Count("burst_length_other_than_todays_framing", 1)
				}
			}
		case 2:
			if vals[0] {
				r.Count("paranoid_bursts_on_tables_containing_zero", 1)
			}
			for _, w := range b.writes {
				r.Distinct("paranoid_write_sizes", fmt.Sprint(w))
				okw := w > 0 && vals[w]
				if w == mss && vals[0] {
					okw = true // a sampled 0 means "end on a segment boundary": a full segment
					r.Count("zero_sample_full_segment", 1)
				}
				if !okw {
					c.Violation("paranoid-write-off-table", fmt.Sprintf("%s: wire write of %d bytes in iat-mode=2 is not a non-zero table value; %s", side, w, p), wit)
				} else {
					r.Count("paranoid_write_on_table", 1)
				}
			}
		}
		for _, g := range b.gaps {
			if g%(100*time.Microsecond) != 0 || g > 10*time.Millisecond {
				r.Count("iat_gap_not_multiple_of_100us_or_above_10ms", 1) // recorded, not judged
			}
			r.Max("iat_gap_max_us", g.Microseconds())
		}
	}
}

func head(l []int, n int) []int {
	if len(l) > n {
		return l[:n]
	}
	return l
}

func runConn(c *mon.Case, r *mon.Run, dir string, p params) {
	rng := mon.NewRand(p.seed)
	flag.Set("obfs4-distBias", fmt.Sprint(p.biased))
	b := o4.NewBridge(rng, p.iat)
	if p.shape != "" {
		raw, _ := hex.DecodeString(shaped[p.shape])
		copy(b.Seed[:], raw)
	}
	vals, list := table(b.Seed, p.biased)
	r.Count(fmt.Sprintf("table_size_%03d", (len(list)+9)/10*10), 1)
	if vals[0] {
		r.Count("tables_containing_zero", 1)
	}
	sf, err := o4.ServerFactory(dir, b)
	if err != nil {
		c.Violation("setup/server-factory", err.Error(), nil)
		return
	}
	cw, sw := memwire.Pair(memwire.Options{})
	c2s, s2c := cw.Out(), sw.Out()
	var sc net.Conn
	var serr error
	done := make(chan struct{})
	c.Go(func() { close(done) }, func() { sc, serr = sf.WrapConn(sw) })
	cc, cerr := o4.DialReal(cw, b.ClientArgsCert())
	<-done
	if cerr != nil || serr != nil {
		c.Violation("setup/handshake", fmt.Sprintf("%v / %v", cerr, serr), p.String())
		cw.Close()
		sw.Close()
		return
	}
	// both applications drain what they receive
	var wg sync.WaitGroup
	var cGot int64
	var mu sync.Mutex
	drain := func(conn net.Conn, cnt *int64) {
		buf := make([]byte, 32768)
		for {
			n, err := conn.Read(buf)
			if cnt != nil {
				mu.Lock()
				*cnt += int64(n)
				mu.Unlock()
			}
			if err != nil {
				return
			}
		}
	}
	wg.Add(2)
	c.Go(wg.Done, func() { drain(sc, nil) })
	c.Go(wg.Done, func() { drain(cc, &cGot) })

	nW := r.Pick(10, 40)
	mk := func() []int {
		var s []int
		for i := 0; i < nW; i++ {
			if rng.IntN(2) == 0 {
				s = append(s, rng.IntN(3001))
			} else {
				s = append(s, sizeMenu[rng.IntN(len(sizeMenu))])
			}
		}
		return s
	}
	sSizes, cSizes := mk(), mk()
	// server bursts: governed by the bridge's table from the first write on
	sb, ok := writeBursts(c, p, "server", sc, s2c, sSizes, mon.Stream{Key: p.seed ^ 1})
	if ok {
		judgeBursts(c, r, p, "server", sb, vals, list)
		synctest.Wait()
		mu.Lock()
		got := cGot
		mu.Unlock()
		if got > 0 {
			// the client has delivered server payload, hence processed the seed
			// frame that precedes it: from now on it must use the server's table
			cb, ok := writeBursts(c, p, "client", cc, c2s, cSizes, mon.Stream{Key: p.seed ^ 2})
			if ok {
				judgeBursts(c, r, p, "client-after-seed", cb, vals, list)
				r.Count("client_bursts_after_seed", int64(len(cb)))
			}
		}
		r.Distinct("nontrivial", p.String())
	}
	r.Count("evaluations", 1)
	r.Count("connections", 1)
	if p.shape != "" {
		r.Count("shaped_"+p.shape, 1)
	}
	r.Sample(map[string]any{"params": p.String(), "table_size": len(list), "table_head": head(list, 8), "first_server_burst": func() any {
		if len(sb) > 0 {
			return map[string]any{"app": sb[0].app, "wire": head(sb[0].writes, 10)}
		}
		return nil
	}()})
	synctest.Wait()
	cw.Close()
	sw.Close()
	wg.Wait()
}

// seedLate: the server's seed frame reaches the client only after Dial has
// returned (the server->client direction is delivered in 64-byte reads, and
// what is left of it after the handshake is held back), while the client's
// application is already writing: the client's reader adopts the server's
// seed concurrently with Write.  Client bursts that begin after the client
// has delivered server payload (which follows the seed frame) are judged
// against the server's table; nothing may panic on the way, and the race
// detector watches the hand-over.
func seedLate(c *mon.Case, r *mon.Run, dir string, p params, releaseAfter int) {
	rng := mon.NewRand(p.seed)
	flag.Set("obfs4-distBias", fmt.Sprint(p.biased))
	b := o4.NewBridge(rng, p.iat)
	vals, list := table(b.Seed, p.biased)
	sf, err := o4.ServerFactory(dir, b)
	if err != nil {
		c.Violation("setup/server-factory", err.Error(), nil)
		return
	}
	cw, sw := memwire.Pair(memwire.Options{})
	c2s, s2c := cw.Out(), sw.Out()
	s2c.SetPolicy(memwire.Fixed(64))
	var sc net.Conn
	var serr error
	done := make(chan struct{})
	c.Go(func() { close(done) }, func() { sc, serr = sf.WrapConn(sw) })
	cc, cerr := o4.DialReal(cw, b.ClientArgsCert())
	<-done
	if cerr != nil || serr != nil {
		c.Violation("setup/handshake", fmt.Sprintf("%v / %v", cerr, serr), p.String())
		cw.Close()
		sw.Close()
		return
	}
	s2c.Pause(true)
	held := s2c.Pending()
	var wg sync.WaitGroup
	var mu sync.Mutex
	var payloadTick int64 = -1
	wg.Add(2)
	c.Go(wg.Done, func() {
		buf := make([]byte, 4096)
		for {
			if _, err := sc.Read(buf); err != nil {
				return
			}
		}
	})
	c.Go(wg.Done, func() {
		buf := make([]byte, 4096)
		for {
			n, err := cc.Read(buf)
			if n > 0 {
				mu.Lock()
				if payloadTick < 0 {
					payloadTick = memwire.Tick()
				}
				mu.Unlock()
			}
			if err != nil {
				return
			}
		}
	})
	// server payload behind the seed frame
	if _, ok := writeBursts(c, p, "server", sc, s2c, []int{100}, mon.Stream{Key: p.seed ^ 1}); !ok {
		cw.Close()
		sw.Close()
		wg.Wait()
		return
	}
	nW := 24
	st := mon.Stream{Key: p.seed ^ 2}
	var off int64
	var after []burst
	for i := 0; i < nW; i++ {
		if i == releaseAfter {
			s2c.Pause(false) // the reader now works through the rest of the seed frame while we keep writing
		}
		sz := []int{1, 100, 1427, 1428, 3000, rng.IntN(3001)}[rng.IntN(6)]
		start := memwire.Tick()
		bs, ok := writeBursts(c, p, "client", cc, c2s, []int{sz}, mon.Stream{Key: st.Key + uint64(off)})
		if !ok {
			break
		}
		off += int64(sz)
		mu.Lock()
		pt := payloadTick
		mu.Unlock()
		if pt >= 0 && start > pt {
			after = append(after, bs...)
		}
	}
	synctest.Wait()
	if len(after) > 0 {
		judgeBursts(c, r, p, "client-after-late-seed", after, vals, list)
		r.Count("client_bursts_after_late_seed", int64(len(after)))
	}
	r.Count("evaluations", 1)
	r.Count("late_seed_connections", 1)
	if held > 0 {
		r.Count("late_seed_connections_with_seed_bytes_held_back", 1)
	}
	r.Distinct("nontrivial", fmt.Sprintf("seed-late/%s/%d", p, releaseAfter))
	cw.Close()
	sw.Close()
	wg.Wait()
}

// refReceiver: the reference server receives from a real client and decodes
// the frames: sizes must lie in [21,1448].
func refReceiver(c *mon.Case, r *mon.Run, p params) {
	rng := mon.NewRand(p.seed)
	flag.Set("obfs4-distBias", fmt.Sprint(p.biased))
	b := o4.NewBridge(rng, p.iat)
	cw, sw := memwire.Pair(memwire.Options{})
	var rc *o4.RefConn
	var rerr error
	done := make(chan struct{})
	c.Go(func() { close(done) }, func() { rc, _, _, rerr = o4.RefAccept(sw, b, rng, -1) })
	cc, err := o4.DialReal(cw, b.ClientArgsCert())
	<-done
	if err != nil || rerr != nil {
		c.Violation("setup/handshake-ref", fmt.Sprintf("%v / %v", err, rerr), p.String())
		cw.Close()
		sw.Close()
		return
	}
	total := 0
	var sizes []int
	for i := 0; i < 12; i++ {
		sizes = append(sizes, sizeMenu[rng.IntN(len(sizeMenu)-1)])
		total += sizes[i]
	}
	wdone := make(chan struct{})
	c.Go(func() { close(wdone) }, func() {
		st := mon.Stream{Key: p.seed}
		var off int64
		for _, sz := range sizes {
			if _, err := cc.Write(st.Bytes(off, sz)); err != nil {
				return
			}
			off += int64(sz)
		}
	})
	got := 0
	for got < total {
		pk, err := rc.ReadPackets()
		for _, q := range pk {
			got += len(q.Data)
			r.Count("frames_decoded_by_reference", 1)
			r.Max("frame_len_max", int64(q.FrameLen))
			r.Min("frame_len_min", int64(q.FrameLen))
			if q.FrameLen > mss || q.FrameLen < header {
				c.Violation("frame-size-out-of-range", fmt.Sprintf("frame of %d bytes; %s", q.FrameLen, p), p.String())
			}
		}
		if err != nil {
			c.Violation("setup/ref-decode", err.Error(), p.String())
			break
		}
	}
	<-wdone
	r.Count("evaluations", 1)
	cw.Close()
	sw.Close()
}

// seedToServer: a (reference) client sends a well-formed PRNG seed packet to a
// real server.  Only a client adopts the peer's seed; the bridge's bursts must
// keep following the bridge's own table.
func seedToServer(c *mon.Case, r *mon.Run, dir string, p params) {
	rng := mon.NewRand(p.seed)
	flag.Set("obfs4-distBias", fmt.Sprint(p.biased))
	b := o4.NewBridge(rng, p.iat)
	vals, list := table(b.Seed, p.biased)
	sf, err := o4.ServerFactory(dir, b)
	if err != nil {
		c.Violation("setup/server-factory", err.Error(), nil)
		return
	}
	cw, sw := memwire.Pair(memwire.Options{})
	var sc net.Conn
	var serr error
	done := make(chan struct{})
	c.Go(func() { close(done) }, func() { sc, serr = sf.WrapConn(sw) })
	rc, _, _, rerr := o4.RefDial(cw, b.Ref, rng, -1, o4.Hours(0))
	<-done
	if serr != nil || rerr != nil {
		c.Violation("setup/handshake-ref", fmt.Sprintf("%v / %v", serr, rerr), p.String())
		cw.Close()
		sw.Close()
		return
	}
	var wg sync.WaitGroup
	wg.Add(2)
	c.Go(wg.Done, func() { // server application drains
		buf := make([]byte, 8192)
		for {
			if _, err := sc.Read(buf); err != nil {
				return
			}
		}
	})
	c.Go(wg.Done, func() { // reference client drains the wire
		buf := make([]byte, 65536)
		for {
			if _, err := cw.Read(buf); err != nil {
				return
			}
		}
	})
	// a foreign seed whose table is the single value 1365 (disjoint from almost every other table)
	foreign, _ := hex.DecodeString(shaped["single-1365"])
	rc.WriteData([]byte("hello"), 0, 0)
	rc.Conn.Write(rc.Enc.Frame(ref.Packet(ref.PacketPrngSeed, foreign, 0)))
	rc.WriteData([]byte("world"), 0, 0)
	synctest.Wait()
	var sizes []int
	for i := 0; i < 24; i++ {
		sizes = append(sizes, sizeMenu[rng.IntN(len(sizeMenu))])
	}
	sb, ok := writeBursts(c, p, "server", sc, sw.Out(), sizes, mon.Stream{Key: p.seed})
	if ok {
		judgeBursts(c, r, p, "server-after-client-sent-a-seed", sb, vals, list)
		r.Count("server_bursts_after_client_seed_packet", int64(len(sb)))
		r.Distinct("nontrivial", "seed-to-server/"+p.String())
	}
	r.Count("evaluations", 1)
	synctest.Wait()
	cw.Close()
	sw.Close()
	wg.Wait()
}

func TestCheck(t *testing.T) {
	r := mon.Start(t, "C09")
	defer r.Finish()
	r.SpinWatch(memwire.BytesMoved)
	r.Note("rule", "(1) the real padBurst for (tail, target) pairs: thorough = all 1448 tails x 1449 targets plus tails beyond one segment, quick = all targets x 64 tails incl. edges; oracle = modular padding rule (ending on target, or on target+21 when the needed padding does not exceed a 21-byte header). (2) real client <-> real server per (IAT mode 0/1/2) x (biased/uniform) x seeds: PRNG seeds plus searched seeds whose table is single-valued ({0}, {10}, {210}, {1365}, {1448}), contains 0 ({356,0}, {108,0}) or has 100 values; application writes of sizes {0,1,2,100,1426..1428,2853..2855,4096,8192,23168,65536,PRNG<=3000}, every size 0..3000 once for one seed; each wire write attributed to its application Write; judged against the table the harness derives from the same seed with the real probdist; client bursts are judged against the server's table only after the client delivered server payload; a Write that exceeds a byte budget of 4 MiB + 64 x size is reported as not terminating. (2b) late seed: the server->client direction is delivered in 64-byte reads and what is left after the handshake is held back, so the client adopts the server's seed while its application is already writing (released after 0, 1, 2 or 5 client writes); client bursts that begin after server payload was delivered are judged against the server's table. (2c) frequencies: 3000 minimal bursts per side and connection (IAT modes 0/1, biased/uniform); the relative frequency of every burst ending must lie within one-sided Hoeffding bounds (t = 0.1, failure probability e^-60 per inequality) of the normalised weights of the bridge's distribution, for the server and for the client after the seed. (3) a reference receiver decodes real client frames and checks their sizes. Non-trivial = a connection on which bursts were judged; distinct = parameter tuple.")
	dir := o4.StateDir("c09")

	// (1) arithmetic
	var targets []int
	for t := 0; t <= mss; t++ {
		targets = append(targets, t)
	}
	var tails []int
	if r.Thorough() {
		for t := 0; t < mss; t++ {
			tails = append(tails, t)
		}
		tails = append(tails, mss, mss+1, 2*mss-1, 2*mss, 2*mss+700, 5*mss+1447)
		r.Note("exhaustive_part", "padding arithmetic: all 1448 tail lengths x all 1449 target lengths (plus 6 tails beyond one segment)")
	} else {
		rng := mon.NewRand(r.Sub("tails"))
		tails = []int{0, 1, 20, 21, 22, 23, 42, 43, 700, 723, 724, 725, 1405, 1406, 1407, 1426, 1427, 1428, 1446, 1447, mss, mss + 1, 2*mss - 1, 2*mss + 700}
		for len(tails) < 64 {
			tails = append(tails, rng.IntN(mss))
		}
		r.Note("exhaustive_part", "padding arithmetic: all 1449 target lengths x 64 tail lengths (edges + PRNG)")
	}
	for i := 0; i < len(tails); i += 8 {
		i := i
		r.Case(fmt.Sprintf("arith/%04d", i), func(c *mon.Case) { arith(c, r, tails[i:min(len(tails), i+8)], targets) })
	}

	// (2) wire
	nSeeds := r.Pick(48, 400)
	for iat := 0; iat < 3; iat++ {
		for _, biased := range []bool{false, true} {
			shapes := []string{"hundred-values", "pair-with-zero", "single-1448", "single-210", "single-1365", "single-10", "single-zero", "zero-sample-f2"}
			for _, shape := range shapes {
				iat, biased, shape := iat, biased, shape
				r.Bubble(fmt.Sprintf("wire/iat%d/b%v/shape-%s", iat, biased, shape), func(c *mon.Case) {
					runConn(c, r, dir, params{iat: iat, biased: biased, shape: shape, seed: r.Sub("shape", iat, biased, shape)})
				})
			}
			for s := 0; s < nSeeds; s++ {
				iat, biased, s := iat, biased, s
				r.Bubble(fmt.Sprintf("wire/iat%d/b%v/seed%04d", iat, biased, s), func(c *mon.Case) {
					runConn(c, r, dir, params{iat: iat, biased: biased, seed: r.Sub("seed", iat, biased, s)})
				})
			}
			iat, biased := iat, biased
			r.Bubble(fmt.Sprintf("seed-to-server/iat%d/b%v", iat, biased), func(c *mon.Case) {
				for k := 0; k < r.Pick(3, 30); k++ {
					seedToServer(c, r, dir, params{iat: iat, biased: biased, seed: r.Sub("s2s", iat, biased, k)})
				}
			})
			r.Bubble(fmt.Sprintf("seed-late/iat%d/b%v", iat, biased), func(c *mon.Case) {
				for k := 0; k < r.Pick(8, 60); k++ {
					seedLate(c, r, dir, params{iat: iat, biased: biased, seed: r.Sub("late", iat, biased, k)}, []int{0, 1, 2, 5}[k%4])
				}
			})
			r.Bubble(fmt.Sprintf("ref/iat%d/b%v", iat, biased), func(c *mon.Case) {
				for k := 0; k < r.Pick(2, 20); k++ {
					refReceiver(c, r, params{iat: iat, biased: biased, seed: r.Sub("ref", iat, biased, k)})
				}
			})
		}
	}
	// (2c) frequencies: the weights of the bridge's distribution, on both sides
	for iat := 0; iat < 2; iat++ {
		for _, biased := range []bool{false, true} {
			iat, biased := iat, biased
			for k := 0; k < r.Pick(3, 24); k++ {
				k := k
				r.Bubble(fmt.Sprintf("freq-small-table/iat%d/b%v/%03d", iat, biased, k), func(c *mon.Case) {
					freqConn(c, r, dir, params{iat: iat, biased: biased, shape: "small-table", seed: r.Sub("freq-small", iat, biased, k)})
				})
			}
			for k := 0; k < r.Pick(2, 24); k++ {
				k := k
				r.Bubble(fmt.Sprintf("freq/iat%d/b%v/%03d", iat, biased, k), func(c *mon.Case) {
					freqConn(c, r, dir, params{iat: iat, biased: biased, seed: r.Sub("freq", iat, biased, k)})
				})
			}
		}
	}
	// every application write size 0..3000 for one seed per mode
	for iat := 0; iat < 3; iat++ {
		for blk := 0; blk < 3001; blk += 250 {
			iat, blk := iat, blk
			r.Bubble(fmt.Sprintf("sizes/iat%d/%04d", iat, blk), func(c *mon.Case) {
				allSizes(c, r, dir, iat, blk, min(3001, blk+250), "")
			})
		}
	}
	// ... and every size around one segment for the searched table shapes (the
	// padding arithmetic near a full segment depends on the exact buffered length)
	for iat := 0; iat < 3; iat++ {
		for _, shape := range []string{"single-1448", "single-zero", "pair-with-zero", "zero-sample-f2", "single-1365", "single-210", "single-10"} {
			iat, shape := iat, shape
			r.Bubble(fmt.Sprintf("sizes-shaped/iat%d/%s", iat, shape), func(c *mon.Case) {
				allSizes(c, r, dir, iat, 1300, 1500, shape)
				if r.Thorough() {
					allSizes(c, r, dir, iat, 0, 1300, shape)
					allSizes(c, r, dir, iat, 1500, 3001, shape)
				}
			})
		}
	}
	_ = ref.MaxSegment
}

// allSizes writes every size in [lo,hi) once on one server connection.
func allSizes(c *mon.Case, r *mon.Run, dir string, iat, lo, hi int, shape string) {
	p := params{iat: iat, biased: false, shape: shape, seed: r.Sub("allsizes", iat, shape)}
	rng := mon.NewRand(p.seed)
	flag.Set("obfs4-distBias", "false")
	b := o4.NewBridge(rng, iat)
	if shape != "" {
		raw, _ := hex.DecodeString(shaped[shape])
		copy(b.Seed[:], raw)
	}
	vals, list := table(b.Seed, false)
	sf, err := o4.ServerFactory(dir, b)
	if err != nil {
		c.Violation("setup/server-factory", err.Error(), nil)
		return
	}
	cw, sw := memwire.Pair(memwire.Options{})
	var sc net.Conn
	var serr error
	done := make(chan struct{})
	c.Go(func() { close(done) }, func() { sc, serr = sf.WrapConn(sw) })
	cc, cerr := o4.DialReal(cw, b.ClientArgsCert())
	<-done
	if cerr != nil || serr != nil {
		c.Violation("setup/handshake", fmt.Sprintf("%v / %v", cerr, serr), p.String())
		cw.Close()
		sw.Close()
		return
	}
	var wg sync.WaitGroup
	wg.Add(1)
	c.Go(wg.Done, func() {
		buf := make([]byte, 32768)
		for {
			if _, err := cc.Read(buf); err != nil {
				return
			}
		}
	})
	var sizes []int
	for s := lo; s < hi; s++ {
		sizes = append(sizes, s)
	}
	sb, ok := writeBursts(c, p, "server", sc, sw.Out(), sizes, mon.Stream{Key: p.seed})
	if ok {
		judgeBursts(c, r, p, "server", sb, vals, list)
		r.Count("all_sizes_covered", int64(len(sizes)))
		r.Distinct("nontrivial", fmt.Sprintf("allsizes/%d/%d", iat, lo))
	}
	r.Count("evaluations", 1)
	synctest.Wait()
	cw.Close()
	sw.Close()
	wg.Wait()
}
