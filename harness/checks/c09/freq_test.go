package c09

// Frequency family: "uses the server's distribution" is about the weights as
// well as about the set of lengths.  The implementation draws one target per
// burst from its distribution with real randomness, so the weights only show
// in frequencies.  Here an endpoint performs N minimal bursts; the ending of
// every burst is a target v (residue v) or v+21 (see the padding rule), hence
// for every table value v with normalised weight p(v), and every residue x,
//
//	f(v) + f(v+21) >= p(v) - t        ("target = v" implies residue in {v, v+21})
//	f(x)           <= p(x) + p(x-21) + t  ("residue = x" implies target in {x, x-21})
//
// where f is the observed relative frequency of a residue.  Each inequality
// is a one-sided Hoeffding bound that a conforming endpoint breaks with
// probability at most exp(-2 N t^2) = e^-60 for N = 3000, t = 0.1: not a
// statistical test that is expected to fail now and then, but a bound that
// cannot be missed by chance in the lifetime of the machine, while weights
// that are off by more than 0.1 + 0.1 for some value (uniform instead of
// biased, another seed's table, ...) are caught.

import (
	"flag"
	"fmt"
	"net"
	"testing/synctest"

	"gitlab.com/yawning/obfs4.git/common/drbg"
	"gitlab.com/yawning/obfs4.git/common/probdist"

	"verif/memwire"
	"verif/mon"
	"verif/o4"
)

const (
	freqN = 3000
	freqT = 0.1
)

func weights(seed [24]byte, biased bool) map[int]float64 {
	s, _ := drbg.SeedFromBytes(seed[:])
	d := probdist.New(s, 0, mss, biased)
	_, _, v, w, _, _ := d.VerifTables()
	sum := 0.0
	for _, x := range w {
		sum += x
	}
	p := map[int]float64{}
	for i, x := range v {
		p[x%mss] += w[i] / sum // (1448 and 0 are the same ending)
	}
	return p
}

func judgeFreq(c *mon.Case, r *mon.Run, p params, side string, bs []burst, pw map[int]float64) {
	f := map[int]float64{}
	for _, b := range bs {
		total := 0
		for _, w := range b.writes {
			total += w
		}
		f[total%mss] += 1 / float64(len(bs))
	}
	top, topP := -1, 0.0
	for v, pv := range pw {
		if pv > topP {
			top, topP = v, pv
		}
	}
	wit := map[string]any{"params": p.String(), "side": side, "bursts": len(bs), "table_size": len(pw), "most_probable_value": top, "its_weight": topP, "its_observed_frequency": f[top] + f[(top+header)%mss]}
	ok := true
	for v, pv := range pw {
		if got := f[v] + f[(v+header)%mss]; got < pv-freqT {
			ok = false
			c.Violation("burst-frequencies-off-the-weights/too-rare/"+side, fmt.Sprintf("%s: table value %d has weight %.3f in the bridge's distribution but only %.3f of %d bursts ended on it (or on it + 21); %s", side, v, pv, got, len(bs), p), wit)
			break
		}
	}
	for x, fx := range f {
		if lim := pw[x] + pw[(x-header+mss)%mss] + freqT; fx > lim {
			ok = false
			c.Violation("burst-frequencies-off-the-weights/too-frequent/"+side, fmt.Sprintf("%s: %.3f of %d bursts ended on residue %d, whose weight in the bridge's distribution (with that of residue - 21) is only %.3f; %s", side, fx, len(bs), x, lim-freqT, p), wit)
			break
		}
	}
	r.Count("frequency_bursts", int64(len(bs)))
	if ok {
		r.Count("frequency_checks_within_bounds_"+side, 1)
	}
	if topP > 2*freqT {
		r.Count("frequency_checks_on_tables_with_a_dominant_value", 1)
	}
}

func freqConn(c *mon.Case, r *mon.Run, dir string, p params) {
	rng := mon.NewRand(p.seed)
	flag.Set("obfs4-distBias", fmt.Sprint(p.biased))
	b := o4.NewBridge(rng, p.iat)
	if p.shape == "small-table" {
		// search for a seed whose table has two to four values: there every
		// weight is large, so that a misplaced share of 1/n shows
		for try := 0; try < 3000; try++ {
			if n := len(weights(b.Seed, p.biased)); n >= 2 && n <= 4 {
				r.Count("frequency_checks_on_tables_with_2_to_4_values", 1)
				break
			}
			for i := range b.Seed {
				b.Seed[i] = byte(rng.IntN(256))
			}
		}
	}
	pw := weights(b.Seed, p.biased)
	sf, err := o4.ServerFactory(dir, b)
	if err != nil {
		c.Violation("setup/server-factory", err.Error(), nil)
		return
	}
	cw, sw := memwire.Pair(memwire.Options{})
	var sc net.Conn
	var serr error
	done := make(chan struct{})
	c.Go(func() { close(done) }, func() { sc, serr = sf.WrapConn(sw) })
	cc, cerr := o4.DialReal(cw, b.ClientArgsCert())
	<-done
	if cerr != nil || serr != nil {
		c.Violation("setup/handshake", fmt.Sprintf("%v / %v", cerr, serr), p.String())
		cw.Close()
		sw.Close()
		return
	}
	drained := make(chan struct{}, 2)
	got := make(chan int, 1)
	drain := func(conn net.Conn, first chan int) {
		buf := make([]byte, 32768)
		for {
			n, err := conn.Read(buf)
			if n > 0 && first != nil {
				select {
				case first <- n:
				default:
				}
			}
			if err != nil {
				drained <- struct{}{}
				return
			}
		}
	}
	go drain(sc, nil)
	go drain(cc, got)
	sizes := make([]int, freqN)
	for i := range sizes {
		sizes[i] = 1 + rng.IntN(3)
	}
	if sb, ok := writeBursts(c, p, "server", sc, sw.Out(), sizes, mon.Stream{Key: p.seed ^ 1}); ok {
		judgeFreq(c, r, p, "server", sb, pw)
		synctest.Wait()
		select {
		case <-got:
			// the client has delivered server payload, hence processed the seed frame
			if cb, ok := writeBursts(c, p, "client", cc, cw.Out(), sizes, mon.Stream{Key: p.seed ^ 2}); ok {
				judgeFreq(c, r, p, "client-after-seed", cb, pw)
			}
		default:
		}
	}
	r.Count("evaluations", 1)
	r.Distinct("nontrivial", "freq/"+p.String())
	synctest.Wait()
	cw.Close()
	sw.Close()
	<-drained
	<-drained
}
