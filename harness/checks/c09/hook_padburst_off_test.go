//go:build !verif_padburst

package c09

// padBurstHook without the hook: the arithmetic part is skipped.
func padBurstHook(tail, target int) (added int, err error, hooked bool) { return 0, nil, false }
