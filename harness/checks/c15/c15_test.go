// C15 — ScrambleSuit client: handshake, stream and tickets work for every
// segmentation.
//
// The real client (obtained only through the public transports API) talks to
// ref/ss, an independent conforming ScrambleSuit server, over memwire inside
// a synctest bubble.  The test goroutine is the server and the director: it
// decides the padding of the response, where the response is cut into
// segments (a segment is only put on the wire once the client has consumed
// the previous one and is blocked again), which packets follow, which bits
// are damaged, how the virtual clock moves and when the client "process" is
// restarted from the same state directory.  Outcomes are known by
// construction; the server's handshake log says which handshake type and
// which ticket every connection presented.
package c15

import (
	"encoding/base32"
	"encoding/json"
	"errors"
	"fmt"
	"io"
	"net"
	"os"
	"path/filepath"
	"runtime/debug"
	"strings"
	"sync"
	"syscall"
	"testing"
	"testing/synctest"
	"time"

	pt "gitlab.torproject.org/tpo/anti-censorship/pluggable-transports/goptlib"

	"gitlab.com/yawning/obfs4.git/transports"
	"gitlab.com/yawning/obfs4.git/transports/base"

	"verif/memwire"
	"verif/mon"
	"verif/o4" // its init registers the transports; RandReader, StateDir
	ss "verif/ref/ss"
)

const ticketFile = "scramblesuit_tickets.json"

func password(kB [ss.SharedSecretLn]byte) string { return base32.StdEncoding.EncodeToString(kB[:]) }

func newFactory(dir string) (base.ClientFactory, error) {
	t := transports.Get("scramblesuit")
	if t == nil {
		return nil, errors.New("scramblesuit transport not registered")
	}
	return t.ClientFactory(dir)
}

func newKB(rng interface{ Uint32() uint32 }) (k [ss.SharedSecretLn]byte) {
	for i := range k {
		k[i] = byte(rng.Uint32())
	}
	return
}

type dialResult struct {
	conn  net.Conn
	err   error
	panic string // non-empty: Dial panicked
	stack string
	sent  int // connect(): bytes the client had put on the wire when the attempt failed
}

func (d dialResult) failed() bool { return d.err != nil || d.panic != "" }

// startDial runs the real client (ParseArgs once, then one Dial) over wire in
// its own goroutine.  A panic inside the client is caught and reported in the
// result.  On any failure the wire is closed so that the server side wakes up.
func startDial(cf base.ClientFactory, pw string, wire *memwire.Conn) chan dialResult {
	ch := make(chan dialResult, 1)
	go func() {
		var res dialResult
		defer func() {
			if e := recover(); e != nil {
				res.panic = fmt.Sprint(e)
				res.stack = string(debug.Stack())
			}
			if res.failed() {
				wire.Close()
			}
			ch <- res
		}()
		args := pt.Args{}
		args.Add("password", pw)
		pa, err := cf.ParseArgs(&args)
		if err != nil {
			res.err = fmt.Errorf("ParseArgs: %w", err)
			return
		}
		res.conn, res.err = cf.Dial("tcp", wire.RemoteAddr().String(), func(string, string) (net.Conn, error) { return wire, nil }, pa)
	}()
	return ch
}

var errCompletedUnauthenticated = errors.New("the client's Dial returned success although the server never authenticated it (and therefore stays silent)")

// awaitHello lets the reference server read the client's first message and
// returns the authenticated hello.  It never blocks for ever: if the server
// has not authenticated the client once everything is quiescent, it waits for
// Dial to end (at the latest by the client's own 60 s virtual deadline),
// closes the wire and returns an error; the dial result stays in ch.
func awaitHello(srv *ss.Server, cw, sw *memwire.Conn, ch chan dialResult) (*ss.Hello, error) {
	type helloRes struct {
		h   *ss.Hello
		err error
	}
	hch := make(chan helloRes, 1)
	go func() {
		h, err := srv.ReadHello(sw)
		hch <- helloRes{h, err}
	}()
	synctest.Wait()
	select {
	case hr := <-hch:
		return hr.h, hr.err
	default:
	}
	res := <-ch
	ch <- res
	cw.Close()
	hr := <-hch
	if hr.err == nil {
		return hr.h, nil // (cannot happen: the server was quiescent without a hello)
	}
	if !res.failed() {
		return nil, errCompletedUnauthenticated
	}
	return nil, hr.err
}

var addrCtr int

// pair returns a fresh wire whose server address is unique within the process
// (the client's ticket store is keyed by the remote address) unless addr is given.
func pair(addr *net.TCPAddr) (*memwire.Conn, *memwire.Conn) {
	cw, sw := memwire.Pair(memwire.Options{})
	if addr == nil {
		addrCtr++
		addr = &net.TCPAddr{IP: net.IPv4(10, byte(addrCtr>>16), byte(addrCtr>>8), byte(addrCtr)), Port: 443}
	}
	cl := &net.TCPAddr{IP: net.IPv4(192, 0, 2, 1), Port: 40001}
	cw.SetAddrs(cl, addr)
	sw.SetAddrs(addr, cl)
	return cw, sw
}

// ---------------------------------------------------------------- an established connection

// link is one client<->reference-server connection with its monitors.
type link struct {
	c      *mon.Case
	cw, sw *memwire.Conn
	cc     net.Conn
	sess   *ss.Session
	hello  *ss.Hello
	down   mon.Stream // server -> client
	up     mon.Stream // client -> server

	mu         sync.Mutex
	dWritten   int64 // payload bytes the server has put into packets
	dDelivered int64
	dMismatch  int64
	dErr       error
	uWritten   int64
	uDecoded   int64
	uMismatch  int64
	uErr       error // decoder error on what the client emitted
	uWriteErr  error
	uBadPkt    string
	wg         sync.WaitGroup
	closed     bool
}

func newLink(c *mon.Case, cw, sw *memwire.Conn, cc net.Conn, sess *ss.Session, hello *ss.Hello, seed uint64) *link {
	return &link{c: c, cw: cw, sw: sw, cc: cc, sess: sess, hello: hello, down: mon.Stream{Key: seed ^ 0xd0}, up: mon.Stream{Key: seed ^ 0x0b}, dMismatch: -1, uMismatch: -1}
}

// clientReader: the client application reads until the first error.  (What a
// caller that ignores the error and keeps reading would get is not judged:
// the statement is "reports an error, never altered data".)
func (l *link) clientReader(bufSeed uint64) {
	l.wg.Add(1)
	l.c.Go(l.wg.Done, func() {
		brng := mon.NewRand(bufSeed)
		for {
			buf := make([]byte, 1+brng.IntN(5000))
			n, err := l.cc.Read(buf)
			l.mu.Lock()
			if n > 0 {
				if i := l.down.Check(buf[:n], l.dDelivered); i >= 0 && l.dMismatch < 0 {
					l.dMismatch = l.dDelivered + int64(i)
				}
				l.dDelivered += int64(n)
			}
			if err != nil {
				l.dErr = err
			}
			l.mu.Unlock()
			if err != nil {
				// nobody reads any more: fail the peers instead of letting them
				// block on a full window
				l.cw.Close()
				l.sw.Close()
				return
			}
		}
	})
}

// serverReader decodes everything the client emits (starting with what
// arrived behind its hello).
func (l *link) serverReader() {
	l.wg.Add(1)
	l.c.Go(l.wg.Done, func() {
		feed := func(p []byte) bool {
			pk, err := l.sess.Dec.Feed(p)
			l.mu.Lock()
			defer l.mu.Unlock()
			for _, q := range pk {
				switch {
				case q.Flags != ss.FlagPayload:
					l.uBadPkt = fmt.Sprintf("client sent a packet with flags %#x", q.Flags)
				case !q.PadAllZero:
					l.uBadPkt = "client packet padding is not zero"
				}
				if q.Flags == ss.FlagPayload {
					if i := l.up.Check(q.Payload, l.uDecoded); i >= 0 && l.uMismatch < 0 {
						l.uMismatch = l.uDecoded + int64(i)
					}
					l.uDecoded += int64(len(q.Payload))
				}
			}
			if err != nil && l.uErr == nil {
				l.uErr = err
			}
			return err == nil
		}
		if len(l.hello.Rest) > 0 && !feed(l.hello.Rest) {
			return
		}
		buf := make([]byte, 32768)
		for {
			n, err := l.sw.Read(buf)
			if n > 0 && !feed(buf[:n]) {
				return
			}
			if err != nil {
				return
			}
		}
	})
}

// clientWrite performs one application write on the client.
func (l *link) clientWrite(n int) {
	l.mu.Lock()
	off := l.uWritten
	l.mu.Unlock()
	m, err := l.cc.Write(l.up.Bytes(off, n))
	l.mu.Lock()
	l.uWritten = off + int64(m)
	if err == nil && m != n {
		err = fmt.Errorf("short write %d of %d without error", m, n)
	}
	if err != nil && l.uWriteErr == nil {
		l.uWriteErr = err
	}
	l.mu.Unlock()
}

// payloadPackets encodes the next n stream bytes as packets carrying at most
// maxData payload bytes and pad bytes of padding each.
func (l *link) payloadPackets(n, maxData, pad int) []byte {
	if maxData <= 0 || maxData > ss.MaxBody {
		maxData = ss.MaxBody
	}
	l.mu.Lock()
	off := l.dWritten
	l.dWritten += int64(n)
	l.mu.Unlock()
	data := l.down.Bytes(off, n)
	var out []byte
	for len(data) > 0 {
		k := min(len(data), maxData)
		p := min(pad, ss.MaxBody-k)
		out = append(out, l.sess.Enc.Packet(ss.FlagPayload, data[:k], p)...)
		data = data[k:]
	}
	return out
}

func (l *link) padPacket(n int) []byte { return l.sess.Enc.Packet(ss.FlagPayload, nil, n) }

// downBytes accounts for n more bytes of the server's stream and returns them.
func (l *link) downBytes(n int) []byte {
	l.mu.Lock()
	off := l.dWritten
	l.dWritten += int64(n)
	l.mu.Unlock()
	return l.down.Bytes(off, n)
}

// judgedOK: the streams were complete and intact at the last quiescent point.
func (l *link) judgedOK(s snap) bool {
	return s.dMismatch < 0 && s.uMismatch < 0 && s.dErr == nil && s.uErr == nil && s.uWriteErr == nil && s.dDelivered == s.dWritten && s.uDecoded == s.uWritten
}

type snap struct {
	dWritten, dDelivered, dMismatch int64
	dErr                            error
	uWritten, uDecoded, uMismatch   int64
	uErr, uWriteErr                 error
	uBadPkt                         string
}

func (l *link) snapshot() snap {
	l.mu.Lock()
	defer l.mu.Unlock()
	return snap{l.dWritten, l.dDelivered, l.dMismatch, l.dErr, l.uWritten, l.uDecoded, l.uMismatch, l.uErr, l.uWriteErr, l.uBadPkt}
}

func (l *link) close() {
	if l.closed {
		return
	}
	l.closed = true
	if l.cc != nil {
		l.cc.Close()
	}
	l.cw.Close()
	l.sw.Close()
	l.wg.Wait()
}

// judgeStreams compares both directions at a quiescent point.  what is the
// stable class of the scenario (goes into the signature).
func (l *link) judgeStreams(what string, wit any) bool {
	s := l.snapshot()
	ok := true
	v := func(sig, format string, a ...any) {
		l.c.Violation(sig+"/"+what, fmt.Sprintf(format, a...), wit)
		ok = false
	}
	// the root cause only: once a Read has failed the monitor stops reading and
	// fails the wire, so later write errors / short counts are consequences
	if s.dMismatch >= 0 {
		v("stream-mismatch/down", "byte %d delivered to the client application is not the byte the server sent there", s.dMismatch)
	}
	if s.uMismatch >= 0 {
		v("stream-mismatch/up", "payload byte %d decoded by the reference server is not the byte the client application wrote there", s.uMismatch)
	}
	switch {
	case s.dErr != nil:
		v("read-error", "client Read failed on a healthy connection after %d of %d bytes: %v", s.dDelivered, s.dWritten, s.dErr)
		return ok
	case s.uErr != nil:
		v("client-packets-rejected", "the reference server cannot decode what the client emitted: %v", s.uErr)
		return ok
	case s.uWriteErr != nil:
		v("write-error", "client Write failed on a healthy connection: %v", s.uWriteErr)
		return ok
	}
	if s.uBadPkt != "" {
		v("client-packet-malformed", "%s", s.uBadPkt)
	}
	if s.dDelivered != s.dWritten && s.dMismatch < 0 {
		v("stream-short/down", "quiescent after a trailing padding-only packet with %d of %d bytes delivered to the client application", s.dDelivered, s.dWritten)
	}
	if s.uDecoded != s.uWritten && s.uMismatch < 0 {
		v("stream-short/up", "quiescent with %d of %d client bytes decoded by the server (%d bytes of an incomplete packet held)", s.uDecoded, s.uWritten, l.sess.Dec.Buffered())
	}
	return ok
}

// ---------------------------------------------------------------- part A: padding x split of the response

type splitSpec struct {
	pad    int
	cuts   []int // ascending offsets into the server's first stream (response | coalesced packets)
	extras int   // 0 response only, 1 NewTicket+seed packets coalesced behind the response, 2 the same sent later with the first payload
	every  int   // > 0: cuts holds every multiple of this chunk size (for printing)
	mech   int   // 0: one wire write per segment, the next one only after the client has consumed the previous and is blocked again; 1: one wire write, reads capped at the cut offsets (memwire.Boundaries)
}

func (s splitSpec) cutsString() string {
	if s.every > 0 {
		return fmt.Sprintf("[every %d bytes]", s.every)
	}
	return fmt.Sprint(s.cuts)
}

func (s splitSpec) String() string {
	return fmt.Sprintf("pad=%d cuts=%s extras=%d mech=%d", s.pad, s.cutsString(), s.extras, s.mech)
}

// region names the field of the response that is incomplete at cut offset s.
func region(s, pad int) string {
	switch {
	case s < ss.PubKeyLen:
		return "inside-Y"
	case s < ss.PubKeyLen+pad:
		return "inside-padding"
	case s < ss.PubKeyLen+pad+ss.MacLen:
		return "inside-M_S"
	case s < ss.PubKeyLen+pad+2*ss.MacLen:
		return "inside-MAC_S"
	case s == ss.PubKeyLen+pad+2*ss.MacLen:
		return "after-response"
	}
	return "inside-trailing-packets"
}

// class: the region of the last cut that lies inside the response.
func (s splitSpec) class() string {
	L := ss.MinUDH + s.pad
	cl := "unsplit"
	for _, cut := range s.cuts {
		if cut < L || cl == "unsplit" {
			cl = "split-" + region(cut, s.pad)
		}
	}
	return "response-" + cl
}

type srvCtx struct {
	srv *ss.Server
	kB  [ss.SharedSecretLn]byte
	pw  string
	rnd o4.RandReader
}

func newSrv(seed uint64) *srvCtx {
	rng := mon.NewRand(seed)
	s := &srvCtx{kB: newKB(rng), rnd: o4.RandReader{R: rng}}
	s.pw = password(s.kB)
	s.srv = ss.NewServer(s.kB, s.rnd)
	return s
}

func readTicketFile(dir string) map[string]struct {
	KeyTicket string `json:"key-ticket"`
	IssuedAt  int64  `json:"issuedAt"`
} {
	m := map[string]struct {
		KeyTicket string `json:"key-ticket"`
		IssuedAt  int64  `json:"issuedAt"`
	}{}
	b, err := os.ReadFile(filepath.Join(dir, ticketFile))
	if err != nil {
		return nil
	}
	if json.Unmarshal(b, &m) != nil {
		return nil
	}
	return m
}

func runSplit(c *mon.Case, r *mon.Run, sc *srvCtx, cf base.ClientFactory, dir string, sp splitSpec, seed uint64) {
	rng := mon.NewRand(seed)
	r.Count("evaluations", 1)
	r.Count("split_connections", 1)
	wit := map[string]any{"padding": sp.pad, "response_len": ss.MinUDH + sp.pad, "cuts": sp.cutsString(), "extras": sp.extras, "mechanism": sp.mech}
	cw, sw := pair(nil)
	ch := startDial(cf, sc.pw, cw)
	hello, err := awaitHello(sc.srv, cw, sw, ch)
	if err != nil {
		res := <-ch
		c.Violation("client-hello-not-authenticated/udh", fmt.Sprintf("the reference server could not authenticate the client's first message: %v (dial: err=%v panic=%q); %s", err, res.err, res.panic, sp), wit)
		cw.Close()
		sw.Close()
		return
	}
	if hello.Type != "udh" {
		c.Violation("harness/unexpected-ticket-handshake", sp.String(), wit)
	}
	resp, sess := sc.srv.Respond(hello, sp.pad, nil)
	stream := resp
	var ticketBody []byte
	var extraPkts []byte
	if sp.extras != 0 {
		ticketBody, _ = sc.srv.IssueTicket()
		extraPkts = append(extraPkts, sess.Enc.Packet(ss.FlagNewTicket, ticketBody, rng.IntN(40))...)
		seedBody := make([]byte, ss.SeedLen)
		sc.rnd.Read(seedBody)
		extraPkts = append(extraPkts, sess.Enc.Packet(ss.FlagPrngSeed, seedBody, 0)...)
		if sp.extras == 1 {
			stream = append(append([]byte{}, resp...), extraPkts...)
			extraPkts = nil
		}
	}
	for _, cut := range sp.cuts {
		if cut <= 0 || cut >= len(stream) {
			c.Violation("harness/bad-cut", sp.String(), wit)
			cw.Close()
			sw.Close()
			<-ch
			return
		}
	}
	// deliver the stream in segments
	if sp.mech == 1 {
		offs := make([]int64, len(sp.cuts))
		for i, cut := range sp.cuts {
			offs[i] = int64(cut)
		}
		sw.Out().SetPolicy(memwire.Boundaries(offs))
		sw.Write(stream)
		synctest.Wait()
	} else {
		prev := 0
		for _, cut := range append(append([]int{}, sp.cuts...), len(stream)) {
			sw.Write(stream[prev:cut])
			synctest.Wait() // the client has consumed the segment and is blocked again (or Dial returned)
			prev = cut
		}
	}
	cls := sp.class()
	for _, cut := range sp.cuts {
		r.Count("cut_"+region(cut, sp.pad), 1)
		r.Distinct("cut_offsets_from_end", fmt.Sprint(len(resp)-cut))
		r.Distinct("cut_offsets_abs", fmt.Sprint(cut))
	}
	r.Distinct("paddings", fmt.Sprint(sp.pad))
	r.Distinct("pad_x_cut", fmt.Sprintf("%d/%s", sp.pad, sp.cutsString()))
	var res dialResult
	select {
	case res = <-ch:
	default:
		c.Violation("dial-blocked/"+cls, fmt.Sprintf("the complete response (%d bytes, padding %d) was delivered in segments cut at %s and the client is quiescent, but Dial has not returned", len(resp), sp.pad, sp.cutsString()), wit)
		cw.Close()
		sw.Close()
		<-ch
		return
	}
	_, reads, _ := sw.Out().Snapshot()
	var readSizes []int
	for _, e := range reads {
		if e.N > 0 {
			readSizes = append(readSizes, e.N)
		}
	}
	if len(readSizes) > 12 {
		readSizes = append(readSizes[:0:0], readSizes[len(readSizes)-12:]...) // the last dozen
	}
	wit["client_wire_reads"] = readSizes
	if res.panic != "" {
		wit["stack"] = trim(res.stack)
		c.Violation("dial-panic/"+cls, fmt.Sprintf("Dial panicked: %s; response of %d bytes (padding %d) delivered in segments cut at %s (client wire reads %v)", res.panic, len(resp), sp.pad, sp.cutsString(), readSizes), wit)
		r.Count("dial_panics", 1)
		sw.Close()
		return
	}
	if res.err != nil {
		c.Violation("dial-failed/"+cls, fmt.Sprintf("Dial failed against the conforming server: %v; response of %d bytes (padding %d) delivered in segments cut at %s (client wire reads %v)", res.err, len(resp), sp.pad, sp.cutsString(), readSizes), wit)
		r.Count("dial_failures", 1)
		sw.Close()
		return
	}
	r.Count("control_udh_completed", 1)
	if len(sp.cuts) > 0 {
		r.Count("udh_completed_with_split_response", 1)
	}
	// the session must be usable: a little data both ways, then one trailing
	// padding-only packet, then quiescence
	l := newLink(c, cw, sw, res.conn, sess, hello, seed)
	defer l.close()
	l.clientReader(seed ^ 1)
	l.serverReader()
	nUp, nDown := 1+rng.IntN(400), 1+rng.IntN(400)
	var w sync.WaitGroup
	w.Add(1)
	c.Go(w.Done, func() { l.clientWrite(nUp) })
	out := append(extraPkts, l.payloadPackets(nDown, []int{0, 1, 100}[rng.IntN(3)], rng.IntN(30))...)
	sw.Write(out)
	w.Wait()
	synctest.Wait()
	sw.Write(l.padPacket(rng.IntN(50)))
	synctest.Wait()
	if l.judgeStreams("after-"+cls, wit) {
		r.Count("split_sessions_verified", 1)
		r.Distinct("nontrivial", "split/"+sp.String())
	}
	if sp.extras != 0 {
		r.Count("tickets_sent_with_handshake", 1)
		ent, ok := readTicketFile(dir)[cw.RemoteAddr().String()]
		if ok && ent.KeyTicket == base32.StdEncoding.EncodeToString(ticketBody) {
			r.Count("tickets_found_in_store_file", 1)
		} else {
			r.Count("tickets_missing_in_store_file", 1)
		}
	}
}

func trim(st string) string {
	lines := strings.Split(st, "\n")
	var keep []string
	for _, ln := range lines {
		if strings.Contains(ln, "obfs4.git") {
			keep = append(keep, strings.TrimSpace(ln))
		}
		if len(keep) >= 8 {
			break
		}
	}
	return strings.Join(keep, " | ")
}

// ---------------------------------------------------------------- connect helper (unsplit handshake)

// connect dials over a fresh wire and lets the reference server complete
// whatever handshake the client starts.  The returned link has its monitors
// running.  addr nil = unique server address.
func connect(c *mon.Case, sc *srvCtx, cf base.ClientFactory, pw string, addr *net.TCPAddr, pad int, seed uint64) (*link, dialResult, error) {
	cw, sw := pair(addr)
	ch := startDial(cf, pw, cw)
	hello, err := awaitHello(sc.srv, cw, sw, ch)
	if err != nil {
		res := <-ch
		if res.conn != nil {
			res.conn.Close()
		}
		_, _, sent := cw.Out().Snapshot()
		res.sent = len(sent)
		cw.Close()
		sw.Close()
		return nil, res, err
	}
	resp, sess := sc.srv.Respond(hello, pad, nil)
	if resp != nil {
		sw.Write(resp)
	}
	res := <-ch
	if res.failed() {
		_, _, sent := cw.Out().Snapshot()
		res.sent = len(sent)
		cw.Close()
		sw.Close()
		return nil, res, nil
	}
	l := newLink(c, cw, sw, res.conn, sess, hello, seed)
	l.clientReader(seed ^ 1)
	l.serverReader()
	return l, res, nil
}

// ---------------------------------------------------------------- part B: streams

type chunkSpec struct {
	name string
	mk   func(seed uint64) memwire.ChunkPolicy
	win  int
}

var chunkings = []chunkSpec{
	{"all", func(uint64) memwire.ChunkPolicy { return memwire.All() }, 0},
	{"1", func(uint64) memwire.ChunkPolicy { return memwire.Fixed(1) }, 0},
	{"2", func(uint64) memwire.ChunkPolicy { return memwire.Fixed(2) }, 0},
	{"7", func(uint64) memwire.ChunkPolicy { return memwire.Fixed(7) }, 0},
	{"21", func(uint64) memwire.ChunkPolicy { return memwire.Fixed(21) }, 0},
	{"1447", func(uint64) memwire.ChunkPolicy { return memwire.Fixed(1447) }, 0},
	{"1448", func(uint64) memwire.ChunkPolicy { return memwire.Fixed(1448) }, 0},
	{"1449", func(uint64) memwire.ChunkPolicy { return memwire.Fixed(1449) }, 0},
	{"prng64", func(s uint64) memwire.ChunkPolicy { return memwire.PRNG(s, 64) }, 0},
	{"prng3000", func(s uint64) memwire.ChunkPolicy { return memwire.PRNG(s, 3000) }, 0},
	{"win4096", func(uint64) memwire.ChunkPolicy { return memwire.All() }, 4096},
}

var sizeMenu = []int{0, 1, 2, 1426, 1427, 1428, 2853, 2854, 2855, 4096, 8192, 20000}

func script(rng interface{ IntN(int) int }, n, maxTotal int) []int {
	var out []int
	total := 0
	for i := 0; i < n; i++ {
		sz := sizeMenu[rng.IntN(len(sizeMenu))]
		if rng.IntN(3) == 0 {
			sz = rng.IntN(3000)
		}
		if total+sz > maxTotal {
			sz = rng.IntN(64)
		}
		total += sz
		out = append(out, sz)
	}
	return out
}

// runStream: one UniformDH connection and (using the ticket it was given) one
// ticket connection; on each, concurrent reader and writer on the client,
// position-dependent streams both ways.
// bigMenu: single application writes well beyond any internal buffer size a
// transport might use (io.Copy's 32 KiB, 64 KiB), deliberately not multiples of them.
var bigMenu = []int{32767, 32769, 40000, 65535, 65537, 98305, 100001, 131073, 200003}

// rolloverNext makes the next runStream start its handshakes 10 ms before the
// top of the (virtual) hour and hold the server's response until after it.
var rolloverNext bool

func runStream(c *mon.Case, r *mon.Run, dir string, chunk int, scenario int, seed uint64, big int) {
	rollover := rolloverNext
	rolloverNext = false
	rng := mon.NewRand(seed)
	sc := newSrv(seed ^ 0x5e)
	cf, err := newFactory(dir)
	if err != nil {
		c.Violation("setup/client-factory", err.Error(), nil)
		return
	}
	addrCtr++
	addr := &net.TCPAddr{IP: net.IPv4(10, byte(addrCtr>>16), byte(addrCtr>>8), byte(addrCtr)), Port: 443}
	for round := 0; round < 2; round++ {
		r.Count("evaluations", 1)
		wit := map[string]any{"chunking": chunkings[chunk].name, "scenario": scenario, "round": round, "seed": fmt.Sprintf("%x", seed)}
		if rollover {
			now := time.Now()
			time.Sleep(time.Until(now.Truncate(time.Hour).Add(time.Hour - 10*time.Millisecond)))
		}
		cw, sw := pair(addr)
		s2c, c2s := sw.Out(), cw.Out()
		ch := startDial(cf, sc.pw, cw)
		hello, err := awaitHello(sc.srv, cw, sw, ch)
		if err != nil {
			res := <-ch
			c.Violation("client-hello-not-authenticated/stream", fmt.Sprintf("round %d: %v (dial err=%v panic=%q)", round, err, res.err, res.panic), wit)
			cw.Close()
			sw.Close()
			return
		}
		if rollover {
			before := ss.EpochHour(time.Now().Unix())
			time.Sleep(50 * time.Millisecond) // the top of the hour passes between the client's hello and the server's response
			if ss.EpochHour(time.Now().Unix()) != before {
				r.Count("handshakes_across_hour_rollover", 1)
			}
			wit["hour_rollover_during_handshake"] = true
		}
		what := "stream-after-" + hello.Type
		resp, sess := sc.srv.Respond(hello, rng.IntN(ss.MaxUDHPad+1), nil)
		l := newLink(c, cw, sw, nil, sess, hello, seed+uint64(round))
		nW := 2 + rng.IntN(5)
		maxTotal := 30000
		if n := chunkings[chunk].name; n == "1" || n == "2" {
			maxTotal = 5000
		}
		sScript, cScript := script(rng, nW, maxTotal), script(rng, nW, maxTotal)
		if big > 0 {
			b := bigMenu[(big-1+round)%len(bigMenu)]
			b2 := bigMenu[(big+3+round)%len(bigMenu)]
			cScript, sScript = []int{rng.IntN(200), b, 1 + rng.IntN(3000), b2, 17}, []int{b, 1 + rng.IntN(200), b2, 3000, 1}
			nW = 5
			r.Count("big_write_connections", 1)
		}
		// server first write: response, in scenario 1 coalesced with ticket, seed and the first payload
		first := resp
		var issued bool
		if scenario == 1 || hello.Type == "ticket" {
			body, _ := sc.srv.IssueTicket()
			issued = true
			first = append(append([]byte{}, first...), sess.Enc.Packet(ss.FlagNewTicket, body, 0)...)
			sd := make([]byte, ss.SeedLen)
			sc.rnd.Read(sd)
			first = append(first, sess.Enc.Packet(ss.FlagPrngSeed, sd, 0)...)
			if sScript[0] == 0 {
				sScript[0] = 12
			}
			first = append(first, l.payloadPackets(sScript[0], 0, rng.IntN(100))...)
			sScript = sScript[1:]
			r.Count("stream_server_speaks_first_coalesced", 1)
		}
		if len(first) > 0 {
			sw.Write(first)
		}
		res := <-ch
		if res.failed() {
			c.Violation("dial-failed/"+what, fmt.Sprintf("round %d: err=%v panic=%q", round, res.err, res.panic), wit)
			cw.Close()
			sw.Close()
			return
		}
		l.cc = res.conn
		// chunk policies apply to the data phase (part A owns the handshake phase)
		s2c.SetPolicy(chunkings[chunk].mk(seed ^ 2))
		if w := chunkings[chunk].win; w > 0 {
			s2c.SetWindow(w)
			c2s.SetWindow(w)
		}
		c2s.SetPolicy(chunkings[(chunk+3)%len(chunkings)].mk(seed ^ 3))
		l.clientReader(seed ^ 4)
		l.serverReader()
		var writers sync.WaitGroup
		writers.Add(2)
		gap := func() time.Duration {
			if scenario == 2 {
				return time.Duration(rng.IntN(10)) * time.Minute
			}
			return time.Duration(rng.IntN(5000)) * time.Microsecond
		}
		var sGaps, cGaps []time.Duration
		for range sScript {
			sGaps = append(sGaps, gap())
		}
		for range cScript {
			cGaps = append(cGaps, gap())
		}
		wr := mon.NewRand(seed ^ 5)
		c.Go(writers.Done, func() {
			for i, sz := range sScript {
				time.Sleep(sGaps[i])
				maxData := []int{0, 1, 7, 733, 1427}[wr.IntN(5)]
				if sz > 2000 && maxData > 0 && maxData < 100 {
					maxData = 733
				}
				// (packets must be built in the order they are sent: the cipher state runs on)
				var out []byte
				kind := wr.IntN(6)
				if kind == 1 {
					sd := make([]byte, ss.SeedLen)
					for k := range sd {
						sd[k] = byte(wr.Uint32())
					}
					out = append(out, l.sess.Enc.Packet(ss.FlagPrngSeed, sd, wr.IntN(9))...)
					r.Count("stream_seed_packets_midstream", 1)
				}
				out = append(out, l.payloadPackets(sz, maxData, []int{0, 0, 1, 21, 100, 1427}[wr.IntN(6)])...)
				switch kind {
				case 0:
					out = append(out, l.padPacket(wr.IntN(ss.MaxBody+1))...)
				case 2:
					if !issued {
						body, _ := sc.srv.IssueTicket()
						issued = true
						out = append(out, l.sess.Enc.Packet(ss.FlagNewTicket, body, wr.IntN(9))...)
					}
				}
				if _, err := sw.Write(out); err != nil {
					return
				}
			}
		})
		c.Go(writers.Done, func() {
			for i, sz := range cScript {
				time.Sleep(cGaps[i])
				l.clientWrite(sz)
			}
		})
		writers.Wait()
		synctest.Wait()
		if !issued {
			// make sure round 1 has a ticket to redeem
			body, _ := sc.srv.IssueTicket()
			sw.Write(sess.Enc.Packet(ss.FlagNewTicket, body, 3))
		}
		sw.Write(l.padPacket(rng.IntN(100))) // the one further padding-only packet the rule allows
		synctest.Wait()
		s := l.snapshot()
		if l.judgeStreams(what, wit) {
			r.Count("streams_verified_"+hello.Type, 1)
			r.Distinct("nontrivial", fmt.Sprintf("stream/%d/%d/%x/%d", chunk, scenario, seed, round))
		}
		r.Count("stream_bytes_down", s.dDelivered)
		r.Count("stream_bytes_up", s.uDecoded)
		r.Count("stream_connections", 1)
		// closing phase: the server's last burst ends with a small packet (1..20
		// bytes behind the 21-byte MAC and header) or an ordinary one, the wire
		// hands the client the header first and the body later, and the server's
		// connection ends right behind it — in a read of its own or, as an
		// io.Reader may, together with the last bytes.  Everything sent must
		// be delivered before the client's Read reports the end.
		if l.judgedOK(s) {
			body := 1 + rng.IntN(20)
			if rng.IntN(3) == 0 {
				body = 21 + rng.IntN(1400)
			}
			k := 1 + rng.IntN(body)
			withData := rng.IntN(2) == 0
			s2c.Pause(true)
			leadMax := 3000
			if chunkings[chunk].win > 0 {
				leadMax = 1000 // (the wire is held: the burst must fit into its window)
			}
			lead := l.payloadPackets(rng.IntN(leadMax), 0, rng.IntN(50))
			last := l.sess.Enc.Packet(ss.FlagPayload, l.downBytes(k), body-k)
			cutAt := s2c.Written() + int64(len(lead)) + 21
			sw.Write(append(lead, last...))
			if chunkings[chunk].win == 0 && rng.IntN(2) == 0 {
				// a read boundary right behind the last packet's header, whatever the chunking
				s2c.SetPolicy(memwire.Boundaries([]int64{cutAt, cutAt + 1 + int64(rng.IntN(body))}))
			}
			s2c.SetErrWithData(withData)
			s2c.CloseWrite()
			s2c.Pause(false)
			synctest.Wait()
			e := l.snapshot()
			r.Count("closing_phases", 1)
			if body <= 20 {
				r.Count("closing_phases_with_a_small_last_packet", 1)
			}
			if withData {
				r.Count("closing_phases_end_reported_with_last_data", 1)
			}
			wit["last_packet_body"], wit["end_reported_with_last_data"] = body, withData
			switch {
			case e.dMismatch >= 0:
				c.Violation("stream-mismatch/down/last-bytes-before-the-end/"+what, fmt.Sprintf("byte %d delivered to the client application is not the byte the server sent there (the server's connection ended right behind a last packet with a %d-byte body)", e.dMismatch, body), wit)
			case e.dErr == nil:
				c.Violation("end-not-reported/"+what, fmt.Sprintf("the server's connection ended after %d bytes but the client's Read has not reported it at quiescence (%d delivered; last packet body %d bytes)", e.dWritten, e.dDelivered, body), wit)
			case e.dDelivered != e.dWritten:
				c.Violation("lost-at-end/"+what, fmt.Sprintf("the server sent %d bytes before its connection ended, the client's Read reported the end (%v) after delivering %d (last packet body %d bytes, end reported together with data: %v)", e.dWritten, e.dErr, e.dDelivered, body, withData), wit)
			default:
				r.Count("closing_phases_all_delivered_before_the_end", 1)
			}
		}
		if round == 0 {
			r.Sample(map[string]any{"part": "stream", "chunking": chunkings[chunk].name, "scenario": scenario, "server_writes": sScript, "client_writes": cScript, "delivered_down": s.dDelivered, "decoded_up": s.uDecoded, "handshake": hello.Type})
		}
		l.close()
	}
	lg := sc.srv.Log()
	if len(lg) == 2 && lg[1].Type == "ticket" {
		r.Count("stream_second_round_used_ticket", 1)
	}
}

// ---------------------------------------------------------------- part C: single-bit packet modifications

type pktSpec struct {
	name  string
	flags byte
	data  int
	pad   int
}

var pktClasses = []pktSpec{
	{"payload-empty", ss.FlagPayload, 0, 0},       // 21 bytes
	{"payload-1", ss.FlagPayload, 1, 0},           // 22
	{"payload-24", ss.FlagPayload, 24, 0},         // 45
	{"payload-50-pad-29", ss.FlagPayload, 50, 29}, // 100
	{"padding-only-300", ss.FlagPayload, 0, 300},  // 321
	{"payload-700-pad-12", ss.FlagPayload, 700, 12},
	{"payload-1427", ss.FlagPayload, 1427, 0}, // 1448
	{"new-ticket", ss.FlagNewTicket, 144, 0},  // 165
	{"prng-seed", ss.FlagPrngSeed, 32, 0},     // 53
}

func (p pktSpec) wireLen() int { return ss.MacLen + ss.HdrLen + p.data + p.pad }

func bitRegion(bit int) string {
	switch by := bit / 8; {
	case by < ss.MacLen:
		return "mac"
	case by < ss.MacLen+2:
		return "hdr-total-length"
	case by < ss.MacLen+4:
		return "hdr-payload-length"
	case by < ss.MacLen+5:
		return "hdr-flags"
	}
	return "body"
}

// runTamper: the reference server sends packet 0 (300 bytes of payload), the
// victim packet with one bit flipped (bit < 0: untouched control), and a tail
// of more than 2*1448 bytes of further valid packets, in one burst.
func runTamper(c *mon.Case, r *mon.Run, sc *srvCtx, cf base.ClientFactory, ps pktSpec, bit int, chunk int, seed uint64) {
	rng := mon.NewRand(seed)
	r.Count("evaluations", 1)
	reg := "control"
	if bit >= 0 {
		reg = bitRegion(bit)
	}
	wit := map[string]any{"packet": ps.name, "packet_wire_len": ps.wireLen(), "bit": bit, "region": reg, "chunking": chunkings[chunk].name}
	l, res, err := connect(c, sc, cf, sc.pw, nil, rng.IntN(64), seed)
	if err != nil || res.failed() {
		c.Violation("dial-failed/tamper-setup", fmt.Sprintf("server err=%v dial err=%v panic=%q", err, res.err, res.panic), wit)
		return
	}
	defer l.close()
	l.sw.Out().SetPolicy(chunkings[chunk].mk(seed ^ 9))
	var burst []byte
	burst = append(burst, l.payloadPackets(300, 0, 5)...)
	allowed := int64(300)
	var victim []byte
	switch ps.flags {
	case ss.FlagPayload:
		victim = l.payloadPackets(ps.data, 0, ps.pad)
		if ps.data == 0 {
			victim = l.padPacket(ps.pad)
		}
	case ss.FlagNewTicket:
		body, _ := sc.srv.IssueTicket()
		victim = l.sess.Enc.Packet(ss.FlagNewTicket, body, 0)
	case ss.FlagPrngSeed:
		sd := make([]byte, ss.SeedLen)
		sc.rnd.Read(sd)
		victim = l.sess.Enc.Packet(ss.FlagPrngSeed, sd, 0)
	}
	if len(victim) != ps.wireLen() {
		c.Violation("harness/victim-length", fmt.Sprint(len(victim), ps.wireLen()), nil)
		return
	}
	if bit >= 0 {
		victim[bit/8] ^= 1 << (bit % 8)
	}
	burst = append(burst, victim...)
	burst = append(burst, l.payloadPackets(1427, 0, 0)...)
	burst = append(burst, l.payloadPackets(1427, 0, 0)...)
	burst = append(burst, l.payloadPackets(600, 0, 27)...)
	l.sw.Write(burst)
	synctest.Wait()
	q := l.snapshot() // state at quiescence
	l.close()
	f := l.snapshot() // (the reader stopped at its first error, so nothing can have been added)
	total := f.dWritten
	r.Count("tamper_region_"+reg, 1)
	r.Count("tamper_packet_"+ps.name, 1)
	if f.dMismatch >= 0 {
		c.Violation("altered-data-delivered/"+reg, fmt.Sprintf("byte %d handed to the client application is not what the server sent there (%s, bit %d flipped)", f.dMismatch, ps.name, bit), wit)
	}
	if bit < 0 {
		if q.dDelivered != total || q.dErr != nil || q.dMismatch >= 0 {
			c.Violation("control/undamaged-burst", fmt.Sprintf("untouched burst: delivered %d of %d, err %v", q.dDelivered, total, q.dErr), wit)
		} else {
			r.Count("control_undamaged_delivered", 1)
		}
		return
	}
	r.Distinct("nontrivial", fmt.Sprintf("tamper/%s/%d/%d", ps.name, bit, chunk))
	if f.dDelivered > allowed {
		c.Violation("data-from-damaged-packet-or-later/"+reg, fmt.Sprintf("%d application bytes delivered, only %d were carried by packets entirely before the damaged one (%s, bit %d)", f.dDelivered, allowed, ps.name, bit), wit)
	}
	if q.dErr == nil {
		c.Violation("no-error-after-damage/"+reg, fmt.Sprintf("%d bytes were delivered behind the damaged packet (%s, bit %d) and the client is quiescent, but Read has not reported an error (delivered %d)", 2*1448+648, ps.name, bit, q.dDelivered), wit)
		return
	}
	if f.dMismatch < 0 && f.dDelivered <= allowed {
		r.Count("control_tamper_rejected", 1)
		r.Distinct("tamper_errors", q.dErr.Error())
	}
}

// ---------------------------------------------------------------- part D: wrong secret, tampered response

func runWrongPassword(c *mon.Case, r *mon.Run, sc *srvCtx, cf base.ClientFactory, mode string, seed uint64) {
	rng := mon.NewRand(seed)
	r.Count("evaluations", 1)
	other := sc.kB
	switch mode {
	case "one-bit", "one-bit-server-answers":
		other[rng.IntN(len(other))] ^= 1 << rng.IntN(8)
	default:
		other = newKB(rng)
	}
	wit := map[string]any{"mode": mode}
	cw, sw := pair(nil)
	t0 := time.Now()
	ch := startDial(cf, password(other), cw)
	n0 := len(sc.srv.Log())
	if strings.HasSuffix(mode, "server-answers") {
		// a peer that does not check the client's proof and answers with a
		// response under ITS secret: the client must still not complete
		peer := ss.NewServer(other, sc.rnd)
		hello, err := awaitHello(peer, cw, sw, ch)
		if err != nil {
			<-ch
			c.Violation("client-hello-not-authenticated/wrong-secret", err.Error(), wit)
			cw.Close()
			sw.Close()
			return
		}
		resp, _ := sc.srv.Respond(hello, rng.IntN(ss.MaxUDHPad+1), nil)
		sw.Write(resp)
	} else {
		_, err := awaitHello(sc.srv, cw, sw, ch) // returns when the client has given up
		if err == nil {
			c.Violation("harness/wrong-secret-authenticated", mode, wit)
		}
		if lg := sc.srv.Log(); len(lg) != n0+1 || lg[n0].Type != "invalid" {
			c.Violation("harness/wrong-secret-log", fmt.Sprint(lg[n0:]), wit)
		}
	}
	res := <-ch
	el := time.Since(t0)
	r.Max("wrong_secret_dial_virtual_ms", el.Milliseconds())
	if !res.failed() {
		c.Violation("handshake-completed/wrong-secret-"+mode, fmt.Sprintf("Dial returned success after %v although client and server do not share k_B", el), wit)
		res.conn.Close()
	} else if res.panic != "" {
		c.Violation("dial-panic/wrong-secret-"+mode, res.panic, wit)
	} else {
		r.Count("control_wrong_password_failed", 1)
		r.Distinct("wrong_secret_errors", errKind(res.err))
		r.Distinct("nontrivial", fmt.Sprintf("wrong/%s/%x", mode, seed))
	}
	cw.Close()
	sw.Close()
}

func errKind(err error) string {
	s := err.Error()
	switch {
	case strings.Contains(s, "timeout"):
		return "deadline"
	case strings.Contains(s, "invalid handshake"):
		return "invalid-handshake"
	case strings.Contains(s, "EOF"):
		return "eof"
	}
	return "other"
}

type respTamper struct {
	field   string // Y padding M_S MAC_S truncate
	bit     int    // bit inside the field; byte offset for truncate
	fromEnd int    // truncate: > 0 = cut this many bytes before the end of the response
	pad     int    // truncate with fromEnd: the response padding
}

func runTamperedResponse(c *mon.Case, r *mon.Run, sc *srvCtx, cf base.ClientFactory, tm respTamper, pad int, seed uint64) {
	r.Count("evaluations", 1)
	wit := map[string]any{"field": tm.field, "bit": tm.bit, "padding": pad}
	cw, sw := pair(nil)
	ch := startDial(cf, sc.pw, cw)
	hello, err := awaitHello(sc.srv, cw, sw, ch)
	if err != nil {
		<-ch
		c.Violation("client-hello-not-authenticated/tampered-response", err.Error(), wit)
		cw.Close()
		sw.Close()
		return
	}
	resp, sess := sc.srv.Respond(hello, pad, nil)
	lo := map[string]int{"Y": 0, "padding": ss.PubKeyLen, "M_S": ss.PubKeyLen + pad, "MAC_S": ss.PubKeyLen + pad + ss.MacLen}
	eof := false
	cls := tm.field // goes into the signature; truncations are classified by the field that is cut
	switch tm.field {
	case "truncate":
		at := tm.bit % len(resp)
		if tm.fromEnd > 0 {
			at = len(resp) - tm.fromEnd
		}
		resp = resp[:at]
		eof = true
		cls = "truncate-" + region(at, pad)
		wit["truncated_to"] = at
	default:
		resp[lo[tm.field]+tm.bit/8] ^= 1 << (tm.bit % 8)
	}
	// a payload packet behind it: nothing of it may ever be delivered
	l := newLink(c, cw, sw, nil, sess, hello, seed)
	if eof {
		sw.Write(resp)
		sw.Out().CloseWrite()
	} else {
		sw.Write(append(resp, l.payloadPackets(100, 0, 0)...))
	}
	res := <-ch // at the latest when the client's 60 s (virtual) deadline fires
	r.Count("response_tamper_"+tm.field, 1)
	if !res.failed() {
		got := 0
		tmr := time.AfterFunc(5*time.Second, func() { cw.Close() })
		buf := make([]byte, 256)
		got, _ = res.conn.Read(buf)
		tmr.Stop()
		c.Violation("handshake-completed/tampered-response-"+cls, fmt.Sprintf("Dial returned success although the response (padding %d) was damaged (%s, bit/offset %d); a following Read delivered %d bytes", pad, cls, tm.bit, got), wit)
		res.conn.Close()
	} else if res.panic != "" {
		wit["stack"] = trim(res.stack)
		c.Violation("dial-panic/tampered-response-"+cls, fmt.Sprintf("Dial panicked: %s; response with padding %d damaged: %s (bit/offset %d)", res.panic, pad, cls, tm.bit), wit)
	} else {
		r.Count("control_tampered_response_rejected", 1)
		r.Distinct("tampered_response_errors", tm.field+":"+errKind(res.err))
		r.Distinct("nontrivial", fmt.Sprintf("resp/%s/%d/%d", tm.field, tm.bit, pad))
	}
	cw.Close()
	sw.Close()
}

// ---------------------------------------------------------------- part E: histories

// connect, server issues ticket, restart factory, +6 days, +8 days, corrupt
// the ticket file entry; connection attempts that fail: F the wire breaks while
// the client's first message is being written, after the first 112 bytes (a
// ticket, if one is used, has gone out whole); f the same before byte 112; S the
// whole message goes out and the server never answers
const histOps = "CIR68XFfS"
const histOpsCore = "CIR68X"

// B: from here on the ticket store cannot be checkpointed (the place of its
// temporary file is taken by a directory: every write-back fails the way it
// does on a full or read-only disk, the process goes on); U: it can again
const histOpsStore = "CIRBU"

func histString(ops string, idx, length int) string {
	b := make([]byte, length)
	for i := length - 1; i >= 0; i-- {
		b[i] = ops[idx%len(ops)]
		idx /= len(ops)
	}
	return string(b)
}

// model of what an implementation that uses tickets whenever it may would do
// (evidence only; verdicts come from the server's log)
type modelTicket struct {
	id      int
	issued  time.Time
	corrupt bool
}

func (t *modelTicket) usable() bool {
	return t != nil && !t.corrupt && time.Since(t.issued) < ss.TicketLifetime*time.Second
}

func runHistory(c *mon.Case, r *mon.Run, base string, hist string, seed uint64) {
	rng := mon.NewRand(seed)
	r.Count("evaluations", 1)
	dir, err := os.MkdirTemp(base, "h-")
	if err != nil {
		c.Violation("harness/mkdir", err.Error(), nil)
		return
	}
	defer os.RemoveAll(dir)
	sc := newSrv(seed ^ 0x77)
	addr := &net.TCPAddr{IP: net.IPv4(192, 0, 2, 2), Port: 443}
	cf, err := newFactory(dir)
	if err != nil {
		c.Violation("setup/client-factory", err.Error(), nil)
		return
	}
	var open *link
	defer func() {
		if open != nil {
			open.close()
		}
	}()
	var mem, file *modelTicket
	blocked := false
	lost := "" // why the client holds no ticket although it was given one
	restarts := 0
	presentedIn := map[int]int{} // ticket id -> factory generation of its first presentation
	var seen []string
	connects := 0
	wit := func(step int) any {
		return map[string]any{"history": hist, "step": step, "handshakes_seen": strings.Join(seen, ",")}
	}
	for step, op := range hist {
		switch op {
		case 'C':
			if open != nil {
				open.close()
				open = nil
			}
			expect := "udh"
			ctx := "no-ticket"
			switch {
			case mem.usable():
				expect, ctx = "ticket", "valid-ticket"
			case mem != nil:
				ctx = "expired-ticket"
			case lost != "":
				ctx = lost
			}
			if mem != nil {
				mem = nil // the store is rewritten when a ticket is taken out ...
				if !blocked {
					file = nil // ... if it can be
				}
				lost = "used-ticket"
			}
			n0 := len(sc.srv.Log())
			l, res, herr := connect(c, sc, cf, sc.pw, addr, rng.IntN(200), seed+uint64(step))
			lg := sc.srv.Log()[n0:]
			connects++
			typ := "none"
			if len(lg) == 1 {
				typ = lg[0].Type
			}
			if blocked && (herr != nil || res.failed()) && res.panic == "" && res.sent == 0 && (len(lg) == 0 || len(lg) == 1 && lg[0].Type == "invalid" && lg[0].HelloLen == 0) {
				// nothing at all went out: the client declined to connect while it
				// cannot record what it would have used
				seen = append(seen, "refused-locally")
				r.Count("history_connects_refused_while_the_store_cannot_be_written", 1)
				continue
			}
			seen = append(seen, typ)
			if len(lg) == 1 && lg[0].TicketID >= 0 {
				ev := lg[0]
				r.Count("tickets_presented", 1)
				if ev.Reuse {
					where := "same-factory"
					if presentedIn[ev.TicketID] != restarts {
						where = "after-restart"
					}
					r.Count("ticket_reuse", 1)
					c.Violation("ticket-presented-twice/"+where, fmt.Sprintf("history %s step %d: ticket #%d was presented in a second handshake (server log: %s)", hist, step, ev.TicketID, strings.Join(seen, ",")), wit(step))
				} else {
					presentedIn[ev.TicketID] = restarts
				}
				if ev.Type == "ticket-expired" {
					c.Violation("expired-ticket-presented", fmt.Sprintf("history %s step %d: ticket #%d was presented %v after it was issued (lifetime 7 d)", hist, step, ev.TicketID, ev.Age), wit(step))
				}
			}
			if herr != nil || res.failed() {
				if typ == "ticket-expired" {
					continue // already reported; the conforming server does not talk to it
				}
				if typ == "invalid" || typ == "none" {
					c.Violation("no-valid-handshake/"+ctx, fmt.Sprintf("history %s step %d (%s): the server saw neither a UniformDH handshake under k_B nor a ticket it issued (server err=%v, dial err=%v panic=%q)", hist, step, ctx, herr, res.err, res.panic), wit(step))
				} else {
					c.Violation("dial-failed/history-"+ctx, fmt.Sprintf("history %s step %d (%s, server saw %s): dial err=%v panic=%q", hist, step, ctx, typ, res.err, res.panic), wit(step))
				}
				continue
			}
			// the connection must work
			open = l
			var w sync.WaitGroup
			w.Add(1)
			nUp := 1 + rng.IntN(200)
			c.Go(w.Done, func() { l.clientWrite(nUp) })
			l.sw.Write(append(l.payloadPackets(1+rng.IntN(200), 0, rng.IntN(20)), l.padPacket(0)...))
			w.Wait()
			synctest.Wait()
			if !l.judgeStreams("history-after-"+typ, wit(step)) {
				continue
			}
			r.Count("history_connections_verified", 1)
			r.Count("history_handshake_"+typ, 1)
			switch {
			case typ == "ticket":
				r.Count("control_ticket_handshake_seen", 1)
				if restarts > 0 {
					r.Count("control_ticket_handshake_after_restart", 1)
				}
			case ctx == "expired-ticket":
				r.Count("control_udh_after_expiry", 1)
			case ctx == "used-ticket":
				r.Count("control_udh_after_ticket_was_used", 1)
			case ctx == "corrupt-entry":
				r.Count("control_udh_after_entry_corruption", 1)
			}
			if typ != expect {
				r.Count("model_surprise_"+expect+"_expected_"+typ+"_seen", 1)
			}
		case 'F', 'f', 'S':
			// a connection attempt that fails under the client's hands
			if open != nil {
				open.close()
				open = nil
			}
			cw, sw := memwire.Pair(memwire.Options{Keep: true})
			cw.SetAddrs(&net.TCPAddr{IP: net.IPv4(192, 0, 2, 1), Port: 40001}, addr)
			sw.SetAddrs(addr, &net.TCPAddr{IP: net.IPv4(192, 0, 2, 1), Port: 40001})
			var at int64 = -1
			switch op {
			case 'F':
				at = int64(ss.TicketLen + []int{0, 1, 16, 80, 150}[rng.IntN(5)])
			case 'f':
				at = int64([]int{0, 1, 50, ss.TicketLen - 1}[rng.IntN(4)])
			}
			if at >= 0 {
				cw.Out().SetWriteFault(at, syscall.EPIPE)
			}
			go func() { // the far end reads and says nothing
				b := make([]byte, 4096)
				for {
					if _, err := sw.Read(b); err != nil {
						return
					}
				}
			}()
			res := <-startDial(cf, sc.pw, cw) // at the latest when the client's (virtual) deadline fires
			_, _, sent := cw.Out().Snapshot()
			cw.Close()
			sw.Close()
			r.Count("history_failed_attempts_"+string(op), 1)
			if res.panic != "" {
				c.Violation("dial-panic/failed-attempt", fmt.Sprintf("history %s step %d: %s", hist, step, res.panic), wit(step))
				continue
			}
			id, reuse, known := sc.srv.NotePartial(sent)
			if !res.failed() {
				res.conn.Close()
				// (a ticket handshake has no server response to wait for: with a
				// ticket Dial legitimately returns once its message is out whole)
				if faulted := at >= 0 && int64(len(sent)) >= at; !known || faulted {
					c.Violation("handshake-completed/without-a-server-response", fmt.Sprintf("history %s step %d: Dial returned success although the server never answered (%d bytes out, ticket handshake: %v)", hist, step, len(sent), known), wit(step))
					continue
				}
				r.Count("history_ticket_dial_returns_without_response", 1)
			}
			tag := fmt.Sprintf("failed-attempt(%d bytes out)", len(sent))
			if known {
				tag = fmt.Sprintf("failed-attempt(ticket #%d out)", id)
				r.Count("tickets_presented", 1)
				r.Count("tickets_presented_in_failed_attempts", 1)
				if reuse {
					where := "same-factory"
					if presentedIn[id] != restarts {
						where = "after-restart"
					}
					r.Count("ticket_reuse", 1)
					c.Violation("ticket-presented-twice/"+where, fmt.Sprintf("history %s step %d: ticket #%d went out a second time, in a connection attempt that then failed (seen so far: %s)", hist, step, id, strings.Join(seen, ",")), wit(step))
				} else {
					presentedIn[id] = restarts
				}
				// an implementation that uses tickets whenever it may has used this one up
				if mem != nil && mem.id == id {
					mem, file = nil, nil
					lost = "used-ticket"
				}
			} else if len(sent) > 0 && mem != nil {
				// part of the first message went out; whether a ticket counts as used
				// by that is left to the implementation
				mem, file = nil, nil
				lost = "used-ticket"
			}
			seen = append(seen, tag)
		case 'I':
			if open == nil {
				continue
			}
			body, rec := sc.srv.IssueTicket()
			open.sw.Write(open.sess.Enc.Packet(ss.FlagNewTicket, body, rng.IntN(10)))
			synctest.Wait()
			mem = &modelTicket{id: rec.ID, issued: time.Now()}
			if !blocked {
				file = &modelTicket{id: rec.ID, issued: time.Now()}
			}
			lost = ""
			r.Count("history_tickets_issued", 1)
		case 'R':
			if open != nil {
				open.close()
				open = nil
			}
			ncf, err := newFactory(dir)
			if err != nil {
				c.Violation("factory-restart-failed", fmt.Sprintf("history %s step %d: %v", hist, step, err), wit(step))
				return
			}
			cf = ncf
			restarts++
			if file.usable() {
				cp := *file
				mem = &cp
			} else {
				switch {
				case file != nil && file.corrupt:
					r.Count("restarts_with_corrupt_entry", 1)
					lost = "corrupt-entry"
				case file != nil:
					lost = "expired-ticket"
				}
				mem = nil
			}
		case 'B':
			if err := os.Mkdir(filepath.Join(dir, ticketFile+".tmp"), 0o700); err != nil && !os.IsExist(err) {
				c.Violation("harness/block-store", err.Error(), nil)
				return
			}
			blocked = true
			r.Count("history_store_made_unwritable", 1)
		case 'U':
			os.Remove(filepath.Join(dir, ticketFile+".tmp"))
			blocked = false
		case '6':
			time.Sleep(6 * 24 * time.Hour)
		case '8':
			time.Sleep(8 * 24 * time.Hour)
		case 'X':
			m := readTicketFile(dir)
			ent, ok := m[addr.String()]
			if !ok {
				continue
			}
			// make the entry undecodable while the file stays valid JSON
			switch rng.IntN(3) {
			case 0:
				ent.KeyTicket = ent.KeyTicket[:max(0, len(ent.KeyTicket)-8)]
			case 1:
				ent.KeyTicket = "!" + ent.KeyTicket[min(1, len(ent.KeyTicket)):]
			case 2:
				ent.KeyTicket = ""
			}
			m[addr.String()] = ent
			b, _ := json.Marshal(m)
			if err := os.WriteFile(filepath.Join(dir, ticketFile), b, 0o600); err != nil {
				c.Violation("harness/write-ticket-file", err.Error(), nil)
				return
			}
			if file != nil {
				file.corrupt = true
			}
			r.Count("history_entries_corrupted", 1)
		}
	}
	if connects > 0 {
		r.Distinct("nontrivial", "hist/"+hist)
		r.Distinct("handshake_type_sequences", hist+":"+strings.Join(seen, ","))
		r.Distinct("type_sequences", strings.Join(seen, ","))
	}
	if connects >= 2 {
		r.Sample(map[string]any{"part": "history", "history": hist, "ops": "B/U the ticket store becomes unwritable/writable, C connect, I server issues ticket, R restart factory from the same state dir, 6/8 advance virtual clock by 6/8 days, X corrupt the ticket file entry, F/f connection attempt whose first write fails after/before byte 112, S attempt the server never answers", "handshakes_seen_by_server": seen})
	}
}

// ---------------------------------------------------------------- part F: concurrent dials

// runConcurrent: the client is given one ticket, then n Dials to the same
// server run at the same time on the same factory.  All must complete, and
// the ticket may show up in at most one of the handshakes.
func runConcurrent(c *mon.Case, r *mon.Run, base string, n int, seed uint64) {
	rng := mon.NewRand(seed)
	r.Count("evaluations", 1)
	dir, err := os.MkdirTemp(base, "f-")
	if err != nil {
		c.Violation("harness/mkdir", err.Error(), nil)
		return
	}
	defer os.RemoveAll(dir)
	sc := newSrv(seed ^ 0xf)
	addr := &net.TCPAddr{IP: net.IPv4(192, 0, 2, 2), Port: 443}
	cf, err := newFactory(dir)
	if err != nil {
		c.Violation("setup/client-factory", err.Error(), nil)
		return
	}
	wit := map[string]any{"concurrent_dials": n}
	l0, res0, herr := connect(c, sc, cf, sc.pw, addr, rng.IntN(100), seed)
	if herr != nil || res0.failed() {
		c.Violation("dial-failed/concurrent-setup", fmt.Sprintf("server err=%v dial err=%v panic=%q", herr, res0.err, res0.panic), wit)
		return
	}
	body, rec := sc.srv.IssueTicket()
	l0.sw.Write(l0.sess.Enc.Packet(ss.FlagNewTicket, body, 0))
	synctest.Wait()
	l0.close()
	type one struct {
		cw, sw *memwire.Conn
		ch     chan dialResult
		hch    chan *ss.Hello
		l      *link
	}
	n0 := len(sc.srv.Log())
	conns := make([]*one, n)
	for i := range conns {
		o := &one{hch: make(chan *ss.Hello, 1)}
		o.cw, o.sw = pair(addr)
		o.ch = startDial(cf, sc.pw, o.cw)
		go func() {
			h, _ := sc.srv.ReadHello(o.sw)
			o.hch <- h
		}()
		conns[i] = o
	}
	synctest.Wait() // every client has sent its first message; ticket users have returned from Dial
	okAll := true
	for i, o := range conns {
		var h *ss.Hello
		select {
		case h = <-o.hch:
		default:
		}
		if h == nil {
			res := <-o.ch // ends by the client's own deadline at the latest
			o.cw.Close()
			<-o.hch
			if res.conn != nil {
				res.conn.Close()
			}
			c.Violation("no-valid-handshake/concurrent", fmt.Sprintf("connection %d of %d concurrent dials: the server saw neither UniformDH under k_B nor a valid ticket (dial err=%v panic=%q)", i, n, res.err, res.panic), wit)
			okAll = false
			continue
		}
		resp, sess := sc.srv.Respond(h, rng.IntN(300), nil)
		if resp != nil {
			o.sw.Write(resp)
		}
		res := <-o.ch
		if res.failed() {
			c.Violation("dial-failed/concurrent-"+h.Type, fmt.Sprintf("connection %d of %d concurrent dials: err=%v panic=%q", i, n, res.err, res.panic), wit)
			o.cw.Close()
			o.sw.Close()
			okAll = false
			continue
		}
		o.l = newLink(c, o.cw, o.sw, res.conn, sess, h, seed+uint64(i))
		o.l.clientReader(seed ^ uint64(i))
		o.l.serverReader()
	}
	for _, o := range conns {
		if o.l == nil {
			continue
		}
		var w sync.WaitGroup
		w.Add(1)
		nUp := 1 + rng.IntN(100)
		c.Go(w.Done, func() { o.l.clientWrite(nUp) })
		o.l.sw.Write(append(o.l.payloadPackets(1+rng.IntN(100), 0, 0), o.l.padPacket(0)...))
		w.Wait()
	}
	synctest.Wait()
	tickets, udh := 0, 0
	for _, ev := range sc.srv.Log()[n0:] {
		switch {
		case ev.TicketID == rec.ID:
			tickets++
		case ev.Type == "udh":
			udh++
		}
	}
	for _, o := range conns {
		if o.l != nil {
			if !o.l.judgeStreams("concurrent-after-"+o.l.hello.Type, wit) {
				okAll = false
			}
			o.l.close()
		}
	}
	wit["ticket_handshakes"], wit["udh_handshakes"] = tickets, udh
	if tickets > 1 {
		r.Count("ticket_reuse", 1)
		c.Violation("ticket-presented-twice/concurrent-dials", fmt.Sprintf("%d of %d concurrent handshakes presented the same ticket", tickets, n), wit)
		okAll = false
	}
	if okAll {
		r.Count("concurrent_dial_groups_verified", 1)
		r.Count("concurrent_dials_verified", int64(n))
		if tickets == 1 {
			r.Count("control_concurrent_one_used_the_ticket", 1)
		}
		r.Distinct("nontrivial", fmt.Sprintf("conc/%d/%x", n, seed))
	}
}

// ---------------------------------------------------------------- the check

func safely(c *mon.Case, what string, fn func()) {
	defer func() {
		if e := recover(); e != nil {
			c.Violation("panic-in-case/"+what, fmt.Sprintf("%v\n%s", e, trim(string(debug.Stack()))), nil)
		}
	}()
	fn()
}

func TestCheck(t *testing.T) {
	r := mon.Start(t, "C15")
	defer r.Finish()
	r.SpinWatch(memwire.BytesMoved)
	r.Note("rule", "Real ScrambleSuit client (transports API: ClientFactory(stateDir) -> ParseArgs(password) -> Dial) against ref/ss, an independent conforming server, over memwire in a synctest bubble. "+
		"(A) UniformDH response padding x segmentation: for every padding length in the tier's set, the response is delivered cut at each offset of its last 48 bytes (M_S | MAC_S plus 16 bytes before), for a subset of paddings at EVERY offset, plus PRNG two-cut splits and cuts inside NewTicket/PRNG-seed packets coalesced behind the response; a segment is written only after the client consumed the previous one and is blocked again (synctest.Wait), or (alternating) the whole stream is written once and reads are capped at the cut offsets; Dial must return success, then a little data both ways must be exact. "+
		"(B) streams: grid of 11 chunk policies x 3 scenarios (client first / server payload, ticket and seed coalesced with the response / long idle gaps), one UniformDH and one ticket connection each, concurrent reader and writer goroutines on the client, PRF streams both ways, server packets of varied payload/padding split with padding-only, seed and ticket packets interleaved. Stream equality is judged at quiescence AFTER the reference server has sent one further padding-only packet: unlike C01 the statement does not promise delivery without further traffic, and this client decodes bytes that arrived together with the handshake response only on its next network read. "+
		"(C) single-bit modification of one packet (9 classes: payload of 5 sizes, padding-only, full MTU, NewTicket, PRNG seed; regions MAC / 3 header fields / body) followed by > 2*1448 bytes of valid packets: Read must have reported an error at quiescence and everything delivered up to and including the failing Read is a prefix of what was sent, carried by packets before the damaged one (the monitor stops reading at the first error; what a caller that ignores the error would get is not judged). "+
		"(D) client configured with a different k_B (random / one bit; silent conforming server, and a peer answering under its own secret): Dial must fail (60 s virtual deadline); single-bit flips of Y, padding, M_S, MAC_S and truncation+EOF of the response (PRNG offsets and each of the last 33 offsets): Dial must fail (an error, not a panic). "+
		"(E) histories over {C connect, I server issues ticket on the open connection, R restart: new ClientFactory on the same state dir, 6/8 advance the virtual clock 6/8 days, X make the ticket file entry undecodable, F/f a connection attempt whose first write fails after/before byte 112 (the ticket has / has not gone out whole), S an attempt the server never answers} of length <= 5 (plus PRNG ones of length 6..9): every connect must complete and move data, neither the server's log nor the bytes of failed attempts may ever show a ticket twice, an expired ticket, or an unauthenticated hello (so an absent/used/expired/corrupt ticket means UniformDH). A valid ticket MAY be used; that it is used is only a positive control. "+
		"(F) 2..6 Dials at the same time on one factory holding one ticket for that server: all complete and move data, the ticket shows up in at most one handshake. "+
		"Non-trivial = a connection (history / group) that ran to its verdict; distinct = (part, parameters).")
	base := o4.StateDir("c15")

	// ---------------- (A)
	maxPad := ss.MaxUDHPad
	var tailPads, fullPads []int
	if r.Thorough() {
		for p := 0; p <= maxPad; p++ {
			tailPads = append(tailPads, p)
		}
		fullPads = []int{0, 1, 2, 15, 16, 17, 31, 32, 33, 100, 500, 1000, 1307, 1308}
		r.Note("exhaustive_part", "(A) every response padding length 0..1308 x every cut offset in the last 48 bytes of the response; every cut offset of the whole response for paddings {0,1,2,15,16,17,31,32,33,100,500,1000,1307,1308}; (D) every bit of Y, M_S and MAC_S of one response per padding class; (C) every bit of one packet of each of the 9 classes; (E) all 7380 histories of length <= 4 over 9 operations, all 810 of length 4..5 that start with connect, issue, all 7776 of length 5 over the 6 operations without failed attempts")
	} else {
		tailPads = []int{0, 1, 2, 15, 16, 17, 1307, 1308}
		rng := mon.NewRand(r.Sub("tailpads"))
		for len(tailPads) < 8+r.Pick(16, 0) {
			tailPads = append(tailPads, 3+rng.IntN(maxPad-4))
		}
		fullPads = []int{0, 17}
		r.Note("exhaustive_part", "(A) every cut offset in the last 48 bytes of the response for paddings {0,1,2,15,16,17,1307,1308} and 16 PRNG paddings; every cut offset of the whole response for paddings {0,17}; (D) every bit of M_S and MAC_S; (C) every bit of MAC and header of 3 packet classes; (E) all 819 histories of length <= 3 over 9 operations and all 810 histories of length 4 and 5 that start with connect, issue")
	}
	splitBatch := func(name string, specs func() []splitSpec) {
		r.Bubble(name, func(c *mon.Case) {
			dir, err := os.MkdirTemp(base, "a-")
			if err != nil {
				t.Fatal(err)
			}
			defer os.RemoveAll(dir)
			cf, err := newFactory(dir)
			if err != nil {
				c.Violation("setup/client-factory", err.Error(), nil)
				return
			}
			sc := newSrv(r.Sub("srv", name))
			for i, sp := range specs() {
				safely(c, "split", func() { runSplit(c, r, sc, cf, dir, sp, r.Sub("split", name, i)) })
			}
		})
	}
	for bi := 0; bi*4 < len(tailPads); bi++ {
		pads := tailPads[bi*4 : min(len(tailPads), bi*4+4)]
		splitBatch(fmt.Sprintf("split/tail/%04d", bi), func() []splitSpec {
			var out []splitSpec
			for _, p := range pads {
				L := ss.MinUDH + p
				for k := 1; k <= 48; k++ {
					out = append(out, splitSpec{pad: p, cuts: []int{L - k}, extras: (p + k) % 3, mech: (p + k/3) % 2})
				}
				out = append(out, splitSpec{pad: p, extras: p % 3}) // unsplit control
			}
			return out
		})
	}
	for _, p := range fullPads {
		L := ss.MinUDH + p
		for lo := 1; lo < L-48; lo += 128 {
			p, lo := p, lo
			splitBatch(fmt.Sprintf("split/full/pad%04d/from%04d", p, lo), func() []splitSpec {
				var out []splitSpec
				for s := lo; s < lo+128 && s < L-48; s++ {
					out = append(out, splitSpec{pad: p, cuts: []int{s}, extras: s % 3, mech: (s / 3) % 2})
				}
				return out
			})
		}
	}
	nMulti := r.Pick(4, 48)
	for bi := 0; bi < nMulti; bi++ {
		bi := bi
		splitBatch(fmt.Sprintf("split/multi/%03d", bi), func() []splitSpec {
			rng := mon.NewRand(r.Sub("multi", bi))
			var out []splitSpec
			for k := 0; k < 48; k++ {
				p := rng.IntN(maxPad + 1)
				if k%5 == 0 {
					p = []int{0, 1, 16, 17, 1308}[rng.IntN(5)]
				}
				L := ss.MinUDH + p
				sp := splitSpec{pad: p, mech: k % 2}
				switch k % 4 {
				case 3: // the whole response in reads of a fixed size
					ch := []int{1, 2, 7, 15, 16, 17, 31, 64, 100, 1000}[rng.IntN(10)]
					for s := ch; s < L; s += ch {
						sp.cuts = append(sp.cuts, s)
					}
					sp.mech, sp.every = 1, ch
				case 0: // two cuts anywhere in the response
					a, b := 1+rng.IntN(L-1), 1+rng.IntN(L-1)
					if a == b {
						b = a%(L-1) + 1
					}
					sp.cuts = []int{min(a, b), max(a, b)}
				case 1: // one cut anywhere, one in the tail
					a, b := 1+rng.IntN(L-49), L-1-rng.IntN(48)
					sp.cuts = []int{a, b}
				case 2: // cuts inside / at the packets coalesced behind the response
					sp.extras = 1
					tot := L + ss.MacLen + ss.HdrLen + 144 + ss.MacLen + ss.HdrLen + 32 // at least (ticket packet padding is PRNG)
					a, b := 1+rng.IntN(L), L+rng.IntN(tot-L)
					sp.cuts = []int{a}
					if b > a {
						sp.cuts = append(sp.cuts, b)
					}
				}
				out = append(out, sp)
			}
			return out
		})
	}

	// ---------------- (B)
	nPer := r.Pick(1, 12)
	for ci := range chunkings {
		for scen := 0; scen < 3; scen++ {
			ci, scen := ci, scen
			r.Bubble(fmt.Sprintf("stream/%s/scen%d", chunkings[ci].name, scen), func(c *mon.Case) {
				for k := 0; k < nPer; k++ {
					dir, err := os.MkdirTemp(base, "b-")
					if err != nil {
						t.Fatal(err)
					}
					safely(c, "stream", func() { runStream(c, r, dir, ci, scen, r.Sub("stream", ci, scen, k), 0) })
					os.RemoveAll(dir)
				}
			})
		}
	}
	r.Note("big_writes", "additional family: both sides perform single application writes of 32767..200003 bytes (not multiples of 32 KiB / 64 KiB) between small writes, under all-available / PRNG / 4 KiB-window chunking; counted as big_write_connections")
	// several client connections alive at once (interleave_test.go)
	r.Note("interleaved_connections", "additional family (mon.Interleave): 3 ScrambleSuit client connections of one factory alive at once in one bubble (UniformDH and ticket handshakes, half of them given a ticket and a PRNG seed behind the response), driven round-robin from one goroutine: all endpoints write, then read in pieces of 1..24 bytes, one Read per endpoint per round, write again, drain; own PRF stream per direction; every third group instead with a writer and a reader goroutine per endpoint on all processors at once (mon.Parallel)")
	for g := 0; g < r.Pick(12, 150); g++ {
		g := g
		r.Bubble(fmt.Sprintf("interleaved-connections/%03d", g), func(c *mon.Case) {
			safely(c, "interleaved", func() { interleavedConns(c, r, base, 3, r.Sub("il", g), g%3 == 2) })
		})
	}
	// the epoch hour changes while the handshake is in flight (the server's
	// response is bound to the hour the client used)
	for ci := range chunkings {
		ci := ci
		r.Bubble("stream-hour-rollover/"+chunkings[ci].name, func(c *mon.Case) {
			for k := 0; k < r.Pick(1, 6); k++ {
				dir, err := os.MkdirTemp(base, "br-")
				if err != nil {
					t.Fatal(err)
				}
				rolloverNext = true
				safely(c, "stream", func() { runStream(c, r, dir, ci, k%3, r.Sub("stream-rollover", ci, k), 0) })
				os.RemoveAll(dir)
			}
		})
	}
	// single large application writes (not multiples of 32 KiB / 64 KiB)
	for ci := range chunkings {
		if n := chunkings[ci].name; n != "all" && n != "prng3000" && n != "win4096" {
			continue
		}
		ci := ci
		r.Bubble("stream-big/"+chunkings[ci].name, func(c *mon.Case) {
			for bi := range bigMenu {
				if !r.Thorough() && (bi+ci)%3 != 0 {
					continue
				}
				dir, err := os.MkdirTemp(base, "bb-")
				if err != nil {
					t.Fatal(err)
				}
				safely(c, "stream", func() { runStream(c, r, dir, ci, bi%3, r.Sub("stream-big", ci, bi), bi+1) })
				os.RemoveAll(dir)
			}
		})
	}

	// ---------------- (C)
	for pi, ps := range pktClasses {
		var bits []int
		n := ps.wireLen() * 8
		hdrBits := (ss.MacLen + ss.HdrLen) * 8
		if r.Thorough() {
			for b := 0; b < n; b++ {
				bits = append(bits, b)
			}
		} else {
			rng := mon.NewRand(r.Sub("tbits", pi))
			for b := 0; b < hdrBits; b++ {
				if pi == 3 || pi == 6 || pi == 7 || b%6 == pi%6 {
					bits = append(bits, b)
				}
			}
			for k := 0; k < 12 && n > hdrBits; k++ {
				bits = append(bits, hdrBits+rng.IntN(n-hdrBits))
			}
		}
		bits = append(bits, -1) // control
		for blk := 0; blk*96 < len(bits); blk++ {
			pi, ps, blk := pi, ps, blk
			part := bits[blk*96 : min(len(bits), blk*96+96)]
			r.Bubble(fmt.Sprintf("tamper/%s/blk%03d", ps.name, blk), func(c *mon.Case) {
				dir, err := os.MkdirTemp(base, "c-")
				if err != nil {
					t.Fatal(err)
				}
				defer os.RemoveAll(dir)
				cf, err := newFactory(dir)
				if err != nil {
					c.Violation("setup/client-factory", err.Error(), nil)
					return
				}
				sc := newSrv(r.Sub("tsrv", pi, blk))
				for i, bit := range part {
					safely(c, "tamper", func() {
						runTamper(c, r, sc, cf, ps, bit, (i+blk+pi)%len(chunkings), r.Sub("tamper", pi, bit))
					})
				}
			})
		}
	}

	// ---------------- (D)
	nWrong := r.Pick(3, 24)
	for bi := 0; bi < nWrong; bi++ {
		bi := bi
		r.Bubble(fmt.Sprintf("wrong-secret/%03d", bi), func(c *mon.Case) {
			cf, err := newFactory(filepath.Join(base, "none"))
			if err != nil {
				c.Violation("setup/client-factory", err.Error(), nil)
				return
			}
			sc := newSrv(r.Sub("wsrv", bi))
			for k, mode := range []string{"random", "one-bit", "random-server-answers", "one-bit-server-answers"} {
				safely(c, "wrong-secret", func() { runWrongPassword(c, r, sc, cf, mode, r.Sub("wrong", bi, k)) })
			}
		})
	}
	var rts []respTamper
	{
		rng := mon.NewRand(r.Sub("resp-tamper"))
		for b := 0; b < 128; b++ {
			rts = append(rts, respTamper{field: "M_S", bit: b}, respTamper{field: "MAC_S", bit: b})
		}
		if r.Thorough() {
			for b := 0; b < ss.PubKeyLen*8; b++ {
				rts = append(rts, respTamper{field: "Y", bit: b})
			}
		} else {
			for k := 0; k < 48; k++ {
				rts = append(rts, respTamper{field: "Y", bit: rng.IntN(ss.PubKeyLen * 8)})
			}
		}
		for k := 0; k < r.Pick(48, 1024); k++ {
			rts = append(rts, respTamper{field: "padding", bit: rng.IntN(1 << 20)}) // reduced modulo the padding length below
		}
		for k := 0; k < r.Pick(16, 256); k++ {
			rts = append(rts, respTamper{field: "truncate", bit: rng.IntN(1 << 20)})
		}
		// truncation + EOF at each of the last 33 offsets, small and PRNG paddings
		for k := 1; k <= 33; k++ {
			rts = append(rts, respTamper{field: "truncate", fromEnd: k, pad: k%17 + k/17}, respTamper{field: "truncate", fromEnd: k, pad: 1 + rng.IntN(ss.MaxUDHPad)})
		}
	}
	for blk := 0; blk*64 < len(rts); blk++ {
		blk := blk
		part := rts[blk*64 : min(len(rts), blk*64+64)]
		r.Bubble(fmt.Sprintf("tampered-response/blk%03d", blk), func(c *mon.Case) {
			cf, err := newFactory(filepath.Join(base, "none"))
			if err != nil {
				c.Violation("setup/client-factory", err.Error(), nil)
				return
			}
			sc := newSrv(r.Sub("rsrv", blk))
			rng := mon.NewRand(r.Sub("rpad", blk))
			for i, tm := range part {
				pad := []int{0, 1, 16, 200, 1308}[rng.IntN(5)]
				if rng.IntN(2) == 0 {
					pad = rng.IntN(ss.MaxUDHPad + 1)
				}
				if tm.fromEnd > 0 {
					pad = tm.pad
				}
				if tm.field == "padding" {
					if pad == 0 {
						pad = 1 + rng.IntN(ss.MaxUDHPad)
					}
					tm.bit %= pad * 8
				}
				safely(c, "tampered-response", func() { runTamperedResponse(c, r, sc, cf, tm, pad, r.Sub("resp", blk, i)) })
			}
		})
	}

	// ---------------- (E)
	var hists []string
	total := 0
	pow := func(b, e int) int {
		n := 1
		for i := 0; i < e; i++ {
			n *= b
		}
		return n
	}
	for length := 1; length <= 5; length++ {
		n := pow(len(histOps), length)
		total += n
		if length <= r.Pick(3, 4) {
			for idx := 0; idx < n; idx++ {
				hists = append(hists, histString(histOps, idx, length))
			}
			continue
		}
		// beyond: every history that starts with "CI" (connect, ticket
		// issued), a PRNG sample of the rest, and in the thorough tier every
		// history of length 5 over the six operations without failed attempts
		for idx := 0; idx < pow(len(histOps), length-2); idx++ {
			hists = append(hists, "CI"+histString(histOps, idx, length-2))
		}
		rng := mon.NewRand(r.Sub("hist", length))
		for k := 0; k < r.Pick(40, 2000); k++ {
			hists = append(hists, histString(histOps, rng.IntN(n), length))
		}
		if r.Thorough() {
			for idx := 0; idx < pow(len(histOpsCore), length); idx++ {
				hists = append(hists, histString(histOpsCore, idx, length))
			}
		}
	}
	// the ticket store cannot be written for a while: a ticket issued, then
	// every history of four (thorough: five) operations over connect / issue /
	// restart / store unwritable / store writable again, and the same behind
	// a restart
	for idx := 0; idx < pow(len(histOpsStore), r.Pick(4, 5)); idx++ {
		h := histString(histOpsStore, idx, r.Pick(4, 5))
		if !strings.Contains(h, "B") || !strings.Contains(h, "C") {
			continue
		}
		hists = append(hists, "CI"+h)
		if r.Thorough() || idx%3 == 0 {
			hists = append(hists, "CIR"+h+"C")
		}
	}
	// a few longer ones that exercise use -> reissue -> restart chains
	hists = append(hists, "CICICRCIRC", "CIRCIRCIRC", "CI6RC", "CIR8C", "CIXRC", "CIRXC", "CIXC", "CICRC", "CIRCRC", "CI6C6IRC8C",
		"CIFCIFRC", "CIRFC", "CIFRC", "CIfCIfRC", "CISCISRC", "CIFFC", "CIFSC", "CIRFRC", "CIFCIC", "CIFIFC")
	{
		// PRNG histories of length 6..9, biased towards connect / issue
		rng := mon.NewRand(r.Sub("hist-long"))
		const biased = "CCCIIIRR68XFFfS"
		for k := 0; k < r.Pick(60, 1500); k++ {
			b := make([]byte, 6+rng.IntN(4))
			for i := range b {
				b[i] = biased[rng.IntN(len(biased))]
			}
			hists = append(hists, string(b))
		}
	}
	for blk := 0; blk*48 < len(hists); blk++ {
		blk := blk
		part := hists[blk*48 : min(len(hists), blk*48+48)]
		r.Bubble(fmt.Sprintf("history/blk%04d", blk), func(c *mon.Case) {
			for i, h := range part {
				safely(c, "history", func() { runHistory(c, r, base, h, r.Sub("hist", blk, i)) })
			}
		})
	}

	// ---------------- (F) concurrent dials sharing one stored ticket
	nConc := r.Pick(8, 160)
	for bi := 0; bi*8 < nConc; bi++ {
		bi := bi
		r.Bubble(fmt.Sprintf("concurrent/%03d", bi), func(c *mon.Case) {
			for k := 0; k < 8; k++ {
				safely(c, "concurrent", func() { runConcurrent(c, r, base, 2+(bi+k)%5, r.Sub("conc", bi, k)) })
			}
		})
	}
	_ = io.EOF
}
