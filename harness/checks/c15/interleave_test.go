package c15

// Several ScrambleSuit client connections alive at the same time in one
// process (one client factory, hence one ticket store), used in an interleaved
// way.  The reference server's end of each connection is wrapped as a net.Conn
// so that mon.Interleave can drive it: whatever a client connection keeps
// between calls (receive buffers, distributions, scratch space) must be its own.

import (
	"fmt"
	"net"
	"os"
	"time"

	"verif/memwire"
	"verif/mon"
	"verif/ref/ss"
)

// refEnd is the reference server's end of an established connection.
type refEnd struct {
	sw   *memwire.Conn
	sess *ss.Session
	pend []byte // decoded payload not yet handed out
	rest []byte // bytes that arrived behind the hello
}

func (e *refEnd) Write(p []byte) (int, error) {
	var out []byte
	for off := 0; off < len(p); off += ss.MaxBody {
		end := off + ss.MaxBody
		if end > len(p) {
			end = len(p)
		}
		out = append(out, e.sess.Enc.Packet(ss.FlagPayload, p[off:end], 0)...)
	}
	if len(p) == 0 {
		return 0, nil
	}
	if _, err := e.sw.Write(out); err != nil {
		return 0, err
	}
	return len(p), nil
}

func (e *refEnd) feed(p []byte) error {
	pk, err := e.sess.Dec.Feed(p)
	for _, q := range pk {
		if q.Flags == ss.FlagPayload {
			e.pend = append(e.pend, q.Payload...)
		}
	}
	return err
}

func (e *refEnd) Read(p []byte) (int, error) {
	if e.rest != nil {
		r := e.rest
		e.rest = nil
		if err := e.feed(r); err != nil {
			return 0, err
		}
	}
	buf := make([]byte, 8192)
	for len(e.pend) == 0 {
		n, err := e.sw.Read(buf)
		if n > 0 {
			if ferr := e.feed(buf[:n]); ferr != nil {
				return 0, ferr
			}
		}
		if err != nil && len(e.pend) == 0 {
			return 0, err
		}
	}
	n := copy(p, e.pend)
	e.pend = e.pend[n:]
	return n, nil
}

func (e *refEnd) Close() error                       { return e.sw.Close() }
func (e *refEnd) LocalAddr() net.Addr                { return e.sw.LocalAddr() }
func (e *refEnd) RemoteAddr() net.Addr               { return e.sw.RemoteAddr() }
func (e *refEnd) SetDeadline(t time.Time) error      { return e.sw.SetDeadline(t) }
func (e *refEnd) SetReadDeadline(t time.Time) error  { return e.sw.SetReadDeadline(t) }
func (e *refEnd) SetWriteDeadline(t time.Time) error { return e.sw.SetWriteDeadline(t) }

func interleavedConns(c *mon.Case, r *mon.Run, base string, k int, seed uint64, parallel bool) {
	rng := mon.NewRand(seed)
	dir, err := os.MkdirTemp(base, "il-")
	if err != nil {
		c.Violation("harness/mkdir", err.Error(), nil)
		return
	}
	defer os.RemoveAll(dir)
	sc := newSrv(seed ^ 0x11)
	cf, err := newFactory(dir)
	if err != nil {
		c.Violation("setup/client-factory", err.Error(), nil)
		return
	}
	var links []mon.Link
	var wires []*memwire.Conn
	// one bridge address for the whole group, so that a ticket handed to an
	// earlier connection is used by a later one
	addrCtr++
	addr := &net.TCPAddr{IP: net.IPv4(10, byte(addrCtr>>16), byte(addrCtr>>8), byte(addrCtr)), Port: 443}
	for i := 0; i < k; i++ {
		cw, sw := pair(addr)
		wires = append(wires, cw, sw)
		ch := startDial(cf, sc.pw, cw)
		hello, err := awaitHello(sc.srv, cw, sw, ch)
		if err != nil {
			res := <-ch
			c.Violation("client-hello-not-authenticated/interleaved", fmt.Sprintf("%v (dial err=%v)", err, res.err), nil)
			continue
		}
		var first []byte
		var sess *ss.Session
		if hello.Type == "ticket" {
			_, sess = sc.srv.Respond(hello, 0, nil)
		} else {
			first, sess = sc.srv.Respond(hello, rng.IntN(ss.MaxUDHPad+1), nil)
		}
		// half of the connections are given a ticket and a PRNG seed right behind the response
		if i%2 == 0 {
			body, _ := sc.srv.IssueTicket()
			first = append(first, sess.Enc.Packet(ss.FlagNewTicket, body, 0)...)
			sd := make([]byte, ss.SeedLen)
			sc.rnd.Read(sd)
			first = append(first, sess.Enc.Packet(ss.FlagPrngSeed, sd, 0)...)
		}
		if len(first) > 0 {
			sw.Write(first)
		}
		res := <-ch
		if res.failed() {
			c.Violation("dial-failed/interleaved", fmt.Sprintf("connection %d of %d alive at once: %v %s", i, k, res.err, res.panic), nil)
			continue
		}
		r.Count("interleaved_handshake_"+hello.Type, 1)
		if i%2 == 0 {
			// let the client digest ticket and seed before the next connection is
			// dialled: five bytes of payload behind them, read by the application
			sw.Write(sess.Enc.Packet(ss.FlagPayload, []byte("hello"), 3))
			got := 0
			buf := make([]byte, 5)
			for got < 5 {
				n, err := res.conn.Read(buf[got:])
				got += n
				if err != nil {
					c.Violation("read-error/interleaved-setup", err.Error(), nil)
					break
				}
			}
			if string(buf[:got]) != "hello" {
				c.Violation("stream-mismatch/interleaved-setup", fmt.Sprintf("read %q", buf[:got]), nil)
			}
		}
		links = append(links, mon.Link{Name: fmt.Sprintf("conn%d-%s", i, hello.Type), A: res.conn, B: &refEnd{sw: sw, sess: sess, rest: hello.Rest}})
	}
	if parallel {
		// the same group on all processors at once instead
		wait := mon.Parallel(c, r, "parallel-connections", links, []int{40000, 150000}[seed/3%2], []int{6000, 70000}[seed/6%2], seed)
		for _, w := range wires {
			w.Close()
		}
		wait()
		return
	}
	mon.Interleave(c, r, "interleaved-connections", links, seed)
	for _, w := range wires {
		w.Close()
	}
}
