// C03 — obfs4 server is silent to anyone who cannot prove knowledge of the
// bridge line.
//
// Probes of many classes are played against real server factories over
// memwire in virtual time.  Observed at the server's boundary: bytes written
// (must be 0), the virtual instant of the close relative to accept (must be
// the same D for every probe against one bridge, 30s <= D < 90s), that the
// server kept consuming input until then, and prompt return when the probe
// disconnects first.  Positive control: a valid handshake makes the server
// answer.
package c03

import (
	"flag"
	"fmt"
	"io"
	"math/big"
	"sync"
	"testing"
	"time"

	"gitlab.com/yawning/obfs4.git/transports/base"

	"verif/memwire"
	"verif/mon"
	"verif/o4"
	ref "verif/ref/obfs4"
)

type probe struct {
	class string
	mk    func() o4.ProbeScript // built right before it is played (hour stamps refer to the virtual clock then)
	ps    o4.ProbeScript
}

func bitflip(b []byte, bit int) []byte {
	o := append([]byte(nil), b...)
	o[bit/8] ^= 1 << (bit % 8)
	return o
}

func junk(rng interface{ Uint32() uint32 }, n int) []byte {
	b := make([]byte, n)
	for i := range b {
		b[i] = byte(rng.Uint32())
	}
	return b
}

// lowOrderReprs returns representatives that decode to low-order points.
func lowOrderReprs() [][32]byte {
	var out [][32]byte
	var zero [32]byte
	cands := [][32]byte{zero}
	p, _ := new(big.Int).SetString("7fffffffffffffffffffffffffffffffffffffffffffffffffffffffffffffed", 16)
	us := []*big.Int{big.NewInt(1), new(big.Int).Sub(p, big.NewInt(1))}
	a, _ := new(big.Int).SetString("325606250916557431795983626356110631294008115727848805560023387167927233504", 10)
	b, _ := new(big.Int).SetString("39382357235489614581723060781553021112529911719440698176882885853963445705823", 10)
	us = append(us, a, b)
	for _, u := range us {
		var ub [32]byte
		be := u.Bytes()
		for i := range be {
			ub[i] = be[len(be)-1-i]
		}
		for _, alt := range []bool{false, true} {
			if r, ok := ref.Ell2Encode(ub, alt); ok {
				cands = append(cands, r)
			}
		}
	}
	for _, r := range cands {
		u := ref.Ell2Decode(r)
		// low order iff X25519 with a clamped scalar gives zero
		var sc [32]byte
		sc[0], sc[31] = 8, 64
		_, _, ok := ref.NtorClient(sc, ref.X25519Base(sc), u, ref.X25519Base(sc), [20]byte{})
		if !ok {
			out = append(out, r)
		}
	}
	return out
}

var (
	loOnce sync.Once
	loList [][32]byte
)

func lowOrder() [][32]byte {
	loOnce.Do(func() { loList = lowOrderReprs() })
	return loList
}

func split(b []byte, at ...int) [][]byte {
	var out [][]byte
	prev := 0
	for _, a := range at {
		if a > prev && a < len(b) {
			out = append(out, b[prev:a])
			prev = a
		}
	}
	return append(out, b[prev:])
}

// probesFor builds the probe list for one bridge.  validHello returns a fresh
// valid hello for the current (virtual) hour.
func probesFor(rng interface {
	IntN(int) int
	Uint32() uint32
	Uint64() uint64
}, b o4.Bridge, r *mon.Run, full bool) []probe {
	var ps []probe
	addf := func(class string, mk func() o4.ProbeScript) {
		ps = append(ps, probe{class: class, mk: mk})
	}
	add := func(class string, s o4.ProbeScript) { // for probes that carry no time stamp
		addf(class, func() o4.ProbeScript { return s })
	}
	never := time.Duration(-1)
	mrng := mon.NewRand(rng.Uint64())
	rr := o4.RandReader{R: mrng}
	hello := func(br ref.Bridge, pad int, hour string) *ref.ClientHello {
		key := ref.NewKeypair(rr)
		p := make([]byte, pad)
		io.ReadFull(rr, p)
		return ref.BuildClientHello(br, key, p, hour)
	}
	pad := func() int { return ref.ClientMinPad + rng.IntN(2000) }
	pol := func() memwire.ChunkPolicy {
		switch rng.IntN(4) {
		case 0:
			return memwire.Fixed(1)
		case 1:
			return memwire.Fixed(64)
		case 2:
			return memwire.PRNG(rng.Uint64(), 3000)
		}
		return memwire.All()
	}

	add("silence", o4.ProbeScript{CloseAfter: never})
	lens := []int{1, 63, 64, 140, 141, 142, 1000, 8191, 8192, 8193, 20000}
	for _, n := range lens {
		if !full && rng.IntN(3) != 0 && n != 8192 && n != 141 {
			continue
		}
		add(fmt.Sprintf("random-%d", n), o4.ProbeScript{Segments: [][]byte{junk(rng, n)}, CloseAfter: never, Policy: pol(), Garbage: []int{0, 100}[rng.IntN(2)], Window: []int{0, 4096}[rng.IntN(2)]})
	}
	// megabytes: a probe that keeps pouring data in after its handshake has
	// failed ("keeps reading and discarding whatever the peer sends"): 20 kB
	// at once, then 64 KiB every 100 ms — 2.5 MiB within the first four
	// seconds, long before any close time
	if full {
		segs := [][]byte{junk(rng, 20000)}
		gaps := []time.Duration{0}
		blk := junk(rng, 1<<16)
		for i := 0; i < 40; i++ {
			segs = append(segs, blk)
			gaps = append(gaps, 100*time.Millisecond)
		}
		add("megabytes", o4.ProbeScript{Segments: segs, Gaps: gaps, CloseAfter: never, Window: 1 << 17})
	}
	// truncated / extended / bit-flipped valid hello
	for bnd := 0; bnd < 11; bnd++ {
		if !full && rng.IntN(3) != 0 {
			continue
		}
		bnd := bnd
		addf("truncated", func() o4.ProbeScript {
			h := hello(b.Ref, pad(), o4.Hours(0))
			L := len(h.Bytes)
			at := []int{1, 31, 32, 33, 32 + len(h.Pad) - 1, 32 + len(h.Pad), 32 + len(h.Pad) + 1, L - 17, L - 16, L - 15, L - 1}[bnd]
			return o4.ProbeScript{Segments: [][]byte{h.Bytes[:at]}, CloseAfter: never, Policy: pol()}
		})
	}
	for _, extra := range []int{1, 2, 31, 32, 1000} {
		if !full && rng.IntN(2) != 0 {
			continue
		}
		extra := extra
		addf("extended", func() o4.ProbeScript {
			h2 := hello(b.Ref, pad(), o4.Hours(0))
			return o4.ProbeScript{Segments: [][]byte{append(append([]byte{}, h2.Bytes...), junk(rng, extra)...)}, ValidPrefix: len(h2.Bytes), CloseAfter: never, Policy: pol(), Garbage: []int{0, 50}[rng.IntN(2)]}
		})
	}
	// the same with the padding at its extremes and the hello split, so that
	// the read that completes it also carries the first trailing bytes
	for pi, padLen := range []int{ref.ClientMaxPad, ref.ClientMaxPad - 1, ref.ClientMinPad, -1} {
		for _, extra := range []int{1, 32, 1000} {
			if !full && rng.IntN(3) != 0 && !(pi == 0 && extra == 1) {
				continue
			}
			padLen, extra := padLen, extra
			addf("extended-split", func() o4.ProbeScript {
				pl := padLen
				if pl < 0 {
					pl = pad()
				}
				h2 := hello(b.Ref, pl, o4.Hours(0))
				cut := len(h2.Bytes) / 2
				if rng.IntN(2) == 0 {
					cut = len(h2.Bytes) - 1 - rng.IntN(40)
				}
				tail := append(append([]byte{}, h2.Bytes[cut:]...), junk(rng, extra)...)
				return o4.ProbeScript{Segments: [][]byte{h2.Bytes[:cut], tail}, Gaps: []time.Duration{0, time.Second}, ValidPrefix: len(h2.Bytes), CloseAfter: never}
			})
		}
	}
	for _, region := range []string{"repr", "pad", "mark", "mac"} {
		region := region
		addf("bitflip-"+region, func() o4.ProbeScript {
		h2 := hello(b.Ref, pad(), o4.Hours(0))
		var lo, hi int
		switch region {
		case "repr":
			lo, hi = 0, 32*8-2 // the two top bits of the representative are ignored by decoding but covered by the MAC
		case "pad":
			lo, hi = 32*8, (32+len(h2.Pad))*8
		case "mark":
			lo, hi = (32+len(h2.Pad))*8, (48+len(h2.Pad))*8
		case "mac":
			lo, hi = (48+len(h2.Pad))*8, (64+len(h2.Pad))*8
		}
		return o4.ProbeScript{Segments: [][]byte{bitflip(h2.Bytes, lo+rng.IntN(hi-lo))}, CloseAfter: never, Policy: pol()}
		})
	}
	// wrong hour
	for _, off := range []int64{-3, -2, 2, 3, 100000} {
		off := off
		addf(fmt.Sprintf("wrong-hour%+d", off), func() o4.ProbeScript {
			return o4.ProbeScript{Segments: [][]byte{hello(b.Ref, pad(), o4.Hours(off)).Bytes}, CloseAfter: never, Policy: pol()}
		})
	}
	for ri := 0; ri < 4; ri++ {
		ri := ri
		addf("hour-rendering", func() o4.ProbeScript {
			render := []string{"0" + o4.Hours(0), "+" + o4.Hours(0), o4.Hours(0) + " ", o4.Hours(0) + ".0"}[ri]
			return o4.ProbeScript{Segments: [][]byte{hello(b.Ref, pad(), render).Bytes}, CloseAfter: never, Policy: pol()}
		})
	}
	// wrong identity
	wb := b.Ref
	wb.Pub[rng.IntN(32)] ^= 1 << rng.IntN(8)
	addf("wrong-B", func() o4.ProbeScript {
		return o4.ProbeScript{Segments: [][]byte{hello(wb, pad(), o4.Hours(0)).Bytes}, CloseAfter: never, Policy: pol()}
	})
	wn := b.Ref
	wn.NodeID[rng.IntN(20)] ^= 1 << rng.IntN(8)
	addf("wrong-NODEID", func() o4.ProbeScript {
		return o4.ProbeScript{Segments: [][]byte{hello(wn, pad(), o4.Hours(0)).Bytes}, CloseAfter: never, Policy: pol()}
	})
	// low-order keys with valid mark and MAC
	for _, lr := range lowOrder() {
		lr := lr
		addf("low-order-key", func() o4.ProbeScript {
			key := ref.Keypair{Repr: lr}
			key.Repr[31] |= byte(rng.IntN(4)) << 6
			p := make([]byte, pad())
			io.ReadFull(rr, p)
			return o4.ProbeScript{Segments: [][]byte{ref.BuildClientHello(b.Ref, key, p, o4.Hours(0)).Bytes}, CloseAfter: never, Policy: pol()}
		})
	}
	// valid hello, too slow: the last byte arrives after 31 virtual seconds
	addf("too-slow", func() o4.ProbeScript {
		hs := hello(b.Ref, pad(), o4.Hours(0))
		return o4.ProbeScript{Segments: split(hs.Bytes, len(hs.Bytes)-1), Gaps: []time.Duration{0, 31*time.Second + 500*time.Millisecond}, CloseAfter: never}
	})
	// mark+MAC beyond 8192
	addf("mark-beyond-8192", func() o4.ProbeScript {
		return o4.ProbeScript{Segments: [][]byte{hello(b.Ref, ref.ClientMaxPad+1+rng.IntN(100), o4.Hours(0)).Bytes}, CloseAfter: never, Policy: pol()}
	})
	// too little padding (below the deployed minimum)
	addf("pad-below-minimum", func() o4.ProbeScript {
		return o4.ProbeScript{Segments: [][]byte{hello(b.Ref, rng.IntN(ref.ClientMinPad), o4.Hours(0)).Bytes}, CloseAfter: never, Policy: pol()}
	})
	// probe that disconnects first, at various moments
	add("disconnect-first/immediately", o4.ProbeScript{CloseAfter: 0})
	add("disconnect-first/after-junk", o4.ProbeScript{Segments: [][]byte{junk(rng, 1+rng.IntN(9000))}, CloseAfter: time.Duration(rng.IntN(29000)) * time.Millisecond, Policy: pol()})
	add("disconnect-first/after-failure", o4.ProbeScript{Segments: [][]byte{junk(rng, 8192)}, CloseAfter: time.Duration(1+rng.IntN(25)) * time.Second, Policy: pol()})
	addf("disconnect-first/mid-hello", func() o4.ProbeScript {
		h := hello(b.Ref, pad(), o4.Hours(0))
		return o4.ProbeScript{Segments: [][]byte{h.Bytes[:len(h.Bytes)/2]}, CloseAfter: time.Duration(rng.IntN(20000)) * time.Millisecond}
	})
	return ps
}

func TestCheck(t *testing.T) {
	r := mon.Start(t, "C03")
	defer r.Finish()
	r.SpinWatch(memwire.BytesMoved)
	r.Note("rule", "per bridge (fresh identity and DRBG seed; IAT mode and bias vary): a positive control (valid reference handshake -> the server answers), then probes of every class: silence, random strings of lengths around every limit (1..20000), a valid hello truncated at every field boundary +-1 / extended by trailing bytes (also with minimum and maximum padding and split so that the completing read carries the trailing bytes) / with one bit flipped in representative, padding, mark, MAC, wrong hour (+-2, +-3, other decimal renderings), wrong B, wrong NODEID, byte-identical replay of the accepted hello (at once, as 2..8 simultaneous presentations of one fresh hello of which at most one may be answered, and for hellos stamped hour -1/0/+1 again 1 s, 61 min, 2 h 5 min, 2 h 58 min, 3 h 1 min and 5 h after they were accepted), low-order-point representatives with valid mark+MAC, a valid hello completed after 31 s, mark beyond 8192, padding below the minimum, probes that disconnect first; each under a PRNG-chosen chunking {all,1,64,PRNG}, optionally with continuing garbage every second and a bounded 4 KiB window. Non-trivial = a probe that ran to the server's close (or its own disconnect); distinct = (bridge, class, index).")
	dir := o4.StateDir("c03")
	nBridges := r.Pick(64, 1024)
	for bi := 0; bi < nBridges; bi++ {
		bi := bi
		r.Bubble(fmt.Sprintf("bridge/%04d", bi), func(c *mon.Case) {
			rng := mon.NewRand(r.Sub("bridge", bi))
			flag.Set("obfs4-distBias", fmt.Sprint(bi%2 == 1))
			b := o4.NewBridge(rng, bi%3)
			sf, err := o4.ServerFactory(dir, b)
			if err != nil {
				c.Violation("setup/server-factory", err.Error(), nil)
				return
			}
			var D time.Duration = -1
			var Dclass string
			// (first thing on the fresh factory, while its replay filter is empty)
			// a prober that holds a connection open while a genuine client
			// completes, and then replays that client's hello on the connection
			// it already had (the handshakes finish in another order than the accepts)
			{
				key := ref.NewKeypair(o4.RandReader{R: rng})
				pad := make([]byte, ref.ClientMinPad+rng.IntN(1000))
				hh := ref.BuildClientHello(b.Ref, key, pad, o4.Hours(0))
				ps := o4.ProbeScript{Segments: [][]byte{hh.Bytes}, Gaps: []time.Duration{5 * time.Second}, CloseAfter: -1}
				var held *o4.ProbeResult
				hd := make(chan struct{})
				c.Go(func() { close(hd) }, func() { held = o4.RunProbe(c, sf, ps) })
				time.Sleep(time.Second)
				gen := o4.RunProbe(c, sf, o4.ProbeScript{Segments: [][]byte{hh.Bytes}, CloseAfter: -1})
				if !gen.Accepted {
					c.Violation("control/valid-handshake-refused", "a fresh valid hello was refused while another connection was pending", nil)
				} else {
					gen.Conn.Close()
					gen.Client.Close()
				}
				<-hd
				judge(c, r, sf, b, bi, -1, probe{class: "replay-on-held-connection", ps: ps}, held, &D, &Dclass)
			}
			// positive control + the hello to replay
			cw, sw := memwire.Pair(memwire.Options{Keep: true})
			accepted := make(chan error, 1)
			c.Go(nil, func() { _, e := sf.WrapConn(sw); accepted <- e })
			rc, goodHello, _, derr := o4.RefDial(cw, b.Ref, rng, -1, o4.Hours(0))
			if e := <-accepted; e != nil || derr != nil {
				c.Violation("control/valid-handshake-refused", fmt.Sprintf("reference client err=%v, server err=%v", derr, e), nil)
				return
			}
			_ = rc
			if sw.Out().Written() < 141 {
				c.Violation("control/no-response", "server answered a valid handshake with fewer than 141 bytes", nil)
			}
			r.Count("control_valid_handshake_answered", 1)
			cw.Close()
			sw.Close()

			probes := probesFor(rng, b, r, r.Thorough() || bi%8 == 0)
			rp1 := o4.ProbeScript{Segments: [][]byte{goodHello.Bytes}, CloseAfter: -1}
			rp2 := o4.ProbeScript{Segments: split(goodHello.Bytes, 1, 40, len(goodHello.Bytes)-1), Gaps: []time.Duration{0, time.Second, time.Second, time.Second}, CloseAfter: -1, Garbage: 10}
			// replays first (while the hello is certainly inside its hour window) and last
			probes = append([]probe{{class: "replay", mk: func() o4.ProbeScript { return rp1 }}}, probes...)
			probes = append(probes, probe{class: "replay", mk: func() o4.ProbeScript { return rp2 }})
			for pi, pr := range probes {
				pr.ps = pr.mk()
				res := o4.RunProbe(c, sf, pr.ps)
				judge(c, r, sf, b, bi, pi, pr, res, &D, &Dclass)
			}
			// the same valid hello on k connections at the same instant: all but one
			// of them are replays and must be met with silence
			{
				rr := o4.RandReader{R: rng}
				key := ref.NewKeypair(rr)
				pad := make([]byte, ref.ClientMinPad+rng.IntN(500))
				io.ReadFull(rr, pad)
				hh := ref.BuildClientHello(b.Ref, key, pad, o4.Hours(0))
				k := 2 + rng.IntN(7)
				results := make([]*o4.ProbeResult, k)
				var cwg sync.WaitGroup
				for i := 0; i < k; i++ {
					i := i
					cwg.Add(1)
					c.Go(cwg.Done, func() {
						results[i] = o4.RunProbe(c, sf, o4.ProbeScript{Segments: [][]byte{hh.Bytes}, CloseAfter: -1})
					})
				}
				cwg.Wait()
				answered := 0
				for _, res := range results {
					if res.Accepted {
						answered++
						res.Conn.Close()
						res.Client.Close()
					}
				}
				r.Count("concurrent_replay_groups", 1)
				if answered > 1 {
					c.Violation("not-silent/concurrent-replay", fmt.Sprintf("%d of %d simultaneous presentations of one hello were answered: all but one are replays", answered, k), map[string]any{"bridge": bi, "k": k})
				} else if answered == 0 {
					c.Violation("control/valid-handshake-refused/concurrent", fmt.Sprintf("none of %d simultaneous presentations of a fresh valid hello was answered", k), nil)
				}
				first := true
				for i, res := range results {
					if res.Accepted && first {
						first = false
						continue
					}
					if !res.Accepted {
						judge(c, r, sf, b, bi, 2000+i, probe{class: "concurrent-replay", ps: o4.ProbeScript{Segments: [][]byte{hh.Bytes}, CloseAfter: -1}}, res, &D, &Dclass)
					}
				}
			}
			// a flood: hundreds of probes of all kinds connected at the same instant
			// to this one bridge.  Each of them is owed the same treatment as a
			// probe that comes alone (whatever the server does to bound its own
			// resources may not show as another close time or as unread input).
			// (not for every bridge: a shard process that creates some hundred
			// thousand goroutines runs into an internal CHECK of the race runtime,
			// tsan_rtl.cpp:346, which ends it without a verdict)
			if bi%4 == 1 && (!r.Thorough() || bi%16 == 1) {
				n := r.Pick(200, 260) // (the race detector supports 8128 live goroutines; a probe takes several)
				var flood []probe // (every entry is used once: a chunk policy has state)
				for len(flood) < n {
					flood = append(flood, probesFor(rng, b, r, false)...)
				}
				results := make([]*o4.ProbeResult, n)
				scripts := make([]probe, n)
				var fwg sync.WaitGroup
				for i := 0; i < n; i++ {
					i := i
					scripts[i] = flood[i]
					scripts[i].ps = scripts[i].mk()
					fwg.Add(1)
					c.Go(fwg.Done, func() { results[i] = o4.RunProbe(c, sf, scripts[i].ps) })
				}
				fwg.Wait()
				for i, res := range results {
					pr := scripts[i]
					pr.class = "flood/" + pr.class
					judge(c, r, sf, b, bi, 5000+i, pr, res, &D, &Dclass)
				}
				r.Count("probe_floods", 1)
				r.Count("probes_in_floods", int64(n))
			}
			// replays after a while: hellos stamped with the previous, the current and
			// the next hour of the server clock are accepted once each, then replayed
			// 1 s .. 5 h later.  Whenever that is, the server must stay silent: the
			// hello is either still inside its window (a replay) or outside it.
			if r.Thorough() || bi%2 == 0 {
				rr := o4.RandReader{R: rng}
				delays := []time.Duration{time.Second, 61 * time.Minute, 2*time.Hour + 5*time.Minute, 2*time.Hour + 58*time.Minute, 3*time.Hour + time.Minute, 5 * time.Hour}
				type pres struct {
					hello []byte
					k     int64
					at    time.Time
				}
				var ps []pres
				t0 := time.Now()
				for _, k := range []int64{1, 0, -1} {
					for range delays {
						key := ref.NewKeypair(rr)
						pad := make([]byte, ref.ClientMinPad+rng.IntN(500))
						io.ReadFull(rr, pad)
						hh := ref.BuildClientHello(b.Ref, key, pad, o4.Hours(k))
						first := o4.RunProbe(c, sf, o4.ProbeScript{Segments: [][]byte{hh.Bytes}, CloseAfter: -1})
						if !first.Accepted {
							c.Violation(fmt.Sprintf("control/valid-handshake-refused/hour%+d", k), "a fresh valid hello stamped with an hour inside the window was refused", nil)
							continue
						}
						first.Conn.Close()
						first.Client.Close()
						r.Count("control_valid_handshake_answered", 1)
						ps = append(ps, pres{hh.Bytes, k, t0})
					}
				}
				for di, d := range delays {
					if w := time.Until(t0.Add(d)); w > 0 {
						time.Sleep(w)
					}
					for i, p := range ps {
						if i%len(delays) != di {
							continue
						}
						pr := probe{class: fmt.Sprintf("replay-later/hour%+d/after-%v", p.k, d)}
						pr.ps = o4.ProbeScript{Segments: [][]byte{p.hello}, CloseAfter: -1}
						res := o4.RunProbe(c, sf, pr.ps)
						judge(c, r, sf, b, bi, 1000+i, pr, res, &D, &Dclass)
						r.Count("replays_after_a_while", 1)
					}
				}
			}
			if D >= 0 {
				r.Distinct("distinct_D", D.String())
				r.Count(fmt.Sprintf("D_bucket_%ds", int(D/(10*time.Second))*10), 1)
				r.Max("D_max_ms", D.Milliseconds())
				r.Min("D_min_ms", D.Milliseconds())
			}
		})
	}
}

func judge(c *mon.Case, r *mon.Run, sf base.ServerFactory, b o4.Bridge, bi, pi int, pr probe, res *o4.ProbeResult, D *time.Duration, Dclass *string) {
	r.Count("evaluations", 1)
	r.Count("probes", 1)
	r.Count("class_"+clsKey(pr.class), 1)
	w := map[string]any{"bridge": bi, "probe": pi, "class": pr.class, "sent": res.Sent, "consumed": res.Consumed, "server_bytes": res.ServerBytes, "closed_at": res.ClosedAt.String(), "wrap_err": fmt.Sprint(res.WrapErr)}
	if pr.ps.ValidPrefix > 0 && res.Accepted {
		// A valid hello followed by garbage.  If one of the server's reads ended
		// exactly at the end of the hello, the server has at that moment been
		// presented a complete valid handshake and may answer; the garbage only
		// arrives afterwards.  Only when the garbage arrived in the same read
		// must the probe be refused.
		_, reads, _ := res.Client.Out().Snapshot()
		var cum int
		hit := false
		for _, e := range reads {
			cum += e.N
			if cum == pr.ps.ValidPrefix {
				hit = true
			}
		}
		if hit {
			r.Count("extended_valid_prefix_presented_alone_and_accepted", 1)
			res.Conn.Close()
			res.Client.Close()
			return
		}
	}
	if res.ServerBytes != 0 {
		c.Violation("not-silent/"+clsKey(pr.class), fmt.Sprintf("server wrote %d bytes to a %s probe", res.ServerBytes, pr.class), w)
	}
	if res.Accepted {
		c.Violation("accepted/"+clsKey(pr.class), fmt.Sprintf("server accepted a %s probe", pr.class), w)
		if res.Conn != nil {
			res.Conn.Close()
		}
		res.Client.Close()
		return
	}
	if !res.ServerClosed {
		c.Violation("not-closed/"+clsKey(pr.class), "WrapConn returned an error but the connection was not closed", w)
		return
	}
	r.Distinct("nontrivial", fmt.Sprintf("%d/%s/%d", bi, pr.class, pi))
	if pr.ps.CloseAfter >= 0 {
		// the probe disconnected first: the server must return promptly, i.e.
		// at the virtual instant of the disconnect (or at D if that came first)
		var last time.Duration
		for _, g := range pr.ps.Gaps {
			last += g
		}
		discAt := last + pr.ps.CloseAfter
		if res.ClosedAt != discAt && (*D < 0 || res.ClosedAt != *D) {
			c.Violation("disconnect-not-prompt/"+clsKey(pr.class), fmt.Sprintf("probe disconnected at +%v, server closed at +%v (D=%v)", discAt, res.ClosedAt, *D), w)
		}
		r.Count("disconnect_first_prompt", 1)
		return
	}
	// close time: learned from the first probe, equal for all others
	if *D < 0 {
		*D, *Dclass = res.ClosedAt, pr.class
		if *D < 30*time.Second || *D >= 90*time.Second {
			c.Violation("delay-out-of-range", fmt.Sprintf("server closed at accept+%v, outside [30s,90s)", *D), w)
		}
		if *D%time.Second != 0 {
			r.Count("D_not_whole_seconds", 1)
		}
	} else if res.ClosedAt != *D {
		c.Violation("delay-differs/"+clsKey(pr.class), fmt.Sprintf("server closed a %s probe at accept+%v but a %s probe against the same bridge at accept+%v", pr.class, res.ClosedAt, *Dclass, *D), w)
	}
	// The program that calls WrapConn closes the connection itself as soon as
	// WrapConn returns an error, so a return before the close instant would be
	// an earlier close in the running proxy; a return after it is harmless.
	if res.ReturnAt < res.ClosedAt {
		c.Violation("return-before-close", fmt.Sprintf("WrapConn returned at +%v, before the connection was closed at +%v (the caller closes on return)", res.ReturnAt, res.ClosedAt), w)
	} else if res.ReturnAt > res.ClosedAt {
		r.Count("wrapconn_returned_after_close", 1)
	}
	// everything the probe wrote (strictly) before the close instant was consumed
	ws, _, _ := res.Client.Out().Snapshot()
	var sentBefore int64
	for _, e := range ws {
		if e.T < res.ClosedAt {
			sentBefore += int64(e.N)
		}
	}
	if res.Consumed < sentBefore {
		c.Violation("stopped-consuming/"+clsKey(pr.class), fmt.Sprintf("server consumed only %d of the %d bytes the probe wrote before the close", res.Consumed, sentBefore), w)
	}
	r.Count("bytes_discarded", res.Consumed)
	if pi < 2 && bi < 2 {
		r.Sample(w)
	}
}

func clsKey(s string) string {
	for i, ch := range s {
		if ch >= '0' && ch <= '9' || ch == '+' {
			if i > 0 && (s[i-1] == '-' || s[i-1] == 'r') {
				return s[:i] + "N"
			}
		}
	}
	return s
}
