// C12 — seeded distributions and generator are deterministic, in range and exact.
//
// Monitor: reads the alias-method tables of real probdist.WeightedDist values
// through the VerifTables hook and (a) compares the tables of several
// constructions of the same (seed, min, max, bias) bit for bit, (b) rebuilds
// the probability of every value from prob/alias by exact alias-method
// arithmetic and compares it with weight/Σweights, (c) checks every Sample
// against the value table and the bounds, (d) compares drbg.HashDrbg block by
// block with the harness's own SipHash-2-4 OFB (ref/siphash), (e) checks the
// csrand helpers against their documented ranges with seeded, steered and real
// randomness, (f) lets several goroutines Sample / Reset / snapshot one
// distribution under the race detector.
//
// Deliberately not demanded: which permutation / weights a seed produces
// (that would mean re-implementing this toolchain's math/rand), any
// statistical property of the samples, anything about String() beyond being
// callable.
package c12

import (
	"crypto/rand"
	"crypto/sha256"
	"encoding/binary"
	"encoding/hex"
	"errors"
	"fmt"
	"math"
	"math/bits"
	mrand "math/rand/v2"
	"os"
	"sync"
	"sync/atomic"
	"testing"

	"gitlab.com/yawning/obfs4.git/common/csrand"
	"gitlab.com/yawning/obfs4.git/common/drbg"
	"gitlab.com/yawning/obfs4.git/common/probdist"

	"verif/mon"
	"verif/ref/siphash"
	"verif/steer"
)

// ---------------------------------------------------------------- tables

type config struct {
	min, max int
	biased   bool
}

func (c config) String() string {
	b := "uniform"
	if c.biased {
		b = "biased"
	}
	return fmt.Sprintf("%d..%d/%s", c.min, c.max, b)
}

var bounds = [][2]int{{0, 1448}, {0, 100}, {21, 1448}, {0, 1}, {5, 6}, {-3, 3}}

func configs() []config {
	var l []config
	for _, b := range bounds {
		for _, bias := range []bool{false, true} {
			l = append(l, config{b[0], b[1], bias})
		}
	}
	return l
}

type tables struct {
	min, max int
	values   []int
	weights  []float64
	prob     []float64
	alias    []int
}

func snap(w *probdist.WeightedDist) tables {
	var t tables
	t.min, t.max, t.values, t.weights, t.prob, t.alias = w.VerifTables()
	return t
}

// key is a digest of the complete tables (floats by bit pattern).
func (t tables) key() [32]byte {
	h := sha256.New()
	var b [8]byte
	put := func(v uint64) { binary.BigEndian.PutUint64(b[:], v); h.Write(b[:]) }
	put(uint64(int64(t.min)))
	put(uint64(int64(t.max)))
	put(uint64(len(t.values)))
	for _, v := range t.values {
		put(uint64(int64(v)))
	}
	put(uint64(len(t.weights)))
	for _, v := range t.weights {
		put(math.Float64bits(v))
	}
	put(uint64(len(t.prob)))
	for _, v := range t.prob {
		put(math.Float64bits(v))
	}
	put(uint64(len(t.alias)))
	for _, v := range t.alias {
		put(uint64(int64(v)))
	}
	var k [32]byte
	copy(k[:], h.Sum(nil))
	return k
}

// diff names the first table in which a and b differ ("" if identical).
func (a tables) diff(b tables) string {
	if a.min != b.min || a.max != b.max {
		return "bounds"
	}
	if len(a.values) != len(b.values) {
		return "size"
	}
	for i := range a.values {
		if a.values[i] != b.values[i] {
			return "values"
		}
	}
	fe := func(x, y []float64) bool {
		if len(x) != len(y) {
			return false
		}
		for i := range x {
			if math.Float64bits(x[i]) != math.Float64bits(y[i]) {
				return false
			}
		}
		return true
	}
	if !fe(a.weights, b.weights) {
		return "weights"
	}
	if !fe(a.prob, b.prob) {
		return "prob"
	}
	if len(a.alias) != len(b.alias) {
		return "alias"
	}
	for i := range a.alias {
		if a.alias[i] != b.alias[i] {
			return "alias"
		}
	}
	return ""
}

func (t tables) witness(seed *drbg.Seed, cfg config) map[string]any {
	return map[string]any{"seed": seed.Hex(), "min": cfg.min, "max": cfg.max, "biased": cfg.biased,
		"values": t.values, "weights": t.weights, "prob": t.prob, "alias": t.alias}
}

const reconTol = 1e-9

// stats are per-case tallies flushed to the run at the end of the case.
type stats struct {
	n       map[string]int64
	maxErr  float64
	minSize int
	maxSize int
}

func newStats() *stats { return &stats{n: map[string]int64{}, minSize: 1 << 30} }
func (s *stats) add(k string, v int64) {
	s.n[k] += v
}
func (s *stats) flush(r *mon.Run) {
	for k, v := range s.n {
		r.Count(k, v)
	}
	if s.maxSize > 0 {
		r.Max("table_size_max", int64(s.maxSize))
		r.Min("table_size_min", int64(s.minSize))
		r.Max("max_reconstruction_error_e18", int64(math.Ceil(s.maxErr*1e18)))
	}
}

func sizeBucket(n int) string {
	switch {
	case n == 1:
		return "size_001"
	case n == 100:
		return "size_100"
	case n <= 10:
		return "size_002_010"
	default:
		lo := (n-1)/10*10 + 1
		hi := lo + 9
		if hi == 100 {
			hi = 99
		}
		return fmt.Sprintf("size_%03d_%03d", lo, hi)
	}
}

// judgeTables applies the structural and the reconstruction oracle to one
// table set.  It returns false if the tables are too broken to sample against.
func judgeTables(c *mon.Case, st *stats, seed *drbg.Seed, cfg config, t tables) bool {
	r := c.R
	cls := cfg.String()
	n := len(t.values)
	st.add("tables_judged", 1)
	if t.min != cfg.min || t.max != cfg.max {
		c.Violation("bounds-not-kept/"+cls, fmt.Sprintf("seed %s: distribution reports bounds [%d,%d], requested [%d,%d]", seed.Hex(), t.min, t.max, cfg.min, cfg.max), t.witness(seed, cfg))
		return false
	}
	width := cfg.max - cfg.min + 1
	limit := 100
	if width < limit {
		limit = width
	}
	if n < 1 || n > limit {
		c.Violation("table-size/"+cls, fmt.Sprintf("seed %s: %d values, want 1..%d", seed.Hex(), n, limit), t.witness(seed, cfg))
		return false
	}
	if len(t.weights) != n || len(t.prob) != n || len(t.alias) != n {
		c.Violation("table-lengths/"+cls, fmt.Sprintf("seed %s: values %d weights %d prob %d alias %d", seed.Hex(), n, len(t.weights), len(t.prob), len(t.alias)), t.witness(seed, cfg))
		return false
	}
	st.add(sizeBucket(n), 1)
	if n > st.maxSize {
		st.maxSize = n
	}
	if n < st.minSize {
		st.minSize = n
	}
	seen := make(map[int]bool, n)
	ok := true
	for _, v := range t.values {
		if v < 0 || v >= width {
			c.Violation("value-out-of-range/"+cls, fmt.Sprintf("seed %s: table offset %d outside 0..%d", seed.Hex(), v, width-1), t.witness(seed, cfg))
			ok = false
		}
		if seen[v] {
			c.Violation("value-duplicate/"+cls, fmt.Sprintf("seed %s: table offset %d twice", seed.Hex(), v), t.witness(seed, cfg))
			ok = false
		}
		seen[v] = true
	}
	if seen[0] {
		st.add("tables_containing_min", 1)
	}
	if seen[width-1] {
		st.add("tables_containing_max", 1)
	}
	var sum float64
	for i := 0; i < n; i++ {
		w, p, a := t.weights[i], t.prob[i], t.alias[i]
		if !(w >= 0) || math.IsInf(w, 0) {
			c.Violation("weight-not-a-weight/"+cls, fmt.Sprintf("seed %s: weight[%d] = %v", seed.Hex(), i, w), t.witness(seed, cfg))
			return false
		}
		if !(p >= 0 && p <= 1) {
			c.Violation("prob-outside-unit-interval/"+cls, fmt.Sprintf("seed %s: prob[%d] = %v", seed.Hex(), i, p), t.witness(seed, cfg))
			return false
		}
		if a < 0 || a >= n {
			c.Violation("alias-out-of-range/"+cls, fmt.Sprintf("seed %s: alias[%d] = %d, n = %d", seed.Hex(), i, a, n), t.witness(seed, cfg))
			return false
		}
		sum += w
	}
	if !(sum > 0) {
		// all weights zero: the normalised weights are undefined (2^-53 per weight)
		st.add("degenerate_zero_weight_sum", 1)
		return ok
	}
	// Alias method: pick column i uniformly, keep i with probability prob[i],
	// otherwise take alias[i].  Columns with prob == 1 never defer to their alias.
	rec := make([]float64, n)
	for i := 0; i < n; i++ {
		rec[i] += t.prob[i]
		if t.prob[i] < 1 {
			rec[t.alias[i]] += 1 - t.prob[i]
			st.add("alias_columns", 1)
		}
	}
	worst, worstJ := 0.0, -1
	for j := 0; j < n; j++ {
		e := math.Abs(rec[j]/float64(n) - t.weights[j]/sum)
		if !(e <= worst) {
			worst, worstJ = e, j
		}
	}
	if worst > st.maxErr && worst <= reconTol {
		st.maxErr = worst
	}
	if !(worst <= reconTol) {
		c.Violation("reconstruction/"+cls, fmt.Sprintf("seed %s: value index %d (value %d): alias tables give probability %.17g, normalised weight is %.17g (|diff| %.3g > %g), n=%d",
			seed.Hex(), worstJ, cfg.min+t.values[worstJ], rec[worstJ]/float64(n), t.weights[worstJ]/sum, worst, reconTol, n), t.witness(seed, cfg))
		ok = false
	}
	r.Distinct("shape", fmt.Sprintf("%s/n=%d", cls, n))
	return ok
}

func mkSeed(rng *mrand.Rand) *drbg.Seed {
	var s drbg.Seed
	for i := 0; i < len(s); i += 8 {
		binary.LittleEndian.PutUint64(s[i:], rng.Uint64())
	}
	return &s
}

// sampleMany draws n samples and checks each against bounds and table.
func sampleMany(c *mon.Case, st *stats, d *probdist.WeightedDist, seed *drbg.Seed, cfg config, t tables, n int) {
	width := cfg.max - cfg.min + 1
	in := make([]bool, width)
	for _, v := range t.values {
		if v >= 0 && v < width {
			in[v] = true
		}
	}
	for i := 0; i < n; i++ {
		s := d.Sample()
		if s < cfg.min || s > cfg.max {
			c.Violation("sample-out-of-bounds/"+cfg.String(), fmt.Sprintf("seed %s: Sample() = %d outside [%d,%d]", seed.Hex(), s, cfg.min, cfg.max), t.witness(seed, cfg))
			continue
		}
		if !in[s-cfg.min] {
			c.Violation("sample-not-in-table/"+cfg.String(), fmt.Sprintf("seed %s: Sample() = %d is not min+values[i] for any i", seed.Hex(), s), t.witness(seed, cfg))
		}
		if s == cfg.min {
			st.add("samples_equal_min", 1)
		}
		if s == cfg.max {
			st.add("samples_equal_max", 1)
		}
	}
	st.add("samples", int64(n))
}

// distBatch is the bulk workload of one case: nSeeds seeds x all configs.
func distBatch(c *mon.Case, batch, nSeeds, nSamples, fullEvery int) {
	r := c.R
	st := newStats()
	defer st.flush(r)
	rng := mon.NewRand(r.Sub("dist", batch))
	src := steer.New(r.Sub("dist-rand", batch))
	defer steer.Install(src)()
	cfgs := configs()

	// second constructor: lives in another goroutine, keeps one distribution
	// per config alive for the whole batch and Resets it (after a few Samples)
	// to each new seed, visiting the configs in the opposite order.
	type job struct {
		seed *drbg.Seed
		out  []tables
		done chan struct{}
	}
	jobs := make(chan *job)
	var wg sync.WaitGroup
	wg.Add(1)
	go func() {
		defer wg.Done()
		var keep []*probdist.WeightedDist
		for j := range jobs {
			func() {
				defer close(j.done)
				defer func() {
					if p := recover(); p != nil {
						c.Violation("panic-in-second-constructor", fmt.Sprint(p), map[string]any{"seed": j.seed.Hex()})
					}
				}()
				if keep == nil {
					keep = make([]*probdist.WeightedDist, len(cfgs))
				}
				for k := len(cfgs) - 1; k >= 0; k-- {
					if keep[k] == nil {
						// first use: a throw-away seed different from every workload seed
						var other drbg.Seed
						copy(other[:], j.seed[:])
						other[0] ^= 0x80
						keep[k] = probdist.New(&other, cfgs[k].min, cfgs[k].max, cfgs[k].biased)
					}
					for s := 0; s < 3; s++ {
						keep[k].Sample()
					}
					keep[k].Reset(j.seed)
					j.out[k] = snap(keep[k])
				}
			}()
		}
	}()
	defer func() { close(jobs); wg.Wait() }()

	var prev []tables
	for i := 0; i < nSeeds; i++ {
		seed := mkSeed(rng)
		j := &job{seed: seed, out: make([]tables, len(cfgs)), done: make(chan struct{})}
		jobs <- j
		<-j.done // sequential hand-over: the draws of the seeded randomness stay replayable
		cur := make([]tables, len(cfgs))
		ds := make([]*probdist.WeightedDist, len(cfgs))
		nontrivial := false
		for k, cfg := range cfgs {
			r.Count("evaluations", 1)
			ds[k] = probdist.New(seed, cfg.min, cfg.max, cfg.biased)
			cur[k] = snap(ds[k])
			good := judgeTables(c, st, seed, cfg, cur[k])
			if len(cur[k].values) > 1 {
				nontrivial = true
			}
			if !good {
				continue
			}
			ns := nSamples
			if fullEvery > 1 && i%fullEvery != 0 {
				ns = nSamples / 10
			}
			sampleMany(c, st, ds[k], seed, cfg, cur[k], ns)
			if d := cur[k].diff(snap(ds[k])); d != "" {
				c.Violation("tables-changed-by-sampling/"+d, fmt.Sprintf("seed %s %s: %s differ before/after %d Sample calls", seed.Hex(), cfg, d, ns), cur[k].witness(seed, cfg))
			}
		}
		for k, cfg := range cfgs {
			if j.out[k].values == nil {
				continue // second constructor panicked (already reported)
			}
			if d := cur[k].diff(j.out[k]); d != "" {
				c.Violation("nondeterministic/new-vs-reset/"+d, fmt.Sprintf("seed %s %s: New(seed) and Reset(seed) on a used distribution in another goroutine give different %s", seed.Hex(), cfg, d),
					map[string]any{"new": cur[k].witness(seed, cfg), "reset": j.out[k].witness(seed, cfg)})
			} else {
				st.add("control_reset_same_seed_equal", 1)
			}
			if prev != nil {
				if cur[k].diff(prev[k]) == "" {
					c.Violation("seed-has-no-effect/"+cfg.String(), fmt.Sprintf("seed %s %s: tables identical to those of the previous, different seed", seed.Hex(), cfg), cur[k].witness(seed, cfg))
				} else {
					st.add("control_different_seed_differs", 1)
				}
			}
		}
		prev = cur
		st.add("seeds", 1)
		if nontrivial {
			r.Distinct("nontrivial", "seed:"+seed.Hex())
		}
		if batch == 0 && i == 0 {
			t := cur[5] // 21..1448 biased
			r.Sample(map[string]any{"kind": "distribution", "seed": seed.Hex(), "config": cfgs[5].String(), "table_size": len(t.values),
				"first_values": t.values[:min(4, len(t.values))], "first_weights": t.weights[:min(4, len(t.values))]})
		}
	}
}

// ---------------------------------------------------------------- steering

func be8(v uint64) (b [8]byte) {
	binary.BigEndian.PutUint64(b[:], v)
	return
}

// scripted installs a steer source whose draws number base+i (8-byte draws
// only) are replaced by script[i].
type scripted struct {
	src    *steer.Source
	script map[int64][8]byte
}

func newScripted(seed uint64) *scripted {
	s := &scripted{src: steer.New(seed), script: map[int64][8]byte{}}
	s.src.Hook = func(n int64, p []byte) {
		if v, ok := s.script[n]; ok && len(p) == 8 {
			copy(p, v[:])
		}
	}
	return s
}

// next scripts the next draws.
func (s *scripted) next(vals ...[8]byte) {
	clear(s.script)
	for i, v := range vals {
		s.script[s.src.Draws+int64(i)] = v
	}
}

// topDraw is the 8-byte draw that math/rand maps to n-1 in Intn(n): the
// largest value its rejection sampling accepts (31-bit path for n < 2^31, 63-bit
// path above).  Used for coverage only; whether it worked is observed, not assumed.
func topDraw(n int) [8]byte {
	if n <= 1<<31-1 {
		max31 := uint64(1<<31 - 1 - (1<<31)%uint64(n))
		return be8(max31<<32 | 0xffffffff)
	}
	max63 := uint64(1<<63 - 1 - (1<<63)%uint64(n))
	return be8(max63)
}

// idxDraw is the draw that makes Intn(n) return i for small n.
func idxDraw(i int) [8]byte { return be8(uint64(i) << 32) }

var (
	allZero = be8(0)
	allOnes = be8(^uint64(0))
	// floatTop: math/rand computes Float64 as float64(Int63)/2^63 and redraws
	// when that rounds to 1; 2^63-1024 is the largest Int63 that converts
	// exactly, giving 1-2^-53, the largest float64 below 1.
	floatTop = be8(1<<63 - 1024)
)

type callResult struct {
	v        int
	panicked bool
	msg      string
}

func tryInt(f func() int) (res callResult) {
	defer func() {
		if p := recover(); p != nil {
			res.panicked, res.msg = true, fmt.Sprint(p)
		}
	}()
	res.v = f()
	return
}

// representable reports whether the number of integers in [a,b] fits an int.
func representable(a, b int) bool {
	if b < a {
		return false
	}
	d := uint64(b) - uint64(a)  // exact b-a for a <= b
	return d <= math.MaxInt64-1 // width d+1 <= MaxInt
}

func widthClass(a, b int) string {
	switch {
	case b < a:
		return "empty"
	case !representable(a, b):
		return "width-overflows-int"
	case a == b:
		return "width-1"
	case uint64(b)-uint64(a) < 1<<31-1:
		return "width<2^31"
	default:
		return "width>=2^31"
	}
}

// judgeIntRange evaluates IntRange(a,b) once.
func judgeIntRange(c *mon.Case, st *stats, a, b int, how string) (callResult, bool) {
	res := tryInt(func() int { return csrand.IntRange(a, b) })
	cls := widthClass(a, b)
	st.add("intrange_calls", 1)
	switch {
	case res.panicked && representable(a, b):
		c.Violation("intrange-panic/"+cls, fmt.Sprintf("IntRange(%d,%d) panicked (%s) although the range is non-empty and its width fits an int [%s]", a, b, res.msg, how), map[string]any{"min": a, "max": b})
		return res, false
	case res.panicked:
		st.add("intrange_panics_unrepresentable_or_empty", 1)
		return res, false
	case b < a:
		c.Violation("intrange-returned/empty", fmt.Sprintf("IntRange(%d,%d) returned %d for an empty range [%s]", a, b, res.v, how), map[string]any{"min": a, "max": b, "got": res.v})
		return res, false
	case res.v < a || res.v > b:
		c.Violation("intrange-out-of-range/"+cls, fmt.Sprintf("IntRange(%d,%d) = %d [%s]", a, b, res.v, how), map[string]any{"min": a, "max": b, "got": res.v})
		return res, false
	}
	if !representable(a, b) {
		st.add("intrange_returns_unrepresentable_in_range", 1)
	}
	return res, true
}

func judgeIntn(c *mon.Case, st *stats, n int, how string) (int, bool) {
	res := tryInt(func() int { return csrand.Intn(n) })
	st.add("intn_calls", 1)
	cls := "n<2^31"
	if n > 1<<31-1 {
		cls = "n>=2^31"
	}
	if res.panicked {
		c.Violation("intn-panic/"+cls, fmt.Sprintf("Intn(%d) panicked: %s [%s]", n, res.msg, how), map[string]any{"n": n})
		return 0, false
	}
	if res.v < 0 || res.v >= n {
		c.Violation("intn-out-of-range/"+cls, fmt.Sprintf("Intn(%d) = %d [%s]", n, res.v, how), map[string]any{"n": n, "got": res.v})
		return res.v, false
	}
	return res.v, true
}

func judgeFloat(c *mon.Case, st *stats, how string) float64 {
	f := csrand.Float64()
	st.add("float64_calls", 1)
	if !(f >= 0 && f < 1) {
		c.Violation("float64-out-of-range", fmt.Sprintf("Float64() = %v [%s]", f, how), map[string]any{"got": f})
	}
	return f
}

// genPair draws an argument pair for IntRange by class.
func genPair(rng *mrand.Rand) (a, b int) {
	small := func() int { return rng.IntN(4001) - 2000 }
	anyInt := func() int { return int(rng.Uint64()) }
	near := func(x int, d int) int { // x +- up to d without wrapping
		o := rng.IntN(2*d+1) - d
		if o > 0 && x > math.MaxInt-o {
			return math.MaxInt
		}
		if o < 0 && x < math.MinInt-o {
			return math.MinInt
		}
		return x + o
	}
	switch rng.IntN(10) {
	case 0: // small ordered
		a = small()
		b = a + rng.IntN(3000)
	case 1: // any order, small (sometimes empty)
		a, b = small(), small()
	case 2: // width around 2^31 (math/rand switches algorithm there)
		a = small()
		b = a + (1<<31 - 3) + rng.IntN(6)
	case 3: // near the top of int
		b = near(math.MaxInt, 3)
		a = near(b, 5)
	case 4: // near the bottom of int
		a = near(math.MinInt, 3)
		b = near(a, 5)
	case 5: // width around MaxInt (representable boundary)
		a = near(0, 3)
		b = near(math.MaxInt, 3)
	case 6:
		a = near(math.MinInt, 3)
		b = near(0, 3)
	case 7: // whole int range and neighbours
		a = near(math.MinInt, 2)
		b = near(math.MaxInt, 2)
	case 8: // arbitrary
		a, b = anyInt(), anyInt()
	default: // arbitrary ordered, arbitrary width
		a, b = anyInt(), anyInt()
		if b < a {
			a, b = b, a
		}
	}
	return
}

func intRangeBatch(c *mon.Case, batch, nPairs int) {
	r := c.R
	st := newStats()
	defer st.flush(r)
	rng := mon.NewRand(r.Sub("intrange", batch))
	defer steer.Install(steer.New(r.Sub("intrange-rand", batch)))()
	for i := 0; i < nPairs; i++ {
		a, b := genPair(rng)
		r.Count("evaluations", 1)
		cls := widthClass(a, b)
		st.add("intrange_pairs_"+cls, 1)
		r.Distinct("nontrivial", fmt.Sprintf("intrange:%d:%d", a, b))
		for k := 0; k < 4; k++ {
			res, ok := judgeIntRange(c, st, a, b, "seeded draw")
			if !ok {
				break
			}
			if a == b && res.v == a {
				st.add("intrange_width1_exact", 1)
			}
		}
	}
}

func intRangeEdges(c *mon.Case) {
	r := c.R
	st := newStats()
	defer st.flush(r)
	defer steer.Install(steer.New(r.Sub("edges-rand")))()
	pts := []int{math.MinInt, math.MinInt + 1, math.MinInt + 2, -(1 << 31) - 1, -(1 << 31), -(1 << 31) + 1, -3, -2, -1, 0, 1, 2, 3, 5, 6, 21, 100, 1448,
		1<<31 - 2, 1<<31 - 1, 1 << 31, 1<<31 + 1, 1<<32 - 1, 1 << 32, math.MaxInt - 2, math.MaxInt - 1, math.MaxInt}
	for _, a := range pts {
		for _, b := range pts {
			r.Count("evaluations", 1)
			st.add("intrange_pairs_"+widthClass(a, b), 1)
			r.Distinct("nontrivial", fmt.Sprintf("intrange:%d:%d", a, b))
			for k := 0; k < 16; k++ {
				res, ok := judgeIntRange(c, st, a, b, "edge grid, seeded draw")
				if !ok {
					break
				}
				if a == b && res.v == a {
					st.add("intrange_width1_exact", 1)
				}
			}
		}
	}
	if res := tryInt(func() int { return csrand.IntRange(math.MinInt, -2) }); !res.panicked {
		r.Sample(map[string]any{"kind": "intrange", "min": math.MinInt, "max": -2, "width": "MaxInt (largest representable)", "got": res.v})
	}
	r.Note("exhaustive_part", fmt.Sprintf("IntRange on the full %dx%d grid of edge arguments (int extremes, 2^31 and 2^32 neighbourhoods, transport constants), 16 draws each", len(pts), len(pts)))
}

// width2: both endpoints of [a,a+1] must show up within 256 draws (a correct
// helper misses one with probability 2^-255).
func width2(c *mon.Case, real bool) {
	r := c.R
	st := newStats()
	defer st.flush(r)
	if !real {
		defer steer.Install(steer.New(r.Sub("width2-rand")))()
	}
	rng := mon.NewRand(r.Sub("width2"))
	as := []int{-3, -1, 0, 5, 20, 1447, 8191, 1<<31 - 2, 1<<31 - 1, math.MaxInt - 1, math.MinInt}
	for i := 0; i < 20; i++ {
		a := int(rng.Uint64())
		if a == math.MaxInt {
			a--
		}
		as = append(as, a)
	}
	for _, a := range as {
		r.Count("evaluations", 1)
		var lo, hi bool
		for k := 0; k < 256; k++ {
			res, ok := judgeIntRange(c, st, a, a+1, "width-2 endpoint coverage")
			if !ok {
				break
			}
			lo = lo || res.v == a
			hi = hi || res.v == a+1
		}
		if !lo {
			c.Violation("intrange-endpoint-never-returned/min", fmt.Sprintf("IntRange(%d,%d): min not returned in 256 draws", a, a+1), map[string]any{"min": a, "max": a + 1})
		}
		if !hi {
			c.Violation("intrange-endpoint-never-returned/max", fmt.Sprintf("IntRange(%d,%d): max not returned in 256 draws (documented range is inclusive)", a, a+1), map[string]any{"min": a, "max": a + 1})
		}
		if lo && hi {
			st.add("control_width2_both_endpoints", 1)
		}
		// Intn(2) likewise covers {0,1}
		var z, o bool
		for k := 0; k < 256; k++ {
			v, _ := judgeIntn(c, st, 2, "width-2 coverage")
			z = z || v == 0
			o = o || v == 1
		}
		if !z || !o {
			c.Violation("intn-value-never-returned", fmt.Sprintf("Intn(2): saw 0:%v 1:%v in 256 draws", z, o), nil)
		}
	}
}

func intnFloatBatch(c *mon.Case, batch, n int, real bool) {
	r := c.R
	st := newStats()
	defer st.flush(r)
	rng := mon.NewRand(r.Sub("intn", batch, real))
	if !real {
		defer steer.Install(steer.New(r.Sub("intn-rand", batch)))()
	}
	fixed := []int{1, 2, 3, 7, 100, 101, 1449, 8192, 1<<31 - 2, 1<<31 - 1, 1 << 31, 1<<31 + 1, 1 << 32, 1<<62 - 1, 1 << 62, 1<<62 + 1, math.MaxInt - 1, math.MaxInt}
	how := "seeded draw"
	if real {
		how = "real crypto/rand"
	}
	var fmin, fmax = 2.0, -1.0
	for i := 0; i < n; i++ {
		var m int
		switch {
		case i < len(fixed):
			m = fixed[i]
		case rng.IntN(2) == 0:
			m = 1 + rng.IntN(1<<16)
		default:
			m = int(rng.Uint64()>>1)>>rng.IntN(63) + 1
			if m <= 0 {
				m = math.MaxInt
			}
		}
		r.Count("evaluations", 1)
		judgeIntn(c, st, m, how)
		if m == 1 {
			st.add("intn_1_calls", 1)
		}
		f := judgeFloat(c, st, how)
		fmin, fmax = math.Min(fmin, f), math.Max(fmax, f)
		if !real {
			r.Distinct("nontrivial", fmt.Sprintf("intn:%d", m))
		}
	}
	// evidence: how close to the ends of [0,1) the floats came (scaled 1e9)
	r.Min("float64_min_e9", int64(fmin*1e9))
	r.Max("float64_max_e9", int64(fmax*1e9))
	// Bytes with the same reader
	for _, l := range []int{0, 1, 7, 8, 9, 24, 32, 1500, 65536} {
		buf := make([]byte, l)
		if err := csrand.Bytes(buf); err != nil {
			c.Violation("bytes-error/healthy-reader", fmt.Sprintf("Bytes(%d) = %v [%s]", l, err, how), nil)
		}
		st.add("bytes_calls", 1)
	}
}

// steered extremes of the helpers.
func steeredExtremes(c *mon.Case) {
	r := c.R
	st := newStats()
	defer st.flush(r)
	s := newScripted(r.Sub("steered"))
	defer steer.Install(s.src)()
	rng := mon.NewRand(r.Sub("steered-n"))
	ns := []int{1, 2, 3, 4, 7, 8, 100, 101, 1024, 1449, 8192, 8193, 1<<31 - 2, 1<<31 - 1, 1 << 31, 1<<31 + 1, 1 << 32, 1<<32 + 1, 1 << 62, 1<<62 + 1, math.MaxInt - 1, math.MaxInt}
	for i := 0; i < 200; i++ {
		ns = append(ns, 1+rng.IntN(1<<20), int(rng.Uint64()>>1)>>rng.IntN(40)+1)
	}
	miss := func(what string) {
		st.add("steered_extreme_missed", 1)
		r.Inconclusive("steered draw did not produce the intended extreme (" + what + "): the harness's model of math/rand's mapping does not fit this build; range oracles are unaffected")
	}
	for _, n := range ns {
		if n <= 0 {
			n = math.MaxInt
		}
		r.Count("evaluations", 1)
		r.Distinct("nontrivial", fmt.Sprintf("steered:%d", n))
		// all-zero draw -> 0
		s.next(allZero)
		if v, ok := judgeIntn(c, st, n, "draw steered to 00..00"); ok {
			if v == 0 {
				st.add("control_extremes_steered", 1)
				st.add("steered_intn_zero", 1)
			} else {
				miss("Intn low")
			}
		}
		// all-ones draw: n-1 for powers of two, otherwise rejected and redrawn; in range either way
		s.next(allOnes)
		if v, ok := judgeIntn(c, st, n, "draw steered to ff..ff"); ok && n&(n-1) == 0 {
			if v == n-1 {
				st.add("control_extremes_steered", 1)
				st.add("steered_intn_allones_pow2_top", 1)
			} else {
				miss("Intn all-ones, power of two")
			}
		}
		// largest accepted draw -> n-1
		s.next(topDraw(n))
		if v, ok := judgeIntn(c, st, n, "draw steered to the largest accepted value"); ok {
			if v == n-1 {
				st.add("control_extremes_steered", 1)
				st.add("steered_intn_top", 1)
			} else {
				miss("Intn top")
			}
		}
		// the same through IntRange at several offsets (width n)
		for _, a := range []int{0, -3, 21, math.MinInt, math.MaxInt - (n - 1)} {
			if a > math.MaxInt-(n-1) {
				continue
			}
			b := a + (n - 1)
			s.next(allZero)
			if res, ok := judgeIntRange(c, st, a, b, "draw steered to 00..00"); ok {
				if res.v == a {
					st.add("control_extremes_steered", 1)
					st.add("steered_intrange_min", 1)
				} else {
					miss("IntRange min")
				}
			}
			s.next(topDraw(n))
			if res, ok := judgeIntRange(c, st, a, b, "draw steered to the largest accepted value"); ok {
				if res.v == b {
					st.add("control_extremes_steered", 1)
					st.add("steered_intrange_max", 1)
				} else {
					// an exclusive upper bound shows here as max-1; the deciding
					// oracle for that is width2 / IntRange(a,a), this is coverage
					miss("IntRange max")
				}
			}
			s.next(allOnes)
			judgeIntRange(c, st, a, b, "draw steered to ff..ff")
		}
	}
	// Float64
	s.next(allZero)
	if f := judgeFloat(c, st, "draw steered to 00..00"); f == 0 {
		st.add("control_extremes_steered", 1)
		st.add("steered_float_zero", 1)
	} else {
		miss("Float64 low")
	}
	for _, top := range [][8]byte{floatTop, be8(1<<63 - 513)} {
		s.next(top)
		if f := judgeFloat(c, st, "draw steered to the largest value below 1"); f == 1-1.0/(1<<53) {
			st.add("control_extremes_steered", 1)
			st.add("steered_float_top", 1)
		} else if f >= 0 && f < 1 {
			miss("Float64 top")
		}
	}
	// draws that would convert to exactly 1.0 must be redrawn, not returned
	for _, one := range [][8]byte{allOnes, be8(1<<63 - 1), be8(1<<63 - 512)} {
		s.next(one)
		judgeFloat(c, st, "draw steered to a value that rounds to 1.0")
		st.add("steered_float_rounds_to_one", 1)
	}
}

// patternReader yields bytes >= 0x80 only, in reads of at most `chunk` bytes,
// and fails after `failAfter` bytes if failAfter >= 0.
type patternReader struct {
	chunk, failAfter, served int
}

var errInjected = errors.New("injected reader failure")

func (p *patternReader) Read(b []byte) (int, error) {
	n := len(b)
	if p.chunk > 0 && n > p.chunk {
		n = p.chunk
	}
	if p.failAfter >= 0 && p.served+n > p.failAfter {
		n = p.failAfter - p.served
		if n <= 0 {
			return 0, errInjected
		}
	}
	for i := 0; i < n; i++ {
		b[i] = 0x80 | byte(p.served+i)
	}
	p.served += n
	return n, nil
}

func bytesFill(c *mon.Case) {
	r := c.R
	st := newStats()
	defer st.flush(r)
	old := rand.Reader
	defer func() { rand.Reader = old }()
	unfilled := func(buf []byte) int {
		for i, v := range buf {
			if v < 0x80 {
				return i
			}
		}
		return -1
	}
	for _, l := range []int{0, 1, 2, 7, 8, 9, 16, 24, 31, 32, 33, 255, 256, 1500, 4096, 70000} {
		for _, chunk := range []int{0, 1, 3, 8, 1000} {
			r.Count("evaluations", 1)
			r.Distinct("nontrivial", fmt.Sprintf("bytes:%d:%d", l, chunk))
			buf := make([]byte, l) // zero = "not written"
			rand.Reader = &patternReader{chunk: chunk, failAfter: -1}
			err := csrand.Bytes(buf)
			st.add("bytes_calls", 1)
			if err != nil {
				c.Violation("bytes-error/healthy-reader", fmt.Sprintf("Bytes(len %d) over a reader serving %d-byte chunks: %v", l, chunk, err), nil)
			} else if i := unfilled(buf); i >= 0 {
				c.Violation("bytes-not-filled/short-reads", fmt.Sprintf("Bytes(len %d) over a reader serving %d-byte chunks returned nil but byte %d was not written", l, chunk, i), nil)
			} else {
				st.add("bytes_filled", 1)
			}
			if l > 1 {
				// failing reader: a nil return promises a full buffer
				buf = make([]byte, l)
				rand.Reader = &patternReader{chunk: chunk, failAfter: l / 2}
				err = csrand.Bytes(buf)
				if err == nil && unfilled(buf) >= 0 {
					c.Violation("bytes-not-filled/error-swallowed", fmt.Sprintf("Bytes(len %d): reader failed after %d bytes, Bytes returned nil with an unfilled buffer", l, l/2), nil)
				} else if err != nil {
					st.add("control_bytes_reader_failure_reported", 1)
				}
			}
		}
	}
}

// ---------------------------------------------------------------- Sample under steering

// samplePaths drives Sample through every (column, heads/tails) branch of a
// few tables.  Premise (checked at run time, per table): Sample makes exactly
// two 8-byte draws, and the same bytes fed to csrand.Intn / csrand.Float64
// give the intended column / coin.  Demand: the result is in the table and in
// bounds (property); that it is exactly values[i] resp. values[alias[i]] is
// what makes the probability reconstruction a statement about Sample.
func samplePaths(c *mon.Case, batch, nSeeds int) {
	r := c.R
	st := newStats()
	defer st.flush(r)
	rng := mon.NewRand(r.Sub("paths", batch))
	s := newScripted(r.Sub("paths-rand", batch))
	defer steer.Install(s.src)()
	cfgs := configs()
	for i := 0; i < nSeeds; i++ {
		seed := mkSeed(rng)
		for _, cfg := range cfgs {
			d := probdist.New(seed, cfg.min, cfg.max, cfg.biased)
			t := snap(d)
			if !judgeTables(c, st, seed, cfg, t) {
				continue
			}
			r.Count("evaluations", 1)
			n := len(t.values)
			for col := 0; col < n; col++ {
				for _, coin := range []struct {
					b  [8]byte
					f  float64
					nm string
				}{{allZero, 0, "heads"}, {floatTop, 1 - 1.0/(1<<53), "tails"}} {
					// premise
					s.next(idxDraw(col), coin.b)
					gi, gf := csrand.Intn(n), csrand.Float64()
					if gi != col || gf != coin.f {
						st.add("sample_path_unsteerable", 1)
						continue
					}
					before := s.src.Draws
					s.next(idxDraw(col), coin.b)
					got := d.Sample()
					if s.src.Draws-before != 2 {
						st.add("sample_path_unsteerable", 1)
						continue
					}
					want := col
					if !(coin.f <= t.prob[col]) {
						want = t.alias[col]
						st.add("sample_paths_alias_taken", 1)
					}
					st.add("sample_paths", 1)
					if got < cfg.min || got > cfg.max {
						c.Violation("sample-out-of-bounds/"+cfg.String(), fmt.Sprintf("seed %s: steered Sample (column %d, %s) = %d outside [%d,%d]", seed.Hex(), col, coin.nm, got, cfg.min, cfg.max), t.witness(seed, cfg))
					} else if got != cfg.min+t.values[want] {
						c.Violation("sample-path/"+coin.nm, fmt.Sprintf("seed %s %s: column %d, coin %v vs prob %v: Sample() = %d, alias method gives min+values[%d] = %d",
							seed.Hex(), cfg, col, coin.f, t.prob[col], got, want, cfg.min+t.values[want]), t.witness(seed, cfg))
					}
				}
			}
		}
	}
}

// ---------------------------------------------------------------- DRBG

func refSeed(s *drbg.Seed) (o [24]byte) { copy(o[:], s[:]); return }

func drbgStream(c *mon.Case, st *stats, seed *drbg.Seed, nBlocks int, rng *mrand.Rand, label string) {
	r := c.R
	r.Count("evaluations", 1)
	d, err := drbg.NewHashDrbg(seed)
	if err != nil {
		c.Violation("drbg-constructor-error", err.Error(), nil)
		return
	}
	ref := siphash.NewOFB(refSeed(seed))
	ints := make([]int64, 0, nBlocks) // the stream as Int63 values, for the replay below
	okAll := true
	// blocks handed out earlier are the caller's: they are kept and compared
	// again at the end (a later draw must not change them), and some are
	// written to (which must not change what the generator produces next)
	type kept struct {
		n    int
		got  []byte
		want [8]byte
	}
	var held []kept
	for n := 1; n <= nBlocks; n++ {
		pos := "block-1"
		if n > 1 {
			pos = "block-n"
		}
		if rng.IntN(2) == 0 {
			got := d.NextBlock()
			want := ref.NextBlock()
			if len(held) < 64 {
				if rng.IntN(4) == 0 && len(got) == 8 && [8]byte(got) == want {
					for i := range got { // the caller uses its block as scratch space
						got[i] ^= 0xa5
						want[i] ^= 0xa5
					}
					st.add("drbg_blocks_overwritten_by_the_caller", 1)
					held = append(held, kept{n, got, want})
					for i := range want {
						want[i] ^= 0xa5
					}
					got = append([]byte(nil), want[:]...)
				} else {
					held = append(held, kept{n, got, want})
				}
			}
			ints = append(ints, int64(binary.BigEndian.Uint64(want[:])&^(1<<63)))
			if len(got) != 8 || [8]byte(got) != want {
				c.Violation("drbg-nextblock-mismatch/"+pos, fmt.Sprintf("seed %s (%s): block %d = %x, SipHash-2-4 OFB reference %x", seed.Hex(), label, n, got, want),
					map[string]any{"seed": seed.Hex(), "block": n, "got": hex.EncodeToString(got), "want": hex.EncodeToString(want[:])})
				okAll = false
				break
			}
		} else {
			got := d.Int63()
			want := ref.Int63()
			ints = append(ints, want)
			if got != want {
				cls := "other"
				if x := uint64(got) ^ uint64(want); x&(x-1) == 0 {
					cls = fmt.Sprintf("bit%d", bits.TrailingZeros64(x))
				}
				c.Violation("drbg-int63-mismatch/"+pos+"/"+cls, fmt.Sprintf("seed %s (%s): Int63 number %d = %#x, reference %#x", seed.Hex(), label, n, got, want),
					map[string]any{"seed": seed.Hex(), "block": n, "got": got, "want": want})
				okAll = false
				break
			}
			if want>>62 == 1 {
				st.add("drbg_int63_with_bit62", 1)
			}
		}
		st.add("drbg_blocks_compared", 1)
	}
	if !okAll {
		return
	}
	for _, k := range held {
		if len(k.got) != 8 || [8]byte(k.got) != k.want {
			c.Violation("drbg-block-changed-after-it-was-handed-out", fmt.Sprintf("seed %s (%s): block %d read %x when it was handed out (or was set to that by the caller) and reads %x after %d further draws", seed.Hex(), label, k.n, k.want, k.got, nBlocks-k.n),
				map[string]any{"seed": seed.Hex(), "block": k.n})
			return
		}
		st.add("drbg_blocks_held_and_compared_again", 1)
	}
	st.add("control_drbg_matches_reference", 1)
	// determinism: a second generator from the same seed, read differently
	d2, _ := drbg.NewHashDrbg(seed)
	for n, want := range ints {
		if got := d2.Int63(); got != want {
			c.Violation("drbg-nondeterministic", fmt.Sprintf("seed %s: second generator, Int63 number %d = %#x, first stream had %#x", seed.Hex(), n+1, got, want), nil)
			return
		}
	}
	st.add("drbg_streams_replayed", 1)
}

func drbgBatch(c *mon.Case, batch, nStreams, nBlocks int) {
	r := c.R
	st := newStats()
	defer st.flush(r)
	rng := mon.NewRand(r.Sub("drbg", batch))
	for i := 0; i < nStreams; i++ {
		seed := mkSeed(rng)
		r.Distinct("nontrivial", "drbg:"+seed.Hex())
		drbgStream(c, st, seed, nBlocks, rng, "PRNG seed")
		if batch == 0 && i == 0 {
			o := siphash.NewOFB(refSeed(seed))
			b := o.NextBlock()
			r.Sample(map[string]any{"kind": "drbg", "seed": seed.Hex(), "blocks": nBlocks, "first_block": hex.EncodeToString(b[:])})
		}
	}
}

func drbgEdges(c *mon.Case, nBlocks int) {
	r := c.R
	st := newStats()
	defer st.flush(r)
	rng := mon.NewRand(r.Sub("drbg-edges"))
	mk := func(key, iv byte) *drbg.Seed {
		var s drbg.Seed
		for i := range s {
			if i < 16 {
				s[i] = key
			} else {
				s[i] = iv
			}
		}
		return &s
	}
	var counting drbg.Seed
	for i := range counting {
		counting[i] = byte(i)
	}
	for _, e := range []struct {
		s  *drbg.Seed
		nm string
	}{{mk(0, 0), "all-zero"}, {mk(0xff, 0xff), "all-ones"}, {mk(0, 0xff), "zero key, ones IV"}, {mk(0xff, 0), "ones key, zero IV"}, {&counting, "00..17"}} {
		r.Distinct("nontrivial", "drbg:"+e.s.Hex())
		drbgStream(c, st, e.s, nBlocks, rng, e.nm)
		st.add("drbg_edge_seeds", 1)
		// first blocks against the quadratic definition block_n = SipHash(key, IV ‖ block_1 ‖ … ‖ block_{n-1})
		d, _ := drbg.NewHashDrbg(e.s)
		var key [16]byte
		copy(key[:], e.s[:16])
		msg := append([]byte(nil), e.s[16:]...)
		for n := 1; n <= 200; n++ {
			got := d.NextBlock()
			want := siphash.Sum64Of(key, msg)
			if binary.LittleEndian.Uint64(got) != want {
				c.Violation("drbg-not-hash-of-growing-message", fmt.Sprintf("seed %s: block %d = %x, SipHash(key, IV‖blocks) = %016x", e.s.Hex(), n, got, want), nil)
				break
			}
			msg = append(msg, got...)
			st.add("drbg_blocks_vs_oneshot", 1)
		}
	}
}

// ---------------------------------------------------------------- concurrency

// concurrent: one distribution; resetter goroutine(s) walk through a list of
// seeds (calling String() themselves between Resets, which is race-free);
// sampler goroutines Sample; a snapshot goroutine reads the tables through the
// hook (under the distribution's lock).
func concurrent(c *mon.Case, idx, nResets, nSamplers, minSamples int, twoResetters bool) {
	r := c.R
	st := newStats()
	defer st.flush(r)
	rng := mon.NewRand(r.Sub("conc", idx))
	cfgs := configs()
	cfg := cfgs[idx%len(cfgs)]
	r.Count("evaluations", 1)
	r.Distinct("nontrivial", fmt.Sprintf("conc:%d", idx))

	seeds := make([]*drbg.Seed, nResets+1)
	want := make([]tables, nResets+1)
	byKey := map[[32]byte]int{}
	union := make([]bool, cfg.max-cfg.min+1)
	for i := range seeds {
		seeds[i] = mkSeed(rng)
	}
	// expected tables: built by several goroutines at once (fresh New each)
	var pw sync.WaitGroup
	for g := 0; g < 4; g++ {
		pw.Add(1)
		go func(g int) {
			defer pw.Done()
			for i := g; i < len(seeds); i += 4 {
				want[i] = snap(probdist.New(seeds[i], cfg.min, cfg.max, cfg.biased))
			}
		}(g)
	}
	pw.Wait()
	for i, t := range want {
		judgeTables(c, st, seeds[i], cfg, t)
		byKey[t.key()] = i
		for _, v := range t.values {
			if v >= 0 && v < len(union) {
				union[v] = true
			}
		}
		// fresh New on this goroutine equals fresh New on the worker goroutine
		if i%16 == 0 {
			if d := t.diff(snap(probdist.New(seeds[i], cfg.min, cfg.max, cfg.biased))); d != "" {
				c.Violation("nondeterministic/new-vs-new/"+d, fmt.Sprintf("seed %s %s: two New calls on different goroutines differ in %s", seeds[i].Hex(), cfg, d), t.witness(seeds[i], cfg))
			} else {
				st.add("control_new_same_seed_equal", 1)
			}
		}
	}

	d := probdist.New(seeds[0], cfg.min, cfg.max, cfg.biased)
	var stop atomic.Bool
	var wg, rwg sync.WaitGroup
	var nSamples, nSnaps, nStrings atomic.Int64
	guard := func(who string) {
		if p := recover(); p != nil {
			c.Violation("panic-concurrent/"+who, fmt.Sprintf("%s %s: %v", cfg, who, p), nil)
			stop.Store(true)
		}
	}
	finals := map[int]bool{}
	resetter := func(from, to int) {
		defer rwg.Done()
		defer guard("resetter")
		for i := from; i <= to; i++ {
			d.Reset(seeds[i])
			if i%8 == 0 && !twoResetters {
				if s := d.String(); len(s) < 3 {
					c.Violation("string-empty", fmt.Sprintf("String() = %q", s), nil)
				}
				nStrings.Add(1)
			}
		}
	}
	if twoResetters {
		mid := nResets / 2
		finals[mid], finals[nResets] = true, true
		rwg.Add(2)
		go resetter(1, mid)
		go resetter(mid+1, nResets)
	} else {
		finals[nResets] = true
		rwg.Add(1)
		go resetter(1, nResets)
	}
	for g := 0; g < nSamplers; g++ {
		wg.Add(1)
		go func() {
			defer wg.Done()
			defer guard("sampler")
			for k := 0; k < minSamples || !stop.Load(); k++ {
				s := d.Sample()
				nSamples.Add(1)
				if s < cfg.min || s > cfg.max {
					c.Violation("sample-out-of-bounds/concurrent/"+cfg.String(), fmt.Sprintf("Sample() = %d outside [%d,%d] while another goroutine Resets", s, cfg.min, cfg.max), nil)
				} else if !union[s-cfg.min] {
					c.Violation("sample-not-in-table/concurrent/"+cfg.String(), fmt.Sprintf("Sample() = %d is in none of the %d tables this distribution ever had", s, len(seeds)), nil)
				}
			}
		}()
	}
	wg.Add(1)
	go func() {
		defer wg.Done()
		defer guard("snapshot")
		last := -1
		distinct := 0
		for k := 0; k < 50 || !stop.Load(); k++ {
			t := snap(d)
			nSnaps.Add(1)
			i, ok := byKey[t.key()]
			if !ok {
				c.Violation("torn-tables/concurrent", fmt.Sprintf("%s: tables read under the lock match no seed of the Reset sequence (mixture of two Resets?)", cfg), t.witness(seeds[0], cfg))
				continue
			}
			if i != last {
				distinct++
			}
			if !twoResetters && i < last {
				c.Violation("reset-order/concurrent", fmt.Sprintf("%s: tables of seed #%d observed after those of seed #%d with a single resetter", cfg, i, last), nil)
			}
			last = i
		}
		r.Max("conc_distinct_tables_seen_by_one_snapshotter", int64(distinct))
	}()
	rwg.Wait()
	stop.Store(true)
	wg.Wait()

	final := snap(d)
	if i, ok := byKey[final.key()]; !ok || !finals[i] {
		which := "no seed of the sequence"
		if ok {
			which = fmt.Sprintf("seed #%d", i)
		}
		c.Violation("final-tables-not-last-seed/concurrent", fmt.Sprintf("%s: after all goroutines finished the tables are those of %s, want the last Reset seed (#%d)", cfg, which, nResets), final.witness(seeds[nResets], cfg))
	} else {
		st.add("control_conc_final_equals_fresh_new", 1)
	}
	st.add("conc_resets", int64(nResets))
	st.add("conc_samples", nSamples.Load())
	st.add("conc_snapshots", nSnaps.Load())
	st.add("conc_strings_by_resetter", nStrings.Load())
}

// stringVsReset is the opt-in sub-case: String() from one goroutine while
// another Resets.  String() does not take the distribution's lock.
func stringVsReset(c *mon.Case) {
	r := c.R
	rng := mon.NewRand(r.Sub("string-vs-reset"))
	cfg := config{0, 1448, true}
	d := probdist.New(mkSeed(rng), cfg.min, cfg.max, cfg.biased)
	var wg sync.WaitGroup
	var stop atomic.Bool
	wg.Add(2)
	go func() {
		defer wg.Done()
		defer func() {
			if p := recover(); p != nil {
				c.Violation("string-vs-reset/panic-in-reset", fmt.Sprint(p), nil)
			}
			stop.Store(true)
		}()
		for i := 0; i < 3000 && !stop.Load(); i++ {
			d.Reset(mkSeed(rng))
		}
	}()
	go func() {
		defer wg.Done()
		defer func() {
			if p := recover(); p != nil {
				c.Violation("string-vs-reset/panic-in-string", fmt.Sprintf("String() concurrent with Reset panicked: %v", p), nil)
				stop.Store(true)
			}
		}()
		for !stop.Load() {
			_ = d.String()
			r.Count("optin_string_calls", 1)
		}
	}()
	wg.Wait()
	r.Count("evaluations", 1)
}

// ---------------------------------------------------------------- TestCheck

func TestCheck(t *testing.T) {
	r := mon.Start(t, "C12")
	defer r.Finish()
	r.Note("rule", "distributions: PRNG 24-byte seeds x bounds {0..1448, 0..100, 21..1448, 0..1, 5..6, -3..3} x bias {off,on}; per (seed,config): New on the main goroutine, Reset of a used distribution on a second goroutine (configs in reverse order, Samples interleaved), table comparison bit for bit, exact alias-method probability reconstruction, Samples checked against table and bounds (randomness from a seeded crypto/rand replacement), every Sample branch driven by steered draws for a subset. DRBG: PRNG and edge seeds, streams read through a PRNG mixture of NextBlock/Int63 and compared block by block with the harness's own SipHash-2-4 OFB. csrand: IntRange over PRNG argument pairs by class and a full edge grid, Intn/Float64/Bytes, steered extreme draws, real crypto/rand as well. Concurrency: Sample/Reset/snapshot goroutines on one distribution under the race detector. An evaluation is one (seed,config) table set, one DRBG stream, or one helper argument tuple; a seed is non-trivial when at least one of its tables has more than one value; distinct = distinct seed / argument tuple.")
	r.Note("not_demanded", "which permutation and weights a seed yields (only: same seed => same tables, different seed => different tables), statistics of samples, behaviour of String(), IntRange for ranges wider than an int (may panic, may not return an out-of-range value)")

	// (1) bulk distributions
	nCases := r.Pick(64, 256)
	nSeeds := r.Pick(100, 800)
	nSamples := r.Pick(200, 1000)
	fullEvery := r.Pick(1, 8) // thorough: every 8th seed gets the full 1000 samples per table, the others 100
	for b := 0; b < nCases; b++ {
		b := b
		r.Case(fmt.Sprintf("dist/%03d", b), func(c *mon.Case) { distBatch(c, b, nSeeds, nSamples, fullEvery) })
	}

	// (2) every Sample branch under steering
	for b := 0; b < r.Pick(8, 16); b++ {
		b := b
		r.Case(fmt.Sprintf("paths/%02d", b), func(c *mon.Case) { samplePaths(c, b, r.Pick(5, 40)) })
	}

	// (3) DRBG against the reference
	for b := 0; b < r.Pick(16, 64); b++ {
		b := b
		r.Case(fmt.Sprintf("drbg/%02d", b), func(c *mon.Case) { drbgBatch(c, b, r.Pick(8, 16), r.Pick(2000, 10000)) })
	}
	r.Case("drbg/edges", func(c *mon.Case) { drbgEdges(c, 10000) })

	// (4) csrand helpers
	for b := 0; b < r.Pick(8, 16); b++ {
		b := b
		r.Case(fmt.Sprintf("csrand/intrange/%02d", b), func(c *mon.Case) { intRangeBatch(c, b, r.Pick(5000, 60000)) })
	}
	r.Case("csrand/intrange/edges", intRangeEdges)
	r.Case("csrand/width2/seeded", func(c *mon.Case) { width2(c, false) })
	r.Case("csrand/width2/real", func(c *mon.Case) { width2(c, true) })
	for b := 0; b < r.Pick(4, 8); b++ {
		b := b
		r.Case(fmt.Sprintf("csrand/intn-float/%02d", b), func(c *mon.Case) { intnFloatBatch(c, b, r.Pick(10000, 100000), false) })
	}
	r.Case("csrand/intn-float/real", func(c *mon.Case) { intnFloatBatch(c, 0, r.Pick(5000, 50000), true) })
	r.Case("csrand/steered", steeredExtremes)
	r.Case("csrand/bytes", bytesFill)

	// (5) concurrency under the race detector
	for i := 0; i < r.Pick(24, 48); i++ {
		i := i
		r.Case(fmt.Sprintf("conc/%02d", i), func(c *mon.Case) {
			concurrent(c, i, r.Pick(150, 600), 2+i%2, r.Pick(2000, 10000), i%4 == 3)
		})
	}

	// (6) opt-in only: String() concurrent with Reset (String takes no lock;
	// the property statement does not mention String).  Runs only with
	// `bin/check C12 --only '^optin/string-vs-reset$'` or VERIF_C12_STRING=1.
	if os.Getenv("VERIF_ONLY") != "" || os.Getenv("VERIF_C12_STRING") == "1" {
		r.Case("optin/string-vs-reset", stringVsReset)
	}
}
