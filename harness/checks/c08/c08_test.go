// C08 — ntor: both sides agree, the transcript is bound, degenerate keys are
// refused, the KDF is deterministic and prefix-consistent.
//
// Monitor: the exported API of common/ntor (NewKeypair, KeypairFromHex,
// NewPublicKey, NewNodeID, ClientHandshake, ServerHandshake, CompareAuth, Kdf)
// is driven with generated and enumerated inputs; the oracle is verif/ref/ntor
// (own transcript assembly over HMAC-SHA256, own HKDF, X25519 as a math/big
// RFC 7748 ladder or the x/crypto primitive).
//
// Judged:
//   - honest handshakes: ok on both sides, client == server == reference for
//     KEY_SEED and AUTH, CompareAuth accepts the peer's AUTH;
//   - one-bit changes of NODEID, B, Y (client side) and NODEID, X (server
//     side): KEY_SEED and AUTH both differ from the unchanged run, and (when the
//     side reports ok) equal the reference on the changed input;
//   - low-order peer keys (14 encodings) as Y, as B, as both (client) and as X
//     (server): ok must be false;
//   - Kdf: two calls agree, Kdf(s,m) is a prefix of Kdf(s,8160) for every
//     m in 0..8160 (hence Kdf(s,n)[:m] == Kdf(s,m) for all m<n), sampled pairs
//     checked literally, equal to the reference HKDF.
//
// Deliberately not judged: the KEY_SEED/AUTH values returned together with
// ok=false; whether ok is true for hostile peer keys whose DH result is not
// zero (non-canonical, near-miss, bit-flipped keys); Kdf lengths above 8160;
// whether an Elligator representative maps back to the public key (C07).
package c08

import (
	"bytes"
	"encoding/hex"
	"fmt"
	"math/rand/v2"
	"sync"
	"sync/atomic"
	"testing"

	"gitlab.com/yawning/obfs4.git/common/ntor"

	"verif/mon"
	ntorref "verif/ref/ntor"
	"verif/steer"
)

const kdfMax = 8160 // 255 * 32, the HKDF-SHA256 limit; longer requests panic by design

var keypairKinds = []string{"new", "new+elligator", "hex-random", "hex-edge"}

// mkKeypair makes a key pair of the given kind through the exported API only.
func mkKeypair(c *mon.Case, rng *rand.Rand, kind int) *ntor.Keypair {
	var kp *ntor.Keypair
	var err error
	switch kind {
	case 0:
		kp, err = ntor.NewKeypair(false)
	case 1:
		kp, err = ntor.NewKeypair(true)
	case 2:
		var raw [32]byte
		fill(rng, raw[:])
		kp, err = ntor.KeypairFromHex(hex.EncodeToString(raw[:]))
	default:
		// private keys on which clamping does visible work
		var raw [32]byte
		switch rng.IntN(5) {
		case 0: // all zero: clamps to 2^254
		case 1:
			for i := range raw {
				raw[i] = 0xff
			}
		case 2:
			raw[0] = 7 // only the three cleared bits
			raw[31] = 0x80
		case 3:
			fill(rng, raw[:])
			raw[0] |= 7
			raw[31] |= 0x80
			raw[31] &^= 0x40
		case 4:
			raw[rng.IntN(32)] = 1 << rng.UintN(8)
		}
		kp, err = ntor.KeypairFromHex(hex.EncodeToString(raw[:]))
	}
	if err != nil || kp == nil {
		c.T.Fatalf("keypair kind %d: %v", kind, err)
	}
	return kp
}

func fill(rng *rand.Rand, b []byte) {
	for i := range b {
		b[i] = byte(rng.Uint32())
	}
}

// world is one complete set of handshake inputs.
type world struct {
	B, X, Y          *ntor.Keypair
	id               *ntor.NodeID
	kB, kX, kY       int
	ksBase, authBase map[string][32]byte // the unchanged run's outputs per side
	ksHeld           map[string]*ntor.KeySeed
	authHeld         map[string]*ntor.Auth
}

func mkWorld(c *mon.Case, rng *rand.Rand) *world {
	w := &world{}
	// the deployed bridge identity has no representative and both ephemerals
	// have one; all other combinations are generated too
	w.kB = []int{0, 0, 2, 3, 1}[rng.IntN(5)]
	w.kX = []int{1, 1, 1, 0, 2, 3}[rng.IntN(6)]
	w.kY = []int{1, 1, 1, 0, 2, 3}[rng.IntN(6)]
	w.B = mkKeypair(c, rng, w.kB)
	w.X = mkKeypair(c, rng, w.kX)
	w.Y = mkKeypair(c, rng, w.kY)
	var raw [ntor.NodeIDLength]byte
	switch rng.IntN(8) {
	case 0: // all zero
	case 1:
		for i := range raw {
			raw[i] = 0xff
		}
	default:
		fill(rng, raw[:])
	}
	id, err := ntor.NewNodeID(raw[:])
	if err != nil {
		c.T.Fatal(err)
	}
	w.id = id
	return w
}

func (w *world) witness() map[string]any {
	return map[string]any{
		"node_id":   w.id.Hex(),
		"B_private": w.B.Private().Hex(), "B_public": w.B.Public().Hex(), "B_kind": keypairKinds[w.kB],
		"X_private": w.X.Private().Hex(), "X_public": w.X.Public().Hex(), "X_kind": keypairKinds[w.kX],
		"Y_private": w.Y.Private().Hex(), "Y_public": w.Y.Public().Hex(), "Y_kind": keypairKinds[w.kY],
	}
}

func with(m map[string]any, kv ...any) map[string]any {
	out := map[string]any{}
	for k, v := range m {
		out[k] = v
	}
	for i := 0; i+1 < len(kv); i += 2 {
		out[fmt.Sprint(kv[i])] = kv[i+1]
	}
	return out
}

func pub(c *mon.Case, raw []byte) *ntor.PublicKey {
	p, err := ntor.NewPublicKey(raw)
	if err != nil {
		c.T.Fatal(err)
	}
	return p
}

func refClient(dh ntorref.DH, w *world, Y, B *ntor.PublicKey, id *ntor.NodeID) ntorref.Result {
	return ntorref.Client(dh, w.X.Private().Bytes(), w.X.Public().Bytes(), Y.Bytes(), B.Bytes(), id.Bytes())
}

func refServer(dh ntorref.DH, w *world, X *ntor.PublicKey, id *ntor.NodeID) ntorref.Result {
	return ntorref.Server(dh, w.Y.Private().Bytes(), w.B.Private().Bytes(), X.Bytes(), w.Y.Public().Bytes(), w.B.Public().Bytes(), id.Bytes())
}

// honest runs both sides on w and judges agreement, reference equality and
// ok.  It returns false only when the reference itself is inconsistent.
func honest(c *mon.Case, r *mon.Run, w *world, useBig bool) bool {
	r.Count("evaluations", 1)
	r.Count("handshakes_honest", 1)
	r.Count("keypairs_X_"+keypairKinds[w.kX], 1)
	r.Count("keypairs_B_"+keypairKinds[w.kB], 1)
	okC, ksC, auC := ntor.ClientHandshake(w.X, w.Y.Public(), w.B.Public(), w.id)
	okS, ksS, auS := ntor.ServerHandshake(w.X.Public(), w.Y, w.B, w.id)
	wit := w.witness()
	// baselines for the one-bit changes, per side
	w.ksBase = map[string][32]byte{"client": *ksC, "server": *ksS}
	w.authBase = map[string][32]byte{"client": *auC, "server": *auS}
	// ... and the results themselves, as handed out: later handshakes on the
	// same key pairs must not change them
	w.ksHeld = map[string]*ntor.KeySeed{"client": ksC, "server": ksS}
	w.authHeld = map[string]*ntor.Auth{"client": auC, "server": auS}
	good := true
	bad := func(sig, format string, a ...any) {
		good = false
		c.Violation(sig, fmt.Sprintf(format, a...), with(wit, "client_ok", okC, "client_key_seed", hex.EncodeToString(ksC[:]), "client_auth", hex.EncodeToString(auC[:]),
			"server_ok", okS, "server_key_seed", hex.EncodeToString(ksS[:]), "server_auth", hex.EncodeToString(auS[:])))
	}
	if !okC {
		bad("ok/false-for-ordinary-keys/client", "ClientHandshake reports failure for honestly generated keys")
	}
	if !okS {
		bad("ok/false-for-ordinary-keys/server", "ServerHandshake reports failure for honestly generated keys")
	}
	if okC && okS {
		r.Count("control_ordinary_ok_true", 1)
	}
	if *ksC != *ksS {
		bad("agree/key-seed-client-vs-server", "KEY_SEED differs: client %x server %x", ksC[:], ksS[:])
	}
	if *auC != *auS {
		bad("agree/auth-client-vs-server", "AUTH differs: client %x server %x", auC[:], auS[:])
	}
	if *auC == *auS && (!ntor.CompareAuth(auC, auS[:]) || !ntor.CompareAuth(auS, auC[:])) {
		bad("agree/compare-auth-rejects-equal", "CompareAuth rejects the peer's identical AUTH %x", auC[:])
	}
	dh := ntorref.DH(ntorref.X25519Fast)
	if useBig {
		dh = ntorref.X25519Big
		r.Count("handshakes_ref_bigint_ladder", 1)
	}
	rc := refClient(dh, w, w.Y.Public(), w.B.Public(), w.id)
	rs := refServer(dh, w, w.X.Public(), w.id)
	if rc.ZeroDH || rs.ZeroDH || rc != rs {
		// cannot happen for honest keys unless the reference itself is broken
		r.Inconclusive(fmt.Sprintf("reference inconsistent on honest keys in %s", c.Name))
		return false
	}
	if [32]byte(*ksC) != rc.KeySeed {
		bad("ref/key-seed/client", "client KEY_SEED %x, reference %x", ksC[:], rc.KeySeed[:])
	}
	if [32]byte(*auC) != rc.Auth {
		bad("ref/auth/client", "client AUTH %x, reference %x", auC[:], rc.Auth[:])
	}
	if [32]byte(*ksS) != rs.KeySeed {
		bad("ref/key-seed/server", "server KEY_SEED %x, reference %x", ksS[:], rs.KeySeed[:])
	}
	if [32]byte(*auS) != rs.Auth {
		bad("ref/auth/server", "server AUTH %x, reference %x", auS[:], rs.Auth[:])
	}
	if good {
		r.Count("control_matches_reference", 1)
	}
	// positive control for the reference comparison: a reference with X and Y
	// exchanged in the transcript (same DH values) must NOT match
	wrong := ntorref.Client(func(s, u *[32]byte) [32]byte {
		if *u == *w.B.Public().Bytes() {
			return rc.Exp2
		}
		return rc.Exp1
	}, w.X.Private().Bytes(), w.Y.Public().Bytes(), w.X.Public().Bytes(), w.B.Public().Bytes(), w.id.Bytes())
	if wrong.KeySeed != [32]byte(*ksC) && wrong.Auth != [32]byte(*auC) {
		r.Count("control_swapped_transcript_reference_differs", 1)
	}
	if w.X.HasElligator() {
		r.Count("handshakes_with_elligator_X", 1)
		if *w.X.Representative().ToPublic() == *w.X.Public() {
			r.Count("info_representative_maps_to_public", 1)
		} else {
			r.Count("info_representative_maps_elsewhere", 1) // C07's business, not judged here
		}
	}
	r.Distinct("nontrivial", "hs:"+hex.EncodeToString(ksC[:]))
	r.Distinct("key_seeds", hex.EncodeToString(ksC[:]))
	r.Distinct("keypair_kinds", fmt.Sprintf("%d%d%d", w.kB, w.kX, w.kY))
	// the binding oracle does not depend on the reference, so the world serves
	// as a baseline even when a comparison above failed
	return true
}

var flipLens = map[string]int{"ID": ntor.NodeIDLength * 8, "B": 256, "Y": 256, "X": 256}

// flip changes bit `bit` of input `what` on one side and judges binding.
func flip(c *mon.Case, r *mon.Run, w *world, side, what string, bit int) {
	r.Count("evaluations", 1)
	r.Count("flip_evaluations", 1)
	id, B, Y, X := w.id, w.B.Public(), w.Y.Public(), w.X.Public()
	mod := func(b []byte) []byte {
		o := append([]byte(nil), b...)
		o[bit/8] ^= 1 << uint(bit%8)
		return o
	}
	var changed []byte
	switch what {
	case "ID":
		changed = mod(w.id[:])
		n, err := ntor.NewNodeID(changed)
		if err != nil {
			c.T.Fatal(err)
		}
		id = n
	case "B":
		changed = mod(B[:])
		B = pub(c, changed)
	case "Y":
		changed = mod(Y[:])
		Y = pub(c, changed)
	case "X":
		changed = mod(X[:])
		X = pub(c, changed)
	}
	var ok bool
	var ks *ntor.KeySeed
	var au *ntor.Auth
	var ref ntorref.Result
	if side == "client" {
		ok, ks, au = ntor.ClientHandshake(w.X, Y, B, id)
		ref = refClient(ntorref.X25519Fast, w, Y, B, id)
	} else {
		ok, ks, au = ntor.ServerHandshake(X, w.Y, w.B, id)
		ref = refServer(ntorref.X25519Fast, w, X, id)
	}
	cls := side + "-" + what
	ksBase, authBase := w.ksBase[side], w.authBase[side]
	if h := w.ksHeld[side]; h != nil && ([32]byte(*h) != ksBase || [32]byte(*w.authHeld[side]) != authBase) {
		c.Violation("results-of-an-earlier-handshake-changed/"+side, fmt.Sprintf("KEY_SEED/AUTH returned by the first %s handshake on these key pairs read %x / %x then and %x / %x after a later handshake on the same key pairs", side, ksBase[:], authBase[:], h[:], w.authHeld[side][:]), w.witness())
		w.ksHeld[side] = nil
	} else if h != nil {
		r.Count("earlier_results_compared_again", 1)
	}
	wit := func() map[string]any {
		return with(w.witness(), "side", side, "changed_input", what, "bit", bit, "changed_value", hex.EncodeToString(changed),
			"ok", ok, "key_seed", hex.EncodeToString(ks[:]), "auth", hex.EncodeToString(au[:]),
			"unchanged_key_seed", hex.EncodeToString(ksBase[:]), "unchanged_auth", hex.EncodeToString(authBase[:]))
	}
	same := false
	if [32]byte(*ks) == ksBase {
		same = true
		c.Violation("bind/key-seed-unchanged/"+cls, fmt.Sprintf("flipping bit %d of %s on the %s side leaves KEY_SEED %x unchanged", bit, what, side, ks[:]), wit())
	}
	if [32]byte(*au) == authBase {
		same = true
		c.Violation("bind/auth-unchanged/"+cls, fmt.Sprintf("flipping bit %d of %s on the %s side leaves AUTH %x unchanged", bit, what, side, au[:]), wit())
	}
	if !same {
		r.Count("control_bitflip_changed_output", 1)
	}
	switch {
	case ref.ZeroDH:
		// a flipped key that happens to be low-order (not expected to occur)
		r.Count("flip_hit_low_order", 1)
		if ok {
			c.Violation("loworder/ok-true/"+cls+"-flipped", "flipped key has an all-zero DH result but ok=true", wit())
		}
	case ok:
		r.Count("flip_ok_true", 1)
		if [32]byte(*ks) != ref.KeySeed {
			c.Violation("ref/key-seed/flipped-"+cls, fmt.Sprintf("KEY_SEED %x, reference %x after flipping bit %d of %s", ks[:], ref.KeySeed[:], bit, what), wit())
		}
		if [32]byte(*au) != ref.Auth {
			c.Violation("ref/auth/flipped-"+cls, fmt.Sprintf("AUTH %x, reference %x after flipping bit %d of %s", au[:], ref.Auth[:], bit, what), wit())
		}
	default:
		r.Count("flip_ok_false_nonzero_dh", 1) // admissible: the property does not say a changed key must be accepted
	}
	r.Distinct("nontrivial", fmt.Sprintf("flip:%s:%d", cls, bit))
	r.Distinct("flip_positions", fmt.Sprintf("%s:%d", cls, bit))
}

var flipTargets = []struct{ side, what string }{
	{"client", "ID"}, {"client", "B"}, {"client", "Y"}, {"server", "ID"}, {"server", "X"},
}

// lowOrder puts the encoding(s) into the peer-key position(s) and judges ok.
// pos: "client-Y", "client-B", "client-YB", "server-X".
func lowOrder(c *mon.Case, r *mon.Run, w *world, pos string, e1, e2 ntorref.LowOrder, mustFail bool) {
	r.Count("evaluations", 1)
	var ok bool
	var ks *ntor.KeySeed
	var au *ntor.Auth
	var ref ntorref.Result
	switch pos {
	case "client-Y":
		Y := pub(c, e1.U[:])
		ok, ks, au = ntor.ClientHandshake(w.X, Y, w.B.Public(), w.id)
		ref = refClient(ntorref.X25519Big, w, Y, w.B.Public(), w.id)
	case "client-B":
		B := pub(c, e1.U[:])
		ok, ks, au = ntor.ClientHandshake(w.X, w.Y.Public(), B, w.id)
		ref = refClient(ntorref.X25519Big, w, w.Y.Public(), B, w.id)
	case "client-YB":
		Y, B := pub(c, e1.U[:]), pub(c, e2.U[:])
		ok, ks, au = ntor.ClientHandshake(w.X, Y, B, w.id)
		ref = refClient(ntorref.X25519Big, w, Y, B, w.id)
	case "server-X":
		X := pub(c, e1.U[:])
		ok, ks, au = ntor.ServerHandshake(X, w.Y, w.B, w.id)
		ref = refServer(ntorref.X25519Big, w, X, w.id)
	}
	label := e1.Label
	if pos == "client-YB" {
		label += "," + e2.Label
	}
	wit := func() map[string]any {
		return with(w.witness(), "position", pos, "encoding", label, "peer_key", hex.EncodeToString(e1.U[:]), "peer_key_2", hex.EncodeToString(e2.U[:]),
			"ok", ok, "key_seed", hex.EncodeToString(ks[:]), "auth", hex.EncodeToString(au[:]),
			"reference_exp1", hex.EncodeToString(ref.Exp1[:]), "reference_exp2", hex.EncodeToString(ref.Exp2[:]))
	}
	if mustFail {
		r.Count("loworder_evaluations", 1)
		r.Distinct("loworder_encodings", e1.Label)
		r.Distinct("loworder_position_encoding", pos+":"+label)
		r.Distinct("nontrivial", "low:"+pos+":"+label)
		if !ref.ZeroDH {
			r.Inconclusive("reference does not see an all-zero DH for listed low-order encoding " + label)
			return
		}
		if ok {
			r.Count("loworder_accepted", 1)
			c.Violation("loworder/ok-true/"+pos, fmt.Sprintf("peer key %s (%x) in position %s gives an all-zero DH result (reference exp1=%x exp2=%x) but ok=true", label, e1.U[:], pos, ref.Exp1[:], ref.Exp2[:]), wit())
		} else {
			r.Count("control_loworder_rejected", 1)
		}
		return
	}
	// near miss: the reference decides; ok=true is not demanded
	r.Count("nearmiss_evaluations", 1)
	r.Distinct("nearmiss_encodings", e1.Label)
	r.Distinct("nontrivial", "near:"+pos+":"+label)
	switch {
	case ref.ZeroDH:
		r.Count("nearmiss_zero_dh", 1)
		if ok {
			c.Violation("loworder/ok-true/"+pos+"-nearmiss", fmt.Sprintf("peer key %s (%x) gives an all-zero DH result but ok=true", label, e1.U[:]), wit())
		}
	case ok:
		r.Count("nearmiss_ok_true", 1)
		if [32]byte(*ks) != ref.KeySeed || [32]byte(*au) != ref.Auth {
			c.Violation("ref/nearmiss/"+pos, fmt.Sprintf("peer key %s (%x): KEY_SEED %x AUTH %x, reference %x %x", label, e1.U[:], ks[:], au[:], ref.KeySeed[:], ref.Auth[:]), wit())
		}
	default:
		r.Count("nearmiss_ok_false_nonzero_dh", 1)
	}
}

func kdfSeed(c *mon.Case, rng *rand.Rand, idx int) (string, []byte) {
	switch idx % 4 {
	case 0:
		w := mkWorld(c, rng)
		_, ks, _ := ntor.ClientHandshake(w.X, w.Y.Public(), w.B.Public(), w.id)
		return "handshake-key-seed", append([]byte(nil), ks[:]...)
	case 1:
		s := make([]byte, 32)
		fill(rng, s)
		return "random-32", s
	case 2:
		edges := []struct {
			n int
			v byte
		}{{32, 0}, {32, 0xff}, {0, 0}, {1, 0x80}, {31, 1}, {33, 2}, {64, 3}, {65, 4}, {1000, 5}}
		e := edges[(idx/4)%len(edges)]
		return fmt.Sprintf("const-%d-bytes", e.n), bytes.Repeat([]byte{e.v}, e.n)
	default:
		s := make([]byte, rng.IntN(129))
		fill(rng, s)
		return "random-length", s
	}
}

func kdfCase(c *mon.Case, r *mon.Run, idx int) {
	rng := mon.NewRand(r.Sub("kdf", idx))
	kind, seed := kdfSeed(c, rng, idx)
	keep := append([]byte(nil), seed...)
	wit := map[string]any{"key_seed": hex.EncodeToString(seed), "seed_kind": kind}
	full := ntor.Kdf(seed, kdfMax)
	if len(full) != kdfMax {
		c.Violation("kdf/length", fmt.Sprintf("Kdf(seed, %d) returned %d bytes", kdfMax, len(full)), wit)
		return
	}
	ref := ntorref.KDF(seed, kdfMax)
	if bytes.Equal(full, ref) {
		r.Count("control_kdf_matches_reference", 1)
	} else {
		c.Violation("kdf/reference", fmt.Sprintf("Kdf(%x, %d) differs from HKDF-SHA256(salt=t_key, info=m_expand): first bytes %x vs %x", seed, kdfMax, full[:16], ref[:16]), wit)
	}
	// a wrongly keyed reference must differ (the comparison is not deaf)
	if !bytes.Equal(full[:64], ntorref.HKDF(seed, []byte(ntorref.MExpand), []byte(ntorref.TKey), 64)) {
		r.Count("control_kdf_wrong_salt_reference_differs", 1)
	}
	fullCopy := append([]byte(nil), full...)
	for m := 0; m <= kdfMax; m++ {
		r.Count("evaluations", 1)
		r.Count("kdf_lengths", 1)
		got := ntor.Kdf(seed, m)
		if len(got) != m {
			c.Violation("kdf/length", fmt.Sprintf("Kdf(seed, %d) returned %d bytes", m, len(got)), with(wit, "m", m))
			continue
		}
		if !bytes.Equal(got, fullCopy[:m]) {
			c.Violation("kdf/prefix", fmt.Sprintf("Kdf(seed, %d) is not a prefix of Kdf(seed, %d)", m, kdfMax), with(wit, "m", m, "n", kdfMax))
		}
		if m%97 == 0 || m == kdfMax {
			// determinism, also after the caller scribbled over an earlier result
			first := append([]byte(nil), got...)
			for i := range got {
				got[i] ^= 0xa5
			}
			again := ntor.Kdf(seed, m)
			if !bytes.Equal(again, first) {
				c.Violation("kdf/nondeterministic", fmt.Sprintf("second Kdf(seed, %d) differs from the first", m), with(wit, "m", m))
			}
			r.Count("kdf_repeat_calls", 1)
		}
		r.Distinct("nontrivial", fmt.Sprintf("kdf:%d", m))
	}
	// the property's literal form on sampled pairs m < n
	for i := 0; i < 200; i++ {
		n := 1 + rng.IntN(kdfMax)
		m := rng.IntN(n)
		r.Count("evaluations", 1)
		r.Count("kdf_pairs", 1)
		a, b := ntor.Kdf(seed, n), ntor.Kdf(seed, m)
		if len(a) != n || len(b) != m || !bytes.Equal(a[:m], b) {
			c.Violation("kdf/prefix", fmt.Sprintf("Kdf(seed, %d)[:%d] != Kdf(seed, %d)", n, m, m), with(wit, "m", m, "n", n))
		}
	}
	if !bytes.Equal(seed, keep) {
		c.Violation("kdf/modifies-input", "Kdf changed the caller's key seed", wit)
	}
	r.Count("kdf_seeds", 1)
	r.Distinct("kdf_seed_kinds", kind)
	if idx == 0 {
		r.Sample(map[string]any{"kind": "kdf", "seed_kind": kind, "key_seed": hex.EncodeToString(seed), "okm_first_32": hex.EncodeToString(full[:32]), "lengths": "0..8160"})
	}
}

// concurrentHandshakes: both handshake functions and Kdf are pure functions of
// their arguments, and a bridge runs them for many connections at once, so
// what they return while 16 goroutines call them in parallel must equal what
// the same calls returned one after the other.  Exact oracle, no reference.
func concurrentHandshakes(c *mon.Case, r *mon.Run, seed uint64, calls int) {
	defer steer.Install(steer.New(seed ^ 0x77))()
	rng := mon.NewRand(seed)
	const nW = 96
	type res struct {
		okC, okS           bool
		ksC, auC, ksS, auS [32]byte
		kdf                [72]byte
	}
	ws := make([]*world, nW)
	want := make([]res, nW)
	run := func(w *world) (o res) {
		okC, ksC, auC := ntor.ClientHandshake(w.X, w.Y.Public(), w.B.Public(), w.id)
		okS, ksS, auS := ntor.ServerHandshake(w.X.Public(), w.Y, w.B, w.id)
		o.okC, o.okS, o.ksC, o.auC, o.ksS, o.auS = okC, okS, *ksC, *auC, *ksS, *auS
		copy(o.kdf[:], ntor.Kdf(ksC[:], len(o.kdf)))
		return
	}
	for i := range ws {
		ws[i] = mkWorld(c, rng)
		want[i] = run(ws[i])
	}
	workers := 16
	var wg sync.WaitGroup
	var bad, firstBad atomic.Int64
	firstBad.Store(-1)
	for g := 0; g < workers; g++ {
		g := g
		wg.Add(1)
		go func() {
			defer wg.Done()
			for k := 0; k < calls/workers; k++ {
				i := (k*7 + g*13) % nW
				if run(ws[i]) != want[i] {
					bad.Add(1)
					firstBad.CompareAndSwap(-1, int64(i))
				}
			}
		}()
	}
	wg.Wait()
	r.Count("evaluations", int64(calls))
	r.Count("concurrent_handshake_rounds", int64(calls))
	if n := bad.Load(); n > 0 {
		w := ws[firstBad.Load()]
		c.Violation("concurrent/result-differs-from-sequential", fmt.Sprintf("%d of %d client+server handshake rounds run concurrently from %d goroutines returned something else (ok, KEY_SEED, AUTH or Kdf output) than the same calls made alone", n, calls, workers), w.witness())
	} else {
		r.Count("control_concurrent_equals_sequential", 1)
	}
}

func TestCheck(t *testing.T) {
	r := mon.Start(t, "C08")
	defer r.Finish()
	r.Note("rule", "Worlds (identity key pair B, node ID, ephemeral pairs X and Y) are drawn by PRNG: key pairs from ntor.NewKeypair with and without Elligator (crypto/rand steered by a seeded source) and from KeypairFromHex with random and edge private keys (all-zero, all-ones, only-clamped-bits); node IDs random, all-zero, all-ones. Per world: one honest client+server run against the reference; one-bit changes of NODEID/B/Y (client side) and NODEID/X (server side) - one random bit per input in the hs/ cases, every bit position in the flipall/ cases; in the low/ cases each of the 14 encodings of the 7 low-order u-coordinates (value and value+2^255) as Y, as B, as both (diagonal plus random pairs) on the client and as X on the server, plus near-miss encodings judged by the reference. Concurrency: 96 worlds whose client+server handshake and Kdf results were computed one after the other are recomputed by 16 goroutines in parallel and must be identical. Kdf: per seed every length 0..8160 against Kdf(seed,8160), 200 sampled pairs m<n, repeat calls. Non-trivial/distinct: distinct KEY_SEED of an honest run; distinct (side,input,bit) of a flip; distinct (position,encoding) of a low-order or near-miss key; distinct Kdf length.")
	r.Note("exhaustive_part", "every bit position of NODEID (160), B, Y (client) and NODEID, X (server) for the flipall/ worlds; all 14 low-order encodings in all 4 positions for every low/ world; every Kdf length 0..8160 for every Kdf seed")
	r.Note("not_judged", "KEY_SEED/AUTH returned with ok=false; ok for hostile keys whose DH result is non-zero; Kdf lengths > 8160 (panic by design); representative->public mapping (C07)")

	for ci := 0; ci < r.Pick(4, 16); ci++ {
		ci := ci
		r.Case(fmt.Sprintf("concurrent/%02d", ci), func(c *mon.Case) {
			concurrentHandshakes(c, r, r.Sub("conc", ci), r.Pick(4000, 40000))
			r.Distinct("nontrivial", fmt.Sprintf("concurrent/%d", ci))
		})
	}

	const nHS = 64
	perHS := r.Pick(10, 700)
	for b := 0; b < nHS; b++ {
		b := b
		r.Case(fmt.Sprintf("hs/%02d", b), func(c *mon.Case) {
			defer steer.Install(steer.New(r.Sub("steer-hs", b)))()
			rng := mon.NewRand(r.Sub("hs", b))
			for i := 0; i < perHS; i++ {
				w := mkWorld(c, rng)
				if !honest(c, r, w, i%16 == 0) {
					continue
				}
				for _, ft := range flipTargets {
					flip(c, r, w, ft.side, ft.what, rng.IntN(flipLens[ft.what]))
				}
				if b == 0 && i < 2 {
					ksC0, auC0 := w.ksBase["client"], w.authBase["client"]
					r.Sample(with(w.witness(), "kind", "honest", "key_seed", hex.EncodeToString(ksC0[:]), "auth", hex.EncodeToString(auC0[:])))
				}
			}
		})
	}

	nFlipAll := r.Pick(2, 32)
	for k := 0; k < nFlipAll; k++ {
		k := k
		r.Case(fmt.Sprintf("flipall/%02d", k), func(c *mon.Case) {
			defer steer.Install(steer.New(r.Sub("steer-flipall", k)))()
			rng := mon.NewRand(r.Sub("flipall", k))
			w := mkWorld(c, rng)
			if !honest(c, r, w, true) {
				return
			}
			for _, ft := range flipTargets {
				for bit := 0; bit < flipLens[ft.what]; bit++ {
					flip(c, r, w, ft.side, ft.what, bit)
				}
			}
			r.Count("flipall_worlds", 1)
		})
	}

	enc := ntorref.LowOrderEncodings()
	near := ntorref.NearMissEncodings()
	nLow := r.Pick(8, 32)
	perLow := r.Pick(2, 8)
	for k := 0; k < nLow; k++ {
		k := k
		r.Case(fmt.Sprintf("low/%02d", k), func(c *mon.Case) {
			defer steer.Install(steer.New(r.Sub("steer-low", k)))()
			rng := mon.NewRand(r.Sub("low", k))
			for i := 0; i < perLow; i++ {
				w := mkWorld(c, rng)
				if !honest(c, r, w, true) {
					continue
				}
				for _, e := range enc {
					lowOrder(c, r, w, "client-Y", e, e, true)
					lowOrder(c, r, w, "client-B", e, e, true)
					lowOrder(c, r, w, "client-YB", e, e, true)
					lowOrder(c, r, w, "client-YB", e, enc[rng.IntN(len(enc))], true)
					lowOrder(c, r, w, "server-X", e, e, true)
				}
				for _, e := range near {
					lowOrder(c, r, w, "client-Y", e, e, false)
					lowOrder(c, r, w, "client-B", e, e, false)
					lowOrder(c, r, w, "server-X", e, e, false)
				}
				if k == 0 && i == 0 {
					r.Sample(map[string]any{"kind": "low-order", "encodings": labels(enc), "near_miss": labels(near), "positions": []string{"client-Y", "client-B", "client-YB", "server-X"}})
				}
			}
		})
	}

	nKdf := r.Pick(4, 64)
	for k := 0; k < nKdf; k++ {
		k := k
		r.Case(fmt.Sprintf("kdf/%02d", k), func(c *mon.Case) {
			defer steer.Install(steer.New(r.Sub("steer-kdf", k)))()
			kdfCase(c, r, k)
		})
	}
}

func labels(l []ntorref.LowOrder) []string {
	var out []string
	for _, e := range l {
		out = append(out, e.Label+"="+hex.EncodeToString(e.U[:]))
	}
	return out
}
