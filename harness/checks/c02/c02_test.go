// C02 — obfs4 client only completes with the holder of the bridge identity key.
//
// The outcome of every case is known by construction: a genuine untouched
// pair must complete and move data both ways; an impostor that knows the whole
// public bridge line (valid mark and MAC) but not the private key, a replayed
// genuine response, a client configured with a different NODEID/B, or any
// modification of a genuine response must make Dial fail with no application
// byte delivered and nothing but the hello written by the client.
package c02

import (
	"bytes"
	"encoding/hex"
	"fmt"
	"io"
	"net"
	"sync"
	"testing"
	"testing/synctest"
	"time"

	"gitlab.com/yawning/obfs4.git/transports/base"

	"verif/memwire"
	"verif/mon"
	"verif/o4"
	ntorref "verif/ref/ntor"
	ref "verif/ref/obfs4"
)

// ("head…": a short first read, then everything that is there with each later
// read — the response is completed by a read that also brings whatever the
// server sent behind it; "4096"/"8191": reads as large as a receive buffer)
var chunkings = []string{"all", "1", "31", "33", "63", "65", "prng", "head50", "headprng", "4096", "8191"}

func chunk(i int, seed uint64) memwire.ChunkPolicy {
	switch chunkings[i%len(chunkings)] {
	case "1":
		return memwire.Fixed(1)
	case "31":
		return memwire.Fixed(31)
	case "33":
		return memwire.Fixed(33)
	case "63":
		return memwire.Fixed(63)
	case "65":
		return memwire.Fixed(65)
	case "prng":
		return memwire.PRNG(seed, 700)
	case "head50":
		return memwire.Script([]int{50}, memwire.All())
	case "headprng":
		return memwire.Script([]int{1 + int(seed%1500)}, memwire.All())
	case "4096":
		return memwire.Fixed(4096)
	case "8191":
		return memwire.Fixed(8191)
	}
	return memwire.All()
}

// tamper describes one modification of the server's first write
// (response | seed frame).
type tamper struct {
	kind  string // "bit", "truncate", "insert", "delete", "none"
	field string // repr auth pad mark mac seedframe
	bit   int    // bit index inside the field (kind bit), byte index otherwise
}

func (t tamper) String() string { return fmt.Sprintf("%s/%s/%d", t.kind, t.field, t.bit) }

// fieldRange locates a field of the response from public information only.
func fieldRange(br ref.Bridge, data []byte, field string) (lo, hi int, ok bool) {
	if len(data) < 96 {
		return 0, 0, false
	}
	mark := ref.MarkMac(br.Pub, br.NodeID, data[:32])
	pos := bytes.Index(data[64:], mark)
	if pos < 0 {
		return 0, 0, false
	}
	pos += 64
	switch field {
	case "repr":
		return 0, 32, true
	case "auth":
		return 32, 64, true
	case "pad":
		return 64, pos, pos > 64
	case "mark":
		return pos, pos + 16, true
	case "mac":
		return pos + 16, pos + 32, true
	case "seedframe":
		return pos + 32, len(data), len(data) > pos+32
	}
	return 0, 0, false
}

type outcome struct {
	dialErr       error
	clientGot     int64 // application bytes delivered to the client
	serverGot     int64
	clientWrites  int // wire writes by the client
	clientReadErr error
	pingPong      bool
	dialAt        time.Duration
}

// mitmCase runs real client <-> real server with the server's first write
// modified by t.
//
// serverFirst is how many stream bytes the server application sends right
// behind its handshake (100 everywhere except in part of the genuine cases).
var serverFirst = 100

// serverWaits: the server application says nothing until it has heard from the
// client (the usual order under Tor): nothing follows the server's handshake
// flight on the wire, so however that flight is cut up, its last piece has to
// be enough for the client to complete.
var serverWaits = false

// hourRollover: the client builds its handshake in the last half second of an
// hour (of the virtual clock both ends share) and the network takes a second
// to deliver it, so the server reads it in the next hour.
var hourRollover = false

func mitmCase(c *mon.Case, r *mon.Run, sf base.ServerFactory, b o4.Bridge, t tamper, chunkIdx int, seed uint64, clientArgsBridge o4.Bridge) (out outcome, applied bool) {
	if hourRollover {
		time.Sleep(time.Until(time.Now().Truncate(time.Hour).Add(time.Hour - 400*time.Millisecond)))
	}
	cw, sw := memwire.Pair(memwire.Options{Keep: true})
	c2s, s2c := cw.Out(), sw.Out()
	s2c.SetPolicy(chunk(chunkIdx, seed))
	first := true
	s2c.SetRewrite(func(off int64, p []byte) []byte {
		if !first {
			return p
		}
		first = false
		if t.kind == "none" {
			applied = true
			return p
		}
		lo, hi, ok := fieldRange(b.Ref, p, t.field)
		if !ok {
			return p
		}
		switch t.kind {
		case "bit":
			if t.bit/8 >= hi-lo {
				return p
			}
			p[lo+t.bit/8] ^= 1 << (t.bit % 8)
			applied = true
		case "truncate":
			at := lo + t.bit%(hi-lo)
			applied = true
			return p[:at]
		case "insert":
			// (strictly before the end of the field: a byte inserted right behind
			// MAC_S leaves the response itself intact and only damages the frame
			// stream that follows, which is the seed-frame class)
			at := lo + t.bit%(hi-lo)
			applied = true
			return append(append(append([]byte{}, p[:at]...), byte(seed)), p[at:]...)
		case "delete":
			at := lo + t.bit%(hi-lo)
			applied = true
			return append(append([]byte{}, p[:at]...), p[at+1:]...)
		}
		return p
	})
	start := time.Now()
	var wg sync.WaitGroup
	st := mon.Stream{Key: seed}
	wg.Add(1)
	c.Go(wg.Done, func() {
		sc, err := sf.WrapConn(sw)
		if err != nil {
			return
		}
		// server application: send serverFirst stream bytes at once (or, if it
		// waits, once the client's 50 bytes are there), echo nothing; count what arrives
		waits := serverWaits
		if !waits {
			sc.Write(st.Bytes(0, serverFirst))
		}
		buf := make([]byte, 4096)
		for {
			n, err := sc.Read(buf)
			out.serverGot += int64(n)
			if waits && out.serverGot >= 50 {
				waits = false
				sc.Write(st.Bytes(0, serverFirst))
			}
			if err != nil {
				return
			}
		}
	})
	if hourRollover {
		c2s.Pause(true)
		wg.Add(1)
		c.Go(wg.Done, func() {
			time.Sleep(time.Second)
			c2s.Pause(false)
		})
	}
	cc, err := o4.DialReal(cw, clientArgsBridge.ClientArgsCert())
	out.dialErr = err
	out.dialAt = time.Since(start)
	if err == nil {
		// try to use it
		cc.Write(st.Bytes(1000, 50))
		tm := time.AfterFunc(5*time.Second, func() { cw.Close() })
		defer tm.Stop()
		buf := make([]byte, serverFirst+4096)
		got := 0
		for got < serverFirst {
			n, err := cc.Read(buf[got:])
			got += n
			if err != nil {
				out.clientReadErr = err
				break
			}
		}
		out.clientGot = int64(got)
		out.pingPong = got == serverFirst && st.Check(buf[:serverFirst], 0) < 0
		synctest.Wait() // let the server application drain what the client wrote
		cc.Close()
	}
	cw.Close()
	synctest.Wait()
	sw.Close()
	wg.Wait()
	w, _, cdata := c2s.Snapshot()
	out.clientWrites = len(w)
	noteRepr(r, "c", cdata)
	_, _, sdata := s2c.Snapshot() // (transcript as the server wrote it, before the middlebox)
	noteRepr(r, "s", sdata)
	return out, applied
}

// noteRepr records the ephemeral representative (first 32 bytes) of a hello or
// a genuine server response: across the whole run they must be pairwise distinct.
func noteRepr(r *mon.Run, side string, data []byte) {
	if len(data) < 32 {
		return
	}
	r.Distinct("ephemeral_reprs", side+hex.EncodeToString(data[:32]))
	r.Count("ephemeral_reprs_seen", 1)
}

func expectFail(c *mon.Case, r *mon.Run, class string, out outcome, w any) {
	r.Count("evaluations", 1)
	r.Count("expect_fail_cases", 1)
	if out.clientGot > 0 {
		c.Violation("data-delivered/"+class, fmt.Sprintf("%d application bytes were delivered to the client although the peer/response was not genuine (%s)", out.clientGot, class), w)
	}
	if out.dialErr == nil {
		if class == "mitm/seedframe" {
			// fields behind MAC_S are outside what the property enumerates: Dial
			// may return, but the first Read must fail and deliver nothing
			if out.clientReadErr == nil {
				c.Violation("no-error/"+class, "tampered seed frame: neither Dial nor the first Read reported an error", w)
			}
			r.Count("seedframe_detected_at_first_read", 1)
			return
		}
		c.Violation("handshake-completed/"+class, fmt.Sprintf("Dial succeeded although the peer/response was not genuine (%s)", class), w)
		return
	}
	if out.clientWrites > 1 {
		c.Violation("client-wrote-after-hello/"+class, fmt.Sprintf("client put %d writes on the wire, expected only the hello", out.clientWrites), w)
	}
	r.Count("failed_as_expected", 1)
	r.Distinct("error_kinds", errKind(out.dialErr))
	r.Count("err_"+errKind(out.dialErr), 1)
}

func errKind(err error) string {
	s := err.Error()
	switch {
	case bytes.Contains([]byte(s), []byte("AUTH mismatch")):
		return "auth-mismatch"
	case bytes.Contains([]byte(s), []byte("MAC mismatch")):
		return "mac-mismatch"
	case bytes.Contains([]byte(s), []byte("timeout")):
		return "deadline"
	case bytes.Contains([]byte(s), []byte("Failed to find")):
		return "mark-not-found"
	case bytes.Contains([]byte(s), []byte("ntor")):
		return "ntor-failed"
	case err == io.EOF || bytes.Contains([]byte(s), []byte("EOF")):
		return "eof"
	case bytes.Contains([]byte(s), []byte("framing")) || bytes.Contains([]byte(s), []byte("packet")):
		return "frame-error"
	}
	return "other"
}

// impostor serves one connection as a reference server holding the wrong key
// (or replaying a recorded response) and reports what the real client did.
func impostorCase(c *mon.Case, r *mon.Run, victim o4.Bridge, mode string, recorded []byte, chunkIdx int, seed uint64) outcome {
	var out outcome
	rng := mon.NewRand(seed)
	cw, sw := memwire.Pair(memwire.Options{Keep: true})
	sw.Out().SetPolicy(chunk(chunkIdx, seed))
	var wg sync.WaitGroup
	wg.Add(1)
	c.Go(wg.Done, func() {
		imp := victim // knows NODEID, B (public) and the seed does not matter
		switch mode {
		case "wrong-identity-key":
			io.ReadFull(o4.RandReader{R: rng}, imp.Ref.Priv[:]) // some other private key; Pub stays the victim's
			rc, _, _, err := o4.RefAccept(sw, imp, rng, -1)
			if err == nil {
				rc.WriteData(mon.Stream{Key: seed}.Bytes(0, 100), 0, 0)
			}
		case "degenerate-identity-key":
			// the bridge line carries a public key of small order: no private
			// key exists and EXP(B,x) is the all-zero string for every client
			// secret, so anybody can compute AUTH.  The client must refuse.
			rc, _, _, err := o4.RefAcceptForged(sw, imp, rng, -1, [32]byte{})
			if err == nil {
				rc.WriteData(mon.Stream{Key: seed}.Bytes(0, 100), 0, 0)
			}
		case "replayed-response":
			// read the hello, answer with a response recorded from the genuine server
			buf := make([]byte, 8192)
			got := 0
			for got < 141 {
				n, err := sw.Read(buf)
				got += n
				if err != nil {
					return
				}
			}
			sw.Write(recorded)
		}
		// keep the connection open until the client gives up
		buf := make([]byte, 8192)
		for {
			if _, err := sw.Read(buf); err != nil {
				return
			}
		}
	})
	start := time.Now()
	cc, err := o4.DialReal(cw, victim.ClientArgsCert())
	out.dialErr, out.dialAt = err, time.Since(start)
	if err == nil {
		// (already a violation; see what the application would get, but do not
		// wait for ever on a silent impostor)
		tm := time.AfterFunc(5*time.Second, func() { cw.Close() })
		buf := make([]byte, 4096)
		n, rerr := cc.Read(buf)
		tm.Stop()
		out.clientGot, out.clientReadErr = int64(n), rerr
		cc.Close()
	}
	cw.Close()
	sw.Close()
	wg.Wait()
	w, _, cdata := cw.Out().Snapshot()
	out.clientWrites = len(w)
	noteRepr(r, "c", cdata)
	return out
}

func TestCheck(t *testing.T) {
	r := mon.Start(t, "C02")
	defer r.Finish()
	r.SpinWatch(memwire.BytesMoved)
	r.Note("rule", "per bridge: genuine control (must complete, data both ways; every fifth with the hour changing between the client's hello and the server's reading it; the server speaking first with 100, 8192 or 20000 bytes right behind its handshake, under every chunking); man-in-the-middle on a genuine real server's first write: EVERY single bit of representative, AUTH, mark and MAC (768 bits) plus PRNG-sampled padding bits and seed-frame bits, truncation/insertion/deletion inside every field, field offsets found from public data only; impostor servers (reference implementation with the victim's public B and NODEID but another private key; replay of a recorded genuine response; bridge lines whose public key is any of the 14 encodings of a small-order point, served by a peer that computes AUTH with EXP(B,x)=0); clients configured with NODEID or B differing in one bit or random; all under response chunkings {all,1,31,33,63,65,PRNG<=700, a short head then everything, 4096, 8191}; 32 clients handshaking concurrently against one factory under the race detector; ephemeral representatives of all hellos/responses must be pairwise distinct. Non-trivial = a case whose modification was actually applied (or an impostor/misconfiguration/genuine case that ran); distinct = (bridge, class, position, chunking).")
	dir := o4.StateDir("c02")
	nBridges := r.Pick(4, 24)
	for bi := 0; bi < nBridges; bi++ {
		for _, field := range []string{"repr", "auth", "mark", "mac"} {
			nbits := map[string]int{"repr": 256, "auth": 256, "mark": 128, "mac": 128}[field]
			for blk := 0; blk < nbits/32; blk++ {
				bi, field, blk := bi, field, blk
				r.Bubble(fmt.Sprintf("mitm/b%02d/%s/bits%03d", bi, field, blk*32), func(c *mon.Case) {
					b, sf := bridge(c, r, dir, bi)
					if sf == nil {
						return
					}
					for bit := blk * 32; bit < blk*32+32; bit++ {
						tm := tamper{"bit", field, bit}
						out, applied := mitmCase(c, r, sf, b, tm, bit+bi, r.Sub("m", bi, field, bit), b)
						if !applied {
							c.Violation("harness/tamper-not-applied", tm.String(), nil)
							continue
						}
						r.Distinct("nontrivial", fmt.Sprintf("%d/%s/%d", bi, tm, (bit+bi)%len(chunkings)))
						r.Count("mitm_bits_"+field, 1)
						expectFail(c, r, "mitm/"+field, out, map[string]any{"bridge": bi, "tamper": tm.String(), "chunking": chunkings[(bit+bi)%len(chunkings)], "dial_err": fmt.Sprint(out.dialErr), "dial_at": out.dialAt.String()})
					}
				})
			}
		}
		bi := bi
		r.Bubble(fmt.Sprintf("mitm/b%02d/other", bi), func(c *mon.Case) {
			b, sf := bridge(c, r, dir, bi)
			if sf == nil {
				return
			}
			rng := mon.NewRand(r.Sub("other", bi))
			var ts []tamper
			for i := 0; i < 24; i++ {
				ts = append(ts, tamper{"bit", "pad", rng.IntN(8051 * 8)})
				ts = append(ts, tamper{"bit", "seedframe", rng.IntN(45 * 8)})
			}
			for _, f := range []string{"repr", "auth", "pad", "mark", "mac", "seedframe"} {
				for _, k := range []string{"truncate", "insert", "delete"} {
					ts = append(ts, tamper{k, f, rng.IntN(1 << 16)})
				}
			}
			for i, tm := range ts {
				out, applied := mitmCase(c, r, sf, b, tm, i, r.Sub("o", bi, i), b)
				if !applied {
					r.Count("tamper_not_applicable", 1) // e.g. padding bit beyond a short padding
					continue
				}
				r.Distinct("nontrivial", fmt.Sprintf("%d/%s/%d", bi, tm, i%len(chunkings)))
				cls := "mitm/" + tm.field
				if tm.kind != "bit" {
					cls = "mitm/" + tm.kind
					if tm.field == "seedframe" {
						cls = "mitm/seedframe"
					}
				}
				r.Count("mitm_other_"+tm.kind+"_"+tm.field, 1)
				expectFail(c, r, cls, out, map[string]any{"bridge": bi, "tamper": tm.String(), "dial_err": fmt.Sprint(out.dialErr), "dial_at": out.dialAt.String()})
			}
		})
		r.Bubble(fmt.Sprintf("impostor/b%02d", bi), func(c *mon.Case) {
			b, sf := bridge(c, r, dir, bi)
			if sf == nil {
				return
			}
			// record a genuine response for the replay impostor
			cw, sw := memwire.Pair(memwire.Options{Keep: true})
			c.Go(nil, func() { sf.WrapConn(sw) })
			rng := mon.NewRand(r.Sub("imp", bi))
			_, _, sr, err := o4.RefDial(cw, b.Ref, rng, -1, o4.Hours(0))
			if err != nil {
				c.Violation("control/genuine-refused", err.Error(), nil)
				return
			}
			_, _, data := sw.Out().Snapshot()
			recorded := append([]byte(nil), data[:sr.Len+ref.SeedFrameLength]...)
			cw.Close()
			sw.Close()
			for i := 0; i < r.Pick(7, 28); i++ {
				for _, mode := range []string{"wrong-identity-key", "replayed-response"} {
					out := impostorCase(c, r, b, mode, recorded, i, r.Sub("impc", bi, i, mode))
					r.Distinct("nontrivial", fmt.Sprintf("%d/imp/%s/%d", bi, mode, i))
					r.Count("impostor_"+mode, 1)
					expectFail(c, r, "impostor/"+mode, out, map[string]any{"bridge": bi, "mode": mode, "chunking": chunkings[i%len(chunkings)], "dial_err": fmt.Sprint(out.dialErr)})
				}
			}
		})
		r.Bubble(fmt.Sprintf("impostor-degenerate/b%02d", bi), func(c *mon.Case) {
			b, sf := bridge(c, r, dir, bi)
			if sf == nil {
				return
			}
			// bridge lines whose public key is one of the encodings of a
			// small-order point; the peer is anybody who has read that line
			for i, e := range ntorref.LowOrderEncodings() {
				v := b
				v.Ref.Pub = e.U
				out := impostorCase(c, r, v, "degenerate-identity-key", nil, i+bi, r.Sub("impd", bi, i))
				r.Distinct("nontrivial", fmt.Sprintf("%d/impd/%s", bi, e.Label))
				r.Count("impostor_degenerate-identity-key", 1)
				expectFail(c, r, "impostor/degenerate-identity-key", out, map[string]any{"bridge": bi, "identity_key": fmt.Sprintf("%x (%s)", e.U, e.Label), "dial_err": fmt.Sprint(out.dialErr)})
			}
		})
		r.Bubble(fmt.Sprintf("misconfig/b%02d", bi), func(c *mon.Case) {
			b, sf := bridge(c, r, dir, bi)
			if sf == nil {
				return
			}
			rng := mon.NewRand(r.Sub("mis", bi))
			for i := 0; i < r.Pick(6, 24); i++ {
				wrong := b
				what := ""
				switch i % 4 {
				case 0:
					wrong.Ref.NodeID[rng.IntN(20)] ^= 1 << rng.IntN(8)
					what = "nodeid-bit"
				case 1:
					wrong.Ref.Pub[rng.IntN(32)] ^= 1 << rng.IntN(8)
					what = "pubkey-bit"
				case 2:
					io.ReadFull(o4.RandReader{R: rng}, wrong.Ref.NodeID[:])
					what = "nodeid-random"
				case 3:
					wrong = o4.NewBridge(rng, b.IAT)
					wrong.Ref.NodeID = b.Ref.NodeID
					what = "pubkey-of-another-bridge"
				}
				out, _ := mitmCase(c, r, sf, b, tamper{kind: "none"}, i, r.Sub("misc", bi, i), wrong)
				r.Distinct("nontrivial", fmt.Sprintf("%d/mis/%s/%d", bi, what, i))
				r.Count("misconfig_"+what, 1)
				if out.serverGot > 0 {
					c.Violation("data-delivered-to-server/misconfig", "server application received data from a client configured for another identity", nil)
				}
				expectFail(c, r, "misconfig/"+what, out, map[string]any{"bridge": bi, "what": what, "dial_err": fmt.Sprint(out.dialErr), "dial_at": out.dialAt.String()})
			}
		})
		r.Bubble(fmt.Sprintf("genuine/b%02d", bi), func(c *mon.Case) {
			b, sf := bridge(c, r, dir, bi)
			if sf == nil {
				return
			}
			for i := 0; i < r.Pick(4*len(chunkings), 12*len(chunkings)); i++ {
				// the server speaks first: 100 bytes, or a bulk of 8..20 KiB right behind
				// its handshake (under every chunking of what the client reads) — or
				// the client does and nothing follows the server's handshake flight
				serverFirst = []int{100, 8192, 20000, 100}[(i/len(chunkings))%4]
				serverWaits = (i/len(chunkings))%4 == 3
				// every fifth: the hour changes between the client's hello and the server's reading it
				hourRollover = i%5 == 4
				out, _ := mitmCase(c, r, sf, b, tamper{kind: "none"}, i, r.Sub("gen", bi, i), b)
				if hourRollover {
					r.Count("genuine_across_the_top_of_the_hour", 1)
				}
				hourRollover = false
				first := serverFirst
				serverFirst = 100
				if serverWaits {
					r.Count("genuine_client_speaks_first", 1)
				}
				serverWaits = false
				r.Count("evaluations", 1)
				r.Count(fmt.Sprintf("genuine_server_first_%d_bytes", first), 1)
				if out.dialErr != nil || !out.pingPong || out.serverGot != 50 {
					c.Violation("genuine-pair-failed", fmt.Sprintf("untouched genuine pair: dial err=%v, client got %d/%d (ok=%v), server got %d/50", out.dialErr, out.clientGot, first, out.pingPong, out.serverGot), map[string]any{"bridge": bi, "i": i, "chunking": chunkings[i%len(chunkings)], "server_first_bytes": first})
					continue
				}
				r.Count("control_genuine_completed", 1)
				r.Distinct("nontrivial", fmt.Sprintf("%d/gen/%d", bi, i))
			}
		})
		r.Bubble(fmt.Sprintf("concurrent/b%02d", bi), func(c *mon.Case) {
			b, sf := bridge(c, r, dir, bi)
			if sf == nil {
				return
			}
			const N = 32
			var wg sync.WaitGroup
			var mu sync.Mutex
			reprs := map[string]int{}
			okN := 0
			for k := 0; k < N; k++ {
				k := k
				wg.Add(2)
				cw, sw := memwire.Pair(memwire.Options{Keep: true})
				st := mon.Stream{Key: r.Sub("cc", bi, k)}
				c.Go(wg.Done, func() {
					sc, err := sf.WrapConn(sw)
					if err != nil {
						return
					}
					sc.Write(st.Bytes(0, 64))
					buf := make([]byte, 64)
					io.ReadFull(sc, buf)
				})
				c.Go(wg.Done, func() {
					time.Sleep(time.Duration(k%4) * time.Millisecond)
					cc, err := o4.DialReal(cw, b.ClientArgsCert())
					if err != nil {
						c.Violation("genuine-pair-failed/concurrent", err.Error(), nil)
						sw.Close()
						return
					}
					buf := make([]byte, 64)
					_, err = io.ReadFull(cc, buf)
					cc.Write(buf)
					_, _, cd := cw.Out().Snapshot()
					_, _, sd := sw.Out().Snapshot()
					mu.Lock()
					if err == nil && st.Check(buf, 0) < 0 {
						okN++
					}
					if len(cd) >= 32 && len(sd) >= 32 {
						reprs["c"+hex.EncodeToString(cd[:32])]++
						reprs["s"+hex.EncodeToString(sd[:32])]++
					}
					mu.Unlock()
					cc.Close()
					sw.Close()
				})
			}
			wg.Wait()
			r.Count("evaluations", N)
			r.Count("concurrent_handshakes", int64(okN))
			if okN != N {
				c.Violation("genuine-pair-failed/concurrent", fmt.Sprintf("%d of %d concurrent handshakes completed", okN, N), nil)
			}
			if len(reprs) != 2*N {
				c.Violation("ephemeral-key-reused", fmt.Sprintf("%d distinct representatives on the wire for %d hellos and %d responses", len(reprs), N, N), nil)
			}
			for k := range reprs {
				r.Distinct("ephemeral_reprs", k)
			}
			r.Count("ephemeral_reprs_seen", 2*N)
			r.Distinct("nontrivial", fmt.Sprintf("%d/concurrent", bi))
		})
	}
}

func bridge(c *mon.Case, r *mon.Run, dir string, bi int) (o4.Bridge, base.ServerFactory) {
	rng := mon.NewRand(r.Sub("bridge", bi))
	b := o4.NewBridge(rng, 0)
	sf, err := o4.ServerFactory(dir, b)
	if err != nil {
		c.Violation("setup/server-factory", err.Error(), nil)
		return b, nil
	}
	return b, sf
}

var _ net.Conn
